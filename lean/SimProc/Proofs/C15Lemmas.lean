/-
C15 — helper lemmas: the data log is append-only, the clock does not move inside an event.

`RN w = (w.recs, w.now)` is the observable "log and clock".  Functions that write no record
preserve `RN`; all the others satisfy `ExtN w (f w)`: same clock, the log is extended.
-/
import SimProc.Model.World
import SimProc.Proofs.FloorCore2
import SimProc.Proofs.ResourceLemmas
import Lean

namespace SimProc
namespace C15
open World FloorCoreL
open Lean Elab Tactic Meta

/-- The log and the clock. -/
def RN (w : World) : List Rec × Int := (w.recs, w.now)

/-- `w'` extends the log of `w`: nothing was removed or rewritten. -/
def Ext (w w' : World) : Prop := ∃ l, w'.recs = w.recs ++ l

/-- `w'` extends the log of `w` and has the same clock. -/
structure ExtN (w w' : World) : Prop where
  now_eq : w'.now = w.now
  ext : Ext w w'

theorem Ext.refl (w : World) : Ext w w := ⟨[], by simp⟩

theorem Ext.trans {a b c : World} (h1 : Ext a b) (h2 : Ext b c) : Ext a c := by
  obtain ⟨l1, h1⟩ := h1; obtain ⟨l2, h2⟩ := h2
  exact ⟨l1 ++ l2, by rw [h2, h1, List.append_assoc]⟩

theorem ExtN.refl (w : World) : ExtN w w := ⟨rfl, Ext.refl w⟩

theorem ExtN.trans {a b c : World} (h1 : ExtN a b) (h2 : ExtN b c) : ExtN a c :=
  ⟨h2.1.trans h1.1, h1.2.trans h2.2⟩

theorem RN_recs {w w' : World} (h : RN w' = RN w) : w'.recs = w.recs := congrArg Prod.fst h
theorem RN_now {w w' : World} (h : RN w' = RN w) : w'.now = w.now := congrArg Prod.snd h

theorem ExtN.of_RN {w w' : World} (h : RN w' = RN w) : ExtN w w' :=
  ⟨RN_now h, ⟨[], by simp [RN_recs h]⟩⟩

theorem ExtN.of_RN_trans {a b c : World} (h : RN b = RN a) (h2 : ExtN b c) : ExtN a c :=
  (ExtN.of_RN h).trans h2

theorem ExtN.trans_RN {a b c : World} (h1 : ExtN a b) (h : RN c = RN b) : ExtN a c :=
  h1.trans (ExtN.of_RN h)

theorem ExtN.foldl {α} (g : World → α → World) (l : List α) (w : World)
    (h : ∀ w a, ExtN w (g w a)) : ExtN w (l.foldl g w) := by
  induction l generalizing w with
  | nil => exact ExtN.refl w
  | cons a l ih => exact (h w a).trans (ih _)

theorem RN_foldl {α} (g : World → α → World) (l : List α) (w : World)
    (h : ∀ w a, RN (g w a) = RN w) : RN (l.foldl g w) = RN w :=
  foldl_preserve RN g l w h

/-! ### primitives of `WorldDef` -/

@[simp] theorem RN_setErr (w : World) (m : String) : RN (w.setErr m) = RN w := by
  unfold setErr; split <;> rfl

@[simp] theorem RN_addRes (w : World) (r : Res) : RN (w.addRes r) = RN w := rfl
@[simp] theorem RN_setDev (w : World) (d : Nat) (x : Dev) : RN (w.setDev d x) = RN w := rfl
@[simp] theorem RN_modDev (w : World) (d : Nat) (f : Dev → Dev) : RN (w.modDev d f) = RN w := rfl
@[simp] theorem RN_modPart (w : World) (p : Nat) (f : PartRec → PartRec) :
    RN (w.modPart p f) = RN w := rfl
@[simp] theorem RN_newPart (w : World) (r : PartRec) : RN (w.newPart r).1 = RN w := rfl

theorem env_schedule_now {s s' : Env} {t a : Int} {act : Nat} {p : Int} {k : Nat}
    (h : s.schedule t a act p k = some s') : s'.now = s.now := by
  unfold Env.schedule at h
  split at h
  · cases h
  · cases h; rfl

@[simp] theorem RN_sched (w : World) (t a : Int) (act : Action) (p : Int) :
    RN (w.sched t a act p).1 = RN w := by
  unfold World.sched
  dsimp only
  split
  · rename_i e heq
    simp only [Env.apply] at heq
    split at heq
    · cases heq
    · rename_i s' hs
      cases heq
      simp only [RN, World.now]
      rw [env_schedule_now hs]
  · rfl

@[simp] theorem RN_schedLib (w : World) (t a : Int) (act : Action) (p : Int) :
    RN (w.schedLib t a act p) = RN w := by
  have h := RN_sched w t a act p
  unfold schedLib
  generalize w.sched t a act p = s at h ⊢
  obtain ⟨w', r⟩ := s
  cases r <;> simp_all

@[simp] theorem RN_envOp_pause (w : World) (a : Int) : RN (w.envOp (.pause a)) = RN w := rfl
@[simp] theorem RN_envOp_unpause (w : World) (a : Int) : RN (w.envOp (.unpause a)) = RN w := rfl
@[simp] theorem RN_envOp_cancel (w : World) (a : Int) : RN (w.envOp (.cancel a)) = RN w := rfl

@[simp] theorem addRec_recs (w : World) (r : Rec) : (w.addRec r).recs = w.recs ++ [r] := rfl
@[simp] theorem addRec_now (w : World) (r : Rec) : (w.addRec r).now = w.now := rfl

theorem ExtN_addRec (w : World) (r : Rec) : ExtN w (w.addRec r) := ⟨rfl, ⟨[r], rfl⟩⟩

/-- The stamped form of the records of a resource-manager call. -/
def stamp (t : Int) (recs : List ResRec) : List Rec :=
  recs.map (fun r => Rec.resUpdate r.res t r.inUse r.cap)

theorem foldl_addRec_resUpdate (recs : List ResRec) (w : World) :
    RN (recs.foldl (fun w r => w.addRec (.resUpdate r.res w.now r.inUse r.cap)) w)
      = (w.recs ++ stamp w.now recs, w.now) := by
  induction recs generalizing w with
  | nil => simp [RN, stamp]
  | cons r recs ih =>
    rw [List.foldl_cons, ih]
    simp [stamp]

theorem rmEffects_RN (w : World) (recs : List ResRec) (chk : Bool) :
    RN (w.rmEffects recs chk) = (w.recs ++ stamp w.now recs, w.now) := by
  unfold rmEffects
  dsimp only
  split
  · rw [RN_schedLib, foldl_addRec_resUpdate]
  · rw [foldl_addRec_resUpdate]

theorem rmEffects_recs' (w : World) (recs : List ResRec) (chk : Bool) :
    (w.rmEffects recs chk).recs = w.recs ++ stamp w.now recs :=
  congrArg Prod.fst (rmEffects_RN w recs chk)

@[simp] theorem rmEffects_now (w : World) (recs : List ResRec) (chk : Bool) :
    (w.rmEffects recs chk).now = w.now :=
  congrArg Prod.snd (rmEffects_RN w recs chk)

theorem ExtN_rmEffects (w : World) (recs : List ResRec) (chk : Bool) :
    ExtN w (w.rmEffects recs chk) :=
  ⟨rmEffects_now w recs chk, ⟨_, rmEffects_recs' w recs chk⟩⟩

/-- Replacing the resource manager does not touch log or clock. -/
@[simp] theorem RN_with_rm (w : World) (rm : RM) : RN { w with rm := rm } = RN w := rfl

@[simp] theorem RN_with_lost (w : World) (v : List Nat) : RN { w with lost := v } = RN w := rfl
@[simp] theorem RN_with_delivered (w : World) (v : List Nat) : RN { w with delivered := v } = RN w := rfl
@[simp] theorem RN_with_generated (w : World) (v : List Nat) : RN { w with generated := v } = RN w := rfl
@[simp] theorem RN_with_sensors (w : World) (v : List SensorW) : RN { w with sensors := v } = RN w := rfl
@[simp] theorem RN_with_maints (w : World) (v : List MaintW) : RN { w with maints := v } = RN w := rfl
@[simp] theorem RN_with_scheds (w : World) (v : List SchedW) : RN { w with scheds := v } = RN w := rfl
@[simp] theorem RN_with_targets (w : World) (v : List Target) : RN { w with targets := v } = RN w := rfl
@[simp] theorem RN_with_svars (w : World) (v : List Int) : RN { w with svars := v } = RN w := rfl
@[simp] theorem RN_with_cmsSensors (w : World) (v : List (List Nat)) : RN { w with cmsSensors := v } = RN w := rfl
@[simp] theorem RN_with_assets (w : World) (v : List AssetRef) : RN { w with assets := v } = RN w := rfl
@[simp] theorem RN_with_devs (w : World) (v : List Dev) : RN { w with devs := v } = RN w := rfl
@[simp] theorem RN_with_groups (w : World) (v : List Group) : RN { w with groups := v } = RN w := rfl
@[simp] theorem RN_with_started (w : World) (v : Bool) : RN { w with started := v } = RN w := rfl
@[simp] theorem RN_with_vars (w : World) (v : List (Option Nat)) : RN { w with vars := v } = RN w := rfl
@[simp] theorem RN_with_parts (w : World) (v : List PartRec) : RN { w with parts := v } = RN w := rfl

/-! ### Floor: functions that write no record -/

@[simp] theorem RN_setWaiting (w : World) (x : Nat) (a b : Bool) :
    RN (w.setWaiting x a b) = RN w := by
  unfold setWaiting
  dsimp only
  repeat' split
  all_goals rfl

@[simp] theorem RN_schedulePass (w : World) (x : Nat) (o : Int) :
    RN (w.schedulePass x o) = RN w := by
  unfold schedulePass
  dsimp only
  split
  · rfl
  · rw [RN_schedLib]; rfl

/-- The two notification functions write nothing: simultaneously by induction on the fuel. -/
theorem RN_notifyUp_spaceAvail (n : Nat) :
    ∀ w x, RN (notifyUp n w x) = RN w ∧ RN (spaceAvail n w x) = RN w := by
  induction n with
  | zero => intro w x; constructor <;> simp [notifyUp, spaceAvail]
  | succ n ih =>
    intro w x
    have hN : ∀ w x, RN (notifyUp n w x) = RN w := fun w x => (ih w x).1
    have hS : ∀ w x, RN (spaceAvail n w x) = RN w := fun w x => (ih w x).2
    constructor
    · rw [notifyUp]
      repeat' split
      all_goals first
        | rfl
        | exact (RN_foldl _ _ _ hS).trans (RN_setWaiting _ _ _ _)
        | exact RN_foldl _ _ _ hS
        | exact RN_foldl _ _ _ hN
    · rw [spaceAvail]
      repeat' split
      all_goals first
        | rfl
        | exact hN _ _
        | exact hS _ _
        | exact RN_schedulePass _ _ _

@[simp] theorem RN_notifyUp (n : Nat) (w : World) (x : Nat) : RN (notifyUp n w x) = RN w :=
  (RN_notifyUp_spaceAvail n w x).1
@[simp] theorem RN_spaceAvail (n : Nat) (w : World) (x : Nat) : RN (spaceAvail n w x) = RN w :=
  (RN_notifyUp_spaceAvail n w x).2
@[simp] theorem RN_notify (w : World) (x : Nat) : RN (w.notify x) = RN w := RN_notifyUp _ _ _
@[simp] theorem RN_spaceAvailable (w : World) (x : Nat) : RN (w.spaceAvailable x) = RN w :=
  RN_spaceAvail _ _ _

@[simp] theorem RN_applyPartCb (w : World) (x p : Nat) (c : PartCb) :
    RN (w.applyPartCb x p c) = RN w := by
  unfold applyPartCb
  dsimp only
  repeat' split
  all_goals rfl

theorem RN_foldl_applyPartCb (w : World) (x p : Nat) (l : List PartCb) :
    RN (l.foldl (fun w c => w.applyPartCb x p c) w) = RN w :=
  RN_foldl _ _ _ (fun _ _ => RN_applyPartCb _ _ _ _)

@[simp] theorem RN_senseOutput (w : World) (s p : Nat) : RN (w.senseOutput s p) = RN w := by
  unfold senseOutput
  dsimp only
  split
  · rw [RN_foldl _ _ _ (fun _ _ => RN_addRes _ _)]; rfl
  · rfl

theorem RN_foldl_senseOutput (w : World) (p : Nat) (l : List Nat) :
    RN (l.foldl (fun w s => w.senseOutput s p) w) = RN w :=
  RN_foldl _ _ _ (fun _ _ => RN_senseOutput _ _ _)

@[simp] theorem RN_finishCycleHandler (w : World) (x : Nat) :
    RN (w.finishCycleHandler x) = RN w := by
  unfold finishCycleHandler
  dsimp only
  repeat' split
  all_goals first
    | exact RN_setErr _ _
    | (rw [RN_schedulePass]; rfl)

@[simp] theorem RN_addHist (w : World) (p d : Nat) : RN (w.addHist p d) = RN w := by
  unfold addHist
  dsimp only
  split
  · rw [RN_foldl _ _ _ (fun _ _ => RN_modPart _ _ _)]; rfl
  · rfl

@[simp] theorem RN_dropHist (w : World) (p : Nat) : RN (w.dropHist p) = RN w := by
  unfold dropHist
  dsimp only
  split
  · rw [RN_foldl _ _ _ (fun _ _ => RN_modPart _ _ _)]; rfl
  · rfl

theorem RN_genPart_fold (d : Dev) (l : List Nat) (acc : World × List Nat) :
    RN (l.foldl (fun (acc : World × List Nat) _ =>
      let (w', k) := acc.1.newPart { quality := d.genQuality, value := d.genValue }
      (w', acc.2 ++ [k])) acc).1 = RN acc.1 := by
  induction l generalizing acc with
  | nil => rfl
  | cons a l ih => rw [List.foldl_cons, ih]; rfl

@[simp] theorem RN_genPart (w : World) (x : Nat) : RN (w.genPart x).1 = RN w := by
  unfold genPart
  dsimp only
  split
  · rfl
  · exact RN_genPart_fold _ _ _


@[simp] theorem RN_batcherLoop (n : Nat) (w : World) (x : Nat) :
    RN (batcherLoop n w x) = RN w := by
  induction n generalizing w with
  | zero => rfl
  | succ n ih =>
    rw [batcherLoop]
    split
    · split
      rename_i w1 t heq
      rw [ih]
      have h1 : RN (w1, t).1 = RN w := by
        rw [← heq]
        repeat' split
        all_goals rfl
      rw [← h1]
      split
      · rfl
      · split
        rename_i w2 b heq2
        have h2 : RN (w2, b).1 = RN w1 := by
          rw [← heq2]
          repeat' split
          all_goals first
            | rfl
            | (rename_i h; have := congrArg (fun q => RN q.1) h; simpa using this.symm)
        rw [← h2]
        dsimp only
        split <;> rfl
    · rfl

@[simp] theorem RN_shutdownDev (w : World) (x : Nat) (f : Bool) (lost : Option Nat) :
    RN (w.shutdownDev x f lost) = RN w := by
  unfold shutdownDev
  dsimp only
  split
  · split
    · rw [RN_foldl _ _ _ (fun _ _ => RN_addRes _ _)]; rfl
    · rfl
  · rw [RN_foldl _ _ _ (fun _ _ => RN_addRes _ _), RN_setWaiting]
    split <;> rfl

@[simp] theorem RN_restoreDev (w : World) (x : Nat) : RN (w.restoreDev x) = RN w := by
  unfold restoreDev
  dsimp only
  split
  · rfl
  · rw [RN_foldl _ _ _ (fun _ _ => RN_addRes _ _)]
    repeat' split
    all_goals try simp only [RN_modDev, RN_schedulePass, RN_notify]
    all_goals rfl

@[simp] theorem RN_procResourceCb (w : World) (x : Nat) : RN (w.procResourceCb x) = RN w := by
  unfold procResourceCb; simp

@[simp] theorem RN_setBlock (w : World) (x : Nat) (b : Bool) : RN (w.setBlock x b) = RN w := by
  unfold setBlock
  dsimp only
  repeat' split
  all_goals simp

@[simp] theorem RN_adjustParts (w : World) (x : Nat) (v : Int) :
    RN (w.adjustParts x v) = RN w := by
  unfold adjustParts
  dsimp only
  repeat' split
  all_goals simp

@[simp] theorem RN_rewire (w : World) (x : Nat) (ups : List Nat) :
    RN (w.rewire x ups) = RN w := by
  unfold rewire
  dsimp only
  rw [RN_foldl, RN_modDev, RN_foldl]
  · split <;> simp
  · intro w a; simp
  · intro w a
    repeat' split
    all_goals simp

/-- The records written by `_release_reserved_resources()`. -/
def releaseRecs (w : World) (x : Nat) : List Rec :=
  match (w.dev x).reserved with
  | none => []
  | some id => stamp w.now (w.rm.release id none).2.2.1

theorem releaseReserved_RN (w : World) (x : Nat) :
    RN (w.releaseReserved x) = (w.recs ++ releaseRecs w x, w.now) := by
  unfold releaseReserved
  split
  · rename_i h; simp [RN, releaseRecs, h]
  · rename_i id h
    dsimp only
    rw [RN_modDev, rmEffects_RN]
    simp only [releaseRecs, h]
    rfl

theorem ExtN_releaseReserved (w : World) (x : Nat) : ExtN w (w.releaseReserved x) :=
  ⟨congrArg Prod.snd (releaseReserved_RN w x), ⟨_, congrArg Prod.fst (releaseReserved_RN w x)⟩⟩

theorem ExtN_with_rm {w w' : World} (rm : RM) (h : ExtN { w with rm := rm } w') : ExtN w w' :=
  ⟨h.1, h.2⟩

theorem ExtN_procAcquire (w : World) (x : Nat) : ExtN w (w.procAcquire x).1 := by
  unfold procAcquire
  dsimp only
  repeat' split
  all_goals first
    | exact ExtN.refl _
    | exact ExtN.of_RN (RN_setErr _ _)
    | exact ExtN_with_rm _ ((ExtN_rmEffects _ _ _).trans_RN (RN_modDev _ _ _))

/-! ### Floor: functions that may write records -/

/-- The processor's `_finish_cycle` up to (excluding) the finish callbacks. -/
def procPre (w : World) (x : Nat) : World :=
  let w := w.finishCycleHandler x
  let d := w.dev x
  let w := w.setDev x { d with timeInUse := d.timeInUse + (w.now - d.lastUseStart.getD w.now),
                               lastUseStart := none }
  if d.reserved.isSome then w.schedLib w.now d.aid (.releaseIfIdle x) pRelease else w

/-- The finish callbacks and the output-part sensors of processor `x` applied to part `p`. -/
def procCbs (w : World) (cbs : List PartCb) (sens : List Nat) (x p : Nat) : World :=
  sens.foldl (fun w s => w.senseOutput s p) (cbs.foldl (fun w c => w.applyPartCb x p c) w)

theorem finishCycle_processor_eq (w : World) (x : Nat) (h : (w.dev x).kind = .processor) :
    w.finishCycle x =
      match ((procPre w x).dev x).output with
      | none => procPre w x
      | some p =>
        let w2 := procCbs (procPre w x) ((w.finishCycleHandler x).dev x).finCbs
          ((w.finishCycleHandler x).dev x).finSensors x p
        w2.addRec (.produced x w2.now p (w2.part p).quality (w2.partValue p)) := by
  unfold finishCycle
  simp only [h]
  rfl

@[simp] theorem RN_procPre (w : World) (x : Nat) : RN (procPre w x) = RN w := by
  unfold procPre
  dsimp only
  split
  · rw [RN_schedLib, RN_setDev, RN_finishCycleHandler]
  · rw [RN_setDev, RN_finishCycleHandler]

@[simp] theorem RN_procCbs (w : World) (cbs : List PartCb) (sens : List Nat) (x p : Nat) :
    RN (procCbs w cbs sens x p) = RN w := by
  unfold procCbs
  rw [RN_foldl_senseOutput, RN_foldl_applyPartCb]

theorem ExtN_finishCycle (w : World) (x : Nat) : ExtN w (w.finishCycle x) := by
  by_cases h : (w.dev x).kind = .processor
  · rw [finishCycle_processor_eq w x h]
    split
    · exact ExtN.of_RN (RN_procPre w x)
    · exact (ExtN.of_RN ((RN_procCbs _ _ _ _ _).trans (RN_procPre w x))).trans (ExtN_addRec _ _)
  · unfold finishCycle
    dsimp only
    split
    · refine ExtN.of_RN ?_
      rw [RN_schedulePass]
      split
      · simp
      · rfl
    · exact ExtN.of_RN (by simp)
    · contradiction
    · exact ExtN.of_RN (by simp)

/-! ### a small automation: peel the outermost function off an `ExtN` goal -/

/-- Peel a structure update `{ w with f := v, … }` that leaves `recs` and `env` alone. -/
elab "ext_struct" : tactic => do
  let g ← getMainGoal
  g.withContext do
    let t ← instantiateMVars (← g.getType)
    let_expr ExtN a b := t.consumeMData | throwError "ext_struct: not an ExtN goal"
    let b := b.consumeMData
    unless b.isAppOfArity ``World.mk 23 do throwError "ext_struct: not a structure instance"
    let r := b.getArg! 6
    let w0 ← match r with
      | .proj _ _ w0 => pure w0
      | _ =>
        if r.isAppOfArity ``World.recs 1 then pure (r.getArg! 0)
        else throwError "ext_struct: the log is changed"
    let newGoal ← mkFreshExprSyntheticOpaqueMVar (← mkAppM ``ExtN #[a, w0])
    let eq ← mkEq (← mkAppM ``RN #[b]) (← mkAppM ``RN #[w0])
    let pf ← mkFreshExprMVar eq
    pf.mvarId!.refl
    g.assign (mkApp5 (mkConst ``ExtN.trans_RN) a w0 b newGoal pf)
    replaceMainGoal [newGoal.mvarId!]

/-- One step: close the goal, or peel the outermost function application. -/
syntax "ext_step" : tactic

/-- Rewrite with the `RN` lemmas of the functions that write no record. -/
macro "rn_simp" : tactic => `(tactic| simp only [RN_setErr, RN_addRes, RN_setDev, RN_modDev,
  RN_modPart, RN_newPart, RN_sched, RN_schedLib, RN_envOp_pause, RN_envOp_unpause,
  RN_envOp_cancel, RN_with_rm, RN_with_lost, RN_with_delivered, RN_with_generated, RN_with_sensors, RN_with_maints, RN_with_scheds, RN_with_targets, RN_with_svars, RN_with_cmsSensors, RN_with_assets, RN_with_devs, RN_with_groups, RN_with_started, RN_with_vars, RN_with_parts, RN_setWaiting, RN_schedulePass, RN_notifyUp, RN_spaceAvail,
  RN_notify, RN_spaceAvailable, RN_applyPartCb, RN_foldl_applyPartCb, RN_senseOutput,
  RN_foldl_senseOutput, RN_finishCycleHandler, RN_addHist, RN_dropHist, RN_genPart,
  RN_batcherLoop, RN_shutdownDev, RN_restoreDev, RN_procResourceCb, RN_setBlock,
  RN_adjustParts, RN_rewire])

macro_rules | `(tactic| ext_step) => `(tactic| (refine ExtN.of_RN ?_; rn_simp; done))
macro_rules | `(tactic| ext_step) => `(tactic| ext_struct)
macro_rules | `(tactic| ext_step) => `(tactic| with_reducible apply ExtN.trans_RN (h := RN_senseOutput _ _ _))
macro_rules | `(tactic| ext_step) => `(tactic| with_reducible apply ExtN.trans_RN (h := RN_applyPartCb _ _ _ _))
macro_rules | `(tactic| ext_step) => `(tactic| with_reducible apply ExtN.trans_RN (h := RN_batcherLoop _ _ _))
macro_rules | `(tactic| ext_step) => `(tactic| with_reducible apply ExtN.trans_RN (h := RN_rewire _ _ _))
macro_rules | `(tactic| ext_step) => `(tactic| with_reducible apply ExtN.trans_RN (h := RN_adjustParts _ _ _))
macro_rules | `(tactic| ext_step) => `(tactic| with_reducible apply ExtN.trans_RN (h := RN_setBlock _ _ _))
macro_rules | `(tactic| ext_step) => `(tactic| with_reducible apply ExtN.trans_RN (h := RN_procResourceCb _ _))
macro_rules | `(tactic| ext_step) => `(tactic| with_reducible apply ExtN.trans_RN (h := RN_restoreDev _ _))
macro_rules | `(tactic| ext_step) => `(tactic| with_reducible apply ExtN.trans_RN (h := RN_shutdownDev _ _ _ _))
macro_rules | `(tactic| ext_step) => `(tactic| with_reducible apply ExtN.trans_RN (h := RN_finishCycleHandler _ _))
macro_rules | `(tactic| ext_step) => `(tactic| with_reducible apply ExtN.trans_RN (h := RN_dropHist _ _))
macro_rules | `(tactic| ext_step) => `(tactic| with_reducible apply ExtN.trans_RN (h := RN_addHist _ _ _))
macro_rules | `(tactic| ext_step) => `(tactic| with_reducible apply ExtN.trans_RN (h := RN_spaceAvailable _ _))
macro_rules | `(tactic| ext_step) => `(tactic| with_reducible apply ExtN.trans_RN (h := RN_notify _ _))
macro_rules | `(tactic| ext_step) => `(tactic| with_reducible apply ExtN.trans_RN (h := RN_schedulePass _ _ _))
macro_rules | `(tactic| ext_step) => `(tactic| with_reducible apply ExtN.trans_RN (h := RN_setWaiting _ _ _ _))
macro_rules | `(tactic| ext_step) => `(tactic| with_reducible apply ExtN.trans_RN (h := RN_envOp_cancel _ _))
macro_rules | `(tactic| ext_step) => `(tactic| with_reducible apply ExtN.trans_RN (h := RN_envOp_unpause _ _))
macro_rules | `(tactic| ext_step) => `(tactic| with_reducible apply ExtN.trans_RN (h := RN_envOp_pause _ _))
macro_rules | `(tactic| ext_step) => `(tactic| with_reducible apply ExtN.trans_RN (h := RN_schedLib _ _ _ _ _))
macro_rules | `(tactic| ext_step) => `(tactic| with_reducible apply ExtN.trans_RN (h := RN_setErr _ _))
macro_rules | `(tactic| ext_step) => `(tactic| with_reducible apply ExtN.trans_RN (h := RN_addRes _ _))
macro_rules | `(tactic| ext_step) => `(tactic| with_reducible apply ExtN.trans_RN (h := RN_modPart _ _ _))
macro_rules | `(tactic| ext_step) => `(tactic| with_reducible apply ExtN.trans_RN (h := RN_modDev _ _ _))
macro_rules | `(tactic| ext_step) => `(tactic| with_reducible apply ExtN.trans_RN (h := RN_setDev _ _ _))
macro_rules | `(tactic| ext_step) => `(tactic| with_reducible apply ExtN.trans (h2 := ExtN_releaseReserved _ _))
macro_rules | `(tactic| ext_step) => `(tactic| with_reducible apply ExtN.trans (h2 := ExtN_rmEffects _ _ _))
macro_rules | `(tactic| ext_step) => `(tactic| with_reducible apply ExtN.trans (h2 := ExtN_addRec _ _))
macro_rules | `(tactic| ext_step) => `(tactic| with_reducible exact ExtN.refl _)

/-- Peel / split until nothing is left. -/
macro "ext_auto" : tactic => `(tactic| repeat' first | ext_step | split)

macro_rules | `(tactic| ext_step) => `(tactic| with_reducible apply ExtN.trans (h2 := ExtN_finishCycle _ _))

theorem ExtN_scheduleFinish (w : World) (x : Nat) : ExtN w (w.scheduleFinish x) := by
  unfold scheduleFinish
  dsimp only
  ext_auto

macro_rules | `(tactic| ext_step) => `(tactic| with_reducible apply ExtN.trans (h2 := ExtN_scheduleFinish _ _))

theorem ExtN_tryMove (w : World) (x : Nat) : ExtN w (w.tryMove x) := by
  unfold tryMove
  dsimp only
  ext_auto

macro_rules | `(tactic| ext_step) => `(tactic| with_reducible apply ExtN.trans (h2 := ExtN_tryMove _ _))

/-- The `level` record a buffer writes when it receives `p` (nothing for the other devices). -/
def recvPre (w : World) (x p : Nat) : List Rec :=
  if (w.dev x).kind = .buffer then [Rec.level x w.now ((w.dev x).level + w.leafCount p)] else []

/-- `_on_received_new_part` up to (excluding) the `received_part` record. -/
def recvHead (w : World) (x p : Nat) : World :=
  let d := w.dev x
  match d.kind with
    | .sink =>
      let v := w.partValue p
      w.setDev x { d with
        recvCount := d.recvCount + w.leafCount p
        recvValue := d.recvValue + v
        val := d.val.addValue lblCollected w.now v
        collected := if d.collect then d.collected ++ [p] else d.collected }
    | .buffer =>
      let w := w.setDev x { d with level := d.level + w.leafCount p }
      w.addRec (.level x w.now (w.dev x).level)
    | _ => w

/-- `_on_received_new_part` after the record: the receive callbacks, then the move attempt. -/
def recvTail (w : World) (x p : Nat) : World :=
  let w := (w.dev x).recvCbs.foldl (fun w c => w.applyPartCb x p c) w
  if (w.dev x).output.isNone then w.tryMove x else w

theorem onReceived_eq' (w : World) (x p : Nat) :
    w.onReceived x p =
      recvTail ((recvHead w x p).addRec
        (.received x (recvHead w x p).now p ((recvHead w x p).part p).quality
          ((recvHead w x p).partValue p))) x p := rfl

theorem recvHead_parts (w : World) (x p : Nat) : (recvHead w x p).parts = w.parts := by
  unfold recvHead
  dsimp only
  split <;> rfl

theorem partValue_congr {w w' : World} (h : w'.parts = w.parts) (p : Nat) :
    w'.partValue p = w.partValue p := by
  unfold partValue World.part
  rw [h]

theorem recvHead_now (w : World) (x p : Nat) : (recvHead w x p).now = w.now := by
  unfold recvHead
  dsimp only
  split <;> rfl

theorem onReceived_eq (w : World) (x p : Nat) :
    w.onReceived x p =
      recvTail ((recvHead w x p).addRec
        (.received x w.now p (w.part p).quality (w.partValue p))) x p := by
  rw [onReceived_eq', recvHead_now, partValue_congr (recvHead_parts w x p),
    part_congr (recvHead_parts w x p)]

theorem kind_buffer_lt {w : World} {x : Nat} (h : (w.dev x).kind = .buffer) :
    x < w.devs.length := by
  apply Classical.byContradiction
  intro hn
  rw [dev_of_length_le (Nat.le_of_not_lt hn)] at h
  cases h

theorem recvHead_RN (w : World) (x p : Nat) :
    RN (recvHead w x p) = (w.recs ++ recvPre w x p, w.now) := by
  unfold recvHead recvPre
  dsimp only
  split
  · rename_i h; simp [RN, h]; rfl
  · rename_i h
    have hx := kind_buffer_lt h
    simp [RN, h, dev_setDev_same hx]
    rfl
  · rename_i h1 h2
    have : (w.dev x).kind ≠ .buffer := fun h => h2 h
    simp [RN, this]

theorem ExtN_recvTail (w : World) (x p : Nat) : ExtN w (recvTail w x p) := by
  unfold recvTail
  dsimp only
  split
  · exact ExtN.of_RN_trans (RN_foldl_applyPartCb _ _ _ _) (ExtN_tryMove _ _)
  · exact ExtN.of_RN (RN_foldl_applyPartCb _ _ _ _)

theorem ExtN_onReceived (w : World) (x p : Nat) : ExtN w (w.onReceived x p) := by
  rw [onReceived_eq]
  refine ExtN.trans ?_ (ExtN_recvTail _ _ _)
  refine ExtN.trans (b := recvHead w x p) ?_ (ExtN_addRec _ _)
  exact ⟨congrArg Prod.snd (recvHead_RN w x p), ⟨_, congrArg Prod.fst (recvHead_RN w x p)⟩⟩

/-- `_accept_part` up to the call of `_on_received_new_part`. -/
def acceptHead (w : World) (x p : Nat) : World :=
  let w := if (w.dev x).kind == .sink then { w with delivered := w.delivered ++ w.leavesOf p } else w
  let w := w.modDev x (fun d => { d with part := some p })
  let w := w.addHist p x
  w.setWaiting x false false

theorem acceptPart_eq (w : World) (x p : Nat) :
    w.acceptPart x p = (acceptHead w x p).onReceived x p := rfl

@[simp] theorem RN_acceptHead (w : World) (x p : Nat) : RN (acceptHead w x p) = RN w := by
  unfold acceptHead
  dsimp only
  rw [RN_setWaiting, RN_addHist, RN_modDev]
  split <;> rfl

theorem ExtN_acceptPart (w : World) (x p : Nat) : ExtN w (w.acceptPart x p) := by
  rw [acceptPart_eq]
  exact ExtN.of_RN_trans (RN_acceptHead w x p) (ExtN_onReceived _ _ _)

theorem ExtN_tryList (g : World → Nat → Nat → World × Bool)
    (hg : ∀ w y p, ExtN w (g w y p).1) (w : World) (l : List Nat) (p : Nat) :
    ExtN w (tryList g w l p).1 := by
  induction l generalizing w with
  | nil => exact ExtN.refl w
  | cons y ys ih =>
    rw [tryList]
    have h := hg w y p
    split
    · rename_i heq; rw [heq] at h; exact h
    · rename_i heq; rw [heq] at h; exact h.trans (ih _)

theorem ExtN.of_fst_eq {α} {w w' : World} {e : World × α} {b : α} (he : ExtN w e.1)
    (h : e = (w', b)) : ExtN w w' := by
  subst h; exact he

/-- After a `split` on a pair-valued call: use the fact `t` about the call. -/
macro "ext_heq " t:term : tactic =>
  `(tactic| (rename_i heq; with_reducible apply ExtN.trans (h2 := ExtN.of_fst_eq $t heq)))

theorem ExtN_give (n : Nat) : ∀ (w : World) (x p : Nat), ExtN w (give n w x p).1 := by
  induction n with
  | zero => intro w x p; exact ExtN.of_RN (RN_setErr _ _)
  | succ n ih =>
    intro w x p
    have hT : ∀ w l p, ExtN w (tryList (give n) w l p).1 := ExtN_tryList _ ih
    rw [give]
    dsimp only
    repeat' first
      | ext_step
      | with_reducible apply ExtN.trans (h2 := ExtN_acceptPart _ _ _)
      | exact hT _ _ _
      | exact ih _ _ _
      | ext_heq (hT _ _ _)
      | ext_heq (ih _ _ _)
      | ext_heq (ExtN_procAcquire _ _)
      | split

theorem ExtN_givePart (w : World) (x p : Nat) : ExtN w (w.givePart x p).1 := ExtN_give _ _ _ _

theorem ExtN_tryList_givePart (w : World) (l : List Nat) (p : Nat) :
    ExtN w (tryList givePart w l p).1 := ExtN_tryList _ ExtN_givePart _ _ _

theorem ExtN_passHandler (w : World) (x : Nat) : ExtN w (w.passHandler x) := by
  unfold passHandler
  dsimp only
  repeat' first
    | ext_step
    | ext_heq (ExtN_tryList_givePart _ _ _)
    | split

theorem ExtN_bufferLoop (n : Nat) (w : World) (x : Nat) : ExtN w (bufferLoop n w x) := by
  induction n generalizing w with
  | zero => exact ExtN.refl _
  | succ n ih =>
    rw [bufferLoop]
    dsimp only
    repeat' first
      | ext_step
      | with_reducible apply ExtN.trans (h2 := ih _)
      | ext_heq (ExtN_tryList_givePart _ _ _)
      | split

macro_rules | `(tactic| ext_step) => `(tactic| with_reducible apply ExtN.trans (h2 := ExtN_passHandler _ _))
macro_rules | `(tactic| ext_step) => `(tactic| with_reducible apply ExtN.trans (h2 := ExtN_bufferLoop _ _ _))

theorem ExtN_passPart (w : World) (x : Nat) : ExtN w (w.passPart x) := by
  unfold passPart
  dsimp only
  ext_auto

theorem ExtN_failDev (w : World) (x : Nat) : ExtN w (w.failDev x) := by
  unfold failDev
  dsimp only
  ext_auto

theorem ExtN_releaseIfIdle (w : World) (x : Nat) : ExtN w (w.releaseIfIdle x) := by
  unfold releaseIfIdle
  ext_auto

theorem ExtN_initDev (w : World) (x : Nat) : ExtN w (w.initDev x) := by
  unfold initDev
  dsimp only
  ext_auto

/-! ### World: scripted operations, events -/

macro_rules | `(tactic| ext_step) => `(tactic| with_reducible apply ExtN.trans (h2 := ExtN_passPart _ _))
macro_rules | `(tactic| ext_step) => `(tactic| with_reducible apply ExtN.trans (h2 := ExtN_failDev _ _))
macro_rules | `(tactic| ext_step) => `(tactic| with_reducible apply ExtN.trans (h2 := ExtN_releaseIfIdle _ _))
macro_rules | `(tactic| ext_step) => `(tactic| with_reducible apply ExtN.trans (h2 := ExtN_initDev _ _))

@[simp] theorem RN_modMaint (w : World) (m : Nat) (f : Maint → Maint) : RN (w.modMaint m f) = RN w :=
  rfl

@[simp] theorem RN_startOrders (w : World) (m : Nat) (st : List Order) :
    RN (w.startOrders m st) = RN w :=
  RN_foldl _ _ _ (fun _ _ => RN_schedLib _ _ _ _ _)

@[simp] theorem RN_setVar (w : World) (h : Nat) (v : Option Nat) : RN (w.setVar h v) = RN w := rfl

macro_rules | `(tactic| ext_step) => `(tactic| with_reducible apply ExtN.trans_RN (h := RN_modMaint _ _ _))
macro_rules | `(tactic| ext_step) => `(tactic| with_reducible apply ExtN.trans_RN (h := RN_startOrders _ _ _))
macro_rules | `(tactic| ext_step) => `(tactic| with_reducible apply ExtN.trans_RN (h := RN_setVar _ _ _))

/-- The record of a scheduler transition. -/
def schedRecs (w : World) (s : Nat) (advance : Bool) : List Rec :=
  match ((w.scheds.getD s default).s.update advance).2 with
  | none => []
  | some (st, _, _) => [Rec.schedUpdate s w.now st]

theorem schedUpdate_RN (w : World) (s : Nat) (advance : Bool) :
    RN (w.schedUpdate s advance) = (w.recs ++ schedRecs w s advance, w.now) := by
  unfold schedUpdate
  dsimp only
  split
  · rename_i h
    have hr : schedRecs w s advance = [] := by unfold schedRecs; rw [h]
    rw [hr, List.append_nil]; rfl
  · rename_i st objs dur h
    have hr : schedRecs w s advance = [Rec.schedUpdate s w.now st] := by unfold schedRecs; rw [h]
    rw [RN_schedLib, RN_foldl _ _ _ (fun _ _ => RN_addRes _ _), hr]
    rfl

theorem ExtN_schedUpdate (w : World) (s : Nat) (advance : Bool) :
    ExtN w (w.schedUpdate s advance) :=
  ⟨congrArg Prod.snd (schedUpdate_RN w s advance), ⟨_, congrArg Prod.fst (schedUpdate_RN w s advance)⟩⟩

macro_rules | `(tactic| ext_step) => `(tactic| with_reducible apply ExtN.trans (h2 := ExtN_schedUpdate _ _ _))

theorem ExtN_initAsset (w : World) (a : AssetRef) : ExtN w (w.initAsset a) := by
  unfold initAsset
  split <;> (try dsimp only) <;> ext_auto

macro_rules | `(tactic| ext_step) => `(tactic| with_reducible apply ExtN.trans (h2 := ExtN_initAsset _ _))

theorem ExtN_addDev (w : World) (d : Dev) : ExtN w (w.addDev d) := by
  unfold addDev
  extract_lets i d' ups w1 w2 gr w3
  have h1 : ExtN w w1 := ExtN.of_RN rfl
  have h2 : ExtN w1 w2 := ExtN.of_RN (RN_rewire _ _ _)
  have h3 : ExtN w2 w3 := by
    show ExtN w2 (if _ then _ else _)
    split
    · exact ExtN.of_RN rfl
    · exact ExtN.refl _
  have h4 : ExtN w3 (if w3.started = true then w3.initAsset (AssetRef.dev i) else w3) := by
    split
    · exact ExtN_initAsset _ _
    · exact ExtN.refl _
  exact (h1.trans h2).trans (h3.trans h4)

macro_rules | `(tactic| ext_step) => `(tactic| with_reducible apply ExtN.trans (h2 := ExtN_addDev _ _))

theorem ExtN_addAsset (w : World) (spec : AssetSpec) : ExtN w (w.addAsset spec) := by
  unfold addAsset
  split <;> (try dsimp only)
  · ext_auto
  · ext_step
    ext_step
    refine ExtN.trans ?_ (ExtN.foldl _ _ _ (fun w d => ExtN.of_RN (RN_rewire _ _ _)))
    ext_auto
  all_goals ext_auto

macro_rules | `(tactic| ext_step) => `(tactic| with_reducible apply ExtN.trans (h2 := ExtN_addAsset _ _))

theorem ExtN_applyOp (w : World) (op : Op) : ExtN w (w.applyOp op).1 := by
  unfold applyOp
  split <;> (try dsimp only)
  all_goals try (ext_auto; done)
  · rename_i c s
    by_cases h : (w.cmsSensors.getD c []).contains s = true
    · rw [if_pos h]; exact ExtN.refl _
    · rw [if_neg h]; exact ExtN.of_RN rfl

macro_rules | `(tactic| ext_step) => `(tactic| with_reducible apply ExtN.trans (h2 := ExtN_applyOp _ _))

theorem ExtN_applyOps (w : World) (ops : List Op) : ExtN w (w.applyOps ops) := by
  unfold applyOps
  exact ExtN.foldl _ _ _ (fun w op => (ExtN_applyOp w op).trans_RN (RN_addRes _ _))

theorem ExtN_runScript (w : World) (k : Nat) : ExtN w (w.runScript k) := ExtN_applyOps _ _

macro_rules | `(tactic| ext_step) => `(tactic| with_reducible apply ExtN.trans (h2 := ExtN_runScript _ _))

theorem ExtN_scanWaiting (n : Nat) (w : World) (i : Nat) : ExtN w (scanWaiting scanOps n w i) := by
  induction n generalizing w i with
  | zero => exact ExtN.refl _
  | succ n ih =>
    rw [scanWaiting]
    split
    · exact ExtN.refl _
    · split
      · refine ExtN.trans ?_ (ih _ _)
        show ExtN w (scanOps.erase (scanOps.call w _ _) i)
        unfold scanOps
        dsimp only
        ext_auto
      · exact ih _ _

theorem ExtN_rmCheck (w : World) : ExtN w w.rmCheck := ExtN_scanWaiting _ _ _

theorem ExtN_hookStart (w : World) (tgt : Nat) (tag : Int) : ExtN w (w.hookStart tgt tag) := by
  unfold hookStart
  dsimp only
  ext_auto

theorem ExtN_hookEnd (w : World) (tgt : Nat) (tag : Int) : ExtN w (w.hookEnd tgt tag) := by
  unfold hookEnd
  dsimp only
  ext_auto

macro_rules | `(tactic| ext_step) => `(tactic| with_reducible apply ExtN.trans (h2 := ExtN_hookStart _ _ _))
macro_rules | `(tactic| ext_step) => `(tactic| with_reducible apply ExtN.trans (h2 := ExtN_hookEnd _ _ _))
macro_rules | `(tactic| ext_step) => `(tactic| with_reducible apply ExtN.trans (h2 := ExtN_rmCheck _))

theorem ExtN_startWork (w : World) (m seq : Nat) : ExtN w (w.startWork m seq) := by
  unfold startWork
  dsimp only
  ext_auto

theorem ExtN_finishWork (w : World) (m seq : Nat) : ExtN w (w.finishWork m seq) := by
  unfold finishWork
  dsimp only
  ext_auto

theorem ExtN_periodicSense (w : World) (s : Nat) : ExtN w (w.periodicSense s) := by
  unfold periodicSense
  dsimp only
  refine ExtN.of_RN ?_
  rw [RN_schedLib, RN_foldl _ _ _ (fun _ _ => RN_addRes _ _)]
  rfl

theorem ExtN_exec (w : World) (a : Action) : ExtN w (w.exec a) := by
  unfold exec
  split
  · exact ExtN.refl _
  · exact ExtN_runScript _ _
  · exact ExtN_finishCycle _ _
  · exact ExtN_passPart _ _
  · exact ExtN_failDev _ _
  · exact ExtN_releaseIfIdle _ _
  · exact ExtN_rmCheck _
  · exact ExtN_startWork _ _ _
  · exact ExtN_finishWork _ _ _
  · exact ExtN_schedUpdate _ _ _
  · exact ExtN_periodicSense _ _
  · exact ExtN.of_RN (RN_setErr _ _)

theorem ExtN_simulateInit (w : World) : ExtN w w.simulateInit := by
  unfold simulateInit
  split
  · exact ExtN.refl _
  · dsimp only
    ext_struct
    refine ExtN.trans ?_ (ExtN.foldl _ _ _ (fun w a => ExtN_initAsset w a))
    ext_auto

/-- A step of the event loop only extends the log (the clock moves). -/
theorem Ext_step {w w' : World} {e : Event} (h : w.step = some (e, w')) : Ext w w' := by
  unfold World.step at h
  split at h
  · cases h
  · cases h
    split
    · exact (ExtN_exec _ _).ext
    · exact Ext.refl _

/-! ### exact characterisations -/

/-- `_fail()` up to the release of the resources. -/
def failHead (w : World) (x : Nat) : World :=
  (match (w.dev x).part with
    | some p => { w with lost := w.lost ++ w.leavesOf p }
    | none => w).modDev x (fun d => { d with part := none })

theorem failDev_eq (w : World) (x : Nat) :
    w.failDev x =
      (((failHead w x).releaseReserved x).addRec
        (.failure x ((failHead w x).releaseReserved x).now (w.dev x).part)).shutdownDev x true
          (w.dev x).part := rfl

theorem failHead_RN (w : World) (x : Nat) : RN (failHead w x) = RN w := by
  unfold failHead
  rw [RN_modDev]
  split <;> rfl

theorem failHead_rm (w : World) (x : Nat) : (failHead w x).rm = w.rm := by
  unfold failHead
  split <;> rfl

theorem failHead_reserved (w : World) (x : Nat) :
    ((failHead w x).dev x).reserved = (w.dev x).reserved := by
  unfold failHead
  rw [dev_modDev]
  have : ∀ w0 : World, w0.devs = w.devs → (if x = x ∧ x < w0.devs.length then
      (fun d : Dev => { d with part := none }) (w0.dev x) else w0.dev x).reserved =
      (w.dev x).reserved := by
    intro w0 h
    rw [dev_congr h]
    split <;> rfl
  split
  · exact this _ rfl
  · exact this _ rfl

theorem releaseRecs_failHead (w : World) (x : Nat) :
    releaseRecs (failHead w x) x = releaseRecs w x := by
  unfold releaseRecs
  rw [failHead_reserved, failHead_rm, RN_now (failHead_RN w x)]

theorem releaseReserved_recs (w : World) (x : Nat) :
    (w.releaseReserved x).recs = w.recs ++ releaseRecs w x :=
  congrArg Prod.fst (releaseReserved_RN w x)

theorem releaseReserved_now (w : World) (x : Nat) : (w.releaseReserved x).now = w.now :=
  congrArg Prod.snd (releaseReserved_RN w x)

theorem recvHead_recs (w : World) (x p : Nat) :
    (recvHead w x p).recs = w.recs ++ recvPre w x p :=
  congrArg Prod.fst (recvHead_RN w x p)

theorem failDev_recs (w : World) (x : Nat) :
    (w.failDev x).recs =
      w.recs ++ releaseRecs w x ++ [Rec.failure x w.now (w.dev x).part] := by
  rw [failDev_eq, RN_recs (RN_shutdownDev _ _ _ _), addRec_recs]
  rw [releaseReserved_recs, releaseReserved_now, releaseRecs_failHead, RN_recs (failHead_RN w x),
    RN_now (failHead_RN w x)]

/-- Every record written by `_fail()` other than the failure record is a `resource_update`. -/
theorem releaseRecs_resUpdate (w : World) (x : Nat) :
    ∀ r ∈ releaseRecs w x, ∃ res u c, r = Rec.resUpdate res w.now u c := by
  unfold releaseRecs stamp
  split
  · simp
  · intro r hr
    obtain ⟨a, _, rfl⟩ := List.mem_map.1 hr
    exact ⟨_, _, _, rfl⟩

/-! #### `_on_received_new_part` -/

theorem onReceived_recs (w : World) (x p : Nat) :
    ∃ tail, (w.onReceived x p).recs =
      w.recs ++ recvPre w x p ++
        [Rec.received x w.now p (w.part p).quality (w.partValue p)] ++ tail := by
  rw [onReceived_eq]
  obtain ⟨tail, ht⟩ := (ExtN_recvTail ((recvHead w x p).addRec
    (.received x w.now p (w.part p).quality (w.partValue p))) x p).ext
  refine ⟨tail, ?_⟩
  rw [ht, addRec_recs, recvHead_recs]

theorem dev_recvHead_ne (w : World) {x y : Nat} (p : Nat) (h : y ≠ x) :
    (recvHead w x p).dev y = w.dev y := by
  unfold recvHead
  dsimp only
  split
  · exact dev_setDev_ne (Ne.symm h)
  · rw [dev_addRec]; exact dev_setDev_ne (Ne.symm h)
  · rfl

theorem recvHead_devs_length (w : World) (x p : Nat) :
    (recvHead w x p).devs.length = w.devs.length := by
  unfold recvHead
  dsimp only
  split
  · exact setDev_devs_length
  · exact setDev_devs_length
  · rfl

theorem recvHead_kind (w : World) (x p y : Nat) :
    ((recvHead w x p).dev y).kind = (w.dev y).kind := by
  unfold recvHead
  dsimp only
  split
  · rw [dev_setDev]; split
    · rename_i h; rw [← h.1]
    · rfl
  · rw [dev_addRec, dev_setDev]; split
    · rename_i h; rw [← h.1]
    · rfl
  · rfl

theorem kind_sink_lt {w : World} {x : Nat} (h : (w.dev x).kind = .sink) :
    x < w.devs.length := by
  apply Classical.byContradiction
  intro hn
  rw [dev_of_length_le (Nat.le_of_not_lt hn)] at h
  cases h

/-! #### device fields through the cycle of a sink / a buffer -/

section fields
variable {α : Type} (g : Dev → α)

theorem setDev_dev_field (w : World) (x y : Nat) (d : Dev) (h : g d = g (w.dev x)) :
    g ((w.setDev x d).dev y) = g (w.dev y) := by
  rw [dev_setDev]
  split
  · rename_i hc; rw [h, hc.1]
  · rfl

theorem finishCycleHandler_dev_field
    (hg : ∀ d out pt, g { d with output := out, part := pt } = g d)
    (hcore : ∀ d, g d.core = g d) (w : World) (x y : Nat) :
    g ((w.finishCycleHandler x).dev y) = g (w.dev y) := by
  unfold finishCycleHandler
  dsimp only
  repeat' split
  all_goals try (rw [dev_setErr])
  rw [← hcore, core_eq_dev (schedulePass_core _ _ _), hcore]
  exact setDev_dev_field g _ _ _ _ (hg _ _ _)

theorem sink_finishCycle_dev_field
    (hg : ∀ d out pt, g { d with output := out, part := pt } = g d)
    (hcore : ∀ d, g d.core = g d) (w : World) (x y : Nat) (h : (w.dev x).kind = .sink) :
    g ((w.finishCycle x).dev y) = g (w.dev y) := by
  unfold finishCycle
  simp only [h]
  rw [← hcore, core_eq_dev (notify_core _ _), hcore, dev_modDev]
  split
  · rename_i hc
    rw [← hc.1, hg _ none (((w.finishCycleHandler x).dev x).part)]
    · exact finishCycleHandler_dev_field g hg hcore w x x
  · exact finishCycleHandler_dev_field g hg hcore w x y

theorem sink_scheduleFinish_dev_field
    (hg : ∀ d o out pt, g { d with offset := o, output := out, part := pt } = g d)
    (hcore : ∀ d, g d.core = g d) (w : World) (x y : Nat) (h : (w.dev x).kind = .sink) :
    g ((w.scheduleFinish x).dev y) = g (w.dev y) := by
  have hx := kind_sink_lt h
  have hg1 : ∀ d out pt, g { d with output := out, part := pt } = g d := fun d out pt =>
    hg d d.offset out pt
  have hg2 : ∀ d : Dev, g { d with offset := 0 } = g d := fun d => hg d 0 d.output d.part
  unfold scheduleFinish
  dsimp only
  repeat' split
  all_goals first
    | (rw [sink_finishCycle_dev_field g hg1 hcore]
       · exact setDev_dev_field g _ _ _ _ (hg2 _)
       · rw [dev_setDev_same hx]; exact h)
    | (rw [dev_schedLib]
       exact setDev_dev_field g _ _ _ _ (hg2 _))

theorem sink_tryMove_dev_field
    (hg : ∀ d o out pt, g { d with offset := o, output := out, part := pt } = g d)
    (hcore : ∀ d, g d.core = g d) (w : World) (x y : Nat) (h : (w.dev x).kind = .sink) :
    g ((w.tryMove x).dev y) = g (w.dev y) := by
  unfold tryMove
  simp only [h]
  split
  · exact sink_scheduleFinish_dev_field g hg hcore w x y h
  · rfl

theorem foldl_applyPartCb_dev_field
    (hg : ∀ d cy o, g { d with cycle := cy, offset := o } = g d) (x p : Nat) (l : List PartCb)
    (w : World) (y : Nat) :
    g ((l.foldl (fun w c => w.applyPartCb x p c) w).dev y) = g (w.dev y) := by
  induction l generalizing w with
  | nil => rfl
  | cons c l ih => rw [List.foldl_cons, ih, applyPartCb_dev_field g hg]

theorem sink_recvTail_dev_field
    (hg : ∀ d cy o out pt, g { d with cycle := cy, offset := o, output := out, part := pt } = g d)
    (hcore : ∀ d, g d.core = g d) (w : World) (x p y : Nat) (h : (w.dev x).kind = .sink) :
    g ((recvTail w x p).dev y) = g (w.dev y) := by
  have hg1 : ∀ d cy o, g { d with cycle := cy, offset := o } = g d := fun d cy o =>
    hg d cy o d.output d.part
  have hg2 : ∀ d o out pt, g { d with offset := o, output := out, part := pt } = g d :=
    fun d o out pt => hg d d.cycle o out pt
  unfold recvTail
  dsimp only
  split
  · rw [sink_tryMove_dev_field g hg2 hcore]
    · exact foldl_applyPartCb_dev_field g hg1 _ _ _ _ _
    · rw [foldl_applyPartCb_dev_field Dev.kind (fun _ _ _ => rfl)]; exact h
  · exact foldl_applyPartCb_dev_field g hg1 _ _ _ _ _

end fields

/-- A sink counts the parts it receives. -/
theorem onReceived_sink_recvCount (w : World) (x p : Nat) (h : (w.dev x).kind = .sink) :
    ((w.onReceived x p).dev x).recvCount = (w.dev x).recvCount + w.leafCount p := by
  have hx := kind_sink_lt h
  rw [onReceived_eq, sink_recvTail_dev_field Dev.recvCount (fun _ _ _ _ _ => rfl) (fun _ => rfl)]
  · rw [dev_addRec]
    unfold recvHead
    simp only [h]
    rw [dev_setDev_same hx]
  · rw [dev_addRec, recvHead_kind]; exact h

/-! #### buffers -/

section bufferFields
variable {α : Type} (g : Dev → α)

theorem buffer_tryMove_dev_field
    (hg : ∀ d b pt, g { d with buf := b, part := pt } = g d)
    (hcore : ∀ d, g d.core = g d) (w : World) (x y : Nat) (h : (w.dev x).kind = .buffer) :
    g ((w.tryMove x).dev y) = g (w.dev y) := by
  unfold tryMove
  dsimp only
  split
  · split
    · rfl
    · split
      · rw [← hcore, core_eq_dev (schedulePass_core _ _ _), core_eq_dev (notify_core _ _), hcore]
        exact setDev_dev_field g _ _ _ _ (hg _ _ _)
      · rw [← hcore, core_eq_dev (notify_core _ _), hcore]
        exact setDev_dev_field g _ _ _ _ (hg _ _ _)
  all_goals simp_all

theorem buffer_recvTail_dev_field
    (hg : ∀ d cy o b pt, g { d with cycle := cy, offset := o, buf := b, part := pt } = g d)
    (hcore : ∀ d, g d.core = g d) (w : World) (x p y : Nat) (h : (w.dev x).kind = .buffer) :
    g ((recvTail w x p).dev y) = g (w.dev y) := by
  have hg1 : ∀ d cy o, g { d with cycle := cy, offset := o } = g d := fun d cy o =>
    hg d cy o d.buf d.part
  have hg2 : ∀ d b pt, g { d with buf := b, part := pt } = g d :=
    fun d b pt => hg d d.cycle d.offset b pt
  unfold recvTail
  dsimp only
  split
  · rw [buffer_tryMove_dev_field g hg2 hcore]
    · exact foldl_applyPartCb_dev_field g hg1 _ _ _ _ _
    · rw [foldl_applyPartCb_dev_field Dev.kind (fun _ _ _ => rfl)]; exact h
  · exact foldl_applyPartCb_dev_field g hg1 _ _ _ _ _

end bufferFields

theorem RN_tryMove_buffer (w : World) (x : Nat) (h : (w.dev x).kind = .buffer) :
    RN (w.tryMove x) = RN w := by
  unfold tryMove
  simp only [h]
  split
  · rfl
  · split
    · rw [RN_schedulePass, RN_notify]; rfl
    · rw [RN_notify]; rfl

theorem RN_recvTail_buffer (w : World) (x p : Nat) (h : (w.dev x).kind = .buffer) :
    RN (recvTail w x p) = RN w := by
  unfold recvTail
  dsimp only
  split
  · rw [RN_tryMove_buffer, RN_foldl_applyPartCb]
    rw [foldl_applyPartCb_dev_field Dev.kind (fun _ _ _ => rfl)]; exact h
  · exact RN_foldl_applyPartCb _ _ _ _

/-- A buffer that receives a part writes exactly the new level and the `received_part` record. -/
theorem onReceived_buffer_recs (w : World) (x p : Nat) (h : (w.dev x).kind = .buffer) :
    (w.onReceived x p).recs = w.recs ++
      [Rec.level x w.now ((w.dev x).level + w.leafCount p),
       Rec.received x w.now p (w.part p).quality (w.partValue p)] := by
  rw [onReceived_eq, RN_recs (RN_recvTail_buffer _ _ _ _), addRec_recs, recvHead_recs]
  · simp [recvPre, h]
  · rw [dev_addRec, recvHead_kind]; exact h

theorem onReceived_buffer_level (w : World) (x p : Nat) (h : (w.dev x).kind = .buffer) :
    ((w.onReceived x p).dev x).level = (w.dev x).level + w.leafCount p := by
  have hx := kind_buffer_lt h
  rw [onReceived_eq, buffer_recvTail_dev_field Dev.level (fun _ _ _ _ _ => rfl) (fun _ => rfl)]
  · rw [dev_addRec]
    unfold recvHead
    simp only [h]
    rw [dev_addRec, dev_setDev_same hx]
  · rw [dev_addRec, recvHead_kind]; exact h

/-! #### `_accept_part` -/

theorem leafCount_congr {w w' : World} (h : w'.parts = w.parts) (p : Nat) :
    w'.leafCount p = w.leafCount p := by
  unfold leafCount World.part
  rw [h]

theorem acceptHead_dev_field {α} (g : Dev → α) (hg : ∀ d pt, g { d with part := pt } = g d)
    (hcore : ∀ d, g d.core = g d) (w : World) (x p y : Nat) :
    g ((acceptHead w x p).dev y) = g (w.dev y) := by
  unfold acceptHead
  dsimp only
  rw [← hcore, core_eq_dev (setWaiting_core _ _ _ _), hcore, dev_addHist, dev_modDev]
  have : ∀ w0 : World, w0.devs = w.devs →
      g (if x = y ∧ x < w0.devs.length then (fun d : Dev => { d with part := some p }) (w0.dev x)
        else w0.dev y) = g (w.dev y) := by
    intro w0 h0
    rw [dev_congr h0 x, dev_congr h0 y]
    split
    · rename_i hc; rw [hg, hc.1]
    · rfl
  split
  · exact this _ rfl
  · exact this _ rfl

theorem acceptHead_part_quality (w : World) (x p q : Nat) :
    ((acceptHead w x p).part q).quality = (w.part q).quality := by
  unfold acceptHead
  dsimp only
  rw [part_setWaiting, addHist_part_quality, part_modDev]
  split <;> rfl

theorem acceptHead_partValue (w : World) (x p q : Nat) :
    (acceptHead w x p).partValue q = w.partValue q := by
  unfold acceptHead
  dsimp only
  rw [core_eq_partValue (setWaiting_core _ _ _ _), addHist_partValue]
  apply partValue_congr
  split <;> rfl

theorem acceptHead_leafCount (w : World) (x p q : Nat) :
    (acceptHead w x p).leafCount q = w.leafCount q := by
  unfold acceptHead
  dsimp only
  rw [core_eq_leafCount (setWaiting_core _ _ _ _), addHist_leafCount]
  apply leafCount_congr
  split <;> rfl

theorem recvPre_acceptHead (w : World) (x p : Nat) :
    recvPre (acceptHead w x p) x p = recvPre w x p := by
  unfold recvPre
  rw [acceptHead_dev_field Dev.kind (fun _ _ => rfl) (fun _ => rfl),
    acceptHead_dev_field Dev.level (fun _ _ => rfl) (fun _ => rfl), acceptHead_leafCount,
    RN_now (RN_acceptHead w x p)]

/-- `_accept_part`: the records start with the buffer's new level (buffers only) and exactly one
`received_part` record carrying the part's quality and value at that moment. -/
theorem acceptPart_recs (w : World) (x p : Nat) :
    ∃ tail, (w.acceptPart x p).recs =
      w.recs ++ recvPre w x p ++
        [Rec.received x w.now p (w.part p).quality (w.partValue p)] ++ tail := by
  obtain ⟨tail, ht⟩ := onReceived_recs (acceptHead w x p) x p
  refine ⟨tail, ?_⟩
  rw [acceptPart_eq, ht, recvPre_acceptHead, RN_recs (RN_acceptHead w x p),
    RN_now (RN_acceptHead w x p), acceptHead_part_quality, acceptHead_partValue]

theorem acceptPart_buffer_recs (w : World) (x p : Nat) (h : (w.dev x).kind = .buffer) :
    (w.acceptPart x p).recs = w.recs ++
      [Rec.level x w.now ((w.dev x).level + w.leafCount p),
       Rec.received x w.now p (w.part p).quality (w.partValue p)] := by
  rw [acceptPart_eq, onReceived_buffer_recs, RN_recs (RN_acceptHead w x p),
    RN_now (RN_acceptHead w x p), acceptHead_part_quality, acceptHead_partValue,
    acceptHead_leafCount, acceptHead_dev_field Dev.level (fun _ _ => rfl) (fun _ => rfl)]
  rw [acceptHead_dev_field Dev.kind (fun _ _ => rfl) (fun _ => rfl)]; exact h

theorem acceptPart_buffer_level (w : World) (x p : Nat) (h : (w.dev x).kind = .buffer) :
    ((w.acceptPart x p).dev x).level = (w.dev x).level + w.leafCount p := by
  rw [acceptPart_eq, onReceived_buffer_level, acceptHead_leafCount,
    acceptHead_dev_field Dev.level (fun _ _ => rfl) (fun _ => rfl)]
  rw [acceptHead_dev_field Dev.kind (fun _ _ => rfl) (fun _ => rfl)]; exact h

theorem acceptPart_sink_recvCount (w : World) (x p : Nat) (h : (w.dev x).kind = .sink) :
    ((w.acceptPart x p).dev x).recvCount = (w.dev x).recvCount + w.leafCount p := by
  rw [acceptPart_eq, onReceived_sink_recvCount, acceptHead_leafCount,
    acceptHead_dev_field Dev.recvCount (fun _ _ => rfl) (fun _ => rfl)]
  rw [acceptHead_dev_field Dev.kind (fun _ _ => rfl) (fun _ => rfl)]; exact h

/-! #### the processor's `_finish_cycle` -/

theorem kind_processor_lt {w : World} {x : Nat} (h : (w.dev x).kind = .processor) :
    x < w.devs.length := by
  apply Classical.byContradiction
  intro hn
  rw [dev_of_length_le (Nat.le_of_not_lt hn)] at h
  cases h

/-- The records of a processor's `_finish_cycle`: nothing but (at most) one `produced_part`
record, written last, carrying the quality and value the part has AFTER the finish callbacks. -/
theorem finishCycle_processor_recs (w : World) (x : Nat) (h : (w.dev x).kind = .processor) :
    (w.finishCycle x).recs = w.recs ++
      match ((procPre w x).dev x).output with
      | none => []
      | some p => [Rec.produced x w.now p ((w.finishCycle x).part p).quality
          ((w.finishCycle x).partValue p)] := by
  have he := finishCycle_processor_eq w x h
  cases hout : ((procPre w x).dev x).output with
  | none =>
    rw [hout] at he
    dsimp only at he ⊢
    rw [he, RN_recs (RN_procPre w x), List.append_nil]
  | some p =>
    rw [hout] at he
    dsimp only at he ⊢
    rw [he, addRec_recs, RN_recs (RN_procCbs _ _ _ _ _), RN_recs (RN_procPre w x),
      RN_now (RN_procCbs _ _ _ _ _), RN_now (RN_procPre w x)]
    rfl

/-- The handler part of `_finish_cycle` succeeds on an operational processor that holds a part
and has a free output: the part is moved to the output. -/
theorem procPre_output (w : World) (x p : Nat) (h : (w.dev x).kind = .processor)
    (hop : w.operational x = true) (hp : (w.dev x).part = some p)
    (ho : (w.dev x).output = none) : ((procPre w x).dev x).output = some p := by
  have hx := kind_processor_lt h
  have h1 : ((w.finishCycleHandler x).dev x).output = some p := by
    unfold finishCycleHandler
    simp only [hop, hp, ho, Bool.not_true, Option.isSome_none, Bool.false_eq_true, ↓reduceIte]
    rw [core_eq_dev_output (schedulePass_core _ _ _), dev_setDev_same hx]
  have hx1 : x < (w.finishCycleHandler x).devs.length := by
    unfold finishCycleHandler
    simp only [hop, hp, ho, Bool.not_true, Option.isSome_none, Bool.false_eq_true, ↓reduceIte]
    simpa using hx
  unfold procPre
  dsimp only
  split
  · rw [dev_schedLib, dev_setDev_same hx1]; exact h1
  · rw [dev_setDev_same hx1]; exact h1

/-- Exactly one `produced_part` record per finished cycle. -/
theorem finishCycle_processor_produced (w : World) (x p : Nat) (h : (w.dev x).kind = .processor)
    (hop : w.operational x = true) (hp : (w.dev x).part = some p)
    (ho : (w.dev x).output = none) :
    (w.finishCycle x).recs = w.recs ++
      [Rec.produced x w.now p ((w.finishCycle x).part p).quality
          ((w.finishCycle x).partValue p)] := by
  rw [finishCycle_processor_recs w x h]
  rw [procPre_output w x p h hop hp ho]

/-! #### the other devices' `_finish_cycle` write nothing -/

theorem finishCycle_other_recs (w : World) (x : Nat) (h : (w.dev x).kind ≠ .processor) :
    (w.finishCycle x).recs = w.recs := by
  apply RN_recs
  unfold finishCycle
  dsimp only
  split
  · rw [RN_schedulePass]
    split
    · simp
    · rfl
  · simp
  · contradiction
  · simp

/-! #### maintainer and scheduler records -/

theorem schedUpdate_recs (w : World) (s : Nat) (advance : Bool) :
    (w.schedUpdate s advance).recs = w.recs ++ schedRecs w s advance :=
  congrArg Prod.fst (schedUpdate_RN w s advance)

theorem create_order (mm : Maint) (tgt : Nat) (tag need info : Int) :
    (mm.create tgt tag need info).2.2.1 =
      if mm.requested tgt tag then none
      else some { seq := mm.nextSeq, target := tgt, tag := tag, needed := need, info := info } := by
  unfold Maint.create
  split <;> rfl

/-- `create_work_order`: one `enter_queue` record iff the request is not a duplicate. -/
theorem applyOp_workOrder_recs (w : World) (m tgt : Nat) (tag info : Int) :
    (w.applyOp (.workOrder m tgt tag info)).1.recs = w.recs ++
      if (w.maint m).requested tgt tag then [] else [Rec.workOrder 0 m w.now tgt tag info] := by
  unfold applyOp
  dsimp only
  rw [RN_recs (RN_startOrders _ _ _), create_order]
  by_cases hr : (w.maint m).requested tgt tag = true
  · rw [if_pos hr, if_pos hr, List.append_nil]; rfl
  · rw [if_neg hr, if_neg hr]; rfl

/-- `_start_work_order`: one `start` record, then whatever the target's hook writes. -/
theorem startWork_recs (w : World) (m seq : Nat) (o : Order)
    (h : (w.maint m).findActive seq = some o) :
    ∃ tail, (w.startWork m seq).recs =
      w.recs ++ [Rec.workOrder 1 m w.now o.target o.tag o.info] ++ tail := by
  unfold startWork
  simp only [h]
  rw [RN_recs (RN_schedLib _ _ _ _ _)]
  obtain ⟨tail, ht⟩ := (ExtN_hookStart ((w.addRec (Rec.workOrder 1 m w.now o.target o.tag o.info)).modMaint m
    (fun mm => mm.startCost (w.addRec (Rec.workOrder 1 m w.now o.target o.tag o.info)).now
      ((w.addRec (Rec.workOrder 1 m w.now o.target o.tag o.info)).targetParams o.target o.tag).2.2))
    o.target o.tag).ext
  exact ⟨tail, ht⟩

theorem startWork_none_recs (w : World) (m seq : Nat)
    (h : (w.maint m).findActive seq = none) : (w.startWork m seq).recs = w.recs := by
  unfold startWork
  simp only [h]
  exact RN_recs (RN_setErr _ _)

/-- `_finish_work_order`: whatever the target's hook writes, then one `finish` record, last. -/
theorem finishWork_recs (w : World) (m seq : Nat) (o : Order)
    (h : (w.maint m).findActive seq = some o) :
    ∃ pre, (w.finishWork m seq).recs =
      w.recs ++ pre ++ [Rec.workOrder 2 m w.now o.target o.tag o.info] := by
  obtain ⟨pre, hp⟩ := (ExtN_hookEnd w o.target o.tag).ext
  refine ⟨pre, ?_⟩
  unfold finishWork
  simp only [h]
  rw [RN_recs (RN_startOrders _ _ _), RN_recs (RN_modMaint _ _ _), addRec_recs,
    RN_recs (RN_modMaint _ _ _), hp]
  congr 2
  exact congrArg (fun t => Rec.workOrder 2 m t o.target o.tag o.info)
    ((RN_now (RN_modMaint _ _ _)).trans (ExtN_hookEnd w o.target o.tag).now_eq)

theorem finishWork_none_recs (w : World) (m seq : Nat)
    (h : (w.maint m).findActive seq = none) : (w.finishWork m seq).recs = w.recs := by
  unfold finishWork
  simp only [h]
  exact RN_recs (RN_setErr _ _)

/-- The default hooks (target = a processor) write nothing. -/
theorem hookStart_dev_recs (w : World) (tgt : Nat) (tag : Int) (d : Nat)
    (h : (w.targets.getD tgt default).dev = some d) : (w.hookStart tgt tag).recs = w.recs := by
  unfold hookStart
  simp only [h]
  exact RN_recs ((RN_shutdownDev _ _ _ _).trans (RN_addRes _ _))

theorem hookEnd_dev_recs (w : World) (tgt : Nat) (tag : Int) (d : Nat)
    (h : (w.targets.getD tgt default).dev = some d) : (w.hookEnd tgt tag).recs = w.recs := by
  unfold hookEnd
  simp only [h]
  exact RN_recs ((RN_restoreDev _ _).trans (RN_addRes _ _))

section rmlog
open RM
/-! ### the resource manager's records are a faithful log of its pools -/

/-- The pool of a resource: (in use, capacity). -/
def pool (rm : RM) (r : Nat) : Int × Int := (rm.usage r, rm.capacity r)

/-- The last record about resource `r`. -/
def lastFor (recs : List ResRec) (r : Nat) : Option ResRec :=
  (recs.filter (fun x => x.res == r)).getLast?

/-- `recs` is a faithful log of the transition `rm → rm'`: for every resource, the last record
about it (if any) shows its new pool, and a resource without a record has an unchanged pool. -/
def Faithful (rm rm' : RM) (recs : List ResRec) : Prop :=
  ∀ r, match lastFor recs r with
    | none => pool rm' r = pool rm r
    | some x => x = ⟨r, rm'.usage r, rm'.capacity r⟩

theorem Faithful.refl (rm : RM) : Faithful rm rm [] := by
  intro r; simp [lastFor]

theorem lastFor_append (l₁ l₂ : List ResRec) (r : Nat) :
    lastFor (l₁ ++ l₂) r = (lastFor l₂ r).or (lastFor l₁ r) := by
  unfold lastFor
  rw [List.filter_append, List.getLast?_append]

theorem Faithful.trans {a b c : RM} {l₁ l₂ : List ResRec} (h₁ : Faithful a b l₁)
    (h₂ : Faithful b c l₂) : Faithful a c (l₁ ++ l₂) := by
  intro r
  have h1 := h₁ r
  have h2 := h₂ r
  rw [lastFor_append]
  cases e2 : lastFor l₂ r with
  | some x => rw [e2] at h2; simpa using h2
  | none =>
    rw [e2] at h2
    simp only at *
    cases e1 : lastFor l₁ r with
    | some y =>
      rw [e1] at h1
      simp only at h1 h2 ⊢
      have hu : c.usage r = b.usage r := congrArg Prod.fst h2
      have hc : c.capacity r = b.capacity r := congrArg Prod.snd h2
      rw [hu, hc]; exact h1
    | none =>
      rw [e1] at h1
      simp only at h1 h2 ⊢
      exact h2.trans h1

/-- Setting one pool of an initialised manager and recording it. -/
theorem Faithful.setPool (rm : RM) (r : Nat) (v : Int × Int) (hi : rm.inited = true) :
    Faithful rm (rm.setPool r v) ((rm.setPool r v).recOf r) := by
  intro r'
  have hrec : (rm.setPool r v).recOf r =
      [⟨r, (rm.setPool r v).usage r, (rm.setPool r v).capacity r⟩] := by
    unfold RM.recOf; rw [setPool_inited, hi]; rfl
  rw [hrec]
  by_cases hr : r' = r
  · subst hr; simp [lastFor]
  · have : (r == r') = false := by simpa using fun h => hr h.symm
    simp [lastFor, this, pool, usage_setPool, capacity_setPool, hr]

theorem Faithful.take (rm : RM) (req : Req) (hi : rm.inited = true) :
    Faithful rm (rm.take req).1 (rm.take req).2 := by
  induction req generalizing rm with
  | nil => exact Faithful.refl rm
  | cons p rest ih =>
    obtain ⟨r, a⟩ := p
    rw [RM.take]
    split
    · exact ih rm hi
    · exact (Faithful.setPool rm r _ hi).trans (ih _ (by rw [setPool_inited]; exact hi))

theorem Faithful.credit (rm : RM) (req : Req) (hi : rm.inited = true) :
    Faithful rm (rm.credit req).1 (rm.credit req).2 := by
  rw [credit_eq_take]; exact Faithful.take rm _ hi

theorem Faithful.congr {a b b' : RM} {l : List ResRec} (h : Faithful a b l)
    (hp : b'.pools = b.pools) : Faithful a b' l := by
  have hu : ∀ r, b'.usage r = b.usage r := fun r => by unfold RM.usage RM.lookup; rw [hp]
  have hc : ∀ r, b'.capacity r = b.capacity r := fun r => by unfold RM.capacity RM.lookup; rw [hp]
  intro r
  have := h r
  unfold pool at *
  rw [hu, hc]; exact this

/-- `add_resources` on an initialised manager. -/
theorem Faithful.add (rm : RM) (r : Nat) (amt : Int) (hi : rm.inited = true) :
    Faithful rm (rm.add r amt).1 (rm.add r amt).2.2.1 := by
  unfold RM.add
  split
  · exact Faithful.refl rm
  · split
    · split
      · exact Faithful.refl rm
      · exact Faithful.setPool rm r _ hi
    · split
      · exact Faithful.refl rm
      · exact Faithful.setPool rm r _ hi

/-- `reserve_resources` on an initialised manager. -/
theorem Faithful.reserve (rm : RM) (req : Req) (hi : rm.inited = true) :
    Faithful rm (rm.reserve req).1 (rm.reserve req).2.2.2 := by
  rw [reserve_eq]
  split
  · exact Faithful.refl rm
  · split
    · exact (Faithful.take rm req hi).congr rfl
    · exact Faithful.refl rm

/-- `ReservedResources.release` on an initialised manager. -/
theorem Faithful.release (rm : RM) (id : Nat) (part : Option Req) (hi : rm.inited = true) :
    Faithful rm (rm.release id part).1 (rm.release id part).2.2.1 := by
  unfold RM.release
  split
  · exact Faithful.refl rm
  · split
    · exact (Faithful.credit rm _ hi).congr rfl
    · split
      · exact (Faithful.credit rm _ hi).congr rfl
      · exact Faithful.refl rm

/-- The last `resource_update` record about `r` in a piece of the log. -/
def lastResUpdate (l : List Rec) (r : Nat) : Option (Int × Int) :=
  (l.filterMap (fun x => match x with
    | .resUpdate r' _ u c => if r' = r then some (u, c) else none
    | _ => none)).getLast?

theorem lastResUpdate_stamp (t : Int) (recs : List ResRec) (r : Nat) :
    lastResUpdate (stamp t recs) r = (lastFor recs r).map (fun x => (x.inUse, x.cap)) := by
  unfold lastResUpdate lastFor stamp
  rw [← List.getLast?_map]
  congr 1
  induction recs with
  | nil => rfl
  | cons a l ih =>
    by_cases h : a.res = r
    · simp [h]
      simpa using ih
    · have : (a.res == r) = false := by simpa using h
      simp [h]
      simpa using ih

end rmlog

/-! ### the buffer's level records -/

/-- One release step of `Buffer._pass_part_downstream` after a successful hand-over. -/
def releaseStep (w : World) (x n : Nat) : World :=
  let w := w.modDev x (fun d => { d with level := d.level - n, buf := d.buf.drop 1 })
  w.addRec (.level x w.now (w.dev x).level)

theorem bufferLoop_succ (f : Nat) (w : World) (x : Nat) :
    bufferLoop (f + 1) w x =
      match (w.dev x).buf with
      | [] => w
      | (t, p) :: _ =>
        if (w.dev x).delay - (w.now - t) > 0 then w
        else match tryList givePart w (w.sortedDown x) p with
          | (w1, true) => bufferLoop f (releaseStep w1 x (w.leafCount p)) x
          | (w1, false) => w1 := by
  rw [bufferLoop]; rfl

/-- The last `level` record about device `x`. -/
def lastLevel (l : List Rec) (x : Nat) : Option Nat :=
  (l.filterMap (fun r => match r with
    | .level d _ n => if d = x then some n else none
    | _ => none)).getLast?

theorem lastLevel_append_level (l : List Rec) (x : Nat) (t : Int) (n : Nat) :
    lastLevel (l ++ [Rec.level x t n]) x = some n := by
  simp [lastLevel, List.filterMap_append]

theorem releaseStep_recs (w : World) (x n : Nat) :
    (releaseStep w x n).recs = w.recs ++ [Rec.level x w.now ((releaseStep w x n).dev x).level] :=
  rfl

theorem releaseStep_level (w : World) (x n : Nat) (hx : x < w.devs.length) :
    ((releaseStep w x n).dev x).level = (w.dev x).level - n := by
  unfold releaseStep
  dsimp only
  rw [dev_addRec, dev_modDev_same hx]

theorem releaseStep_lastLevel (w : World) (x n : Nat) :
    lastLevel (releaseStep w x n).recs x = some ((releaseStep w x n).dev x).level := by
  rw [releaseStep_recs]; exact lastLevel_append_level _ _ _ _

theorem acceptPart_buffer_lastLevel (w : World) (x p : Nat) (h : (w.dev x).kind = .buffer) :
    lastLevel (w.acceptPart x p).recs x = some ((w.acceptPart x p).dev x).level := by
  rw [acceptPart_buffer_recs w x p h, acceptPart_buffer_level w x p h]
  simp [lastLevel, List.filterMap_append]

/-! ## The frame of the factory floor: nothing but `Source._pass_part_downstream` writes a
`supplied_new_part` record or changes a source's counter -/

def isSup : Rec → Bool
  | .supplied .. => true
  | _ => false

/-- The `produced` counters of all devices. -/
def PR (w : World) : List Int := w.devs.map (·.produced)

/-- Same clock, the log is extended by records other than `supplied_new_part`, no `produced`
counter changes. -/
structure ExtF (w w' : World) : Prop where
  now_eq : w'.now = w.now
  ext : ∃ l, w'.recs = w.recs ++ l ∧ ∀ r ∈ l, isSup r = false
  prod : PR w' = PR w

theorem ExtF.refl (w : World) : ExtF w w := ⟨rfl, ⟨[], by simp, by simp⟩, rfl⟩

theorem ExtF.trans {a b c : World} (h1 : ExtF a b) (h2 : ExtF b c) : ExtF a c := by
  obtain ⟨n1, ⟨l1, e1, s1⟩, p1⟩ := h1
  obtain ⟨n2, ⟨l2, e2, s2⟩, p2⟩ := h2
  refine ⟨n2.trans n1, ⟨l1 ++ l2, by rw [e2, e1, List.append_assoc], ?_⟩, p2.trans p1⟩
  intro r hr
  rcases List.mem_append.1 hr with h | h
  · exact s1 r h
  · exact s2 r h

theorem ExtF.extN {a b : World} (h : ExtF a b) : ExtN a b :=
  ⟨h.now_eq, by obtain ⟨l, e, _⟩ := h.ext; exact ⟨l, e⟩⟩

theorem ExtF.of_RN_PR {w w' : World} (h : RN w' = RN w) (hp : PR w' = PR w) : ExtF w w' :=
  ⟨RN_now h, ⟨[], by simp [RN_recs h], by simp⟩, hp⟩

theorem PR_of_devs_eq {w w' : World} (h : w'.devs = w.devs) : PR w' = PR w := by
  unfold PR; rw [h]

theorem PR_of_core_eq {w w' : World} (h : w'.core = w.core) : PR w' = PR w := by
  have h1 := congrArg (fun v : World => v.devs.map (·.produced)) h
  simp only [core_devs, List.map_map] at h1
  exact h1

theorem ExtF.of_core {w w' : World} (h : w'.core = w.core) (hr : RN w' = RN w) : ExtF w w' :=
  ExtF.of_RN_PR hr (PR_of_core_eq h)

theorem ExtF.of_devs {w w' : World} (h : w'.devs = w.devs) (hr : RN w' = RN w) : ExtF w w' :=
  ExtF.of_RN_PR hr (PR_of_devs_eq h)

theorem ExtF.foldl {α} (g : World → α → World) (l : List α) (w : World)
    (h : ∀ w a, ExtF w (g w a)) : ExtF w (l.foldl g w) := by
  induction l generalizing w with
  | nil => exact ExtF.refl w
  | cons a l ih => exact (h w a).trans (ih _)

theorem ExtF.of_fst_eq {α} {w w' : World} {e : World × α} {b : α} (he : ExtF w e.1)
    (h : e = (w', b)) : ExtF w w' := by
  subst h; exact he

/-! ### primitives -/

theorem ExtF_setErr (w : World) (m : String) : ExtF w (w.setErr m) :=
  ExtF.of_core (setErr_core _ _) (RN_setErr _ _)
theorem ExtF_addRes (w : World) (r : Res) : ExtF w (w.addRes r) := ExtF.of_devs rfl rfl
theorem ExtF_modPart (w : World) (p : Nat) (f : PartRec → PartRec) : ExtF w (w.modPart p f) :=
  ExtF.of_devs rfl rfl
theorem ExtF_newPart (w : World) (r : PartRec) : ExtF w (w.newPart r).1 := ExtF.of_devs rfl rfl
theorem ExtF_sched (w : World) (t a : Int) (act : Action) (p : Int) : ExtF w (w.sched t a act p).1 :=
  ExtF.of_core (sched_fst_core _ _ _ _ _) (RN_sched _ _ _ _ _)
theorem ExtF_schedLib (w : World) (t a : Int) (act : Action) (p : Int) :
    ExtF w (w.schedLib t a act p) :=
  ExtF.of_core (schedLib_core _ _ _ _ _) (RN_schedLib _ _ _ _ _)
theorem ExtF_envOp_pause (w : World) (a : Int) : ExtF w (w.envOp (.pause a)) := ExtF.of_devs rfl rfl
theorem ExtF_envOp_unpause (w : World) (a : Int) : ExtF w (w.envOp (.unpause a)) :=
  ExtF.of_devs rfl rfl
theorem ExtF_envOp_cancel (w : World) (a : Int) : ExtF w (w.envOp (.cancel a)) :=
  ExtF.of_devs rfl rfl

theorem ExtF_addRec (w : World) (r : Rec) (hp : isSup r = false) : ExtF w (w.addRec r) :=
  ⟨rfl, ⟨[r], rfl, by simpa using hp⟩, rfl⟩

theorem PR_setDev (w : World) (x : Nat) (d : Dev) (hp : d.produced = (w.dev x).produced) :
    PR (w.setDev x d) = PR w :=
  map_set_of_eq Dev.produced w.devs x d default hp

theorem ExtF_setDev (w : World) (x : Nat) (d : Dev) (hp : d.produced = (w.dev x).produced) :
    ExtF w (w.setDev x d) := ExtF.of_RN_PR rfl (PR_setDev w x d hp)

theorem ExtF_modDev (w : World) (x : Nat) (f : Dev → Dev)
    (hp : (f (w.dev x)).produced = (w.dev x).produced) : ExtF w (w.modDev x f) :=
  ExtF_setDev w x _ hp

theorem ExtF_rmEffects (w : World) (recs : List ResRec) (chk : Bool) :
    ExtF w (w.rmEffects recs chk) := by
  refine ⟨rmEffects_now _ _ _, ⟨_, rmEffects_recs' _ _ _, ?_⟩, PR_of_core_eq (rmEffects_core _ _ _)⟩
  intro r hr
  obtain ⟨a, _, rfl⟩ := List.mem_map.1 hr
  rfl

theorem ExtF_setWaiting (w : World) (x : Nat) (a b : Bool) : ExtF w (w.setWaiting x a b) :=
  ExtF.of_core (setWaiting_core _ _ _ _) (RN_setWaiting _ _ _ _)
theorem ExtF_schedulePass (w : World) (x : Nat) (o : Int) : ExtF w (w.schedulePass x o) :=
  ExtF.of_core (schedulePass_core _ _ _) (RN_schedulePass _ _ _)
theorem ExtF_notify (w : World) (x : Nat) : ExtF w (w.notify x) :=
  ExtF.of_core (notify_core _ _) (RN_notify _ _)
theorem ExtF_spaceAvailable (w : World) (x : Nat) : ExtF w (w.spaceAvailable x) :=
  ExtF.of_core (spaceAvailable_core _ _) (RN_spaceAvailable _ _)
theorem ExtF_addHist (w : World) (p d : Nat) : ExtF w (w.addHist p d) :=
  ExtF.of_devs (addHist_devs _ _ _) (RN_addHist _ _ _)
theorem ExtF_dropHist (w : World) (p : Nat) : ExtF w (w.dropHist p) :=
  ExtF.of_devs (dropHist_devs _ _) (RN_dropHist _ _)

/-- Peel a structure update `{ w with f := v, … }` that leaves `recs`, `env` and `devs` alone. -/
elab "extf_struct" : tactic => do
  let g ← getMainGoal
  g.withContext do
    let t ← instantiateMVars (← g.getType)
    let_expr ExtF a b := t.consumeMData | throwError "extf_struct: not an ExtF goal"
    let b := b.consumeMData
    unless b.isAppOfArity ``World.mk 23 do throwError "extf_struct: not a structure instance"
    let r := b.getArg! 6
    let w0 ← match r with
      | .proj _ _ w0 => pure w0
      | _ =>
        if r.isAppOfArity ``World.recs 1 then pure (r.getArg! 0)
        else throwError "extf_struct: the log is changed"
    let newGoal ← mkFreshExprSyntheticOpaqueMVar (← mkAppM ``ExtF #[a, w0])
    let eq1 ← mkEq (← mkAppM ``World.devs #[b]) (← mkAppM ``World.devs #[w0])
    let pf1 ← mkFreshExprMVar eq1
    pf1.mvarId!.refl
    let eq2 ← mkEq (← mkAppM ``RN #[b]) (← mkAppM ``RN #[w0])
    let pf2 ← mkFreshExprMVar eq2
    pf2.mvarId!.refl
    let step := mkApp4 (mkConst ``ExtF.of_devs) w0 b pf1 pf2
    g.assign (mkApp5 (mkConst ``ExtF.trans) a w0 b newGoal step)
    replaceMainGoal [newGoal.mvarId!]

syntax "extf_step" : tactic
macro "extf_auto" : tactic => `(tactic| repeat' first | extf_step | split)

macro_rules | `(tactic| extf_step) => `(tactic| extf_struct)
macro_rules | `(tactic| extf_step) => `(tactic|
  ((with_reducible apply ExtF.trans (h2 := ExtF.foldl _ _ _ ?hs)); case hs => (intro _ _; extf_auto; done)))
macro_rules | `(tactic| extf_step) => `(tactic| with_reducible apply ExtF.trans (h2 := ExtF_dropHist _ _))
macro_rules | `(tactic| extf_step) => `(tactic| with_reducible apply ExtF.trans (h2 := ExtF_addHist _ _ _))
macro_rules | `(tactic| extf_step) => `(tactic| with_reducible apply ExtF.trans (h2 := ExtF_spaceAvailable _ _))
macro_rules | `(tactic| extf_step) => `(tactic| with_reducible apply ExtF.trans (h2 := ExtF_notify _ _))
macro_rules | `(tactic| extf_step) => `(tactic| with_reducible apply ExtF.trans (h2 := ExtF_schedulePass _ _ _))
macro_rules | `(tactic| extf_step) => `(tactic| with_reducible apply ExtF.trans (h2 := ExtF_setWaiting _ _ _ _))
macro_rules | `(tactic| extf_step) => `(tactic| with_reducible apply ExtF.trans (h2 := ExtF_rmEffects _ _ _))
macro_rules | `(tactic| extf_step) => `(tactic| with_reducible apply ExtF.trans (h2 := ExtF_envOp_cancel _ _))
macro_rules | `(tactic| extf_step) => `(tactic| with_reducible apply ExtF.trans (h2 := ExtF_envOp_unpause _ _))
macro_rules | `(tactic| extf_step) => `(tactic| with_reducible apply ExtF.trans (h2 := ExtF_envOp_pause _ _))
macro_rules | `(tactic| extf_step) => `(tactic| with_reducible apply ExtF.trans (h2 := ExtF_schedLib _ _ _ _ _))
macro_rules | `(tactic| extf_step) => `(tactic| with_reducible apply ExtF.trans (h2 := ExtF_setErr _ _))
macro_rules | `(tactic| extf_step) => `(tactic| with_reducible apply ExtF.trans (h2 := ExtF_addRes _ _))
macro_rules | `(tactic| extf_step) => `(tactic| with_reducible apply ExtF.trans (h2 := ExtF_modPart _ _ _))
macro_rules | `(tactic| extf_step) => `(tactic|
  ((with_reducible apply ExtF.trans (h2 := ExtF_addRec _ _ ?hp)); case hp => exact rfl))
macro_rules | `(tactic| extf_step) => `(tactic|
  ((with_reducible apply ExtF.trans (h2 := ExtF_modDev _ _ _ ?hp)); case hp => exact rfl))
macro_rules | `(tactic| extf_step) => `(tactic|
  ((with_reducible apply ExtF.trans (h2 := ExtF_setDev _ _ _ ?hp)); case hp => exact rfl))
macro_rules | `(tactic| extf_step) => `(tactic| with_reducible exact ExtF.refl _)

/-- After a `split` on a pair-valued call: use the fact `t` about the call. -/
macro "extf_heq " t:term : tactic =>
  `(tactic| (rename_i heq; with_reducible apply ExtF.trans (h2 := ExtF.of_fst_eq $t heq)))

/-! ### the functions of the floor -/

theorem ExtF_applyPartCb (w : World) (x p : Nat) (c : PartCb) : ExtF w (w.applyPartCb x p c) := by
  unfold applyPartCb
  dsimp only
  extf_auto

theorem ExtF_senseOutput (w : World) (s p : Nat) : ExtF w (w.senseOutput s p) := by
  unfold senseOutput
  dsimp only
  extf_auto

theorem ExtF_finishCycleHandler (w : World) (x : Nat) : ExtF w (w.finishCycleHandler x) := by
  unfold finishCycleHandler
  dsimp only
  extf_auto

macro_rules | `(tactic| extf_step) => `(tactic| with_reducible apply ExtF.trans (h2 := ExtF_applyPartCb _ _ _ _))
macro_rules | `(tactic| extf_step) => `(tactic| with_reducible apply ExtF.trans (h2 := ExtF_senseOutput _ _ _))
macro_rules | `(tactic| extf_step) => `(tactic| with_reducible apply ExtF.trans (h2 := ExtF_finishCycleHandler _ _))

theorem genPart_devs (w : World) (x : Nat) : (w.genPart x).1.devs = w.devs := by
  unfold genPart
  dsimp only
  split
  · rfl
  · have : ∀ (l : List Nat) (acc : World × List Nat),
        (l.foldl (fun (acc : World × List Nat) _ =>
          let (w', k) := acc.1.newPart { quality := (w.dev x).genQuality, value := (w.dev x).genValue }
          (w', acc.2 ++ [k])) acc).1.devs = acc.1.devs := by
      intro l
      induction l with
      | nil => intro acc; rfl
      | cons a l ih => intro acc; rw [List.foldl_cons, ih]; rfl
    exact this _ _

theorem ExtF_genPart (w : World) (x : Nat) : ExtF w (w.genPart x).1 :=
  ExtF.of_devs (genPart_devs w x) (RN_genPart w x)

theorem ExtF_batcherLoop (n : Nat) (w : World) (x : Nat) : ExtF w (batcherLoop n w x) := by
  induction n generalizing w with
  | zero => exact ExtF.refl _
  | succ n ih =>
    rw [batcherLoop]
    split
    · split
      rename_i w1 t heq
      refine ExtF.trans ?_ (ih _)
      have h1 : ExtF w (w1, t).1 := by
        rw [← heq]
        split <;> dsimp only <;> extf_auto
      refine ExtF.trans h1 ?_
      split
      · extf_auto
      · split
        rename_i w2 b heq2
        have h2 : ExtF w1 (w2, b).1 := by
          rw [← heq2]
          split
          · exact ExtF.refl _
          · dsimp only
            extf_step
            exact ExtF_newPart _ _
        refine ExtF.trans h2 ?_
        dsimp only
        extf_auto
    · exact ExtF.refl _

theorem ExtF_releaseReserved (w : World) (x : Nat) : ExtF w (w.releaseReserved x) := by
  unfold releaseReserved
  split
  · exact ExtF.refl _
  · dsimp only
    extf_auto

theorem ExtF_procAcquire (w : World) (x : Nat) : ExtF w (w.procAcquire x).1 := by
  unfold procAcquire
  dsimp only
  extf_auto

macro_rules | `(tactic| extf_step) => `(tactic| with_reducible apply ExtF.trans (h2 := ExtF_genPart _ _))
macro_rules | `(tactic| extf_step) => `(tactic| with_reducible apply ExtF.trans (h2 := ExtF_batcherLoop _ _ _))
macro_rules | `(tactic| extf_step) => `(tactic| with_reducible apply ExtF.trans (h2 := ExtF_releaseReserved _ _))

theorem ExtF_procPre (w : World) (x : Nat) : ExtF w (procPre w x) := by
  unfold procPre
  dsimp only
  extf_auto

theorem ExtF_procCbs (w : World) (cbs : List PartCb) (sens : List Nat) (x p : Nat) :
    ExtF w (procCbs w cbs sens x p) := by
  unfold procCbs
  extf_auto

theorem ExtF_finishCycle (w : World) (x : Nat) : ExtF w (w.finishCycle x) := by
  by_cases h : (w.dev x).kind = .processor
  · rw [finishCycle_processor_eq w x h]
    split
    · exact ExtF_procPre w x
    · exact ((ExtF_procPre w x).trans (ExtF_procCbs _ _ _ _ _)).trans (ExtF_addRec _ _ rfl)
  · unfold finishCycle
    dsimp only
    split
    · extf_step
      split
      · extf_step
        extf_step
        have := ExtF_genPart w x
        revert this
        generalize w.genPart x = q
        intro this
        exact this
      · exact ExtF.refl _
    · extf_auto
    · contradiction
    · extf_auto

macro_rules | `(tactic| extf_step) => `(tactic| with_reducible apply ExtF.trans (h2 := ExtF_finishCycle _ _))

theorem ExtF_scheduleFinish (w : World) (x : Nat) : ExtF w (w.scheduleFinish x) := by
  unfold scheduleFinish
  dsimp only
  extf_auto

macro_rules | `(tactic| extf_step) => `(tactic| with_reducible apply ExtF.trans (h2 := ExtF_scheduleFinish _ _))

theorem ExtF_tryMove (w : World) (x : Nat) : ExtF w (w.tryMove x) := by
  unfold tryMove
  dsimp only
  extf_auto

macro_rules | `(tactic| extf_step) => `(tactic| with_reducible apply ExtF.trans (h2 := ExtF_tryMove _ _))

theorem ExtF_recvHead (w : World) (x p : Nat) : ExtF w (recvHead w x p) := by
  unfold recvHead
  dsimp only
  extf_auto

theorem ExtF_recvTail (w : World) (x p : Nat) : ExtF w (recvTail w x p) := by
  unfold recvTail
  dsimp only
  extf_auto

theorem ExtF_onReceived (w : World) (x p : Nat) : ExtF w (w.onReceived x p) := by
  rw [onReceived_eq]
  exact ((ExtF_recvHead w x p).trans (ExtF_addRec _ _ rfl)).trans (ExtF_recvTail _ _ _)

theorem ExtF_acceptHead (w : World) (x p : Nat) : ExtF w (acceptHead w x p) := by
  unfold acceptHead
  dsimp only
  extf_auto

theorem ExtF_acceptPart (w : World) (x p : Nat) : ExtF w (w.acceptPart x p) := by
  rw [acceptPart_eq]
  exact (ExtF_acceptHead w x p).trans (ExtF_onReceived _ _ _)

theorem ExtF_tryList (g : World → Nat → Nat → World × Bool)
    (hg : ∀ w y p, ExtF w (g w y p).1) (w : World) (l : List Nat) (p : Nat) :
    ExtF w (tryList g w l p).1 := by
  induction l generalizing w with
  | nil => exact ExtF.refl w
  | cons y ys ih =>
    rw [tryList]
    have h := hg w y p
    split
    · rename_i heq; rw [heq] at h; exact h
    · rename_i heq; rw [heq] at h; exact h.trans (ih _)

theorem ExtF_give (n : Nat) : ∀ (w : World) (x p : Nat), ExtF w (give n w x p).1 := by
  induction n with
  | zero => intro w x p; exact ExtF_setErr _ _
  | succ n ih =>
    intro w x p
    have hT : ∀ w l p, ExtF w (tryList (give n) w l p).1 := ExtF_tryList _ ih
    rw [give]
    dsimp only
    repeat' first
      | extf_step
      | with_reducible apply ExtF.trans (h2 := ExtF_acceptPart _ _ _)
      | exact hT _ _ _
      | exact ih _ _ _
      | extf_heq (hT _ _ _)
      | extf_heq (ih _ _ _)
      | extf_heq (ExtF_procAcquire _ _)
      | split

theorem ExtF_givePart (w : World) (x p : Nat) : ExtF w (w.givePart x p).1 := ExtF_give _ _ _ _

theorem ExtF_tryList_givePart (w : World) (l : List Nat) (p : Nat) :
    ExtF w (tryList givePart w l p).1 := ExtF_tryList _ ExtF_givePart _ _ _

theorem ExtF_passHandler (w : World) (x : Nat) : ExtF w (w.passHandler x) := by
  unfold passHandler
  dsimp only
  repeat' first
    | extf_step
    | extf_heq (ExtF_tryList_givePart _ _ _)
    | split

theorem ExtF_bufferLoop (n : Nat) (w : World) (x : Nat) : ExtF w (bufferLoop n w x) := by
  induction n generalizing w with
  | zero => exact ExtF.refl _
  | succ n ih =>
    rw [bufferLoop]
    dsimp only
    repeat' first
      | extf_step
      | with_reducible apply ExtF.trans (h2 := ih _)
      | extf_heq (ExtF_tryList_givePart _ _ _)
      | split

macro_rules | `(tactic| extf_step) => `(tactic| with_reducible apply ExtF.trans (h2 := ExtF_passHandler _ _))
macro_rules | `(tactic| extf_step) => `(tactic| with_reducible apply ExtF.trans (h2 := ExtF_bufferLoop _ _ _))

/-! ### `supplied_new_part` records and the sources' counters -/

/-- Is `r` a `supplied_new_part` record of source `x`? -/
def isSupplied (x : Nat) : Rec → Bool
  | .supplied d _ _ => d == x
  | _ => false

/-- The number of `supplied_new_part` records of source `x`. -/
def countSupplied (w : World) (x : Nat) : Nat := (w.recs.filter (isSupplied x)).length

theorem isSup_of_isSupplied {x : Nat} {r : Rec} (h : isSupplied x r = true) : isSup r = true := by
  cases r <;> simp_all [isSupplied, isSup]

theorem filter_isSupplied_nosup (x : Nat) (l : List Rec) (h : ∀ r ∈ l, isSup r = false) :
    l.filter (isSupplied x) = [] := by
  rw [List.filter_eq_nil_iff]
  intro r hr hs
  have := h r hr
  rw [isSup_of_isSupplied hs] at this
  cases this

theorem produced_eq_PR (w : World) (y : Nat) : (w.dev y).produced = (PR w).getD y 0 := by
  unfold PR World.dev
  exact (getD_map Dev.produced w.devs y default).symm

theorem ExtF.produced {w w' : World} (h : ExtF w w') (y : Nat) :
    (w'.dev y).produced = (w.dev y).produced := by
  rw [produced_eq_PR, produced_eq_PR, h.prod]

theorem ExtF.countSupplied {w w' : World} (h : ExtF w w') (y : Nat) :
    countSupplied w' y = countSupplied w y := by
  obtain ⟨l, e, hs⟩ := h.ext
  unfold C15.countSupplied
  rw [e, List.filter_append, filter_isSupplied_nosup y l hs, List.append_nil]

theorem ExtF.devs_length {w w' : World} (h : ExtF w w') : w'.devs.length = w.devs.length := by
  have := congrArg List.length h.prod
  simpa [PR] using this

theorem kind_source_lt {w : World} {x : Nat} (h : (w.dev x).kind = .source) :
    x < w.devs.length := by
  apply Classical.byContradiction
  intro hn
  rw [dev_of_length_le (Nat.le_of_not_lt hn)] at h
  cases h

/-- The source's bookkeeping after a successful hand-over. -/
def bump (w : World) (x : Nat) (v : Int) : World :=
  w.modDev x (fun d => { d with
    produced := d.produced + 1
    val := d.val.addCost lblSupplied w.now v
    costProduced := d.costProduced + v })

/-- `max_produced_parts` is exhausted. -/
def srcDone (w : World) (x : Nat) : Bool :=
  match (w.dev x).maxParts.map (fun m => if m - (w.dev x).produced < 0 then 0
      else m - (w.dev x).produced) with
  | some r => decide (r < 1)
  | none => false

theorem passPart_source_eq (w : World) (x : Nat) (h : (w.dev x).kind = .source) :
    w.passPart x =
      if srcDone w x then w
      else match (w.dev x).output with
        | none => w
        | some p =>
          if ((w.passHandler x).dev x).output.isNone then
            ((bump (w.passHandler x) x (w.partValue p)).addRec
              (.supplied x (w.passHandler x).now p)).scheduleFinish x
          else w.passHandler x := by
  unfold passPart
  simp only [h]
  rfl

/-- Everything `_pass_part_downstream` does on a device that is not a source leaves the sources'
counters and `supplied_new_part` records alone. -/
theorem ExtF_passPart_other (w : World) (x : Nat) (h : (w.dev x).kind ≠ .source) :
    ExtF w (w.passPart x) := by
  unfold passPart
  dsimp only
  split
  · contradiction
  all_goals extf_auto

/-- `Source._pass_part_downstream`: either the hand-over succeeded — then exactly one
`supplied_new_part` record (current time, the part that was in the output) is written and the
counter of this source (and of no other device) goes up by one — or nothing of the kind happens. -/
theorem passPart_source_cases (w : World) (x : Nat) (h : (w.dev x).kind = .source) :
    (∃ p l₁ l₂, (w.dev x).output = some p ∧
        (w.passPart x).recs = w.recs ++ l₁ ++ [Rec.supplied x w.now p] ++ l₂ ∧
        (∀ r ∈ l₁, isSup r = false) ∧ (∀ r ∈ l₂, isSup r = false) ∧
        ((w.passPart x).dev x).produced = (w.dev x).produced + 1 ∧
        ∀ y, y ≠ x → ((w.passPart x).dev y).produced = (w.dev y).produced) ∨
      ExtF w (w.passPart x) := by
  rw [passPart_source_eq w x h]
  by_cases hd : srcDone w x = true
  · rw [if_pos hd]; exact Or.inr (ExtF.refl _)
  · rw [if_neg hd]
    cases hp : (w.dev x).output with
    | none => exact Or.inr (ExtF.refl _)
    | some p =>
      dsimp only
      by_cases hn : ((w.passHandler x).dev x).output.isNone = true
      · rw [if_pos hn]
        left
        have h1 := ExtF_passHandler w x
        have hx : x < (w.passHandler x).devs.length := by
          rw [h1.devs_length]; exact kind_source_lt h
        have h3 := ExtF_scheduleFinish ((bump (w.passHandler x) x (w.partValue p)).addRec
              (.supplied x (w.passHandler x).now p)) x
        obtain ⟨l₁, e1, s1⟩ := h1.ext
        obtain ⟨l₂, e2, s2⟩ := h3.ext
        refine ⟨p, l₁, l₂, rfl, ?_, s1, s2, ?_, ?_⟩
        · rw [e2, addRec_recs]
          show (w.passHandler x).recs ++ _ ++ _ = _
          rw [e1, h1.now_eq]
        · rw [h3.produced, dev_addRec]
          unfold bump
          rw [dev_modDev_same hx]
          show ((w.passHandler x).dev x).produced + 1 = _
          rw [h1.produced]
        · intro y hy
          rw [h3.produced, dev_addRec]
          unfold bump
          rw [dev_modDev_ne (Ne.symm hy), h1.produced]
      · rw [if_neg hn]; exact Or.inr (ExtF_passHandler w x)

/-- One-step preservation of "parts produced by a source = number of its `supplied_new_part`
records", for every device `y` and every `_pass_part_downstream` event. -/
theorem passPart_supplied_count (w : World) (x y : Nat) :
    ((w.passPart x).dev y).produced - countSupplied (w.passPart x) y =
      (w.dev y).produced - countSupplied w y := by
  by_cases h : (w.dev x).kind = .source
  · rcases passPart_source_cases w x h with ⟨p, l₁, l₂, _, e, s1, s2, hx, hy⟩ | hF
    · have hc : countSupplied (w.passPart x) y =
          countSupplied w y + (if x = y then 1 else 0) := by
        unfold countSupplied
        rw [e]
        simp only [List.filter_append, filter_isSupplied_nosup y l₁ s1,
          filter_isSupplied_nosup y l₂ s2, List.append_nil, List.length_append]
        congr 1
        by_cases hxy : x = y <;> simp [isSupplied, hxy]
      by_cases hxy : y = x
      · subst hxy
        rw [hc, hx]; simp; omega
      · rw [hc, hy y hxy]
        have : ¬ x = y := fun e => hxy e.symm
        simp [this]
    · rw [hF.produced, hF.countSupplied]
  · have hF := ExtF_passPart_other w x h
    rw [hF.produced, hF.countSupplied]

theorem ExtF_shutdownDev (w : World) (x : Nat) (f : Bool) (lost : Option Nat) :
    ExtF w (w.shutdownDev x f lost) := by
  unfold shutdownDev
  dsimp only
  extf_auto

theorem ExtF_restoreDev (w : World) (x : Nat) : ExtF w (w.restoreDev x) := by
  unfold restoreDev
  dsimp only
  extf_auto

macro_rules | `(tactic| extf_step) => `(tactic| with_reducible apply ExtF.trans (h2 := ExtF_shutdownDev _ _ _ _))

theorem ExtF_failDev (w : World) (x : Nat) : ExtF w (w.failDev x) := by
  unfold failDev
  dsimp only
  extf_auto

theorem ExtF_releaseIfIdle (w : World) (x : Nat) : ExtF w (w.releaseIfIdle x) := by
  unfold releaseIfIdle
  extf_auto

theorem ExtF_schedUpdate (w : World) (s : Nat) (advance : Bool) :
    ExtF w (w.schedUpdate s advance) := by
  unfold schedUpdate
  dsimp only
  extf_auto

theorem ExtF_periodicSense (w : World) (s : Nat) : ExtF w (w.periodicSense s) := by
  unfold periodicSense
  dsimp only
  extf_auto

/-- One-step preservation of `produced − #supplied_new_part records` for every device, for the
actions of events that run no scenario script. -/
theorem exec_supplied_count (w : World) (a : Action) (y : Nat)
    (ha : match a with
      | .terminate | .finishCycle _ | .passPart _ | .fail _ | .releaseIfIdle _
      | .schedUpdate _ | .periodicSense _ | .unknown _ => True
      | _ => False) :
    ((w.exec a).dev y).produced - countSupplied (w.exec a) y =
      (w.dev y).produced - countSupplied w y := by
  cases a <;> simp only at ha <;> unfold exec <;> dsimp only
  · rw [(ExtF_finishCycle w _).produced, (ExtF_finishCycle w _).countSupplied]
  · exact passPart_supplied_count w _ y
  · rw [(ExtF_failDev w _).produced, (ExtF_failDev w _).countSupplied]
  · rw [(ExtF_releaseIfIdle w _).produced, (ExtF_releaseIfIdle w _).countSupplied]
  · rw [(ExtF_schedUpdate w _ _).produced, (ExtF_schedUpdate w _ _).countSupplied]
  · rw [(ExtF_periodicSense w _).produced, (ExtF_periodicSense w _).countSupplied]
  · rw [(ExtF_setErr w _).produced, (ExtF_setErr w _).countSupplied]

/-! ## The same frame for the buffers' `level`: it is changed only by `_on_received_new_part`
and by the release loop of `Buffer._pass_part_downstream` (both write a `level` record) -/

/-- Is `r` a `level` record? -/
def isLevel : Rec → Bool
  | .level .. => true
  | _ => false

/-- The levels of all devices. -/
def PL (w : World) : List Nat := w.devs.map (·.level)

/-- Same clock, the log is extended by records other than `level` records, no `level`
changes. -/
structure ExtL (w w' : World) : Prop where
  now_eq : w'.now = w.now
  ext : ∃ l, w'.recs = w.recs ++ l ∧ ∀ r ∈ l, isLevel r = false
  prod : PL w' = PL w

theorem ExtL.refl (w : World) : ExtL w w := ⟨rfl, ⟨[], by simp, by simp⟩, rfl⟩

theorem ExtL.trans {a b c : World} (h1 : ExtL a b) (h2 : ExtL b c) : ExtL a c := by
  obtain ⟨n1, ⟨l1, e1, s1⟩, p1⟩ := h1
  obtain ⟨n2, ⟨l2, e2, s2⟩, p2⟩ := h2
  refine ⟨n2.trans n1, ⟨l1 ++ l2, by rw [e2, e1, List.append_assoc], ?_⟩, p2.trans p1⟩
  intro r hr
  rcases List.mem_append.1 hr with h | h
  · exact s1 r h
  · exact s2 r h

theorem ExtL.extN {a b : World} (h : ExtL a b) : ExtN a b :=
  ⟨h.now_eq, by obtain ⟨l, e, _⟩ := h.ext; exact ⟨l, e⟩⟩

theorem ExtL.of_RN_PL {w w' : World} (h : RN w' = RN w) (hp : PL w' = PL w) : ExtL w w' :=
  ⟨RN_now h, ⟨[], by simp [RN_recs h], by simp⟩, hp⟩

theorem PL_of_devs_eq {w w' : World} (h : w'.devs = w.devs) : PL w' = PL w := by
  unfold PL; rw [h]

theorem PL_of_core_eq {w w' : World} (h : w'.core = w.core) : PL w' = PL w := by
  have h1 := congrArg (fun v : World => v.devs.map (·.level)) h
  simp only [core_devs, List.map_map] at h1
  exact h1

theorem ExtL.of_core {w w' : World} (h : w'.core = w.core) (hr : RN w' = RN w) : ExtL w w' :=
  ExtL.of_RN_PL hr (PL_of_core_eq h)

theorem ExtL.of_devs {w w' : World} (h : w'.devs = w.devs) (hr : RN w' = RN w) : ExtL w w' :=
  ExtL.of_RN_PL hr (PL_of_devs_eq h)

theorem ExtL.foldl {α} (g : World → α → World) (l : List α) (w : World)
    (h : ∀ w a, ExtL w (g w a)) : ExtL w (l.foldl g w) := by
  induction l generalizing w with
  | nil => exact ExtL.refl w
  | cons a l ih => exact (h w a).trans (ih _)

theorem ExtL.of_fst_eq {α} {w w' : World} {e : World × α} {b : α} (he : ExtL w e.1)
    (h : e = (w', b)) : ExtL w w' := by
  subst h; exact he

/-! ### primitives -/

theorem ExtL_setErr (w : World) (m : String) : ExtL w (w.setErr m) :=
  ExtL.of_core (setErr_core _ _) (RN_setErr _ _)
theorem ExtL_addRes (w : World) (r : Res) : ExtL w (w.addRes r) := ExtL.of_devs rfl rfl
theorem ExtL_modPart (w : World) (p : Nat) (f : PartRec → PartRec) : ExtL w (w.modPart p f) :=
  ExtL.of_devs rfl rfl
theorem ExtL_newPart (w : World) (r : PartRec) : ExtL w (w.newPart r).1 := ExtL.of_devs rfl rfl
theorem ExtL_sched (w : World) (t a : Int) (act : Action) (p : Int) : ExtL w (w.sched t a act p).1 :=
  ExtL.of_core (sched_fst_core _ _ _ _ _) (RN_sched _ _ _ _ _)
theorem ExtL_schedLib (w : World) (t a : Int) (act : Action) (p : Int) :
    ExtL w (w.schedLib t a act p) :=
  ExtL.of_core (schedLib_core _ _ _ _ _) (RN_schedLib _ _ _ _ _)
theorem ExtL_envOp_pause (w : World) (a : Int) : ExtL w (w.envOp (.pause a)) := ExtL.of_devs rfl rfl
theorem ExtL_envOp_unpause (w : World) (a : Int) : ExtL w (w.envOp (.unpause a)) :=
  ExtL.of_devs rfl rfl
theorem ExtL_envOp_cancel (w : World) (a : Int) : ExtL w (w.envOp (.cancel a)) :=
  ExtL.of_devs rfl rfl

theorem ExtL_addRec (w : World) (r : Rec) (hp : isLevel r = false) : ExtL w (w.addRec r) :=
  ⟨rfl, ⟨[r], rfl, by simpa using hp⟩, rfl⟩

theorem PL_setDev (w : World) (x : Nat) (d : Dev) (hp : d.level = (w.dev x).level) :
    PL (w.setDev x d) = PL w :=
  map_set_of_eq Dev.level w.devs x d default hp

theorem ExtL_setDev (w : World) (x : Nat) (d : Dev) (hp : d.level = (w.dev x).level) :
    ExtL w (w.setDev x d) := ExtL.of_RN_PL rfl (PL_setDev w x d hp)

theorem ExtL_modDev (w : World) (x : Nat) (f : Dev → Dev)
    (hp : (f (w.dev x)).level = (w.dev x).level) : ExtL w (w.modDev x f) :=
  ExtL_setDev w x _ hp

theorem ExtL_rmEffects (w : World) (recs : List ResRec) (chk : Bool) :
    ExtL w (w.rmEffects recs chk) := by
  refine ⟨rmEffects_now _ _ _, ⟨_, rmEffects_recs' _ _ _, ?_⟩, PL_of_core_eq (rmEffects_core _ _ _)⟩
  intro r hr
  obtain ⟨a, _, rfl⟩ := List.mem_map.1 hr
  rfl

theorem ExtL_setWaiting (w : World) (x : Nat) (a b : Bool) : ExtL w (w.setWaiting x a b) :=
  ExtL.of_core (setWaiting_core _ _ _ _) (RN_setWaiting _ _ _ _)
theorem ExtL_schedulePass (w : World) (x : Nat) (o : Int) : ExtL w (w.schedulePass x o) :=
  ExtL.of_core (schedulePass_core _ _ _) (RN_schedulePass _ _ _)
theorem ExtL_notify (w : World) (x : Nat) : ExtL w (w.notify x) :=
  ExtL.of_core (notify_core _ _) (RN_notify _ _)
theorem ExtL_spaceAvailable (w : World) (x : Nat) : ExtL w (w.spaceAvailable x) :=
  ExtL.of_core (spaceAvailable_core _ _) (RN_spaceAvailable _ _)
theorem ExtL_addHist (w : World) (p d : Nat) : ExtL w (w.addHist p d) :=
  ExtL.of_devs (addHist_devs _ _ _) (RN_addHist _ _ _)
theorem ExtL_dropHist (w : World) (p : Nat) : ExtL w (w.dropHist p) :=
  ExtL.of_devs (dropHist_devs _ _) (RN_dropHist _ _)

/-- Peel a structure update `{ w with f := v, … }` that leaves `recs`, `env` and `devs` alone. -/
elab "extl_struct" : tactic => do
  let g ← getMainGoal
  g.withContext do
    let t ← instantiateMVars (← g.getType)
    let_expr ExtL a b := t.consumeMData | throwError "extl_struct: not an ExtL goal"
    let b := b.consumeMData
    unless b.isAppOfArity ``World.mk 23 do throwError "extl_struct: not a structure instance"
    let r := b.getArg! 6
    let w0 ← match r with
      | .proj _ _ w0 => pure w0
      | _ =>
        if r.isAppOfArity ``World.recs 1 then pure (r.getArg! 0)
        else throwError "extl_struct: the log is changed"
    let newGoal ← mkFreshExprSyntheticOpaqueMVar (← mkAppM ``ExtL #[a, w0])
    let eq1 ← mkEq (← mkAppM ``World.devs #[b]) (← mkAppM ``World.devs #[w0])
    let pf1 ← mkFreshExprMVar eq1
    pf1.mvarId!.refl
    let eq2 ← mkEq (← mkAppM ``RN #[b]) (← mkAppM ``RN #[w0])
    let pf2 ← mkFreshExprMVar eq2
    pf2.mvarId!.refl
    let step := mkApp4 (mkConst ``ExtL.of_devs) w0 b pf1 pf2
    g.assign (mkApp5 (mkConst ``ExtL.trans) a w0 b newGoal step)
    replaceMainGoal [newGoal.mvarId!]

syntax "extl_step" : tactic
macro "extl_auto" : tactic => `(tactic| repeat' first | extl_step | split)

macro_rules | `(tactic| extl_step) => `(tactic| extl_struct)
macro_rules | `(tactic| extl_step) => `(tactic|
  ((with_reducible apply ExtL.trans (h2 := ExtL.foldl _ _ _ ?hs)); case hs => (intro _ _; extl_auto; done)))
macro_rules | `(tactic| extl_step) => `(tactic| with_reducible apply ExtL.trans (h2 := ExtL_dropHist _ _))
macro_rules | `(tactic| extl_step) => `(tactic| with_reducible apply ExtL.trans (h2 := ExtL_addHist _ _ _))
macro_rules | `(tactic| extl_step) => `(tactic| with_reducible apply ExtL.trans (h2 := ExtL_spaceAvailable _ _))
macro_rules | `(tactic| extl_step) => `(tactic| with_reducible apply ExtL.trans (h2 := ExtL_notify _ _))
macro_rules | `(tactic| extl_step) => `(tactic| with_reducible apply ExtL.trans (h2 := ExtL_schedulePass _ _ _))
macro_rules | `(tactic| extl_step) => `(tactic| with_reducible apply ExtL.trans (h2 := ExtL_setWaiting _ _ _ _))
macro_rules | `(tactic| extl_step) => `(tactic| with_reducible apply ExtL.trans (h2 := ExtL_rmEffects _ _ _))
macro_rules | `(tactic| extl_step) => `(tactic| with_reducible apply ExtL.trans (h2 := ExtL_envOp_cancel _ _))
macro_rules | `(tactic| extl_step) => `(tactic| with_reducible apply ExtL.trans (h2 := ExtL_envOp_unpause _ _))
macro_rules | `(tactic| extl_step) => `(tactic| with_reducible apply ExtL.trans (h2 := ExtL_envOp_pause _ _))
macro_rules | `(tactic| extl_step) => `(tactic| with_reducible apply ExtL.trans (h2 := ExtL_schedLib _ _ _ _ _))
macro_rules | `(tactic| extl_step) => `(tactic| with_reducible apply ExtL.trans (h2 := ExtL_setErr _ _))
macro_rules | `(tactic| extl_step) => `(tactic| with_reducible apply ExtL.trans (h2 := ExtL_addRes _ _))
macro_rules | `(tactic| extl_step) => `(tactic| with_reducible apply ExtL.trans (h2 := ExtL_modPart _ _ _))
macro_rules | `(tactic| extl_step) => `(tactic|
  ((with_reducible apply ExtL.trans (h2 := ExtL_addRec _ _ ?hp)); case hp => exact rfl))
macro_rules | `(tactic| extl_step) => `(tactic|
  ((with_reducible apply ExtL.trans (h2 := ExtL_modDev _ _ _ ?hp)); case hp => exact rfl))
macro_rules | `(tactic| extl_step) => `(tactic|
  ((with_reducible apply ExtL.trans (h2 := ExtL_setDev _ _ _ ?hp)); case hp => exact rfl))
macro_rules | `(tactic| extl_step) => `(tactic| with_reducible exact ExtL.refl _)

/-- After a `split` on a pair-valued call: use the fact `t` about the call. -/
macro "extl_heq " t:term : tactic =>
  `(tactic| (rename_i heq; with_reducible apply ExtL.trans (h2 := ExtL.of_fst_eq $t heq)))

/-! ### the functions of the floor -/

theorem ExtL_applyPartCb (w : World) (x p : Nat) (c : PartCb) : ExtL w (w.applyPartCb x p c) := by
  unfold applyPartCb
  dsimp only
  extl_auto

theorem ExtL_senseOutput (w : World) (s p : Nat) : ExtL w (w.senseOutput s p) := by
  unfold senseOutput
  dsimp only
  extl_auto

theorem ExtL_finishCycleHandler (w : World) (x : Nat) : ExtL w (w.finishCycleHandler x) := by
  unfold finishCycleHandler
  dsimp only
  extl_auto
macro_rules | `(tactic| extl_step) => `(tactic| with_reducible apply ExtL.trans (h2 := ExtL_applyPartCb _ _ _ _))
macro_rules | `(tactic| extl_step) => `(tactic| with_reducible apply ExtL.trans (h2 := ExtL_senseOutput _ _ _))
macro_rules | `(tactic| extl_step) => `(tactic| with_reducible apply ExtL.trans (h2 := ExtL_finishCycleHandler _ _))

theorem ExtL_genPart (w : World) (x : Nat) : ExtL w (w.genPart x).1 :=
  ExtL.of_devs (genPart_devs w x) (RN_genPart w x)

theorem ExtL_batcherLoop (n : Nat) (w : World) (x : Nat) : ExtL w (batcherLoop n w x) := by
  induction n generalizing w with
  | zero => exact ExtL.refl _
  | succ n ih =>
    rw [batcherLoop]
    split
    · split
      rename_i w1 t heq
      refine ExtL.trans ?_ (ih _)
      have h1 : ExtL w (w1, t).1 := by
        rw [← heq]
        split <;> dsimp only <;> extl_auto
      refine ExtL.trans h1 ?_
      split
      · extl_auto
      · split
        rename_i w2 b heq2
        have h2 : ExtL w1 (w2, b).1 := by
          rw [← heq2]
          split
          · exact ExtL.refl _
          · dsimp only
            extl_step
            exact ExtL_newPart _ _
        refine ExtL.trans h2 ?_
        dsimp only
        extl_auto
    · exact ExtL.refl _

theorem ExtL_releaseReserved (w : World) (x : Nat) : ExtL w (w.releaseReserved x) := by
  unfold releaseReserved
  split
  · exact ExtL.refl _
  · dsimp only
    extl_auto

theorem ExtL_procAcquire (w : World) (x : Nat) : ExtL w (w.procAcquire x).1 := by
  unfold procAcquire
  dsimp only
  extl_auto

macro_rules | `(tactic| extl_step) => `(tactic| with_reducible apply ExtL.trans (h2 := ExtL_genPart _ _))
macro_rules | `(tactic| extl_step) => `(tactic| with_reducible apply ExtL.trans (h2 := ExtL_batcherLoop _ _ _))
macro_rules | `(tactic| extl_step) => `(tactic| with_reducible apply ExtL.trans (h2 := ExtL_releaseReserved _ _))

theorem ExtL_procPre (w : World) (x : Nat) : ExtL w (procPre w x) := by
  unfold procPre
  dsimp only
  extl_auto

theorem ExtL_procCbs (w : World) (cbs : List PartCb) (sens : List Nat) (x p : Nat) :
    ExtL w (procCbs w cbs sens x p) := by
  unfold procCbs
  extl_auto

theorem ExtL_finishCycle (w : World) (x : Nat) : ExtL w (w.finishCycle x) := by
  by_cases h : (w.dev x).kind = .processor
  · rw [finishCycle_processor_eq w x h]
    split
    · exact ExtL_procPre w x
    · exact ((ExtL_procPre w x).trans (ExtL_procCbs _ _ _ _ _)).trans (ExtL_addRec _ _ rfl)
  · unfold finishCycle
    dsimp only
    split
    · extl_step
      split
      · extl_step
        extl_step
        have := ExtL_genPart w x
        revert this
        generalize w.genPart x = q
        intro this
        exact this
      · exact ExtL.refl _
    · extl_auto
    · contradiction
    · extl_auto

macro_rules | `(tactic| extl_step) => `(tactic| with_reducible apply ExtL.trans (h2 := ExtL_finishCycle _ _))

theorem ExtL_scheduleFinish (w : World) (x : Nat) : ExtL w (w.scheduleFinish x) := by
  unfold scheduleFinish
  dsimp only
  extl_auto

macro_rules | `(tactic| extl_step) => `(tactic| with_reducible apply ExtL.trans (h2 := ExtL_scheduleFinish _ _))

theorem ExtL_tryMove (w : World) (x : Nat) : ExtL w (w.tryMove x) := by
  unfold tryMove
  dsimp only
  extl_auto

macro_rules | `(tactic| extl_step) => `(tactic| with_reducible apply ExtL.trans (h2 := ExtL_tryMove _ _))

theorem level_eq_PL (w : World) (y : Nat) : (w.dev y).level = (PL w).getD y 0 := by
  unfold PL World.dev
  exact (getD_map Dev.level w.devs y default).symm

theorem ExtL.level {w w' : World} (h : ExtL w w') (y : Nat) :
    (w'.dev y).level = (w.dev y).level := by
  rw [level_eq_PL, level_eq_PL, h.prod]

theorem ExtL_shutdownDev (w : World) (x : Nat) (f : Bool) (lost : Option Nat) :
    ExtL w (w.shutdownDev x f lost) := by
  unfold shutdownDev
  dsimp only
  extl_auto

theorem ExtL_restoreDev (w : World) (x : Nat) : ExtL w (w.restoreDev x) := by
  unfold restoreDev
  dsimp only
  extl_auto

macro_rules | `(tactic| extl_step) => `(tactic| with_reducible apply ExtL.trans (h2 := ExtL_shutdownDev _ _ _ _))

theorem ExtL_failDev (w : World) (x : Nat) : ExtL w (w.failDev x) := by
  unfold failDev
  dsimp only
  extl_auto

theorem ExtL_releaseIfIdle (w : World) (x : Nat) : ExtL w (w.releaseIfIdle x) := by
  unfold releaseIfIdle
  extl_auto

theorem ExtL_schedUpdate (w : World) (s : Nat) (advance : Bool) :
    ExtL w (w.schedUpdate s advance) := by
  unfold schedUpdate
  dsimp only
  extl_auto

theorem ExtL_periodicSense (w : World) (s : Nat) : ExtL w (w.periodicSense s) := by
  unfold periodicSense
  dsimp only
  extl_auto


macro_rules | `(tactic| extl_step) => `(tactic| with_reducible apply ExtL.trans (h2 := ExtL_tryMove _ _))

theorem ExtL_recvHead (w : World) (x p : Nat) (h : (w.dev x).kind ≠ .buffer) :
    ExtL w (recvHead w x p) := by
  unfold recvHead
  dsimp only
  split
  · extl_auto
  · contradiction
  · exact ExtL.refl _

theorem ExtL_recvTail (w : World) (x p : Nat) : ExtL w (recvTail w x p) := by
  unfold recvTail
  dsimp only
  extl_auto

theorem ExtL_onReceived_other (w : World) (x p : Nat) (h : (w.dev x).kind ≠ .buffer) :
    ExtL w (w.onReceived x p) := by
  rw [onReceived_eq]
  exact ((ExtL_recvHead w x p h).trans (ExtL_addRec _ _ rfl)).trans (ExtL_recvTail _ _ _)

theorem ExtL_acceptHead (w : World) (x p : Nat) : ExtL w (acceptHead w x p) := by
  unfold acceptHead
  dsimp only
  extl_auto

theorem ExtL_acceptPart_other (w : World) (x p : Nat) (h : (w.dev x).kind ≠ .buffer) :
    ExtL w (w.acceptPart x p) := by
  rw [acceptPart_eq]
  refine (ExtL_acceptHead w x p).trans (ExtL_onReceived_other _ _ _ ?_)
  rw [acceptHead_dev_field Dev.kind (fun _ _ => rfl) (fun _ => rfl)]; exact h

/-! ### last-record invariant of the resources, one step at the level of the world -/

theorem Faithful.last {rm rm' : RM} {recs : List ResRec} (h : Faithful rm rm' recs) (t : Int)
    (r : Nat) : (lastResUpdate (stamp t recs) r).getD (pool rm r) = pool rm' r := by
  rw [lastResUpdate_stamp]
  have := h r
  cases e : lastFor recs r with
  | none => rw [e] at this; simpa using this.symm
  | some x => rw [e] at this; simp only at this; subst this; rfl

/-- `w'` extends the log of `w` by records whose last `resource_update` entry for every resource
shows the new pool; a resource without an entry is unchanged. -/
def ResStep (w w' : World) : Prop :=
  ∃ l, w'.recs = w.recs ++ l ∧
    ∀ r, (lastResUpdate l r).getD (pool w.rm r) = pool w'.rm r

theorem ResStep.of_rmEffects (w : World) (rm' : RM) (recs : List ResRec) (chk : Bool)
    (h : Faithful w.rm rm' recs) : ResStep w (({ w with rm := rm' }).rmEffects recs chk) := by
  refine ⟨_, rmEffects_recs' _ _ _, fun r => ?_⟩
  rw [rmEffects_rm]
  exact h.last _ r

theorem ResStep.refl (w : World) : ResStep w w :=
  ⟨[], by simp, fun r => by simp [lastResUpdate]⟩

theorem applyOp_addRes_resStep (w : World) (r : Nat) (amt : Int) (hi : w.rm.inited = true) :
    ResStep w (w.applyOp (.addRes r amt)).1 := by
  unfold applyOp
  exact ResStep.of_rmEffects w _ _ _ (Faithful.add w.rm r amt hi)

theorem applyOp_reserve_resStep (w : World) (h : Nat) (req : Req) (hi : w.rm.inited = true) :
    ResStep w (w.applyOp (.reserve h req)).1 := by
  unfold applyOp
  dsimp only
  split
  · exact ResStep.refl w
  · obtain ⟨l, e, hl⟩ := ResStep.of_rmEffects w _ _ false (Faithful.reserve w.rm req hi)
    exact ⟨l, e, hl⟩

theorem applyOp_release_resStep (w : World) (h : Nat) (part : Option Req)
    (hi : w.rm.inited = true) : ResStep w (w.applyOp (.release h part)).1 := by
  cases hv : w.getVar h with
  | none =>
    have e : (w.applyOp (.release h part)).1 = w := by simp only [applyOp, hv]
    rw [e]; exact ResStep.refl w
  | some id =>
    have e : (w.applyOp (.release h part)).1 =
        ({ w with rm := (w.rm.release id part).1 }).rmEffects (w.rm.release id part).2.2.1
          (w.rm.release id part).2.2.2 := by simp only [applyOp, hv]
    rw [e]; exact ResStep.of_rmEffects w _ _ _ (Faithful.release w.rm _ part hi)

theorem releaseReserved_resStep (w : World) (x : Nat) (hi : w.rm.inited = true) :
    ResStep w (w.releaseReserved x) := by
  unfold releaseReserved
  split
  · exact ResStep.refl w
  · obtain ⟨l, e, hl⟩ := ResStep.of_rmEffects w _ _ (w.rm.release _ none).2.2.2
      (Faithful.release w.rm _ none hi)
    exact ⟨l, e, hl⟩

/-! ## Level changes are always logged: the last `level` record of a buffer is its level -/

theorem lastLevel_append (l₁ l₂ : List Rec) (y : Nat) :
    lastLevel (l₁ ++ l₂) y = (lastLevel l₂ y).or (lastLevel l₁ y) := by
  unfold lastLevel
  rw [List.filterMap_append, List.getLast?_append]

theorem lastLevel_of_noLevel (l : List Rec) (h : ∀ r ∈ l, isLevel r = false) (y : Nat) :
    lastLevel l y = none := by
  unfold lastLevel
  rw [List.getLast?_eq_none_iff, List.filterMap_eq_nil_iff]
  intro r hr
  have := h r hr
  cases r <;> simp_all [isLevel]

/-- `w'` extends the log of `w` (same clock) and the new piece logs every change of a level: for
every device, the last `level` record about it in the new piece shows its new level, and a device
without a new `level` record keeps its level. -/
structure ExtV (w w' : World) : Prop where
  now_eq : w'.now = w.now
  ext : ∃ l, w'.recs = w.recs ++ l ∧
    ∀ y, (lastLevel l y).getD (w.dev y).level = (w'.dev y).level

theorem ExtV.refl (w : World) : ExtV w w := ⟨rfl, ⟨[], by simp, fun y => by simp [lastLevel]⟩⟩

theorem ExtV.trans {a b c : World} (h1 : ExtV a b) (h2 : ExtV b c) : ExtV a c := by
  obtain ⟨n1, l1, e1, v1⟩ := h1
  obtain ⟨n2, l2, e2, v2⟩ := h2
  refine ⟨n2.trans n1, l1 ++ l2, by rw [e2, e1, List.append_assoc], fun y => ?_⟩
  rw [lastLevel_append]
  have := v2 y
  cases e : lastLevel l2 y with
  | some v => rw [e] at this; simpa using this
  | none => rw [e] at this; simp only [Option.getD_none] at this; rw [← this]; simpa using v1 y

theorem ExtV.of_ExtL {w w' : World} (h : ExtL w w') : ExtV w w' := by
  obtain ⟨l, e, hl⟩ := h.ext
  refine ⟨h.now_eq, l, e, fun y => ?_⟩
  rw [lastLevel_of_noLevel l hl y, h.level y]; rfl

theorem ExtV.foldl {α} (g : World → α → World) (l : List α) (w : World)
    (h : ∀ w a, ExtV w (g w a)) : ExtV w (l.foldl g w) := by
  induction l generalizing w with
  | nil => exact ExtV.refl w
  | cons a l ih => exact (h w a).trans (ih _)

theorem ExtV.of_fst_eq {α} {w w' : World} {e : World × α} {b : α} (he : ExtV w e.1)
    (h : e = (w', b)) : ExtV w w' := by
  subst h; exact he

/-- The invariant: the last `level` record of every device is its level (0 without a record). -/
def LevelInv (w : World) : Prop := ∀ y, (lastLevel w.recs y).getD 0 = (w.dev y).level

theorem ExtV.levelInv {w w' : World} (h : ExtV w w') (hi : LevelInv w) : LevelInv w' := by
  obtain ⟨l, e, v⟩ := h.ext
  intro y
  rw [e, lastLevel_append]
  have := v y
  cases el : lastLevel l y with
  | some n => rw [el] at this; simpa using this
  | none => rw [el] at this; simp only [Option.getD_none] at this; rw [← this]; simpa using hi y

/-- A change of the level of `x` followed by a `level` record showing the new level. -/
theorem ExtV_levelStep (w : World) (x : Nat) (d : Dev) (t : Int) :
    ExtV w ((w.setDev x d).addRec (.level x t ((w.setDev x d).dev x).level)) := by
  refine ⟨rfl, [_], rfl, fun y => ?_⟩
  by_cases hy : y = x
  · subst hy; simp [lastLevel]
  · have : ¬ x = y := fun e => hy e.symm
    simp only [lastLevel, List.filterMap_cons, this, if_false, List.filterMap_nil,
      List.getLast?_nil, Option.getD_none]
    rw [dev_addRec, dev_setDev_ne this]

theorem ExtV_levelStep' (w : World) (x : Nat) (f : Dev → Dev) (t : Int) :
    ExtV w ((w.modDev x f).addRec (.level x t ((w.modDev x f).dev x).level)) :=
  ExtV_levelStep w x _ t

/-- Peel a structure update that leaves `recs`, `env` and `devs` alone. -/
elab "extv_struct" : tactic => do
  let g ← getMainGoal
  g.withContext do
    let t ← instantiateMVars (← g.getType)
    let_expr ExtV a b := t.consumeMData | throwError "extv_struct: not an ExtV goal"
    let b := b.consumeMData
    unless b.isAppOfArity ``World.mk 23 do throwError "extv_struct: not a structure instance"
    let r := b.getArg! 6
    let w0 ← match r with
      | .proj _ _ w0 => pure w0
      | _ =>
        if r.isAppOfArity ``World.recs 1 then pure (r.getArg! 0)
        else throwError "extv_struct: the log is changed"
    let newGoal ← mkFreshExprSyntheticOpaqueMVar (← mkAppM ``ExtV #[a, w0])
    let eq1 ← mkEq (← mkAppM ``World.devs #[b]) (← mkAppM ``World.devs #[w0])
    let pf1 ← mkFreshExprMVar eq1
    pf1.mvarId!.refl
    let eq2 ← mkEq (← mkAppM ``RN #[b]) (← mkAppM ``RN #[w0])
    let pf2 ← mkFreshExprMVar eq2
    pf2.mvarId!.refl
    let step := mkApp3 (mkConst ``ExtV.of_ExtL) w0 b (mkApp4 (mkConst ``ExtL.of_devs) w0 b pf1 pf2)
    g.assign (mkApp5 (mkConst ``ExtV.trans) a w0 b newGoal step)
    replaceMainGoal [newGoal.mvarId!]

syntax "extv_step" : tactic
macro "extv_auto" : tactic => `(tactic| repeat' first | extv_step | split)

macro_rules | `(tactic| extv_step) => `(tactic| extv_struct)
macro_rules | `(tactic| extv_step) => `(tactic|
  ((with_reducible apply ExtV.trans (h2 := ExtV.foldl _ _ _ ?hs)); case hs => (intro _ _; extv_auto; done)))
macro_rules | `(tactic| extv_step) => `(tactic| with_reducible apply ExtV.trans (h2 := ExtV.of_ExtL (ExtL_dropHist _ _)))
macro_rules | `(tactic| extv_step) => `(tactic| with_reducible apply ExtV.trans (h2 := ExtV.of_ExtL (ExtL_addHist _ _ _)))
macro_rules | `(tactic| extv_step) => `(tactic| with_reducible apply ExtV.trans (h2 := ExtV.of_ExtL (ExtL_spaceAvailable _ _)))
macro_rules | `(tactic| extv_step) => `(tactic| with_reducible apply ExtV.trans (h2 := ExtV.of_ExtL (ExtL_notify _ _)))
macro_rules | `(tactic| extv_step) => `(tactic| with_reducible apply ExtV.trans (h2 := ExtV.of_ExtL (ExtL_schedulePass _ _ _)))
macro_rules | `(tactic| extv_step) => `(tactic| with_reducible apply ExtV.trans (h2 := ExtV.of_ExtL (ExtL_setWaiting _ _ _ _)))
macro_rules | `(tactic| extv_step) => `(tactic| with_reducible apply ExtV.trans (h2 := ExtV.of_ExtL (ExtL_rmEffects _ _ _)))
macro_rules | `(tactic| extv_step) => `(tactic| with_reducible apply ExtV.trans (h2 := ExtV.of_ExtL (ExtL_envOp_cancel _ _)))
macro_rules | `(tactic| extv_step) => `(tactic| with_reducible apply ExtV.trans (h2 := ExtV.of_ExtL (ExtL_envOp_unpause _ _)))
macro_rules | `(tactic| extv_step) => `(tactic| with_reducible apply ExtV.trans (h2 := ExtV.of_ExtL (ExtL_envOp_pause _ _)))
macro_rules | `(tactic| extv_step) => `(tactic| with_reducible apply ExtV.trans (h2 := ExtV.of_ExtL (ExtL_schedLib _ _ _ _ _)))
macro_rules | `(tactic| extv_step) => `(tactic| with_reducible apply ExtV.trans (h2 := ExtV.of_ExtL (ExtL_setErr _ _)))
macro_rules | `(tactic| extv_step) => `(tactic| with_reducible apply ExtV.trans (h2 := ExtV.of_ExtL (ExtL_addRes _ _)))
macro_rules | `(tactic| extv_step) => `(tactic| with_reducible apply ExtV.trans (h2 := ExtV.of_ExtL (ExtL_modPart _ _ _)))
macro_rules | `(tactic| extv_step) => `(tactic|
  ((with_reducible apply ExtV.trans (h2 := ExtV.of_ExtL (ExtL_addRec _ _ ?hp))); case hp => exact rfl))
macro_rules | `(tactic| extv_step) => `(tactic|
  ((with_reducible apply ExtV.trans (h2 := ExtV.of_ExtL (ExtL_modDev _ _ _ ?hp))); case hp => exact rfl))
macro_rules | `(tactic| extv_step) => `(tactic|
  ((with_reducible apply ExtV.trans (h2 := ExtV.of_ExtL (ExtL_setDev _ _ _ ?hp))); case hp => exact rfl))
macro_rules | `(tactic| extv_step) => `(tactic| with_reducible exact ExtV.refl _)
macro_rules | `(tactic| extv_step) => `(tactic| with_reducible apply ExtV.trans (h2 := ExtV.of_ExtL (ExtL_applyPartCb _ _ _ _)))
macro_rules | `(tactic| extv_step) => `(tactic| with_reducible apply ExtV.trans (h2 := ExtV.of_ExtL (ExtL_senseOutput _ _ _)))
macro_rules | `(tactic| extv_step) => `(tactic| with_reducible apply ExtV.trans (h2 := ExtV.of_ExtL (ExtL_finishCycleHandler _ _)))
macro_rules | `(tactic| extv_step) => `(tactic| with_reducible apply ExtV.trans (h2 := ExtV.of_ExtL (ExtL_genPart _ _)))
macro_rules | `(tactic| extv_step) => `(tactic| with_reducible apply ExtV.trans (h2 := ExtV.of_ExtL (ExtL_batcherLoop _ _ _)))
macro_rules | `(tactic| extv_step) => `(tactic| with_reducible apply ExtV.trans (h2 := ExtV.of_ExtL (ExtL_releaseReserved _ _)))
macro_rules | `(tactic| extv_step) => `(tactic| with_reducible apply ExtV.trans (h2 := ExtV.of_ExtL (ExtL_finishCycle _ _)))
macro_rules | `(tactic| extv_step) => `(tactic| with_reducible apply ExtV.trans (h2 := ExtV.of_ExtL (ExtL_scheduleFinish _ _)))
macro_rules | `(tactic| extv_step) => `(tactic| with_reducible apply ExtV.trans (h2 := ExtV.of_ExtL (ExtL_tryMove _ _)))
macro_rules | `(tactic| extv_step) => `(tactic| with_reducible apply ExtV.trans (h2 := ExtV.of_ExtL (ExtL_shutdownDev _ _ _ _)))
macro_rules | `(tactic| extv_step) => `(tactic| with_reducible apply ExtV.trans (h2 := ExtV.of_ExtL (ExtL_tryMove _ _)))

macro_rules | `(tactic| extv_step) => `(tactic| with_reducible apply ExtV.trans (h2 := ExtV.of_ExtL (ExtL_restoreDev _ _)))
macro_rules | `(tactic| extv_step) => `(tactic| with_reducible apply ExtV.trans (h2 := ExtV.of_ExtL (ExtL_failDev _ _)))
macro_rules | `(tactic| extv_step) => `(tactic| with_reducible apply ExtV.trans (h2 := ExtV.of_ExtL (ExtL_releaseIfIdle _ _)))
macro_rules | `(tactic| extv_step) => `(tactic| with_reducible apply ExtV.trans (h2 := ExtV.of_ExtL (ExtL_acceptHead _ _ _)))
macro_rules | `(tactic| extv_step) => `(tactic| with_reducible apply ExtV.trans (h2 := ExtV.of_ExtL (ExtL_recvTail _ _ _)))
macro_rules | `(tactic| extv_step) => `(tactic| with_reducible apply ExtV.trans (h2 := ExtV_levelStep _ _ _ _))
macro_rules | `(tactic| extv_step) => `(tactic| with_reducible apply ExtV.trans (h2 := ExtV_levelStep' _ _ _ _))

macro "extv_heq " t:term : tactic =>
  `(tactic| (rename_i heq; with_reducible apply ExtV.trans (h2 := ExtV.of_fst_eq $t heq)))

theorem ExtV_recvHead (w : World) (x p : Nat) : ExtV w (recvHead w x p) := by
  unfold recvHead
  dsimp only
  extv_auto

theorem ExtV_onReceived (w : World) (x p : Nat) : ExtV w (w.onReceived x p) := by
  rw [onReceived_eq]
  exact ((ExtV_recvHead w x p).trans (ExtV.of_ExtL (ExtL_addRec _ _ rfl))).trans
    (ExtV.of_ExtL (ExtL_recvTail _ _ _))

theorem ExtV_acceptPart (w : World) (x p : Nat) : ExtV w (w.acceptPart x p) := by
  rw [acceptPart_eq]
  exact (ExtV.of_ExtL (ExtL_acceptHead w x p)).trans (ExtV_onReceived _ _ _)

theorem ExtV_tryList (g : World → Nat → Nat → World × Bool)
    (hg : ∀ w y p, ExtV w (g w y p).1) (w : World) (l : List Nat) (p : Nat) :
    ExtV w (tryList g w l p).1 := by
  induction l generalizing w with
  | nil => exact ExtV.refl w
  | cons y ys ih =>
    rw [tryList]
    have h := hg w y p
    split
    · rename_i heq; rw [heq] at h; exact h
    · rename_i heq; rw [heq] at h; exact h.trans (ih _)

theorem ExtV_give (n : Nat) : ∀ (w : World) (x p : Nat), ExtV w (give n w x p).1 := by
  induction n with
  | zero => intro w x p; exact ExtV.of_ExtL (ExtL_setErr _ _)
  | succ n ih =>
    intro w x p
    have hT : ∀ w l p, ExtV w (tryList (give n) w l p).1 := ExtV_tryList _ ih
    rw [give]
    dsimp only
    repeat' first
      | extv_step
      | with_reducible apply ExtV.trans (h2 := ExtV_acceptPart _ _ _)
      | exact hT _ _ _
      | exact ih _ _ _
      | extv_heq (hT _ _ _)
      | extv_heq (ih _ _ _)
      | extv_heq (ExtV.of_ExtL (ExtL_procAcquire _ _))
      | split

theorem ExtV_givePart (w : World) (x p : Nat) : ExtV w (w.givePart x p).1 := ExtV_give _ _ _ _

theorem ExtV_tryList_givePart (w : World) (l : List Nat) (p : Nat) :
    ExtV w (tryList givePart w l p).1 := ExtV_tryList _ ExtV_givePart _ _ _

theorem ExtV_passHandler (w : World) (x : Nat) : ExtV w (w.passHandler x) := by
  unfold passHandler
  dsimp only
  repeat' first
    | extv_step
    | extv_heq (ExtV_tryList_givePart _ _ _)
    | split

theorem ExtV_bufferLoop (n : Nat) (w : World) (x : Nat) : ExtV w (bufferLoop n w x) := by
  induction n generalizing w with
  | zero => exact ExtV.refl _
  | succ n ih =>
    rw [bufferLoop]
    dsimp only
    repeat' first
      | extv_step
      | with_reducible apply ExtV.trans (h2 := ih _)
      | extv_heq (ExtV_tryList_givePart _ _ _)
      | split

macro_rules | `(tactic| extv_step) => `(tactic| with_reducible apply ExtV.trans (h2 := ExtV_passHandler _ _))
macro_rules | `(tactic| extv_step) => `(tactic| with_reducible apply ExtV.trans (h2 := ExtV_bufferLoop _ _ _))

theorem ExtV_passPart (w : World) (x : Nat) : ExtV w (w.passPart x) := by
  unfold passPart
  dsimp only
  extv_auto

theorem ExtV_initDev (w : World) (x : Nat) : ExtV w (w.initDev x) := by
  unfold initDev
  dsimp only
  extv_auto

/-- Every action of an event that runs no scenario script logs every level change. -/
theorem ExtV_exec (w : World) (a : Action)
    (ha : match a with
      | .terminate | .finishCycle _ | .passPart _ | .fail _ | .releaseIfIdle _
      | .schedUpdate _ | .periodicSense _ | .unknown _ => True
      | _ => False) : ExtV w (w.exec a) := by
  cases a <;> simp only at ha <;> unfold exec <;> dsimp only
  · exact ExtV.refl _
  · exact ExtV.of_ExtL (ExtL_finishCycle _ _)
  · exact ExtV_passPart _ _
  · exact ExtV.of_ExtL (ExtL_failDev _ _)
  · exact ExtV.of_ExtL (ExtL_releaseIfIdle _ _)
  · exact ExtV.of_ExtL (ExtL_schedUpdate _ _ _)
  · exact ExtV.of_ExtL (ExtL_periodicSense _ _)
  · exact ExtV.of_ExtL (ExtL_setErr _ _)

end C15
end SimProc
