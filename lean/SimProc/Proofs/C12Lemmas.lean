/-
Helper lemmas for C12 (maintainer): folds, the scan's equations, monotonicity of `startable`.
-/
import SimProc.Model.Maintainer

namespace SimProc
namespace C12L

theorem foldl_add (l : List Int) (a : Int) :
    l.foldl (· + ·) a = a + l.foldl (· + ·) 0 := by
  induction l generalizing a with
  | nil => simp
  | cons x xs ih =>
    simp only [List.foldl_cons]
    rw [ih (a + x), ih (0 + x)]
    omega

/-- Injectivity on a list whose image has no duplicates. -/
theorem eq_of_nodup_map {α β : Type} (f : α → β) (l : List α) (h : (l.map f).Nodup)
    (a b : α) (ha : a ∈ l) (hb : b ∈ l) (hf : f a = f b) : a = b := by
  induction l with
  | nil => cases ha
  | cons x xs ih =>
    rw [List.map_cons, List.nodup_cons] at h
    rcases List.mem_cons.1 ha with rfl | ha' <;> rcases List.mem_cons.1 hb with rfl | hb'
    · rfl
    · exact absurd (hf ▸ List.mem_map_of_mem (f := f) hb') h.1
    · exact absurd (hf ▸ List.mem_map_of_mem (f := f) ha') h.1
    · exact ih h.2 ha' hb'

/-! ### equations of the scan -/

theorem scanQ_nil (m : Maint) : m.scanQ [] = (m, [], []) := rfl

theorem scanQ_cons_start (m : Maint) (o : Order) (rest : List Order)
    (h : m.startable o = true) :
    m.scanQ (o :: rest) =
      let r := Maint.scanQ { m with active := m.active ++ [o], util := m.util + o.needed } rest
      (r.1, r.2.1, o :: r.2.2) := by
  simp [Maint.scanQ, h]

theorem scanQ_cons_keep (m : Maint) (o : Order) (rest : List Order)
    (h : m.startable o = false) :
    m.scanQ (o :: rest) =
      let r := Maint.scanQ m rest
      (r.1, o :: r.2.1, r.2.2) := by
  simp [Maint.scanQ, h]

theorem tryWork_eq (m : Maint) :
    m.tryWork = ({ (m.scanQ m.queue).1 with queue := (m.scanQ m.queue).2.1 }, (m.scanQ m.queue).2.2) :=
  rfl

/-! ### `startable` is antitone in the load -/

theorem startable_mono (m m' : Maint) (o : Order) (hcap : m'.cap = m.cap)
    (hutil : m.util ≤ m'.util) (hact : ∀ x ∈ m.active, x ∈ m'.active)
    (h : m.startable o = false) : m'.startable o = false := by
  simp only [Maint.startable, Maint.fits, Maint.targetFree, Bool.and_eq_false_iff] at h ⊢
  rw [hcap]
  rcases h with h | h
  · left
    cases hc : m.cap with
    | none => simp [hc] at h
    | some c =>
      simp only [hc, decide_eq_false_iff_not] at h ⊢
      omega
  · right
    simp only [Bool.not_eq_false', List.any_eq_true] at h ⊢
    obtain ⟨x, hx, hxt⟩ := h
    exact ⟨x, hact x hx, hxt⟩

end C12L
end SimProc
