/-
Helper lemmas for `SimProc/Props/C13.lean` and `SimProc/Props/C06.lean`: processors (shutdown,
failure, restore, finish-cycle scheduling).

* Part 1: the projection `World.quiet` (the world without the *contents* of the event queue, the
  error flag and the devices' flow flags, but WITH the clock and the two logs) and
  `(f w).quiet = w.quiet` for the notification/scheduling primitives.
* Part 2: the environment only grows under the notification/scheduling primitives (`EnvGrows`).
* Part 3: closed forms / device-level characterisations of `shutdownDev`, `failDev`, `restoreDev`,
  `finishCycleHandler`, `finishCycle`, `scheduleFinish`, `tryMove`, `initDev`, `acceptPart`.
-/
import SimProc.Proofs.FloorCore2
import SimProc.Props.C07

namespace SimProc
open FloorCoreL
namespace World

/-! ## Part 1: `quiet` -/

/-- The world without the contents of its event queue, its error flag and the flow flags of the
devices; the clock and the logs (`results`, `recs`) are kept. -/
def quiet (w : World) : World :=
  { w with env := { now := w.env.now }, error := none, devs := w.devs.map Dev.core }

theorem core_eq_quiet (w : World) :
    w.core = { w.quiet with env := {}, results := [], recs := [] } := rfl

theorem core_of_quiet_eq {w w' : World} (h : w'.quiet = w.quiet) : w'.core = w.core := by
  rw [core_eq_quiet, core_eq_quiet, h]

theorem quiet_eq_now {w w' : World} (h : w'.quiet = w.quiet) : w'.now = w.now := by
  have := congrArg (fun w : World => w.env.now) h; exact this

theorem quiet_eq_results {w w' : World} (h : w'.quiet = w.quiet) : w'.results = w.results := by
  have := congrArg World.results h; exact this

theorem quiet_eq_recs {w w' : World} (h : w'.quiet = w.quiet) : w'.recs = w.recs := by
  have := congrArg World.recs h; exact this

theorem quiet_eq_devs_length {w w' : World} (h : w'.quiet = w.quiet) :
    w'.devs.length = w.devs.length := core_eq_devs_length (core_of_quiet_eq h)

theorem foldl_quiet {α} (g : World → α → World) (l : List α) (w : World)
    (h : ∀ w a, (g w a).quiet = w.quiet) : (l.foldl g w).quiet = w.quiet :=
  foldl_preserve quiet g l w h

@[simp] theorem setErr_quiet (w : World) (m : String) : (w.setErr m).quiet = w.quiet := by
  unfold setErr; split <;> rfl

theorem schedule_now {s s' : Env} {t a : Int} {act : Nat} {p : Int} {k : Nat}
    (h : s.schedule t a act p k = some s') : s'.now = s.now := by
  obtain ⟨_, rfl⟩ := Env.schedule_some.mp h; rfl

@[simp] theorem sched_fst_quiet (w : World) (t a : Int) (act : Action) (p : Int) :
    (w.sched t a act p).1.quiet = w.quiet := by
  unfold sched; dsimp only
  simp only [Env.apply]
  cases h : w.env.schedule t a act.toNat p (weightOf w.seed w.wmod t a act.toNat p) with
  | none => rfl
  | some s' =>
    have := schedule_now h
    simp only [quiet, this]

@[simp] theorem schedLib_quiet (w : World) (t a : Int) (act : Action) (p : Int) :
    (w.schedLib t a act p).quiet = w.quiet := by
  have h := sched_fst_quiet w t a act p
  unfold schedLib
  generalize w.sched t a act p = s at h ⊢
  obtain ⟨w', r⟩ := s
  cases r <;> simp_all

theorem setDev_quiet_of_core_eq {w : World} {x : Nat} {d : Dev} (h : d.core = (w.dev x).core) :
    (w.setDev x d).quiet = w.quiet := by
  have := map_set_of_eq Dev.core w.devs x d default h
  simp only [quiet, setDev, this]

@[simp] theorem setWaiting_quiet (w : World) (x : Nat) (a b : Bool) :
    (w.setWaiting x a b).quiet = w.quiet := by
  unfold setWaiting
  dsimp only
  repeat' split
  all_goals first | rfl | exact setDev_quiet_of_core_eq rfl

@[simp] theorem schedulePass_quiet (w : World) (x : Nat) (o : Int) :
    (w.schedulePass x o).quiet = w.quiet := by
  unfold schedulePass
  dsimp only
  split
  · rfl
  · rw [schedLib_quiet]; exact setDev_quiet_of_core_eq rfl

theorem notifyUp_spaceAvail_quiet (n : Nat) :
    ∀ w x, (notifyUp n w x).quiet = w.quiet ∧ (spaceAvail n w x).quiet = w.quiet := by
  induction n with
  | zero => intro w x; constructor <;> simp [notifyUp, spaceAvail]
  | succ n ih =>
    intro w x
    have hN : ∀ w x, (notifyUp n w x).quiet = w.quiet := fun w x => (ih w x).1
    have hS : ∀ w x, (spaceAvail n w x).quiet = w.quiet := fun w x => (ih w x).2
    constructor
    · rw [notifyUp]
      repeat' split
      all_goals first
        | rfl
        | exact (foldl_quiet _ _ _ hS).trans (setWaiting_quiet _ _ _ _)
        | exact foldl_quiet _ _ _ hS
        | exact foldl_quiet _ _ _ hN
    · rw [spaceAvail]
      repeat' split
      all_goals first
        | rfl
        | exact hN _ _
        | exact hS _ _
        | exact schedulePass_quiet _ _ _

@[simp] theorem notifyUp_quiet (n : Nat) (w : World) (x : Nat) : (notifyUp n w x).quiet = w.quiet :=
  (notifyUp_spaceAvail_quiet n w x).1

@[simp] theorem notify_quiet (w : World) (x : Nat) : (w.notify x).quiet = w.quiet :=
  notifyUp_quiet _ _ _

/-! ### the clock -/

@[simp] theorem now_setDev (w : World) (x : Nat) (d : Dev) : (w.setDev x d).now = w.now := rfl
@[simp] theorem now_modDev (w : World) (x : Nat) (f : Dev → Dev) : (w.modDev x f).now = w.now := rfl
@[simp] theorem now_addRec (w : World) (r : Rec) : (w.addRec r).now = w.now := rfl
@[simp] theorem now_addRes (w : World) (r : Res) : (w.addRes r).now = w.now := rfl
@[simp] theorem now_modPart (w : World) (p : Nat) (g : PartRec → PartRec) :
    (w.modPart p g).now = w.now := rfl
@[simp] theorem now_setErr (w : World) (m : String) : (w.setErr m).now = w.now :=
  quiet_eq_now (setErr_quiet w m)
@[simp] theorem now_schedLib (w : World) (t a : Int) (act : Action) (p : Int) :
    (w.schedLib t a act p).now = w.now := quiet_eq_now (schedLib_quiet ..)
@[simp] theorem now_setWaiting (w : World) (x : Nat) (a b : Bool) :
    (w.setWaiting x a b).now = w.now := quiet_eq_now (setWaiting_quiet ..)
@[simp] theorem now_schedulePass (w : World) (x : Nat) (o : Int) :
    (w.schedulePass x o).now = w.now := quiet_eq_now (schedulePass_quiet ..)
@[simp] theorem now_notify (w : World) (x : Nat) : (w.notify x).now = w.now :=
  quiet_eq_now (notify_quiet ..)

@[simp] theorem now_envOp_pause (w : World) (a : Int) : (w.envOp (.pause a)).now = w.now := rfl
@[simp] theorem now_envOp_unpause (w : World) (a : Int) : (w.envOp (.unpause a)).now = w.now := rfl
@[simp] theorem now_envOp_cancel (w : World) (a : Int) : (w.envOp (.cancel a)).now = w.now := rfl

theorem now_foldl {α} (g : World → α → World) (l : List α) (w : World)
    (h : ∀ w a, (g w a).now = w.now) : (l.foldl g w).now = w.now :=
  foldl_preserve now g l w h

@[simp] theorem now_applyPartCb (w : World) (x p : Nat) (c : PartCb) :
    (w.applyPartCb x p c).now = w.now := by
  unfold now; rw [applyPartCb_env]

@[simp] theorem now_addHist (w : World) (p d : Nat) : (w.addHist p d).now = w.now := by
  unfold now; rw [addHist_env]

theorem senseOutput_frame (w : World) (s p : Nat) :
    (w.senseOutput s p).env = w.env ∧ (w.senseOutput s p).devs = w.devs ∧
    (w.senseOutput s p).parts = w.parts ∧ (w.senseOutput s p).recs = w.recs ∧
    (w.senseOutput s p).seed = w.seed ∧ (w.senseOutput s p).wmod = w.wmod ∧
    (w.senseOutput s p).error = w.error ∧ (w.senseOutput s p).lost = w.lost := by
  have key : ({ w.senseOutput s p with sensors := [], results := [] } : World) =
      { w with sensors := [], results := [] } := by
    unfold senseOutput
    dsimp only
    split
    · exact foldl_preserve (fun w : World => ({ w with sensors := [], results := [] } : World))
        _ _ _ (fun _ _ => rfl)
    · rfl
  refine ⟨?_, ?_, ?_, ?_, ?_, ?_, ?_, ?_⟩
  · have h := congrArg World.env key; exact h
  · have h := congrArg World.devs key; exact h
  · have h := congrArg World.parts key; exact h
  · have h := congrArg World.recs key; exact h
  · have h := congrArg World.seed key; exact h
  · have h := congrArg World.wmod key; exact h
  · have h := congrArg World.error key; exact h
  · have h := congrArg World.lost key; exact h

@[simp] theorem now_senseOutput (w : World) (s p : Nat) : (w.senseOutput s p).now = w.now := by
  unfold now; rw [(senseOutput_frame w s p).1]

@[simp] theorem dev_senseOutput (w : World) (s p x : Nat) : (w.senseOutput s p).dev x = w.dev x :=
  dev_congr (senseOutput_frame w s p).2.1 x

/-! ### logs of the primitives -/

theorem foldl_addRes {α} (g : α → Res) (l : List α) (w : World) :
    l.foldl (fun w k => w.addRes (g k)) w = { w with results := w.results ++ l.map g } := by
  induction l generalizing w with
  | nil => simp
  | cons a l ih => rw [List.foldl_cons, ih]; simp [addRes]

theorem rmEffects_recs (w : World) (recs : List ResRec) (check : Bool) :
    (w.rmEffects recs check).recs =
      w.recs ++ recs.map (fun r => Rec.resUpdate r.res w.now r.inUse r.cap) := by
  have key : ∀ (l : List ResRec) (w : World),
      (l.foldl (fun w r => w.addRec (.resUpdate r.res w.now r.inUse r.cap)) w).recs =
        w.recs ++ l.map (fun r => Rec.resUpdate r.res w.now r.inUse r.cap) ∧
      (l.foldl (fun w r => w.addRec (.resUpdate r.res w.now r.inUse r.cap)) w).now = w.now := by
    intro l
    induction l with
    | nil => intro w; simp
    | cons a l ih =>
      intro w
      rw [List.foldl_cons]
      obtain ⟨h1, h2⟩ := ih (w.addRec (.resUpdate a.res w.now a.inUse a.cap))
      refine ⟨?_, by rw [h2]; rfl⟩
      rw [h1]; simp [addRec, now]
  unfold rmEffects
  split
  · rw [quiet_eq_recs (schedLib_quiet ..)]; exact (key recs w).1
  · exact (key recs w).1

end World
end SimProc

namespace SimProc
open FloorCoreL
namespace World

/-! ## Part 3a: `shutdownDev` in closed form -/

/-- What the first shutdown does to the device record. -/
def shutDev (now : Int) (d : Dev) : Dev :=
  { d with
    shutDown := true, since := none,
    uptime := d.uptime + (now - d.lastRestore.getD now), lastRestore := none,
    timeInUse := (match d.lastUseStart with | some t => d.timeInUse + (now - t) | none => d.timeInUse),
    lastUseStart := none }

/-- The log entries of the shutdown callbacks: one per callback, in registration order. -/
def shutLog (x n : Nat) (isF : Bool) (lost : Option Nat) : List Res :=
  (List.range n).map (fun k => Res.shut x k isF lost)

theorem setDev_setDev (w : World) (x : Nat) (a b : Dev) :
    (w.setDev x a).setDev x b = w.setDev x b := by
  simp [setDev]

theorem setWaiting_false (w : World) (x : Nat) (r : Bool) :
    w.setWaiting x false r = w.setDev x { w.dev x with since := none } := by
  simp [setWaiting]

/-- `shutdownDev` on an operational device, in closed form. -/
theorem shutdownDev_eq_up (w : World) {x : Nat} (isF : Bool) (lost : Option Nat)
    (hx : x < w.devs.length) (hs : (w.dev x).shutDown = false) :
    w.shutdownDev x isF lost =
      { w with
        devs := w.devs.set x (shutDev w.now (w.dev x))
        env := if isF then w.env.cancel (w.dev x).aid else w.env.pause (w.dev x).aid
        results := w.results ++ shutLog x (w.dev x).nShutCbs isF lost } := by
  have hx' : ∀ (d : Dev) (op : EnvOp), x < ((w.setDev x d).envOp op).devs.length := by
    intro d op; simpa using hx
  unfold shutdownDev
  simp only [hs, Bool.false_eq_true, if_false]
  cases isF
  · simp only [Bool.false_eq_true, if_false]
    rw [dev_envOp, dev_setDev_same hx]
    simp only [now_envOp_pause, now_setDev]
    cases hlu : (w.dev x).lastUseStart
    all_goals
      simp only []
      rw [setWaiting_false, dev_setDev_same (hx' _ _), setDev_setDev, foldl_addRes]
      simp only [setDev, envOp, shutDev, hlu, Env.apply, List.set_set, shutLog]
  · simp only [if_true]
    rw [dev_envOp, dev_setDev_same hx]
    simp only [now_envOp_cancel, now_setDev]
    cases hlu : (w.dev x).lastUseStart
    all_goals
      simp only []
      rw [setWaiting_false, dev_setDev_same (hx' _ _), setDev_setDev, foldl_addRes]
      simp only [setDev, envOp, shutDev, hlu, Env.apply, List.set_set, shutLog]

/-- `shutdownDev` on a device that is already shut down, in closed form. -/
theorem shutdownDev_eq_down (w : World) (x : Nat) (isF : Bool) (lost : Option Nat)
    (hs : (w.dev x).shutDown = true) :
    w.shutdownDev x isF lost =
      if isF && lost.isSome then
        { w with
          env := w.env.cancel (w.dev x).aid
          results := w.results ++ shutLog x (w.dev x).nShutCbs true lost }
      else w := by
  unfold shutdownDev
  simp only [hs, if_true]
  split
  · rw [foldl_addRes]; rfl
  · rfl

/-- A device that is shut down exists. -/
theorem lt_of_shutDown {w : World} {x : Nat} (hs : (w.dev x).shutDown = true) :
    x < w.devs.length := by
  apply Nat.lt_of_not_le
  intro h
  rw [dev_of_length_le h] at hs
  cases hs

theorem lt_of_processor {w : World} {x : Nat} (hk : (w.dev x).kind = .processor) :
    x < w.devs.length := by
  apply Nat.lt_of_not_le
  intro h
  rw [dev_of_length_le h] at hk
  cases hk

/-! ## Part 2: the event queue only grows under scheduling -/

/-- `e'` is `e` with more events scheduled: same clock, same paused events, same termination flag,
the old queue is a sub-list of the new one. -/
def EnvGrows (e e' : Env) : Prop :=
  e'.now = e.now ∧ e'.paused = e.paused ∧ e'.terminated = e.terminated ∧ e.events.Sublist e'.events ∧
  e.nextUid ≤ e'.nextUid

theorem EnvGrows.refl (e : Env) : EnvGrows e e :=
  ⟨rfl, rfl, rfl, List.Sublist.refl _, Nat.le_refl _⟩

theorem EnvGrows.trans {a b c : Env} (h1 : EnvGrows a b) (h2 : EnvGrows b c) : EnvGrows a c :=
  ⟨h2.1.trans h1.1, h2.2.1.trans h1.2.1, h2.2.2.1.trans h1.2.2.1, h1.2.2.2.1.trans h2.2.2.2.1,
    Nat.le_trans h1.2.2.2.2 h2.2.2.2.2⟩

theorem EnvGrows.of_eq {a b : Env} (h : b = a) : EnvGrows a b := h ▸ EnvGrows.refl a

theorem EnvGrows.mem {a b : Env} (h : EnvGrows a b) {e : Event} (he : e ∈ a.events) : e ∈ b.events :=
  h.2.2.2.1.subset he

theorem foldl_envGrows {α} (g : World → α → World) (l : List α) (w : World)
    (h : ∀ w a, EnvGrows w.env (g w a).env) : EnvGrows w.env (l.foldl g w).env := by
  induction l generalizing w with
  | nil => exact EnvGrows.refl _
  | cons a l ih => rw [List.foldl_cons]; exact (h w a).trans (ih _)

theorem schedule_envGrows {s s' : Env} {t a : Int} {act : Nat} {p : Int} {k : Nat}
    (h : s.schedule t a act p k = some s') : EnvGrows s s' := by
  obtain ⟨_, rfl⟩ := Env.schedule_some.mp h
  exact ⟨rfl, rfl, rfl, sublist_insort _ _, Nat.le_succ _⟩

theorem sched_fst_envGrows (w : World) (t a : Int) (act : Action) (p : Int) :
    EnvGrows w.env (w.sched t a act p).1.env := by
  unfold sched; dsimp only
  simp only [Env.apply]
  cases h : w.env.schedule t a act.toNat p (weightOf w.seed w.wmod t a act.toNat p) with
  | none => exact EnvGrows.refl _
  | some s' => exact schedule_envGrows h

theorem setErr_env (w : World) (m : String) : (w.setErr m).env = w.env := by
  unfold setErr; split <;> rfl

theorem schedLib_envGrows (w : World) (t a : Int) (act : Action) (p : Int) :
    EnvGrows w.env (w.schedLib t a act p).env := by
  have h := sched_fst_envGrows w t a act p
  unfold schedLib
  generalize w.sched t a act p = s at h ⊢
  obtain ⟨w', r⟩ := s
  cases r <;> simp_all [setErr_env]

theorem setWaiting_env (w : World) (x : Nat) (a b : Bool) : (w.setWaiting x a b).env = w.env := by
  unfold setWaiting
  dsimp only
  repeat' split
  all_goals rfl

theorem schedulePass_envGrows (w : World) (x : Nat) (o : Int) :
    EnvGrows w.env (w.schedulePass x o).env := by
  unfold schedulePass
  dsimp only
  split
  · exact EnvGrows.refl _
  · exact schedLib_envGrows _ _ _ _ _

theorem notifyUp_spaceAvail_envGrows (n : Nat) :
    ∀ w x, EnvGrows w.env (notifyUp n w x).env ∧ EnvGrows w.env (spaceAvail n w x).env := by
  induction n with
  | zero =>
    intro w x
    constructor <;> simp only [notifyUp, spaceAvail, setErr_env] <;> exact EnvGrows.refl _
  | succ n ih =>
    intro w x
    have hN : ∀ w x, EnvGrows w.env (notifyUp n w x).env := fun w x => (ih w x).1
    have hS : ∀ w x, EnvGrows w.env (spaceAvail n w x).env := fun w x => (ih w x).2
    constructor
    · rw [notifyUp]
      repeat' split
      all_goals first
        | exact EnvGrows.refl _
        | exact (EnvGrows.of_eq (setWaiting_env _ _ _ _)).trans (foldl_envGrows _ _ _ hS)
        | exact foldl_envGrows _ _ _ hS
        | exact foldl_envGrows _ _ _ hN
    · rw [spaceAvail]
      repeat' split
      all_goals first
        | exact EnvGrows.refl _
        | exact hN _ _
        | exact hS _ _
        | exact schedulePass_envGrows _ _ _

theorem notify_envGrows (w : World) (x : Nat) : EnvGrows w.env (w.notify x).env :=
  (notifyUp_spaceAvail_envGrows _ w x).1

theorem rmEffects_envGrows (w : World) (recs : List ResRec) (check : Bool) :
    EnvGrows w.env (w.rmEffects recs check).env := by
  have h : EnvGrows w.env
      (recs.foldl (fun w r => w.addRec (.resUpdate r.res w.now r.inUse r.cap)) w).env :=
    foldl_envGrows _ _ _ (fun _ _ => EnvGrows.refl _)
  unfold rmEffects
  split
  · exact h.trans (schedLib_envGrows _ _ _ _ _)
  · exact h

theorem rmEffects_results (w : World) (recs : List ResRec) (check : Bool) :
    (w.rmEffects recs check).results = w.results := by
  unfold rmEffects
  split
  · rw [quiet_eq_results (schedLib_quiet ..)]
    exact foldl_preserve World.results _ _ _ (fun _ _ => rfl)
  · exact foldl_preserve World.results _ _ _ (fun _ _ => rfl)

@[simp] theorem now_rmEffects (w : World) (recs : List ResRec) (check : Bool) :
    (w.rmEffects recs check).now = w.now := by
  unfold rmEffects
  split
  · rw [now_schedLib]
    exact foldl_preserve World.now _ _ _ (fun _ _ => rfl)
  · exact foldl_preserve World.now _ _ _ (fun _ _ => rfl)

/-! ### `releaseReserved` on the logs and the queue -/

/-- The `resource_update` records written when device `x` gives back what it holds. -/
def releaseRecs (w : World) (x : Nat) : List Rec :=
  match (w.dev x).reserved with
  | none => []
  | some id => (w.rm.release id none).2.2.1.map (fun r => Rec.resUpdate r.res w.now r.inUse r.cap)

theorem releaseReserved_recs (w : World) (x : Nat) :
    (w.releaseReserved x).recs = w.recs ++ w.releaseRecs x := by
  unfold releaseReserved releaseRecs
  split
  · next h => simp [h]
  · next id h =>
    dsimp only
    rw [modDev_recs, rmEffects_recs, h]; rfl

@[simp] theorem releaseReserved_results (w : World) (x : Nat) :
    (w.releaseReserved x).results = w.results := by
  unfold releaseReserved
  split
  · rfl
  · dsimp only
    rw [modDev_results, rmEffects_results]

@[simp] theorem now_releaseReserved (w : World) (x : Nat) : (w.releaseReserved x).now = w.now := by
  unfold releaseReserved
  split
  · rfl
  · dsimp only
    rw [now_modDev, now_rmEffects]; rfl

theorem releaseReserved_envGrows (w : World) (x : Nat) :
    EnvGrows w.env (w.releaseReserved x).env := by
  unfold releaseReserved
  split
  · exact EnvGrows.refl _
  · dsimp only
    rw [modDev_env]
    exact rmEffects_envGrows _ _ _

/-! ## Part 3b: `failDev` -/

/-- The leaves of the part a failure discards. -/
def lostLeaves (w : World) (x : Nat) : List Nat :=
  match (w.dev x).part with
  | some p => w.leavesOf p
  | none => []

/-- `_fail` up to (excluding) the final `_shutdown(True, lost)`, without the ghost log. -/
def failPre (w : World) (x : Nat) (lost : Option Nat) : World :=
  ((w.modDev x (fun d => { d with part := none })).releaseReserved x).addRec (.failure x w.now lost)

theorem failDev_eq_c13 (w : World) (x : Nat) :
    w.failDev x =
      (({ w with lost := w.lost ++ w.lostLeaves x } : World).failPre x (w.dev x).part).shutdownDev x true
        (w.dev x).part := by
  unfold failDev lostLeaves failPre
  cases h : (w.dev x).part with
  | none =>
    simp only [List.append_nil, now_releaseReserved, now_modDev]
  | some p =>
    simp only [now_releaseReserved, now_modDev]

theorem failPre_dev_same (w : World) (x : Nat) (lost : Option Nat) :
    (w.failPre x lost).dev x = { w.dev x with part := none, reserved := none } := by
  unfold failPre
  rw [dev_addRec, releaseReserved_dev_same]
  by_cases hx : x < w.devs.length
  · rw [dev_modDev_same hx]
  · rw [modDev_out_of_range (Nat.not_lt.1 hx), dev_of_length_le (Nat.not_lt.1 hx)]; rfl

theorem failPre_dev_ne (w : World) {x y : Nat} (lost : Option Nat) (h : y ≠ x) :
    (w.failPre x lost).dev y = w.dev y := by
  unfold failPre
  rw [dev_addRec, releaseReserved_dev_ne _ h, dev_modDev_ne (Ne.symm h)]

@[simp] theorem failPre_devs_length (w : World) (x : Nat) (lost : Option Nat) :
    (w.failPre x lost).devs.length = w.devs.length := by
  unfold failPre
  show ((w.modDev x _).releaseReserved x).devs.length = _
  simp

@[simp] theorem now_failPre (w : World) (x : Nat) (lost : Option Nat) :
    (w.failPre x lost).now = w.now := by
  unfold failPre; simp

@[simp] theorem failPre_results (w : World) (x : Nat) (lost : Option Nat) :
    (w.failPre x lost).results = w.results := by
  unfold failPre
  show ((w.modDev x _).releaseReserved x).results = _
  simp

@[simp] theorem failPre_lost (w : World) (x : Nat) (lost : Option Nat) :
    (w.failPre x lost).lost = w.lost := by
  unfold failPre
  show ((w.modDev x _).releaseReserved x).lost = _
  simp

@[simp] theorem failPre_parts (w : World) (x : Nat) (lost : Option Nat) :
    (w.failPre x lost).parts = w.parts := by
  unfold failPre
  show ((w.modDev x _).releaseReserved x).parts = _
  simp

theorem failPre_recs (w : World) (x : Nat) (lost : Option Nat) :
    (w.failPre x lost).recs = w.recs ++ w.releaseRecs x ++ [Rec.failure x w.now lost] := by
  unfold failPre
  show ((w.modDev x _).releaseReserved x).recs ++ _ = _
  rw [releaseReserved_recs, modDev_recs]
  congr 2
  unfold releaseRecs
  have : ((w.modDev x (fun d => { d with part := none })).dev x).reserved = (w.dev x).reserved :=
    modDev_dev_field Dev.reserved w x _ rfl x
  rw [this, modDev_rm, now_modDev]

theorem failPre_envGrows (w : World) (x : Nat) (lost : Option Nat) :
    EnvGrows w.env (w.failPre x lost).env := by
  unfold failPre
  show EnvGrows w.env ((w.modDev x _).releaseReserved x).env
  exact releaseReserved_envGrows _ _

/-! ## Part 3c: `restoreDev` -/

theorem quiet_setDev (w : World) (x : Nat) (d : Dev) :
    (w.setDev x d).quiet = w.quiet.setDev x d.core := by
  simp [quiet, setDev, List.map_set]

theorem quiet_dev (w : World) (x : Nat) : w.quiet.dev x = (w.dev x).core := by
  unfold dev
  show (w.devs.map Dev.core).getD x default = _
  rw [← Dev.core_default, getD_map, Dev.core_default]

theorem quiet_eq_dev {w w' : World} (h : w'.quiet = w.quiet) (x : Nat) :
    (w'.dev x).core = (w.dev x).core := core_eq_dev (core_of_quiet_eq h) x

/-- `modDev` with a function that commutes with `Dev.core` respects `quiet`-equality. -/
theorem modDev_quiet_congr {w w' : World} (h : w'.quiet = w.quiet) (x : Nat) (f : Dev → Dev)
    (hf : ∀ d, (f d).core = f d.core) : (w'.modDev x f).quiet = (w.modDev x f).quiet := by
  unfold modDev
  rw [quiet_setDev, quiet_setDev, hf, hf, quiet_eq_dev h, h]

theorem addResults_quiet_congr {w w' : World} (h : w'.quiet = w.quiet) (l : List Res) :
    ({ w' with results := w'.results ++ l } : World).quiet =
      ({ w with results := w.results ++ l } : World).quiet := by
  show ({ w'.quiet with results := w'.quiet.results ++ l } : World) =
    { w.quiet with results := w.quiet.results ++ l }
  rw [h]

@[simp] theorem envOp_unpause_quiet (w : World) (a : Int) : (w.envOp (.unpause a)).quiet = w.quiet :=
  rfl
@[simp] theorem envOp_pause_quiet (w : World) (a : Int) : (w.envOp (.pause a)).quiet = w.quiet := rfl
@[simp] theorem envOp_cancel_quiet (w : World) (a : Int) : (w.envOp (.cancel a)).quiet = w.quiet :=
  rfl

/-- What a restore does to the device record (flow flags aside). -/
def restDev (now : Int) (d : Dev) : Dev :=
  { d with
    shutDown := false, lastRestore := some now,
    lastUseStart := if d.part.isSome then some now else d.lastUseStart }

/-- The log entries of the restored callbacks: one per callback, in registration order. -/
def restLog (x n : Nat) : List Res := (List.range n).map (fun k => Res.restored x k)

/-- First part of a restore: clear the flag, stamp the clock, resume the device's events. -/
def restorePre (w : World) (x : Nat) : World :=
  (w.setDev x { w.dev x with shutDown := false, lastRestore := some w.now }).envOp
    (.unpause (w.dev x).aid)

/-- Second part: get the part flow going again. -/
def restoreFlow (w : World) (x : Nat) : World :=
  if (w.dev x).output.isSome then w.schedulePass x 0
  else if (w.dev x).part.isNone then w.notify x else w

theorem restoreDev_eq_up (w : World) (x : Nat) (hs : (w.dev x).shutDown = false) :
    w.restoreDev x = w := by
  unfold restoreDev; simp [hs]

theorem restoreDev_eq_down (w : World) (x : Nat) (hs : (w.dev x).shutDown = true) :
    w.restoreDev x =
      (let w2 := (w.restorePre x).restoreFlow x
       let w3 := if (w2.dev x).part.isSome then
           w2.modDev x (fun d => { d with lastUseStart := some w2.now }) else w2
       { w3 with results := w3.results ++ restLog x (w.dev x).nRestCbs }) := by
  unfold restoreDev
  simp only [hs, Bool.not_true, Bool.false_eq_true, if_false]
  rw [foldl_addRes]
  rfl

@[simp] theorem restoreFlow_quiet (w : World) (x : Nat) : (w.restoreFlow x).quiet = w.quiet := by
  unfold restoreFlow
  repeat' split
  all_goals first | rfl | exact schedulePass_quiet _ _ _ | exact notify_quiet _ _

theorem restoreFlow_envGrows (w : World) (x : Nat) : EnvGrows w.env (w.restoreFlow x).env := by
  unfold restoreFlow
  repeat' split
  all_goals first
    | exact EnvGrows.refl _ | exact schedulePass_envGrows _ _ _ | exact notify_envGrows _ _

theorem restorePre_env (w : World) (x : Nat) :
    (w.restorePre x).env = w.env.unpause Arith.exact (w.dev x).aid := rfl

/-- The environment after a restore: the device's events are resumed, then the flow part
schedules what it schedules. -/
theorem restoreDev_env (w : World) (x : Nat) (hs : (w.dev x).shutDown = true) :
    (w.restoreDev x).env = ((w.restorePre x).restoreFlow x).env := by
  rw [restoreDev_eq_down w x hs]
  dsimp only
  split <;> rfl

/-- A restore of a shut-down device, up to flow state: the device record becomes `restDev`, the
restored callbacks are logged; nothing else that `quiet` sees changes. -/
theorem restoreDev_quiet (w : World) (x : Nat) (hs : (w.dev x).shutDown = true) :
    (w.restoreDev x).quiet =
      ({ w.setDev x (restDev w.now (w.dev x)) with
          results := w.results ++ restLog x (w.dev x).nRestCbs } : World).quiet := by
  have hx := lt_of_shutDown hs
  rw [restoreDev_eq_down w x hs]
  dsimp only
  have h2 : ((w.restorePre x).restoreFlow x).quiet = (w.restorePre x).quiet := restoreFlow_quiet _ _
  have hd1 : (w.restorePre x).dev x = { w.dev x with shutDown := false, lastRestore := some w.now } := by
    unfold restorePre; rw [dev_envOp, dev_setDev_same hx]
  have hpart : (((w.restorePre x).restoreFlow x).dev x).part = (w.dev x).part := by
    rw [core_eq_dev_part (core_of_quiet_eq h2), hd1]
  have hnow : ((w.restorePre x).restoreFlow x).now = w.now := by
    rw [quiet_eq_now h2]; rfl
  rw [hpart, hnow]
  have hpre : ∀ D : Dev, ((w.restorePre x).setDev x D).quiet = (w.setDev x D).quiet := by
    intro D
    unfold restorePre
    rw [quiet_setDev, envOp_unpause_quiet, ← quiet_setDev, setDev_setDev]
  by_cases hp : (w.dev x).part.isSome = true
  · simp only [hp, if_true]
    have h3 : (((w.restorePre x).restoreFlow x).modDev x
        (fun d => { d with lastUseStart := some w.now })).quiet =
        (w.setDev x (restDev w.now (w.dev x))).quiet := by
      refine (modDev_quiet_congr h2 x (fun d => { d with lastUseStart := some w.now })
        (fun _ => rfl)).trans ?_
      unfold modDev
      rw [hd1, hpre]
      simp only [restDev, hp, if_true]
    exact addResults_quiet_congr h3 _
  · simp only [hp, Bool.false_eq_true, if_false]
    have h3 : ((w.restorePre x).restoreFlow x).quiet =
        (w.setDev x (restDev w.now (w.dev x))).quiet := by
      rw [h2, ← hpre]
      simp only [restDev, hp, Bool.false_eq_true, if_false]
      rw [← hd1, setDev_dev_self]
    exact addResults_quiet_congr h3 _

/-! ## Part 3d: finishing a cycle -/

/-- What `PartHandler._finish_cycle` does to the device record: the part moves from the input to
the output slot if the device is operational, has a part and a free output slot; otherwise (an
assertion of the library fails) nothing moves. -/
def finH (op : Bool) (d : Dev) : Dev :=
  if op then
    match d.part with
    | none => d
    | some p => if d.output.isSome then d else { d with output := some p, part := none }
  else d

theorem finishCycleHandler_quiet (w : World) (x : Nat) :
    (w.finishCycleHandler x).quiet = (w.setDev x (finH (w.operational x) (w.dev x))).quiet := by
  unfold finishCycleHandler finH
  dsimp only
  cases hop : w.operational x
  · simp only [Bool.not_false, if_true, Bool.false_eq_true, if_false, setErr_quiet, setDev_dev_self]
  · simp only [Bool.not_true, Bool.false_eq_true, if_false, if_true]
    cases hp : (w.dev x).part
    · simp only [setErr_quiet, setDev_dev_self]
    · simp only
      split
      · simp only [setErr_quiet, setDev_dev_self]
      · rw [schedulePass_quiet]

/-- The successful case in closed form. -/
theorem finishCycleHandler_ok (w : World) {x p : Nat} (hop : w.operational x = true)
    (hp : (w.dev x).part = some p) (ho : (w.dev x).output = none) :
    w.finishCycleHandler x =
      (w.setDev x { w.dev x with output := some p, part := none }).schedulePass x 0 := by
  unfold finishCycleHandler
  simp [hop, hp, ho]

theorem finishCycleHandler_envGrows (w : World) (x : Nat) :
    EnvGrows w.env (w.finishCycleHandler x).env := by
  unfold finishCycleHandler
  dsimp only
  repeat' split
  all_goals first
    | exact EnvGrows.of_eq (setErr_env _ _)
    | exact schedulePass_envGrows _ _ _

/-- What `PartProcessor._finish_cycle` does to the device record, the callbacks' changes of
`cycle`/`offset` aside. -/
def finDev (now : Int) (op : Bool) (d : Dev) : Dev :=
  let d := finH op d
  { d with timeInUse := d.timeInUse + (now - d.lastUseStart.getD now), lastUseStart := none }

theorem foldl_applyPartCb_dev_field {α} (g : Dev → α)
    (hg : ∀ d cy o, g { d with cycle := cy, offset := o } = g d) (cbs : List PartCb) (w : World)
    (x p y : Nat) : g ((cbs.foldl (fun w c => w.applyPartCb x p c) w).dev y) = g (w.dev y) :=
  foldl_preserve (fun w : World => g (w.dev y)) _ _ _
    (fun w c => applyPartCb_dev_field g hg w x p c y)

theorem foldl_senseOutput_dev (l : List Nat) (w : World) (p y : Nat) :
    (l.foldl (fun w s => w.senseOutput s p) w).dev y = w.dev y :=
  foldl_preserve (fun w : World => w.dev y) _ _ _ (fun w s => dev_senseOutput w s p y)

theorem now_foldl_applyPartCb (cbs : List PartCb) (w : World) (x p : Nat) :
    (cbs.foldl (fun w c => w.applyPartCb x p c) w).now = w.now :=
  now_foldl _ _ _ (fun w c => now_applyPartCb w x p c)

theorem now_foldl_senseOutput (l : List Nat) (w : World) (p : Nat) :
    (l.foldl (fun w s => w.senseOutput s p) w).now = w.now :=
  now_foldl _ _ _ (fun w s => now_senseOutput w s p)

/-- The processor branch of `finishCycle`, split into its bookkeeping part … -/
def finishBook (w : World) (x : Nat) : World :=
  let w := w.finishCycleHandler x
  let d := w.dev x
  let w := w.setDev x { d with timeInUse := d.timeInUse + (w.now - d.lastUseStart.getD w.now),
                               lastUseStart := none }
  if d.reserved.isSome then w.schedLib w.now d.aid (.releaseIfIdle x) pRelease else w

/-- … and the callbacks on the finished part. -/
def finishCbs (w : World) (x : Nat) (cbs : List PartCb) (sensors : List Nat) : World :=
  match (w.dev x).output with
  | none => w
  | some p =>
    let w := cbs.foldl (fun w c => w.applyPartCb x p c) w
    let w := sensors.foldl (fun w s => w.senseOutput s p) w
    w.addRec (.produced x w.now p (w.part p).quality (w.partValue p))

theorem finishCycle_proc (w : World) {x : Nat} (hk : (w.dev x).kind = .processor) :
    w.finishCycle x =
      (w.finishBook x).finishCbs x ((w.finishCycleHandler x).dev x).finCbs
        ((w.finishCycleHandler x).dev x).finSensors := by
  unfold finishCycle
  simp only [hk]
  rfl

theorem finishBook_quiet (w : World) (x : Nat) :
    (w.finishBook x).quiet = (w.setDev x (finDev w.now (w.operational x) (w.dev x))).quiet := by
  have h1 := finishCycleHandler_quiet w x
  have hn : (w.finishCycleHandler x).now = w.now := by
    have := quiet_eq_now h1; exact this
  have key : ((w.finishCycleHandler x).setDev x
      { (w.finishCycleHandler x).dev x with
        timeInUse := ((w.finishCycleHandler x).dev x).timeInUse +
          ((w.finishCycleHandler x).now - ((w.finishCycleHandler x).dev x).lastUseStart.getD
            (w.finishCycleHandler x).now),
        lastUseStart := none }).quiet =
      (w.setDev x (finDev w.now (w.operational x) (w.dev x))).quiet := by
    have := modDev_quiet_congr h1 x
      (fun d => { d with timeInUse := d.timeInUse + (w.now - d.lastUseStart.getD w.now),
                         lastUseStart := none }) (fun _ => rfl)
    rw [hn]
    refine this.trans ?_
    by_cases hx : x < w.devs.length
    · unfold modDev
      rw [dev_setDev_same hx, setDev_setDev]; rfl
    · have hx' := Nat.not_lt.1 hx
      rw [dev_setDev_out_of_range hx', dev_setDev_out_of_range hx', modDev_out_of_range hx']
  unfold finishBook
  dsimp only
  split
  · rw [schedLib_quiet]; exact key
  · exact key

theorem finishBook_envGrows (w : World) (x : Nat) : EnvGrows w.env (w.finishBook x).env := by
  unfold finishBook
  dsimp only
  split
  · exact (finishCycleHandler_envGrows w x).trans (schedLib_envGrows _ _ _ _ _)
  · exact finishCycleHandler_envGrows w x

theorem finishCbs_dev_field {α} (g : Dev → α)
    (hg : ∀ d cy o, g { d with cycle := cy, offset := o } = g d) (w : World) (x : Nat)
    (cbs : List PartCb) (sensors : List Nat) (y : Nat) :
    g ((w.finishCbs x cbs sensors).dev y) = g (w.dev y) := by
  unfold finishCbs
  split
  · rfl
  · dsimp only
    rw [dev_addRec, foldl_senseOutput_dev, foldl_applyPartCb_dev_field g hg]

@[simp] theorem now_finishCbs (w : World) (x : Nat) (cbs : List PartCb) (sensors : List Nat) :
    (w.finishCbs x cbs sensors).now = w.now := by
  unfold finishCbs
  split
  · rfl
  · dsimp only
    rw [now_addRec, now_foldl_senseOutput, now_foldl_applyPartCb]

theorem finishCbs_env (w : World) (x : Nat) (cbs : List PartCb) (sensors : List Nat) :
    (w.finishCbs x cbs sensors).env = w.env := by
  unfold finishCbs
  split
  · rfl
  · dsimp only
    show (sensors.foldl (fun (w : World) s => w.senseOutput s _) _).env = _
    rw [foldl_preserve World.env _ _ _ (fun (w : World) s => (senseOutput_frame w s _).1),
      foldl_preserve World.env _ _ _ (fun (w : World) c => applyPartCb_env w x _ c)]

/-- Every observation of the processor's own record that reads neither the flow flags nor
`cycle`/`offset` sees `finDev` after `finishCycle`. -/
theorem finishCycle_proc_field {α} (g : Dev → α) (hcore : ∀ d, g d.core = g d)
    (hg : ∀ d cy o, g { d with cycle := cy, offset := o } = g d) (w : World) {x : Nat}
    (hk : (w.dev x).kind = .processor) :
    g ((w.finishCycle x).dev x) = g (finDev w.now (w.operational x) (w.dev x)) := by
  have hx := lt_of_processor hk
  rw [finishCycle_proc w hk, finishCbs_dev_field g hg, ← hcore,
    quiet_eq_dev (finishBook_quiet w x), dev_setDev_same hx, hcore]

theorem finishCbs_dev_ne (w : World) {x y : Nat} (cbs : List PartCb) (sensors : List Nat)
    (hy : y ≠ x) : (w.finishCbs x cbs sensors).dev y = w.dev y := by
  unfold finishCbs
  split
  · rfl
  · dsimp only
    rw [dev_addRec, foldl_senseOutput_dev]
    exact foldl_preserve (fun w : World => w.dev y) _ _ _
      (fun w c => applyPartCb_dev_ne w _ c hy)

/-- Other devices keep everything but their flow flags. -/
theorem finishCycle_proc_dev_ne (w : World) {x y : Nat} (hk : (w.dev x).kind = .processor)
    (hy : y ≠ x) : ((w.finishCycle x).dev y).core = (w.dev y).core := by
  rw [finishCycle_proc w hk, finishCbs_dev_ne _ _ _ hy, quiet_eq_dev (finishBook_quiet w x),
    dev_setDev_ne (Ne.symm hy)]

@[simp] theorem now_finishCycle_proc (w : World) {x : Nat} (hk : (w.dev x).kind = .processor) :
    (w.finishCycle x).now = w.now := by
  rw [finishCycle_proc w hk, now_finishCbs, quiet_eq_now (finishBook_quiet w x)]; rfl

theorem finishCycle_proc_envGrows (w : World) {x : Nat} (hk : (w.dev x).kind = .processor) :
    EnvGrows w.env (w.finishCycle x).env := by
  rw [finishCycle_proc w hk, finishCbs_env]
  exact finishBook_envGrows w x

/-! ## Part 3e: scheduling the end of a cycle -/

/-- The delay `_schedule_finish_cycle` uses: cycle time plus one-shot offset, floored at zero. -/
def finishDelay (w : World) (x : Nat) : Int :=
  let c := w.cycleTime x + (w.dev x).offset
  if c < 0 then 0 else c

theorem finishDelay_eq_max (w : World) (x : Nat) :
    w.finishDelay x = max 0 (w.cycleTime x + (w.dev x).offset) := by
  unfold finishDelay
  dsimp only
  split <;> omega

theorem finishDelay_nonneg (w : World) (x : Nat) : 0 ≤ w.finishDelay x := by
  rw [finishDelay_eq_max]; omega

/-- The event `schedule_event(t, asset, act, prio)` creates in world `w`. -/
def newEv (w : World) (t asset : Int) (a : Action) (prio : Int) : Event :=
  w.env.newEvent t asset a.toNat prio (weightOf w.seed w.wmod t asset a.toNat prio)

/-- A request that is not in the past is accepted: exactly one event is inserted, no error. -/
theorem schedLib_ok (w : World) (t asset : Int) (a : Action) (prio : Int) (h : w.now ≤ t) :
    w.schedLib t asset a prio =
      { w with env := { w.env with
          events := insort (w.newEv t asset a prio) w.env.events
          nextUid := w.env.nextUid + 1 } } := by
  have h' : ¬ t < w.env.now := Int.not_lt.2 h
  simp only [schedLib, sched, Env.apply, Env.schedule, h', if_false, newEv]

theorem schedLib_ok_env (w : World) (t asset : Int) (a : Action) (prio : Int) (h : w.now ≤ t) :
    (w.schedLib t asset a prio).env =
      (w.env.apply Arith.exact
        (.sched t asset a.toNat prio (weightOf w.seed w.wmod t asset a.toNat prio))).1 ∧
    (w.env.apply Arith.exact
        (.sched t asset a.toNat prio (weightOf w.seed w.wmod t asset a.toNat prio))).2 = .ok := by
  have h' : ¬ t < w.env.now := Int.not_lt.2 h
  rw [schedLib_ok w t asset a prio h]
  simp only [Env.apply, Env.schedule, h', if_false, newEv]
  constructor <;> first | rfl | trivial

theorem scheduleFinish_pos (w : World) (x : Nat) (hc : 0 < w.finishDelay x) :
    w.scheduleFinish x =
      (w.setDev x { w.dev x with offset := 0 }).schedLib (w.now + w.finishDelay x) (w.dev x).aid
        (.finishCycle x) pFinish := by
  have hc' : ¬ w.finishDelay x ≤ 0 := Int.not_le.2 hc
  unfold finishDelay at hc'
  unfold scheduleFinish finishDelay
  simp only [hc', if_false]
  rfl

theorem scheduleFinish_nonpos (w : World) (x : Nat) (hc : w.finishDelay x ≤ 0) :
    w.scheduleFinish x = (w.setDev x { w.dev x with offset := 0 }).finishCycle x := by
  unfold finishDelay at hc
  unfold scheduleFinish
  simp only [hc, if_true]

theorem tryMove_proc (w : World) {x : Nat} (hk : (w.dev x).kind = .processor) :
    w.tryMove x =
      if w.operational x && (w.dev x).part.isSome && (w.dev x).output.isNone then
        (w.setDev x { w.dev x with lastUseStart := some w.now }).scheduleFinish x
      else w := by
  unfold tryMove
  simp only [hk]

theorem tryMove_handler (w : World) {x : Nat} (hk : (w.dev x).kind = .handler) :
    w.tryMove x =
      if w.operational x && (w.dev x).part.isSome && (w.dev x).output.isNone then
        w.scheduleFinish x
      else w := by
  unfold tryMove
  simp only [hk]

/-! ### `initDev` of a processor -/

theorem initDev_proc_quiet (w : World) {x : Nat} (hk : (w.dev x).kind = .processor) :
    (w.initDev x).quiet =
      (w.setDev x { w.dev x with inited := true, val := (w.dev x).val.reset,
                                 lastRestore := some w.now }).quiet := by
  have hx := lt_of_processor hk
  unfold initDev
  have hk' : ((w.modDev x (fun d => { d with inited := true, val := d.val.reset })).dev x).kind =
      .processor := by rw [dev_modDev_same hx]; exact hk
  simp only [hk']
  rw [now_setWaiting, now_modDev]
  refine (modDev_quiet_congr (setWaiting_quiet _ x true true) x
    (fun d => { d with lastRestore := some w.now }) (fun _ => rfl)).trans ?_
  rw [modDev_modDev]
  rfl

/-! ### accepting a part (handler / processor) -/

/-- The device record when `_try_move_part_to_output` is reached inside `_accept_part`: the part
is in the input slot and the receive callbacks have adjusted `cycle` / `offset`. -/
def recvDev (p : Nat) (d : Dev) : Dev :=
  d.recvCbs.foldl (fun d c => cbDev c d) { d with part := some p, since := none }

/-- `_accept_part` up to (excluding) `_try_move_part_to_output`. -/
def acceptPre (w : World) (x p : Nat) : World :=
  let w := w.modDev x (fun d => { d with part := some p })
  let w := w.addHist p x
  let w := w.setWaiting x false false
  let w := w.addRec (.received x w.now p (w.part p).quality (w.partValue p))
  (w.dev x).recvCbs.foldl (fun w c => w.applyPartCb x p c) w

theorem acceptPart_eq (w : World) {x : Nat} (p : Nat)
    (hk : (w.dev x).kind = .processor ∨ (w.dev x).kind = .handler) :
    w.acceptPart x p =
      if ((w.acceptPre x p).dev x).output.isNone then (w.acceptPre x p).tryMove x
      else w.acceptPre x p := by
  have hk3 : ((((w.modDev x (fun d => { d with part := some p })).addHist p x).setWaiting x false
      false).dev x).kind = (w.dev x).kind := by
    rw [core_eq_dev_kind (setWaiting_core _ _ _ _), dev_addHist]
    exact modDev_dev_field Dev.kind w x _ rfl x
  have hns : ((w.dev x).kind == Kind.sink) = false := by
    rcases hk with hk | hk <;> rw [hk] <;> decide
  unfold acceptPart onReceived
  simp only [hns, Bool.false_eq_true, if_false]
  rcases hk with hk | hk
  · rw [hk] at hk3
    simp only [hk3]
    rfl
  · rw [hk] at hk3
    simp only [hk3]
    rfl

theorem foldl_applyPartCb_dev_same (cbs : List PartCb) (w : World) {x : Nat} (p : Nat)
    (hx : x < w.devs.length) :
    (cbs.foldl (fun w c => w.applyPartCb x p c) w).dev x =
      cbs.foldl (fun d c => cbDev c d) (w.dev x) := by
  induction cbs generalizing w with
  | nil => rfl
  | cons c cbs ih =>
    rw [List.foldl_cons, List.foldl_cons, ih _ (by simpa using hx), applyPartCb_dev_same w p c hx]

theorem acceptPre_dev_same (w : World) {x : Nat} (p : Nat) (hx : x < w.devs.length) :
    (w.acceptPre x p).dev x = recvDev p (w.dev x) := by
  unfold acceptPre recvDev
  dsimp only
  have h3 : (((w.modDev x (fun d => { d with part := some p })).addHist p x).setWaiting x false
      false).dev x = { w.dev x with part := some p, since := none } := by
    rw [setWaiting_false, dev_setDev_same (by simpa using hx), dev_addHist, dev_modDev_same hx]
  rw [foldl_applyPartCb_dev_same _ _ _ (by simpa using hx)]
  simp only [dev_addRec, h3]

theorem acceptPre_frame (w : World) (x p : Nat) :
    (w.acceptPre x p).env = w.env ∧ (w.acceptPre x p).seed = w.seed ∧
    (w.acceptPre x p).wmod = w.wmod ∧ (w.acceptPre x p).devs.length = w.devs.length := by
  unfold acceptPre
  dsimp only
  refine ⟨?_, ?_, ?_, ?_⟩
  · rw [foldl_preserve World.env _ _ _ (fun (w : World) c => applyPartCb_env w x p c)]
    show (((w.modDev x _).addHist p x).setWaiting x false false).env = _
    rw [setWaiting_env, addHist_env, modDev_env]
  · rw [foldl_preserve World.seed _ _ _ (fun (w : World) c => applyPartCb_seed w x p c)]
    show (((w.modDev x _).addHist p x).setWaiting x false false).seed = _
    rw [setWaiting_seed, addHist_seed, modDev_seed]
  · rw [foldl_preserve World.wmod _ _ _ (fun (w : World) c => applyPartCb_wmod w x p c)]
    show (((w.modDev x _).addHist p x).setWaiting x false false).wmod = _
    rw [setWaiting_wmod, addHist_wmod, modDev_wmod]
  · rw [foldl_preserve (fun w : World => w.devs.length) _ _ _
      (fun (w : World) c => applyPartCb_devs_length w x p c)]
    show (((w.modDev x _).addHist p x).setWaiting x false false).devs.length = _
    rw [setWaiting_devs_length, addHist_devs, modDev_devs_length]

@[simp] theorem now_acceptPre (w : World) (x p : Nat) : (w.acceptPre x p).now = w.now := by
  unfold now; rw [(acceptPre_frame w x p).1]

/-! ## Part 3f: `failDev` and `shutdownDev`, field by field -/

/-- The world `_fail` hands to `_shutdown`. -/
def failMid (w : World) (x : Nat) : World :=
  ({ w with lost := w.lost ++ w.lostLeaves x } : World).failPre x (w.dev x).part

theorem failDev_eq_c13' (w : World) (x : Nat) :
    w.failDev x = (w.failMid x).shutdownDev x true (w.dev x).part := failDev_eq_c13 w x

theorem failMid_dev_same (w : World) (x : Nat) :
    (w.failMid x).dev x = { w.dev x with part := none, reserved := none } :=
  failPre_dev_same _ x _

theorem failMid_dev_ne (w : World) {x y : Nat} (h : y ≠ x) : (w.failMid x).dev y = w.dev y :=
  failPre_dev_ne _ _ h

@[simp] theorem failMid_devs_length (w : World) (x : Nat) :
    (w.failMid x).devs.length = w.devs.length := failPre_devs_length _ x _

@[simp] theorem now_failMid (w : World) (x : Nat) : (w.failMid x).now = w.now := now_failPre _ x _

@[simp] theorem failMid_results (w : World) (x : Nat) : (w.failMid x).results = w.results :=
  failPre_results _ x _

@[simp] theorem failMid_lost (w : World) (x : Nat) :
    (w.failMid x).lost = w.lost ++ w.lostLeaves x := failPre_lost _ x _

@[simp] theorem failMid_parts (w : World) (x : Nat) : (w.failMid x).parts = w.parts :=
  failPre_parts _ x _

theorem failMid_recs (w : World) (x : Nat) :
    (w.failMid x).recs = w.recs ++ w.releaseRecs x ++ [Rec.failure x w.now (w.dev x).part] :=
  failPre_recs _ x _

theorem failMid_envGrows (w : World) (x : Nat) : EnvGrows w.env (w.failMid x).env :=
  failPre_envGrows _ x _

/-- Fields of the world that `shutdownDev` never touches. -/
theorem shutdownDev_frame (w : World) {x : Nat} (isF : Bool) (lost : Option Nat)
    (hx : x < w.devs.length) :
    (w.shutdownDev x isF lost).recs = w.recs ∧ (w.shutdownDev x isF lost).lost = w.lost ∧
    (w.shutdownDev x isF lost).parts = w.parts ∧ (w.shutdownDev x isF lost).now = w.now ∧
    (w.shutdownDev x isF lost).devs.length = w.devs.length ∧
    (w.shutdownDev x isF lost).error = w.error ∧ (w.shutdownDev x isF lost).rm = w.rm := by
  cases hs : (w.dev x).shutDown
  · rw [shutdownDev_eq_up w isF lost hx hs]
    refine ⟨rfl, rfl, rfl, ?_, by simp, rfl, rfl⟩
    cases isF <;> rfl
  · rw [shutdownDev_eq_down w x isF lost hs]
    split <;> exact ⟨rfl, rfl, rfl, rfl, rfl, rfl, rfl⟩

theorem shutdownDev_dev_same (w : World) {x : Nat} (isF : Bool) (lost : Option Nat)
    (hx : x < w.devs.length) :
    (w.shutdownDev x isF lost).dev x =
      if (w.dev x).shutDown then w.dev x else shutDev w.now (w.dev x) := by
  cases hs : (w.dev x).shutDown
  · rw [shutdownDev_eq_up w isF lost hx hs]
    simp only [Bool.false_eq_true, if_false]
    exact getD_set_same _ _ _ _ hx
  · rw [shutdownDev_eq_down w x isF lost hs]
    simp only [if_true]
    split <;> rfl

theorem shutdownDev_dev_ne (w : World) {x y : Nat} (isF : Bool) (lost : Option Nat)
    (hx : x < w.devs.length) (h : y ≠ x) : (w.shutdownDev x isF lost).dev y = w.dev y := by
  cases hs : (w.dev x).shutDown
  · rw [shutdownDev_eq_up w isF lost hx hs]
    exact getD_set_ne _ _ _ _ _ (Ne.symm h)
  · rw [shutdownDev_eq_down w x isF lost hs]
    split <;> rfl

theorem shutdownDev_results (w : World) {x : Nat} (isF : Bool) (lost : Option Nat)
    (hx : x < w.devs.length) :
    (w.shutdownDev x isF lost).results =
      w.results ++ (if !(w.dev x).shutDown || (isF && lost.isSome)
        then shutLog x (w.dev x).nShutCbs isF lost else []) := by
  cases hs : (w.dev x).shutDown
  · rw [shutdownDev_eq_up w isF lost hx hs]; simp
  · rw [shutdownDev_eq_down w x isF lost hs]
    cases isF <;> cases lost <;> simp

theorem shutdownDev_env (w : World) {x : Nat} (isF : Bool) (lost : Option Nat)
    (hx : x < w.devs.length) :
    (w.shutdownDev x isF lost).env =
      if (w.dev x).shutDown then
        (if isF && lost.isSome then w.env.cancel (w.dev x).aid else w.env)
      else (if isF then w.env.cancel (w.dev x).aid else w.env.pause (w.dev x).aid) := by
  cases hs : (w.dev x).shutDown
  · rw [shutdownDev_eq_up w isF lost hx hs]; simp
  · rw [shutdownDev_eq_down w x isF lost hs]
    simp only [if_true]
    split <;> rfl

/-- The device record after `_fail`. -/
theorem failDev_dev_same (w : World) {x : Nat} (hx : x < w.devs.length) :
    (w.failDev x).dev x =
      if (w.dev x).shutDown then { w.dev x with part := none, reserved := none }
      else shutDev w.now { w.dev x with part := none, reserved := none } := by
  rw [failDev_eq_c13', shutdownDev_dev_same _ _ _ (by simpa using hx), failMid_dev_same, now_failMid]

theorem failDev_dev_ne_c13 (w : World) {x y : Nat} (hx : x < w.devs.length) (h : y ≠ x) :
    (w.failDev x).dev y = w.dev y := by
  rw [failDev_eq_c13', shutdownDev_dev_ne _ _ _ (by simpa using hx) h, failMid_dev_ne w h]

theorem failDev_frame (w : World) {x : Nat} (hx : x < w.devs.length) :
    (w.failDev x).recs = w.recs ++ w.releaseRecs x ++ [Rec.failure x w.now (w.dev x).part] ∧
    (w.failDev x).lost = w.lost ++ w.lostLeaves x ∧ (w.failDev x).parts = w.parts ∧
    (w.failDev x).now = w.now ∧ (w.failDev x).devs.length = w.devs.length := by
  obtain ⟨h1, h2, h3, h4, h5, _, _⟩ :=
    shutdownDev_frame (w.failMid x) true (w.dev x).part (by simpa using hx)
  rw [failDev_eq_c13', h1, h2, h3, h4, h5]
  exact ⟨failMid_recs w x, failMid_lost w x, failMid_parts w x, now_failMid w x,
    failMid_devs_length w x⟩

theorem failDev_results (w : World) {x : Nat} (hx : x < w.devs.length) :
    (w.failDev x).results =
      w.results ++ (if !(w.dev x).shutDown || (w.dev x).part.isSome
        then shutLog x (w.dev x).nShutCbs true (w.dev x).part else []) := by
  rw [failDev_eq_c13', shutdownDev_results _ _ _ (by simpa using hx), failMid_results, failMid_dev_same]
  simp

theorem failDev_env (w : World) {x : Nat} (hx : x < w.devs.length) :
    (w.failDev x).env =
      if (w.dev x).shutDown && (w.dev x).part.isNone then (w.failMid x).env
      else (w.failMid x).env.cancel (w.dev x).aid := by
  rw [failDev_eq_c13', shutdownDev_env _ _ _ (by simpa using hx), failMid_dev_same]
  cases (w.dev x).shutDown <;> cases (w.dev x).part <;> simp

/-! ## Part 3g: `scheduleFinish`, `tryMove`, `acceptPart` on a processor, device level -/

theorem finDev_offset (now : Int) (op : Bool) (d : Dev) (o : Int) :
    finDev now op { d with offset := o } = { finDev now op d with offset := o } := by
  unfold finDev finH
  dsimp only
  repeat' split
  all_goals rfl

theorem operational_setDev_of_eq (w : World) {x : Nat} (d : Dev) (hx : x < w.devs.length)
    (hk : d.kind = (w.dev x).kind) (hs : d.shutDown = (w.dev x).shutDown) :
    (w.setDev x d).operational x = w.operational x := by
  unfold operational
  rw [dev_setDev_same hx, hk, hs]

theorem cycleTime_setDev_of_eq (w : World) {x : Nat} (d : Dev) (hx : x < w.devs.length)
    (hk : d.kind = (w.dev x).kind) (hc : d.cycle = (w.dev x).cycle) :
    (w.setDev x d).cycleTime x = w.cycleTime x := by
  unfold cycleTime
  rw [dev_setDev_same hx, hk, hc]

@[simp] theorem now_scheduleFinish_proc (w : World) {x : Nat} (hk : (w.dev x).kind = .processor) :
    (w.scheduleFinish x).now = w.now := by
  have hx := lt_of_processor hk
  by_cases hc : 0 < w.finishDelay x
  · rw [scheduleFinish_pos w x hc]; simp
  · rw [scheduleFinish_nonpos w x (Int.not_lt.1 hc), now_finishCycle_proc]
    · rfl
    · rw [dev_setDev_same hx]; exact hk

/-- Every observation of the processor's own record that reads neither the flow flags nor
`cycle`/`offset`, after `_schedule_finish_cycle`: unchanged if a finish event is scheduled, the
finished state if the cycle ends at once. -/
theorem scheduleFinish_proc_field {α} (g : Dev → α) (hcore : ∀ d, g d.core = g d)
    (hg : ∀ d cy o, g { d with cycle := cy, offset := o } = g d) (w : World) {x : Nat}
    (hk : (w.dev x).kind = .processor) :
    g ((w.scheduleFinish x).dev x) =
      if 0 < w.finishDelay x then g (w.dev x)
      else g (finDev w.now (w.operational x) (w.dev x)) := by
  have hx := lt_of_processor hk
  have hoff : ∀ d : Dev, ∀ o, g { d with offset := o } = g d := fun d o => hg d d.cycle o
  split
  · next hc =>
    rw [scheduleFinish_pos w x hc, dev_schedLib, dev_setDev_same hx, hoff]
  · next hc =>
    rw [scheduleFinish_nonpos w x (Int.not_lt.1 hc)]
    have hk0 : ((w.setDev x { w.dev x with offset := 0 }).dev x).kind = .processor := by
      rw [dev_setDev_same hx]; exact hk
    rw [finishCycle_proc_field g hcore hg _ hk0, dev_setDev_same hx, now_setDev,
      operational_setDev_of_eq w { w.dev x with offset := 0 } hx rfl rfl, finDev_offset, hoff]

theorem scheduleFinish_proc_envGrows (w : World) {x : Nat} (hk : (w.dev x).kind = .processor) :
    EnvGrows w.env (w.scheduleFinish x).env := by
  have hx := lt_of_processor hk
  by_cases hc : 0 < w.finishDelay x
  · rw [scheduleFinish_pos w x hc]
    exact schedLib_envGrows _ _ _ _ _
  · rw [scheduleFinish_nonpos w x (Int.not_lt.1 hc)]
    exact finishCycle_proc_envGrows _ (by rw [dev_setDev_same hx]; exact hk)

/-- The device record after `_try_move_part_to_output` found a part to process (callbacks'
changes of `cycle`/`offset` aside): processing starts now; if the delay is zero it also ends now. -/
def moveDev (now : Int) (delayPos : Bool) (d : Dev) : Dev :=
  if delayPos then { d with lastUseStart := some now }
  else finDev now true { d with lastUseStart := some now }

theorem finishDelay_setDev_of_eq (w : World) {x : Nat} (d : Dev) (hx : x < w.devs.length)
    (hk : d.kind = (w.dev x).kind) (hc : d.cycle = (w.dev x).cycle)
    (ho : d.offset = (w.dev x).offset) : (w.setDev x d).finishDelay x = w.finishDelay x := by
  unfold finishDelay
  rw [cycleTime_setDev_of_eq w d hx hk hc, dev_setDev_same hx, ho]

theorem tryMove_proc_field {α} (g : Dev → α) (hcore : ∀ d, g d.core = g d)
    (hg : ∀ d cy o, g { d with cycle := cy, offset := o } = g d) (w : World) {x : Nat}
    (hk : (w.dev x).kind = .processor) :
    g ((w.tryMove x).dev x) =
      if w.operational x && (w.dev x).part.isSome && (w.dev x).output.isNone then
        g (moveDev w.now (decide (0 < w.finishDelay x)) (w.dev x))
      else g (w.dev x) := by
  have hx := lt_of_processor hk
  rw [tryMove_proc w hk]
  split
  · next hc =>
    have hop : w.operational x = true := by
      simp only [Bool.and_eq_true] at hc; exact hc.1.1
    have hk1 : ((w.setDev x { w.dev x with lastUseStart := some w.now }).dev x).kind =
        .processor := by rw [dev_setDev_same hx]; exact hk
    rw [scheduleFinish_proc_field g hcore hg _ hk1, dev_setDev_same hx, now_setDev,
      operational_setDev_of_eq w { w.dev x with lastUseStart := some w.now } hx rfl rfl,
      finishDelay_setDev_of_eq w { w.dev x with lastUseStart := some w.now } hx rfl rfl rfl, hop]
    unfold moveDev
    by_cases hd : 0 < w.finishDelay x <;> simp [hd]
  · rfl

@[simp] theorem now_tryMove_proc (w : World) {x : Nat} (hk : (w.dev x).kind = .processor) :
    (w.tryMove x).now = w.now := by
  have hx := lt_of_processor hk
  rw [tryMove_proc w hk]
  split
  · rw [now_scheduleFinish_proc]
    · rfl
    · rw [dev_setDev_same hx]; exact hk
  · rfl

/-- The receive callbacks only touch `cycle` and `offset`. -/
theorem recvDev_field {α} (g : Dev → α)
    (hg : ∀ d cy o, g { d with cycle := cy, offset := o } = g d) (p : Nat) (d : Dev) :
    g (recvDev p d) = g { d with part := some p, since := none } := by
  unfold recvDev
  generalize ({ d with part := some p, since := none } : Dev) = d0
  induction d.recvCbs generalizing d0 with
  | nil => rfl
  | cons c cs ih => rw [List.foldl_cons, ih]; exact hg _ _ _

/-- The delay of the cycle that starts when part `p` is accepted: computed from the cycle time
and offset in effect after the receive callbacks ran. -/
def acceptDelay (w : World) (x p : Nat) : Int := (w.acceptPre x p).finishDelay x

theorem acceptPart_proc_field {α} (g : Dev → α) (hcore : ∀ d, g d.core = g d)
    (hg : ∀ d cy o, g { d with cycle := cy, offset := o } = g d) (w : World) {x : Nat} (p : Nat)
    (hk : (w.dev x).kind = .processor) (hacc : w.canAcceptBasic x p = true) :
    g ((w.acceptPart x p).dev x) =
      g (moveDev w.now (decide (0 < w.acceptDelay x p)) (recvDev p (w.dev x))) := by
  have hx := lt_of_processor hk
  have hpre := acceptPre_dev_same w p hx
  have hacc' : (w.dev x).shutDown = false ∧ (w.dev x).part = none ∧ (w.dev x).output = none := by
    simp [canAcceptBasic, hk, operational] at hacc
    exact ⟨hacc.1.1.1, hacc.1.2, hacc.2⟩
  have hk1 : ((w.acceptPre x p).dev x).kind = .processor := by
    rw [hpre, recvDev_field Dev.kind (fun _ _ _ => rfl)]; exact hk
  have ho1 : ((w.acceptPre x p).dev x).output = none := by
    rw [hpre, recvDev_field Dev.output (fun _ _ _ => rfl)]; exact hacc'.2.2
  have hp1 : ((w.acceptPre x p).dev x).part = some p := by
    rw [hpre, recvDev_field Dev.part (fun _ _ _ => rfl)]
  have hs1 : ((w.acceptPre x p).dev x).shutDown = false := by
    rw [hpre, recvDev_field Dev.shutDown (fun _ _ _ => rfl)]; exact hacc'.1
  have hop1 : (w.acceptPre x p).operational x = true := by
    simp [operational, hk1, hs1]
  rw [acceptPart_eq w p (Or.inl hk)]
  simp only [ho1, Option.isNone_none, if_true]
  rw [tryMove_proc_field g hcore hg _ hk1]
  simp only [hop1, hp1, ho1, Option.isSome_some, Option.isNone_none, Bool.and_self, if_true]
  rw [now_acceptPre, hpre]
  rfl

@[simp] theorem now_acceptPart_proc (w : World) {x : Nat} (p : Nat)
    (hk : (w.dev x).kind = .processor) : (w.acceptPart x p).now = w.now := by
  have hx := lt_of_processor hk
  have hk1 : ((w.acceptPre x p).dev x).kind = .processor := by
    rw [acceptPre_dev_same w p hx, recvDev_field Dev.kind (fun _ _ _ => rfl)]; exact hk
  rw [acceptPart_eq w p (Or.inl hk)]
  split
  · rw [now_tryMove_proc _ hk1, now_acceptPre]
  · exact now_acceptPre w x p

theorem finDev_cycle_offset (now : Int) (op : Bool) (d : Dev) (cy o : Int) :
    finDev now op { d with cycle := cy, offset := o } =
      { finDev now op d with cycle := cy, offset := o } := by
  unfold finDev finH
  dsimp only
  repeat' split
  all_goals rfl

theorem moveDev_cycle_offset (now : Int) (b : Bool) (d : Dev) (cy o : Int) :
    moveDev now b { d with cycle := cy, offset := o } =
      { moveDev now b d with cycle := cy, offset := o } := by
  unfold moveDev
  split
  · rfl
  · exact finDev_cycle_offset now true { d with lastUseStart := some now } cy o

/-- `acceptPart_proc_field` with the receive callbacks' changes stripped. -/
theorem acceptPart_proc_field' {α} (g : Dev → α) (hcore : ∀ d, g d.core = g d)
    (hg : ∀ d cy o, g { d with cycle := cy, offset := o } = g d) (w : World) {x : Nat} (p : Nat)
    (hk : (w.dev x).kind = .processor) (hacc : w.canAcceptBasic x p = true) :
    g ((w.acceptPart x p).dev x) =
      g (moveDev w.now (decide (0 < w.acceptDelay x p)) { w.dev x with part := some p }) := by
  rw [acceptPart_proc_field g hcore hg w p hk hacc]
  have h1 := recvDev_field (fun d => g (moveDev w.now (decide (0 < w.acceptDelay x p)) d))
    (fun d cy o => by simp only [moveDev_cycle_offset, hg]) p (w.dev x)
  rw [h1]
  have h2 : moveDev w.now (decide (0 < w.acceptDelay x p))
      { w.dev x with part := some p, since := none } =
      { moveDev w.now (decide (0 < w.acceptDelay x p)) { w.dev x with part := some p } with
        since := none } := by
    unfold moveDev finDev finH
    dsimp only
    repeat' split
    all_goals rfl
  rw [h2]
  generalize moveDev w.now (decide (0 < w.acceptDelay x p)) { w.dev x with part := some p } = D
  have e1 := hcore { D with since := none }
  have e2 := hcore D
  rw [Dev.core_with_since] at e1
  exact e1.symm.trans e2

/-! ## Part 3h: the pass-part event a restore schedules -/

/-- `_schedule_pass_part_downstream()` (offset 0) on a device that is not a sink inserts exactly
one `passPart` event at the current time (at 0 if the clock is negative). -/
theorem schedulePass_zero_env (w : World) {x : Nat} (hk : (w.dev x).kind ≠ .sink) :
    (w.schedulePass x 0).env =
      { w.env with
        events := insort (w.newEv (if w.now < 0 then 0 else w.now) (w.dev x).aid (.passPart x)
          pPassPart) w.env.events
        nextUid := w.env.nextUid + 1 } := by
  unfold schedulePass
  dsimp only
  split
  · next h => exact absurd h hk
  · simp only [Int.add_zero]
    rw [schedLib_ok]
    · rfl
    · simp only [now_setDev]
      by_cases h0 : w.now < 0 <;> simp only [h0, if_true, if_false] <;> omega

theorem restoreDev_env_output (w : World) {x : Nat} (hk : (w.dev x).kind = .processor)
    (hs : (w.dev x).shutDown = true) (ho : (w.dev x).output.isSome = true) :
    (w.restoreDev x).env =
      { w.env.unpause Arith.exact (w.dev x).aid with
        events := insort
          ((w.env.unpause Arith.exact (w.dev x).aid).newEvent (if w.now < 0 then 0 else w.now)
            (w.dev x).aid (Action.passPart x).toNat pPassPart
            (weightOf w.seed w.wmod (if w.now < 0 then 0 else w.now) (w.dev x).aid
              (Action.passPart x).toNat pPassPart))
          (w.env.unpause Arith.exact (w.dev x).aid).events
        nextUid := (w.env.unpause Arith.exact (w.dev x).aid).nextUid + 1 } := by
  have hx := lt_of_processor hk
  have hd1 : (w.restorePre x).dev x =
      { w.dev x with shutDown := false, lastRestore := some w.now } := by
    unfold restorePre; rw [dev_envOp, dev_setDev_same hx]
  rw [restoreDev_env w x hs]
  have ho1 : ((w.restorePre x).dev x).output.isSome = true := by rw [hd1]; exact ho
  unfold restoreFlow
  simp only [ho1, if_true]
  rw [schedulePass_zero_env _ (by rw [hd1]; simp [hk])]
  rw [hd1]
  rfl

theorem restoreDev_env_busy (w : World) {x : Nat}
    (hs : (w.dev x).shutDown = true) (ho : (w.dev x).output = none)
    (hp : (w.dev x).part.isSome = true) :
    (w.restoreDev x).env = w.env.unpause Arith.exact (w.dev x).aid := by
  have hx := lt_of_shutDown hs
  have hd1 : (w.restorePre x).dev x =
      { w.dev x with shutDown := false, lastRestore := some w.now } := by
    unfold restorePre; rw [dev_envOp, dev_setDev_same hx]
  rw [restoreDev_env w x hs]
  unfold restoreFlow
  rw [hd1]
  have hp' : (w.dev x).part.isNone = false := by
    cases h : (w.dev x).part <;> simp [h] at hp ⊢
  simp only [ho, Option.isSome_none, Bool.false_eq_true, if_false, hp']
  rfl

/-! ## Part 3i: closed forms for C06 -/

/-- `_schedule_finish_cycle` with a positive delay, in closed form: the offset is consumed, one
finish event is inserted, nothing else changes. -/
theorem scheduleFinish_pos_eq (w : World) (x : Nat) (hc : 0 < w.finishDelay x) :
    w.scheduleFinish x =
      { w.setDev x { w.dev x with offset := 0 } with
        env := { w.env with
          events := insort (w.newEv (w.now + w.finishDelay x) (w.dev x).aid (.finishCycle x) pFinish)
            w.env.events
          nextUid := w.env.nextUid + 1 } } := by
  rw [scheduleFinish_pos w x hc, schedLib_ok]
  · rfl
  · simp only [now_setDev]; omega

theorem cbDev_core (c : PartCb) (d : Dev) : (cbDev c d).core = cbDev c d.core := rfl

theorem foldl_cbDev_core (cbs : List PartCb) (d : Dev) :
    (cbs.foldl (fun d c => cbDev c d) d).core = cbs.foldl (fun d c => cbDev c d) d.core := by
  induction cbs generalizing d with
  | nil => rfl
  | cons c cs ih => rw [List.foldl_cons, List.foldl_cons, ih, cbDev_core]

theorem foldl_cbDev_offset (cbs : List PartCb) (d : Dev) :
    (cbs.foldl (fun d c => cbDev c d) d).offset = d.offset + (cbs.map PartCb.offset).sum := by
  induction cbs generalizing d with
  | nil => simp
  | cons c cs ih =>
    rw [List.foldl_cons, ih, List.map_cons, List.sum_cons]
    show d.offset + c.offset + _ = _
    omega

/-- Fields other than `cycle`/`offset` survive the callbacks. -/
theorem foldl_cbDev_field {α} (g : Dev → α)
    (hg : ∀ d cy o, g { d with cycle := cy, offset := o } = g d) (cbs : List PartCb) (d : Dev) :
    g (cbs.foldl (fun d c => cbDev c d) d) = g d := by
  induction cbs generalizing d with
  | nil => rfl
  | cons c cs ih => rw [List.foldl_cons, ih]; exact hg _ _ _

theorem finishCbs_dev_same (w : World) {x : Nat} (cbs : List PartCb) (sensors : List Nat)
    (hx : x < w.devs.length) :
    (w.finishCbs x cbs sensors).dev x =
      match (w.dev x).output with
      | none => w.dev x
      | some _ => cbs.foldl (fun d c => cbDev c d) (w.dev x) := by
  unfold finishCbs
  split
  · rfl
  · dsimp only
    rw [dev_addRec, foldl_senseOutput_dev, foldl_applyPartCb_dev_same _ _ _ hx]

/-- The processor's record after `_finish_cycle`, flow flags aside: the bookkeeping of `finDev`,
then — if there is a part in the output slot — the finish callbacks' changes of `cycle`/`offset`. -/
theorem finishCycle_proc_dev_core (w : World) {x : Nat} (hk : (w.dev x).kind = .processor) :
    ((w.finishCycle x).dev x).core =
      (match (finDev w.now (w.operational x) (w.dev x)).output with
       | none => finDev w.now (w.operational x) (w.dev x)
       | some _ => (w.dev x).finCbs.foldl (fun d c => cbDev c d)
            (finDev w.now (w.operational x) (w.dev x))).core := by
  have hx := lt_of_processor hk
  have hq := finishBook_quiet w x
  have hc : ((w.finishBook x).dev x).core = (finDev w.now (w.operational x) (w.dev x)).core := by
    rw [quiet_eq_dev hq, dev_setDev_same hx]
  have hfc : ((w.finishCycleHandler x).dev x).finCbs = (w.dev x).finCbs := by
    have := core_eq_dev_finCbs (core_of_quiet_eq (finishCycleHandler_quiet w x)) x
    rw [this, dev_setDev_same hx]
    unfold finH
    repeat' split
    all_goals rfl
  have ho : ((w.finishBook x).dev x).output = (finDev w.now (w.operational x) (w.dev x)).output :=
    by have := congrArg Dev.output hc; exact this
  rw [finishCycle_proc w hk, finishCbs_dev_same _ _ _ (by rw [quiet_eq_devs_length hq]; simpa using hx),
    hfc, ho]
  cases (finDev w.now (w.operational x) (w.dev x)).output with
  | none => exact hc
  | some q =>
    simp only
    rw [foldl_cbDev_core, foldl_cbDev_core, hc]


theorem with_env_congr {a b : World} {e e' : Env} (h1 : a = b) (h2 : e = e') :
    ({ a with env := e } : World) = { b with env := e' } := by subst h1 h2; rfl

/-- The finish event scheduled when part `p` is accepted by device `x` in world `w`. -/
def acceptEv (w : World) (x p : Nat) : Event :=
  { uid := w.env.nextUid
    time := w.now + w.acceptDelay x p
    prio := pFinish
    weight := weightOf w.seed w.wmod (w.now + w.acceptDelay x p) (w.dev x).aid
      (Action.finishCycle x).toNat pFinish
    asset := (w.dev x).aid
    act := (Action.finishCycle x).toNat }

theorem canAccept_fields (w : World) {x p : Nat}
    (hk : (w.dev x).kind = .processor ∨ (w.dev x).kind = .handler)
    (hacc : w.canAcceptBasic x p = true) :
    w.operational x = true ∧ (w.dev x).part = none ∧ (w.dev x).output = none := by
  rcases hk with hk | hk <;> simp [canAcceptBasic, hk] at hacc <;> exact ⟨hacc.1.1.1, hacc.1.2, hacc.2⟩

/-- `_accept_part` on a processor or handler that can accept the part, when the delay is positive,
in closed form: the receive bookkeeping of `acceptPre`, the offset consumed, (processor) the
utilisation interval opened, and exactly one finish event inserted. -/
theorem acceptPart_pos (w : World) {x : Nat} (p : Nat) (hx : x < w.devs.length)
    (hk : (w.dev x).kind = .processor ∨ (w.dev x).kind = .handler)
    (hacc : w.canAcceptBasic x p = true) (hc : 0 < w.acceptDelay x p) :
    w.acceptPart x p =
      { (w.acceptPre x p).setDev x
          { recvDev p (w.dev x) with
            offset := 0
            lastUseStart := if (w.dev x).kind = .processor then some w.now
                            else (w.dev x).lastUseStart } with
        env := { w.env with
          events := insort (w.acceptEv x p) w.env.events
          nextUid := w.env.nextUid + 1 } } := by
  obtain ⟨hop, hp0, ho0⟩ := canAccept_fields w hk hacc
  obtain ⟨henv, hseed, hwmod, hlen⟩ := acceptPre_frame w x p
  have hx1 : x < (w.acceptPre x p).devs.length := by rw [hlen]; exact hx
  have hpre := acceptPre_dev_same w p hx
  have hk1 : ((w.acceptPre x p).dev x).kind = (w.dev x).kind := by
    rw [hpre, recvDev_field Dev.kind (fun _ _ _ => rfl)]
  have ho1 : ((w.acceptPre x p).dev x).output = none := by
    rw [hpre, recvDev_field Dev.output (fun _ _ _ => rfl)]; exact ho0
  have hp1 : ((w.acceptPre x p).dev x).part = some p := by
    rw [hpre, recvDev_field Dev.part (fun _ _ _ => rfl)]
  have hs1 : ((w.acceptPre x p).dev x).shutDown = (w.dev x).shutDown := by
    rw [hpre, recvDev_field Dev.shutDown (fun _ _ _ => rfl)]
  have haid : ((w.acceptPre x p).dev x).aid = (w.dev x).aid := by
    rw [hpre, recvDev_field Dev.aid (fun _ _ _ => rfl)]
  have hlu : (recvDev p (w.dev x)).lastUseStart = (w.dev x).lastUseStart := by
    rw [recvDev_field Dev.lastUseStart (fun _ _ _ => rfl)]
  have hop1 : (w.acceptPre x p).operational x = true := by
    unfold operational at hop ⊢; rw [hk1, hs1]; exact hop
  have hcond : ((w.acceptPre x p).operational x && ((w.acceptPre x p).dev x).part.isSome &&
      ((w.acceptPre x p).dev x).output.isNone) = true := by simp [hop1, hp1, ho1]
  have hcond0 : ((w.acceptPre x p).dev x).output.isNone = true := by simp [ho1]
  rw [acceptPart_eq w p hk, if_pos hcond0]
  have hev : ∀ W2 : World, W2.env = w.env → W2.seed = w.seed → W2.wmod = w.wmod →
      (W2.dev x).aid = (w.dev x).aid →
      W2.newEv (w.now + w.acceptDelay x p) (W2.dev x).aid (.finishCycle x) pFinish =
        w.acceptEv x p := by
    intro W2 h1 h2 h3 h4
    unfold newEv acceptEv Env.newEvent
    rw [h1, h2, h3, h4]
  rcases hk with hk | hk
  · have hk1' : ((w.acceptPre x p).dev x).kind = .processor := hk1.trans hk
    rw [tryMove_proc _ hk1', if_pos hcond]
    have hd : ((w.acceptPre x p).setDev x
        { (w.acceptPre x p).dev x with lastUseStart := some (w.acceptPre x p).now }).finishDelay x =
        w.acceptDelay x p :=
      finishDelay_setDev_of_eq _ { (w.acceptPre x p).dev x with
        lastUseStart := some (w.acceptPre x p).now } hx1 rfl rfl rfl
    rw [scheduleFinish_pos_eq _ _ (by rw [hd]; exact hc), hd, now_setDev, now_acceptPre]
    refine with_env_congr ?_ ?_
    · rw [dev_setDev_same hx1, setDev_setDev, hpre, if_pos hk]
    · rw [hev ((w.acceptPre x p).setDev x { (w.acceptPre x p).dev x with
          lastUseStart := some w.now }) henv hseed hwmod (by rw [dev_setDev_same hx1]; exact haid)]
      show ({ (w.acceptPre x p).env with
        events := insort (w.acceptEv x p) (w.acceptPre x p).env.events,
        nextUid := (w.acceptPre x p).env.nextUid + 1 } : Env) = _
      rw [henv]
  · have hk1' : ((w.acceptPre x p).dev x).kind = .handler := hk1.trans hk
    rw [tryMove_handler _ hk1', if_pos hcond]
    have hd : (w.acceptPre x p).finishDelay x = w.acceptDelay x p := rfl
    rw [scheduleFinish_pos_eq _ _ (by rw [hd]; exact hc), hd, now_acceptPre]
    refine with_env_congr ?_ ?_
    · have hne : ¬ ((w.dev x).kind = Kind.processor) := by rw [hk]; decide
      rw [hpre, if_neg hne, ← hlu]
    · rw [hev (w.acceptPre x p) henv hseed hwmod haid, henv]

/-! ## Part 3j: offsets and the pass-part event of `finishCycle` -/

theorem finDev_offset_eq (now : Int) (op : Bool) (d : Dev) :
    (finDev now op d).offset = d.offset ∧ (finDev now op d).finCbs = d.finCbs := by
  unfold finDev finH
  dsimp only
  repeat' split
  all_goals exact ⟨rfl, rfl⟩

/-- The offset after `_finish_cycle` of a processor: what it was, plus — if a part is in the
output slot, i.e. the finish callbacks ran — the offsets the finish callbacks added. -/
theorem finishCycle_proc_offset (w : World) {x : Nat} (hk : (w.dev x).kind = .processor) :
    ((w.finishCycle x).dev x).offset =
      (w.dev x).offset +
        (if ((w.finishCycle x).dev x).output.isSome then ((w.dev x).finCbs.map PartCb.offset).sum
         else 0) := by
  have hc := finishCycle_proc_dev_core w hk
  obtain ⟨h1, h2⟩ := finDev_offset_eq w.now (w.operational x) (w.dev x)
  cases hD : (finDev w.now (w.operational x) (w.dev x)).output with
  | none =>
    rw [hD] at hc
    have ho : ((w.finishCycle x).dev x).offset =
        (finDev w.now (w.operational x) (w.dev x)).offset := by
      have := congrArg Dev.offset hc; exact this
    have hu : ((w.finishCycle x).dev x).output =
        (finDev w.now (w.operational x) (w.dev x)).output := by
      have := congrArg Dev.output hc; exact this
    rw [ho, hu, hD, h1]; simp
  | some q =>
    rw [hD] at hc
    have ho : ((w.finishCycle x).dev x).offset =
        ((w.dev x).finCbs.foldl (fun d c => cbDev c d)
          (finDev w.now (w.operational x) (w.dev x))).offset := by
      have := congrArg Dev.offset hc; exact this
    have hu : ((w.finishCycle x).dev x).output =
        ((w.dev x).finCbs.foldl (fun d c => cbDev c d)
          (finDev w.now (w.operational x) (w.dev x))).output := by
      have := congrArg Dev.output hc; exact this
    rw [ho, hu, foldl_cbDev_offset, foldl_cbDev_field Dev.output (fun _ _ _ => rfl), hD, h1]
    simp

theorem finishBook_envGrows' (w : World) (x : Nat) :
    EnvGrows (w.finishCycleHandler x).env (w.finishBook x).env := by
  unfold finishBook
  dsimp only
  split
  · exact (EnvGrows.refl _).trans (schedLib_envGrows _ _ _ _ _)
  · exact EnvGrows.refl _

/-- A successful `_finish_cycle` of a processor leaves a pass-part event of the machine in the
queue, due now. -/
theorem finishCycle_proc_pass_event (w : World) {x p : Nat} (hk : (w.dev x).kind = .processor)
    (hs : (w.dev x).shutDown = false) (hp : (w.dev x).part = some p)
    (ho : (w.dev x).output = none) :
    ∃ e ∈ (w.finishCycle x).env.events,
      e.act = (Action.passPart x).toNat ∧ e.asset = (w.dev x).aid ∧
      e.time = (if w.now < 0 then 0 else w.now) ∧ e.prio = pPassPart ∧ e.cancelled = false ∧
      e.pausedAt = none := by
  have hx := lt_of_processor hk
  have hop : w.operational x = true := by simp [operational, hk, hs]
  rw [finishCycle_proc w hk, finishCbs_env]
  have hg := finishBook_envGrows' w x
  have hne : ((w.setDev x { w.dev x with output := some p, part := none }).dev x).kind ≠ .sink := by
    rw [dev_setDev_same hx]; simp [hk]
  have henv := schedulePass_zero_env (w.setDev x { w.dev x with output := some p, part := none }) hne
  rw [finishCycleHandler_ok w hop hp ho] at hg
  refine ⟨_, hg.mem (by rw [henv]; exact insort_mem.mpr (Or.inl rfl)), rfl, ?_, rfl, rfl, rfl, rfl⟩
  show ((w.setDev x _).dev x).aid = _
  rw [dev_setDev_same hx]

theorem acceptDelay_eq (w : World) {x : Nat} (p : Nat) (hx : x < w.devs.length)
    (hk : (w.dev x).kind = .processor ∨ (w.dev x).kind = .handler) :
    w.acceptDelay x p =
      max 0 ((recvDev p (w.dev x)).cycle + (recvDev p (w.dev x)).offset) := by
  unfold acceptDelay
  rw [finishDelay_eq_max]
  unfold cycleTime
  rw [acceptPre_dev_same w p hx]
  have hk1 : (recvDev p (w.dev x)).kind = (w.dev x).kind :=
    recvDev_field Dev.kind (fun _ _ _ => rfl) p (w.dev x)
  rcases hk with hk | hk <;> rw [hk] at hk1 <;> simp only [hk1]

end World
end SimProc

namespace SimProc

/-! ## Part 4: a cancelled event never runs, however long one waits (environment only) -/

theorem ran_mem_popped {e : Event} {os : List EnvOut} (h : EnvOut.ran e ∈ os) :
    e.uid ∈ C01.poppedUids os := by
  induction os with
  | nil => cases h
  | cons o os ih =>
    rcases List.mem_cons.mp h with rfl | h
    · simp [C01.poppedUids]
    · have := ih h
      cases o <;> simp [C01.poppedUids, this]

theorem nextUid_mono_apply (ar : Arith) {s : Env} (op : EnvOp) (h : C01.Inv s) :
    s.nextUid ≤ (s.apply ar op).1.nextUid := by
  by_cases hst : op = .step
  · subst hst
    cases hs : s.step with
    | none => rw [apply_step_none ar hs]; exact Nat.le_refl _
    | some p =>
      obtain ⟨e, s'⟩ := p
      rw [apply_step_some ar hs]
      exact Nat.le_of_eq (C01.step_uid h hs).2.2.1.symm
  · exact (C01.apply_non_step ar s op hst).2.1

/-- Along any operation sequence from a state satisfying the queue invariant, no event that is
cancelled in that state ever has its action run (uids identify events). -/
theorem cancelled_uid_never_runs (ar : Arith) {s : Env} (ops : List EnvOp) (h : C01.Inv s) :
    ∀ e, EnvOut.ran e ∈ (s.applyAll ar ops).2 → e.uid ∉ C07.cancelledUids s := by
  induction ops generalizing s with
  | nil => intro e he; simp [Env.applyAll] at he
  | cons op ops ih =>
    intro e he hc
    simp only [Env.applyAll, List.mem_cons] at he
    -- the witness of `hc`
    have hc' := hc
    unfold C07.cancelledUids at hc'
    obtain ⟨e0, he0, hue0⟩ := List.mem_map.mp hc'
    obtain ⟨he0m, he0c⟩ := List.mem_filter.mp he0
    rcases he with he | he
    · -- `e` is run by this very operation
      have hlive : e.cancelled = false := by
        by_cases hst : op = .step
        · subst hst; exact C01.ran_live ar s e he.symm
        · have := (C01.apply_non_step ar s op hst).1
          rw [← he] at this; simp [EnvOut.isPop] at this
      have hmem : e ∈ s.events ++ s.paused := by
        by_cases hst : op = .step
        · subst hst
          cases hs : s.step with
          | none => rw [apply_step_none ar hs] at he; cases he
          | some p =>
            obtain ⟨e1, s'⟩ := p
            rw [apply_step_some ar hs] at he
            obtain ⟨es, heq, _⟩ := Env.step_some.mp hs
            by_cases hl : e1.live = true
            · simp only [hl, if_true] at he
              cases he
              simp [heq]
            · simp [hl] at he
        · have := (C01.apply_non_step ar s op hst).1
          rw [← he] at this; simp [EnvOut.isPop] at this
      have : e0 = e := eq_of_nodup_map Event.uid h.uids he0m hmem hue0
      subst this
      rw [hlive] at he0c
      cases he0c
    · -- `e` is run later
      have h1 := C01.inv_apply ar op h
      have hih := ih h1 e he
      rcases C01.popped_known ar ops h1 e.uid (ran_mem_popped he) with hk | hk
      · apply hih
        unfold C01.known at hk
        obtain ⟨e2, he2, hue2⟩ := List.mem_map.mp hk
        have hcan : e2.cancelled = true :=
          C07.cancelled_stays ar s op h e2 he2 (by rw [hue2]; exact hc)
        unfold C07.cancelledUids
        exact List.mem_map.mpr ⟨e2, List.mem_filter.mpr ⟨he2, hcan⟩, hue2⟩
      · have hf := h.fresh e0 he0m
        have hm := nextUid_mono_apply ar op h
        omega

end SimProc

namespace SimProc
open FloorCoreL
namespace World

/-! ## Part 5: the accounting of a processor record (definitions used by `Props/C13`) -/

/-- The public `uptime` property of a device record at clock value `now`. -/
def _root_.SimProc.Dev.uptimeAt (d : Dev) (now : Int) : Int :=
  d.uptime + (match d.lastRestore with | some t => now - t | none => 0)

/-- The public `utilization_time` property of a device record at clock value `now`. -/
def _root_.SimProc.Dev.utilAt (d : Dev) (now : Int) : Int :=
  d.timeInUse + (match d.lastUseStart with | some t => now - t | none => 0)

/-- The bookkeeping invariant of a processor record: the uptime interval is open exactly while
the machine is operational, the utilisation interval is open exactly while an operational machine
has a part in process. -/
structure _root_.SimProc.Dev.UpInv (d : Dev) : Prop where
  restore : d.lastRestore.isSome = true ↔ d.shutDown = false
  use : d.lastUseStart.isSome = true ↔ (d.part.isSome = true ∧ d.shutDown = false)

/-! #### device-level facts -/

theorem shutDev_upInv (now : Int) (d : Dev) : (shutDev now d).UpInv :=
  ⟨by simp [shutDev], by simp [shutDev]⟩

theorem shutDev_acct (now : Int) (d : Dev) :
    (shutDev now d).uptimeAt now = d.uptimeAt now ∧ (shutDev now d).utilAt now = d.utilAt now := by
  unfold shutDev Dev.uptimeAt Dev.utilAt
  cases d.lastRestore <;> cases d.lastUseStart <;> simp <;> omega

theorem restDev_upInv (now : Int) (d : Dev) (h : d.UpInv) (hs : d.shutDown = true) :
    (restDev now d).UpInv := by
  have h1 : d.lastUseStart = none := by
    cases hl : d.lastUseStart with
    | none => rfl
    | some t => have := (h.use.mp (by simp [hl])).2; simp [hs] at this
  constructor
  · simp [restDev]
  · cases hp : d.part <;> simp [restDev, hp, h1]

theorem restDev_acct (now : Int) (d : Dev) (h : d.UpInv) (hs : d.shutDown = true) :
    (restDev now d).uptimeAt now = d.uptimeAt now ∧ (restDev now d).utilAt now = d.utilAt now := by
  have h1 : d.lastUseStart = none := by
    cases hl : d.lastUseStart with
    | none => rfl
    | some t => have := (h.use.mp (by simp [hl])).2; simp [hs] at this
  have h2 : d.lastRestore = none := by
    cases hl : d.lastRestore with
    | none => rfl
    | some t => have := h.restore.mp (by simp [hl]); simp [hs] at this
  unfold restDev Dev.uptimeAt Dev.utilAt
  cases hp : d.part <;> simp [h1, h2]

theorem finDev_upInv (now : Int) (op : Bool) (d : Dev) (h : d.UpInv) (hop : op = !d.shutDown)
    (hout : d.part.isSome = true → d.output = none) : (finDev now op d).UpInv := by
  constructor
  · have := h.restore
    unfold finDev finH
    dsimp only
    repeat' split
    all_goals simpa using this
  · unfold finDev finH
    dsimp only
    cases hs : d.shutDown
    · cases hp : d.part with
      | none => simp [hop, hs, hp]
      | some p =>
        have ho := hout (by simp [hp])
        simp [hop, hs, ho]
    · simp [hop, hs]

theorem finDev_acct (now : Int) (op : Bool) (d : Dev) :
    (finDev now op d).uptimeAt now = d.uptimeAt now ∧ (finDev now op d).utilAt now = d.utilAt now := by
  have key : ∀ d' : Dev, d'.uptime = d.uptime → d'.lastRestore = d.lastRestore →
      d'.timeInUse = d.timeInUse → d'.lastUseStart = d.lastUseStart →
      ({ d' with timeInUse := d'.timeInUse + (now - d'.lastUseStart.getD now),
                 lastUseStart := none } : Dev).uptimeAt now = d.uptimeAt now ∧
      ({ d' with timeInUse := d'.timeInUse + (now - d'.lastUseStart.getD now),
                 lastUseStart := none } : Dev).utilAt now = d.utilAt now := by
    intro d' h1 h2 h3 h4
    unfold Dev.uptimeAt Dev.utilAt
    simp only [h1, h2, h3, h4]
    cases d.lastUseStart <;> simp
  unfold finDev finH
  dsimp only
  repeat' split
  all_goals exact key _ rfl rfl rfl rfl


/-! #### transfer along `core` and along `cycle` / `offset` -/

theorem upInv_core (d : Dev) : d.core.UpInv = d.UpInv :=
  propext ⟨fun h => ⟨h.restore, h.use⟩, fun h => ⟨h.restore, h.use⟩⟩

theorem upInv_cycle_offset (d : Dev) (cy o : Int) :
    ({ d with cycle := cy, offset := o } : Dev).UpInv = d.UpInv :=
  propext ⟨fun h => ⟨h.restore, h.use⟩, fun h => ⟨h.restore, h.use⟩⟩

theorem upInv_of_core_eq {d d' : Dev} (h : d'.core = d.core) (hi : d.UpInv) : d'.UpInv := by
  rw [← upInv_core, h, upInv_core]; exact hi

theorem acct_of_core_eq {d d' : Dev} (h : d'.core = d.core) (now : Int) :
    d'.uptimeAt now = d.uptimeAt now ∧ d'.utilAt now = d.utilAt now := by
  have h1 : d'.core.uptimeAt now = d.core.uptimeAt now := by rw [h]
  have h2 : d'.core.utilAt now = d.core.utilAt now := by rw [h]
  exact ⟨h1, h2⟩

theorem moveDev_upInv (now : Int) (b : Bool) (d : Dev)
    (hr : d.lastRestore.isSome = true ↔ d.shutDown = false) (hs : d.shutDown = false)
    (hp : d.part.isSome = true) (ho : d.output = none) : (moveDev now b d).UpInv := by
  have h1 : ({ d with lastUseStart := some now } : Dev).UpInv := ⟨hr, by simp [hp, hs]⟩
  unfold moveDev
  split
  · exact h1
  · exact finDev_upInv now true _ h1 (by simp [hs]) (fun _ => ho)

theorem moveDev_acct (now : Int) (b : Bool) (d : Dev) (hl : d.lastUseStart = none) :
    (moveDev now b d).uptimeAt now = d.uptimeAt now ∧ (moveDev now b d).utilAt now = d.utilAt now := by
  have h1 : ({ d with lastUseStart := some now } : Dev).uptimeAt now = d.uptimeAt now ∧
      ({ d with lastUseStart := some now } : Dev).utilAt now = d.utilAt now := by
    unfold Dev.uptimeAt Dev.utilAt; simp [hl]
  unfold moveDev
  split
  · exact h1
  · have h2 := finDev_acct now true { d with lastUseStart := some now }
    exact ⟨h2.1.trans h1.1, h2.2.trans h1.2⟩

end World
end SimProc
