/-
`tryMove`, `onReceived`, `acceptPart` as moves of the receiving device; the specification of `give`.
-/
import SimProc.Proofs.FloorBatcher
import SimProc.Proofs.Topo
namespace SimProc
namespace C02V
open World

theorem part_of_sv {w w' : World} (h : sv w' = sv w) (x : Nat) : (w'.dev x).part = (w.dev x).part := by
  have := congrArg (fun a => (a.dev x).part) h
  simp only [sv_dev] at this; exact this

theorem output_of_sv {w w' : World} (h : sv w' = sv w) (x : Nat) : (w'.dev x).output = (w.dev x).output := by
  have := congrArg (fun a => (a.dev x).output) h
  simp only [sv_dev] at this; exact this

theorem sdev_of_sv {w w' : World} (h : sv w' = sv w) (x : Nat) : sdev (w'.dev x) = sdev (w.dev x) := by
  have := congrArg (fun a => a.dev x) h
  simp only [sv_dev] at this; exact this

theorem parts_len_of_sv {w w' : World} (h : sv w' = sv w) : w'.parts.length = w.parts.length := by
  have := congrArg (fun a => a.kids.length) h
  simpa [sv] using this

theorem devs_len_of_sv {w w' : World} (h : sv w' = sv w) : w'.devs.length = w.devs.length := by
  have := congrArg (fun a => a.devs.length) h
  simpa [sv] using this

theorem perm_aux (p : Nat) (O B I : List Nat) : (p :: (O ++ (B ++ I))).Perm (O ++ (B ++ p :: I)) := by
  rw [← List.append_assoc, ← List.append_assoc]; exact List.perm_middle.symm

/-! ### `tryMove` -/

theorem sv_tryMove_buffer (w : World) (x p : Nat) (hk : (w.dev x).kind = .buffer)
    (hp : (w.dev x).part = some p) :
    sv (w.tryMove x) = sv (w.setDev x { w.dev x with buf := (w.dev x).buf ++ [(w.now, p)], part := none }) := by
  simp only [World.tryMove, hk, hp]
  split
  · rw [sv_schedulePass, sv_notify]
  · rw [sv_notify]

theorem steps_tryMove_buffer (w : World) (x : Nat) (hk : (w.dev x).kind = .buffer) :
    Steps x (sv w) (sv (w.tryMove x)) := by
  cases hp : (w.dev x).part with
  | none =>
    have : w.tryMove x = w := by simp only [World.tryMove, hk, hp]
    rw [this]; exact Steps.refl _
  | some p =>
    have e : sv (w.tryMove x) =
        sv (w.setDev x { w.dev x with buf := (w.dev x).buf ++ [(w.now, p)], part := none }) := by
      simp only [World.tryMove, hk, hp]
      split
      · rw [sv_schedulePass, sv_notify]
      · rw [sv_notify]
    rw [e]
    refine steps_setDev_rearr w x _ [] rfl ?_ (Or.inr (by simp)) (fun b h => h)
    simp only [SDev.held, sdev, hp, Option.toList_some, Option.toList_none, List.nil_append,
      List.map_append, List.map_cons, List.map_nil, List.append_assoc, List.singleton_append]
    exact perm_aux ..


theorem steps_tryMove_batcher (w : World) (x : Nat) (hk : (w.dev x).kind = .batcher)
    (hv : ∀ p, (w.dev x).part = some p → p < w.parts.length) :
    Steps x (sv w) (sv (w.tryMove x)) := by
  by_cases hc : (!w.operational x || (w.dev x).part.isNone || (w.dev x).output.isSome) = true
  · have : w.tryMove x = w := by simp only [World.tryMove, hk, hc, if_true]
    rw [this]; exact Steps.refl _
  cases hp : (w.dev x).part with
  | none =>
    have : w.tryMove x = w := by simp only [World.tryMove, hk, hp]; split <;> rfl
    rw [this]; exact Steps.refl _
  | some p =>
    have hloop : (w.part p).kids ≠ some [] →
        Steps x (sv w) (sv (batcherLoop (w.leafCount p + 2) w x)) := by
      intro hne
      refine steps_batcherLoop (w.leafCount p + 2) w x (by rw [hk]; decide) ?_
      intro q hq
      rw [hp] at hq; cases hq
      exact ⟨hv p hp, hne⟩
    have hfin : sv (if ((batcherLoop (w.leafCount p + 2) w x).dev x).output.isSome = true then
        (batcherLoop (w.leafCount p + 2) w x).schedulePass x 0 else batcherLoop (w.leafCount p + 2) w x) =
        sv (batcherLoop (w.leafCount p + 2) w x) := by
      split
      · rw [sv_schedulePass]
      · rfl
    cases hkids : (w.part p).kids with
    | none =>
      have e : sv (w.tryMove x) = sv (batcherLoop (w.leafCount p + 2) w x) := by
        unfold World.tryMove
        simp only [hk]
        rw [if_neg hc]
        simp only [hp, hkids, Bool.false_eq_true, if_false]
        exact hfin
      rw [e]; exact hloop (by rw [hkids]; simp)
    | some l =>
      by_cases hl : l.isEmpty = true
      · have e : w.tryMove x = w.setDev x { w.dev x with part := none } := by
          unfold World.tryMove
          simp only [hk]
          rw [if_neg hc]
          simp only [hp, hkids, hl, if_true]
        rw [e]
        refine steps_setDev_rearr w x _ [p] rfl ?_ (Or.inr ?_) (fun b h => h)
        · simp [SDev.held, sdev, hp]
        · intro q hq
          simp only [List.mem_singleton] at hq; subst hq
          unfold World.leavesOf
          simp only [hkids]
          simpa using hl
      · have e : sv (w.tryMove x) = sv (batcherLoop (w.leafCount p + 2) w x) := by
          unfold World.tryMove
          simp only [hk]
          rw [if_neg hc]
          simp only [hp, hkids, hl, Bool.false_eq_true, if_false]
          exact hfin
        rw [e]; exact hloop (by rw [hkids]; intro h; cases h; exact hl rfl)

theorem steps_tryMove_other (w : World) (x : Nat) (hk1 : (w.dev x).kind ≠ .buffer)
    (hk2 : (w.dev x).kind ≠ .batcher) : Steps x (sv w) (sv (w.tryMove x)) := by
  by_cases hc : (w.operational x && (w.dev x).part.isSome && (w.dev x).output.isNone) = true
  · by_cases hp : (w.dev x).kind = .processor
    · have e : w.tryMove x = (w.setDev x { w.dev x with lastUseStart := some w.now }).scheduleFinish x := by
        simp only [World.tryMove, hp, hc, if_true]
      rw [e]
      have := steps_scheduleFinish (w.setDev x { w.dev x with lastUseStart := some w.now }) x
      rw [sv_setDev_same _ _ _ (by rfl)] at this
      exact this
    · have e : w.tryMove x = w.scheduleFinish x := by
        unfold World.tryMove
        simp only []
        split <;> simp_all
      rw [e]; exact steps_scheduleFinish w x
  · have e : w.tryMove x = w := by
      unfold World.tryMove
      simp only []
      split <;> simp_all
    rw [e]; exact Steps.refl _

theorem steps_tryMove (w : World) (x : Nat) (hv : ∀ p, (w.dev x).part = some p → p < w.parts.length) :
    Steps x (sv w) (sv (w.tryMove x)) := by
  by_cases h1 : (w.dev x).kind = .buffer
  · exact steps_tryMove_buffer w x h1
  · by_cases h2 : (w.dev x).kind = .batcher
    · exact steps_tryMove_batcher w x h2 hv
    · exact steps_tryMove_other w x h1 h2


/-! ### `onReceived`, `acceptPart` -/

/-- the bookkeeping part of `onReceived` -/
def recvBook (w : World) (x p : Nat) : World :=
  let d := w.dev x
  let w := match d.kind with
    | .sink =>
      let v := w.partValue p
      w.setDev x { d with
        recvCount := d.recvCount + w.leafCount p
        recvValue := d.recvValue + v
        val := d.val.addValue lblCollected w.now v
        collected := if d.collect then d.collected ++ [p] else d.collected }
    | .buffer =>
      let w := w.setDev x { d with level := d.level + w.leafCount p }
      w.addRec (.level x w.now (w.dev x).level)
    | _ => w
  let w := w.addRec (.received x w.now p (w.part p).quality (w.partValue p))
  (w.dev x).recvCbs.foldl (fun w c => w.applyPartCb x p c) w

theorem onReceived_eq (w : World) (x p : Nat) :
    w.onReceived x p = if ((recvBook w x p).dev x).output.isNone then (recvBook w x p).tryMove x
      else recvBook w x p := rfl

theorem sv_recvBook (w : World) (x p : Nat) : sv (recvBook w x p) = sv w := by
  unfold recvBook; frame

theorem steps_onReceived (w : World) (x p : Nat) (hv : ∀ q, (w.dev x).part = some q → q < w.parts.length) :
    Steps x (sv w) (sv (w.onReceived x p)) := by
  rw [onReceived_eq]
  have hs := sv_recvBook w x p
  split
  · have := steps_tryMove (recvBook w x p) x (by
      intro q hq
      rw [part_of_sv hs] at hq
      rw [parts_len_of_sv hs]; exact hv q hq)
    rw [hs] at this; exact this
  · exact steps_of_sv hs

/-- the state in which `acceptPart` calls `onReceived` -/
def acceptPre (w : World) (x p : Nat) : World :=
  let w := if (w.dev x).kind == .sink then { w with delivered := w.delivered ++ w.leavesOf p } else w
  let w := w.modDev x (fun d => { d with part := some p })
  let w := w.addHist p x
  w.setWaiting x false false

theorem acceptPart_eq (w : World) (x p : Nat) : w.acceptPart x p = (acceptPre w x p).onReceived x p := rfl

theorem sv_del_setPart (w : World) (x p : Nat) (D : List Nat) :
    sv (({ w with delivered := D } : World).modDev x (fun d => { d with part := some p })) =
      { devs := (sv w).devs.set x { sdev (w.dev x) with part := some p }, kids := (sv w).kids,
        gen := (sv w).gen, del := D, lost := (sv w).lost } := by
  unfold World.modDev
  rw [sv_setDev]
  rfl

theorem sv_acceptPre (w : World) (x p : Nat) :
    sv (acceptPre w x p) = accept (sv w) x p (sdev (w.dev x)) := by
  unfold acceptPre
  simp only []
  rw [sv_setWaiting, sv_addHist]
  unfold accept
  by_cases hk : (w.dev x).kind = .sink
  · have h1 : ((w.dev x).kind == Kind.sink) = true := by rw [hk]; rfl
    have h2 : (sdev (w.dev x)).kind = Kind.sink := hk
    simp only [h1, if_true]
    rw [if_pos h2, sv_del_setPart, leaves_eq]; rfl
  · have h1 : ((w.dev x).kind == Kind.sink) = false := by
      cases h : (w.dev x).kind <;> simp_all
    have h2 : ¬ (sdev (w.dev x)).kind = Kind.sink := hk
    simp only [h1, if_false, Bool.false_eq_true]
    rw [if_neg h2]
    exact sv_del_setPart w x p w.delivered

theorem steps_acceptPart (w : World) (x p : Nat) (hx : x < w.devs.length) (hp : p < w.parts.length) :
    Steps x (accept (sv w) x p (sdev (w.dev x))) (sv (w.acceptPart x p)) := by
  rw [acceptPart_eq, ← sv_acceptPre]
  apply steps_onReceived
  intro q hq
  have h1 : (acceptPre w x p).parts.length = w.parts.length := by
    have := congrArg (fun a => a.kids.length) (sv_acceptPre w x p)
    simpa [sv, accept] using this
  have h2 : sdev ((acceptPre w x p).dev x) = { sdev (w.dev x) with part := some p } := by
    have := congrArg (fun a => a.dev x) (sv_acceptPre w x p)
    simp only [sv_dev] at this
    rw [this]
    simp [accept, SV.dev, sv, hx]
  have h3 : ((acceptPre w x p).dev x).part = some p := congrArg SDev.part h2
  rw [h3] at hq; cases hq
  rw [h1]; exact hp


/-- A buffer that accepts a part just appends it to its content. -/
theorem sv_acceptPart_buffer (w : World) (x p : Nat) (hx : x < w.devs.length)
    (hk : (w.dev x).kind = .buffer) (hpn : (w.dev x).part = none) (ho : (w.dev x).output = none) :
    sv (w.acceptPart x p) =
      (sv w).setDev x { sdev (w.dev x) with buf := (sdev (w.dev x)).buf ++ [p] } := by
  rw [acceptPart_eq, onReceived_eq]
  have hs : sv (recvBook (acceptPre w x p) x p) = accept (sv w) x p (sdev (w.dev x)) := by
    rw [sv_recvBook, sv_acceptPre]
  have hd : sdev ((recvBook (acceptPre w x p) x p).dev x) = { sdev (w.dev x) with part := some p } := by
    have := congrArg (fun a => a.dev x) hs
    simp only [sv_dev] at this
    rw [this]
    simp [accept, SV.dev, sv, hx]
  have hout : ((recvBook (acceptPre w x p) x p).dev x).output = none := by
    have := congrArg SDev.output hd; simpa [sdev, ho] using this
  have hpart : ((recvBook (acceptPre w x p) x p).dev x).part = some p := congrArg SDev.part hd
  have hkind : ((recvBook (acceptPre w x p) x p).dev x).kind = .buffer := by
    have := congrArg SDev.kind hd; simpa [sdev, hk] using this
  rw [hout]
  simp only [Option.isNone_none, if_true]
  rw [sv_tryMove_buffer _ x p hkind hpart, sv_setDev, hs]
  have e : sdev { ((recvBook (acceptPre w x p) x p).dev x) with
      buf := ((recvBook (acceptPre w x p) x p).dev x).buf ++ [((recvBook (acceptPre w x p) x p).now, p)],
      part := none } = { sdev (w.dev x) with buf := (sdev (w.dev x)).buf ++ [p] } := by
    have h1 : ∀ d : Dev, ∀ t : Int, sdev { d with buf := d.buf ++ [(t, p)], part := none } =
        { sdev d with buf := (sdev d).buf ++ [p], part := none } := by
      intro d t; simp [sdev]
    rw [h1, hd]
    simp [sdev, hpn]
  rw [e]
  have hks : ¬ (sdev (w.dev x)).kind = Kind.sink := by
    show ¬ (w.dev x).kind = Kind.sink; rw [hk]; decide
  simp only [accept, SV.setDev, if_neg hks, List.set_set]

/-! ### `give` -/

/-- `give` succeeded: exactly one reachable handler-like device `z` took the part into its empty
slots (and then made its own moves). -/
def Accepted (a : SV) (t : ST) (a' : SV) (y p : Nat) : Prop :=
  ∃ z, Reach t y z ∧ ∀ d, a.devs[z]? = some d → d.part = none ∧ d.output = none ∧
    Steps z (accept a z p d) a' ∧
    (d.kind = .buffer → a' = a.setDev z { d with buf := d.buf ++ [p] })

def GiveSpec (w : World) (r : World × Bool) (y p : Nat) : Prop :=
  (r.2 = false → sv r.1 = sv w) ∧ (r.2 = true → Accepted (sv w) (st w) (sv r.1) y p)

theorem GiveSpec.fail {w w' : World} {y p : Nat} (h : sv w' = sv w) : GiveSpec w (w', false) y p :=
  ⟨fun _ => h, fun h => by cases h⟩

theorem GiveSpec.ok {w w' : World} {y p : Nat} (h : Accepted (sv w) (st w) (sv w') y p) :
    GiveSpec w (w', true) y p :=
  ⟨fun h' => (by cases h'), fun _ => h⟩

theorem GiveSpec.pre {w w1 : World} {r : World × Bool} {y p : Nat} (h1 : sv w1 = sv w) (h2 : st w1 = st w)
    (h : GiveSpec w1 r y p) : GiveSpec w r y p := by
  unfold GiveSpec at *; rw [← h1, ← h2]; exact h

theorem canAccept_slots {w : World} {x p : Nat} (hk : isHandlerLike (w.dev x).kind = true)
    (h : w.canAcceptBasic x p = true) : (w.dev x).part = none ∧ (w.dev x).output = none := by
  unfold World.canAcceptBasic at h
  cases hkind : (w.dev x).kind <;> simp_all [isHandlerLike, Option.isNone_iff_eq_none]

theorem accepted_self (w w1 : World) (x p : Nat) (hk : isHandlerLike (w.dev x).kind = true)
    (hc : w.canAcceptBasic x p = true) (h1 : sv w1 = sv w) (hp : p < w.parts.length) :
    Accepted (sv w) (st w) (sv (w1.acceptPart x p)) x p := by
  refine ⟨x, Reach.self x (by rw [st_kind]; exact hk), ?_⟩
  intro d hd
  have hx : x < w.devs.length := by
    have := (List.getElem?_eq_some_iff.mp hd).1
    simpa [sv] using this
  rw [sv_get w x hx] at hd
  cases hd
  have hs := canAccept_slots hk hc
  refine ⟨hs.1, hs.2, ?_, ?_⟩
  · have := steps_acceptPart w1 x p (by rw [devs_len_of_sv h1]; exact hx) (by rw [parts_len_of_sv h1]; exact hp)
    rw [h1, sdev_of_sv h1] at this
    exact this
  · intro hkb
    have := sv_acceptPart_buffer w1 x p (by rw [devs_len_of_sv h1]; exact hx)
      (by have := congrArg SDev.kind (sdev_of_sv h1 x); exact this.trans hkb)
      (by rw [part_of_sv h1]; exact hs.1) (by rw [output_of_sv h1]; exact hs.2)
    rw [h1, sdev_of_sv h1] at this
    exact this

theorem tryList_spec (g : World → Nat → Nat → World × Bool)
    (hg : ∀ w y p, p < w.parts.length → GiveSpec w (g w y p) y p)
    (hst : ∀ w y p, st (g w y p).1 = st w) (l : List Nat) :
    ∀ (w : World) (p : Nat), p < w.parts.length →
      ((tryList g w l p).2 = false → sv (tryList g w l p).1 = sv w) ∧
      ((tryList g w l p).2 = true → ∃ y ∈ l, Accepted (sv w) (st w) (sv (tryList g w l p).1) y p) := by
  induction l with
  | nil => intro w p _; exact ⟨fun _ => rfl, fun h => by cases h⟩
  | cons y ys ih =>
    intro w p hp
    unfold tryList
    have h1 := hg w y p hp
    have h2 := hst w y p
    cases hgy : g w y p with
    | mk w' b =>
      rw [hgy] at h1 h2
      cases b with
      | true =>
        simp only []
        exact ⟨fun h => (by cases h), fun _ => ⟨y, List.mem_cons_self .., h1.2 rfl⟩⟩
      | false =>
        simp only []
        have hs : sv w' = sv w := h1.1 rfl
        have := ih w' p (by rw [parts_len_of_sv hs]; exact hp)
        simp only [] at h2
        rw [hs, h2] at this
        exact ⟨this.1, fun h => by
          obtain ⟨z, hz, ha⟩ := this.2 h
          exact ⟨z, List.mem_cons_of_mem _ hz, ha⟩⟩


theorem give_spec (f : Nat) : ∀ (w : World) (y p : Nat), p < w.parts.length →
    GiveSpec w (give f w y p) y p := by
  induction f with
  | zero => intro w y p _; exact GiveSpec.fail (sv_setErr ..)
  | succ f ih =>
    intro w y p hp
    have hl := tryList_spec (give f) ih (st_give f)
    unfold give
    simp only []
    split
    iterate 5
      rename_i hk
      split
      · rename_i hc
        exact GiveSpec.ok (accepted_self w w y p (by rw [hk]; rfl) hc rfl hp)
      · exact GiveSpec.fail rfl
    · -- processor
      rename_i hk
      split
      · rename_i hc
        split
        · rename_i w1 h
          have hs : sv w1 = sv w := by have := sv_procAcquire w y; rw [h] at this; exact this
          exact GiveSpec.ok (accepted_self w w1 y p (by rw [hk]; rfl) hc hs hp)
        · rename_i w1 h
          have hs : sv w1 = sv w := by have := sv_procAcquire w y; rw [h] at this; exact this
          exact GiveSpec.fail hs
      · exact GiveSpec.fail rfl
    · -- gate
      rename_i hk
      split
      · exact GiveSpec.fail rfl
      · split
        · exact GiveSpec.fail rfl
        · have hs1 : sv (w.addHist p y) = sv w := sv_addHist ..
          have ht1 : st (w.addHist p y) = st w := st_addHist ..
          have := hl ((w.addHist p y).sortedDown y) (w.addHist p y) p (by rw [parts_len_of_sv hs1]; exact hp)
          split
          · rename_i w2 h; rw [h] at this
            refine GiveSpec.pre hs1 ht1 (GiveSpec.ok ?_)
            obtain ⟨z, hz, u, hr, hu⟩ := this.2 rfl
            refine ⟨u, Reach.gate y z u (Or.inl ?_) ?_ hr, hu⟩
            · rw [st_kind, kind_of_st ht1]; exact hk
            · rw [st_down]; exact (mem_sortedDown ..).1 hz
          · rename_i w2 h; rw [h] at this
            exact GiveSpec.fail (by rw [sv_dropHist]; exact (this.1 rfl).trans hs1)
    · -- ginput
      rename_i hk
      split
      · exact GiveSpec.fail rfl
      · have := hl (w.sortedDown y) w p hp
        refine ⟨this.1, fun h => ?_⟩
        obtain ⟨z, hz, u, hr, hu⟩ := this.2 h
        refine ⟨u, Reach.gate y z u (Or.inr ?_) ?_ hr, hu⟩
        · rw [st_kind]; exact hk
        · rw [st_down]; exact (mem_sortedDown ..).1 hz
    · -- gpath
      rename_i hk
      split
      · exact GiveSpec.fail rfl
      · have hs1 : sv ((w.modPart p (fun r => { r with stack := r.stack ++ [y] })).addHist p y) = sv w := by
          rw [sv_addHist]; exact sv_modPart_same _ _ _ (fun _ => rfl)
        have ht1 : st ((w.modPart p (fun r => { r with stack := r.stack ++ [y] })).addHist p y) = st w := by
          rw [st_addHist]; rfl
        have := ih ((w.modPart p (fun r => { r with stack := r.stack ++ [y] })).addHist p y)
          ((((w.modPart p (fun r => { r with stack := r.stack ++ [y] })).addHist p y).groups.getD
            (w.dev y).group default).input) p (by rw [parts_len_of_sv hs1]; exact hp)
        split
        · rename_i w2 h
          rw [h] at this
          refine GiveSpec.pre hs1 ht1 (GiveSpec.ok ?_)
          obtain ⟨u, hr, hu⟩ := this.2 rfl
          refine ⟨u, Reach.gpath y u ?_ ?_, hu⟩
          · rw [st_kind, kind_of_st ht1]; exact hk
          · rw [st_gin, st_group]
            have : ((((w.modPart p (fun r => { r with stack := r.stack ++ [y] })).addHist p y).dev y).group) =
                (w.dev y).group := by
              have := congrArg (fun t => t.group y) ht1
              simpa [st_group] using this
            rw [this]; exact hr
        · rename_i w2 h
          rw [h] at this
          refine GiveSpec.fail ?_
          rw [sv_dropHist, sv_modPart_same]
          · exact (this.1 rfl).trans hs1
          · intro _; rfl
    · -- goutput
      rename_i hk
      split
      · exact GiveSpec.fail (sv_setErr ..)
      · rename_i g hg
        have hs1 : sv (w.modPart p (fun r => { r with stack := r.stack.dropLast })) = sv w :=
          sv_modPart_same _ _ _ (fun _ => rfl)
        have ht1 : st (w.modPart p (fun r => { r with stack := r.stack.dropLast })) = st w := rfl
        have := hl ((w.modPart p (fun r => { r with stack := r.stack.dropLast })).sortedDown g)
          (w.modPart p (fun r => { r with stack := r.stack.dropLast })) p
          (by rw [parts_len_of_sv hs1]; exact hp)
        split
        · rename_i w2 h; rw [h] at this
          refine GiveSpec.pre hs1 ht1 (GiveSpec.ok ?_)
          obtain ⟨z, hz, u, hr, hu⟩ := this.2 rfl
          refine ⟨u, Reach.goutput y g z u ?_ ?_ hr, hu⟩
          · rw [ht1, st_kind]; exact hk
          · rw [st_down]; exact (mem_sortedDown ..).1 hz
        · rename_i w2 h; rw [h] at this
          refine GiveSpec.fail ?_
          rw [sv_modPart_same]
          · exact (this.1 rfl).trans hs1
          · intro _; rfl

theorem tryGive_spec (w : World) (l : List Nat) (p : Nat) (hp : p < w.parts.length) :
    ((tryList givePart w l p).2 = false → sv (tryList givePart w l p).1 = sv w) ∧
    ((tryList givePart w l p).2 = true →
      ∃ y ∈ l, Accepted (sv w) (st w) (sv (tryList givePart w l p).1) y p) :=
  tryList_spec givePart (fun w y p hp => give_spec w.fuel w y p hp) st_givePart l w p hp

end C02V
end SimProc
