/-
C03W with re-wiring — stage A (resources) with re-wiring IN SCRIPTS.

The class `C11W.S` of the resource theorems (which may not be changed) excludes `rewire` in scripts,
and the invariant `C11W.Inv w` contains that class.  But nothing in `C11W.Inv` except the class reads
the scripts, and no function of the model except `runScript` does: so the invariant is carried for
the world WITHOUT its scripts, `C11W.Inv (es w [])` (`Proofs/C03YEs*.lean`: blindness to the
scripts), every event other than a script run is handled by `C11W.inv_exec` on that world, and a
script run is handled operation by operation: `C11W.inv_applyOp` for the operations of the class
`C11W.opOK`, `inv11_rewire` for the re-wirings.
-/
import SimProc.Proofs.C03YEsWorld
import SimProc.Proofs.C03YAux

namespace SimProc
namespace C03W
open World FloorCoreL C03 C02V

/-! ### the class -/

def isRewire : Op → Bool
  | .rewire _ _ => true
  | _ => false

/-- the scripts without their re-wirings -/
def noRw (s : List (List Op)) : List (List Op) := s.map (fun l => l.filter (fun op => !isRewire op))

/-- **The class of the resource theorems, the re-wirings of the scripts aside**: `C11W.S` for the
world whose scripts have lost their `rewire` operations. -/
def S11R (w : World) : Prop := C11W.S (es w (noRw w.scripts))

instance (w : World) : Decidable (S11R w) := by unfold S11R; infer_instance

/-- the operations of the scripts that are not re-wirings belong to the class of C11W -/
def OpsOK11 (w : World) : Prop :=
  ∀ l ∈ w.scripts, ∀ op ∈ l, isRewire op = false → C11W.opOK (w.devs.map (·.aid)) op = true

theorem S11R.opsOK {w : World} (h : S11R w) : OpsOK11 w := by
  intro l hl op hop hr
  have := C11W.S.scripts h (l.filter (fun op => !isRewire op))
    (by show _ ∈ noRw w.scripts; exact List.mem_map.mpr ⟨l, hl, rfl⟩) op
    (List.mem_filter.mpr ⟨hop, by simp [hr]⟩)
  exact this

/-- without scripts the class is the class of the devices -/
theorem S11R.nil {w : World} (h : S11R w) : C11W.S (es w []) := by
  unfold S11R C11W.S C11W.SB at *
  simp only [es_devs, es_scripts, sc, List.all_nil, Bool.true_and, Bool.and_eq_true] at h ⊢
  exact ⟨⟨⟨h.1.1.1.2, h.1.1.2⟩, h.1.2⟩, h.2⟩

theorem S11R.of_swr {w w' : World} (h : S11R w) (e : swr w' = swr w) (hs : w'.scripts = w.scripts) :
    S11R w' := by
  unfold S11R at *
  refine C11W.S.of_eq h (by simp only [es_scripts, sc, hs]) ?_
  exact sd_of_swr e

theorem S11R.of_step {w w' : World} (h : S11R w) (r : SWR w w') : S11R w' := h.of_swr r.1 r.2

/-! ### a script run, operation by operation -/

theorem inv11_es_applyOp1 {v : World} (h : C11W.Inv (es v [])) (op : Op)
    (hop : isRewire op = false → C11W.opOK (v.devs.map (·.aid)) op = true)
    (hnc : ∀ sp, op ≠ .create sp) : C11W.Inv (es (v.applyOp op).1 []) := by
  cases hr : isRewire op with
  | true =>
    obtain ⟨x, ups, rfl⟩ : ∃ x ups, op = .rewire x ups := by
      cases op <;> simp only [isRewire] at hr <;> first | (cases hr; done) | exact ⟨_, _, rfl⟩
    show C11W.Inv (es (v.rewire x ups) [])
    rw [← es_rewire]
    exact inv11_rewire h x ups
  | false =>
    have := C11W.inv_applyOp (es v []) op h (hop hr)
    rw [es_applyOp v [] op hnc] at this
    exact this

theorem inv11_es_applyOp {v : World} (h : C11W.Inv (es v [])) (op : Op)
    (hop : isRewire op = false → C11W.opOK (v.devs.map (·.aid)) op = true)
    (hnc : ∀ sp, op ≠ .create sp) :
    C11W.Inv (es ((v.applyOp op).1.addRes (v.applyOp op).2) []) :=
  (inv11_es_applyOp1 h op hop hnc).mono (C11W.monoS_addRes (es (v.applyOp op).1 []) _).toMono

theorem aids_of_swr {w w' : World} (e : swr w' = swr w) :
    w'.devs.map (·.aid) = w.devs.map (·.aid) := C02V.aids_of_sd (sd_of_swr e)

theorem inv11_es_applyOps : ∀ (ops : List Op) (v : World), C11W.Inv (es v []) → OpsOK11 v → NC v →
    (∀ op ∈ ops, ∃ l ∈ v.scripts, op ∈ l) → C11W.Inv (es (v.applyOps ops) []) := by
  intro ops
  induction ops with
  | nil => intro v h _ _ _; exact h
  | cons op ops ih =>
    intro v h hok hnc hsub
    unfold World.applyOps
    simp only [List.foldl_cons]
    obtain ⟨l, hl, hop⟩ := hsub op (List.mem_cons_self ..)
    have hc := hnc l hl op hop
    have h1 := inv11_es_applyOp h op (hok l hl op hop) hc
    have hscr : ((v.applyOp op).1.addRes (v.applyOp op).2).scripts = v.scripts := scr_applyOp v op
    have hswr : swr ((v.applyOp op).1.addRes (v.applyOp op).2) = swr v := swr_applyOp v op hc
    have := ih _ h1 (by
        intro l' hl' op' hop' hr'
        rw [hscr] at hl'
        rw [aids_of_swr hswr]
        exact hok l' hl' op' hop' hr')
      (by intro l' hl'; rw [hscr] at hl'; exact hnc l' hl')
      (fun o ho => by rw [hscr]; exact hsub o (List.mem_cons_of_mem _ ho))
    unfold World.applyOps at this
    exact this

theorem inv11_es_runScript {v : World} (h : C11W.Inv (es v [])) (hok : OpsOK11 v) (hnc : NC v)
    (k : Nat) : C11W.Inv (es (v.runScript k) []) := by
  unfold World.runScript
  refine inv11_es_applyOps _ v h hok hnc (fun op hop => ?_)
  by_cases hk : k < v.scripts.length
  · have e : v.scripts.getD k [] = v.scripts[k] := by simp [List.getD_eq_getElem?_getD, hk]
    rw [e] at hop
    exact ⟨_, List.getElem_mem hk, hop⟩
  · have e : v.scripts.getD k [] = [] := by
      simp [List.getD_eq_getElem?_getD, Nat.le_of_not_lt hk]
    rw [e] at hop; cases hop

/-! ### maintenance hooks -/

theorem inv11_es_hookStart {v : World} (h : C11W.Inv (es v [])) (hok : OpsOK11 v) (hnc : NC v)
    (tgt : Nat) (tag : Int) : C11W.Inv (es (v.hookStart tgt tag) []) := by
  have h1 : C11W.Inv (es (v.addRes (.hook true tgt tag)) []) :=
    h.mono (C11W.monoS_addRes (es v []) _).toMono
  unfold World.hookStart
  dsimp only
  split
  · next d _ =>
    rw [← es_shutdownDev]
    exact C11W.inv_shutdownDev _ d false none h1 (fun hf => by cases hf)
  · split
    · exact inv11_es_runScript h1 hok hnc _
    · exact h1

theorem inv11_es_hookEnd {v : World} (h : C11W.Inv (es v [])) (hok : OpsOK11 v) (hnc : NC v)
    (tgt : Nat) (tag : Int) : C11W.Inv (es (v.hookEnd tgt tag) []) := by
  have h1 : C11W.Inv (es (v.addRes (.hook false tgt tag)) []) :=
    h.mono (C11W.monoS_addRes (es v []) _).toMono
  unfold World.hookEnd
  dsimp only
  split
  · next d _ =>
    rw [← es_restoreDev]
    exact C11W.inv_restoreDev _ d h1
  · split
    · exact inv11_es_runScript h1 hok hnc _
    · exact h1

theorem opsOK11_of {w w' : World} (h : OpsOK11 w) (e : swr w' = swr w) (hs : w'.scripts = w.scripts) :
    OpsOK11 w' := by
  intro l hl op hop hr
  rw [hs] at hl
  rw [aids_of_swr e]
  exact h l hl op hop hr

theorem nc_of_scripts {w w' : World} (h : NC w) (hs : w'.scripts = w.scripts) : NC w' := by
  unfold NC; rw [hs]; exact h

theorem inv11_es_startWork {v : World} (h : C11W.Inv (es v [])) (hok : OpsOK11 v) (hnc : NC v)
    (m seq : Nat) : C11W.Inv (es (v.startWork m seq) []) := by
  unfold World.startWork
  split
  · rw [← es_setErr]; exact h.mono (C11W.monoS_setErr _ _).toMono
  · next o _ =>
    generalize v.targetParams o.target o.tag = tp
    obtain ⟨dur, t2, t3⟩ := tp
    dsimp only
    generalize (v.addRec (.workOrder 1 m v.now o.target o.tag o.info)).targetParams o.target o.tag = tp2
    obtain ⟨u1, u2, cost⟩ := tp2
    dsimp only
    have key : ∀ (r : Rec) (f : Maint → Maint), C11W.Inv (es ((v.addRec r).modMaint m f) []) ∧
        ((v.addRec r).modMaint m f).scripts = v.scripts ∧ swr ((v.addRec r).modMaint m f) = swr v := by
      intro r f
      refine ⟨?_, rfl, rfl⟩
      have c1 : C11W.MonoS (es v []) ((es v []).addRec r) := C11W.monoS_addRec _ _
      have c2 : C11W.MonoS ((es v []).addRec r) (((es v []).addRec r).modMaint m f) :=
        C11W.monoS_modMaint _ _ _
      exact h.mono (c1.trans c2).toMono
    obtain ⟨h2, hs2, hsw2⟩ := key (.workOrder 1 m v.now o.target o.tag o.info)
      (fun mm => mm.startCost (v.addRec (.workOrder 1 m v.now o.target o.tag o.info)).now cost)
    generalize (v.addRec (.workOrder 1 m v.now o.target o.tag o.info)).modMaint m
        (fun mm => mm.startCost (v.addRec (.workOrder 1 m v.now o.target o.tag o.info)).now cost) = v2
        at h2 hs2 hsw2
    have h3 := inv11_es_hookStart h2 (opsOK11_of hok hsw2 hs2) (nc_of_scripts hnc hs2) o.target o.tag
    generalize v2.hookStart o.target o.tag = v3 at h3
    have e := es_schedLib v3 [] (v3.now + dur) (v3.maints.getD m default).aid (.finishWork m seq) pFinishWork
    rw [← e]
    exact h3.mono (C11W.MonoS.toMono (C11W.monoS_schedLib_plain _ _ _ _ _
      (fun _ => ⟨(by intro h; cases h), (by intro h; cases h)⟩)))

theorem inv11_es_finishWork {v : World} (h : C11W.Inv (es v [])) (hok : OpsOK11 v) (hnc : NC v)
    (m seq : Nat) : C11W.Inv (es (v.finishWork m seq) []) := by
  unfold World.finishWork
  split
  · rw [← es_setErr]; exact h.mono (C11W.monoS_setErr _ _).toMono
  · dsimp only
    rename_i o _
    have h1 := inv11_es_hookEnd h hok hnc o.target o.tag
    generalize v.hookEnd o.target o.tag = v1 at h1
    have key : ∀ (u : World) (f g : Maint → Maint) (r : Rec) (st : List Order),
        C11W.Inv (es u []) →
        C11W.Inv (es ((((u.modMaint m f).addRec r).modMaint m g).startOrders m st) []) := by
      intro u f g r st hu
      rw [← es_startOrders]
      refine hu.mono (C11W.MonoS.toMono ?_)
      have c1 : C11W.MonoS (es u []) ((es u []).modMaint m f) := C11W.monoS_modMaint _ _ _
      have c2 : C11W.MonoS ((es u []).modMaint m f) (((es u []).modMaint m f).addRec r) :=
        C11W.monoS_addRec _ _
      have c3 : C11W.MonoS (((es u []).modMaint m f).addRec r)
          ((((es u []).modMaint m f).addRec r).modMaint m g) := C11W.monoS_modMaint _ _ _
      exact ((c1.trans c2).trans c3).trans (C11W.monoS_startOrders _ _ _)
    exact key v1 _ _ _ _ h1

/-! ### the availability check: every waiting request is a processor's -/

theorem es_scanWaiting (n : Nat) : ∀ (v : World) (s : List (List Op)) (i : Nat),
    (∀ e ∈ v.rm.waiting, ∃ x, e.2 = Cb.proc x) →
    scanWaiting scanOps n (es v s) i = es (scanWaiting scanOps n v i) s := by
  induction n with
  | zero => intro v s i _; rfl
  | succ n ih =>
    intro v s i hw
    rw [scanWaiting, scanWaiting]
    show (match (es v s).rm.waiting[i]? with
      | none => es v s
      | some (req, cb) =>
        if (es v s).rm.canFulfill req then
          scanWaiting scanOps n (scanOps.erase (scanOps.call (es v s) cb req) i) i
        else scanWaiting scanOps n (es v s) (i + 1)) = _
    rw [es_rm]
    show _ = es (match v.rm.waiting[i]? with
      | none => v
      | some (req, cb) =>
        if v.rm.canFulfill req then scanWaiting scanOps n (scanOps.erase (scanOps.call v cb req) i) i
        else scanWaiting scanOps n v (i + 1)) s
    cases hi : v.rm.waiting[i]? with
    | none => rfl
    | some e =>
      obtain ⟨req, cb⟩ := e
      dsimp only
      obtain ⟨x, hx⟩ := hw _ (List.mem_of_getElem? hi)
      dsimp only at hx
      subst hx
      split
      · have e1 : scanOps.erase (scanOps.call (es v s) (Cb.proc x) req) i =
            es (scanOps.erase (scanOps.call v (Cb.proc x) req) i) s := by
          show scanOps.erase ((es v s).procResourceCb x) i = _
          rw [es_procResourceCb]; rfl
        rw [e1]
        refine ih _ s i (fun e he => ?_)
        have hrm : (v.procResourceCb x).rm = v.rm := by
          unfold World.procResourceCb
          rw [core_eq_rm (notify_core _ _)]; rfl
        have he' : e ∈ (v.procResourceCb x).rm.waiting.eraseIdx i := he
        rw [hrm] at he'
        exact hw e (List.mem_of_mem_eraseIdx he')
      · exact ih v s (i + 1) hw

theorem es_rmCheck (v : World) (s : List (List Op))
    (hw : ∀ e ∈ v.rm.waiting, ∃ x, e.2 = Cb.proc x) : (es v s).rmCheck = es v.rmCheck s :=
  es_scanWaiting _ v s 0 hw

/-! ### one event -/

theorem es_pop (w : World) (env' : Env) :
    ({ es w [] with env := env' } : World) = es ({ w with env := env' } : World) [] := rfl

/-- **Every event preserves the resource invariant of the world without its scripts.** -/
theorem inv11_es_step {w w' : World} {e : Event} (h : C11W.Inv (es w [])) (hok : OpsOK11 w)
    (hnc : NC w) (hw : ∀ e ∈ w.rm.waiting, ∃ x, e.2 = Cb.proc x)
    (hst : w.step = some (e, w')) : C11W.Inv (es w' []) := by
  unfold World.step at hst
  split at hst
  · cases hst
  · rename_i e' env' henv
    simp only [Option.some.injEq, Prod.mk.injEq] at hst
    obtain ⟨rfl, rfl⟩ := hst
    have henv0 : (es w []).env.step = some (e', env') := henv
    obtain ⟨hr, he, hp, hrel, hlive⟩ := C11W.inv_pop (es w []) h e' env' henv0
    rw [es_pop] at hr he hp hrel
    generalize hw1 : ({ w with env := env' } : World) = w1 at hr he hp hrel
    have hok1 : OpsOK11 w1 := by rw [← hw1]; exact hok
    have hnc1 : NC w1 := by rw [← hw1]; exact hnc
    have hwt1 : ∀ e ∈ w1.rm.waiting, ∃ x, e.2 = Cb.proc x := by rw [← hw1]; exact hw
    split
    · next hl =>
      have hc : e'.cancelled = false := by
        unfold Event.live at hl; simpa using hl
      have hexec : C11W.Inv ((es w1 []).exec (Action.ofNat e'.act)) := by
        refine C11W.inv_exec _ _ hr he ?_ ?_ ?_
        · rcases hp with ⟨_, h2⟩ | h2
          · exact Or.inl h2
          · exact Or.inr h2
        · intro x
          rcases hrel x with ⟨_, h2⟩ | h2
          · exact Or.inl h2
          · exact Or.inr h2
        · intro x ha
          have := hlive hc x ha
          rw [← hw1]
          exact this
      -- the full invariant before the action, for the actions that are neither the availability
      -- check nor a RELEASE event
      have hfull : (Action.ofNat e'.act ≠ .rmCheck) → (∀ x, Action.ofNat e'.act ≠ .releaseIfIdle x) →
          C11W.Inv (es w1 []) := by
        intro h1 h2
        refine ⟨hr, he, ?_, fun x => ?_⟩
        · rcases hp with ⟨_, h3⟩ | h3
          · exact absurd h3 h1
          · exact h3
        · rcases hrel x with ⟨_, h3⟩ | h3
          · exact absurd h3 (h2 x)
          · exact h3
      cases ha : Action.ofNat e'.act with
      | script k =>
        rw [ha] at hfull
        exact inv11_es_runScript (hfull (fun hh => nomatch hh) (fun _ hh => nomatch hh)) hok1 hnc1 k
      | startWork m o =>
        rw [ha] at hfull
        exact inv11_es_startWork (hfull (fun hh => nomatch hh) (fun _ hh => nomatch hh)) hok1 hnc1 m o
      | finishWork m o =>
        rw [ha] at hfull
        exact inv11_es_finishWork (hfull (fun hh => nomatch hh) (fun _ hh => nomatch hh)) hok1 hnc1 m o
      | rmCheck =>
        rw [ha] at hexec
        show C11W.Inv (es w1.rmCheck [])
        rw [← es_rmCheck w1 [] hwt1]
        exact hexec
      | terminate => rw [ha] at hexec; exact hexec
      | finishCycle d => rw [ha] at hexec; rw [← es_exec w1 [] (.finishCycle d) (fun _ hh => nomatch hh) (fun hh => nomatch hh) (fun _ _ hh => nomatch hh) (fun _ _ hh => nomatch hh)]; exact hexec
      | passPart d => rw [ha] at hexec; rw [← es_exec w1 [] (.passPart d) (fun _ hh => nomatch hh) (fun hh => nomatch hh) (fun _ _ hh => nomatch hh) (fun _ _ hh => nomatch hh)]; exact hexec
      | fail d => rw [ha] at hexec; rw [← es_exec w1 [] (.fail d) (fun _ hh => nomatch hh) (fun hh => nomatch hh) (fun _ _ hh => nomatch hh) (fun _ _ hh => nomatch hh)]; exact hexec
      | releaseIfIdle d => rw [ha] at hexec; rw [← es_exec w1 [] (.releaseIfIdle d) (fun _ hh => nomatch hh) (fun hh => nomatch hh) (fun _ _ hh => nomatch hh) (fun _ _ hh => nomatch hh)]; exact hexec
      | schedUpdate sd => rw [ha] at hexec; rw [← es_exec w1 [] (.schedUpdate sd) (fun _ hh => nomatch hh) (fun hh => nomatch hh) (fun _ _ hh => nomatch hh) (fun _ _ hh => nomatch hh)]; exact hexec
      | periodicSense sn => rw [ha] at hexec; rw [← es_exec w1 [] (.periodicSense sn) (fun _ hh => nomatch hh) (fun hh => nomatch hh) (fun _ _ hh => nomatch hh) (fun _ _ hh => nomatch hh)]; exact hexec
      | unknown n => rw [ha] at hexec; rw [← es_exec w1 [] (.unknown n) (fun _ hh => nomatch hh) (fun hh => nomatch hh) (fun _ _ hh => nomatch hh) (fun _ _ hh => nomatch hh)]; exact hexec
    · next hl =>
      have hc : e'.cancelled = true := by
        unfold Event.live at hl; simpa using hl
      refine ⟨hr, he, ?_, fun x => ?_⟩
      · rcases hp with ⟨h1, _⟩ | h2
        · rw [hc] at h1; cases h1
        · exact h2
      · rcases hrel x with ⟨h1, _⟩ | h2
        · rw [hc] at h1; cases h1
        · exact h2

end C03W
end SimProc
