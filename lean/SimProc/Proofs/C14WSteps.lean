/-
C14W — the step theorems for the three relations: equal up to uids (`SameUpToUids`), renumbered
uids (`Renum ρ`), equal up to weights (`SameUpToWeights`).
-/
import SimProc.Proofs.C14WRel2
import SimProc.Proofs.C14WSplit

namespace SimProc
namespace C14W
open World C01W Split

section
variable {Q : Env → Env → Prop} {s1 m1 s2 m2 : Nat}

/-- A blind, relation-preserving function applied to two worlds that agree on everything but the
queue (and have the same clock). -/
theorem par_fun (G : World → World) (hb : Blind G)
    (hp : ∀ {w : World} {t : Twin}, PP Q s1 m1 s2 m2 w t → PP Q s1 m1 s2 m2 (G w) (NX G w t))
    {w w2 : World} (hsame : Same w w2) (hn : w2.env.now = w.env.now) (g : Good w)
    (hs1 : w.seed = s1) (hm1 : w.wmod = m1) (hs2 : w2.seed = s2) (hm2 : w2.wmod = m2)
    (hq : Q w.env w2.env) :
    Same (G w) (G w2) ∧ Good (G w) ∧ (G w).seed = s1 ∧ (G w).wmod = m1 ∧ (G w2).seed = s2 ∧
      (G w2).wmod = m2 ∧ Q (G w).env (G w2).env := by
  have hw2 := hsame.eq_sw hn
  have h1 : PP Q s1 m1 s2 m2 w ⟨w2.env, w2.seed, w2.wmod⟩ := by
    refine ⟨g, hs1, hm1, hs2, hm2, ?_⟩
    have : se w w2.env = w2.env := by simp only [se, ← hn]
    show Q w.env (se w w2.env)
    rw [this]; exact hq
  have h2 := hp h1
  have hbe := hb.eq w ⟨w2.env, w2.seed, w2.wmod⟩
  rw [← hw2] at hbe
  rw [hbe]
  exact ⟨same_sw _ _, h2.good, h2.seed, h2.wmod, h2.tseed, h2.twmod, h2.q⟩

end

/-! ### equal up to uids -/

theorem sameUpToUids_iff (w w2 : World) :
    SameUpToUids w w2 ↔ Same w w2 ∧ w2.seed = w.seed ∧ w2.wmod = w.wmod ∧ C14.EnvEq w.env w2.env := by
  constructor
  · rintro ⟨hr, he⟩
    have h1 : w2.seed = w.seed := (congrArg World.seed hr).symm
    have h2 : w2.wmod = w.wmod := (congrArg World.wmod hr).symm
    refine ⟨?_, h1, h2, he⟩
    unfold Same
    have : w2 = { ({ w2 with env := {} } : World) with env := w2.env } := rfl
    rw [this, ← hr]
  · rintro ⟨hs, h1, h2, he⟩
    exact ⟨(rest_of_same hs h1 h2).symm, he⟩

theorem SameUpToUids.refl (w : World) : SameUpToUids w w := ⟨rfl, rfl, rfl, rfl, rfl⟩

theorem head_of_map_nu {l l2 : List Event} {e : Event} {es : List Event} (hl : l = e :: es)
    (h : l.map C14.noUid = l2.map C14.noUid) :
    ∃ e2 es2, l2 = e2 :: es2 ∧ C14.noUid e2 = C14.noUid e ∧ es.map C14.noUid = es2.map C14.noUid := by
  subst hl
  cases l2 with
  | nil => simp at h
  | cons e2 es2 =>
    simp only [List.map_cons, List.cons.injEq] at h
    exact ⟨e2, es2, rfl, h.1.symm, h.2⟩

/-- **The world never inspects uids**: two worlds that are equal up to the numbering of their
events take the same step (they pop the same event up to its uid) and are equal up to the
numbering of events afterwards. -/
theorem uid_step {w w2 w' : World} {e : Event} (g : Good w) (h : SameUpToUids w w2)
    (hs : w.step = some (e, w')) :
    ∃ e2 w2', w2.step = some (e2, w2') ∧ C14.noUid e2 = C14.noUid e ∧ SameUpToUids w' w2' ∧
      Good w' := by
  obtain ⟨hsame, hsd, hwm, hn, ht, he, hp⟩ := (sameUpToUids_iff w w2).mp h
  obtain ⟨x1, hxs⟩ := step_env hs
  obtain ⟨es, hev, _⟩ := Env.step_some.mp hxs
  obtain ⟨x1', hxs', hx1n, hx1e, hx1p, hx1t⟩ := step_cons hev
  rw [hxs] at hxs'
  cases hxs'
  obtain ⟨e2, es2, hyev, hnu, htl⟩ := head_of_map_nu hev he
  rw [C14.noUid_eq] at hnu
  obtain ⟨y1, hys, hy1n, hy1e, hy1p, hy1t⟩ := step_cons hyev
  have hact' : e2.act = e.act := by simpa using congrArg Event.act hnu
  have htime' : e2.time = e.time := by simpa using congrArg Event.time hnu
  have hlive' : e2.live = e.live := by
    have := congrArg Event.cancelled hnu
    simp only [nu_cancelled] at this
    simp [Event.live, this]
  have hq : C14.EnvEq x1 y1 :=
    ⟨by rw [hx1n, hy1n, htime'], by rw [hx1t, hy1t, ht, hlive', hact'], by rw [hx1e, hy1e, htl],
      by rw [hx1p, hy1p, hp]⟩
  obtain ⟨w1', w2', hs1, hs2, hsame', hg', hsd1, hwm1, hsd2, hwm2, hq', _, _⟩ :=
    step_par (cong_envEq w.seed w.wmod) hsame g rfl rfl hsd hwm hxs hys htime' hact' hlive' hq
  rw [hs] at hs1
  cases hs1
  refine ⟨e2, w2', hs2, by rw [C14.noUid_eq]; exact hnu, ?_, hg'⟩
  exact (sameUpToUids_iff _ _).mpr ⟨hsame', hsd2.trans hsd1.symm, hwm2.trans hwm1.symm, hq'⟩

theorem uid_step_none {w w2 : World} (h : SameUpToUids w w2) (hs : w.step = none) :
    w2.step = none := by
  rw [step_none_iff] at hs ⊢
  rw [Env.step_none] at hs ⊢
  have := h.env.2.2.1
  rw [hs] at this
  simpa using this.symm

/-- The same for the action of an event. -/
theorem uid_exec {w w2 : World} (g : Good w) (h : SameUpToUids w w2) (a : Action) :
    SameUpToUids (w.exec a) (w2.exec a) := by
  obtain ⟨hsame, hsd, hwm, hq⟩ := (sameUpToUids_iff w w2).mp h
  obtain ⟨r1, _, r3, r4, r5, r6, r7⟩ := par_fun (fun v => v.exec a) (bl_exec a)
    (fun hpp => pp_exec (cong_envEq w.seed w.wmod) hpp a) hsame hq.1.symm g rfl rfl hsd hwm hq
  exact (sameUpToUids_iff _ _).mpr ⟨r1, r5.trans r3.symm, r6.trans r4.symm, r7⟩

theorem setErr_rest (w : World) (m : String) :
    ({ (w.setErr m) with env := {} } : World) = ({ w with env := {} } : World).setErr m := by
  cases w with
  | mk env seed wmod scripts results error _ _ _ _ _ _ _ _ _ _ _ _ _ _ _ _ _ =>
    cases error <;> rfl

theorem uid_setErr {w w2 : World} (h : SameUpToUids w w2) (m : String) :
    SameUpToUids (w.setErr m) (w2.setErr m) := by
  refine ⟨?_, ?_⟩
  · rw [setErr_rest w m, setErr_rest w2 m, h.rest]
  · rw [EK_env (EK_setErr w m), EK_env (EK_setErr w2 m)]; exact h.env

theorem running_of_envEq {x y : Env} (h : C14.EnvEq x y) : x.running = y.running := by
  obtain ⟨_, ht, he, _⟩ := h
  have : x.events.isEmpty = y.events.isEmpty := by
    have := congrArg List.length he
    simp only [List.length_map] at this
    cases hx : x.events <;> cases hy : y.events <;> simp_all
  simp only [Env.running, ht, this]

/-- The run loop on two worlds that are equal up to uids. -/
theorem uid_runLoop (n : Nat) : ∀ {w w2 : World}, Good w → SameUpToUids w w2 →
    SameUpToUids (runLoop n w) (runLoop n w2) := by
  induction n with
  | zero => intro w w2 _ h; rw [runLoop, runLoop]; exact uid_setErr h _
  | succ n ih =>
    intro w w2 g h
    rw [runLoop, runLoop, ← running_of_envEq h.env]
    by_cases hr : w.env.running = true
    · simp only [hr, if_true]
      cases hs : w.step with
      | none => rw [uid_step_none h hs]; exact h
      | some q =>
        obtain ⟨e, w'⟩ := q
        obtain ⟨e2, w2', hs2, _, h', g'⟩ := uid_step g h hs
        rw [hs2]
        exact ih g' h'
    · simp only [hr]
      exact h

theorem envEq_runBegin {x y : Env} (h : C14.EnvEq x y) (d : Int) (wt : Nat) :
    (x.runBegin Arith.exact d wt = none ∧ y.runBegin Arith.exact d wt = none) ∨
    ∃ x' y', x.runBegin Arith.exact d wt = some x' ∧ y.runBegin Arith.exact d wt = some y' ∧
      C14.EnvEq x' y' := by
  obtain ⟨hn, ht, he, hp⟩ := h
  unfold Env.runBegin Env.schedule
  by_cases hlt : Arith.exact.add x.now d < x.now
  · left
    have hlt' : Arith.exact.add y.now d < y.now := hn ▸ hlt
    exact ⟨by simp only [hlt, if_true], by simp only [hlt', if_true]⟩
  · right
    have hlt' : ¬ Arith.exact.add y.now d < y.now := hn ▸ hlt
    refine ⟨_, _, if_neg hlt, if_neg hlt', hn, rfl, ?_, hp⟩
    show (insort _ _).map C14.noUid = (insort _ _).map C14.noUid
    rw [C14.noUid_eq, insort_map_nu, insort_map_nu]
    rw [C14.noUid_eq] at he
    rw [he, hn]
    rfl

/-- `runBegin` on two worlds that are equal up to uids. -/
theorem uid_runBegin {w w2 : World} (h : SameUpToUids w w2) (d : Int) :
    SameUpToUids (w.runBegin d).1 (w2.runBegin d).1 ∧ (w.runBegin d).2 = (w2.runBegin d).2 := by
  obtain ⟨hsame, hsd, hwm, hq⟩ := (sameUpToUids_iff w w2).mp h
  unfold World.runBegin
  simp only [hsd, hwm, ← hq.1]
  rcases envEq_runBegin hq d (weightOf w.seed w.wmod (w.env.now + d) (-1) terminateAct pTerminate)
    with ⟨h1, h2⟩ | ⟨x', y', h1, h2, hq'⟩
  · rw [h1, h2]; exact ⟨h, rfl⟩
  · rw [h1, h2]
    simp only
    refine ⟨(sameUpToUids_iff _ _).mpr ⟨?_, rfl, rfl, hq'⟩, trivial⟩
    unfold Same at hsame ⊢
    rw [hsame]

/-! ### renumbered uids -/

/-- `w2` is `w` with the uids of its events renumbered by `ρ`. -/
structure Renumbered (ρ : Nat → Nat) (w w2 : World) : Prop where
  rest : ({ w with env := {} } : World) = { w2 with env := {} }
  env : Renum ρ w.env w2.env

theorem renumbered_iff (ρ : Nat → Nat) (w w2 : World) :
    Renumbered ρ w w2 ↔ Same w w2 ∧ w2.seed = w.seed ∧ w2.wmod = w.wmod ∧ Renum ρ w.env w2.env := by
  constructor
  · rintro ⟨hr, he⟩
    have h1 : w2.seed = w.seed := (congrArg World.seed hr).symm
    have h2 : w2.wmod = w.wmod := (congrArg World.wmod hr).symm
    refine ⟨?_, h1, h2, he⟩
    unfold Same
    have : w2 = { ({ w2 with env := {} } : World) with env := w2.env } := rfl
    rw [this, ← hr]
  · rintro ⟨hs, h1, h2, he⟩
    exact ⟨(rest_of_same hs h1 h2).symm, he⟩

/-- **Renumbering the events commutes with a step**: the renumbered world pops the renumbered
event and is the renumbered successor — with the same `ρ`. -/
theorem renum_step {ρ : Nat → Nat} {w w2 w' : World} {e : Event} (g : Good w)
    (h : Renumbered ρ w w2) (hs : w.step = some (e, w')) :
    ∃ w2', w2.step = some (reuid ρ e, w2') ∧ Renumbered ρ w' w2' ∧ Good w' := by
  obtain ⟨hsame, hsd, hwm, hn, ht, he, hp, hk⟩ := (renumbered_iff ρ w w2).mp h
  obtain ⟨x1, hxs⟩ := step_env hs
  obtain ⟨es, hev, _⟩ := Env.step_some.mp hxs
  obtain ⟨x1', hxs', hx1n, hx1e, hx1p, hx1t⟩ := step_cons hev
  rw [hxs] at hxs'
  cases hxs'
  have hyev : w2.env.events = reuid ρ e :: es.map (reuid ρ) := by rw [he, hev]; rfl
  obtain ⟨y1, hys, hy1n, hy1e, hy1p, hy1t⟩ := step_cons hyev
  have hxnu : x1.nextUid = w.env.nextUid := by
    obtain ⟨_, _, hx⟩ := Env.step_some.mp hxs; rw [hx]
  have hynu : y1.nextUid = w2.env.nextUid := by
    obtain ⟨_, _, hy⟩ := Env.step_some.mp hys; rw [hy]
  have hq : Renum ρ x1 y1 :=
    ⟨by rw [hx1n, hy1n]; rfl, by rw [hx1t, hy1t, ht]; rfl, by rw [hx1e, hy1e],
      by rw [hx1p, hy1p, hp], by rw [hxnu, hynu]; exact hk⟩
  obtain ⟨w1', w2', hs1, hs2, hsame', hg', hsd1, hwm1, hsd2, hwm2, hq', _, _⟩ :=
    step_par (cong_renum ρ w.seed w.wmod) hsame g rfl rfl hsd hwm hxs hys rfl rfl rfl hq
  rw [hs] at hs1
  cases hs1
  exact ⟨w2', hs2, (renumbered_iff _ _ _).mpr
    ⟨hsame', hsd2.trans hsd1.symm, hwm2.trans hwm1.symm, hq'⟩, hg'⟩

/-! ### equal up to weights -/

/-- Equal up to the tie-break weights: everything but the queue and the weight key is equal, the
queues hold the same events up to their weights (and the order of ties). -/
structure SameUpToWeights (w w2 : World) : Prop where
  rest : ({ w with env := {}, seed := 0, wmod := 0 } : World) = { w2 with env := {}, seed := 0, wmod := 0 }
  env : WtRel w.env w2.env

theorem sameUpToWeights_iff (w w2 : World) :
    SameUpToWeights w w2 ↔ Same w w2 ∧ WtRel w.env w2.env := by
  constructor
  · rintro ⟨hr, he⟩
    refine ⟨?_, he⟩
    unfold Same
    have : w2 = { ({ w2 with env := {}, seed := 0, wmod := 0 } : World) with
        env := w2.env, seed := w2.seed, wmod := w2.wmod } := rfl
    rw [this, ← hr]
  · rintro ⟨hs, he⟩
    refine ⟨?_, he⟩
    unfold Same at hs
    rw [hs]

/-- **The weights only break ties**: if the event popped by `w` is alone in its (time, priority)
class among the pending events, then a world that differs from `w` only in the tie-break weights
(another seed / `wmod`, hence possibly another order of ties in the queue) pops the same event, and
the successors again differ only in the weights. -/
theorem weights_step {w w2 w' : World} {e : Event} (g : Good w) (hi : C01.Inv w.env)
    (hi2 : C01.Inv w2.env) (h : SameUpToWeights w w2) (hs : w.step = some (e, w'))
    (hsingle : ∀ e' ∈ w.env.events, e'.time = e.time → e'.prio = e.prio → e'.uid = e.uid) :
    ∃ e2 w2', w2.step = some (e2, w2') ∧ nw e2 = nw e ∧ SameUpToWeights w' w2' ∧ Good w' := by
  obtain ⟨hsame, hq0⟩ := (sameUpToWeights_iff w w2).mp h
  obtain ⟨x1, hxs⟩ := step_env hs
  obtain ⟨es, hev, _⟩ := Env.step_some.mp hxs
  obtain ⟨x1', hxs', hx1n, hx1e, hx1p, hx1t⟩ := step_cons hev
  rw [hxs] at hxs'
  cases hxs'
  -- the head is strictly before every other pending event
  have hu : ∀ e' ∈ es, e.time < e'.time ∨ (e.time = e'.time ∧ e'.prio < e.prio) := by
    intro e' he'
    have hsort : SortedEv (e :: es) := hev ▸ hi.sorted
    have h1 := (Event.nlt_iff e e').mp (hsort.head_min e' he')
    rcases h1 with h1 | ⟨ht, h1 | ⟨hp, _⟩⟩
    · exact Or.inl h1
    · exact Or.inr ⟨ht, h1⟩
    · exfalso
      have huid := hsingle e' (by rw [hev]; exact List.mem_cons_of_mem _ he') ht.symm hp.symm
      have hnd := hi.uids
      rw [hev] at hnd
      simp only [List.cons_append, List.map_cons, List.nodup_cons, List.map_append,
        List.mem_append, List.mem_map] at hnd
      exact hnd.1 (Or.inl ⟨e', he', huid⟩)
  obtain ⟨e2, es2, hyev, hnw, htl⟩ := wt_head hq0 hi2.sorted hev hu
  obtain ⟨hn, ht, hnu, he, hp⟩ := hq0
  obtain ⟨y1, hys, hy1n, hy1e, hy1p, hy1t⟩ := step_cons hyev
  have hact' : e2.act = e.act := by have := congrArg Event.act hnw; exact this
  have htime' : e2.time = e.time := by have := congrArg Event.time hnw; exact this
  have hlive' : e2.live = e.live := by
    have : e2.cancelled = e.cancelled := by have := congrArg Event.cancelled hnw; exact this
    simp [Event.live, this]
  have hxnu : x1.nextUid = w.env.nextUid := by
    obtain ⟨_, _, hx⟩ := Env.step_some.mp hxs; rw [hx]
  have hynu : y1.nextUid = w2.env.nextUid := by
    obtain ⟨_, _, hy⟩ := Env.step_some.mp hys; rw [hy]
  have hq : WtRel x1 y1 :=
    ⟨by rw [hx1n, hy1n, htime'], by rw [hx1t, hy1t, ht, hlive', hact'], by rw [hxnu, hynu, hnu],
      by rw [hx1e, hy1e]; exact htl, by rw [hx1p, hy1p]; exact hp⟩
  obtain ⟨w1', w2', hs1, hs2, hsame', hg', _, _, _, _, hq', _, _⟩ :=
    step_par (cong_wtRel w.seed w.wmod w2.seed w2.wmod) hsame g rfl rfl rfl rfl hxs hys htime'
      hact' hlive' hq
  rw [hs] at hs1
  cases hs1
  exact ⟨e2, w2', hs2, hnw, (sameUpToWeights_iff _ _).mpr ⟨hsame', hq'⟩, hg'⟩

end C14W
end SimProc
