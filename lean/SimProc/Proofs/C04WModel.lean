/-
C04 (general serial line) — layer 1: the reachable worlds of a serial line in closed form
(`W P s`), the model functions mirrored as transformers of the varying part `S`, and the
commutation lemmas `f (W P s) = W P (fS s)`.
-/
import SimProc.Proofs.C04SourceSink

set_option linter.unusedSimpArgs false
set_option linter.unusedVariables false

namespace SimProc
namespace C04W
open World C04

/-- Parameters of the scenario. -/
structure Par where
  L : Line
  seed : Nat
  wmod : Nat

/-- The varying part of a reachable world. -/
structure S where
  now : Int := 0
  evs : List Event := []
  term : Bool := true
  uid : Nat := 0
  recs : List Rec := []
  parts : List PartRec := []
  gen : List Nat := []
  del : List Nat := []
  ds : List Dev := []
  started : Bool := true

/-- The reachable worlds of a serial-line scenario. -/
def W (P : Par) (s : S) : World :=
  { env := { now := s.now, events := s.evs, terminated := s.term, nextUid := s.uid }
    seed := P.seed, wmod := P.wmod
    recs := s.recs
    rm := { inited := true }
    devs := s.ds
    parts := s.parts
    assets := (List.range (P.L.n + 1)).map AssetRef.dev
    started := s.started
    generated := s.gen
    delivered := s.del }

/-- The event `schedule_event` creates. -/
def mkEv (P : Par) (uid : Nat) (t asset : Int) (a : Action) (prio : Int) : Event :=
  { uid := uid, time := t, prio := prio, weight := weightOf P.seed P.wmod t asset a.toNat prio,
    asset := asset, act := a.toNat }

/-! ### primitive transformers -/

def dv (s : S) (j : Nat) : Dev := s.ds.getD j default
def setD (s : S) (j : Nat) (d : Dev) : S := { s with ds := s.ds.set j d }
def push (P : Par) (s : S) (t a : Int) (act : Action) (prio : Int) : S :=
  { s with evs := insort (mkEv P s.uid t a act prio) s.evs, uid := s.uid + 1 }
def addR (s : S) (r : Rec) : S := { s with recs := s.recs ++ [r] }

@[simp] theorem W_dev (P : Par) (s : S) (j : Nat) : (W P s).dev j = dv s j := rfl
@[simp] theorem W_now (P : Par) (s : S) : (W P s).now = s.now := rfl
@[simp] theorem W_setDev (P : Par) (s : S) (j : Nat) (d : Dev) :
    (W P s).setDev j d = W P (setD s j d) := rfl
@[simp] theorem W_modDev (P : Par) (s : S) (j : Nat) (f : Dev → Dev) :
    (W P s).modDev j f = W P (setD s j (f (dv s j))) := rfl
@[simp] theorem W_addRec (P : Par) (s : S) (r : Rec) : (W P s).addRec r = W P (addR s r) := rfl
@[simp] theorem W_fuel (P : Par) (s : S) : (W P s).fuel = 2 * s.ds.length + 3 := rfl
@[simp] theorem W_parts (P : Par) (s : S) : (W P s).parts = s.parts := rfl

theorem W_schedLib (P : Par) (s : S) (t asset : Int) (a : Action) (prio : Int) (h : s.now ≤ t) :
    (W P s).schedLib t asset a prio = W P (push P s t asset a prio) := by
  have : ¬ t < s.now := by omega
  simp [schedLib, sched, Env.apply, Env.schedule, W, this, mkEv, Env.newEvent, push]

@[simp] theorem setD_now (s : S) (j : Nat) (d : Dev) : (setD s j d).now = s.now := rfl
@[simp] theorem setD_evs (s : S) (j : Nat) (d : Dev) : (setD s j d).evs = s.evs := rfl
@[simp] theorem setD_term (s : S) (j : Nat) (d : Dev) : (setD s j d).term = s.term := rfl
@[simp] theorem setD_recs (s : S) (j : Nat) (d : Dev) : (setD s j d).recs = s.recs := rfl
@[simp] theorem setD_parts (s : S) (j : Nat) (d : Dev) : (setD s j d).parts = s.parts := rfl
@[simp] theorem setD_len (s : S) (j : Nat) (d : Dev) : (setD s j d).ds.length = s.ds.length := by
  simp [setD]
@[simp] theorem push_now (P : Par) (s : S) (t a : Int) (act : Action) (prio : Int) :
    (push P s t a act prio).now = s.now := rfl
@[simp] theorem push_ds (P : Par) (s : S) (t a : Int) (act : Action) (prio : Int) :
    (push P s t a act prio).ds = s.ds := rfl
@[simp] theorem push_term (P : Par) (s : S) (t a : Int) (act : Action) (prio : Int) :
    (push P s t a act prio).term = s.term := rfl
@[simp] theorem push_recs (P : Par) (s : S) (t a : Int) (act : Action) (prio : Int) :
    (push P s t a act prio).recs = s.recs := rfl
@[simp] theorem push_parts (P : Par) (s : S) (t a : Int) (act : Action) (prio : Int) :
    (push P s t a act prio).parts = s.parts := rfl
@[simp] theorem push_evs (P : Par) (s : S) (t a : Int) (act : Action) (prio : Int) :
    (push P s t a act prio).evs = insort (mkEv P s.uid t a act prio) s.evs := rfl
@[simp] theorem addR_now (s : S) (r : Rec) : (addR s r).now = s.now := rfl
@[simp] theorem addR_ds (s : S) (r : Rec) : (addR s r).ds = s.ds := rfl
@[simp] theorem addR_evs (s : S) (r : Rec) : (addR s r).evs = s.evs := rfl
@[simp] theorem addR_term (s : S) (r : Rec) : (addR s r).term = s.term := rfl
@[simp] theorem addR_parts (s : S) (r : Rec) : (addR s r).parts = s.parts := rfl
@[simp] theorem addR_recs (s : S) (r : Rec) : (addR s r).recs = s.recs ++ [r] := rfl

@[simp] theorem dv_push (P : Par) (s : S) (t a : Int) (act : Action) (prio : Int) (j : Nat) :
    dv (push P s t a act prio) j = dv s j := rfl
@[simp] theorem dv_addR (s : S) (r : Rec) (j : Nat) : dv (addR s r) j = dv s j := rfl

theorem dv_setD_same (s : S) (j : Nat) (d : Dev) (h : j < s.ds.length) : dv (setD s j d) j = d := by
  simp [dv, setD, List.getD_eq_getElem?_getD, h]

theorem dv_setD_ne (s : S) (j i : Nat) (d : Dev) (h : i ≠ j) : dv (setD s j d) i = dv s i := by
  simp [dv, setD, List.getD_eq_getElem?_getD, List.getElem?_set_ne (Ne.symm h)]

theorem dv_setD (s : S) (j i : Nat) (d : Dev) (h : j < s.ds.length) :
    dv (setD s j d) i = if i = j then d else dv s i := by
  split
  · next e => subst e; exact dv_setD_same s i d h
  · next e => exact dv_setD_ne s j i d e

/-! ### static part of the devices -/

/-- The fields of a device that never change during a run of a serial line. -/
structure SV where
  kind : Kind
  aid : Int
  up : List Nat
  down : List Nat
  inited : Bool
  blockInput : Bool
  offset : Int
  recvCbs : List PartCb
  shutDown : Bool
  resReq : Option Req
  reserved : Option Nat
  finCbs : List PartCb
  finSensors : List Nat
  genBatch : Int
  genValue : Int
  genQuality : Int
  cycle : Int
  delay : Int
  cap : Option Nat
  maxParts : Option Int
  collect : Bool

def sview (d : Dev) : SV :=
  ⟨d.kind, d.aid, d.up, d.down, d.inited, d.blockInput, d.offset, d.recvCbs, d.shutDown, d.resReq,
   d.reserved, d.finCbs, d.finSensors, d.genBatch, d.genValue, d.genQuality, d.cycle, d.delay, d.cap,
   d.maxParts, d.collect⟩

/-- Station record of device `j`. -/
def stn (L : Line) (j : Nat) : Station := L.stations.getD j default

def kindOf (L : Line) (j : Nat) : Kind :=
  if j = 0 then .source else if j = L.n then .sink else
  match (stn L j).kind with
  | .handler => .handler
  | .processor => .processor
  | .buffer => .buffer

def isBuf (L : Line) (j : Nat) : Bool := kindOf L j == .buffer

/-- The static view of device `j` of the line. -/
def refSV (L : Line) (j : Nat) : SV :=
  { kind := kindOf L j, aid := (j : Int) + 1
    up := if j = 0 then [] else [j - 1]
    down := if j = L.n then [] else [j + 1]
    inited := true, blockInput := false, offset := 0, recvCbs := [], shutDown := false
    resReq := none, reserved := none, finCbs := [], finSensors := [], genBatch := 0, genValue := 0
    genQuality := 1
    cycle := if isBuf L j then 0 else (stn L j).c
    delay := if isBuf L j then (stn L j).c else 0
    cap := if isBuf L j then (stn L j).cap else none
    maxParts := if j = 0 then L.budget.map Int.ofNat else none
    collect := false }

def StatDev (L : Line) (j : Nat) (d : Dev) : Prop := sview d = refSV L j

/-- All devices of the line have their static fields. -/
def Stat (L : Line) (ds : List Dev) : Prop :=
  ds.length = L.n + 1 ∧ ∀ j, j ≤ L.n → StatDev L j (ds.getD j default)

theorem Stat.dev {L : Line} {s : S} (h : Stat L s.ds) {j : Nat} (hj : j ≤ L.n) :
    sview (dv s j) = refSV L j := h.2 j hj

theorem Stat.lt {L : Line} {s : S} (h : Stat L s.ds) {j : Nat} (hj : j ≤ L.n) : j < s.ds.length := by
  rw [h.1]; omega

theorem Stat.setD {L : Line} {s : S} (h : Stat L s.ds) {j : Nat} {d : Dev}
    (hd : sview d = sview (dv s j)) : Stat L (setD s j d).ds := by
  refine ⟨by rw [setD_len]; exact h.1, fun i hi => ?_⟩
  show StatDev L i (dv (C04W.setD s j d) i)
  by_cases e : i = j
  · subst e
    rw [dv_setD_same _ _ _ (h.lt hi)]
    exact hd.trans (h.dev hi)
  · rw [dv_setD_ne _ _ _ _ e]; exact h.2 i hi

theorem kindOf_cases (L : Line) (j : Nat) :
    kindOf L j = .source ∨ kindOf L j = .handler ∨ kindOf L j = .processor ∨ kindOf L j = .buffer ∨
      kindOf L j = .sink := by
  unfold kindOf
  split
  · simp
  · split
    · simp
    · split <;> simp

/-- Facts about device `j` read off the static view. -/
structure DevFacts (L : Line) (j : Nat) (d : Dev) : Prop where
  kind : d.kind = kindOf L j
  aid : d.aid = (j : Int) + 1
  up : d.up = if j = 0 then [] else [j - 1]
  down : d.down = if j = L.n then [] else [j + 1]
  inited : d.inited = true
  blockInput : d.blockInput = false
  offset : d.offset = 0
  recvCbs : d.recvCbs = []
  shutDown : d.shutDown = false
  resReq : d.resReq = none
  reserved : d.reserved = none
  finCbs : d.finCbs = []
  finSensors : d.finSensors = []
  genBatch : d.genBatch = 0
  genValue : d.genValue = 0
  genQuality : d.genQuality = 1
  cycle : d.cycle = if isBuf L j then 0 else (stn L j).c
  delay : d.delay = if isBuf L j then (stn L j).c else 0
  cap : d.cap = if isBuf L j then (stn L j).cap else none
  maxParts : d.maxParts = if j = 0 then L.budget.map Int.ofNat else none
  collect : d.collect = false

theorem StatDev.facts {L : Line} {j : Nat} {d : Dev} (h : sview d = refSV L j) : DevFacts L j d := by
  simp only [sview, refSV, SV.mk.injEq] at h
  obtain ⟨h1, h2, h3, h4, h5, h6, h7, h8, h9, h10, h11, h12, h13, h14, h15, h16, h17, h18, h19, h20,
    h21⟩ := h
  exact ⟨h1, h2, h3, h4, h5, h6, h7, h8, h9, h10, h11, h12, h13, h14, h15, h16, h17, h18, h19, h20, h21⟩

theorem Stat.facts {L : Line} {s : S} (h : Stat L s.ds) {j : Nat} (hj : j ≤ L.n) :
    DevFacts L j (dv s j) := StatDev.facts (h.dev hj)

theorem W_operational (P : Par) (s : S) (j : Nat) (h : (dv s j).shutDown = false) :
    (W P s).operational j = true := by
  unfold operational
  rw [W_dev]
  split <;> simp [h]

/-! ### scheduling a hand-over attempt, notifications -/

/-- `_schedule_pass_part_downstream(off)`. -/
def passS (P : Par) (s : S) (j : Nat) (off : Int) : S :=
  push P (setD s j { dv s j with waitingDS := false }) (s.now + off) (dv s j).aid (.passPart j) pPassPart

theorem W_schedulePass (P : Par) (s : S) (j : Nat) (off : Int) (hk : (dv s j).kind ≠ .sink)
    (h0 : 0 ≤ s.now) (ho : 0 ≤ off) :
    (W P s).schedulePass j off = W P (passS P s j off) := by
  have h1 : ¬ s.now + off < 0 := by omega
  unfold schedulePass passS
  simp only [W_dev, W_setDev, W_now, setD_now, h1, if_false]
  cases hk' : (dv s j).kind <;> first | exact absurd hk' hk | (rw [W_schedLib _ _ _ _ _ _ (by simp; omega)])

/-- `space_available_downstream()` of a device with one slot or a buffer. -/
def wakeS (P : Par) (s : S) (u : Nat) : S :=
  if (dv s u).waitingDS then passS P s u 0 else s

/-- `_set_waiting_for_part(True)`. -/
def waitS0 (s : S) (j : Nat) : S :=
  if (dv s j).since.isSome then s else setD s j { dv s j with since := some s.now }

/-- The `_set_waiting_for_part(True)` of a notification: a device with one slot starts its idle
clock only when both of its slots are free (repair of finding F13); a buffer always does. -/
def waitS (s : S) (j : Nat) : S :=
  if (dv s j).kind = .buffer ∨ ((dv s j).part.isNone && (dv s j).output.isNone) then waitS0 s j
  else s

def bufRoom (d : Dev) : Bool :=
  match d.cap with
  | none => true
  | some c => decide (d.level < c)

/-- `notify_upstream_of_available_space()`. -/
def notifyS (P : Par) (s : S) (j : Nat) : S :=
  if (dv s j).kind = .buffer ∧ bufRoom (dv s j) = false then s
  else if j = 0 then waitS s j else wakeS P (waitS s j) (j - 1)

theorem W_setWaiting_true (P : Par) (s : S) (j : Nat) (hi : (dv s j).inited = true) :
    (W P s).setWaiting j true false = W P (waitS0 s j) := by
  unfold setWaiting waitS0
  simp only [W_dev, W_now, W_setDev, hi]
  cases h : (dv s j).since <;> simp

theorem W_waitS_buf (P : Par) (s : S) (j : Nat) (hi : (dv s j).inited = true)
    (hk : (dv s j).kind = .buffer) :
    (W P s).setWaiting j true false = W P (waitS s j) := by
  rw [W_setWaiting_true P s j hi]; unfold waitS; rw [if_pos (Or.inl hk)]

theorem W_waitS_slot (P : Par) (s : S) (j : Nat) (hi : (dv s j).inited = true)
    (hk : (dv s j).kind ≠ .buffer) :
    (if (dv s j).part.isNone && (dv s j).output.isNone then (W P s).setWaiting j true false
      else W P s) = W P (waitS s j) := by
  unfold waitS
  by_cases hf : ((dv s j).part.isNone && (dv s j).output.isNone) = true
  · rw [if_pos hf, if_pos (Or.inr hf)]; exact W_setWaiting_true P s j hi
  · rw [if_neg hf, if_neg (by simp [hk, hf])]

theorem W_setWaiting_false (P : Par) (s : S) (j : Nat) :
    (W P s).setWaiting j false false = W P (setD s j { dv s j with since := none }) := by
  unfold setWaiting
  simp

theorem kindOf_ne_sink (L : Line) (u : Nat) (hu : u < L.n) : kindOf L u ≠ .sink := by
  unfold kindOf
  split
  · simp
  · rw [if_neg (by omega)]; split <;> simp

theorem W_spaceAvail (P : Par) (s : S) (f u : Nat) (hS : Stat P.L s.ds) (hu : u < P.L.n)
    (h0 : 0 ≤ s.now) :
    spaceAvail (f + 1) (W P s) u = W P (wakeS P s u) := by
  have hf := hS.facts (Nat.le_of_lt hu)
  have hop := W_operational P s u hf.shutDown
  have hk := hf.kind
  have hns : (dv s u).kind ≠ .sink := by rw [hk]; exact kindOf_ne_sink _ _ hu
  rw [spaceAvail.eq_2]
  simp only [W_dev, hop, Bool.true_and]
  unfold wakeS
  rcases kindOf_cases P.L u with h | h | h | h | h <;> rw [h] at hk <;> simp only [hk] <;>
    first
    | (split
       · exact W_schedulePass P s u 0 hns h0 (Int.le_refl _)
       · rfl)
    | exact absurd hk hns

theorem waitS_stat {L : Line} {s : S} (hS : Stat L s.ds) (j : Nat) : Stat L (waitS s j).ds := by
  unfold waitS waitS0
  split
  · split
    · exact hS
    · exact hS.setD rfl
  · exact hS

@[simp] theorem waitS_now (s : S) (j : Nat) : (waitS s j).now = s.now := by
  unfold waitS waitS0
  split
  · split <;> rfl
  · rfl

theorem dv_waitS_up (s : S) (j : Nat) (h : j < s.ds.length) :
    (dv (waitS s j) j).up = (dv s j).up := by
  unfold waitS waitS0
  split
  · split
    · rfl
    · rw [dv_setD_same _ _ _ h]
  · rfl

theorem W_notify (P : Par) (s : S) (j : Nat) (hS : Stat P.L s.ds) (hj : j ≤ P.L.n)
    (h0 : 0 ≤ s.now) :
    (W P s).notify j = W P (notifyS P s j) := by
  have hf := hS.facts hj
  have hk := hf.kind
  have hup := hf.up
  have hS' := waitS_stat hS j
  have key : (List.foldl (fun w u => spaceAvail (2 * s.ds.length + 1 + 1) w u)
        (W P (waitS s j)) (dv (waitS s j) j).up) =
      W P (if j = 0 then waitS s j else wakeS P (waitS s j) (j - 1)) := by
    rw [dv_waitS_up _ _ (hS.lt hj), hup]
    by_cases e : j = 0
    · simp [e]
    · simp only [e, if_false, List.foldl_cons, List.foldl_nil]
      exact W_spaceAvail P _ _ _ hS' (by omega) (by simpa using h0)
  show notifyUp (2 * s.ds.length + 1 + 1 + 1) (W P s) j = _
  rw [notifyUp.eq_2]
  unfold notifyS
  simp only [W_dev]
  have hslot : (dv s j).kind ≠ .buffer →
      (if (dv s j).part.isNone && (dv s j).output.isNone then (W P s).setWaiting j true false
        else W P s) = W P (waitS s j) := W_waitS_slot P s j hf.inited
  have hbuf : (dv s j).kind = .buffer → (W P s).setWaiting j true false = W P (waitS s j) :=
    W_waitS_buf P s j hf.inited
  by_cases hb : (dv s j).kind = .buffer
  case neg =>
    have hs := hslot hb
    by_cases hfree : ((dv s j).part.isNone && (dv s j).output.isNone) = true
    · rw [if_pos hfree] at hs
      rcases kindOf_cases P.L j with h | h | h | h | h <;> rw [h] at hk <;>
        first
        | exact absurd hk hb
        | (simp only [hk, hfree, if_true]
           simp only [hs, W_dev, key, reduceCtorEq, false_and, if_false, true_and])
    · rw [if_neg hfree] at hs
      rcases kindOf_cases P.L j with h | h | h | h | h <;> rw [h] at hk <;>
        first
        | exact absurd hk hb
        | (simp only [hk, hfree, if_false]
           simp only [hs, W_dev, key, reduceCtorEq, false_and, if_false, true_and])
  -- buffer
  simp only [hb]
  simp only [hbuf hb, W_dev, key, reduceCtorEq, false_and, if_false, true_and]
  unfold bufRoom
  cases hc : (dv s j).cap with
  | none => simp
  | some c =>
    by_cases hl : (dv s j).level < c <;> simp [hl]


/-! ### end of a cycle -/

theorem setD_self (s : S) (j : Nat) : setD s j (dv s j) = s := by
  cases s with
  | mk now evs term uid recs parts gen del ds started =>
    simp only [setD, dv, S.mk.injEq, true_and, and_true]
    apply List.ext_getElem?
    intro i
    simp only [List.getElem?_set, List.getD_eq_getElem?_getD]
    split
    · next h => subst h; split
                · next h2 => simp [List.getElem?_eq_getElem h2]
                · next h2 => simp [List.getElem?_eq_none (Nat.le_of_not_lt h2)]
    · rfl

theorem setD_setD (s : S) (j : Nat) (d d' : Dev) : setD (setD s j d) j d' = setD s j d' := by
  simp [setD, List.set_set]

/-- `PartHandler._finish_cycle`: the part moves to the output slot, a hand-over is requested. -/
def finishHS (P : Par) (s : S) (j p : Nat) : S :=
  passS P (setD s j { dv s j with output := some p, part := none }) j 0

theorem W_finishCycleHandler (P : Par) (s : S) (j p : Nat) (hsd : (dv s j).shutDown = false)
    (hk : (dv s j).kind ≠ .sink) (hp : (dv s j).part = some p) (ho : (dv s j).output = none)
    (h0 : 0 ≤ s.now) (hj : j < s.ds.length) :
    (W P s).finishCycleHandler j = W P (finishHS P s j p) := by
  unfold finishCycleHandler finishHS
  simp only [W_operational P s j hsd, W_dev, hp, ho, W_setDev]
  simp only [Bool.not_true, Bool.false_eq_true, if_false, Option.isSome_none]
  exact W_schedulePass P _ j 0 (by rw [dv_setD_same _ _ _ hj]; exact hk) h0 (Int.le_refl _)

theorem W_finishCycle_handler (P : Par) (s : S) (j p : Nat) (hsd : (dv s j).shutDown = false)
    (hk : (dv s j).kind = .handler) (hp : (dv s j).part = some p) (ho : (dv s j).output = none)
    (h0 : 0 ≤ s.now) (hj : j < s.ds.length) :
    (W P s).finishCycle j = W P (finishHS P s j p) := by
  unfold finishCycle
  simp only [W_dev, hk]
  exact W_finishCycleHandler P s j p hsd (by rw [hk]; simp) hp ho h0 hj


theorem dv_passS_same (P : Par) (s : S) (j : Nat) (off : Int) (hj : j < s.ds.length) :
    dv (passS P s j off) j = { dv s j with waitingDS := false } := by
  unfold passS
  rw [dv_push, dv_setD_same _ _ _ hj]

theorem dv_passS_ne (P : Par) (s : S) (j i : Nat) (off : Int) (h : i ≠ j) :
    dv (passS P s j off) i = dv s i := by
  unfold passS
  rw [dv_push, dv_setD_ne _ _ _ _ h]

@[simp] theorem passS_now (P : Par) (s : S) (j : Nat) (off : Int) : (passS P s j off).now = s.now := rfl
@[simp] theorem passS_parts (P : Par) (s : S) (j : Nat) (off : Int) : (passS P s j off).parts = s.parts := rfl
@[simp] theorem passS_recs (P : Par) (s : S) (j : Nat) (off : Int) : (passS P s j off).recs = s.recs := rfl
@[simp] theorem passS_len (P : Par) (s : S) (j : Nat) (off : Int) :
    (passS P s j off).ds.length = s.ds.length := by simp [passS]

theorem W_partValue (P : Par) (s : S) (p : Nat) (h : SS.PartsOK s.parts) : (W P s).partValue p = 0 :=
  SS.partValue_ok _ h p

/-- `PartProcessor._finish_cycle`. -/
def finishPS (P : Par) (s : S) (j p : Nat) : S :=
  let s1 := finishHS P s j p
  let d := dv s1 j
  let s2 := setD s1 j { d with timeInUse := d.timeInUse + (s.now - d.lastUseStart.getD s.now),
                               lastUseStart := none }
  addR s2 (.produced j s.now p (s.parts.getD p default).quality 0)

theorem W_finishCycle_processor (P : Par) (s : S) (j p : Nat) (hsd : (dv s j).shutDown = false)
    (hk : (dv s j).kind = .processor) (hp : (dv s j).part = some p) (ho : (dv s j).output = none)
    (hr : (dv s j).reserved = none) (hc : (dv s j).finCbs = []) (hfs : (dv s j).finSensors = [])
    (hok : SS.PartsOK s.parts)
    (h0 : 0 ≤ s.now) (hj : j < s.ds.length) :
    (W P s).finishCycle j = W P (finishPS P s j p) := by
  have hpv : ∀ s' : S, s'.parts = s.parts → (W P s').partValue p = 0 := fun s' h =>
    W_partValue P s' p (by rw [h]; exact hok)
  unfold finishCycle
  simp only [W_dev, hk]
  rw [W_finishCycleHandler P s j p hsd (by rw [hk]; simp) hp ho h0 hj]
  simp only [W_dev, W_setDev, W_now, finishPS, finishHS, dv_setD_same, dv_passS_same, setD_len, passS_len,
    hj, hr, hc, hfs,
    Option.isSome_none, Bool.false_eq_true, if_false,
    List.foldl_nil, W_addRec, W_now, passS_now, setD_now, passS_parts, setD_parts, World.part, W_parts]
  rw [hpv _ (by simp)]


/-- `Sink._finish_cycle`: the slot is free again, the upstream device is told so. -/
def finishKS (P : Par) (s : S) (j : Nat) : S :=
  notifyS P (setD s j { dv s j with output := none, part := none }) j

theorem W_finishCycle_sink (P : Par) (s : S) (j p : Nat) (hS : Stat P.L s.ds) (hjn : j = P.L.n)
    (hk : (dv s j).kind = .sink) (hp : (dv s j).part = some p) (ho : (dv s j).output = none)
    (h0 : 0 ≤ s.now) :
    (W P s).finishCycle j = W P (finishKS P s j) := by
  have hj : j < s.ds.length := hS.lt (by omega)
  have hsd := (hS.facts (by omega : j ≤ P.L.n)).shutDown
  unfold finishCycle
  simp only [W_dev, hk]
  unfold finishCycleHandler finishKS schedulePass
  simp only [W_dev, W_operational P s j hsd, hp, ho, W_setDev, W_modDev, dv_setD_same, hj,
    setD_setD, Bool.not_true, Bool.false_eq_true, if_false, Option.isSome_none, hk]
  exact W_notify P _ j (hS.setD (by simp [sview, hk])) (by omega) h0

/-- `Source._finish_cycle`: the next part is created and a hand-over is requested. -/
def genS (P : Par) (s : S) : S :=
  passS P { setD s 0 { dv s 0 with output := some s.parts.length } with
            parts := SS.histAdd (s.parts ++ [{ quality := 1, value := 0 }]) s.parts.length 0
            gen := s.gen ++ [s.parts.length] } 0 0

theorem W_finishCycle_source (P : Par) (s : S) (hk : (dv s 0).kind = .source)
    (ho : (dv s 0).output = none) (hb : (dv s 0).genBatch = 0) (hq : (dv s 0).genQuality = 1)
    (hv : (dv s 0).genValue = 0) (hok : SS.PartsOK s.parts) (h0 : 0 ≤ s.now) (hj : 0 < s.ds.length) :
    (W P s).finishCycle 0 = W P (genS P s) := by
  have e4 : ∀ (w : World) (p : Nat), SS.PartsOK w.parts →
      w.addHist p 0 = { w with parts := SS.histAdd w.parts p 0 } := fun w p h => SS.addHist_ok w h p 0
  have hok' := SS.PartsOK_append hok 1
  unfold finishCycle
  simp only [W_dev, hk, ho, Option.isNone_none, if_true, genPart, hb, hq, hv, newPart]
  simp only [BEq.rfl, if_true]
  rw [e4 _ _ (by exact hok')]
  have : ∀ s' : S, (dv s' 0).kind = .source → s'.now = s.now → (W P s').schedulePass 0 0 = W P (passS P s' 0 0) :=
    fun s' h1 h2 => W_schedulePass P s' 0 0 (by rw [h1]; simp) (by omega) (Int.le_refl _)
  unfold genS
  rw [← this]
  · rfl
  · show (dv (setD s 0 _) 0).kind = _
    rw [dv_setD_same _ _ _ hj]; exact hk
  · rfl


theorem dev_offset_self (d : Dev) (h : d.offset = 0) : { d with offset := 0 } = d := by
  cases d; simp at h; simp [h]

/-- End of the cycle of a handler, processor or sink. -/
def finishS (P : Par) (s : S) (j p : Nat) : S :=
  match (dv s j).kind with
  | .processor => finishPS P s j p
  | .sink => finishKS P s j
  | _ => finishHS P s j p

/-- `_schedule_finish_cycle()` of a handler, processor or sink holding part `p`. -/
def schedFinS (P : Par) (s : S) (j p : Nat) : S :=
  if (dv s j).cycle ≤ 0 then finishS P s j p
  else push P s (s.now + (dv s j).cycle) (dv s j).aid (.finishCycle j) pFinish

theorem kindOf_mid (L : Line) (j : Nat) (h0 : 0 < j) (hn : j < L.n) :
    kindOf L j = .handler ∨ kindOf L j = .processor ∨ kindOf L j = .buffer := by
  unfold kindOf
  rw [if_neg (by omega), if_neg (by omega)]
  split <;> simp

theorem kindOf_zero (L : Line) : kindOf L 0 = .source := by simp [kindOf]
theorem kindOf_n (L : Line) : kindOf L L.n = .sink := by
  unfold kindOf
  rw [if_neg (by unfold Line.n; omega), if_pos rfl]

theorem kindOf_source_iff (L : Line) (j : Nat) (hj : j ≤ L.n) : kindOf L j = .source ↔ j = 0 := by
  constructor
  · intro h
    by_cases e : j = 0
    · exact e
    · by_cases e2 : j = L.n
      · subst e2; rw [kindOf_n] at h; cases h
      · rcases kindOf_mid L j (by omega) (by omega) with h' | h' | h' <;> rw [h'] at h <;> cases h
  · intro e; subst e; exact kindOf_zero L

theorem kindOf_sink_iff (L : Line) (j : Nat) (hj : j ≤ L.n) : kindOf L j = .sink ↔ j = L.n := by
  constructor
  · intro h
    by_cases e : j = L.n
    · exact e
    · exact absurd h (kindOf_ne_sink L j (by omega))
  · intro e; subst e; exact kindOf_n L

theorem W_finishCycle (P : Par) (s : S) (j p : Nat) (hS : Stat P.L s.ds) (hj : j ≤ P.L.n)
    (hns : (dv s j).kind ≠ .source) (hnb : (dv s j).kind ≠ .buffer)
    (hp : (dv s j).part = some p) (ho : (dv s j).output = none) (hok : SS.PartsOK s.parts)
    (h0 : 0 ≤ s.now) :
    (W P s).finishCycle j = W P (finishS P s j p) := by
  have hf := hS.facts hj
  have hlt := hS.lt hj
  unfold finishS
  rcases kindOf_cases P.L j with h | h | h | h | h <;> rw [← hf.kind] at h
  · exact absurd h hns
  · rw [h]; exact W_finishCycle_handler P s j p hf.shutDown h hp ho h0 hlt
  · rw [h]; exact W_finishCycle_processor P s j p hf.shutDown h hp ho hf.reserved hf.finCbs hf.finSensors
      hok h0 hlt
  · exact absurd h hnb
  · rw [h]
    have : j = P.L.n := (kindOf_sink_iff P.L j hj).1 (by rw [← hf.kind]; exact h)
    exact W_finishCycle_sink P s j p hS this h hp ho h0

theorem W_scheduleFinish (P : Par) (s : S) (j p : Nat) (hS : Stat P.L s.ds) (hj : j ≤ P.L.n)
    (hns : (dv s j).kind ≠ .source) (hnb : (dv s j).kind ≠ .buffer)
    (hp : (dv s j).part = some p) (ho : (dv s j).output = none) (hok : SS.PartsOK s.parts)
    (h0 : 0 ≤ s.now) (hc : 0 ≤ (dv s j).cycle) :
    (W P s).scheduleFinish j = W P (schedFinS P s j p) := by
  have hf := hS.facts hj
  have hct : (W P s).cycleTime j = (dv s j).cycle := by
    unfold cycleTime
    rw [W_dev]
    split
    · next h => exact absurd h hnb
    · rfl
  have hneg : (if (dv s j).cycle < 0 then 0 else (dv s j).cycle) = (dv s j).cycle := if_neg (by omega)
  unfold scheduleFinish schedFinS
  simp only [hct, W_dev, hf.offset, Int.add_zero, W_setDev, dev_offset_self _ hf.offset, setD_self,
    hneg, W_now]
  split
  · exact W_finishCycle P s j p hS hj hns hnb hp ho hok h0
  · exact W_schedLib P s _ _ _ _ (by omega)


/-! ### accepting a part -/

def setParts (s : S) (ps : List PartRec) : S := { s with parts := ps }
def addDel (s : S) (p : Nat) : S := { s with del := s.del ++ [p] }

@[simp] theorem setParts_now (s : S) (ps : List PartRec) : (setParts s ps).now = s.now := rfl
@[simp] theorem setParts_ds (s : S) (ps : List PartRec) : (setParts s ps).ds = s.ds := rfl
@[simp] theorem setParts_parts (s : S) (ps : List PartRec) : (setParts s ps).parts = ps := rfl
@[simp] theorem setParts_evs (s : S) (ps : List PartRec) : (setParts s ps).evs = s.evs := rfl
@[simp] theorem setParts_recs (s : S) (ps : List PartRec) : (setParts s ps).recs = s.recs := rfl
@[simp] theorem setParts_term (s : S) (ps : List PartRec) : (setParts s ps).term = s.term := rfl
@[simp] theorem dv_setParts (s : S) (ps : List PartRec) (j : Nat) : dv (setParts s ps) j = dv s j := rfl
@[simp] theorem addDel_now (s : S) (p : Nat) : (addDel s p).now = s.now := rfl
@[simp] theorem addDel_ds (s : S) (p : Nat) : (addDel s p).ds = s.ds := rfl
@[simp] theorem addDel_parts (s : S) (p : Nat) : (addDel s p).parts = s.parts := rfl
@[simp] theorem addDel_evs (s : S) (p : Nat) : (addDel s p).evs = s.evs := rfl
@[simp] theorem addDel_recs (s : S) (p : Nat) : (addDel s p).recs = s.recs := rfl
@[simp] theorem addDel_term (s : S) (p : Nat) : (addDel s p).term = s.term := rfl
@[simp] theorem dv_addDel (s : S) (p : Nat) (j : Nat) : dv (addDel s p) j = dv s j := rfl

/-- The part `p` is put into the input slot of device `i` (`_accept_part` up to the call of
`_on_received_new_part`). -/
def takeS (s : S) (i p : Nat) : S :=
  let s2 := setD s i { dv s i with part := some p }
  let s3 := setParts s2 (SS.histAdd s.parts p i)
  setD s3 i { dv s3 i with since := none }

/-- Quality of part `p` as logged when device `i` receives it. -/
def qual (s : S) (p i : Nat) : Int := ((SS.histAdd s.parts p i).getD p default).quality

theorem W_setParts (P : Par) (s : S) (ps : List PartRec) :
    ({ W P s with parts := ps } : World) = W P (setParts s ps) := rfl

theorem W_take (P : Par) (s : S) (i p : Nat) (hok : SS.PartsOK s.parts) :
    (((W P s).modDev i (fun d => { d with part := some p })).addHist p i).setWaiting i false false =
      W P (takeS s i p) := by
  rw [W_modDev, SS.addHist_ok _ (by exact hok), W_setParts]
  exact W_setWaiting_false P _ i

theorem takeS_ok {s : S} (hok : SS.PartsOK s.parts) (i p : Nat) : SS.PartsOK (takeS s i p).parts :=
  SS.PartsOK_histAdd hok p i

theorem dv_takeS_same (s : S) (i p : Nat) (h : i < s.ds.length) :
    dv (takeS s i p) i = { dv s i with part := some p, since := none } := by
  simp only [takeS, dv_setD_same, dv_setParts, setParts_ds, setD_len, h]

theorem dv_takeS_ne (s : S) (i p j : Nat) (h : j ≠ i) : dv (takeS s i p) j = dv s j := by
  simp only [takeS, dv_setD_ne _ _ _ _ h, dv_setParts]

@[simp] theorem takeS_now (s : S) (i p : Nat) : (takeS s i p).now = s.now := rfl
@[simp] theorem takeS_len (s : S) (i p : Nat) : (takeS s i p).ds.length = s.ds.length := by
  simp [takeS]
@[simp] theorem takeS_parts (s : S) (i p : Nat) : (takeS s i p).parts = SS.histAdd s.parts p i := rfl
@[simp] theorem takeS_evs (s : S) (i p : Nat) : (takeS s i p).evs = s.evs := rfl
@[simp] theorem takeS_recs (s : S) (i p : Nat) : (takeS s i p).recs = s.recs := rfl
@[simp] theorem takeS_term (s : S) (i p : Nat) : (takeS s i p).term = s.term := rfl

theorem takeS_stat {L : Line} {s : S} (hS : Stat L s.ds) (i p : Nat) : Stat L (takeS s i p).ds := by
  have h1 : Stat L (setD s i { dv s i with part := some p }).ds := hS.setD rfl
  have h2 : Stat L (setParts (setD s i { dv s i with part := some p }) (SS.histAdd s.parts p i)).ds := h1
  exact h2.setD rfl

/-- handler -/
def acceptHS (P : Par) (s : S) (i p : Nat) : S :=
  schedFinS P (addR (takeS s i p) (.received i s.now p (qual s p i) 0)) i p

theorem W_accept_handler (P : Par) (s : S) (i p : Nat) (hS : Stat P.L s.ds) (hi : i ≤ P.L.n)
    (hk : (dv s i).kind = .handler) (ho : (dv s i).output = none) (hok : SS.PartsOK s.parts)
    (h0 : 0 ≤ s.now) (hc : 0 ≤ (dv s i).cycle) :
    (W P s).acceptPart i p = W P (acceptHS P s i p) := by
  have hf := hS.facts hi
  have hlt := hS.lt hi
  have hok' := takeS_ok hok i p
  have hpv : ∀ s' : S, s'.parts = (takeS s i p).parts → (W P s').partValue p = 0 := fun s' h =>
    W_partValue P s' p (by rw [h]; exact hok')
  unfold acceptPart
  simp only [W_dev, hk]
  simp only [show ((Kind.handler == Kind.sink) = false) from rfl, Bool.false_eq_true, if_false]
  rw [W_take P s i p hok]
  unfold onReceived tryMove acceptHS
  simp only [W_dev, dv_takeS_same, hlt, hk, W_addRec, dv_addR, W_now, takeS_now, hf.recvCbs, List.foldl_nil,
    ho, Option.isNone_none, if_true, W_operational _ _ _ hf.shutDown, Bool.true_and,
    Option.isSome_some, World.part, W_parts, takeS_parts, hpv _ rfl, qual]
  have e1 : (dv (takeS s i p) i).kind ≠ .source := by simp [dv_takeS_same, hlt, hk]
  have e2 : (dv (takeS s i p) i).kind ≠ .buffer := by simp [dv_takeS_same, hlt, hk]
  have e3 : (dv (takeS s i p) i).part = some p := by simp [dv_takeS_same, hlt]
  have e4 : (dv (takeS s i p) i).output = none := by simp [dv_takeS_same, hlt, ho]
  have e5 : 0 ≤ (dv (takeS s i p) i).cycle := by simpa [dv_takeS_same, hlt] using hc
  have := W_scheduleFinish P (addR (takeS s i p) (.received i s.now p (qual s p i) 0)) i p
    (takeS_stat hS i p) hi e1 e2 e3 e4 hok' h0 e5
  have hop := W_operational P (addR (takeS s i p) (.received i s.now p (qual s p i) 0)) i
    ((takeS_stat hS i p).facts hi).shutDown
  unfold qual at hop this
  simp only [hop, Bool.true_and, if_true]
  exact this

/-- processor -/
def acceptPS (P : Par) (s : S) (i p : Nat) : S :=
  let s1 := addR (takeS s i p) (.received i s.now p (qual s p i) 0)
  schedFinS P (setD s1 i { dv s1 i with lastUseStart := some s.now }) i p

theorem W_accept_processor (P : Par) (s : S) (i p : Nat) (hS : Stat P.L s.ds) (hi : i ≤ P.L.n)
    (hk : (dv s i).kind = .processor) (ho : (dv s i).output = none) (hok : SS.PartsOK s.parts)
    (h0 : 0 ≤ s.now) (hc : 0 ≤ (dv s i).cycle) :
    (W P s).acceptPart i p = W P (acceptPS P s i p) := by
  have hf := hS.facts hi
  have hlt := hS.lt hi
  have hok' := takeS_ok hok i p
  have hpv : ∀ s' : S, s'.parts = (takeS s i p).parts → (W P s').partValue p = 0 := fun s' h =>
    W_partValue P s' p (by rw [h]; exact hok')
  have hop := W_operational P (addR (takeS s i p) (.received i s.now p (qual s p i) 0)) i
    ((takeS_stat hS i p).facts hi).shutDown
  unfold qual at hop
  unfold acceptPart
  simp only [W_dev, hk]
  simp only [show ((Kind.processor == Kind.sink) = false) from rfl, Bool.false_eq_true, if_false]
  rw [W_take P s i p hok]
  unfold onReceived tryMove acceptPS
  simp only [W_dev, dv_takeS_same, hlt, hk, W_addRec, dv_addR, W_now, takeS_now, hf.recvCbs, List.foldl_nil,
    ho, Option.isNone_none, if_true, Bool.true_and, W_setDev, addR_now,
    Option.isSome_some, World.part, W_parts, takeS_parts, hpv _ rfl, hop]
  have hS1 : ∀ r, Stat P.L (addR (takeS s i p) r).ds := fun r => takeS_stat hS i p
  refine W_scheduleFinish P _ i p ((hS1 _).setD ?_) hi ?_ ?_ ?_ ?_ hok' h0 ?_
  · simp [sview, dv_takeS_same, hlt, hk, hf.recvCbs]
  · simp [dv_setD_same, hlt]
  · simp [dv_setD_same, hlt]
  · simp [dv_setD_same, hlt]
  · simp [dv_setD_same, hlt]
  · simpa [dv_setD_same, hlt] using hc

@[simp] theorem W_partValue_setD (P : Par) (s : S) (j : Nat) (d : Dev) (p : Nat) :
    (W P (setD s j d)).partValue p = (W P s).partValue p := rfl
@[simp] theorem W_partValue_addR (P : Par) (s : S) (r : Rec) (p : Nat) :
    (W P (addR s r)).partValue p = (W P s).partValue p := rfl
@[simp] theorem W_leafCount_setD (P : Par) (s : S) (j : Nat) (d : Dev) (p : Nat) :
    (W P (setD s j d)).leafCount p = (W P s).leafCount p := rfl
@[simp] theorem W_leafCount_addR (P : Par) (s : S) (r : Rec) (p : Nat) :
    (W P (addR s r)).leafCount p = (W P s).leafCount p := rfl

theorem W_addDel (P : Par) (s : S) (p : Nat) :
    ({ W P s with delivered := (W P s).delivered ++ [p] } : World) = W P (addDel s p) := rfl

/-- sink -/
def acceptKS (P : Par) (s : S) (i p : Nat) : S :=
  let s0 := takeS (addDel s p) i p
  let d := dv s0 i
  let s1 := setD s0 i { d with recvCount := d.recvCount + ((1 : Nat) : Int), recvValue := d.recvValue + 0,
                               val := d.val.addValue lblCollected s.now 0,
                               collected := if d.collect then d.collected ++ [p] else d.collected }
  schedFinS P (addR s1 (.received i s.now p (qual s p i) 0)) i p

theorem W_accept_sink (P : Par) (s : S) (i p : Nat) (hS : Stat P.L s.ds) (hi : i ≤ P.L.n)
    (hk : (dv s i).kind = .sink) (ho : (dv s i).output = none) (hok : SS.PartsOK s.parts)
    (h0 : 0 ≤ s.now) (hc : 0 ≤ (dv s i).cycle) :
    (W P s).acceptPart i p = W P (acceptKS P s i p) := by
  have hf := hS.facts hi
  have hlt := hS.lt hi
  have hok' := takeS_ok hok i p
  have hpv : ∀ s' : S, s'.parts = (takeS s i p).parts → (W P s').partValue p = 0 := fun s' h =>
    W_partValue P s' p (by rw [h]; exact hok')
  have hlc : ∀ s' : S, s'.parts = (takeS s i p).parts → (W P s').leafCount p = 1 := fun s' h =>
    SS.leafCount_ok _ (by show SS.PartsOK s'.parts; rw [h]; exact hok') p
  have hS0 : Stat P.L (takeS (addDel s p) i p).ds := takeS_stat (s := addDel s p) hS i p
  unfold acceptPart
  simp only [W_dev, hk]
  simp only [BEq.rfl, if_true, SS.leavesOf_ok _ (show SS.PartsOK (W P s).parts from hok)]
  rw [W_addDel, W_take P _ i p (by exact hok)]
  have hd0 : dv (takeS (addDel s p) i p) i = { dv s i with part := some p, since := none } :=
    dv_takeS_same (addDel s p) i p hlt
  have hpv0 := hpv (takeS (addDel s p) i p) rfl
  have hlc0 := hlc (takeS (addDel s p) i p) rfl
  unfold onReceived tryMove acceptKS
  simp only [W_dev, hd0, hlt, hk, W_addRec, dv_addR, W_now, takeS_now, hf.recvCbs, List.foldl_nil,
    ho, Option.isNone_none, if_true, Bool.true_and, W_setDev, addR_now, addDel_ds, addDel_now, dv_addDel,
    dv_setD_same, takeS_len, setD_len, setD_now, W_partValue_setD, W_partValue_addR, hpv0, hlc0,
    Option.isSome_some, World.part, W_parts, takeS_parts, addDel_parts, setD_parts]
  have hS1 : ∀ d, sview d = sview (dv (takeS (addDel s p) i p) i) →
      ∀ r, Stat P.L (addR (setD (takeS (addDel s p) i p) i d) r).ds := fun d hd r => hS0.setD hd
  have hop : ∀ s', Stat P.L s'.ds → (W P s').operational i = true := fun s' h =>
    W_operational P s' i (h.facts hi).shutDown
  rw [hop _ (hS1 _ (by simp [sview, hd0, hk, hf.recvCbs]) _)]
  simp only [Bool.true_and, if_true]
  refine W_scheduleFinish P _ i p (hS1 _ ?_ _) hi ?_ ?_ ?_ ?_ hok' h0 ?_
  · simp [sview, hd0, hk, hf.recvCbs]
  · simp [dv_setD_same, hlt]
  · simp [dv_setD_same, hlt]
  · simp [dv_setD_same, hlt]
  · simp [dv_setD_same, hlt]
  · simpa [dv_setD_same, hlt] using hc

theorem setD_addR (s : S) (r : Rec) (i : Nat) (d : Dev) : setD (addR s r) i d = addR (setD s i d) r := rfl
theorem setD_setParts (s : S) (ps : List PartRec) (i : Nat) (d : Dev) :
    setD (setParts s ps) i d = setParts (setD s i d) ps := rfl

theorem wakeS_stat {P : Par} {s : S} (hS : Stat P.L s.ds) (u : Nat) : Stat P.L (wakeS P s u).ds := by
  unfold wakeS
  split
  · unfold passS; exact hS.setD rfl
  · exact hS

@[simp] theorem wakeS_now (P : Par) (s : S) (u : Nat) : (wakeS P s u).now = s.now := by
  unfold wakeS; split <;> rfl

theorem notifyS_stat {P : Par} {s : S} (hS : Stat P.L s.ds) (j : Nat) : Stat P.L (notifyS P s j).ds := by
  unfold notifyS
  split
  · exact hS
  · split
    · exact waitS_stat hS j
    · exact wakeS_stat (waitS_stat hS j) _

@[simp] theorem notifyS_now (P : Par) (s : S) (j : Nat) : (notifyS P s j).now = s.now := by
  unfold notifyS
  split
  · rfl
  · split <;> simp

/-- `Buffer._try_move_part_to_output`: the part joins the queue. -/
def moveBS (P : Par) (s : S) (i p : Nat) : S :=
  let d := dv s i
  let s1 := notifyS P (setD s i { d with buf := d.buf ++ [(s.now, p)], part := none }) i
  if (dv s1 i).buf.length == 1 then passS P s1 i d.delay else s1

theorem W_tryMove_buffer (P : Par) (s : S) (i p : Nat) (hS : Stat P.L s.ds) (hi : i ≤ P.L.n)
    (hk : (dv s i).kind = .buffer) (hp : (dv s i).part = some p) (h0 : 0 ≤ s.now)
    (hc : 0 ≤ (dv s i).delay) :
    (W P s).tryMove i = W P (moveBS P s i p) := by
  unfold tryMove moveBS
  simp only [W_dev, hk, hp, W_setDev, W_now]
  rw [W_notify P _ i (hS.setD (by simp [sview, hk])) hi h0]
  generalize hX : notifyS P _ i = X
  have hSX : Stat P.L X.ds := by
    rw [← hX]; exact notifyS_stat (hS.setD (by simp [sview, hk])) i
  have hnX : X.now = s.now := by rw [← hX]; simp
  simp only [W_dev]
  by_cases hb : ((dv X i).buf.length == 1) = true
  · simp only [hb, if_true]
    refine W_schedulePass P _ i _ ?_ ?_ hc
    · rw [(hSX.facts hi).kind, ← (hS.facts hi).kind, hk]; simp
    · rw [hnX]; exact h0
  · simp only [hb, if_false, Bool.false_eq_true]

/-- buffer -/
def acceptBS (P : Par) (s : S) (i p : Nat) : S :=
  let s0 := takeS s i p
  let d := dv s0 i
  let s1 := setD s0 i { d with level := d.level + 1 }
  moveBS P (addR (addR s1 (.level i s.now (d.level + 1))) (.received i s.now p (qual s p i) 0)) i p

theorem W_accept_buffer (P : Par) (s : S) (i p : Nat) (hS : Stat P.L s.ds) (hi : i ≤ P.L.n)
    (hk : (dv s i).kind = .buffer) (ho : (dv s i).output = none) (hok : SS.PartsOK s.parts)
    (h0 : 0 ≤ s.now) (hc : 0 ≤ (dv s i).delay) :
    (W P s).acceptPart i p = W P (acceptBS P s i p) := by
  have hf := hS.facts hi
  have hlt := hS.lt hi
  have hok' := takeS_ok hok i p
  have hd0 : dv (takeS s i p) i = { dv s i with part := some p, since := none } :=
    dv_takeS_same s i p hlt
  have hpv0 : (W P (takeS s i p)).partValue p = 0 := W_partValue P _ p hok'
  have hlc0 : (W P (takeS s i p)).leafCount p = 1 := SS.leafCount_ok _ (by exact hok') p
  have hS1 : ∀ d, sview d = sview (dv (takeS s i p) i) →
      ∀ r r', Stat P.L (addR (addR (setD (takeS s i p) i d) r) r').ds :=
    fun d hd r r' => (takeS_stat hS i p).setD hd
  unfold acceptPart
  simp only [W_dev, hk]
  simp only [show ((Kind.buffer == Kind.sink) = false) from rfl, Bool.false_eq_true, if_false]
  rw [W_take P s i p hok]
  unfold onReceived acceptBS qual
  simp only [W_dev, hd0, hlt, hk, W_addRec, dv_addR, W_now, takeS_now, hf.recvCbs, List.foldl_nil,
    ho, Option.isNone_none, if_true, Bool.true_and, W_setDev, addR_now,
    dv_setD_same, takeS_len, setD_len, setD_now, W_partValue_setD, W_partValue_addR, hpv0, hlc0,
    W_leafCount_setD, W_leafCount_addR, addR_ds, addR_parts,
    Option.isSome_some, World.part, W_parts, takeS_parts, setD_parts]
  refine W_tryMove_buffer P _ i p (hS1 _ ?_ _ _) hi ?_ ?_ h0 ?_
  · simp [sview, hd0, hk, hf.recvCbs]
  · simp [dv_setD_same, hlt]
  · simp [dv_setD_same, hlt]
  · simpa [dv_setD_same, hlt] using hc


/-! ### well-formed states -/

structure Good (P : Par) (s : S) : Prop where
  stat : Stat P.L s.ds
  pok : SS.PartsOK s.parts
  now0 : 0 ≤ s.now

theorem Good.setD {P : Par} {s : S} (h : Good P s) {j : Nat} {d : Dev} (hd : sview d = sview (dv s j)) :
    Good P (setD s j d) := ⟨h.stat.setD hd, h.pok, h.now0⟩

theorem Good.push {P : Par} {s : S} (h : Good P s) (t a : Int) (act : Action) (prio : Int) :
    Good P (push P s t a act prio) := ⟨h.stat, h.pok, h.now0⟩

theorem Good.addR {P : Par} {s : S} (h : Good P s) (r : Rec) : Good P (addR s r) :=
  ⟨h.stat, h.pok, h.now0⟩

theorem Good.passS {P : Par} {s : S} (h : Good P s) (j : Nat) (off : Int) : Good P (passS P s j off) :=
  (h.setD (by rfl)).push _ _ _ _

theorem Good.wakeS {P : Par} {s : S} (h : Good P s) (u : Nat) : Good P (wakeS P s u) := by
  unfold C04W.wakeS; split
  · exact h.passS _ _
  · exact h

theorem Good.waitS {P : Par} {s : S} (h : Good P s) (j : Nat) : Good P (waitS s j) := by
  unfold C04W.waitS C04W.waitS0; split
  · split
    · exact h
    · exact h.setD (by rfl)
  · exact h

theorem Good.notifyS {P : Par} {s : S} (h : Good P s) (j : Nat) : Good P (notifyS P s j) := by
  unfold C04W.notifyS
  split
  · exact h
  · split
    · exact h.waitS j
    · exact (h.waitS j).wakeS _

theorem Good.finishHS {P : Par} {s : S} (h : Good P s) (j p : Nat) : Good P (finishHS P s j p) :=
  (h.setD (by rfl)).passS _ _

theorem Good.finishPS {P : Par} {s : S} (h : Good P s) (j p : Nat) : Good P (finishPS P s j p) :=
  ((h.finishHS j p).setD (by rfl)).addR _

theorem Good.finishKS {P : Par} {s : S} (h : Good P s) (j : Nat) : Good P (finishKS P s j) :=
  (h.setD (by rfl)).notifyS _

theorem Good.finishS {P : Par} {s : S} (h : Good P s) (j p : Nat) : Good P (finishS P s j p) := by
  unfold C04W.finishS
  split
  · exact h.finishPS j p
  · exact h.finishKS j
  · exact h.finishHS j p

theorem Good.schedFinS {P : Par} {s : S} (h : Good P s) (j p : Nat) : Good P (schedFinS P s j p) := by
  unfold C04W.schedFinS
  split
  · exact h.finishS j p
  · exact h.push _ _ _ _

theorem Good.takeS {P : Par} {s : S} (h : Good P s) (i p : Nat) : Good P (takeS s i p) :=
  ⟨takeS_stat h.stat i p, takeS_ok h.pok i p, h.now0⟩

theorem Good.addDel {P : Par} {s : S} (h : Good P s) (p : Nat) : Good P (addDel s p) :=
  ⟨h.stat, h.pok, h.now0⟩

theorem Good.acceptHS {P : Par} {s : S} (h : Good P s) (i p : Nat) : Good P (acceptHS P s i p) :=
  ((h.takeS i p).addR _).schedFinS i p

theorem Good.acceptPS {P : Par} {s : S} (h : Good P s) (i p : Nat) : Good P (acceptPS P s i p) :=
  ((((h.takeS i p).addR _).setD (by rfl))).schedFinS i p

theorem Good.acceptKS {P : Par} {s : S} (h : Good P s) (i p : Nat) : Good P (acceptKS P s i p) :=
  (((((h.addDel p).takeS i p).setD (by rfl))).addR _).schedFinS i p

theorem Good.moveBS {P : Par} {s : S} (h : Good P s) (i p : Nat) : Good P (moveBS P s i p) := by
  unfold C04W.moveBS
  simp only []
  split
  · exact ((h.setD (by rfl)).notifyS i).passS _ _
  · exact (h.setD (by rfl)).notifyS i

theorem Good.acceptBS {P : Par} {s : S} (h : Good P s) (i p : Nat) : Good P (acceptBS P s i p) :=
  (((((h.takeS i p).setD (by rfl))).addR _).addR _).moveBS i p

/-- `_accept_part`, by kind. -/
def acceptS (P : Par) (s : S) (i p : Nat) : S :=
  match (dv s i).kind with
  | .handler => acceptHS P s i p
  | .processor => acceptPS P s i p
  | .buffer => acceptBS P s i p
  | .sink => acceptKS P s i p
  | _ => s

theorem Good.acceptS {P : Par} {s : S} (h : Good P s) (i p : Nat) : Good P (acceptS P s i p) := by
  unfold C04W.acceptS
  split
  · exact h.acceptHS i p
  · exact h.acceptPS i p
  · exact h.acceptBS i p
  · exact h.acceptKS i p
  · exact h

/-- `_can_accept_part` (single parts). -/
def canAcc (d : Dev) : Bool :=
  (match d.kind with
   | .buffer => (match d.cap with | none => true | some c => decide (d.level + 1 ≤ c))
   | _ => true) && d.part.isNone && d.output.isNone

/-- `give_part`. -/
def giveS (P : Par) (s : S) (i p : Nat) : S × Bool :=
  if canAcc (dv s i) then (acceptS P s i p, true) else (s, false)

theorem stn_wf {L : Line} (hL : L.WF) {j : Nat} (hj : j ≤ L.n) : (stn L j).WF := by
  have hlt : j < L.stations.length := by rw [stations_length]; omega
  refine hL _ ?_
  unfold stn
  rw [List.getD_eq_getElem?_getD, List.getElem?_eq_getElem hlt]
  exact List.getElem_mem hlt

theorem W_givePart (P : Par) (s : S) (i p : Nat) (hL : P.L.WF) (hG : Good P s) (h1 : 1 ≤ i)
    (hi : i ≤ P.L.n) :
    (W P s).givePart i p = (W P (giveS P s i p).1, (giveS P s i p).2) := by
  have hS := hG.stat
  have hf := hS.facts hi
  have hwf := stn_wf hL hi
  have hop := W_operational P s i hf.shutDown
  have hlc : (W P s).leafCount p = 1 := SS.leafCount_ok _ (by exact hG.pok) p
  have hns : (dv s i).kind ≠ .source := by
    rw [hf.kind]; intro h; have := (kindOf_source_iff P.L i hi).1 h; omega
  show give (2 * s.ds.length + 2 + 1) (W P s) i p = _
  rw [give.eq_2]
  unfold giveS canAcc acceptS
  simp only [W_dev]
  rcases kindOf_cases P.L i with h | h | h | h | h <;> rw [← hf.kind] at h
  · exact absurd h hns
  · have hc : 0 ≤ (dv s i).cycle := by
      rw [hf.cycle]; unfold isBuf; rw [← hf.kind, h]; exact hwf.1
    simp only [h, canAcceptBasic, W_dev, hop, hf.blockInput, Bool.true_and, Bool.not_false]
    by_cases hc1 : ((dv s i).part.isNone && (dv s i).output.isNone) = true
    · obtain ⟨_, ho1⟩ : (dv s i).part = none ∧ (dv s i).output = none := by simpa using hc1
      simp only [hc1, if_true]
      rw [W_accept_handler P s i p hS hi h ho1 hG.pok hG.now0 hc]
    · simp only [hc1, if_false, Bool.false_eq_true]
  · have hc : 0 ≤ (dv s i).cycle := by
      rw [hf.cycle]; unfold isBuf; rw [← hf.kind, h]; exact hwf.1
    simp only [h, canAcceptBasic, W_dev, hop, hf.blockInput, Bool.true_and, Bool.not_false, procAcquire,
      hf.resReq]
    by_cases hc1 : ((dv s i).part.isNone && (dv s i).output.isNone) = true
    · obtain ⟨_, ho1⟩ : (dv s i).part = none ∧ (dv s i).output = none := by simpa using hc1
      simp only [hc1, if_true]
      rw [W_accept_processor P s i p hS hi h ho1 hG.pok hG.now0 hc]
    · simp only [hc1, if_false, Bool.false_eq_true]
  · have hc : 0 ≤ (dv s i).delay := by
      rw [hf.delay]; unfold isBuf; rw [← hf.kind, h]; exact hwf.1
    simp only [h, canAcceptBasic, W_dev, hop, hf.blockInput, Bool.true_and, Bool.not_false, hlc, Bool.and_true]
    cases hcap : (dv s i).cap with
    | none =>
      simp only [Bool.true_and]
      by_cases hc1 : ((dv s i).part.isNone && (dv s i).output.isNone) = true
      · obtain ⟨_, ho1⟩ : (dv s i).part = none ∧ (dv s i).output = none := by simpa using hc1
        simp only [hc1, if_true]
        rw [W_accept_buffer P s i p hS hi h ho1 hG.pok hG.now0 hc]
      · simp only [hc1, if_false, Bool.false_eq_true]
    | some c =>
      simp only []
      -- (robust against an additional, for single parts redundant, conjunct `level < c` in the model)
      by_cases hl : (dv s i).level + 1 ≤ c
      · have hl2 : (dv s i).level < c := by omega
        simp only [hl, hl2, decide_true, Bool.true_and, Bool.and_true]
        by_cases hc1 : ((dv s i).part.isNone && (dv s i).output.isNone) = true
        · obtain ⟨_, ho1⟩ : (dv s i).part = none ∧ (dv s i).output = none := by simpa using hc1
          simp only [hc1, if_true]
          rw [W_accept_buffer P s i p hS hi h ho1 hG.pok hG.now0 hc]
        · simp only [hc1, if_false, Bool.false_eq_true]
      · simp only [hl, decide_false, Bool.false_and, Bool.false_eq_true, if_false]
  · have hc : 0 ≤ (dv s i).cycle := by
      rw [hf.cycle]; unfold isBuf; rw [← hf.kind, h]; exact hwf.1
    simp only [h, canAcceptBasic, W_dev, hop, hf.blockInput, Bool.true_and, Bool.not_false]
    by_cases hc1 : ((dv s i).part.isNone && (dv s i).output.isNone) = true
    · obtain ⟨_, ho1⟩ : (dv s i).part = none ∧ (dv s i).output = none := by simpa using hc1
      simp only [hc1, if_true]
      rw [W_accept_sink P s i p hS hi h ho1 hG.pok hG.now0 hc]
    · simp only [hc1, if_false, Bool.false_eq_true]


/-! ### passing a part downstream -/

theorem Good.giveS {P : Par} {s : S} (h : Good P s) (i p : Nat) : Good P (giveS P s i p).1 := by
  unfold C04W.giveS
  split
  · exact h.acceptS i p
  · exact h

theorem W_sortedDown (P : Par) (s : S) (j : Nat) (hS : Stat P.L s.ds) (hj : j < P.L.n) :
    (W P s).sortedDown j = [j + 1] := by
  have hf := hS.facts (Nat.le_of_lt hj)
  unfold sortedDown
  rw [W_dev, hf.down, if_neg (by omega)]
  simp [stableSort, insertByKey]

/-- `PartHandler._pass_part_downstream()` of a device whose output slot holds `p`. -/
def passHS (P : Par) (s : S) (j p : Nat) : S :=
  let r := giveS P s (j + 1) p
  if r.2 then notifyS P (setD r.1 j { dv r.1 j with output := none }) j
  else setD r.1 j { dv r.1 j with waitingDS := true }

theorem Good.passHS {P : Par} {s : S} (h : Good P s) (j p : Nat) : Good P (passHS P s j p) := by
  unfold C04W.passHS
  simp only []
  split
  · exact ((h.giveS _ _).setD (by rfl)).notifyS j
  · exact (h.giveS _ _).setD (by rfl)

theorem W_passHandler (P : Par) (s : S) (j p : Nat) (hL : P.L.WF) (hG : Good P s) (hj : j < P.L.n)
    (ho : (dv s j).output = some p) :
    (W P s).passHandler j = W P (passHS P s j p) := by
  have hS := hG.stat
  have hf := hS.facts (Nat.le_of_lt hj)
  have hop := W_operational P s j hf.shutDown
  have hG1 := hG.giveS (j + 1) p
  unfold passHandler passHS
  simp only [W_dev, hop, ho, W_sortedDown P s j hS hj, tryList, Bool.not_true, Bool.false_eq_true, if_false,
    W_givePart P s (j + 1) p hL hG (by omega) (by omega)]
  cases hr : (giveS P s (j + 1) p).2
  · simp only [W_modDev, Bool.false_eq_true, if_false]
  · simp only [W_modDev, if_true]
    exact W_notify P _ j (hG1.stat.setD (by rfl)) (Nat.le_of_lt hj) hG1.now0

theorem W_passPart_handler (P : Par) (s : S) (j p : Nat) (hL : P.L.WF) (hG : Good P s) (hj : j < P.L.n)
    (hk : (dv s j).kind = .handler ∨ (dv s j).kind = .processor) (ho : (dv s j).output = some p) :
    (W P s).passPart j = W P (passHS P s j p) := by
  unfold passPart
  rcases hk with hk | hk <;> simp only [W_dev, hk] <;> exact W_passHandler P s j p hL hG hj ho

/-- Is the source's budget used up? -/
def srcExhausted (d : Dev) : Bool :=
  match d.maxParts with
  | some m => decide ((if m - d.produced < 0 then 0 else m - d.produced) < 1)
  | none => false

/-- `_schedule_finish_cycle()` of the source. -/
def schedFin0S (P : Par) (s : S) : S :=
  if (dv s 0).cycle ≤ 0 then genS P s
  else push P s (s.now + (dv s 0).cycle) (dv s 0).aid (.finishCycle 0) pFinish

theorem W_scheduleFinish_source (P : Par) (s : S) (hL : P.L.WF) (hG : Good P s)
    (ho : (dv s 0).output = none) :
    (W P s).scheduleFinish 0 = W P (schedFin0S P s) := by
  have hS := hG.stat
  have hf := hS.facts (Nat.zero_le _)
  have hk : (dv s 0).kind = .source := by rw [hf.kind]; exact kindOf_zero _
  have hc : 0 ≤ (dv s 0).cycle := by
    rw [hf.cycle]; unfold isBuf; rw [kindOf_zero]; exact (stn_wf hL (Nat.zero_le _)).1
  have hct : (W P s).cycleTime 0 = (dv s 0).cycle := by
    unfold cycleTime
    rw [W_dev, hk]
  have hneg : (if (dv s 0).cycle < 0 then 0 else (dv s 0).cycle) = (dv s 0).cycle := if_neg (by omega)
  unfold scheduleFinish schedFin0S
  simp only [hct, W_dev, hf.offset, Int.add_zero, W_setDev, dev_offset_self _ hf.offset, setD_self,
    hneg, W_now]
  split
  · exact W_finishCycle_source P s hk ho hf.genBatch hf.genQuality hf.genValue hG.pok hG.now0
      (hS.lt (Nat.zero_le _))
  · exact W_schedLib P s _ _ _ _ (by omega)

/-- `Source._pass_part_downstream()` with part `p` in the output slot. -/
def passSrcS (P : Par) (s : S) (p : Nat) : S :=
  if srcExhausted (dv s 0) then s
  else
    let s1 := passHS P s 0 p
    if (dv s1 0).output.isNone then
      let d := dv s1 0
      let s2 := setD s1 0 { d with produced := d.produced + 1, val := d.val.addCost lblSupplied s.now 0,
                                   costProduced := d.costProduced + 0 }
      schedFin0S P (addR s2 (.supplied 0 s.now p))
    else s1

@[simp] theorem finishHS_now (P : Par) (s : S) (j p : Nat) : (finishHS P s j p).now = s.now := rfl
@[simp] theorem finishPS_now (P : Par) (s : S) (j p : Nat) : (finishPS P s j p).now = s.now := rfl
@[simp] theorem finishKS_now (P : Par) (s : S) (j : Nat) : (finishKS P s j).now = s.now := by
  simp [finishKS]
@[simp] theorem finishS_now (P : Par) (s : S) (j p : Nat) : (finishS P s j p).now = s.now := by
  unfold finishS; split <;> simp
@[simp] theorem schedFinS_now (P : Par) (s : S) (j p : Nat) : (schedFinS P s j p).now = s.now := by
  unfold schedFinS; split <;> simp
@[simp] theorem acceptHS_now (P : Par) (s : S) (i p : Nat) : (acceptHS P s i p).now = s.now := by
  simp [acceptHS]
@[simp] theorem acceptPS_now (P : Par) (s : S) (i p : Nat) : (acceptPS P s i p).now = s.now := by
  simp [acceptPS]
@[simp] theorem acceptKS_now (P : Par) (s : S) (i p : Nat) : (acceptKS P s i p).now = s.now := by
  simp [acceptKS]
@[simp] theorem moveBS_now (P : Par) (s : S) (i p : Nat) : (moveBS P s i p).now = s.now := by
  unfold moveBS; simp only []; split <;> simp
@[simp] theorem acceptBS_now (P : Par) (s : S) (i p : Nat) : (acceptBS P s i p).now = s.now := by
  simp [acceptBS]
@[simp] theorem acceptS_now (P : Par) (s : S) (i p : Nat) : (acceptS P s i p).now = s.now := by
  unfold acceptS; split <;> simp
@[simp] theorem giveS_now (P : Par) (s : S) (i p : Nat) : (giveS P s i p).1.now = s.now := by
  unfold giveS; split <;> simp
@[simp] theorem passHS_now (P : Par) (s : S) (j p : Nat) : (passHS P s j p).now = s.now := by
  unfold passHS; simp only []; split <;> simp

theorem W_passPart_source (P : Par) (s : S) (p : Nat) (hL : P.L.WF) (hG : Good P s)
    (ho : (dv s 0).output = some p) :
    (W P s).passPart 0 = W P (passSrcS P s p) := by
  have hS := hG.stat
  have hf := hS.facts (Nat.zero_le _)
  have hk : (dv s 0).kind = .source := by rw [hf.kind]; exact kindOf_zero _
  have hn : 0 < P.L.n := by unfold Line.n; omega
  have hG1 := hG.passHS 0 p
  have hlt1 := hG1.stat.lt (Nat.zero_le _)
  unfold passPart passSrcS srcExhausted
  rw [W_dev]
  simp only [W_dev, hk, ho, W_partValue P s p hG.pok, W_passHandler P s 0 p hL hG hn ho, W_modDev, W_addRec,
    W_now, passHS_now, setD_now]
  cases hm : (dv s 0).maxParts with
  | none =>
    simp only [Option.map_none, Bool.false_eq_true, if_false]
    rw [apply_ite (W P)]
    by_cases hb : (dv (passHS P s 0 p) 0).output.isNone = true
    · simp only [hb, if_true]
      refine W_scheduleFinish_source P _ hL ((hG1.setD ?_).addR _) ?_
      · simp [sview]
      · simp [dv_setD_same, hlt1]
        simpa using hb
    · simp only [hb, if_false, Bool.false_eq_true]
  | some m =>
    simp only [Option.map_some]
    by_cases hx : ((if m - (dv s 0).produced < 0 then 0 else m - (dv s 0).produced) < 1)
    · simp only [hx, decide_true, if_true]
    · simp only [hx, decide_false, Bool.false_eq_true, if_false]
      rw [apply_ite (W P)]
      by_cases hb : (dv (passHS P s 0 p) 0).output.isNone = true
      · simp only [hb, if_true]
        refine W_scheduleFinish_source P _ hL ((hG1.setD ?_).addR _) ?_
        · simp [sview]
        · simp [dv_setD_same, hlt1]
          simpa using hb
      · simp only [hb, if_false, Bool.false_eq_true]

/-- The loop of `Buffer._pass_part_downstream`. -/
def bufLoopS (P : Par) : Nat → S → Nat → S
  | 0, s, _ => s
  | f + 1, s, j =>
    match (dv s j).buf with
    | [] => s
    | (t, p) :: _ =>
      if (dv s j).delay - (s.now - t) > 0 then s
      else
        let r := giveS P s (j + 1) p
        if r.2 then
          let d := dv r.1 j
          let s1 := setD r.1 j { d with level := d.level - 1, buf := d.buf.drop 1 }
          bufLoopS P f (addR s1 (.level j s.now (d.level - 1))) j
        else r.1

theorem Good.bufLoopS {P : Par} (f : Nat) {s : S} (h : Good P s) (j : Nat) :
    Good P (bufLoopS P f s j) := by
  induction f generalizing s with
  | zero => exact h
  | succ f ih =>
    unfold C04W.bufLoopS
    split
    · exact h
    · split
      · exact h
      · simp only []
        split
        · exact ih (((h.giveS _ _).setD (by rfl)).addR _)
        · exact h.giveS _ _

@[simp] theorem bufLoopS_now (P : Par) (f : Nat) (s : S) (j : Nat) : (bufLoopS P f s j).now = s.now := by
  induction f generalizing s with
  | zero => rfl
  | succ f ih =>
    unfold bufLoopS
    split
    · rfl
    · split
      · rfl
      · simp only []
        split
        · rw [ih]; simp
        · simp

theorem W_bufferLoop (P : Par) (f : Nat) (s : S) (j : Nat) (hL : P.L.WF) (hG : Good P s)
    (hj : j < P.L.n) :
    bufferLoop f (W P s) j = W P (bufLoopS P f s j) := by
  induction f generalizing s with
  | zero => rfl
  | succ f ih =>
    have hS := hG.stat
    have hlc : ∀ p, (W P s).leafCount p = 1 := fun p => SS.leafCount_ok _ (by exact hG.pok) p
    unfold bufferLoop bufLoopS
    rw [W_dev]
    cases hb : (dv s j).buf with
    | nil => simp only [hb]
    | cons tp rest =>
      obtain ⟨t, p⟩ := tp
      simp only [W_now, hb]
      by_cases hd : (dv s j).delay - (s.now - t) > 0
      · simp only [hd, if_true]
      · have hG1 := hG.giveS (j + 1) p
        simp only [hd, if_false, W_sortedDown P s j hS hj, tryList, hlc,
          W_givePart P s (j + 1) p hL hG (by omega) (by omega)]
        cases hr : (giveS P s (j + 1) p).2
        · simp only [Bool.false_eq_true, if_false]
        · simp only [if_true, W_modDev, W_addRec, W_now, W_dev, setD_now, giveS_now, dv_setD_same,
            hG1.stat.lt (Nat.le_of_lt hj)]
          exact ih _ ((hG1.setD (by rfl)).addR _)

/-- `Buffer._pass_part_downstream()`. -/
def passBufS (P : Par) (s : S) (j : Nat) : S :=
  let s1 := bufLoopS P ((dv s j).buf.length + 1) s j
  let d := dv s1 j
  let s2 := match d.buf with
    | [] => s1
    | (t, _) :: _ =>
      if d.delay - (s.now - t) > 0 then passS P s1 j (d.delay - (s.now - t))
      else setD s1 j { d with waitingDS := true }
  notifyS P s2 j

theorem W_passPart_buffer (P : Par) (s : S) (j : Nat) (hL : P.L.WF) (hG : Good P s) (hj : j < P.L.n)
    (hk : (dv s j).kind = .buffer) :
    (W P s).passPart j = W P (passBufS P s j) := by
  have hG1 := hG.bufLoopS ((dv s j).buf.length + 1) j
  have hn1 := bufLoopS_now P ((dv s j).buf.length + 1) s j
  have hk1 : (dv (bufLoopS P ((dv s j).buf.length + 1) s j) j).kind ≠ .sink := by
    rw [(hG1.stat.facts (Nat.le_of_lt hj)).kind, ← (hG.stat.facts (Nat.le_of_lt hj)).kind, hk]; simp
  unfold passPart passBufS
  rw [W_dev]
  simp only [hk, W_bufferLoop P _ s j hL hG hj, W_dev, W_now, hn1]
  cases hb : (dv (bufLoopS P ((dv s j).buf.length + 1) s j) j).buf with
  | nil => exact W_notify P _ j hG1.stat (Nat.le_of_lt hj) hG1.now0
  | cons tp rest =>
    obtain ⟨t, p⟩ := tp
    simp only []
    by_cases hd : (dv (bufLoopS P ((dv s j).buf.length + 1) s j) j).delay - (s.now - t) > 0
    · simp only [hd, if_true]
      rw [W_schedulePass P _ j _ hk1 hG1.now0 (by omega)]
      exact W_notify P _ j (hG1.passS _ _).stat (Nat.le_of_lt hj) (hG1.passS _ _).now0
    · simp only [hd, if_false, W_setDev]
      exact W_notify P _ j (hG1.setD (by rfl)).stat (Nat.le_of_lt hj) hG1.now0


/-! ### events, start of the run -/

theorem W_step (P : Par) (s : S) (e : Event) (rest : List Event) (h : s.evs = e :: rest) :
    (W P s).step = some (e,
      if e.live then
        (W P { s with now := e.time, evs := rest,
                      term := s.term || (e.live && e.act == terminateAct) }).exec (Action.ofNat e.act)
      else W P { s with now := e.time, evs := rest,
                        term := s.term || (e.live && e.act == terminateAct) }) := by
  simp only [World.step, W, Env.step, h]

/-- Take the head of the queue. -/
def pop (s : S) (e : Event) (rest : List Event) : S :=
  { s with now := e.time, evs := rest, term := false }

theorem step_live (P : Par) (s : S) (e : Event) (rest : List Event) (h : s.evs = e :: rest)
    (hterm : s.term = false) (hc : e.cancelled = false) (hact : e.act ≠ 0) :
    (W P s).step = some (e, (W P (pop s e rest)).exec (Action.ofNat e.act)) := by
  rw [W_step P s e rest h]
  have : (e.act == 0) = false := by simp [hact]
  simp [Event.live, hc, hterm, this, terminateAct, pop]

theorem step_term (P : Par) (s : S) (e : Event) (rest : List Event) (h : s.evs = e :: rest)
    (hc : e.cancelled = false) (hact : e.act = 0) :
    (W P s).step = some (e, W P { pop s e rest with term := true }) := by
  rw [W_step P s e rest h]
  simp [Event.live, hc, hact, terminateAct, pop, Action.ofNat, World.exec]

theorem ofNat_finish (j : Nat) : Action.ofNat (2 + 16 * j) = .finishCycle j := by
  have h1 : (2 + 16 * j) % 16 = 2 := by omega
  have h2 : (2 + 16 * j) / 16 = j := by omega
  simp [Action.ofNat, h1, h2]

theorem ofNat_pass (j : Nat) : Action.ofNat (3 + 16 * j) = .passPart j := by
  have h1 : (3 + 16 * j) % 16 = 3 := by omega
  have h2 : (3 + 16 * j) / 16 = j := by omega
  simp [Action.ofNat, h1, h2]

theorem W_runBegin_ok (P : Par) (s : S) (T : Int) (h : 0 ≤ T) :
    (W P s).runBegin T =
      (W P { s with term := false,
                    evs := insort (mkEv P s.uid (s.now + T) (-1) .terminate pTerminate) s.evs,
                    uid := s.uid + 1 }, .ok) := by
  have h1 : ¬ s.now + T < s.now := by omega
  simp [World.runBegin, Env.runBegin, Env.schedule, Arith.exact, W, h1, mkEv, Env.newEvent,
    pTerminate, prioTerminate, Action.toNat, terminateAct]

theorem W_runBegin_neg (P : Par) (s : S) (T : Int) (h : T < 0) :
    (W P s).runBegin T = (W P s, .err .value) := by
  have h1 : s.now + T < s.now := by omega
  simp [World.runBegin, Env.runBegin, Env.schedule, Arith.exact, W, h1]

end C04W
end SimProc
