/-
Helper lemmas for C08 (routing): the stable insertion sort behind `sortedDown`, `tryList`, the
parts table under `addHist` / `dropHist` / stack push / pop, and the frame of a refused hand-over.
-/
import SimProc.Proofs.FloorCore2

namespace SimProc
namespace C08L
open World FloorCoreL

/-! ### `keyLe` is a total preorder (even a total order) on `Option Int` -/

theorem keyLe_refl (a : Option Int) : keyLe a a = true := by
  cases a <;> simp [keyLe]

theorem keyLe_total (a b : Option Int) : keyLe a b = true ∨ keyLe b a = true := by
  cases a <;> cases b <;> simp [keyLe]; omega

theorem keyLe_trans {a b c : Option Int} (h1 : keyLe a b = true) (h2 : keyLe b c = true) :
    keyLe a c = true := by
  cases a <;> cases b <;> cases c <;> simp [keyLe] at * ; omega

theorem keyLe_antisymm {a b : Option Int} (h1 : keyLe a b = true) (h2 : keyLe b a = true) :
    a = b := by
  cases a <;> cases b <;> simp [keyLe] at * ; omega

theorem keyLe_of_not {a b : Option Int} (h : ¬ keyLe a b = true) : keyLe b a = true := by
  rcases keyLe_total a b with h' | h'
  · exact absurd h' h
  · exact h'

theorem keyLe_none (a : Option Int) : keyLe a none = true := by
  cases a <;> rfl

theorem keyLe_some_none (t : Int) : keyLe none (some t) = false := rfl

theorem keyLe_some_some (s t : Int) : keyLe (some s) (some t) = decide (s ≤ t) := rfl

/-! ### lists -/

theorem rev_ind {α} {P : List α → Prop} (nil : P []) (snoc : ∀ l x, P l → P (l ++ [x])) :
    ∀ l, P l := by
  have : ∀ l : List α, P l.reverse := by
    intro l
    induction l with
    | nil => exact nil
    | cons x xs ih => rw [List.reverse_cons]; exact snoc _ _ ih
  intro l
  have h := this l.reverse
  rwa [List.reverse_reverse] at h

theorem pair_sublist_or {α} {a b : α} {l : List α} (ha : a ∈ l) (hb : b ∈ l) (hab : a ≠ b) :
    [a, b].Sublist l ∨ [b, a].Sublist l := by
  induction l with
  | nil => cases ha
  | cons y ys ih =>
    by_cases hya : y = a
    · subst hya
      have hb' : b ∈ ys := by
        rcases List.mem_cons.1 hb with h | h
        · exact absurd h.symm hab
        · exact h
      exact Or.inl (List.Sublist.cons_cons _ (List.singleton_sublist.2 hb'))
    · by_cases hyb : y = b
      · subst hyb
        have ha' : a ∈ ys := by
          rcases List.mem_cons.1 ha with h | h
          · exact absurd h hab
          · exact h
        exact Or.inr (List.Sublist.cons_cons _ (List.singleton_sublist.2 ha'))
      · have ha' : a ∈ ys := by
          rcases List.mem_cons.1 ha with h | h
          · exact absurd h.symm hya
          · exact h
        have hb' : b ∈ ys := by
          rcases List.mem_cons.1 hb with h | h
          · exact absurd h.symm hyb
          · exact h
        rcases ih ha' hb' with h | h
        · exact Or.inl (List.Sublist.cons _ h)
        · exact Or.inr (List.Sublist.cons _ h)

/-- The two-element sublists of `l ++ [x]`. -/
theorem pair_sublist_snoc {α} {a b x : α} {l : List α} (h : [a, b].Sublist (l ++ [x])) :
    [a, b].Sublist l ∨ (a ∈ l ∧ b = x) := by
  obtain ⟨l1, l2, heq, h1, h2⟩ := List.sublist_append_iff.1 h
  match l1, l2, heq, h1, h2 with
  | [], l2, heq, _, h2 =>
    have : l2 = [a, b] := by simpa using heq.symm
    subst this
    have := h2.length_le
    simp at this
  | [a'], l2, heq, h1, h2 =>
    have h' : a = a' ∧ [b] = l2 := by simpa using heq
    obtain ⟨rfl, rfl⟩ := h'
    right
    refine ⟨List.singleton_sublist.1 h1, ?_⟩
    have := List.singleton_sublist.1 h2
    simpa using this
  | [a', b'], l2, heq, h1, _ =>
    have h' : a = a' ∧ b = b' ∧ [] = l2 := by simpa using heq
    obtain ⟨rfl, rfl, _⟩ := h'
    exact Or.inl h1
  | _ :: _ :: _ :: _, l2, heq, _, _ =>
    have := congrArg List.length heq
    simp at this

/-! ### `insertByKey` -/

/-- Sorted by key (`none` last). -/
abbrev Sorted (key : Nat → Option Int) (l : List Nat) : Prop :=
  l.Pairwise (fun a b => keyLe (key a) (key b) = true)

variable {key : Nat → Option Int}

theorem insertByKey_perm (key : Nat → Option Int) (x : Nat) (l : List Nat) :
    (insertByKey key x l).Perm (x :: l) := by
  induction l with
  | nil => exact List.Perm.refl _
  | cons y ys ih =>
    unfold insertByKey
    split
    · exact (ih.cons y).trans (List.Perm.swap x y ys)
    · exact List.Perm.refl _

theorem mem_insertByKey {a x : Nat} {l : List Nat} :
    a ∈ insertByKey key x l ↔ a = x ∨ a ∈ l := by
  rw [(insertByKey_perm key x l).mem_iff, List.mem_cons]

theorem insertByKey_sublist (key : Nat → Option Int) (x : Nat) (l : List Nat) :
    l.Sublist (insertByKey key x l) := by
  induction l with
  | nil => exact List.nil_sublist _
  | cons y ys ih =>
    unfold insertByKey
    split
    · exact List.Sublist.cons_cons _ ih
    · exact List.Sublist.cons _ (List.Sublist.refl _)

theorem insertByKey_sorted {x : Nat} {l : List Nat} (hs : Sorted key l) :
    Sorted key (insertByKey key x l) := by
  induction l with
  | nil => simp [insertByKey, Sorted]
  | cons y ys ih =>
    have hy := (List.pairwise_cons.1 hs).1
    have hys := (List.pairwise_cons.1 hs).2
    unfold insertByKey
    split
    · next hle =>
      refine List.pairwise_cons.2 ⟨?_, ih hys⟩
      intro a ha
      rcases mem_insertByKey.1 ha with rfl | ha
      · exact hle
      · exact hy a ha
    · next hle =>
      have hxy := keyLe_of_not hle
      refine List.pairwise_cons.2 ⟨?_, hs⟩
      intro a ha
      rcases List.mem_cons.1 ha with rfl | ha
      · exact hxy
      · exact keyLe_trans hxy (hy a ha)

/-- In a sorted list every element whose key is `≤` that of the new element ends up before it. -/
theorem insertByKey_pair {a x : Nat} {l : List Nat} (hs : Sorted key l) (ha : a ∈ l)
    (hle : keyLe (key a) (key x) = true) : [a, x].Sublist (insertByKey key x l) := by
  induction l with
  | nil => cases ha
  | cons y ys ih =>
    have hy := (List.pairwise_cons.1 hs).1
    have hys := (List.pairwise_cons.1 hs).2
    unfold insertByKey
    split
    · rcases List.mem_cons.1 ha with rfl | ha
      · exact List.Sublist.cons_cons _ (List.singleton_sublist.2 (mem_insertByKey.2 (Or.inl rfl)))
      · exact List.Sublist.cons _ (ih hys ha)
    · next hyx =>
      exfalso
      apply hyx
      rcases List.mem_cons.1 ha with rfl | ha
      · exact hle
      · exact keyLe_trans (hy a ha) hle

/-- The elements of one key class: the new element goes to the END of its class. -/
theorem insertByKey_filter {x : Nat} {l : List Nat} (hs : Sorted key l) (k : Option Int) :
    (insertByKey key x l).filter (fun a => decide (key a = k)) =
      l.filter (fun a => decide (key a = k)) ++ (if key x = k then [x] else []) := by
  induction l with
  | nil =>
    unfold insertByKey
    by_cases h : key x = k <;> simp [h]
  | cons y ys ih =>
    have hy := (List.pairwise_cons.1 hs).1
    have hys := (List.pairwise_cons.1 hs).2
    unfold insertByKey
    split
    · rw [List.filter_cons, ih hys, List.filter_cons]
      split <;> simp
    · next hyx =>
      by_cases hx : key x = k
      · have hnone : (y :: ys).filter (fun a => decide (key a = k)) = [] := by
          rw [List.filter_eq_nil_iff]
          intro a ha hak
          have hak' : key a = k := by simpa using hak
          apply hyx
          have hya : keyLe (key y) (key a) = true := by
            rcases List.mem_cons.1 ha with rfl | ha
            · exact keyLe_refl _
            · exact hy a ha
          rw [hx, ← hak']
          exact hya
        rw [List.filter_cons, hnone]
        simp [hx]
      · rw [List.filter_cons]
        simp [hx]

/-! ### `stableSort` -/

theorem stableSort_nil (key : Nat → Option Int) : stableSort key [] = [] := rfl

theorem stableSort_snoc (key : Nat → Option Int) (l : List Nat) (x : Nat) :
    stableSort key (l ++ [x]) = insertByKey key x (stableSort key l) := by
  simp [stableSort, List.foldl_append]

theorem stableSort_perm (key : Nat → Option Int) (l : List Nat) : (stableSort key l).Perm l := by
  induction l using rev_ind with
  | nil => exact List.Perm.refl _
  | snoc l x ih =>
    rw [stableSort_snoc]
    refine (insertByKey_perm key x _).trans ?_
    refine ((ih.cons x)).trans ?_
    exact (List.perm_append_singleton x l).symm

theorem mem_stableSort {a : Nat} {l : List Nat} : a ∈ stableSort key l ↔ a ∈ l :=
  (stableSort_perm key l).mem_iff

theorem stableSort_sorted (key : Nat → Option Int) (l : List Nat) : Sorted key (stableSort key l) := by
  induction l using rev_ind with
  | nil => exact List.Pairwise.nil
  | snoc l x ih => rw [stableSort_snoc]; exact insertByKey_sorted ih

theorem stableSort_pair {a b : Nat} {l : List Nat} (h : [a, b].Sublist l)
    (hle : keyLe (key a) (key b) = true) : [a, b].Sublist (stableSort key l) := by
  induction l using rev_ind with
  | nil => simp at h
  | snoc l x ih =>
    rw [stableSort_snoc]
    rcases pair_sublist_snoc h with h | ⟨ha, rfl⟩
    · exact (ih h).trans (insertByKey_sublist _ _ _)
    · exact insertByKey_pair (stableSort_sorted key l) (mem_stableSort.2 ha) hle

theorem stableSort_filter (key : Nat → Option Int) (l : List Nat) (k : Option Int) :
    (stableSort key l).filter (fun a => decide (key a = k)) =
      l.filter (fun a => decide (key a = k)) := by
  induction l using rev_ind with
  | nil => rfl
  | snoc l x ih =>
    rw [stableSort_snoc, insertByKey_filter (stableSort_sorted key l), ih, List.filter_append]
    by_cases h : key x = k <;> simp [h]

/-! ### `tryList` -/

section tryList
variable {g : World → Nat → Nat → World × Bool}

theorem tryList_nil (w : World) (p : Nat) : tryList g w [] p = (w, false) := rfl

theorem tryList_cons_true {w w' : World} {y p : Nat} (ys : List Nat) (h : g w y p = (w', true)) :
    tryList g w (y :: ys) p = (w', true) := by
  rw [tryList, h]

theorem tryList_cons_false {w w' : World} {y p : Nat} (ys : List Nat) (h : g w y p = (w', false)) :
    tryList g w (y :: ys) p = tryList g w' ys p := by
  rw [tryList, h]

theorem tryList_append (w : World) (l1 l2 : List Nat) (p : Nat) :
    tryList g w (l1 ++ l2) p =
      match tryList g w l1 p with
      | (w', true) => (w', true)
      | (w', false) => tryList g w' l2 p := by
  induction l1 generalizing w with
  | nil => rfl
  | cons y ys ih =>
    rw [List.cons_append]
    rcases hg : g w y p with ⟨w1, b⟩
    cases b
    · rw [tryList_cons_false _ hg, tryList_cons_false _ hg, ih]
    · rw [tryList_cons_true _ hg, tryList_cons_true _ hg]

theorem tryList_true {w w' : World} {l : List Nat} {p : Nat} (h : tryList g w l p = (w', true)) :
    ∃ l1 y l2 wm, l = l1 ++ y :: l2 ∧ tryList g w l1 p = (wm, false) ∧ g wm y p = (w', true) := by
  induction l generalizing w with
  | nil => simp [tryList] at h
  | cons y ys ih =>
    rcases hg : g w y p with ⟨w1, b⟩
    cases b
    · rw [tryList_cons_false _ hg] at h
      obtain ⟨l1, z, l2, wm, hl, h1, h2⟩ := ih h
      refine ⟨y :: l1, z, l2, wm, by rw [hl]; rfl, ?_, h2⟩
      rw [tryList_cons_false _ hg]; exact h1
    · rw [tryList_cons_true _ hg] at h
      have : w1 = w' := by simpa using h
      subst this
      exact ⟨[], y, ys, w, rfl, rfl, hg⟩

theorem tryList_false_split {w w' : World} {l1 l2 : List Nat} {y p : Nat}
    (h : tryList g w (l1 ++ y :: l2) p = (w', false)) :
    ∃ wa wb, tryList g w l1 p = (wa, false) ∧ g wa y p = (wb, false) ∧
      tryList g wb l2 p = (w', false) := by
  rw [tryList_append] at h
  rcases h1 : tryList g w l1 p with ⟨wa, b⟩
  rw [h1] at h
  cases b
  · rcases hg : g wa y p with ⟨wb, b⟩
    cases b
    · simp only at h
      rw [tryList_cons_false _ hg] at h
      exact ⟨wa, wb, rfl, hg, h⟩
    · simp only at h
      rw [tryList_cons_true _ hg] at h
      simp at h
  · simp at h

/-- Whatever every single refusal preserves is preserved by a refusing `tryList`. -/
theorem tryList_false_preserve {β} (proj : World → β) {p : Nat}
    (hg : ∀ w y w', g w y p = (w', false) → proj w' = proj w)
    {w w' : World} {l : List Nat} (h : tryList g w l p = (w', false)) : proj w' = proj w := by
  induction l generalizing w with
  | nil =>
    have : w = w' := by simpa [tryList] using h
    rw [this]
  | cons y ys ih =>
    rcases hgy : g w y p with ⟨w1, b⟩
    cases b
    · rw [tryList_cons_false _ hgy] at h
      rw [ih h, hg _ _ _ hgy]
    · rw [tryList_cons_true _ hgy] at h
      simp at h

end tryList

/-! ### the parts table under a sequence of `modPart`s -/

/-- `g` applied `n` times. -/
def iter {α} (g : α → α) : Nat → α → α
  | 0, a => a
  | n + 1, a => iter g n (g a)

theorem iter_comm {α} {g h : α → α} (hc : ∀ a, g (h a) = h (g a)) (n : Nat) (a : α) :
    g (iter h n a) = iter h n (g a) := by
  induction n generalizing a with
  | zero => rfl
  | succ n ih => simp only [iter]; rw [ih, hc]

theorem iter_iter_comm {α} {g h : α → α} (hc : ∀ a, g (h a) = h (g a)) (m n : Nat) (a : α) :
    iter g m (iter h n a) = iter h n (iter g m a) := by
  induction m generalizing a with
  | zero => rfl
  | succ m ih => simp only [iter]; rw [iter_comm hc, ih]

theorem iter_cancel {α} {gd ga : α → α} (hc : ∀ a, gd (ga a) = a) (n : Nat) (a : α) :
    iter gd n (iter ga n a) = a := by
  induction n generalizing a with
  | zero => rfl
  | succ n ih =>
    simp only [iter]
    rw [← iter_comm (g := ga) (h := ga) (fun _ => rfl), hc, ih]

theorem iter_fix {α} {g : α → α} {a : α} (h : g a = a) (n : Nat) : iter g n a = a := by
  induction n with
  | zero => rfl
  | succ n ih => simp only [iter]; rw [h, ih]

theorem iter_preserve {α β} {g : α → α} (P : α → β) (hP : ∀ a, P (g a) = P a) (n : Nat) (a : α) :
    P (iter g n a) = P a := by
  induction n generalizing a with
  | zero => rfl
  | succ n ih => simp only [iter]; rw [ih, hP]

/-- Apply `g` to the records at the indices `idxs`, one after the other (out-of-range indices are
skipped, repeated indices are hit repeatedly). -/
def modAll (g : PartRec → PartRec) (idxs : List Nat) (ps : List PartRec) : List PartRec :=
  idxs.foldl (fun ps k => ps.set k (g (ps.getD k default))) ps

theorem modAll_getElem? (g : PartRec → PartRec) (idxs : List Nat) (ps : List PartRec) (i : Nat) :
    (modAll g idxs ps)[i]? = ps[i]?.map (iter g (idxs.count i)) := by
  induction idxs generalizing ps with
  | nil =>
    show ps[i]? = Option.map (iter g 0) ps[i]?
    cases ps[i]? <;> rfl
  | cons k ks ih =>
    show (modAll g ks (ps.set k (g (ps.getD k default))))[i]? = _
    rw [ih, List.getElem?_set]
    by_cases hki : k = i
    · subst hki
      rw [if_pos rfl, List.count_cons_self]
      by_cases hlt : k < ps.length
      · simp [hlt, iter, List.getD_eq_getElem?_getD]
      · simp [hlt]
    · rw [if_neg hki, List.count_cons_of_ne hki]

theorem modAll_length (g : PartRec → PartRec) (idxs : List Nat) (ps : List PartRec) :
    (modAll g idxs ps).length = ps.length := by
  induction idxs generalizing ps with
  | nil => rfl
  | cons k ks ih =>
    show (modAll g ks (ps.set k (g (ps.getD k default)))).length = _
    rw [ih, List.length_set]

theorem modAll_getD (g : PartRec → PartRec) (hd : g default = default) (idxs : List Nat)
    (ps : List PartRec) (i : Nat) :
    (modAll g idxs ps).getD i default = iter g (idxs.count i) (ps.getD i default) := by
  rw [List.getD_eq_getElem?_getD, List.getD_eq_getElem?_getD, modAll_getElem?]
  cases ps[i]? with
  | none =>
    simp only [Option.map_none, Option.getD_none]
    exact (iter_fix hd _).symm
  | some r => rfl

theorem foldl_modPart_parts (g : PartRec → PartRec) (l : List Nat) (w : World) :
    (l.foldl (fun w k => w.modPart k g) w).parts = modAll g l w.parts := by
  induction l generalizing w with
  | nil => rfl
  | cons k ks ih => rw [List.foldl_cons, ih]; rfl

theorem modPart_parts_eq_modAll (w : World) (p : Nat) (g : PartRec → PartRec) :
    (w.modPart p g).parts = modAll g [p] w.parts := rfl

/-- The indices touched by `addHist` / `dropHist`: the part and (for a batch) its kids. -/
def histIdxs (ps : List PartRec) (p : Nat) : List Nat :=
  p :: ((ps.getD p default).kids.getD [])

theorem histOp_parts (w : World) (p : Nat) {g : PartRec → PartRec}
    (hk : ∀ r, (g r).kids = r.kids) :
    (w.histOp p g).parts = modAll g (histIdxs w.parts p) w.parts := by
  have hkids : ((w.modPart p g).part p).kids = (w.part p).kids :=
    modPart_part_field PartRec.kids w p g (hk _) p
  unfold histOp
  dsimp only
  rw [hkids]
  unfold histIdxs
  show _ = modAll g (p :: ((w.part p).kids.getD [])) w.parts
  cases (w.part p).kids with
  | none => rfl
  | some l => simp only [Option.getD_some]; rw [foldl_modPart_parts]; rfl

def addH (d : Nat) (r : PartRec) : PartRec := { r with hist := r.hist ++ [d] }
def dropH (r : PartRec) : PartRec := { r with hist := r.hist.dropLast }
def pushS (x : Nat) (r : PartRec) : PartRec := { r with stack := r.stack ++ [x] }
def popS (r : PartRec) : PartRec := { r with stack := r.stack.dropLast }

theorem addHist_parts (w : World) (p d : Nat) :
    (w.addHist p d).parts = modAll (addH d) (histIdxs w.parts p) w.parts :=
  histOp_parts w p (fun _ => rfl)

theorem dropHist_parts (w : World) (p : Nat) :
    (w.dropHist p).parts = modAll dropH (histIdxs w.parts p) w.parts :=
  histOp_parts w p (fun _ => rfl)

theorem dropH_addH (d : Nat) (r : PartRec) : dropH (addH d r) = r := by
  simp [dropH, addH]

theorem popS_pushS (x : Nat) (r : PartRec) : popS (pushS x r) = r := by
  simp [popS, pushS]

/-- The kids of every record survive a `modAll` with a kids-preserving function. -/
theorem modAll_kids {g : PartRec → PartRec} (hk : ∀ r, (g r).kids = r.kids) (idxs : List Nat)
    (ps : List PartRec) (i : Nat) :
    ((modAll g idxs ps).getD i default).kids = (ps.getD i default).kids := by
  rw [List.getD_eq_getElem?_getD, List.getD_eq_getElem?_getD, modAll_getElem?]
  cases ps[i]? with
  | none => rfl
  | some r => exact iter_preserve PartRec.kids hk _ _

theorem histIdxs_modAll {g : PartRec → PartRec} (hk : ∀ r, (g r).kids = r.kids) (idxs : List Nat)
    (ps : List PartRec) (p : Nat) : histIdxs (modAll g idxs ps) p = histIdxs ps p := by
  unfold histIdxs; rw [modAll_kids hk]

/-- `dropHist` undoes `addHist` — for every parts table, valid ids or not, batches with repeated
or self-referential kids included. -/
theorem dropHist_addHist_parts {w w2 : World} {p d : Nat} (h : w2.parts = (w.addHist p d).parts) :
    (w2.dropHist p).parts = w.parts := by
  rw [dropHist_parts, h, addHist_parts, histIdxs_modAll (g := addH d) (fun _ => rfl)]
  apply List.ext_getElem?
  intro i
  rw [modAll_getElem?, modAll_getElem?]
  cases w.parts[i]? with
  | none => rfl
  | some r => simp only [Option.map_some]; rw [iter_cancel (dropH_addH d)]

/-- Pop and `dropHist` undo push and `addHist` (the bracket of a group path). -/
theorem gpath_restore_parts {w w3 : World} {p x : Nat}
    (h : w3.parts = ((w.modPart p (pushS x)).addHist p x).parts) :
    ((w3.modPart p popS).dropHist p).parts = w.parts := by
  rw [dropHist_parts, modPart_parts_eq_modAll, h, addHist_parts, modPart_parts_eq_modAll,
    histIdxs_modAll (g := popS) (fun _ => rfl), histIdxs_modAll (g := addH x) (fun _ => rfl),
    histIdxs_modAll (g := pushS x) (fun _ => rfl)]
  apply List.ext_getElem?
  intro i
  rw [modAll_getElem?, modAll_getElem?, modAll_getElem?, modAll_getElem?]
  cases w.parts[i]? with
  | none => rfl
  | some r =>
    simp only [Option.map_some]
    rw [iter_iter_comm (g := popS) (h := addH x) (fun _ => rfl), iter_cancel (dropH_addH x),
      iter_cancel (popS_pushS x)]

/-- Pushing the popped group path back restores the parts table. -/
theorem goutput_restore_parts {w w2 : World} {p g : Nat}
    (hg : (w.part p).stack.getLast? = some g) (h : w2.parts = (w.modPart p popS).parts) :
    (w2.modPart p (pushS g)).parts = w.parts := by
  rw [modPart_parts_eq_modAll, h, modPart_parts_eq_modAll]
  apply List.ext_getElem?
  intro i
  rw [modAll_getElem?, modAll_getElem?]
  cases hr : w.parts[i]? with
  | none => rfl
  | some r =>
    simp only [Option.map_some]
    by_cases hi : p = i
    · subst hi
      have hp : w.part p = r := by simp [part, List.getD_eq_getElem?_getD, hr]
      rw [hp] at hg
      simp only [List.count_cons_self, List.count_nil, iter, pushS, popS]
      have : r.stack.dropLast ++ [g] = r.stack := by
        have hne : r.stack ≠ [] := by intro h0; rw [h0] at hg; simp at hg
        have hl := List.getLast?_eq_some_getLast hne
        rw [hl] at hg
        have hg' : r.stack.getLast hne = g := by simpa using hg
        rw [← hg']
        exact List.dropLast_concat_getLast hne
      rw [this]
    · rw [List.count_cons_of_ne hi]; rfl

/-! ### the frame of a refused hand-over -/

/-- A device without the "waiting for resources" flag (the only device field a refusal may set). -/
def _root_.SimProc.Dev.noWR (d : Dev) : Dev := { d with waitingRes := false }

/-- What a refused hand-over leaves untouched besides the parts table: everything except the event
queue, the logs, the error flag, the resource manager and the devices' `waitingRes` flags. -/
def refFrame (w : World) : World :=
  { w.inert with parts := [], devs := w.devs.map Dev.noWR }

theorem refFrame_of_eq {w w' : World} (h1 : w'.inert = w.inert)
    (h2 : w'.devs.map Dev.noWR = w.devs.map Dev.noWR) : refFrame w' = refFrame w := by
  unfold refFrame; rw [h1, h2]

theorem refFrame_of_noParts_eq {w w' : World} (h : w'.noParts = w.noParts) :
    refFrame w' = refFrame w := by
  show refFrame w'.noParts = refFrame w.noParts
  rw [h]

theorem refFrame_setErr (w : World) (m : String) : refFrame (w.setErr m) = refFrame w :=
  refFrame_of_eq (inert_of_noFlow_eq (setErr_noFlow w m)) (by rw [setErr_devs])

theorem refFrame_modPart (w : World) (p : Nat) (g : PartRec → PartRec) :
    refFrame (w.modPart p g) = refFrame w := rfl

theorem refFrame_addHist (w : World) (p d : Nat) : refFrame (w.addHist p d) = refFrame w :=
  refFrame_of_noParts_eq (addHist_noParts w p d)

theorem refFrame_dropHist (w : World) (p : Nat) : refFrame (w.dropHist p) = refFrame w :=
  refFrame_of_noParts_eq (dropHist_noParts w p)

/-- The refusing branches of `procAcquire` touch, on the devices, only `waitingRes` of `x`. -/
theorem procAcquire_false_devs (w : World) (x : Nat) (h : (w.procAcquire x).2 = false) :
    ∃ wr, (w.procAcquire x).1.devs =
      (w.modDev x (fun d => { d with waitingRes := wr })).devs := by
  have keep : w.devs = (w.modDev x (fun d => { d with waitingRes := (w.dev x).waitingRes })).devs := by
    rw [modDev_of_fix]; rfl
  revert h
  unfold procAcquire
  dsimp only
  repeat' split
  all_goals first
    | (intro _; exact ⟨_, keep⟩)
    | (intro _; exact ⟨_, (setErr_devs _ _).trans keep⟩)
    | (intro h; cases h; done)
    | skip
  · intro _
    refine ⟨true, ?_⟩
    exact modDev_devs_congr (rmEffects_devs _ _ _) _ _

theorem refFrame_procAcquire_false {w w' : World} {x : Nat} (h : w.procAcquire x = (w', false)) :
    refFrame w' = refFrame w := by
  have h1 : (w.procAcquire x).1 = w' := by rw [h]
  have h2 : (w.procAcquire x).2 = false := by rw [h]
  subst h1
  refine refFrame_of_eq (procAcquire_inert w x) ?_
  obtain ⟨wr, hd⟩ := procAcquire_false_devs w x h2
  rw [hd]
  exact map_set_of_eq Dev.noWR w.devs x _ default rfl

theorem refFrame_devs {w w' : World} (h : refFrame w' = refFrame w) :
    w'.devs.map Dev.noWR = w.devs.map Dev.noWR := congrArg World.devs h

theorem refFrame_dev {w w' : World} (h : refFrame w' = refFrame w) (y : Nat) :
    (w'.dev y).noWR = (w.dev y).noWR := by
  have hd := refFrame_devs h
  have h1 := getD_map Dev.noWR w'.devs y default
  have h2 := getD_map Dev.noWR w.devs y default
  unfold dev
  rw [← h1, ← h2, hd]

theorem refFrame_devs_length {w w' : World} (h : refFrame w' = refFrame w) :
    w'.devs.length = w.devs.length := by
  have := congrArg List.length (refFrame_devs h)
  simpa using this

/-- Refusal relation: parts table and frame unchanged. -/
def Refused (w w' : World) : Prop := w'.parts = w.parts ∧ refFrame w' = refFrame w

theorem Refused.refl (w : World) : Refused w w := ⟨rfl, rfl⟩

theorem tryList_refused {g : World → Nat → Nat → World × Bool} {p : Nat}
    (hg : ∀ w y w', g w y p = (w', false) → Refused w w')
    {w w' : World} {l : List Nat} (h : tryList g w l p = (w', false)) : Refused w w' := by
  have := tryList_false_preserve (g := g) (fun w => (w.parts, refFrame w)) (p := p)
    (fun w y w' h => by rw [(hg w y w' h).1, (hg w y w' h).2]) h
  exact ⟨congrArg Prod.fst this, congrArg Prod.snd this⟩

/-- A refused hand-over (to any kind of device, through any nesting of gates and groups) leaves
the parts table and the frame exactly as they were. -/
theorem give_refused (f : Nat) : ∀ (w : World) (x p : Nat) (w' : World),
    give f w x p = (w', false) → Refused w w' := by
  induction f with
  | zero =>
    intro w x p w' h
    rw [give.eq_1] at h
    have : w.setErr "fuel" = w' := by simpa using h
    subst this
    exact ⟨setErr_parts _ _, refFrame_setErr _ _⟩
  | succ f ih =>
    intro w x p w' h
    have ihl : ∀ {w w' : World} {l : List Nat}, tryList (give f) w l p = (w', false) →
        Refused w w' := fun h => tryList_refused (fun w y w' h => ih w y p w' h) h
    rw [give.eq_2] at h
    split at h
    -- source, handler, buffer, batcher, sink
    iterate 5
      · split at h
        · simp at h
        · have : w = w' := by simpa using h
          subst this; exact Refused.refl _
    -- processor
    · split at h
      · split at h
        · simp at h
        · next w1 hacq =>
          have : w1 = w' := by simpa using h
          subst this
          exact ⟨procAcquire_fst_parts w x ▸ by rw [hacq], refFrame_procAcquire_false hacq⟩
      · have : w = w' := by simpa using h
        subst this; exact Refused.refl _
    -- gate
    · split at h
      · have : w = w' := by simpa using h
        subst this; exact Refused.refl _
      · split at h
        · have : w = w' := by simpa using h
          subst this; exact Refused.refl _
        · dsimp only at h
          split at h
          · simp at h
          · next w2 htl =>
            have : w2.dropHist p = w' := by simpa using h
            subst this
            have hr := ihl htl
            exact ⟨dropHist_addHist_parts hr.1,
              by rw [refFrame_dropHist, hr.2, refFrame_addHist]⟩
    -- ginput
    · split at h
      · have : w = w' := by simpa using h
        subst this; exact Refused.refl _
      · exact ihl h
    -- gpath
    · split at h
      · have : w = w' := by simpa using h
        subst this; exact Refused.refl _
      · dsimp only at h
        split at h
        · simp at h
        · next w3 hgv =>
          have : (w3.modPart p popS).dropHist p = w' := (Prod.mk.inj h).1
          subst this
          have hr := ih _ _ _ _ hgv
          exact ⟨gpath_restore_parts hr.1,
            by rw [refFrame_dropHist, refFrame_modPart, hr.2, refFrame_addHist, refFrame_modPart]⟩
    -- goutput
    · split at h
      · have : w.setErr "no-group-path" = w' := by simpa using h
        subst this
        exact ⟨setErr_parts _ _, refFrame_setErr _ _⟩
      · next g hgl =>
        dsimp only at h
        split at h
        · simp at h
        · next w2 htl =>
          have : w2.modPart p (pushS g) = w' := (Prod.mk.inj h).1
          subst this
          have hr := ihl htl
          exact ⟨goutput_restore_parts hgl hr.1,
            by rw [refFrame_modPart, hr.2, refFrame_modPart]⟩

/-! ### routing histories and group-path stacks of the existing parts are never rewritten -/

/-- `w'` has at least the parts of `w`, and the old parts have the same history and stack. -/
def HS (w w' : World) : Prop :=
  w.parts.length ≤ w'.parts.length ∧
    ∀ q, q < w.parts.length →
      (w'.part q).hist = (w.part q).hist ∧ (w'.part q).stack = (w.part q).stack

theorem HS.refl (w : World) : HS w w := ⟨Nat.le_refl _, fun _ _ => ⟨rfl, rfl⟩⟩

theorem HS.trans {a b c : World} (h1 : HS a b) (h2 : HS b c) : HS a c :=
  ⟨Nat.le_trans h1.1 h2.1, fun q hq =>
    ⟨((h2.2 q (Nat.lt_of_lt_of_le hq h1.1)).1).trans (h1.2 q hq).1,
     ((h2.2 q (Nat.lt_of_lt_of_le hq h1.1)).2).trans (h1.2 q hq).2⟩⟩

theorem HS.of_parts {w w' : World} (h : w'.parts = w.parts) : HS w w' :=
  ⟨by rw [h]; exact Nat.le_refl _, fun q _ => by rw [part_congr h]; exact ⟨rfl, rfl⟩⟩

theorem HS.foldl {α} (g : World → α → World) (hg : ∀ w a, HS w (g w a)) (l : List α) (w : World) :
    HS w (l.foldl g w) := by
  induction l generalizing w with
  | nil => exact HS.refl _
  | cons a l ih => exact (hg w a).trans (ih _)

theorem HS.modPart (w : World) (p : Nat) {g : PartRec → PartRec}
    (hg : ∀ r, (g r).hist = r.hist ∧ (g r).stack = r.stack) : HS w (w.modPart p g) :=
  ⟨by rw [modPart_parts_length]; exact Nat.le_refl _, fun q _ =>
    ⟨modPart_part_field PartRec.hist w p g (hg _).1 q,
     modPart_part_field PartRec.stack w p g (hg _).2 q⟩⟩

theorem HS.newPart (w : World) (r : PartRec) : HS w (w.newPart r).1 :=
  ⟨by rw [newPart_parts_length]; exact Nat.le_succ _, fun q hq => by
    rw [part_newPart_old hq]; exact ⟨rfl, rfl⟩⟩

theorem HS.applyPartCb (w : World) (x p : Nat) (c : PartCb) : HS w (w.applyPartCb x p c) :=
  ⟨by rw [applyPartCb_parts_length]; exact Nat.le_refl _, fun q _ =>
    ⟨applyPartCb_part_hist w x p c q, applyPartCb_part_stack w x p c q⟩⟩

theorem senseOutput_parts (w : World) (s p : Nat) : (w.senseOutput s p).parts = w.parts := by
  unfold senseOutput
  dsimp only
  split
  · rw [foldl_preserve World.parts _ _ _ (fun w c => addRes_parts w _)]
  · rfl

theorem finishCycleHandler_parts (w : World) (x : Nat) :
    (w.finishCycleHandler x).parts = w.parts := by
  unfold finishCycleHandler
  dsimp only
  split
  · simp
  · split
    · simp
    · split <;> simp

/-- Adding a history entry to a new part (whose kids are new, too) does not touch the old ones. -/
theorem HS.addHist_new {w0 w : World} {p d : Nat} (hpre : ∃ news, w.parts = w0.parts ++ news)
    (hp : w0.parts.length ≤ p) (hk : ∀ k ∈ ((w.part p).kids.getD []), w0.parts.length ≤ k) :
    HS w0 (w.addHist p d) := by
  obtain ⟨news, hn⟩ := hpre
  refine ⟨by rw [addHist_parts_length, hn, List.length_append]; omega, fun q hq => ?_⟩
  have hcount : (histIdxs w.parts p).count q = 0 := by
    rw [List.count_eq_zero]
    intro hmem
    rcases List.mem_cons.1 hmem with h | h
    · omega
    · have := hk q h; omega
  have : (w.addHist p d).part q = w0.part q := by
    unfold part
    rw [List.getD_eq_getElem?_getD, List.getD_eq_getElem?_getD, addHist_parts, modAll_getElem?,
      hcount, hn, List.getElem?_append_left hq]
    cases w0.parts[q]? <;> rfl
  rw [this]; exact ⟨rfl, rfl⟩


/-! ### `onReceived` and everything below it keeps the old histories and stacks -/

/-- `_get_part_from_input` of the batcher loop. -/
def bGet (w : World) (x p : Nat) : World × Nat :=
  match (w.part p).kids with
  | some (k :: rest) =>
    let w := w.modPart p (fun r => { r with kids := some rest })
    let w := if rest.isEmpty then w.modDev x (fun d => { d with part := none }) else w
    (w, k)
  | _ => (w.modDev x (fun d => { d with part := none }), p)

/-- The batch under construction (created on demand). -/
def bInprog (w : World) (x : Nat) : World × Nat :=
  match (w.dev x).inprog with
  | some b => (w, b)
  | none =>
    ((w.newPart { quality := 0, value := 0, kids := some [] }).1.modDev x
        (fun d => { d with inprog := some (w.newPart { quality := 0, value := 0, kids := some [] }).2 }),
      (w.newPart { quality := 0, value := 0, kids := some [] }).2)

/-- `_add_part_to_output` of the batcher loop. -/
def bAdd (w : World) (x t : Nat) : World :=
  match (w.dev x).bsize with
  | none => w.modDev x (fun d => { d with output := some t })
  | some n =>
    let w1 := ((bInprog w x).1).modPart (bInprog w x).2
      (fun r => { r with kids := some ((r.kids.getD []) ++ [t]) })
    if ((w1.part (bInprog w x).2).kids.getD []).length ≥ n then
      w1.modDev x (fun d => { d with output := some (bInprog w x).2, inprog := none })
    else w1

theorem batcherLoop_succ (n : Nat) (w : World) (x : Nat) :
    batcherLoop (n + 1) w x =
      match (w.dev x).output, (w.dev x).part with
      | none, some p => batcherLoop n (bAdd (bGet w x p).1 x (bGet w x p).2) x
      | _, _ => w := rfl

theorem HS.parts_right {a b c : World} (h : c.parts = b.parts) (h1 : HS a b) : HS a c :=
  h1.trans (HS.of_parts h)

section right
variable {a b : World}
theorem HS.modDev_right {x : Nat} {f : Dev → Dev} (h : HS a b) : HS a (b.modDev x f) :=
  HS.parts_right (by simp) h
theorem HS.setDev_right {x : Nat} {d : Dev} (h : HS a b) : HS a (b.setDev x d) :=
  HS.parts_right (by simp) h
theorem HS.addRec_right {r : Rec} (h : HS a b) : HS a (b.addRec r) :=
  HS.parts_right (by simp) h
theorem HS.setErr_right {m : String} (h : HS a b) : HS a (b.setErr m) :=
  HS.parts_right (by simp) h
theorem HS.schedLib_right {t as : Int} {act : Action} {pr : Int} (h : HS a b) :
    HS a (b.schedLib t as act pr) := HS.parts_right (by simp) h
theorem HS.schedulePass_right {x : Nat} {o : Int} (h : HS a b) : HS a (b.schedulePass x o) :=
  HS.parts_right (by simp) h
theorem HS.notify_right {x : Nat} (h : HS a b) : HS a (b.notify x) :=
  HS.parts_right (by simp) h
theorem HS.setWaiting_right {x : Nat} {c d : Bool} (h : HS a b) : HS a (b.setWaiting x c d) :=
  HS.parts_right (by simp) h
theorem HS.senseOutput_right {s p : Nat} (h : HS a b) : HS a (b.senseOutput s p) :=
  HS.parts_right (senseOutput_parts _ _ _) h
theorem HS.finishCycleHandler_right {x : Nat} (h : HS a b) : HS a (b.finishCycleHandler x) :=
  HS.parts_right (finishCycleHandler_parts _ _) h
theorem HS.applyPartCb_right {x p : Nat} {c : PartCb} (h : HS a b) : HS a (b.applyPartCb x p c) :=
  h.trans (HS.applyPartCb _ _ _ _)
theorem HS.newPart_right {r : PartRec} (h : HS a b) : HS a (b.newPart r).1 :=
  h.trans (HS.newPart _ _)
theorem HS.modPartKids_right {p : Nat} {k : PartRec → Option (List Nat)} (h : HS a b) :
    HS a (b.modPart p (fun r => { r with kids := k r })) :=
  h.trans (HS.modPart _ _ (fun _ => ⟨rfl, rfl⟩))
theorem HS.foldl_right {α} {g : World → α → World} (hg : ∀ w c, HS w (g w c)) {l : List α}
    (h : HS a b) : HS a (l.foldl g b) := h.trans (HS.foldl g hg l b)
end right

/-- One step of peeling a parts-preserving (or history-preserving) operation off the right. -/
syntax "hs_step" : tactic
macro_rules
  | `(tactic| hs_step) =>
    `(tactic| first
    | exact HS.refl _
    | with_reducible apply HS.finishCycleHandler_right
    | with_reducible apply HS.senseOutput_right
    | with_reducible apply HS.applyPartCb_right
    | with_reducible apply HS.notify_right
    | with_reducible apply HS.schedulePass_right
    | with_reducible apply HS.setWaiting_right
    | with_reducible apply HS.schedLib_right
    | with_reducible apply HS.setErr_right
    | with_reducible apply HS.addRec_right
    | with_reducible apply HS.newPart_right
    | with_reducible apply HS.modPartKids_right
    | with_reducible apply HS.modDev_right
    | with_reducible apply HS.setDev_right)

theorem HS.bGet (w : World) (x p : Nat) : HS w (bGet w x p).1 := by
  unfold C08L.bGet
  split
  · dsimp only
    split <;> repeat hs_step
  · repeat hs_step

theorem HS.bInprog (w : World) (x : Nat) : HS w (bInprog w x).1 := by
  unfold C08L.bInprog
  split <;> repeat hs_step

theorem HS.bAdd (w : World) (x t : Nat) : HS w (bAdd w x t) := by
  unfold C08L.bAdd
  split
  · repeat hs_step
  · dsimp only
    split
    · apply HS.modDev_right; apply HS.modPartKids_right; exact HS.bInprog w x
    · apply HS.modPartKids_right; exact HS.bInprog w x

theorem HS.batcherLoop (n : Nat) (w : World) (x : Nat) : HS w (batcherLoop n w x) := by
  induction n generalizing w with
  | zero => exact HS.refl _
  | succ n ih =>
    rw [batcherLoop_succ]
    split
    · exact ((HS.bGet w x _).trans (HS.bAdd _ x _)).trans (ih _)
    · exact HS.refl _

theorem HS.batcherLoop_right {a b : World} {n x : Nat} (h : HS a b) :
    HS a (World.batcherLoop n b x) := h.trans (HS.batcherLoop _ _ _)

macro_rules | `(tactic| hs_step) => `(tactic| with_reducible apply HS.batcherLoop_right)

theorem genKids_spec (w0 : World) (r0 : PartRec) (l : List Nat) :
    ∀ (acc : World × List Nat), (∃ news, acc.1.parts = w0.parts ++ news) →
      (∀ k ∈ acc.2, w0.parts.length ≤ k) →
      (∃ news, (l.foldl (fun (acc : World × List Nat) (_ : Nat) =>
          ((acc.1.newPart r0).1, acc.2 ++ [(acc.1.newPart r0).2])) acc).1.parts
            = w0.parts ++ news) ∧
      (∀ k ∈ (l.foldl (fun (acc : World × List Nat) (_ : Nat) =>
          ((acc.1.newPart r0).1, acc.2 ++ [(acc.1.newPart r0).2])) acc).2,
            w0.parts.length ≤ k) := by
  induction l with
  | nil => intro acc h1 h2; exact ⟨h1, h2⟩
  | cons a l ih =>
    intro acc h1 h2
    rw [List.foldl_cons]
    apply ih
    · obtain ⟨news, hn⟩ := h1
      exact ⟨news ++ [r0], by rw [newPart_parts, hn, List.append_assoc]⟩
    · intro k hk
      rcases List.mem_append.1 hk with hk | hk
      · exact h2 k hk
      · obtain ⟨news, hn⟩ := h1
        have : k = acc.1.parts.length := by simpa using hk
        rw [this, hn, List.length_append]; omega

/-- A freshly generated part: the old parts are kept, the new id and its kids are new ids. -/
theorem genPart_spec (w : World) (x : Nat) :
    ∃ news, (w.genPart x).1.parts = w.parts ++ news ∧ w.parts.length ≤ (w.genPart x).2 ∧
      ∀ k ∈ (((w.genPart x).1.part (w.genPart x).2).kids.getD []), w.parts.length ≤ k := by
  unfold genPart
  dsimp only
  split
  · refine ⟨[_], rfl, Nat.le_refl _, ?_⟩
    intro k hk
    simp [newPart, part, List.getD_eq_getElem?_getD] at hk
  · have hkey := genKids_spec w ⟨(w.dev x).genQuality, (w.dev x).genValue, [], [], none⟩
      (List.range (w.dev x).genBatch.toNat) (w, []) ⟨[], by simp⟩ (by simp)
    generalize List.foldl (fun (acc : World × List Nat) (_ : Nat) =>
      ((acc.1.newPart ⟨(w.dev x).genQuality, (w.dev x).genValue, [], [], none⟩).1,
        acc.2 ++ [(acc.1.newPart ⟨(w.dev x).genQuality, (w.dev x).genValue, [], [], none⟩).2]))
          (w, []) (List.range (w.dev x).genBatch.toNat) = W at hkey ⊢
    obtain ⟨⟨news, hn⟩, hk⟩ := hkey
    refine ⟨news ++ [⟨0, 0, [], [], some W.2⟩], ?_, ?_, ?_⟩
    · rw [newPart_parts]
      show W.1.parts ++ [_] = _
      rw [hn, List.append_assoc]
    · rw [newPart_snd]
      show w.parts.length ≤ W.1.parts.length
      rw [hn, List.length_append]; omega
    · rw [newPart_snd]
      intro k hk'
      rw [show ∀ (w0 : World) (r : PartRec), (w0.newPart r).1.part w0.parts.length = r from
        fun _ _ => part_newPart_new] at hk'
      exact hk k (by simpa using hk')

theorem HS.finishCycle (w : World) (x : Nat) : HS w (w.finishCycle x) := by
  unfold World.finishCycle
  dsimp only
  split
  · -- source
    apply HS.schedulePass_right
    split
    · obtain ⟨news, h1, h2, h3⟩ := genPart_spec w x
      exact HS.addHist_new (w0 := w) ⟨news, by simpa using h1⟩ h2 (by simpa using h3)
    · exact HS.refl _
  · repeat hs_step
  · -- processor
    split
    · split <;> repeat hs_step
    · apply HS.addRec_right
      apply HS.foldl_right (fun w s => HS.senseOutput_right (HS.refl w))
      apply HS.foldl_right (fun w c => HS.applyPartCb_right (HS.refl w))
      split <;> repeat hs_step
  · repeat hs_step

theorem HS.finishCycle_right {a b : World} {x : Nat} (h : HS a b) : HS a (b.finishCycle x) :=
  h.trans (HS.finishCycle _ _)

macro_rules | `(tactic| hs_step) => `(tactic| with_reducible apply HS.finishCycle_right)

theorem HS.scheduleFinish (w : World) (x : Nat) : HS w (w.scheduleFinish x) := by
  unfold World.scheduleFinish
  dsimp only
  repeat' split
  all_goals repeat hs_step

theorem HS.scheduleFinish_right {a b : World} {x : Nat} (h : HS a b) :
    HS a (b.scheduleFinish x) := h.trans (HS.scheduleFinish _ _)

macro_rules | `(tactic| hs_step) => `(tactic| with_reducible apply HS.scheduleFinish_right)

theorem HS.tryMove (w : World) (x : Nat) : HS w (w.tryMove x) := by
  unfold World.tryMove
  dsimp only
  repeat' split
  all_goals repeat hs_step

theorem HS.tryMove_right {a b : World} {x : Nat} (h : HS a b) : HS a (b.tryMove x) :=
  h.trans (HS.tryMove _ _)

/-- The class-specific bookkeeping at the start of `_on_received_new_part`. -/
def recvPre (w : World) (x p : Nat) : World :=
  match (w.dev x).kind with
  | .sink =>
    w.setDev x { w.dev x with
      recvCount := (w.dev x).recvCount + w.leafCount p
      recvValue := (w.dev x).recvValue + w.partValue p
      val := (w.dev x).val.addValue lblCollected w.now (w.partValue p)
      collected := if (w.dev x).collect then (w.dev x).collected ++ [p] else (w.dev x).collected }
  | .buffer =>
    (w.setDev x { w.dev x with level := (w.dev x).level + w.leafCount p }).addRec
      (.level x w.now ((w.setDev x { w.dev x with level := (w.dev x).level + w.leafCount p }).dev x).level)
  | _ => w

theorem onReceived_eq (w : World) (x p : Nat) :
    w.onReceived x p =
      (if (((recvPre w x p).dev x).recvCbs.foldl (fun w c => w.applyPartCb x p c)
            ((recvPre w x p).addRec (.received x (recvPre w x p).now p ((recvPre w x p).part p).quality
              ((recvPre w x p).partValue p)))).dev x |>.output.isNone
       then ((((recvPre w x p).addRec (.received x (recvPre w x p).now p ((recvPre w x p).part p).quality
              ((recvPre w x p).partValue p))).dev x).recvCbs.foldl (fun w c => w.applyPartCb x p c)
            ((recvPre w x p).addRec (.received x (recvPre w x p).now p ((recvPre w x p).part p).quality
              ((recvPre w x p).partValue p)))).tryMove x
       else (((recvPre w x p).addRec (.received x (recvPre w x p).now p ((recvPre w x p).part p).quality
              ((recvPre w x p).partValue p))).dev x).recvCbs.foldl (fun w c => w.applyPartCb x p c)
            ((recvPre w x p).addRec (.received x (recvPre w x p).now p ((recvPre w x p).part p).quality
              ((recvPre w x p).partValue p)))) := rfl

theorem recvPre_parts (w : World) (x p : Nat) : (recvPre w x p).parts = w.parts := by
  unfold recvPre; split <;> simp

theorem HS.onReceived (w : World) (x p : Nat) : HS w (w.onReceived x p) := by
  rw [onReceived_eq]
  have h0 : HS w (recvPre w x p) := HS.of_parts (recvPre_parts w x p)
  split
  · apply HS.tryMove_right
    apply HS.foldl_right (fun w c => HS.applyPartCb_right (HS.refl w))
    exact HS.addRec_right h0
  · apply HS.foldl_right (fun w c => HS.applyPartCb_right (HS.refl w))
    exact HS.addRec_right h0

/-! ### what `addHist` does to the histories -/

theorem iter_addH (d : Nat) (n : Nat) (r : PartRec) :
    iter (addH d) n r = { r with hist := r.hist ++ List.replicate n d } := by
  induction n generalizing r with
  | zero => simp [iter]
  | succ n ih =>
    simp only [iter]; rw [ih]
    simp [addH, List.replicate_succ]

theorem part_eq_of_getElem? {w : World} {q : Nat} {r : PartRec} (h : w.parts[q]? = some r) :
    w.part q = r := by
  simp [part, List.getD_eq_getElem?_getD, h]

/-- The history of an existing part after `addHist p d`: one more `d` for each occurrence of the
part in `p :: kids p`. -/
theorem addHist_part_hist (w : World) (p d q : Nat) (hq : q < w.parts.length) :
    ((w.addHist p d).part q).hist =
      (w.part q).hist ++ List.replicate ((histIdxs w.parts p).count q) d := by
  have h1 : (w.addHist p d).parts[q]? = some (iter (addH d) ((histIdxs w.parts p).count q) w.parts[q]) := by
    rw [addHist_parts, modAll_getElem?, List.getElem?_eq_getElem hq]; rfl
  rw [part_eq_of_getElem? h1, part_eq_of_getElem? (List.getElem?_eq_getElem hq), iter_addH]

theorem addHist_part_of_notin (w : World) (p d q : Nat) (hq : q ∉ histIdxs w.parts p) :
    (w.addHist p d).part q = w.part q := by
  unfold part
  rw [List.getD_eq_getElem?_getD, List.getD_eq_getElem?_getD, addHist_parts, modAll_getElem?,
    List.count_eq_zero.2 hq]
  cases w.parts[q]? <;> rfl

theorem addHist_parts_congr {w w1 : World} (h : w1.parts = w.parts) (p d : Nat) :
    (w1.addHist p d).parts = (w.addHist p d).parts := by
  rw [addHist_parts, addHist_parts, h]

/-! ### histories only grow -/

/-- `w'` has at least the parts of `w`, and the history of every old part has only been extended. -/
def HistExt (w w' : World) : Prop :=
  w.parts.length ≤ w'.parts.length ∧
    ∀ q, q < w.parts.length → (w.part q).hist <+: (w'.part q).hist

theorem HistExt.refl (w : World) : HistExt w w := ⟨Nat.le_refl _, fun _ _ => List.prefix_refl _⟩

theorem HistExt.trans {a b c : World} (h1 : HistExt a b) (h2 : HistExt b c) : HistExt a c :=
  ⟨Nat.le_trans h1.1 h2.1, fun q hq =>
    (h1.2 q hq).trans (h2.2 q (Nat.lt_of_lt_of_le hq h1.1))⟩

theorem HistExt.of_HS {w w' : World} (h : HS w w') : HistExt w w' :=
  ⟨h.1, fun q hq => by rw [(h.2 q hq).1]; exact List.prefix_refl _⟩

theorem HistExt.of_parts {w w' : World} (h : w'.parts = w.parts) : HistExt w w' :=
  HistExt.of_HS (HS.of_parts h)

theorem HistExt.addHist (w : World) (p d : Nat) : HistExt w (w.addHist p d) :=
  ⟨by rw [addHist_parts_length]; exact Nat.le_refl _, fun q hq => by
    rw [addHist_part_hist w p d q hq]; exact List.prefix_append _ _⟩

/-! ### `acceptPart` -/

/-- The state in which `onReceived` starts: slot filled, history extended, waiting flag reset. -/
def acceptPre (w : World) (x p : Nat) : World :=
  (((if (w.dev x).kind == .sink then { w with delivered := w.delivered ++ w.leavesOf p } else w).modDev x
    (fun d => { d with part := some p })).addHist p x).setWaiting x false false

theorem acceptPart_eq (w : World) (x p : Nat) :
    w.acceptPart x p = (acceptPre w x p).onReceived x p := rfl

theorem acceptPre_parts (w : World) (x p : Nat) :
    (acceptPre w x p).parts = (w.addHist p x).parts := by
  unfold acceptPre
  rw [setWaiting_parts]
  apply addHist_parts_congr
  rw [modDev_parts]
  split <;> rfl

/-- `acceptPart` changes the histories of the existing parts exactly as `addHist p x` does, and
leaves their group-path stacks alone. -/
theorem acceptPart_hist_stack (w : World) (x p q : Nat) (hq : q < w.parts.length) :
    ((w.acceptPart x p).part q).hist = ((w.addHist p x).part q).hist ∧
    ((w.acceptPart x p).part q).stack = (w.part q).stack ∧
    w.parts.length ≤ (w.acceptPart x p).parts.length := by
  have hs := HS.onReceived (acceptPre w x p) x p
  rw [← acceptPart_eq] at hs
  have hlen : (acceptPre w x p).parts.length = w.parts.length := by
    rw [acceptPre_parts, addHist_parts_length]
  have hq' : q < (acceptPre w x p).parts.length := by rw [hlen]; exact hq
  have hp := part_congr (acceptPre_parts w x p) q
  refine ⟨by rw [(hs.2 q hq').1, hp], by rw [(hs.2 q hq').2, hp, addHist_part_stack], ?_⟩
  rw [← hlen]; exact hs.1

theorem HistExt.acceptPart (w : World) (x p : Nat) : HistExt w (w.acceptPart x p) := by
  rw [acceptPart_eq]
  exact ((HistExt.addHist w p x).trans (HistExt.of_parts (acceptPre_parts w x p))).trans
    (HistExt.of_HS (HS.onReceived _ x p))

theorem HistExt.modPart (w : World) (p : Nat) {g : PartRec → PartRec}
    (hg : ∀ r, (g r).hist = r.hist) : HistExt w (w.modPart p g) :=
  ⟨by rw [modPart_parts_length]; exact Nat.le_refl _, fun q _ => by
    rw [modPart_part_field PartRec.hist w p g (hg _) q]; exact List.prefix_refl _⟩

theorem tryList_true_histExt {g : World → Nat → Nat → World × Bool} {p : Nat}
    (hf : ∀ w y w', g w y p = (w', false) → Refused w w')
    (ht : ∀ w y w', g w y p = (w', true) → HistExt w w')
    {w w' : World} {l : List Nat} (h : tryList g w l p = (w', true)) : HistExt w w' := by
  obtain ⟨l1, y, l2, wm, _, h1, h2⟩ := tryList_true h
  exact (HistExt.of_parts (tryList_refused hf h1).1).trans (ht _ _ _ h2)

/-- A successful hand-over only ever extends routing histories. -/
theorem give_true_histExt (f : Nat) : ∀ (w : World) (x p : Nat) (w' : World),
    give f w x p = (w', true) → HistExt w w' := by
  induction f with
  | zero => intro w x p w' h; rw [give.eq_1] at h; simp at h
  | succ f ih =>
    intro w x p w' h
    have ihl : ∀ {w w' : World} {l : List Nat}, tryList (give f) w l p = (w', true) →
        HistExt w w' := fun h =>
      tryList_true_histExt (fun w y w' h => give_refused f w y p w' h)
        (fun w y w' h => ih w y p w' h) h
    rw [give.eq_2] at h
    split at h
    iterate 5
      · split at h
        · have : w.acceptPart x p = w' := (Prod.mk.inj h).1
          subst this; exact HistExt.acceptPart _ _ _
        · simp at h
    -- processor
    · split at h
      · split at h
        · next w1 hacq =>
          have : w1.acceptPart x p = w' := (Prod.mk.inj h).1
          subst this
          have hp : w1.parts = w.parts := by
            have := procAcquire_fst_parts w x; rw [hacq] at this; exact this
          exact (HistExt.of_parts hp).trans (HistExt.acceptPart _ _ _)
        · simp at h
      · simp at h
    -- gate
    · split at h
      · simp at h
      · split at h
        · simp at h
        · dsimp only at h
          split at h
          · next w2 htl =>
            have : w2 = w' := (Prod.mk.inj h).1
            subst this
            exact (HistExt.addHist w p x).trans (ihl htl)
          · simp at h
    -- ginput
    · split at h
      · simp at h
      · exact ihl h
    -- gpath
    · split at h
      · simp at h
      · dsimp only at h
        split at h
        · next w3 hgv =>
          have : w3 = w' := (Prod.mk.inj h).1
          subst this
          exact ((HistExt.modPart w p (g := pushS x) (fun _ => rfl)).trans (HistExt.addHist _ p x)).trans
            (ih _ _ _ _ hgv)
        · simp at h
    -- goutput
    · split at h
      · simp at h
      · dsimp only at h
        split at h
        · next w2 htl =>
          have : w2 = w' := (Prod.mk.inj h).1
          subst this
          exact (HistExt.modPart w p (g := popS) (fun _ => rfl)).trans (ihl htl)
        · simp at h

theorem give_histExt {f : Nat} {w w' : World} {x p : Nat} {b : Bool}
    (h : give f w x p = (w', b)) : HistExt w w' := by
  cases b
  · exact HistExt.of_parts (give_refused f w x p w' h).1
  · exact give_true_histExt f w x p w' h

/-! ### the `collected` lists: only `recvPre` of a collecting sink touches them -/

/-- Every device keeps its `collected` list. -/
def CollEq (a b : World) : Prop := ∀ y, (b.dev y).collected = (a.dev y).collected

theorem CollEq.refl (a : World) : CollEq a a := fun _ => rfl

theorem CollEq.trans {a b c : World} (h1 : CollEq a b) (h2 : CollEq b c) : CollEq a c :=
  fun y => (h2 y).trans (h1 y)

section right
variable {a b : World}

theorem CollEq.devs_right {c : World} (h : c.devs = b.devs) (h1 : CollEq a b) : CollEq a c :=
  fun y => by rw [dev_congr h]; exact h1 y

theorem CollEq.core_right {c : World} (h : c.core = b.core) (h1 : CollEq a b) : CollEq a c :=
  fun y => by rw [core_eq_dev_collected h]; exact h1 y

theorem CollEq.modDev_right {x : Nat} {f : Dev → Dev} (hf : ∀ d, (f d).collected = d.collected)
    (h : CollEq a b) : CollEq a (b.modDev x f) :=
  fun y => by rw [modDev_dev_field Dev.collected b x f (hf _) y]; exact h y

theorem CollEq.setDev_right {x : Nat} {d : Dev} (hd : d.collected = (b.dev x).collected)
    (h : CollEq a b) : CollEq a (b.setDev x d) :=
  fun y => by
    rw [dev_setDev]
    split
    · next hxy => rw [hd, hxy.1]; exact h y
    · exact h y

theorem CollEq.addRec_right {r : Rec} (h : CollEq a b) : CollEq a (b.addRec r) :=
  CollEq.devs_right (by simp) h
theorem CollEq.setErr_right {m : String} (h : CollEq a b) : CollEq a (b.setErr m) :=
  CollEq.devs_right (by simp) h
theorem CollEq.schedLib_right {t as : Int} {act : Action} {pr : Int} (h : CollEq a b) :
    CollEq a (b.schedLib t as act pr) := CollEq.devs_right (by simp) h
theorem CollEq.modPart_right {p : Nat} {g : PartRec → PartRec} (h : CollEq a b) :
    CollEq a (b.modPart p g) := CollEq.devs_right (by simp) h
theorem CollEq.newPart_right {r : PartRec} (h : CollEq a b) : CollEq a (b.newPart r).1 :=
  CollEq.devs_right (by simp) h
theorem CollEq.addHist_right {p d : Nat} (h : CollEq a b) : CollEq a (b.addHist p d) :=
  CollEq.devs_right (by simp) h
theorem CollEq.schedulePass_right {x : Nat} {o : Int} (h : CollEq a b) :
    CollEq a (b.schedulePass x o) := CollEq.core_right (by simp) h
theorem CollEq.notify_right {x : Nat} (h : CollEq a b) : CollEq a (b.notify x) :=
  CollEq.core_right (by simp) h
theorem CollEq.setWaiting_right {x : Nat} {c d : Bool} (h : CollEq a b) :
    CollEq a (b.setWaiting x c d) := CollEq.core_right (by simp) h
theorem CollEq.applyPartCb_right {x p : Nat} {c : PartCb} (h : CollEq a b) :
    CollEq a (b.applyPartCb x p c) :=
  fun y => by rw [applyPartCb_dev_field Dev.collected (fun _ _ _ => rfl)]; exact h y
theorem CollEq.foldl_right {α} {g : World → α → World} (hg : ∀ w c, CollEq w (g w c)) {l : List α}
    (h : CollEq a b) : CollEq a (l.foldl g b) := by
  induction l generalizing b with
  | nil => exact h
  | cons c l ih => exact ih (h.trans (hg _ _))

theorem senseOutput_devs (w : World) (s p : Nat) : (w.senseOutput s p).devs = w.devs := by
  unfold senseOutput
  dsimp only
  split
  · rw [foldl_preserve World.devs _ _ _ (fun w c => addRes_devs w _)]
  · rfl

theorem CollEq.senseOutput_right {s p : Nat} (h : CollEq a b) : CollEq a (b.senseOutput s p) :=
  CollEq.devs_right (senseOutput_devs _ _ _) h
end right

syntax "cs_step" : tactic
macro_rules
  | `(tactic| cs_step) =>
    `(tactic| first
    | exact CollEq.refl _
    | with_reducible apply CollEq.senseOutput_right
    | with_reducible apply CollEq.applyPartCb_right
    | with_reducible apply CollEq.notify_right
    | with_reducible apply CollEq.schedulePass_right
    | with_reducible apply CollEq.setWaiting_right
    | with_reducible apply CollEq.schedLib_right
    | with_reducible apply CollEq.setErr_right
    | with_reducible apply CollEq.addRec_right
    | with_reducible apply CollEq.newPart_right
    | with_reducible apply CollEq.addHist_right
    | with_reducible apply CollEq.modPart_right
    | (with_reducible apply CollEq.modDev_right; (intro _; rfl))
    | (with_reducible apply CollEq.setDev_right; rfl))

theorem CollEq.finishCycleHandler (w : World) (x : Nat) : CollEq w (w.finishCycleHandler x) := by
  unfold World.finishCycleHandler
  dsimp only
  repeat' split
  all_goals repeat cs_step

theorem CollEq.finishCycleHandler_right {a b : World} {x : Nat} (h : CollEq a b) :
    CollEq a (b.finishCycleHandler x) := h.trans (CollEq.finishCycleHandler _ _)

macro_rules | `(tactic| cs_step) => `(tactic| with_reducible apply CollEq.finishCycleHandler_right)

theorem CollEq.bGet (w : World) (x p : Nat) : CollEq w (bGet w x p).1 := by
  unfold C08L.bGet
  split
  · dsimp only
    split <;> repeat cs_step
  · repeat cs_step

theorem CollEq.bInprog (w : World) (x : Nat) : CollEq w (bInprog w x).1 := by
  unfold C08L.bInprog
  split <;> repeat cs_step

theorem CollEq.bAdd (w : World) (x t : Nat) : CollEq w (bAdd w x t) := by
  unfold C08L.bAdd
  split
  · repeat cs_step
  · dsimp only
    split
    · cs_step; apply CollEq.modPart_right; exact CollEq.bInprog w x
    · apply CollEq.modPart_right; exact CollEq.bInprog w x

theorem CollEq.batcherLoop (n : Nat) (w : World) (x : Nat) : CollEq w (batcherLoop n w x) := by
  induction n generalizing w with
  | zero => exact CollEq.refl _
  | succ n ih =>
    rw [batcherLoop_succ]
    split
    · exact ((CollEq.bGet w x _).trans (CollEq.bAdd _ x _)).trans (ih _)
    · exact CollEq.refl _

theorem CollEq.batcherLoop_right {a b : World} {n x : Nat} (h : CollEq a b) :
    CollEq a (World.batcherLoop n b x) := h.trans (CollEq.batcherLoop _ _ _)

macro_rules | `(tactic| cs_step) => `(tactic| with_reducible apply CollEq.batcherLoop_right)

theorem genPart_devs (w : World) (x : Nat) : (w.genPart x).1.devs = w.devs := by
  unfold genPart
  dsimp only
  split
  · rfl
  · rw [newPart_fst_devs]
    exact foldl_preserve (fun (acc : World × List Nat) => acc.1.devs) _ _ _ (fun _ _ => rfl)

theorem CollEq.finishCycle (w : World) (x : Nat) : CollEq w (w.finishCycle x) := by
  unfold World.finishCycle
  dsimp only
  split
  · -- source
    apply CollEq.schedulePass_right
    split
    · apply CollEq.addHist_right
      cs_step
      exact CollEq.devs_right (genPart_devs w x) (CollEq.refl w)
    · exact CollEq.refl _
  · repeat cs_step
  · -- processor
    split
    · split <;> repeat cs_step
    · apply CollEq.addRec_right
      apply CollEq.foldl_right (fun w s => CollEq.senseOutput_right (CollEq.refl w))
      apply CollEq.foldl_right (fun w c => CollEq.applyPartCb_right (CollEq.refl w))
      split <;> repeat cs_step
  · repeat cs_step

theorem CollEq.finishCycle_right {a b : World} {x : Nat} (h : CollEq a b) :
    CollEq a (b.finishCycle x) := h.trans (CollEq.finishCycle _ _)

macro_rules | `(tactic| cs_step) => `(tactic| with_reducible apply CollEq.finishCycle_right)

theorem CollEq.scheduleFinish (w : World) (x : Nat) : CollEq w (w.scheduleFinish x) := by
  unfold World.scheduleFinish
  dsimp only
  repeat' split
  all_goals repeat cs_step

theorem CollEq.scheduleFinish_right {a b : World} {x : Nat} (h : CollEq a b) :
    CollEq a (b.scheduleFinish x) := h.trans (CollEq.scheduleFinish _ _)

macro_rules | `(tactic| cs_step) => `(tactic| with_reducible apply CollEq.scheduleFinish_right)

theorem CollEq.tryMove (w : World) (x : Nat) : CollEq w (w.tryMove x) := by
  unfold World.tryMove
  dsimp only
  repeat' split
  all_goals repeat cs_step

theorem CollEq.tryMove_right {a b : World} {x : Nat} (h : CollEq a b) : CollEq a (b.tryMove x) :=
  h.trans (CollEq.tryMove _ _)

/-- After the class-specific bookkeeping nothing touches the `collected` lists any more. -/
theorem CollEq.onReceived (w : World) (x p : Nat) : CollEq (recvPre w x p) (w.onReceived x p) := by
  rw [onReceived_eq]
  split
  · apply CollEq.tryMove_right
    apply CollEq.foldl_right (fun w c => CollEq.applyPartCb_right (CollEq.refl w))
    exact CollEq.addRec_right (CollEq.refl _)
  · apply CollEq.foldl_right (fun w c => CollEq.applyPartCb_right (CollEq.refl w))
    exact CollEq.addRec_right (CollEq.refl _)

/-- What `recvPre` does to the `collected` lists. -/
theorem recvPre_collected (w : World) (x p y : Nat) :
    ((recvPre w x p).dev y).collected =
      if y = x ∧ x < w.devs.length ∧ (w.dev x).kind = .sink ∧ (w.dev x).collect = true then
        (w.dev x).collected ++ [p]
      else (w.dev y).collected := by
  unfold recvPre
  split
  · next hk =>
    rw [dev_setDev]
    by_cases hxy : x = y
    · subst hxy
      by_cases hlt : x < w.devs.length
      · by_cases hc : (w.dev x).collect = true <;> simp [hlt, hk, hc]
      · simp [hlt]
    · have : ¬ y = x := fun h => hxy h.symm
      simp [hxy, this]
  · next hk =>
    rw [dev_addRec, dev_setDev]
    split
    · next hxy => simp [← hxy.1, hk]
    · simp [hk]
  · next h1 h2 =>
    have : ¬ (w.dev x).kind = .sink := h1
    simp [this]

/-- `acceptPre` changes, on the devices, only the input slot of `x` and flow flags. -/
theorem acceptPre_dev_field {α} (g : Dev → α) (hcore : ∀ d, g d.core = g d)
    (hg : ∀ d o, g { d with part := o } = g d) (w : World) (x p y : Nat) :
    g ((acceptPre w x p).dev y) = g (w.dev y) := by
  unfold acceptPre
  rw [core_eq_field g hcore (setWaiting_core _ x false false) y, dev_addHist,
    modDev_dev_field g _ x _ (hg _ _) y]
  split <;> rfl

theorem acceptPre_devs_length (w : World) (x p : Nat) :
    (acceptPre w x p).devs.length = w.devs.length := by
  unfold acceptPre
  rw [setWaiting_devs_length, addHist_devs, modDev_devs_length]
  split <;> rfl

/-- The `collected` lists after `acceptPart`: a collecting sink appends the part at the end, every
other list is unchanged. -/
theorem acceptPart_collected (w : World) (x p y : Nat) :
    ((w.acceptPart x p).dev y).collected =
      if y = x ∧ x < w.devs.length ∧ (w.dev x).kind = .sink ∧ (w.dev x).collect = true then
        (w.dev x).collected ++ [p]
      else (w.dev y).collected := by
  rw [acceptPart_eq, CollEq.onReceived (acceptPre w x p) x p y, recvPre_collected,
    acceptPre_devs_length,
    acceptPre_dev_field Dev.kind (fun _ => rfl) (fun _ _ => rfl),
    acceptPre_dev_field Dev.collect (fun _ => rfl) (fun _ _ => rfl),
    acceptPre_dev_field Dev.collected (fun _ => rfl) (fun _ _ => rfl),
    acceptPre_dev_field Dev.collected (fun _ => rfl) (fun _ _ => rfl)]

/-! ### `collected` lists only grow at the end -/

def CollExt (w w' : World) : Prop := ∀ y, (w.dev y).collected <+: (w'.dev y).collected

theorem CollExt.refl (w : World) : CollExt w w := fun _ => List.prefix_refl _

theorem CollExt.trans {a b c : World} (h1 : CollExt a b) (h2 : CollExt b c) : CollExt a c :=
  fun y => (h1 y).trans (h2 y)

theorem CollExt.of_devs {w w' : World} (h : w'.devs = w.devs) : CollExt w w' :=
  fun y => by rw [dev_congr h]; exact List.prefix_refl _

theorem CollExt.of_refused {w w' : World} (h : Refused w w') : CollExt w w' := fun y => by
  have := congrArg Dev.collected (refFrame_dev h.2 y)
  have h' : (w'.dev y).collected = (w.dev y).collected := this
  rw [h']; exact List.prefix_refl _

theorem CollExt.acceptPart (w : World) (x p : Nat) : CollExt w (w.acceptPart x p) := fun y => by
  rw [acceptPart_collected]
  split
  · next h => rw [h.1]; exact List.prefix_append _ _
  · exact List.prefix_refl _

theorem tryList_collExt {g : World → Nat → Nat → World × Bool} {p : Nat}
    (hf : ∀ w y w', g w y p = (w', false) → Refused w w')
    (ht : ∀ w y w', g w y p = (w', true) → CollExt w w')
    {w w' : World} {l : List Nat} {b : Bool} (h : tryList g w l p = (w', b)) : CollExt w w' := by
  cases b
  · exact CollExt.of_refused (tryList_refused hf h)
  · obtain ⟨l1, y, l2, wm, _, h1, h2⟩ := tryList_true h
    exact (CollExt.of_refused (tryList_refused hf h1)).trans (ht _ _ _ h2)

theorem give_true_collExt (f : Nat) : ∀ (w : World) (x p : Nat) (w' : World),
    give f w x p = (w', true) → CollExt w w' := by
  induction f with
  | zero => intro w x p w' h; rw [give.eq_1] at h; simp at h
  | succ f ih =>
    intro w x p w' h
    have ihl : ∀ {w w' : World} {l : List Nat}, tryList (give f) w l p = (w', true) →
        CollExt w w' := fun h =>
      tryList_collExt (fun w y w' h => give_refused f w y p w' h)
        (fun w y w' h => ih w y p w' h) h
    rw [give.eq_2] at h
    split at h
    iterate 5
      · split at h
        · have : w.acceptPart x p = w' := (Prod.mk.inj h).1
          subst this; exact CollExt.acceptPart _ _ _
        · simp at h
    -- processor
    · split at h
      · split at h
        · next w1 hacq =>
          have : w1.acceptPart x p = w' := (Prod.mk.inj h).1
          subst this
          have h1 : CollExt w w1 := fun y => by
            have := procAcquire_dev_field Dev.collected (fun _ _ _ => rfl) w x y
            rw [hacq] at this
            rw [this]; exact List.prefix_refl _
          exact h1.trans (CollExt.acceptPart _ _ _)
        · simp at h
      · simp at h
    -- gate
    · split at h
      · simp at h
      · split at h
        · simp at h
        · dsimp only at h
          split at h
          · next w2 htl =>
            have : w2 = w' := (Prod.mk.inj h).1
            subst this
            exact (CollExt.of_devs (addHist_devs w p x)).trans (ihl htl)
          · simp at h
    -- ginput
    · split at h
      · simp at h
      · exact ihl h
    -- gpath
    · split at h
      · simp at h
      · dsimp only at h
        split at h
        · next w3 hgv =>
          have : w3 = w' := (Prod.mk.inj h).1
          subst this
          exact (CollExt.of_devs (w := w) (by simp)).trans (ih _ _ _ _ hgv)
        · simp at h
    -- goutput
    · split at h
      · simp at h
      · dsimp only at h
        split at h
        · next w2 htl =>
          have : w2 = w' := (Prod.mk.inj h).1
          subst this
          exact (CollExt.of_devs (w := w) (by simp)).trans (ihl htl)
        · simp at h

theorem give_collExt {f : Nat} {w w' : World} {x p : Nat} {b : Bool}
    (h : give f w x p = (w', b)) : CollExt w w' := by
  cases b
  · exact CollExt.of_refused (give_refused f w x p w' h)
  · exact give_true_collExt f w x p w' h

/-! ### miscellaneous -/

/-- In a sorted offer list the accepting device is preceded by every device with a strictly
smaller key, and all of those have refused. -/
theorem tryList_sorted_true {g : World → Nat → Nat → World × Bool} {p : Nat}
    (hf : ∀ w y w', g w y p = (w', false) → Refused w w')
    {key : Nat → Option Int} {l : List Nat} {w w' : World}
    (h : tryList g w (stableSort key l) p = (w', true)) :
    ∃ y wm, y ∈ l ∧ Refused w wm ∧ g wm y p = (w', true) ∧
      ∀ z ∈ l, keyLe (key y) (key z) = false →
        ∃ wa wb, Refused w wa ∧ g wa z p = (wb, false) := by
  obtain ⟨l1, y, l2, wm, hl, h1, h2⟩ := tryList_true h
  have hy : y ∈ l := mem_stableSort.1 (by rw [hl]; simp)
  refine ⟨y, wm, hy, tryList_refused hf h1, h2, ?_⟩
  intro z hz hlt
  have hzs : z ∈ stableSort key l := mem_stableSort.2 hz
  have hsorted := stableSort_sorted key l
  rw [hl] at hzs hsorted
  have hz1 : z ∈ l1 := by
    rcases List.mem_append.1 hzs with h | h
    · exact h
    · exfalso
      have hyl2 := (List.pairwise_cons.1 (List.pairwise_append.1 hsorted).2.1).1
      rcases List.mem_cons.1 h with h | h
      · rw [h, keyLe_refl] at hlt; cases hlt
      · rw [hyl2 z h] at hlt; cases hlt
  obtain ⟨a, b, hab⟩ := List.append_of_mem hz1
  rw [hab] at h1
  obtain ⟨wa, wb, ha, hgz, _⟩ := tryList_false_split h1
  exact ⟨wa, wb, tryList_refused hf ha, hgz⟩

theorem waitingSince_congr {w w' : World} (h : w'.devs = w.devs) :
    ∀ (f d : Nat), waitingSince f w' d = waitingSince f w d := by
  intro f
  induction f with
  | zero => intro d; rfl
  | succ f ih =>
    intro d
    rw [waitingSince, waitingSince, dev_congr h]
    simp only [ih]

theorem sortedDown_congr {w w' : World} (h : w'.devs = w.devs) (x : Nat) :
    w'.sortedDown x = w.sortedDown x := by
  unfold sortedDown
  have hf : w'.fuel = w.fuel := by unfold fuel; rw [h]
  rw [dev_congr h, hf]
  congr 1
  funext d
  exact waitingSince_congr h _ d

theorem modPart_congr (w : World) (p : Nat) {g g' : PartRec → PartRec}
    (h : g (w.part p) = g' (w.part p)) : w.modPart p g = w.modPart p g' := by
  unfold modPart; rw [h]

theorem canAcceptBasic_blocked {w : World} {x : Nat} (p : Nat) (h : (w.dev x).blockInput = true) :
    w.canAcceptBasic x p = false := by
  unfold canAcceptBasic
  dsimp only
  split <;> simp [h]

theorem world_eq_of_noParts {w w' : World} (h1 : w'.noParts = w.noParts) (h2 : w'.parts = w.parts) :
    w' = w := by
  have : ∀ v : World, v = { v.noParts with parts := v.parts } := fun _ => rfl
  rw [this w', this w, h1, h2]

/-- `dropHist` exactly undoes `addHist`, whatever the part id and its kids are. -/
theorem dropHist_addHist (w : World) (p d : Nat) : (w.addHist p d).dropHist p = w :=
  world_eq_of_noParts ((dropHist_noParts _ _).trans (addHist_noParts _ _ _))
    (dropHist_addHist_parts rfl)

theorem fuel_succ (w : World) : w.fuel = (2 * w.devs.length + 2) + 1 := rfl

theorem waitingSince_handlerLike (w : World) (d : Nat) (h : isHandlerLike (w.dev d).kind = true) :
    waitingSince w.fuel w d = (w.dev d).since := by
  rw [fuel_succ, waitingSince, if_pos h]

end C08L
end SimProc
