/-
C03W, stage B — what the wake-up machinery needs of the conservation invariant of C02
(`C02V.InvW`): no part is held twice, the parts of a batch exist.
-/
import SimProc.Proofs.C03WDefs
import SimProc.Proofs.FloorPass

namespace SimProc
namespace C03W
open World FloorCoreL C02V

theorem nodup_flatMap_self {α β} {f : α → List β} : ∀ {l : List α}, (l.flatMap f).Nodup →
    ∀ a ∈ l, (f a).Nodup := by
  intro l
  induction l with
  | nil => intro _ a ha; cases ha
  | cons b l ih =>
    intro h a ha
    rw [List.flatMap_cons, List.nodup_append] at h
    rcases List.mem_cons.mp ha with rfl | ha
    · exact h.1
    · exact ih h.2.1 a ha

theorem nodup_flatMap_ne {α β} {f : α → List β} : ∀ {l : List α}, (l.flatMap f).Nodup →
    ∀ {i j : Nat} {a b : α}, l[i]? = some a → l[j]? = some b → i ≠ j →
      ∀ x, x ∈ f a → x ∈ f b → False := by
  intro l
  induction l with
  | nil => intro _ i j a b hi; simp at hi
  | cons c l ih =>
    intro h i j a b hi hj hij x hxa hxb
    rw [List.flatMap_cons, List.nodup_append] at h
    cases i with
    | zero =>
      cases j with
      | zero => exact hij rfl
      | succ j =>
        simp only [List.getElem?_cons_zero, Option.some.injEq] at hi
        simp only [List.getElem?_cons_succ] at hj
        subst hi
        exact h.2.2 x hxa x (List.mem_flatMap.mpr ⟨b, List.mem_of_getElem? hj, hxb⟩) rfl
    | succ i =>
      cases j with
      | zero =>
        simp only [List.getElem?_cons_zero, Option.some.injEq] at hj
        simp only [List.getElem?_cons_succ] at hi
        subst hj
        exact h.2.2 x hxb x (List.mem_flatMap.mpr ⟨a, List.mem_of_getElem? hi, hxa⟩) rfl
      | succ j =>
        simp only [List.getElem?_cons_succ] at hi hj
        exact ih h.2.1 hi hj (fun hc => hij (by rw [hc])) x hxa hxb

theorem held_sdev (d : Dev) : (sdev d).held = heldL d := rfl

/-- no part is held by two devices -/
theorem inv_other {w : World} (hI : InvW w) {d y q : Nat} (hdy : d ≠ y)
    (hq : q ∈ heldL (w.dev d)) : q ∉ heldL (w.dev y) := by
  intro hq'
  have hd : d < w.devs.length := by
    apply Nat.lt_of_not_le; intro hc
    rw [dev_of_length_le hc] at hq; cases hq
  have hy : y < w.devs.length := by
    apply Nat.lt_of_not_le; intro hc
    rw [dev_of_length_le hc] at hq'; cases hq'
  exact nodup_flatMap_ne hI.1.topNodup (sv_get w d hd) (sv_get w y hy) hdy q
    (by rw [held_sdev]; exact hq) (by rw [held_sdev]; exact hq')

/-- no part is held twice by a device -/
theorem inv_self {w : World} (hI : InvW w) (d : Nat) : (heldL (w.dev d)).Nodup := by
  by_cases hd : d < w.devs.length
  · have := nodup_flatMap_self hI.1.topNodup (sdev (w.dev d)) (List.mem_of_getElem? (sv_get w d hd))
    rwa [held_sdev] at this
  · rw [dev_of_length_le (Nat.le_of_not_lt hd)]
    exact List.nodup_nil

/-- a part that a device offers is not in the input slot or the batch under construction of any
device -/
theorem inv_free {w : World} (hI : InvW w) {d q : Nat} (hq : holdsD (w.dev d) = some q) (y : Nat) :
    (w.dev y).inprog ≠ some q ∧ (w.dev y).part ≠ some q := by
  have hm := holdsD_mem_heldL hq
  by_cases hdy : d = y
  · subst hdy
    have hn := inv_self hI d
    unfold heldL at hn
    -- `q` sits in the output slot or the buffer
    have hout : q ∈ (w.dev d).output.toList ++ (w.dev d).buf.map (·.2) := by
      rcases holdsD_cases hq with h | h | h | h | h
      · simp [h.2.2]
      · simp [h.2]
      · simp [h.2.2]
      · obtain ⟨t, rest, hb⟩ := h.2; simp [hb]
      · simp [h.2]
    constructor
    · intro hc
      rw [List.nodup_append] at hn
      refine hn.2.2 q ?_ q (by simp [hc]) rfl
      rw [List.append_assoc]
      exact List.mem_append_right _ hout
    · intro hc
      rw [List.append_assoc, List.append_assoc, List.nodup_append] at hn
      refine hn.2.2 q (by simp [hc]) q ?_ rfl
      rw [← List.append_assoc]
      exact List.mem_append_left _ hout
  · have := inv_other hI hdy hm
    rw [heldL_mem] at this
    exact ⟨fun hc => this (Or.inr (Or.inr (Or.inr hc))), fun hc => this (Or.inl hc)⟩

/-- two devices do not offer the same part -/
theorem inv_holds_ne {w : World} (hI : InvW w) {d y q p : Nat} (hdy : d ≠ y)
    (hq : holdsD (w.dev d) = some q) (hp : p ∈ heldL (w.dev y)) : q ≠ p := by
  intro hc
  subst hc
  exact inv_other hI hdy (holdsD_mem_heldL hq) hp

end C03W
end SimProc
