/-
C13Q, part 4: scripted operations and control events under the closed-world invariant `C06W.WI`; one
step of the event loop preserves the queue invariant `QI x` of every processor `x`; initialisation.
-/
import SimProc.Proofs.C13QWorld
namespace SimProc
namespace C13Q
open World FloorCoreL C06W

variable {x : Nat}

macro_rules | `(tactic| qks) => `(tactic| refine QK.trans ?_
  (qk_sched _ _ _ _ _ (by intro e; rcases e with e | e <;> cases e)))
macro_rules | `(tactic| qks) => `(tactic| exact
  (qk_sched _ _ _ _ _ (by intro e; rcases e with e | e <;> cases e)))

theorem qk_startOrders (w : World) (m : Nat) (st : List Order) : QK x w (w.startOrders m st) := by
  unfold World.startOrders
  exact QK.foldl _ _ _ (fun w o => qk_schedLib w _ _ _ _ (by intro e; rcases e with e | e <;> cases e))

theorem qk_schedUpdate (w : World) (s : Nat) (adv : Bool) : QK x w (w.schedUpdate s adv) := by
  unfold World.schedUpdate
  dsimp only
  split
  · exact qk_of_fields rfl rfl
  · refine QK.trans ?_ (qk_schedLib _ _ _ _ _ (by intro e; rcases e with e | e <;> cases e))
    refine QK.trans ?_ (QK.foldl _ _ _ (fun _ _ => qk_addRes _ _))
    refine QK.trans ?_ (qk_addRec _ _)
    exact qk_of_fields rfl rfl

theorem qk_periodicSense (w : World) (s : Nat) : QK x w (w.periodicSense s) := by
  unfold World.periodicSense
  dsimp only
  refine QK.trans ?_ (qk_schedLib _ _ _ _ _ (by intro e; rcases e with e | e <;> cases e))
  refine QK.trans ?_ (QK.foldl _ _ _ (fun _ _ => qk_addRes _ _))
  exact qk_of_fields rfl rfl

theorem qk_setVar (w : World) (h : Nat) (v : Option Nat) : QK x w (w.setVar h v) :=
  qk_of_fields rfl rfl
qk_lemma2 qk_setVar

/-! ### scripted operations -/

theorem qp_applyOp {w : World} (h : WI w) (hk : (w.dev x).kind = .processor) (op : Op)
    (h1 : C02V.OpStatic w op) (h2 : OpNoPause w op) : QP x w (w.applyOp op).1 := by
  have hx : x < w.devs.length := lt_of_processor hk
  have hne : ∀ d, (w.dev d).kind = .processor → d ≠ x → (w.dev d).aid ≠ (w.dev x).aid :=
    fun d hd hdx => h.fi.aids d x (lt_of_processor hd) hx hdx
  cases op
  case rewire d ups => exact absurd h1 id
  case create s => exact absurd h1 id
  case pause a =>
    refine qp_of_env (sd' := (w.dev x).shutDown) rfl rfl rfl id (qe_pause _ ?_)
    exact (h2 x hx).symm
  case unpause a =>
    refine qp_of_env (sd' := (w.dev x).shutDown) rfl rfl rfl id (qe_unpause _ ?_)
    exact (h2 x hx).symm
  case cancel a =>
    exact qp_of_env (sd' := (w.dev x).shutDown) rfl rfl rfl id (qe_cancel _)
  case shutdown d =>
    simp only [World.applyOp]
    split
    · exact QP.refl _
    · rename_i hkd
      exact qp_shutdownDev w d false none hk (fun hdx => hne d (by simpa using hkd) hdx)
  case restore d =>
    simp only [World.applyOp]
    split
    · exact QP.refl _
    · rename_i hkd
      exact qp_restoreDev w d hk (fun hdx => hne d (by simpa using hkd) hdx)
  case adjust d n =>
    have hp := C13W.pv_adjustParts x w d n
    exact ⟨C13W.pv_kind hp, C13W.pv_aid hp,
      fun hk' hi => (qk_adjustParts w d n (fun _ => hi.mp)).qp.inv hk' hi⟩
  all_goals (refine QK.qp ?_; unfold World.applyOp; qk_auto)

/-- the closed-world step relation of C06W together with the queue relation -/
structure WQ (x : Nat) (w w' : World) : Prop where
  ws : WS w w'
  qp : QP x w w'

theorem WQ.trans {a b c : World} (h1 : WQ x a b) (h2 : WQ x b c) : WQ x a c :=
  ⟨h1.ws.trans h2.ws, h1.qp.trans h2.qp⟩

theorem wq_applyOps (ops : List Op) : ∀ (w : World), WI w → (w.dev x).kind = .processor →
    (∀ op ∈ ops, C02V.OpStatic w op ∧ OpNoPause w op) → WQ x w (w.applyOps ops) := by
  induction ops with
  | nil => intro w h _ _; exact ⟨WS.refl h.fi, QP.refl _⟩
  | cons op ops ih =>
    intro w h hk hok
    unfold World.applyOps
    simp only [List.foldl_cons]
    have ho := hok op (List.mem_cons_self ..)
    have s1 := ws_applyOp h op ho.1 ho.2
    have q1 := qp_applyOp (x := x) h hk op ho.1 ho.2
    have s2 : WS w ((w.applyOp op).1.addRes (w.applyOp op).2) :=
      s1.trans (ws_addRes (h.of_ws s1).fi _)
    have q2 : QP x w ((w.applyOp op).1.addRes (w.applyOp op).2) := q1.trans (qk_addRes _ _).qp
    have h' := h.of_ws s2
    have := ih _ h' (q2.kind.trans hk) (fun o hm =>
      have hoo := hok o (List.mem_cons_of_mem _ hm)
      ⟨C02V.opStatic_of_tv s2.sr.1 o hoo.1, opNoPause_of_ka s2.good.2.len s2.good.2.ka o hoo.2⟩)
    unfold World.applyOps at this
    exact WQ.trans ⟨s2, q2⟩ this

theorem wq_runScript {w : World} (h : WI w) (hk : (w.dev x).kind = .processor) (k : Nat) :
    WQ x w (w.runScript k) := by
  unfold World.runScript
  apply wq_applyOps _ w h hk
  intro op hop
  by_cases hkk : k < w.scripts.length
  · have : w.scripts.getD k [] = w.scripts[k] := by simp [List.getD_eq_getElem?_getD, hkk]
    rw [this] at hop
    exact ⟨h.st.1 _ (List.getElem_mem hkk) op hop, h.nps _ (List.getElem_mem hkk) op hop⟩
  · have : w.scripts.getD k [] = [] := by simp [List.getD_eq_getElem?_getD, Nat.le_of_not_lt hkk]
    rw [this] at hop; cases hop

theorem wq_of_qk {w w' : World} (s : WS w w') (q : QK x w w') : WQ x w w' := ⟨s, q.qp⟩

theorem wq_scan (n : Nat) : ∀ (w : World) (i : Nat), WI w → (w.dev x).kind = .processor →
    WQ x w (scanWaiting scanOps n w i) := by
  induction n with
  | zero => intro w i h _; exact ⟨WS.refl h.fi, QP.refl _⟩
  | succ n ih =>
    intro w i h hk
    unfold scanWaiting
    split
    · exact ⟨WS.refl h.fi, QP.refl _⟩
    · split
      · rename_i req cb _ _
        have s1 : WQ x w (scanOps.erase (scanOps.call w cb req) i) := by
          cases cb with
          | script k =>
            have s0 : WQ x w (w.addRes (.cb k)) := wq_of_qk (ws_addRes h.fi (.cb k)) (qk_addRes _ _)
            have s1 := s0.trans (wq_runScript (h.of_ws s0.ws) (s0.qp.kind.trans hk) k)
            exact s1.trans (wq_of_qk (ws_erase (h.of_ws s1.ws).fi i) (qk_of_fields rfl rfl))
          | proc d =>
            have s0 : WQ x w (w.procResourceCb d) :=
              wq_of_qk (WS.of_floor ((fr_procResourceCb (X := None_) w d).good h.fi)
                (C02V.st_procResourceCb w d) (C02V.scr_procResourceCb w d)
                (fun sk => C02V.hb_procResourceCb sk w d)) (qk_procResourceCb _ _)
            exact s0.trans (wq_of_qk (ws_erase (h.of_ws s0.ws).fi i) (qk_of_fields rfl rfl))
        exact s1.trans (ih _ _ (h.of_ws s1.ws) (s1.qp.kind.trans hk))
      · exact ih _ _ h hk

theorem wq_rmCheck {w : World} (h : WI w) (hk : (w.dev x).kind = .processor) : WQ x w w.rmCheck :=
  wq_scan _ _ _ h hk

theorem aid_ne {w : World} (h : WI w) (hk : (w.dev x).kind = .processor) {d : Nat}
    (hd : (w.dev d).kind = .processor) (hdx : d ≠ x) : (w.dev d).aid ≠ (w.dev x).aid :=
  h.fi.aids d x (lt_of_processor hd) (lt_of_processor hk) hdx

theorem wq_hookStart {w : World} (h : WI w) (hk : (w.dev x).kind = .processor) (tgt : Nat) (tag : Int) :
    WQ x w (w.hookStart tgt tag) := by
  refine ⟨ws_hookStart h tgt tag, ?_⟩
  have s0 := ws_addRes h.fi (.hook true tgt tag)
  have h0 := h.of_ws s0
  have q0 : QP x w (w.addRes (.hook true tgt tag)) := (qk_addRes _ _).qp
  unfold World.hookStart
  simp only []
  split
  · rename_i d hd
    have hkd : ((w.addRes (.hook true tgt tag)).dev d).kind = .processor := targets_dev_proc h hd
    exact q0.trans (qp_shutdownDev _ d false none hk (fun hdx => aid_ne h0 hk hkd hdx))
  · split
    · exact q0.trans (wq_runScript h0 hk _).qp
    · exact q0

theorem wq_hookEnd {w : World} (h : WI w) (hk : (w.dev x).kind = .processor) (tgt : Nat) (tag : Int) :
    WQ x w (w.hookEnd tgt tag) := by
  refine ⟨ws_hookEnd h tgt tag, ?_⟩
  have s0 := ws_addRes h.fi (.hook false tgt tag)
  have h0 := h.of_ws s0
  have q0 : QP x w (w.addRes (.hook false tgt tag)) := (qk_addRes _ _).qp
  unfold World.hookEnd
  simp only []
  split
  · rename_i d hd
    have hkd : ((w.addRes (.hook false tgt tag)).dev d).kind = .processor := targets_dev_proc h hd
    exact q0.trans (qp_restoreDev _ d hk (fun hdx => aid_ne h0 hk hkd hdx))
  · split
    · exact q0.trans (wq_runScript h0 hk _).qp
    · exact q0

theorem qp_startWork {w : World} (h : WI w) (hk : (w.dev x).kind = .processor) (m seq : Nat) :
    QP x w (w.startWork m seq) := by
  have key : ∀ w' : World, WQ x w w' → ∀ t g a b d,
      QP x w ((w'.hookStart t g).schedLib a b (.finishWork m seq) d) := fun w' s t g a b d =>
    let s1 := s.trans (wq_hookStart (h.of_ws s.ws) (s.qp.kind.trans hk) t g)
    s1.qp.trans (qk_schedLib _ _ _ _ _ (by intro e; rcases e with e | e <;> cases e)).qp
  unfold World.startWork
  split
  · exact (qk_setErr _ _).qp
  · simp only []
    refine key _ ?_ _ _ _ _ _
    exact wq_of_qk (ws_plain h.fi rfl rfl rfl rfl rfl rfl) (qk_of_fields rfl rfl)

theorem qp_finishWork {w : World} (h : WI w) (hk : (w.dev x).kind = .processor) (m seq : Nat) :
    QP x w (w.finishWork m seq) := by
  have key : ∀ w' : World, QP x w w' → ∀ w'' : World, QK x w' w'' → ∀ m l,
      QP x w (w''.startOrders m l) := fun w' s w'' s' m l =>
    (s.trans s'.qp).trans (qk_startOrders _ _ _).qp
  unfold World.finishWork
  split
  · exact (qk_setErr _ _).qp
  · simp only []
    rename_i o _
    refine key _ (wq_hookEnd h hk o.target o.tag).qp _ ?_ _ _
    exact qk_of_fields rfl rfl

/-! ### one step of the event loop -/

theorem qi_pop {w : World} {e : Event} {env' : Env} (henv : w.env.step = some (e, env'))
    (hq : QI x w) : QI x ({ w with env := env' } : World) := by
  obtain ⟨es, he, rfl⟩ := Env.step_some.mp henv
  have hsub : ∀ e' ∈ es, e' ∈ w.env.events := fun e' h => by rw [he]; exact List.mem_cons_of_mem _ h
  refine ⟨⟨?_, ?_, ?_⟩, hq.mp⟩
  · intro e' he' hqq
    rcases List.mem_append.mp he' with h1 | h1
    · exact hq.qe.qa e' (List.mem_append.mpr (Or.inl (hsub e' h1))) hqq
    · exact hq.qe.qa e' (List.mem_append.mpr (Or.inr h1)) hqq
  · intro hs e' he'
    exact hq.qe.dn hs e' (hsub e' he')
  · intro hs e' he'
    exact hq.qe.up hs e' he'

/-- **One step of the event loop preserves the queue invariant of every processor.** -/
theorem qi_step {w w' : World} {e : Event} (h : WI w) (hk : (w.dev x).kind = .processor)
    (hq : QI x w) (hst : w.step = some (e, w')) : QI x w' := by
  have hst0 := hst
  unfold World.step at hst
  split at hst
  · cases hst
  · rename_i e' env' henv
    simp only [Option.some.injEq, Prod.mk.injEq] at hst
    obtain ⟨rfl, rfl⟩ := hst
    have hq1 : QI x ({ w with env := env' } : World) := qi_pop henv hq
    have hk1 : (({ w with env := env' } : World).dev x).kind = .processor := hk
    obtain ⟨s1, s2, s3, s4⟩ := si_pop h henv
    split
    · rename_i hl
      -- the world after the pop satisfies the closed-world invariant unless `e` is a finish event
      have hwi : (∀ d, Action.ofNat e'.act ≠ .finishCycle d) → WI ({ w with env := env' } : World) := by
        intro hnf
        rcases pop_cases h henv with ⟨d, _, ha, _⟩ | ⟨hfi, _⟩
        · exact absurd (by rw [ha]; exact ofNat_finAct d) (hnf d)
        · exact ⟨hfi, s1, s2, s3, s4⟩
      cases ha : Action.ofNat e'.act with
      | terminate => exact hq1
      | script k =>
        have h1 := hwi (by rw [ha]; intro d hd; cases hd)
        exact (wq_runScript h1 hk1 k).qp.inv hk1 hq1
      | finishCycle d =>
        refine (qk_finishCycle _ d ?_).qp.inv hk1 hq1
        intro hd; subst hd
        exact (finish_at_zero h henv hl (ofNat_finish ha) (by rw [hk]; decide)).2.1
      | passPart d => exact (qk_passPart _ d).qp.inv hk1 hq1
      | fail d =>
        have hf := C06T.failed_of_step h hst0 hl ha
        refine (qp_failDev _ d hk1 ?_).inv hk1 hq1
        intro hdx
        exact h.fi.aids d x (lt_of_processor hf.kind) (lt_of_processor hk) hdx
      | releaseIfIdle d => exact (qk_releaseIfIdle _ d).qp.inv hk1 hq1
      | rmCheck =>
        have h1 := hwi (by rw [ha]; intro d hd; cases hd)
        exact (wq_rmCheck h1 hk1).qp.inv hk1 hq1
      | startWork m o =>
        have h1 := hwi (by rw [ha]; intro d hd; cases hd)
        exact (qp_startWork h1 hk1 m o).inv hk1 hq1
      | finishWork m o =>
        have h1 := hwi (by rw [ha]; intro d hd; cases hd)
        exact (qp_finishWork h1 hk1 m o).inv hk1 hq1
      | schedUpdate s => exact (qk_schedUpdate _ s true).qp.inv hk1 hq1
      | periodicSense s => exact (qk_periodicSense _ s).qp.inv hk1 hq1
      | unknown n => exact (qk_setErr _ _).qp.inv hk1 hq1
    · exact hq1

/-! ### initialisation -/

theorem qk_initDev (w : World) (y : Nat) : QK x w (w.initDev y) := by
  have h1 : QK x w (w.modDev y (fun d => { d with inited := true, val := d.val.reset })) :=
    qk_modDev _ _ _ flg
  unfold World.initDev
  dsimp only
  split
  · exact h1
  · exact h1
  · exact h1
  · exact h1
  · refine QK.trans ?_ (qk_modDev _ _ _ flg)
    exact h1.trans (qk_setWaiting _ _ _ _)
  · rename_i hk
    refine QK.then_finish (h1.trans (qk_setWaiting _ _ _ _)) _ ?_
    intro e; subst e
    have hk' : (w.dev y).kind = .source := by rw [← h1.kind]; exact hk
    exact op_of_kind (by rw [hk']; decide)
  · exact h1.trans (qk_setWaiting _ _ _ _)

theorem qk_initAsset (w : World) (a : AssetRef) : QK x w (w.initAsset a) := by
  cases a with
  | dev d => exact qk_initDev w d
  | maint m => exact qk_of_fields rfl rfl
  | sched s => exact qk_schedUpdate w s false
  | sensor s =>
    unfold World.initAsset
    dsimp only
    split
    · refine QK.trans ?_ (qk_schedLib _ _ _ _ _ (by intro e; rcases e with e | e <;> cases e))
      exact qk_of_fields rfl rfl
    · split
      · refine QK.trans ?_ (qk_modDev _ _ _ flg)
        exact qk_of_fields rfl rfl
      · exact qk_of_fields rfl rfl
  | cms c => exact QK.refl _

theorem qk_started (w : World) : QK x w { w with started := true } := qk_of_fields rfl rfl

theorem qk_simulateInit (w : World) : QK x w w.simulateInit := by
  unfold World.simulateInit
  split
  · exact QK.refl _
  · dsimp only
    refine QK.trans ?_ (qk_started _)
    refine QK.trans ?_ (QK.foldl _ _ _ (fun w a => qk_initAsset w a))
    refine QK.trans ?_ (qk_rmEffects _ _ _)
    exact qk_of_fields rfl rfl

end C13Q
end SimProc
