/-
C06W (closed-world timer invariant), part 2: the timer view of a device, the invariant `Timer`,
the floor invariant `FI`, the frame relation `Fr`, the two-state relation `Keep`.
-/
import SimProc.Proofs.C06WBase
import SimProc.Proofs.C13Lemmas
namespace SimProc
namespace C06W
open World FloorCoreL

/-! ### the timer view of a device -/

/-- the kinds of device that time their work with a finish event and assert on it -/
def isT (k : Kind) : Bool :=
  match k with
  | .handler | .processor | .sink => true
  | _ => false

/-- The timer-relevant part of a device record.  The slots of devices that do not time their work
(`isT = false`: sources, buffers, batchers, flow controllers) are masked. -/
structure TD where
  kind : Kind
  aid : Int
  part : Option Nat
  output : Option Nat
  shutDown : Bool
  lr : Bool
  lu : Bool
deriving DecidableEq

def tdm (d : Dev) : TD :=
  { kind := d.kind, aid := d.aid
    part := if isT d.kind then d.part else none
    output := if isT d.kind then d.output else none
    shutDown := d.shutDown, lr := d.lastRestore.isSome, lu := d.lastUseStart.isSome }

/-- `is_operational()` on the view -/
def opT (t : TD) : Bool :=
  match t.kind with
  | .processor => !t.shutDown
  | _ => true

theorem operational_eq (w : World) (x : Nat) : w.operational x = opT (tdm (w.dev x)) := by
  unfold World.operational opT tdm
  cases (w.dev x).kind <;> rfl

/-- The timer invariant of device `x` (not a source) with view `t` in environment `s`. -/
structure TimerAt (s : Env) (x : Nat) (t : TD) : Prop where
  /-- the device's finish events carry its asset id -/
  asset : ∀ e ∈ finE s x ++ finP s x, e.asset = t.aid
  /-- nothing in process: no live finish event -/
  idle : t.part = none → finE s x = [] ∧ finP s x = []
  /-- a part in process: output slot free, exactly one live finish event — pending iff operational -/
  busy : ∀ p, t.part = some p → t.output = none ∧
    (if opT t then (finE s x).length = 1 ∧ finP s x = []
     else finE s x = [] ∧ (finP s x).length = 1)
  /-- the accounting invariant of processors (`C13.UpInv`) -/
  up : t.kind = .processor →
    ((t.lr = true ↔ t.shutDown = false) ∧ (t.lu = true ↔ (t.part.isSome = true ∧ t.shutDown = false)))

def Timer (w : World) : Prop :=
  ∀ x, (w.dev x).kind ≠ .source → TimerAt w.env x (tdm (w.dev x))

/-- asset ids of distinct devices are distinct -/
def AidsOK (w : World) : Prop :=
  ∀ x y, x < w.devs.length → y < w.devs.length → x ≠ y → (w.dev x).aid ≠ (w.dev y).aid

/-! ### errors -/

/-- the error strings that are not failed internal assertions of the library -/
def allowedErrs : List String :=
  ["fuel", "sched-past", "reserve-raised", "no-group-path", "unknown-action", "start-unknown-order",
   "finish-unknown-order"]

def okErr (e : Option String) : Bool :=
  match e with
  | none => true
  | some m => allowedErrs.contains m

theorem okErr_setErr (w : World) (m : String) (hm : allowedErrs.contains m = true)
    (h : okErr w.error = true) : okErr (w.setErr m).error = true := by
  unfold World.setErr
  split
  · exact h
  · exact hm

/-! ### the floor invariant -/

structure FI (w : World) : Prop where
  timer : Timer w
  aids : AidsOK w
  ei : EI w.env
  err : okErr w.error = true

/-! ### the frame relation -/

/-- `w'` is `w` up to things the timer invariant does not see; the devices in `X` are exempt
(their kind and asset id are still unchanged). -/
structure Fr (X : Nat → Prop) (w w' : World) : Prop where
  now : w'.now = w.now
  uid : w.env.nextUid ≤ w'.env.nextUid
  len : w'.devs.length = w.devs.length
  ka : ∀ y, (w'.dev y).kind = (w.dev y).kind ∧ (w'.dev y).aid = (w.dev y).aid
  td : ∀ y, ¬ X y → tdm (w'.dev y) = tdm (w.dev y)
  fin : ∀ y, (w.dev y).kind ≠ .source →
    finE w'.env y = finE w.env y ∧ finP w'.env y = finP w.env y
  tg : w'.targets.map (·.dev) = w.targets.map (·.dev)
  ei : EI w.env → EI w'.env
  err : okErr w.error = true → okErr w'.error = true

/-- nothing exempt -/
abbrev None_ : Nat → Prop := fun _ => False

theorem Fr.refl (X : Nat → Prop) (w : World) : Fr X w w :=
  ⟨rfl, Nat.le_refl _, rfl, fun _ => ⟨rfl, rfl⟩, fun _ _ => rfl, fun _ _ => ⟨rfl, rfl⟩, rfl,
    id, id⟩

theorem Fr.trans {X : Nat → Prop} {a b c : World} (h1 : Fr X a b) (h2 : Fr X b c) : Fr X a c where
  now := h2.now.trans h1.now
  uid := Nat.le_trans h1.uid h2.uid
  len := h2.len.trans h1.len
  ka := fun y => ⟨(h2.ka y).1.trans (h1.ka y).1, (h2.ka y).2.trans (h1.ka y).2⟩
  td := fun y hy => (h2.td y hy).trans (h1.td y hy)
  fin := fun y hk =>
    have h := h2.fin y (by rw [(h1.ka y).1]; exact hk)
    ⟨h.1.trans (h1.fin y hk).1, h.2.trans (h1.fin y hk).2⟩
  tg := h2.tg.trans h1.tg
  ei := fun h => h2.ei (h1.ei h)
  err := fun h => h2.err (h1.err h)

theorem Fr.mono {X Y : Nat → Prop} {a b : World} (h : Fr X a b) (hxy : ∀ y, X y → Y y) : Fr Y a b :=
  { h with td := fun y hy => h.td y (fun hx => hy (hxy y hx)) }

theorem Fr.foldl {X : Nat → Prop} {α : Type} (f : World → α → World) (l : List α) (w : World)
    (h : ∀ w a, Fr X w (f w a)) : Fr X w (l.foldl f w) := by
  induction l generalizing w with
  | nil => exact Fr.refl X w
  | cons a l ih => exact (h w a).trans (ih _)

theorem Fr.of_eq {X : Nat → Prop} {w w' : World} (h : w' = w) : Fr X w w' := h ▸ Fr.refl X w

/-- A change that touches neither devices, environment, error flag nor targets. -/
theorem fr_of_fields {X : Nat → Prop} {w w' : World} (hd : w'.devs = w.devs) (he : w'.env = w.env)
    (herr : w'.error = w.error) (htg : w'.targets.map (·.dev) = w.targets.map (·.dev)) : Fr X w w' := by
  have hdev : ∀ y, w'.dev y = w.dev y := fun y => dev_congr hd y
  refine ⟨by unfold World.now; rw [he], by rw [he]; exact Nat.le_refl _, by rw [hd], ?_, ?_, ?_,
    htg, by rw [he]; exact id, by rw [herr]; exact id⟩
  · intro y; rw [hdev]; exact ⟨rfl, rfl⟩
  · intro y _; rw [hdev]
  · intro y _; rw [he]; exact ⟨rfl, rfl⟩

/-! ### the two-state relation -/

/-- What every function of the model keeps: clock, kinds, asset ids, maintenance targets; and each
device's timer is either unchanged, or ended, or a brand-new one (uid not below the old counter). -/
structure Keep (w w' : World) : Prop where
  now : w'.now = w.now
  uid : w.env.nextUid ≤ w'.env.nextUid
  len : w'.devs.length = w.devs.length
  ka : ∀ y, (w'.dev y).kind = (w.dev y).kind ∧ (w'.dev y).aid = (w.dev y).aid
  tg : w'.targets.map (·.dev) = w.targets.map (·.dev)
  rem : ∀ x, (w.dev x).kind ≠ .source →
    rem w'.env x = rem w.env x ∨ rem w'.env x = [] ∨
      ∃ u r, rem w'.env x = [(u, r)] ∧ w.env.nextUid ≤ u

theorem Keep.refl (w : World) : Keep w w :=
  ⟨rfl, Nat.le_refl _, rfl, fun _ => ⟨rfl, rfl⟩, rfl, fun _ _ => Or.inl rfl⟩

theorem Keep.trans {a b c : World} (h1 : Keep a b) (h2 : Keep b c) : Keep a c where
  now := h2.now.trans h1.now
  uid := Nat.le_trans h1.uid h2.uid
  len := h2.len.trans h1.len
  ka := fun y => ⟨(h2.ka y).1.trans (h1.ka y).1, (h2.ka y).2.trans (h1.ka y).2⟩
  tg := h2.tg.trans h1.tg
  rem := fun x hk => by
    rcases h2.rem x (by rw [(h1.ka x).1]; exact hk) with h | h | ⟨u, r, h, hu⟩
    · rw [h]; exact h1.rem x hk
    · exact Or.inr (Or.inl h)
    · exact Or.inr (Or.inr ⟨u, r, h, Nat.le_trans h1.uid hu⟩)

theorem rem_congr {s s' : Env} {x : Nat} (hn : s'.now = s.now) (h1 : finE s' x = finE s x)
    (h2 : finP s' x = finP s x) : rem s' x = rem s x := by
  unfold rem; rw [hn, h1, h2]

/-- invariant afterwards, and the two-state relation -/
def Good (w w' : World) : Prop := FI w' ∧ Keep w w'

theorem Good.trans {a b c : World} (h1 : Good a b) (h2 : Good b c) : Good a c :=
  ⟨h2.1, h1.2.trans h2.2⟩

theorem TimerAt.congr {s s' : Env} {x : Nat} {t t' : TD} (h : TimerAt s x t) (ht : t' = t)
    (h1 : finE s' x = finE s x) (h2 : finP s' x = finP s x) : TimerAt s' x t' := by
  subst ht
  exact ⟨by rw [h1, h2]; exact h.asset, by rw [h1, h2]; exact h.idle, by rw [h1, h2]; exact h.busy,
    h.up⟩

theorem AidsOK.of_ka {w w' : World} (h : AidsOK w) (hl : w'.devs.length = w.devs.length)
    (hka : ∀ y, (w'.dev y).kind = (w.dev y).kind ∧ (w'.dev y).aid = (w.dev y).aid) : AidsOK w' := by
  intro x y hx hy hne
  rw [(hka x).2, (hka y).2]
  exact h x y (hl ▸ hx) (hl ▸ hy) hne

theorem Fr.keep {w w' : World} (h : Fr None_ w w') : Keep w w' :=
  ⟨h.now, h.uid, h.len, h.ka, h.tg, fun x hk =>
    Or.inl (rem_congr h.now (h.fin x hk).1 (h.fin x hk).2)⟩

/-- A full frame preserves the invariant. -/
theorem Fr.good {w w' : World} (h : Fr None_ w w') (hi : FI w) : Good w w' := by
  refine ⟨⟨?_, hi.aids.of_ka h.len h.ka, h.ei hi.ei, h.err hi.err⟩, h.keep⟩
  intro x hk
  have hk' : (w.dev x).kind ≠ .source := by rw [← (h.ka x).1]; exact hk
  exact (hi.timer x hk').congr (h.td x id) (h.fin x hk').1 (h.fin x hk').2

/-! ### a local change at device `x` -/

/-- `w'` is `w` up to things the timer invariant does not see, except at device `x`: its slots and
its own finish events may have changed (kind and asset id are unchanged). -/
structure FrL (x : Nat) (w w' : World) : Prop where
  now : w'.now = w.now
  uid : w.env.nextUid ≤ w'.env.nextUid
  len : w'.devs.length = w.devs.length
  ka : ∀ y, (w'.dev y).kind = (w.dev y).kind ∧ (w'.dev y).aid = (w.dev y).aid
  td : ∀ y, y ≠ x → tdm (w'.dev y) = tdm (w.dev y)
  fin : ∀ y, y ≠ x → (w.dev y).kind ≠ .source →
    finE w'.env y = finE w.env y ∧ finP w'.env y = finP w.env y
  tg : w'.targets.map (·.dev) = w.targets.map (·.dev)
  ei : EI w.env → EI w'.env
  err : okErr w.error = true → okErr w'.error = true

theorem Fr.toL {X : Nat → Prop} {x : Nat} {w w' : World} (f : Fr X w w') (hX : ∀ y, X y → y = x) :
    FrL x w w' :=
  ⟨f.now, f.uid, f.len, f.ka, fun y hy => f.td y (fun h => hy (hX y h)), fun y _ hk => f.fin y hk,
    f.tg, f.ei, f.err⟩

theorem FrL.trans {x : Nat} {a b c : World} (h1 : FrL x a b) (h2 : FrL x b c) : FrL x a c where
  now := h2.now.trans h1.now
  uid := Nat.le_trans h1.uid h2.uid
  len := h2.len.trans h1.len
  ka := fun y => ⟨(h2.ka y).1.trans (h1.ka y).1, (h2.ka y).2.trans (h1.ka y).2⟩
  td := fun y hy => (h2.td y hy).trans (h1.td y hy)
  fin := fun y hy hk =>
    have h := h2.fin y hy (by rw [(h1.ka y).1]; exact hk)
    ⟨h.1.trans (h1.fin y hy hk).1, h.2.trans (h1.fin y hy hk).2⟩
  tg := h2.tg.trans h1.tg
  ei := fun h => h2.ei (h1.ei h)
  err := fun h => h2.err (h1.err h)

/-- `w'` is `w` with a change that only device `x` and its timer see. -/
structure Loc (w w' : World) (x : Nat) : Prop where
  fr : FrL x w w'
  at_ : (w.dev x).kind ≠ .source → TimerAt w'.env x (tdm (w'.dev x))
  rem : (w.dev x).kind ≠ .source → (rem w'.env x = rem w.env x ∨ rem w'.env x = [] ∨
    ∃ u r, rem w'.env x = [(u, r)] ∧ w.env.nextUid ≤ u)

theorem Loc.keep {w w' : World} {x : Nat} (r : Loc w w' x) : Keep w w' :=
  ⟨r.fr.now, r.fr.uid, r.fr.len, r.fr.ka, r.fr.tg, fun y hk => by
    by_cases hy : y = x
    · subst hy; exact r.rem hk
    · exact Or.inl (rem_congr r.fr.now (r.fr.fin y hy hk).1 (r.fr.fin y hy hk).2)⟩

/-- frames before the local change -/
theorem Loc.pre' {X : Nat → Prop} {w0 w w' : World} {x : Nat} (h0 : Fr X w0 w)
    (hX : ∀ y, X y → y = x) (r : Loc w w' x) : Loc w0 w' x := by
  refine ⟨(h0.toL hX).trans r.fr, fun hk => r.at_ (by rw [(h0.ka x).1]; exact hk), ?_⟩
  intro hk
  have e := rem_congr h0.now (h0.fin x hk).1 (h0.fin x hk).2
  rcases r.rem (by rw [(h0.ka x).1]; exact hk) with h | h | ⟨u, q, h, hu⟩
  · exact Or.inl (h.trans e)
  · exact Or.inr (Or.inl h)
  · exact Or.inr (Or.inr ⟨u, q, h, Nat.le_trans h0.uid hu⟩)

theorem Loc.pre {w0 w w' : World} {x : Nat} (h0 : Fr None_ w0 w) (r : Loc w w' x) : Loc w0 w' x :=
  r.pre' h0 (fun _ h => h.elim)

end C06W
end SimProc
