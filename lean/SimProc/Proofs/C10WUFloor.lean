/-
C10W — `U w (f w)` for every function of `Model/Floor.lean` (unconditionally).
-/
import SimProc.Proofs.C10WBase

namespace SimProc
namespace C10W
open World FloorCoreL

/-! ### notifications -/

theorem U_setWaiting (w : World) (x : Nat) (a b : Bool) : U w (w.setWaiting x a b) := by
  unfold setWaiting
  dsimp only
  u_auto

macro_rules | `(tactic| u_step) => `(tactic| with_reducible apply U.trans (h2 := U_setWaiting _ _ _ _))

theorem U_schedulePass (w : World) (x : Nat) (o : Int) : U w (w.schedulePass x o) := by
  unfold schedulePass
  dsimp only
  u_auto

macro_rules | `(tactic| u_step) => `(tactic| with_reducible apply U.trans (h2 := U_schedulePass _ _ _))

theorem U_notifyUp_spaceAvail (n : Nat) :
    ∀ w x, U w (notifyUp n w x) ∧ U w (spaceAvail n w x) := by
  induction n with
  | zero =>
    intro w x
    constructor
    · rw [notifyUp]; exact U.of_KU (KU_setErr _ _)
    · rw [spaceAvail]; exact U.of_KU (KU_setErr _ _)
  | succ n ih =>
    intro w x
    have hN : ∀ w x, U w (notifyUp n w x) := fun w x => (ih w x).1
    have hS : ∀ w x, U w (spaceAvail n w x) := fun w x => (ih w x).2
    constructor
    · rw [notifyUp]
      dsimp only
      repeat' first
        | with_reducible exact U.refl _
        | with_reducible apply U.trans (h2 := U.foldl _ _ _ hS)
        | with_reducible apply U.trans (h2 := U.foldl _ _ _ hN)
        | with_reducible apply U.trans (h2 := U_setWaiting _ _ _ _)
        | split
    · rw [spaceAvail]
      try dsimp only
      repeat' first
        | with_reducible exact U.refl _
        | exact hN _ _
        | exact hS _ _
        | exact U_schedulePass _ _ _
        | split

theorem U_notifyUp (n : Nat) (w : World) (x : Nat) : U w (notifyUp n w x) :=
  (U_notifyUp_spaceAvail n w x).1
theorem U_spaceAvail (n : Nat) (w : World) (x : Nat) : U w (spaceAvail n w x) :=
  (U_notifyUp_spaceAvail n w x).2
theorem U_notify (w : World) (x : Nat) : U w (w.notify x) := U_notifyUp _ _ _
theorem U_spaceAvailable (w : World) (x : Nat) : U w (w.spaceAvailable x) := U_spaceAvail _ _ _

macro_rules | `(tactic| u_step) => `(tactic| with_reducible apply U.trans (h2 := U_notify _ _))
macro_rules | `(tactic| u_step) => `(tactic| with_reducible apply U.trans (h2 := U_spaceAvailable _ _))

/-! ### resources of a processor -/

theorem U_releaseReserved (w : World) (x : Nat) : U w (w.releaseReserved x) := by
  unfold releaseReserved
  split
  · exact U.refl _
  · rename_i id _
    have h := RmU.release w.rm id none
    rcases hr : w.rm.release id none with ⟨rm, res, recs, chk⟩
    rw [hr] at h
    dsimp only
    u_step
    u_step
    exact U_rmSet w rm h

theorem U_procAcquire (w : World) (x : Nat) : U w (w.procAcquire x).1 := by
  unfold procAcquire
  dsimp only
  split
  · exact U.refl _
  · rename_i req _
    split
    · exact U.refl _
    · have h := RmU.reserve w.rm req
      split
      · rename_i rm r id recs heq
        rw [heq] at h
        dsimp only
        u_step
        u_step
        exact U_rmSet w rm h
      · dsimp only
        u_auto
      · split
        · exact U.refl _
        · have h2 := RmU.register w.rm req x
          rcases hr : w.rm.register req (.proc x) with ⟨rm, chk⟩
          rw [hr] at h2
          dsimp only
          u_step
          u_step
          exact U_rmSet w rm h2

macro_rules | `(tactic| u_step) => `(tactic| with_reducible apply U.trans (h2 := U_releaseReserved _ _))

/-! ### parts, callbacks -/

theorem U_addHist (w : World) (p d : Nat) : U w (w.addHist p d) := by
  unfold addHist
  dsimp only
  u_auto

theorem U_dropHist (w : World) (p : Nat) : U w (w.dropHist p) := by
  unfold dropHist
  dsimp only
  u_auto

theorem U_applyPartCb (w : World) (x p : Nat) (c : PartCb) : U w (w.applyPartCb x p c) := by
  unfold applyPartCb
  dsimp only
  u_auto

theorem U_senseOutput (w : World) (s p : Nat) : U w (w.senseOutput s p) := by
  unfold senseOutput
  dsimp only
  u_auto

theorem U_finishCycleHandler (w : World) (x : Nat) : U w (w.finishCycleHandler x) := by
  unfold finishCycleHandler
  dsimp only
  u_auto

macro_rules | `(tactic| u_step) => `(tactic| with_reducible apply U.trans (h2 := U_addHist _ _ _))
macro_rules | `(tactic| u_step) => `(tactic| with_reducible apply U.trans (h2 := U_dropHist _ _))
macro_rules | `(tactic| u_step) => `(tactic| with_reducible apply U.trans (h2 := U_applyPartCb _ _ _ _))
macro_rules | `(tactic| u_step) => `(tactic| with_reducible apply U.trans (h2 := U_senseOutput _ _ _))
macro_rules | `(tactic| u_step) => `(tactic| with_reducible apply U.trans (h2 := U_finishCycleHandler _ _))

theorem KU_genPart_fold (d : Dev) (l : List Nat) (acc : World × List Nat) :
    KU (l.foldl (fun (acc : World × List Nat) _ =>
      let (w', k) := acc.1.newPart { quality := d.genQuality, value := d.genValue }
      (w', acc.2 ++ [k])) acc).1 = KU acc.1 := by
  induction l generalizing acc with
  | nil => rfl
  | cons a l ih => rw [List.foldl_cons, ih]; rfl

theorem KU_genPart (w : World) (x : Nat) : KU (w.genPart x).1 = KU w := by
  unfold genPart
  dsimp only
  split
  · rfl
  · exact KU_genPart_fold _ _ _

theorem U_genPart (w : World) (x : Nat) : U w (w.genPart x).1 := U.of_KU (KU_genPart w x)

macro_rules | `(tactic| u_step) => `(tactic| with_reducible apply U.trans (h2 := U_genPart _ _))

theorem U_batcherLoop (n : Nat) (w : World) (x : Nat) : U w (batcherLoop n w x) := by
  induction n generalizing w with
  | zero => exact U.refl _
  | succ n ih =>
    rw [batcherLoop]
    split
    · split
      rename_i w1 t heq
      refine U.trans ?_ (ih _)
      have h1 : U w (w1, t).1 := by
        rw [← heq]
        split <;> dsimp only <;> u_auto
      refine U.trans h1 ?_
      split
      · u_auto
      · split
        rename_i w2 b heq2
        have h2 : U w1 (w2, b).1 := by
          rw [← heq2]
          split
          · exact U.refl _
          · dsimp only
            u_step
            exact U.of_KU (KU_newPart _ _)
        refine U.trans h2 ?_
        dsimp only
        u_auto
    · exact U.refl _

macro_rules | `(tactic| u_step) => `(tactic| with_reducible apply U.trans (h2 := U_batcherLoop _ _ _))

/-! ### finishing a cycle -/

theorem U_finishCycle (w : World) (x : Nat) : U w (w.finishCycle x) := by
  unfold finishCycle
  dsimp only
  split
  · -- source
    u_step
    split
    · u_step
      u_step
      have := U_genPart w x
      revert this
      generalize w.genPart x = q
      intro this
      exact this
    · exact U.refl _
  · u_auto
  · -- processor
    split
    · u_auto
    · u_auto
  · u_auto

macro_rules | `(tactic| u_step) => `(tactic| with_reducible apply U.trans (h2 := U_finishCycle _ _))

theorem U_scheduleFinish (w : World) (x : Nat) : U w (w.scheduleFinish x) := by
  unfold scheduleFinish
  dsimp only
  u_auto

macro_rules | `(tactic| u_step) => `(tactic| with_reducible apply U.trans (h2 := U_scheduleFinish _ _))

theorem U_tryMove (w : World) (x : Nat) : U w (w.tryMove x) := by
  unfold tryMove
  dsimp only
  u_auto

macro_rules | `(tactic| u_step) => `(tactic| with_reducible apply U.trans (h2 := U_tryMove _ _))

theorem U_onReceived (w : World) (x p : Nat) : U w (w.onReceived x p) := by
  unfold onReceived
  dsimp only
  u_auto

macro_rules | `(tactic| u_step) => `(tactic| with_reducible apply U.trans (h2 := U_onReceived _ _ _))

theorem U_acceptPart (w : World) (x p : Nat) : U w (w.acceptPart x p) := by
  unfold acceptPart
  dsimp only
  u_auto

/-! ### handing parts over -/

theorem U_tryList (g : World → Nat → Nat → World × Bool)
    (hg : ∀ w y p, U w (g w y p).1) (w : World) (l : List Nat) (p : Nat) :
    U w (tryList g w l p).1 := by
  induction l generalizing w with
  | nil => exact U.refl w
  | cons y ys ih =>
    rw [tryList]
    have h := hg w y p
    split
    · rename_i heq; rw [heq] at h; exact h
    · rename_i heq; rw [heq] at h; exact h.trans (ih _)

theorem U_give (n : Nat) : ∀ (w : World) (x p : Nat), U w (give n w x p).1 := by
  induction n with
  | zero => intro w x p; exact U.of_KU (KU_setErr _ _)
  | succ n ih =>
    intro w x p
    have hT : ∀ w l p, U w (tryList (give n) w l p).1 := U_tryList _ ih
    rw [give]
    dsimp only
    repeat' first
      | u_step
      | with_reducible apply U.trans (h2 := U_acceptPart _ _ _)
      | exact hT _ _ _
      | exact ih _ _ _
      | u_heq (hT _ _ _)
      | u_heq (ih _ _ _)
      | u_heq (U_procAcquire _ _)
      | split

theorem U_givePart (w : World) (x p : Nat) : U w (w.givePart x p).1 := U_give _ _ _ _

theorem U_tryList_givePart (w : World) (l : List Nat) (p : Nat) :
    U w (tryList givePart w l p).1 := U_tryList _ U_givePart _ _ _

theorem U_passHandler (w : World) (x : Nat) : U w (w.passHandler x) := by
  unfold passHandler
  dsimp only
  repeat' first
    | u_step
    | u_heq (U_tryList_givePart _ _ _)
    | split

theorem U_bufferLoop (n : Nat) (w : World) (x : Nat) : U w (bufferLoop n w x) := by
  induction n generalizing w with
  | zero => exact U.refl _
  | succ n ih =>
    rw [bufferLoop]
    dsimp only
    repeat' first
      | u_step
      | with_reducible apply U.trans (h2 := ih _)
      | u_heq (U_tryList_givePart _ _ _)
      | split

macro_rules | `(tactic| u_step) => `(tactic| with_reducible apply U.trans (h2 := U_passHandler _ _))
macro_rules | `(tactic| u_step) => `(tactic| with_reducible apply U.trans (h2 := U_bufferLoop _ _ _))

theorem U_passPart (w : World) (x : Nat) : U w (w.passPart x) := by
  unfold passPart
  dsimp only
  u_auto

/-! ### processors: failure, shutdown, restore -/

theorem U_shutdownDev (w : World) (x : Nat) (f : Bool) (lost : Option Nat) :
    U w (w.shutdownDev x f lost) := by
  unfold shutdownDev
  dsimp only
  u_auto

theorem U_restoreDev (w : World) (x : Nat) : U w (w.restoreDev x) := by
  unfold restoreDev
  dsimp only
  u_auto

macro_rules | `(tactic| u_step) => `(tactic| with_reducible apply U.trans (h2 := U_shutdownDev _ _ _ _))
macro_rules | `(tactic| u_step) => `(tactic| with_reducible apply U.trans (h2 := U_restoreDev _ _))

theorem U_failDev (w : World) (x : Nat) : U w (w.failDev x) := by
  unfold failDev
  dsimp only
  u_auto

theorem U_releaseIfIdle (w : World) (x : Nat) : U w (w.releaseIfIdle x) := by
  unfold releaseIfIdle
  u_auto

theorem U_procResourceCb (w : World) (x : Nat) : U w (w.procResourceCb x) := by
  unfold procResourceCb
  dsimp only
  u_auto

/-! ### scripted operations on devices -/

theorem U_setBlock (w : World) (x : Nat) (b : Bool) : U w (w.setBlock x b) := by
  unfold setBlock
  dsimp only
  u_auto

theorem U_adjustParts (w : World) (x : Nat) (v : Int) : U w (w.adjustParts x v) := by
  unfold adjustParts
  dsimp only
  u_auto

theorem U_rewire (w : World) (x : Nat) (ups : List Nat) : U w (w.rewire x ups) := by
  unfold rewire
  dsimp only
  u_auto

theorem U_initDev (w : World) (x : Nat) : U w (w.initDev x) := by
  unfold initDev
  dsimp only
  u_auto

macro_rules | `(tactic| u_step) => `(tactic| with_reducible apply U.trans (h2 := U_passPart _ _))
macro_rules | `(tactic| u_step) => `(tactic| with_reducible apply U.trans (h2 := U_failDev _ _))
macro_rules | `(tactic| u_step) => `(tactic| with_reducible apply U.trans (h2 := U_releaseIfIdle _ _))
macro_rules | `(tactic| u_step) => `(tactic| with_reducible apply U.trans (h2 := U_procResourceCb _ _))
macro_rules | `(tactic| u_step) => `(tactic| with_reducible apply U.trans (h2 := U_setBlock _ _ _))
macro_rules | `(tactic| u_step) => `(tactic| with_reducible apply U.trans (h2 := U_adjustParts _ _ _))
macro_rules | `(tactic| u_step) => `(tactic| with_reducible apply U.trans (h2 := U_rewire _ _ _))
macro_rules | `(tactic| u_step) => `(tactic| with_reducible apply U.trans (h2 := U_initDev _ _))

end C10W
end SimProc
