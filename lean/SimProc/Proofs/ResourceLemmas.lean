/-
Association-list lemmas for the resource-manager model (`SimProc/Model/Resource.lean`), used by
`SimProc/Props/C09.lean`.
-/
import SimProc.Model.Resource

namespace SimProc

/-! ### sums written as `foldl (· + ·) 0` -/

theorem foldl_add_eq (l : List Int) (a : Int) :
    l.foldl (· + ·) a = a + l.foldl (· + ·) 0 := by
  induction l generalizing a with
  | nil => simp
  | cons x xs ih =>
    simp only [List.foldl_cons]
    rw [ih (a + x), ih (0 + x)]; omega

/-- Sum of a list of integers (the `foldl` form used by `heldSum`). -/
def isum (l : List Int) : Int := l.foldl (· + ·) 0

@[simp] theorem isum_nil : isum [] = 0 := rfl

@[simp] theorem isum_cons (x : Int) (l : List Int) : isum (x :: l) = x + isum l := by
  unfold isum; simp only [List.foldl_cons]; rw [foldl_add_eq]; omega

@[simp] theorem isum_append (l₁ l₂ : List Int) : isum (l₁ ++ l₂) = isum l₁ + isum l₂ := by
  induction l₁ with
  | nil => simp
  | cons x xs ih => simp [ih]; omega

/-! ### generic association lists keyed by `Nat` -/

section AList
variable {β : Type}

/-- First value stored under key `k`. -/
def alookup (l : List (Nat × β)) (k : Nat) : Option β := (l.find? (fun p => p.1 == k)).map (·.2)

/-- Overwrite every entry with key `k`. -/
def aupd (l : List (Nat × β)) (k : Nat) (v : β) : List (Nat × β) :=
  l.map (fun p => if p.1 == k then (k, v) else p)

@[simp] theorem alookup_nil (k : Nat) : alookup ([] : List (Nat × β)) k = none := rfl

theorem alookup_cons (k' : Nat) (v : β) (l : List (Nat × β)) (k : Nat) :
    alookup ((k', v) :: l) k = if k' = k then some v else alookup l k := by
  unfold alookup; simp only [List.find?_cons]
  by_cases h : k' = k
  · simp [h]
  · have : (k' == k) = false := by simpa using h
    simp [h, this]

theorem alookup_append (l₁ l₂ : List (Nat × β)) (k : Nat) :
    alookup (l₁ ++ l₂) k = (alookup l₁ k).or (alookup l₂ k) := by
  induction l₁ with
  | nil => simp
  | cons p ps ih =>
    obtain ⟨k', v⟩ := p
    simp only [List.cons_append, alookup_cons]
    split <;> simp [ih]

theorem any_key_iff (l : List (Nat × β)) (k : Nat) :
    l.any (fun p => p.1 == k) = (alookup l k).isSome := by
  induction l with
  | nil => simp
  | cons p ps ih =>
    obtain ⟨k', v⟩ := p
    simp only [List.any_cons, alookup_cons, ih]
    by_cases h : k' = k <;> simp [h]

theorem alookup_isSome_iff (l : List (Nat × β)) (k : Nat) :
    (alookup l k).isSome ↔ k ∈ l.map (·.1) := by
  induction l with
  | nil => simp
  | cons p ps ih =>
    obtain ⟨k', v⟩ := p
    simp only [alookup_cons, List.map_cons, List.mem_cons]
    by_cases h : k' = k
    · simp [h]
    · simp only [h, if_false, ih]
      constructor
      · intro h'; exact Or.inr h'
      · rintro (h' | h')
        · exact absurd h'.symm h
        · exact h'

theorem alookup_eq_none_iff (l : List (Nat × β)) (k : Nat) :
    alookup l k = none ↔ k ∉ l.map (·.1) := by
  rw [← alookup_isSome_iff]; cases alookup l k <;> simp

theorem mem_of_alookup (l : List (Nat × β)) (k : Nat) (v : β) (h : alookup l k = some v) :
    (k, v) ∈ l := by
  induction l with
  | nil => simp at h
  | cons p ps ih =>
    obtain ⟨k', v'⟩ := p
    rw [alookup_cons] at h
    by_cases hk : k' = k
    · simp only [hk, if_true, Option.some.injEq] at h
      subst hk; subst h; exact List.mem_cons_self
    · simp only [hk, if_false] at h
      exact List.mem_cons_of_mem _ (ih h)

theorem alookup_of_mem (l : List (Nat × β)) (hn : (l.map (·.1)).Nodup) (k : Nat) (v : β)
    (h : (k, v) ∈ l) : alookup l k = some v := by
  induction l with
  | nil => simp at h
  | cons p ps ih =>
    obtain ⟨k', v'⟩ := p
    simp only [List.map_cons, List.nodup_cons] at hn
    rw [alookup_cons]
    rcases List.mem_cons.1 h with h | h
    · cases h; simp
    · have : k ∈ ps.map (·.1) := List.mem_map.2 ⟨(k, v), h, rfl⟩
      have hk : k' ≠ k := fun e => hn.1 (e ▸ this)
      simp only [hk, if_false]
      exact ih hn.2 h

@[simp] theorem aupd_nil (k : Nat) (v : β) : aupd ([] : List (Nat × β)) k v = [] := rfl

theorem aupd_cons (k' : Nat) (v' : β) (l : List (Nat × β)) (k : Nat) (v : β) :
    aupd ((k', v') :: l) k v = (if k' = k then (k, v) else (k', v')) :: aupd l k v := by
  unfold aupd; simp only [List.map_cons, List.cons.injEq, and_true]
  by_cases h : k' = k <;> simp [h]

theorem keys_aupd (l : List (Nat × β)) (k : Nat) (v : β) :
    (aupd l k v).map (·.1) = l.map (·.1) := by
  unfold aupd
  induction l with
  | nil => rfl
  | cons p ps ih =>
    simp only [List.map_cons, ih, List.cons.injEq, and_true]
    by_cases h : p.1 = k <;> simp [h]

theorem length_aupd (l : List (Nat × β)) (k : Nat) (v : β) : (aupd l k v).length = l.length := by
  simp [aupd]

theorem alookup_aupd_self (l : List (Nat × β)) (k : Nat) (v : β) :
    alookup (aupd l k v) k = if (alookup l k).isSome then some v else none := by
  induction l with
  | nil => simp
  | cons p ps ih =>
    obtain ⟨k', v'⟩ := p
    rw [aupd_cons]
    by_cases h : k' = k
    · simp [h, alookup_cons]
    · simp [h, alookup_cons, ih]

theorem alookup_aupd_ne (l : List (Nat × β)) (k k' : Nat) (v : β) (hne : k' ≠ k) :
    alookup (aupd l k v) k' = alookup l k' := by
  induction l with
  | nil => simp
  | cons p ps ih =>
    obtain ⟨k₀, v₀⟩ := p
    rw [aupd_cons]
    by_cases h : k₀ = k
    · have : ¬ k = k' := fun e => hne e.symm
      simp [h, alookup_cons, ih, this]
    · simp [h, alookup_cons, ih]

theorem getElem_fst_aupd (l : List (Nat × β)) (k : Nat) (v : β) (i : Nat) (h : i < (aupd l k v).length) :
    ((aupd l k v)[i]).1 = (l[i]'(by simpa [aupd] using h)).1 := by
  simp only [aupd, List.getElem_map]
  split
  · next hk => simp at hk; exact hk.symm
  · rfl

theorem mem_aupd (l : List (Nat × β)) (k : Nat) (v : β) (p : Nat × β) (h : p ∈ aupd l k v) :
    p = (k, v) ∨ (p ∈ l ∧ p.1 ≠ k) := by
  unfold aupd at h
  obtain ⟨q, hq, rfl⟩ := List.mem_map.1 h
  by_cases hk : q.1 = k
  · simp [hk]
  · right; simp [hk, hq]

/-- Sum of a function of the values after overwriting one (uniquely keyed) entry. -/
theorem isum_map_aupd (l : List (Nat × β)) (hn : (l.map (·.1)).Nodup) (k : Nat) (v old : β)
    (g : β → Int) (h : alookup l k = some old) :
    isum ((aupd l k v).map (fun p => g p.2)) = isum (l.map (fun p => g p.2)) - g old + g v := by
  induction l with
  | nil => simp at h
  | cons p ps ih =>
    obtain ⟨k', v'⟩ := p
    simp only [List.map_cons, List.nodup_cons] at hn
    rw [alookup_cons] at h
    rw [aupd_cons]
    simp only [List.map_cons, isum_cons]
    by_cases hk : k' = k
    · simp only [hk, if_true, Option.some.injEq] at h
      subst h
      have hnot : ∀ q ∈ ps, ¬ q.1 = k := by
        intro q hq e
        exact hn.1 (hk ▸ e ▸ List.mem_map.2 ⟨q, hq, rfl⟩)
      have : aupd ps k v = ps := by
        unfold aupd
        conv => rhs; rw [← List.map_id ps]
        apply List.map_congr_left
        intro q hq; simp [hnot q hq]
      simp [hk, this]; omega
    · simp only [hk, if_false] at h
      have := ih hn.2 h
      simp [hk, this]; omega

end AList

/-! ### the resource manager's pools, reservations and holdings as association lists -/

namespace RM

theorem lookup_eq (rm : RM) (r : Nat) : rm.lookup r = alookup rm.pools r := rfl
theorem held_eq (rm : RM) (id : Nat) : rm.held id = alookup rm.resv id := rfl
theorem heldAmt_eq (h : Req) (r : Nat) : heldAmt h r = alookup h r := rfl
theorem setHeld_resv (rm : RM) (id : Nat) (h : Req) : (rm.setHeld id h).resv = aupd rm.resv id h := rfl
@[simp] theorem setHeld_pools (rm : RM) (id : Nat) (h : Req) : (rm.setHeld id h).pools = rm.pools := rfl
@[simp] theorem setHeld_waiting (rm : RM) (id : Nat) (h : Req) : (rm.setHeld id h).waiting = rm.waiting := rfl
@[simp] theorem setHeld_inited (rm : RM) (id : Nat) (h : Req) : (rm.setHeld id h).inited = rm.inited := rfl
@[simp] theorem setHeld_lookup (rm : RM) (id : Nat) (h : Req) (r : Nat) :
    (rm.setHeld id h).lookup r = rm.lookup r := rfl
@[simp] theorem setHeld_usage (rm : RM) (id : Nat) (h : Req) (r : Nat) :
    (rm.setHeld id h).usage r = rm.usage r := rfl
@[simp] theorem setHeld_capacity (rm : RM) (id : Nat) (h : Req) (r : Nat) :
    (rm.setHeld id h).capacity r = rm.capacity r := rfl

/-- Amount of resource `r` in a holding / request (0 if absent). -/
def amtOf (h : Req) (r : Nat) : Int := (heldAmt h r).getD 0

@[simp] theorem amtOf_nil (r : Nat) : amtOf [] r = 0 := rfl

theorem amtOf_cons (k : Nat) (a : Int) (h : Req) (r : Nat) :
    amtOf ((k, a) :: h) r = if k = r then a else amtOf h r := by
  unfold amtOf; rw [heldAmt_eq, heldAmt_eq, alookup_cons]; split <;> rfl

theorem amtOf_of_not_mem (h : Req) (r : Nat) (hr : r ∉ h.map (·.1)) : amtOf h r = 0 := by
  unfold amtOf; rw [heldAmt_eq, (alookup_eq_none_iff h r).2 hr]; rfl

theorem amtOf_of_heldAmt (h : Req) (r : Nat) (x : Int) (hx : heldAmt h r = some x) : amtOf h r = x := by
  unfold amtOf; rw [hx]; rfl

/-! #### `setPool` -/

theorem setPool_pools (rm : RM) (r : Nat) (v : Int × Int) :
    (rm.setPool r v).pools =
      if (rm.lookup r).isSome then aupd rm.pools r v else rm.pools ++ [(r, v)] := by
  unfold setPool; rw [any_key_iff, ← lookup_eq]
  split <;> rfl

@[simp] theorem setPool_resv (rm : RM) (r : Nat) (v : Int × Int) : (rm.setPool r v).resv = rm.resv := by
  unfold setPool; split <;> rfl
@[simp] theorem setPool_waiting (rm : RM) (r : Nat) (v : Int × Int) :
    (rm.setPool r v).waiting = rm.waiting := by
  unfold setPool; split <;> rfl
@[simp] theorem setPool_inited (rm : RM) (r : Nat) (v : Int × Int) :
    (rm.setPool r v).inited = rm.inited := by
  unfold setPool; split <;> rfl

theorem lookup_setPool_self (rm : RM) (r : Nat) (v : Int × Int) : (rm.setPool r v).lookup r = some v := by
  rw [lookup_eq, setPool_pools]
  split
  · next h => rw [alookup_aupd_self, ← lookup_eq, h]; rfl
  · next h =>
    rw [alookup_append, ← lookup_eq]
    cases hl : rm.lookup r with
    | some x => simp [hl] at h
    | none => simp [alookup_cons]

theorem lookup_setPool_ne (rm : RM) (r r' : Nat) (v : Int × Int) (hne : r' ≠ r) :
    (rm.setPool r v).lookup r' = rm.lookup r' := by
  rw [lookup_eq, setPool_pools]
  split
  · rw [alookup_aupd_ne _ _ _ _ hne, ← lookup_eq]
  · rw [alookup_append, ← lookup_eq]
    have : ¬ r = r' := fun e => hne e.symm
    simp [alookup_cons, this]

theorem lookup_setPool (rm : RM) (r r' : Nat) (v : Int × Int) :
    (rm.setPool r v).lookup r' = if r' = r then some v else rm.lookup r' := by
  split
  · next h => rw [h, lookup_setPool_self]
  · next h => rw [lookup_setPool_ne _ _ _ _ h]

theorem setPool_keys_nodup (rm : RM) (r : Nat) (v : Int × Int) (hn : (rm.pools.map (·.1)).Nodup) :
    ((rm.setPool r v).pools.map (·.1)).Nodup := by
  rw [setPool_pools]
  split
  · rw [keys_aupd]; exact hn
  · next h =>
    have hnone : rm.lookup r = none := by cases hl : rm.lookup r <;> simp_all
    rw [lookup_eq, alookup_eq_none_iff] at hnone
    rw [List.map_append, List.nodup_append]
    refine ⟨hn, by simp, ?_⟩
    intro a ha b hb
    simp at hb; subst hb
    intro e; subst e; exact hnone ha

/-! #### `take` and `credit` -/

theorem take_cons (rm : RM) (r : Nat) (a : Int) (rest : Req) :
    (rm.take ((r, a) :: rest)).1 =
      if a = 0 then (rm.take rest).1
      else ((rm.setPool r (rm.usage r + a, rm.capacity r)).take rest).1 := by
  rw [take]
  by_cases h : a = 0 <;> simp [h]

@[simp] theorem take_nil (rm : RM) : (rm.take []).1 = rm := rfl

theorem take_resv (rm : RM) (req : Req) : (rm.take req).1.resv = rm.resv := by
  induction req generalizing rm with
  | nil => rfl
  | cons p ps ih =>
    obtain ⟨r, a⟩ := p
    rw [take_cons]; split
    · exact ih rm
    · rw [ih]; simp

theorem take_waiting (rm : RM) (req : Req) : (rm.take req).1.waiting = rm.waiting := by
  induction req generalizing rm with
  | nil => rfl
  | cons p ps ih =>
    obtain ⟨r, a⟩ := p
    rw [take_cons]; split
    · exact ih rm
    · rw [ih]; simp

theorem take_inited (rm : RM) (req : Req) : (rm.take req).1.inited = rm.inited := by
  induction req generalizing rm with
  | nil => rfl
  | cons p ps ih =>
    obtain ⟨r, a⟩ := p
    rw [take_cons]; split
    · exact ih rm
    · rw [ih]; simp

theorem take_keys_nodup (rm : RM) (req : Req) (hn : (rm.pools.map (·.1)).Nodup) :
    ((rm.take req).1.pools.map (·.1)).Nodup := by
  induction req generalizing rm with
  | nil => exact hn
  | cons p ps ih =>
    obtain ⟨r, a⟩ := p
    rw [take_cons]; split
    · exact ih rm hn
    · exact ih _ (setPool_keys_nodup _ _ _ hn)

theorem usage_setPool (rm : RM) (r r' : Nat) (v : Int × Int) :
    (rm.setPool r v).usage r' = if r' = r then v.1 else rm.usage r' := by
  unfold usage; rw [lookup_setPool]; split <;> rfl

theorem capacity_setPool (rm : RM) (r r' : Nat) (v : Int × Int) :
    (rm.setPool r v).capacity r' = if r' = r then v.2 else rm.capacity r' := by
  unfold capacity; rw [lookup_setPool]; split <;> rfl

/-- Effect of `take` on every pool, for a request with distinct keys. -/
theorem lookup_take (rm : RM) (req : Req) (hk : (req.map (·.1)).Nodup) (r : Nat) :
    (rm.take req).1.lookup r =
      if amtOf req r = 0 then rm.lookup r else some (rm.usage r + amtOf req r, rm.capacity r) := by
  induction req generalizing rm with
  | nil => simp
  | cons p ps ih =>
    obtain ⟨k, a⟩ := p
    simp only [List.map_cons, List.nodup_cons] at hk
    rw [take_cons, amtOf_cons]
    by_cases hkr : k = r
    · subst hkr
      have h0 : amtOf ps k = 0 := amtOf_of_not_mem _ _ hk.1
      by_cases ha : a = 0
      · simp only [ha, if_true]; rw [ih rm hk.2, h0]; simp
      · simp only [ha, if_false, if_true]; rw [ih _ hk.2, h0, lookup_setPool_self]; simp
    · have hrk : r ≠ k := fun e => hkr e.symm
      simp only [hkr, if_false]
      by_cases ha : a = 0
      · simp only [ha, if_true]; exact ih rm hk.2
      · simp only [ha, if_false]
        rw [ih _ hk.2, lookup_setPool_ne _ _ _ _ hrk, usage_setPool, capacity_setPool]
        simp [hrk]

theorem usage_take (rm : RM) (req : Req) (hk : (req.map (·.1)).Nodup) (r : Nat) :
    (rm.take req).1.usage r = rm.usage r + amtOf req r := by
  rw [usage, lookup_take rm req hk]
  split
  · next h => rw [h]; simp [usage]
  · rfl

theorem capacity_take (rm : RM) (req : Req) (hk : (req.map (·.1)).Nodup) (r : Nat) :
    (rm.take req).1.capacity r = rm.capacity r := by
  rw [capacity, lookup_take rm req hk]
  split
  · rfl
  · rfl

theorem lookup_take_isSome (rm : RM) (req : Req) (hk : (req.map (·.1)).Nodup) (r : Nat)
    (h : (rm.lookup r).isSome) : ((rm.take req).1.lookup r).isSome := by
  rw [lookup_take rm req hk]; split
  · exact h
  · rfl

theorem credit_eq_take (rm : RM) (req : Req) :
    rm.credit req = rm.take (req.map (fun p => (p.1, -p.2))) := by
  induction req generalizing rm with
  | nil => rfl
  | cons p ps ih =>
    obtain ⟨r, a⟩ := p
    simp only [List.map_cons]
    rw [credit, take]
    by_cases ha : a = 0
    · simp [ha, ih]
    · have : ¬ (-a = 0) := by omega
      simp only [beq_iff_eq, ha, this, if_false, Int.sub_eq_add_neg, ih]

theorem amtOf_neg (req : Req) (r : Nat) :
    amtOf (req.map (fun p => (p.1, -p.2))) r = - amtOf req r := by
  induction req with
  | nil => simp
  | cons p ps ih =>
    obtain ⟨k, a⟩ := p
    simp only [List.map_cons, amtOf_cons, ih]; split <;> rfl

theorem keys_neg (req : Req) : (req.map (fun p => (p.1, -p.2))).map (·.1) = req.map (·.1) := by
  simp [List.map_map, Function.comp_def]

theorem credit_resv (rm : RM) (req : Req) : (rm.credit req).1.resv = rm.resv := by
  rw [credit_eq_take, take_resv]
theorem credit_waiting (rm : RM) (req : Req) : (rm.credit req).1.waiting = rm.waiting := by
  rw [credit_eq_take, take_waiting]
theorem credit_inited (rm : RM) (req : Req) : (rm.credit req).1.inited = rm.inited := by
  rw [credit_eq_take, take_inited]
theorem credit_keys_nodup (rm : RM) (req : Req) (hn : (rm.pools.map (·.1)).Nodup) :
    ((rm.credit req).1.pools.map (·.1)).Nodup := by
  rw [credit_eq_take]; exact take_keys_nodup _ _ hn

theorem lookup_credit (rm : RM) (req : Req) (hk : (req.map (·.1)).Nodup) (r : Nat) :
    (rm.credit req).1.lookup r =
      if amtOf req r = 0 then rm.lookup r else some (rm.usage r - amtOf req r, rm.capacity r) := by
  rw [credit_eq_take, lookup_take _ _ (by rw [keys_neg]; exact hk), amtOf_neg]
  by_cases h : amtOf req r = 0
  · simp [h]
  · have : ¬ (-amtOf req r = 0) := by omega
    simp only [h, this, if_false, Int.sub_eq_add_neg]

theorem usage_credit (rm : RM) (req : Req) (hk : (req.map (·.1)).Nodup) (r : Nat) :
    (rm.credit req).1.usage r = rm.usage r - amtOf req r := by
  rw [credit_eq_take, usage_take _ _ (by rw [keys_neg]; exact hk), amtOf_neg]; omega

theorem capacity_credit (rm : RM) (req : Req) (hk : (req.map (·.1)).Nodup) (r : Nat) :
    (rm.credit req).1.capacity r = rm.capacity r := by
  rw [credit_eq_take, capacity_take _ _ (by rw [keys_neg]; exact hk)]

theorem lookup_credit_isSome (rm : RM) (req : Req) (hk : (req.map (·.1)).Nodup) (r : Nat)
    (h : (rm.lookup r).isSome) : ((rm.credit req).1.lookup r).isSome := by
  rw [credit_eq_take]; exact lookup_take_isSome _ _ (by rw [keys_neg]; exact hk) _ h

/-! #### normal forms of `reserve` / `release`, validation -/

theorem canFulfill_iff (rm : RM) (req : Req) :
    rm.canFulfill req = true ↔
      ∀ e ∈ req, e.2 = 0 ∨ ∃ u c, rm.lookup e.1 = some (u, c) ∧ e.2 ≤ c - u := by
  unfold RM.canFulfill
  rw [List.all_eq_true]
  constructor
  · intro h e he
    have := h e he
    obtain ⟨r, a⟩ := e
    simp only [Bool.or_eq_true, beq_iff_eq] at this
    rcases this with h0 | h1
    · exact Or.inl h0
    · right
      cases hl : rm.lookup r with
      | none => simp [hl] at h1
      | some v =>
        obtain ⟨u, c⟩ := v
        simp [hl] at h1
        exact ⟨u, c, rfl, h1⟩
  · intro h e he
    obtain ⟨r, a⟩ := e
    simp only [Bool.or_eq_true, beq_iff_eq]
    rcases h _ he with h0 | ⟨u, c, hl, hle⟩
    · exact Or.inl h0
    · right; simp at hl hle; simp [hl]; exact hle

theorem reserve_eq (rm : RM) (req : Req) :
    rm.reserve req =
      if req.any (fun p => p.2 < 0) then (rm, .err .value, none, [])
      else if rm.canFulfill (req.filter (fun p => p.2 > 0)) then
        ({ (rm.take req).1 with
            resv := (rm.take req).1.resv ++ [((rm.take req).1.resv.length, req.filter (fun p => p.2 > 0))] },
          .some_, some (rm.take req).1.resv.length, (rm.take req).2)
      else (rm, .none_, none, []) := rfl

theorem validateRelease_ok_iff (h rel : Req) :
    validateRelease h rel = .ok ↔
      ∀ e ∈ rel, 0 ≤ e.2 ∧ ∃ x, RM.heldAmt h e.1 = some x ∧ e.2 ≤ x := by
  induction rel with
  | nil => simp [validateRelease]
  | cons p ps ih =>
    obtain ⟨r, a⟩ := p
    rw [validateRelease]
    by_cases ha : a < 0
    · simp [ha]; omega
    · simp only [ha, if_false]
      cases hx : heldAmt h r with
      | none => simp [hx]
      | some x =>
        simp only
        by_cases hxa : x < a
        · simp [hxa, hx]; omega
        · simp only [hxa, if_false, ih, List.mem_cons, forall_eq_or_imp, hx]
          simp; omega

theorem validateRelease_ok_or_err (h rel : Req) :
    validateRelease h rel = .ok ∨ ∃ e, validateRelease h rel = .err e := by
  induction rel with
  | nil => simp [validateRelease]
  | cons p ps ih =>
    obtain ⟨r, a⟩ := p
    rw [validateRelease]
    split
    · simp
    · split
      · simp
      · split
        · simp
        · exact ih

theorem release_all_eq (rm : RM) (id : Nat) (h : Req) (hh : rm.held id = some h) :
    rm.release id none = ((rm.credit h).1.setHeld id [], .ok, (rm.credit h).2, rm.inited) := by
  unfold RM.release; simp only [hh]

theorem release_part_eq (rm : RM) (id : Nat) (h rel : Req) (hh : rm.held id = some h)
    (hv : validateRelease h rel = .ok) :
    rm.release id (some rel) =
      ((rm.credit rel).1.setHeld id (reduceHeld h rel), .ok, (rm.credit rel).2, rm.inited) := by
  unfold RM.release; simp only [hh, hv]

theorem release_part_err (rm : RM) (id : Nat) (h rel : Req) (hh : rm.held id = some h)
    (hv : validateRelease h rel ≠ .ok) :
    (rm.release id (some rel)).1 = rm := by
  rcases validateRelease_ok_or_err h rel with hv' | ⟨e, hv'⟩
  · exact absurd hv' hv
  · unfold RM.release; simp only [hh, hv']

theorem held_setHeld_self (rm : RM) (id : Nat) (h : Req) (hs : (rm.held id).isSome) :
    (rm.setHeld id h).held id = some h := by
  rw [held_eq, setHeld_resv, alookup_aupd_self, ← held_eq, hs]; rfl

theorem held_setHeld_ne (rm : RM) (id id' : Nat) (h : Req) (hne : id' ≠ id) :
    (rm.setHeld id h).held id' = rm.held id' := by
  rw [held_eq, setHeld_resv, alookup_aupd_ne _ _ _ _ hne, ← held_eq]

/-! #### ids of reservations -/

theorem keys_of_ids {β : Type} (l : List (Nat × β)) (h : ∀ i (hi : i < l.length), (l[i]).1 = i) :
    l.map (·.1) = List.range l.length := by
  apply List.ext_getElem
  · simp
  · intro i h1 h2
    simp only [List.getElem_map, List.getElem_range]
    exact h i (by simpa using h1)

theorem nodup_of_ids {β : Type} (l : List (Nat × β)) (h : ∀ i (hi : i < l.length), (l[i]).1 = i) :
    (l.map (·.1)).Nodup := by
  rw [keys_of_ids l h]; exact List.nodup_range

theorem alookup_length_of_ids {β : Type} (l : List (Nat × β))
    (h : ∀ i (hi : i < l.length), (l[i]).1 = i) : alookup l l.length = none := by
  rw [alookup_eq_none_iff, keys_of_ids l h]; simp

/-! #### amounts -/

theorem amtOf_zero_or_mem (h : Req) (r : Nat) : amtOf h r = 0 ∨ (r, amtOf h r) ∈ h := by
  unfold amtOf
  cases hx : heldAmt h r with
  | none => left; rfl
  | some x => right; exact mem_of_alookup h r x hx

theorem amtOf_nonneg (h : Req) (hp : ∀ e ∈ h, 0 ≤ e.2) (r : Nat) : 0 ≤ amtOf h r := by
  rcases amtOf_zero_or_mem h r with h0 | hm
  · omega
  · exact hp _ hm

theorem amtOf_of_mem (h : Req) (hn : (h.map (·.1)).Nodup) (r : Nat) (x : Int) (hm : (r, x) ∈ h) :
    amtOf h r = x := by
  unfold amtOf; rw [heldAmt_eq, alookup_of_mem h hn r x hm]; rfl

theorem isum_nonneg (l : List Int) (h : ∀ x ∈ l, 0 ≤ x) : 0 ≤ isum l := by
  induction l with
  | nil => simp
  | cons x xs ih =>
    rw [isum_cons]
    have := h x List.mem_cons_self
    have := ih (fun y hy => h y (List.mem_cons_of_mem _ hy))
    omega

theorem amtOf_filter_pos (req : Req) (hk : (req.map (·.1)).Nodup) (r : Nat) :
    amtOf (req.filter (fun p => p.2 > 0)) r = if 0 < amtOf req r then amtOf req r else 0 := by
  induction req with
  | nil => simp
  | cons p ps ih =>
    obtain ⟨k, a⟩ := p
    simp only [List.map_cons, List.nodup_cons] at hk
    rw [List.filter_cons, amtOf_cons]
    by_cases hkr : k = r
    · subst hkr
      have h0 : amtOf (ps.filter (fun p => p.2 > 0)) k = 0 := by
        apply amtOf_of_not_mem
        intro hm
        obtain ⟨q, hq, hq1⟩ := List.mem_map.1 hm
        exact hk.1 (List.mem_map.2 ⟨q, (List.mem_filter.1 hq).1, hq1⟩)
      by_cases ha : 0 < a
      · simp [ha, amtOf_cons]
      · simp [ha, h0]
    · simp only [hkr, if_false]
      by_cases ha : 0 < a
      · simp only [gt_iff_lt, ha, decide_true, if_true, amtOf_cons, hkr, if_false]; exact ih hk.2
      · simp only [gt_iff_lt, ha, decide_false]; exact ih hk.2

theorem nodup_keys_filter (req : Req) (p : Nat × Int → Bool) (hk : (req.map (·.1)).Nodup) :
    ((req.filter p).map (·.1)).Nodup :=
  List.Nodup.sublist (List.Sublist.map _ List.filter_sublist) hk

/-! #### `reduceHeld` -/

theorem reduceHeld_cons (k : Nat) (x : Int) (h rel : Req) :
    reduceHeld ((k, x) :: h) rel =
      if x - amtOf rel k = 0 then reduceHeld h rel else (k, x - amtOf rel k) :: reduceHeld h rel := by
  unfold reduceHeld amtOf
  simp only [List.map_cons, List.filter_cons]
  by_cases h0 : x - (heldAmt rel k).getD 0 = 0 <;> simp [h0]

theorem reduceHeld_keys_sublist (h rel : Req) :
    ((reduceHeld h rel).map (·.1)).Sublist (h.map (·.1)) := by
  induction h with
  | nil => simp [reduceHeld]
  | cons p ps ih =>
    obtain ⟨k, x⟩ := p
    rw [reduceHeld_cons]; split
    · exact List.Sublist.cons _ ih
    · exact List.Sublist.cons_cons _ ih

theorem mem_reduceHeld (h rel : Req) (e : Nat × Int) (he : e ∈ reduceHeld h rel) :
    ∃ x, (e.1, x) ∈ h ∧ e.2 = x - amtOf rel e.1 ∧ e.2 ≠ 0 := by
  induction h with
  | nil => simp [reduceHeld] at he
  | cons p ps ih =>
    obtain ⟨k, x⟩ := p
    rw [reduceHeld_cons] at he
    split at he
    · obtain ⟨y, hy, h2⟩ := ih he; exact ⟨y, List.mem_cons_of_mem _ hy, h2⟩
    · next hne =>
      rcases List.mem_cons.1 he with rfl | he
      · exact ⟨x, List.mem_cons_self, rfl, hne⟩
      · obtain ⟨y, hy, h2⟩ := ih he; exact ⟨y, List.mem_cons_of_mem _ hy, h2⟩

theorem amtOf_reduceHeld (h rel : Req) (hn : (h.map (·.1)).Nodup) (r : Nat) :
    amtOf (reduceHeld h rel) r = if r ∈ h.map (·.1) then amtOf h r - amtOf rel r else 0 := by
  induction h with
  | nil => simp [reduceHeld]
  | cons p ps ih =>
    obtain ⟨k, x⟩ := p
    simp only [List.map_cons, List.nodup_cons] at hn
    rw [reduceHeld_cons, amtOf_cons]
    by_cases hkr : k = r
    · subst hkr
      have h0 : amtOf (reduceHeld ps rel) k = 0 :=
        amtOf_of_not_mem _ _ (fun hm => hn.1 ((reduceHeld_keys_sublist ps rel).subset hm))
      by_cases hz : x - amtOf rel k = 0
      · simp [hz, h0]
      · simp [hz, amtOf_cons]
    · have hrk : ¬ r = k := fun e => hkr e.symm
      simp only [hkr, if_false, List.map_cons, List.mem_cons, hrk, false_or]
      split
      · exact ih hn.2
      · rw [amtOf_cons]; simp only [hkr, if_false]; exact ih hn.2

/-! #### `mergeHeld` -/

/-- Add `x` to every entry with key `k`. -/
def madd (acc : Req) (k : Nat) (x : Int) : Req :=
  acc.map (fun (r', y) => if r' == k then (r', y + x) else (r', y))

/-- One step of `mergeHeld`. -/
def mstep (acc : Req) (e : Nat × Int) : Req :=
  match heldAmt acc e.1 with
  | some _ => madd acc e.1 e.2
  | none => acc ++ [(e.1, e.2)]

theorem mergeHeld_eq (ha hb : Req) : mergeHeld ha hb = hb.foldl mstep ha := rfl

@[simp] theorem madd_nil (k : Nat) (x : Int) : madd [] k x = [] := rfl

theorem madd_cons (k' : Nat) (y : Int) (ps : Req) (k : Nat) (x : Int) :
    madd ((k', y) :: ps) k x = (if k' = k then (k', y + x) else (k', y)) :: madd ps k x := by
  unfold madd; simp only [List.map_cons, List.cons.injEq, and_true]
  by_cases h : k' = k <;> simp [h]

theorem madd_keys (acc : Req) (k : Nat) (x : Int) : (madd acc k x).map (·.1) = acc.map (·.1) := by
  induction acc with
  | nil => rfl
  | cons p ps ih =>
    obtain ⟨k', y⟩ := p
    rw [madd_cons]
    simp only [List.map_cons, ih, List.cons.injEq, and_true]
    split <;> rfl

theorem amtOf_madd_ne (acc : Req) (k : Nat) (x : Int) (r : Nat) (hne : r ≠ k) :
    amtOf (madd acc k x) r = amtOf acc r := by
  induction acc with
  | nil => simp
  | cons p ps ih =>
    obtain ⟨k', y⟩ := p
    rw [madd_cons]
    by_cases hk : k' = k
    · subst hk
      have : ¬ k' = r := fun e => hne e.symm
      simp only [if_true, amtOf_cons, this, if_false]; exact ih
    · simp only [hk, if_false, amtOf_cons]
      split
      · rfl
      · exact ih

theorem amtOf_madd_self (acc : Req) (k : Nat) (x : Int) (hm : k ∈ acc.map (·.1)) :
    amtOf (madd acc k x) k = amtOf acc k + x := by
  induction acc with
  | nil => simp at hm
  | cons p ps ih =>
    obtain ⟨k', y⟩ := p
    rw [madd_cons]
    by_cases hk : k' = k
    · subst hk; simp [amtOf_cons]
    · simp only [hk, if_false, amtOf_cons]
      simp only [List.map_cons, List.mem_cons] at hm
      rcases hm with hm | hm
      · exact absurd hm.symm hk
      · exact ih hm

theorem mstep_keys (acc : Req) (e : Nat × Int) :
    (mstep acc e).map (·.1) = if e.1 ∈ acc.map (·.1) then acc.map (·.1) else acc.map (·.1) ++ [e.1] := by
  unfold mstep
  cases hx : heldAmt acc e.1 with
  | some x =>
    have : e.1 ∈ acc.map (·.1) := (alookup_isSome_iff acc e.1).1 (by rw [← heldAmt_eq, hx]; rfl)
    simp only [this, if_true]; exact madd_keys acc e.1 e.2
  | none =>
    have : e.1 ∉ acc.map (·.1) := (alookup_eq_none_iff acc e.1).1 hx
    simp [this]

theorem amtOf_append_single (acc : Req) (k : Nat) (x : Int) (r : Nat) (hk : k ∉ acc.map (·.1)) :
    amtOf (acc ++ [(k, x)]) r = amtOf acc r + if k = r then x else 0 := by
  induction acc with
  | nil => simp [amtOf_cons]
  | cons p ps ih =>
    obtain ⟨k', y⟩ := p
    simp only [List.map_cons, List.mem_cons, not_or] at hk
    simp only [List.cons_append, amtOf_cons]
    by_cases hr : k' = r
    · subst hr
      have : ¬ k = k' := hk.1
      simp [this]
    · simp only [hr, if_false]; exact ih hk.2

theorem amtOf_mstep (acc : Req) (e : Nat × Int) (r : Nat) :
    amtOf (mstep acc e) r = amtOf acc r + if e.1 = r then e.2 else 0 := by
  unfold mstep
  cases hx : heldAmt acc e.1 with
  | some x =>
    have hm : e.1 ∈ acc.map (·.1) := (alookup_isSome_iff acc e.1).1 (by rw [← heldAmt_eq, hx]; rfl)
    simp only
    by_cases hr : e.1 = r
    · subst hr; rw [amtOf_madd_self _ _ _ hm]; simp
    · have : r ≠ e.1 := fun h => hr h.symm
      rw [amtOf_madd_ne _ _ _ _ this]; simp [hr]
  | none =>
    have : e.1 ∉ acc.map (·.1) := (alookup_eq_none_iff acc e.1).1 hx
    exact amtOf_append_single acc e.1 e.2 r this

theorem mstep_nodup (acc : Req) (e : Nat × Int) (hn : (acc.map (·.1)).Nodup) :
    ((mstep acc e).map (·.1)).Nodup := by
  rw [mstep_keys]; split
  · exact hn
  · next h =>
    rw [List.nodup_append]
    refine ⟨hn, by simp, ?_⟩
    intro a ha b hb
    simp at hb; subst hb
    intro e'; subst e'; exact h ha

theorem mstep_pos (acc : Req) (e : Nat × Int) (hp : ∀ q ∈ acc, 0 < q.2) (he : 0 < e.2) :
    ∀ q ∈ mstep acc e, 0 < q.2 := by
  unfold mstep
  cases heldAmt acc e.1 with
  | some x =>
    intro q hq
    simp only [madd] at hq
    obtain ⟨q', hq', rfl⟩ := List.mem_map.1 hq
    have := hp q' hq'
    obtain ⟨k', y⟩ := q'
    simp only at this ⊢
    split <;> simp <;> omega
  | none =>
    intro q hq
    simp only [List.mem_append, List.mem_singleton] at hq
    rcases hq with hq | rfl
    · exact hp q hq
    · exact he

theorem amtOf_mergeHeld (ha hb : Req) (hn : (hb.map (·.1)).Nodup) (r : Nat) :
    amtOf (mergeHeld ha hb) r = amtOf ha r + amtOf hb r := by
  rw [mergeHeld_eq]
  induction hb generalizing ha with
  | nil => simp
  | cons p ps ih =>
    obtain ⟨k, x⟩ := p
    simp only [List.map_cons, List.nodup_cons] at hn
    rw [List.foldl_cons, ih _ hn.2, amtOf_mstep, amtOf_cons]
    by_cases hk : k = r
    · subst hk; simp [amtOf_of_not_mem _ _ hn.1]
    · simp [hk]

theorem mergeHeld_nodup (ha hb : Req) (hn : (ha.map (·.1)).Nodup) :
    ((mergeHeld ha hb).map (·.1)).Nodup := by
  rw [mergeHeld_eq]
  induction hb generalizing ha with
  | nil => exact hn
  | cons p ps ih => rw [List.foldl_cons]; exact ih _ (mstep_nodup _ _ hn)

theorem mergeHeld_pos (ha hb : Req) (hpa : ∀ q ∈ ha, 0 < q.2) (hpb : ∀ q ∈ hb, 0 < q.2) :
    ∀ q ∈ mergeHeld ha hb, 0 < q.2 := by
  rw [mergeHeld_eq]
  induction hb generalizing ha with
  | nil => exact hpa
  | cons p ps ih =>
    rw [List.foldl_cons]
    exact ih _ (mstep_pos _ _ hpa (hpb p List.mem_cons_self))
      (fun q hq => hpb q (List.mem_cons_of_mem _ hq))

theorem mergeHeld_keys (ha hb : Req) (k : Nat) (hk : k ∈ (mergeHeld ha hb).map (·.1)) :
    k ∈ ha.map (·.1) ∨ k ∈ hb.map (·.1) := by
  rw [mergeHeld_eq] at hk
  induction hb generalizing ha with
  | nil => exact Or.inl hk
  | cons p ps ih =>
    rw [List.foldl_cons] at hk
    rcases ih _ hk with h | h
    · rw [mstep_keys] at h
      split at h
      · exact Or.inl h
      · simp only [List.mem_append, List.mem_singleton] at h
        rcases h with h | h
        · exact Or.inl h
        · right; simp [h]
    · right; simp only [List.map_cons, List.mem_cons]; exact Or.inr h

/-! #### a successful `reserve` -/

@[simp] theorem lookup_withResv (rm : RM) (x : List (Nat × Req)) (r : Nat) :
    ({ rm with resv := x } : RM).lookup r = rm.lookup r := rfl
@[simp] theorem usage_withResv (rm : RM) (x : List (Nat × Req)) (r : Nat) :
    ({ rm with resv := x } : RM).usage r = rm.usage r := rfl
@[simp] theorem capacity_withResv (rm : RM) (x : List (Nat × Req)) (r : Nat) :
    ({ rm with resv := x } : RM).capacity r = rm.capacity r := rfl

theorem reserve_some (rm : RM) (req : Req) (id : Nat) (hs : (rm.reserve req).2.2.1 = some id) :
    req.any (fun p => p.2 < 0) = false ∧ rm.canFulfill (req.filter (fun p => p.2 > 0)) = true ∧
    id = rm.resv.length ∧
    (rm.reserve req).1 =
      { (rm.take req).1 with resv := rm.resv ++ [(rm.resv.length, req.filter (fun p => p.2 > 0))] } := by
  rw [reserve_eq] at hs ⊢
  by_cases h1 : req.any (fun p => p.2 < 0) = true
  · simp [h1] at hs
  · by_cases h2 : rm.canFulfill (req.filter (fun p => p.2 > 0)) = true
    · simp only [h1, h2, if_true] at hs ⊢
      rw [take_resv] at hs ⊢
      simp only [Bool.false_eq_true, if_false, Option.some.injEq] at hs ⊢
      exact ⟨trivial, trivial, hs.symm, trivial⟩
    · simp [h1, h2] at hs

/-! #### operations that fail change nothing; releasing twice -/

theorem apply_err_eq (rm : RM) (op : RMOp) (e : Err) (h : (rm.apply op).2.1 = .err e) :
    (rm.apply op).1 = rm := by
  cases op with
  | init => simp [RM.apply, RM.init] at h
  | add r amt =>
    simp only [RM.apply, RM.add] at h ⊢
    split at h <;> try split at h
    all_goals try split at h
    all_goals simp_all
  | reserve req =>
    simp only [RM.apply, RM.reserve] at h ⊢
    split at h <;> try split at h
    all_goals simp_all
  | release id part =>
    simp only [RM.apply, RM.release] at h ⊢
    split at h <;> try split at h
    all_goals try split at h
    all_goals simp_all
  | merge a b =>
    simp only [RM.apply, RM.merge] at h ⊢
    split at h <;> try split at h
    all_goals simp_all
  | register req cb => simp [RM.apply, RM.register] at h

theorem reserve_none_eq (rm : RM) (req : Req) (hs : (rm.reserve req).2.2.1 = none) :
    (rm.reserve req).1 = rm := by
  rw [reserve_eq] at hs ⊢
  split
  · rfl
  · split
    · next h1 h2 => simp [h1, h2] at hs
    · rfl

theorem release_twice_pools (rm : RM) (id : Nat) (hh : (rm.held id).isSome) :
    ((rm.release id none).1.release id none).1.pools = (rm.release id none).1.pools := by
  obtain ⟨h, hh'⟩ := Option.isSome_iff_exists.1 hh
  rw [release_all_eq rm id h hh']
  simp only
  have : ((rm.credit h).1.setHeld id []).held id = some [] := by
    apply held_setHeld_self
    rw [held_eq, credit_resv, ← held_eq]; exact hh
  rw [release_all_eq _ id [] this]
  simp [RM.credit]

end RM

end SimProc
