/-
C08S — the idle clock is exact.  Part 5: the initialisation phase (`initDev`, `initAsset`,
`simulateInit`): slots are untouched, the clocks of the initialised single-slot devices are started.
-/
import SimProc.Proofs.C08SWorld

namespace SimProc
namespace C08S
open World FloorCoreL

/-! ### changes the clock view does not see -/

structure Same (w w' : World) : Prop where
  now : w'.now = w.now
  len : w'.devs.length = w.devs.length
  dev : ∀ y, cv (w'.dev y) = cv (w.dev y)

theorem Same.refl (w : World) : Same w w := ⟨rfl, rfl, fun _ => rfl⟩
theorem Same.trans {a b c : World} (h1 : Same a b) (h2 : Same b c) : Same a c :=
  ⟨h2.now.trans h1.now, h2.len.trans h1.len, fun y => (h2.dev y).trans (h1.dev y)⟩
theorem Same.of_devs {w w' : World} (hn : w'.now = w.now) (hd : w'.devs = w.devs) : Same w w' :=
  ⟨hn, by rw [hd], fun y => by rw [dev_congr hd y]⟩
theorem Same.foldl {α : Type} (f : World → α → World) (l : List α) (w : World)
    (h : ∀ w a, Same w (f w a)) : Same w (l.foldl f w) := by
  induction l generalizing w with
  | nil => exact Same.refl w
  | cons a l ih => exact (h w a).trans (ih _)
theorem Same.kind {w w' : World} (h : Same w w') (y : Nat) : (w'.dev y).kind = (w.dev y).kind :=
  congrArg CV.kind (h.dev y)

section same
variable (w : World)

theorem Same_setDev_same (x : Nat) (d : Dev) (h : cv d = cv (w.dev x)) : Same w (w.setDev x d) := by
  refine ⟨rfl, by simp, fun y => ?_⟩
  rw [dev_setDev]
  split
  · next hxy => rw [← hxy.1]; exact h
  · rfl

theorem Same_modDev_same (x : Nat) (f : Dev → Dev) (h : cv (f (w.dev x)) = cv (w.dev x)) :
    Same w (w.modDev x f) := Same_setDev_same w x _ h

theorem Same_schedLib (t a : Int) (act : Action) (p : Int) : Same w (w.schedLib t a act p) :=
  Same.of_devs (now_schedLib w t a act p) (schedLib_devs w t a act p)

theorem Same_schedulePass (x : Nat) (o : Int) : Same w (w.schedulePass x o) := by
  unfold World.schedulePass
  dsimp only
  split
  · exact Same.refl w
  · refine Same.trans ?_ (Same_schedLib _ _ _ _ _)
    exact Same_setDev_same w x _ rfl

theorem Same_genPart (x : Nat) : Same w (w.genPart x).1 := by
  cases h : ((w.dev x).genBatch == 0)
  · rw [C02V.genPart_batch w x h]; exact Same.of_devs rfl rfl
  · rw [C02V.genPart_leaf w x h]; exact Same.of_devs rfl rfl

theorem Same_addHist (p d : Nat) : Same w (w.addHist p d) :=
  Same.of_devs (now_addHist w p d) (addHist_devs w p d)

theorem Same_finishCycle_source (x : Nat) (hk : (w.dev x).kind = .source) :
    Same w (w.finishCycle x) := by
  rw [finishCycle_source_eq w x hk]
  refine Same.trans ?_ (Same_schedulePass _ _ _)
  split
  · have h1 : Same w (w.genPart x).1 := Same_genPart w x
    generalize w.genPart x = g at h1 ⊢
    obtain ⟨w1, p⟩ := g
    have hT : isS (w1.dev x).kind = false := by rw [h1.kind, hk]; rfl
    have h2 : Same w1 (w1.modDev x (fun d => { d with output := some p })) :=
      Same_modDev_same w1 x _ (cv_eq_of_mask hT rfl rfl rfl rfl)
    exact (h1.trans h2).trans (Same_addHist _ _ _)
  · exact Same.refl _

theorem Same_scheduleFinish_source (x : Nat) (hk : (w.dev x).kind = .source) :
    Same w (w.scheduleFinish x) := by
  have h1 : Same w (w.setDev x { w.dev x with offset := 0 }) := Same_setDev_same _ _ _ rfl
  by_cases hc : 0 < w.finishDelay x
  · rw [scheduleFinish_pos w x hc]
    exact h1.trans (Same_schedLib _ _ _ _ _)
  · rw [scheduleFinish_nonpos w x (Int.not_lt.1 hc)]
    exact h1.trans (Same_finishCycle_source _ x (by rw [h1.kind]; exact hk))

theorem Same_schedUpdate (s : Nat) (b : Bool) : Same w (w.schedUpdate s b) := by
  unfold World.schedUpdate
  dsimp only
  split
  · exact Same.of_devs rfl rfl
  · refine Same.trans ?_ (Same_schedLib _ _ _ _ _)
    refine Same.trans ?_ (Same.foldl _ _ _ (fun w _ => Same.of_devs rfl rfl))
    exact Same.of_devs rfl rfl

end same

/-! ### the initialisation relation -/

/-- A single-slot device is untouched or has just been initialised: flag set, clock started. -/
def InitD (now : Int) (c c' : CV) : Prop :=
  c'.kind = c.kind ∧
    (isS c.kind = true → c' = c ∨ c' = { c with inited := true, since := some now })

structure InitR (w w' : World) : Prop where
  now : w'.now = w.now
  len : w'.devs.length = w.devs.length
  dev : ∀ y, InitD w.now (cv (w.dev y)) (cv (w'.dev y))

theorem InitD.refl (now : Int) (c : CV) : InitD now c c := ⟨rfl, fun _ => Or.inl rfl⟩

theorem InitD.trans {now : Int} {a b c : CV} (h1 : InitD now a b) (h2 : InitD now b c) :
    InitD now a c := by
  refine ⟨h2.1.trans h1.1, fun hk => ?_⟩
  rcases h1.2 hk with rfl | rfl
  · exact h2.2 hk
  · rcases h2.2 hk with h | h
    · exact Or.inr h
    · exact Or.inr h

theorem InitR.refl (w : World) : InitR w w := ⟨rfl, rfl, fun _ => InitD.refl _ _⟩
theorem InitR.trans {a b c : World} (h1 : InitR a b) (h2 : InitR b c) : InitR a c :=
  ⟨h2.now.trans h1.now, h2.len.trans h1.len, fun y => (h1.dev y).trans (h1.now ▸ h2.dev y)⟩
theorem Same.initR {w w' : World} (h : Same w w') : InitR w w' :=
  ⟨h.now, h.len, fun y => by rw [h.dev y]; exact InitD.refl _ _⟩
theorem InitR.foldl {α : Type} (f : World → α → World) (l : List α) (w : World)
    (h : ∀ w a, InitR w (f w a)) : InitR w (l.foldl f w) := by
  induction l generalizing w with
  | nil => exact InitR.refl w
  | cons a l ih => exact (h w a).trans (ih _)
theorem InitR.kind {w w' : World} (h : InitR w w') (y : Nat) : (w'.dev y).kind = (w.dev y).kind :=
  (h.dev y).1

/-- The head of `initialize(env)`: flag set, clock started. -/
theorem InitR_head (w : World) (x : Nat) :
    InitR w ((w.modDev x (fun d => { d with inited := true, val := d.val.reset })).setWaiting x true true) := by
  by_cases hx : x < w.devs.length
  · have hd : (w.modDev x (fun d => { d with inited := true, val := d.val.reset })).dev x =
        { w.dev x with inited := true, val := (w.dev x).val.reset } := dev_modDev_same hx
    unfold World.setWaiting
    simp only [hd, Bool.not_true, Bool.false_eq_true, if_false, Bool.and_false, if_true]
    refine ⟨rfl, by simp, fun y => ?_⟩
    rw [dev_setDev, modDev_devs_length]
    split
    · next hxy =>
      rw [← hxy.1]
      exact ⟨rfl, fun _ => Or.inr rfl⟩
    · next hxy =>
      rw [dev_modDev, if_neg hxy]
      exact InitD.refl _ _
  · have hx' : w.devs.length ≤ x := Nat.le_of_not_lt hx
    rw [modDev_out_of_range hx']
    unfold World.setWaiting
    have hi : (w.dev x).inited = false := by rw [dev_of_length_le hx']; rfl
    simp only [hi, Bool.not_true, Bool.false_eq_true, if_false, Bool.and_false]
    exact InitR.refl w

theorem setWaiting_kind (w : World) (x : Nat) (a b : Bool) (y : Nat) :
    ((w.setWaiting x a b).dev y).kind = (w.dev y).kind :=
  core_eq_dev_kind (setWaiting_core w x a b) y

theorem InitR_initDev (w : World) (x : Nat) : InitR w (w.initDev x) := by
  unfold World.initDev
  dsimp only
  have hh := InitR_head w x
  split
  · -- flow controllers: only the flag
    next hk =>
    refine ⟨rfl, by simp, fun y => ?_⟩
    rw [dev_modDev]
    split
    · next hxy =>
      rw [← hxy.1]
      refine ⟨rfl, fun h => ?_⟩
      have hk' : (w.dev x).kind = .gate := by rw [dev_modDev_same hxy.2] at hk; exact hk
      rw [show (cv (w.dev x)).kind = (w.dev x).kind from rfl, hk'] at h; cases h
    · exact InitD.refl _ _
  · next hk =>
    refine ⟨rfl, by simp, fun y => ?_⟩
    rw [dev_modDev]
    split
    · next hxy =>
      rw [← hxy.1]
      refine ⟨rfl, fun h => ?_⟩
      have hk' : (w.dev x).kind = .gpath := by rw [dev_modDev_same hxy.2] at hk; exact hk
      rw [show (cv (w.dev x)).kind = (w.dev x).kind from rfl, hk'] at h; cases h
    · exact InitD.refl _ _
  · next hk =>
    refine ⟨rfl, by simp, fun y => ?_⟩
    rw [dev_modDev]
    split
    · next hxy =>
      rw [← hxy.1]
      refine ⟨rfl, fun h => ?_⟩
      have hk' : (w.dev x).kind = .ginput := by rw [dev_modDev_same hxy.2] at hk; exact hk
      rw [show (cv (w.dev x)).kind = (w.dev x).kind from rfl, hk'] at h; cases h
    · exact InitD.refl _ _
  · next hk =>
    refine ⟨rfl, by simp, fun y => ?_⟩
    rw [dev_modDev]
    split
    · next hxy =>
      rw [← hxy.1]
      refine ⟨rfl, fun h => ?_⟩
      have hk' : (w.dev x).kind = .goutput := by rw [dev_modDev_same hxy.2] at hk; exact hk
      rw [show (cv (w.dev x)).kind = (w.dev x).kind from rfl, hk'] at h; cases h
    · exact InitD.refl _ _
  · -- processor
    exact hh.trans (Same_modDev_same _ _ _ rfl).initR
  · -- source
    next hk =>
    refine hh.trans (Same_scheduleFinish_source _ x ?_).initR
    rw [setWaiting_kind]; exact hk
  · exact hh

theorem InitR_initAsset (w : World) (a : AssetRef) : InitR w (w.initAsset a) := by
  cases a with
  | dev d => exact InitR_initDev w d
  | maint m =>
    refine Same.initR ?_
    exact Same.of_devs rfl rfl
  | sched s => exact (Same_schedUpdate w s false).initR
  | sensor s =>
    unfold World.initAsset
    dsimp only
    refine Same.initR ?_
    split
    · refine Same.trans ?_ (Same_schedLib _ _ _ _ _)
      exact Same.of_devs rfl rfl
    · split
      · refine Same.trans ?_ (Same_modDev_same _ _ _ rfl)
        exact Same.of_devs rfl rfl
      · exact Same.of_devs rfl rfl
  | cms c => exact InitR.refl w

theorem Same_rmEffects (w : World) (recs : List ResRec) (check : Bool) :
    Same w (w.rmEffects recs check) := by
  have h : Same w (recs.foldl (fun w r => w.addRec (.resUpdate r.res w.now r.inUse r.cap)) w) :=
    Same.foldl _ _ _ (fun w r => Same.of_devs rfl rfl)
  unfold World.rmEffects
  split
  · exact h.trans (Same_schedLib _ _ _ _ _)
  · exact h

theorem InitR_simulateInit (w : World) : InitR w w.simulateInit := by
  unfold World.simulateInit
  split
  · exact InitR.refl w
  · dsimp only
    generalize hW1 : (({ w with rm := w.rm.init.1 } : World).rmEffects w.rm.init.2.1 w.rm.init.2.2) = W1
    have h1 : InitR w W1 := by
      rw [← hW1]
      refine Same.initR (Same.trans ?_ (Same_rmEffects _ _ _))
      exact Same.of_devs rfl rfl
    have h2 : InitR W1 (W1.assets.foldl (fun w a => w.initAsset a) W1) :=
      InitR.foldl _ _ _ (fun w a => InitR_initAsset w a)
    refine (h1.trans h2).trans (Same.initR ?_)
    exact Same.of_devs rfl rfl

end C08S
end SimProc
