/-
C08S — the idle clock is exact.  Part 4: `Clk` for scripted operations and event actions
(`applyOp`, `runScript`, `rmCheck`, the maintainer hooks, `exec`), the pop of an event, and the
initialisation phase.
-/
import SimProc.Proofs.C08SPass
import SimProc.Proofs.WorldExec

namespace SimProc
namespace C08S
open World FloorCoreL

/-! ### the static class: scripts neither re-wire nor construct -/

def opOK : Op → Bool
  | .rewire _ _ => false
  | .create _ => false
  | _ => true

/-- No script re-wires or constructs assets (`rewire` restarts a running idle clock, `create`
builds devices with arbitrary slot contents). -/
def ScriptsOK (w : World) : Prop := ∀ l ∈ w.scripts, ∀ op ∈ l, opOK op = true

instance (w : World) : Decidable (ScriptsOK w) := by unfold ScriptsOK; infer_instance

theorem ScriptsOK.of_eq {w w' : World} (h : w'.scripts = w.scripts) (hs : ScriptsOK w) :
    ScriptsOK w' := by
  unfold ScriptsOK; rw [h]; exact hs

/-- every device is exempt from the `keep` clause -/
abbrev All : Nat → Prop := fun _ => True
/-- no device is exempt -/
abbrev None_ : Nat → Prop := fun _ => False

section world
variable {X : Nat → Prop} (w : World)

theorem Clk_setVar (k : Nat) (v : Option Nat) : Clk X w (w.setVar k v) := Clk.of_devs rfl rfl
clk_lemma2 Clk_setVar

theorem Clk_modMaint (m : Nat) (f : Maint → Maint) : Clk X w (w.modMaint m f) := Clk.of_devs rfl rfl
clk_lemma2 Clk_modMaint

theorem Clk_startOrders (m : Nat) (l : List Order) : Clk X w (w.startOrders m l) := by
  unfold World.startOrders; clk_auto
clk_lemma2 Clk_startOrders

theorem Clk_schedUpdate (s : Nat) (b : Bool) : Clk X w (w.schedUpdate s b) := by
  unfold World.schedUpdate; clk_auto
clk_lemma2 Clk_schedUpdate

theorem Clk_periodicSense (s : Nat) : Clk X w (w.periodicSense s) := by
  unfold World.periodicSense; clk_auto
clk_lemma1 Clk_periodicSense

end world

/-! ### scripted operations -/

theorem Clk_applyOp (w : World) (op : Op) (hok : opOK op = true) : Clk All w (w.applyOp op).1 := by
  cases op
  case rewire => cases hok
  case create => cases hok
  case sched => exact Clk_sched _ _ _ _ _
  case schedRel => exact Clk_sched _ _ _ _ _
  case schedFail =>
    unfold World.applyOp; dsimp only
    split
    · exact Clk.refl _ _
    · exact Clk_sched _ _ _ _ _
  case schedFailRel =>
    unfold World.applyOp; dsimp only
    split
    · exact Clk.refl _ _
    · exact Clk_sched _ _ _ _ _
  case shutdown d =>
    unfold World.applyOp; dsimp only
    split
    · exact Clk.refl _ _
    · exact Clk_shutdownDev _ _ _ _ (fun _ => trivial)
  case restore d =>
    unfold World.applyOp; dsimp only
    split
    · exact Clk.refl _ _
    · exact Clk_restoreDev _ _
  all_goals
    unfold World.applyOp
    clk_auto

theorem Clk_applyOps (ops : List Op) : ∀ (w : World), (∀ op ∈ ops, opOK op = true) →
    Clk All w (w.applyOps ops) := by
  induction ops with
  | nil => intro w _; exact Clk.refl _ _
  | cons op ops ih =>
    intro w hok
    unfold World.applyOps
    simp only [List.foldl_cons]
    have h1 : Clk All w ((w.applyOp op).1.addRes (w.applyOp op).2) :=
      (Clk_applyOp w op (hok op List.mem_cons_self)).trans (Clk_addRes _ _)
    exact h1.trans (ih _ (fun o ho => hok o (List.mem_cons_of_mem _ ho)))

theorem Clk_runScript (w : World) (k : Nat) (hs : ScriptsOK w) : Clk All w (w.runScript k) := by
  unfold World.runScript
  apply Clk_applyOps
  intro op hop
  by_cases hk : k < w.scripts.length
  · have : w.scripts.getD k [] = w.scripts[k] := by simp [List.getD_eq_getElem?_getD, hk]
    rw [this] at hop
    exact hs _ (List.getElem_mem hk) op hop
  · have : w.scripts.getD k [] = [] := by simp [List.getD_eq_getElem?_getD, Nat.le_of_not_lt hk]
    rw [this] at hop; cases hop

theorem Clk_scan (n : Nat) : ∀ (w : World) (i : Nat), ScriptsOK w →
    Clk All w (scanWaiting scanOps n w i) := by
  induction n with
  | zero => intro w i _; exact Clk.refl _ _
  | succ n ih =>
    intro w i hs
    unfold scanWaiting
    split
    · exact Clk.refl _ _
    · split
      · rename_i req cb _ _
        cases cb with
        | script k =>
          have h1 : Clk All w ((w.addRes (.cb k)).runScript k) :=
            (Clk_addRes w _).trans (Clk_runScript _ k (hs.of_eq rfl))
          have hs1 : ScriptsOK ((w.addRes (.cb k)).runScript k) :=
            hs.of_eq (by rw [C02V.scr_runScript]; rfl)
          have h2 : Clk All w (scanOps.erase (scanOps.call w (Cb.script k) req) i) :=
            h1.trans (Clk.of_devs rfl rfl)
          exact h2.trans (ih _ _ (hs1.of_eq rfl))
        | proc d =>
          have h1 : Clk All w (w.procResourceCb d) := Clk_procResourceCb w d
          have hs1 : ScriptsOK (w.procResourceCb d) := hs.of_eq (C02V.scr_procResourceCb w d)
          have h2 : Clk All w (scanOps.erase (scanOps.call w (Cb.proc d) req) i) :=
            h1.trans (Clk.of_devs rfl rfl)
          exact h2.trans (ih _ _ (hs1.of_eq rfl))
      · exact ih _ _ hs

theorem Clk_rmCheck (w : World) (hs : ScriptsOK w) : Clk All w w.rmCheck := Clk_scan _ _ _ hs

theorem Clk_hookStart (w : World) (tgt : Nat) (tag : Int) (hs : ScriptsOK w) :
    Clk All w (w.hookStart tgt tag) := by
  unfold World.hookStart
  simp only []
  split
  · exact (Clk_addRes w _).trans (Clk_shutdownDev _ _ _ _ (fun _ => trivial))
  · split
    · exact (Clk_addRes w _).trans (Clk_runScript _ _ (hs.of_eq rfl))
    · exact Clk_addRes w _

theorem Clk_hookEnd (w : World) (tgt : Nat) (tag : Int) (hs : ScriptsOK w) :
    Clk All w (w.hookEnd tgt tag) := by
  unfold World.hookEnd
  simp only []
  split
  · exact (Clk_addRes w _).trans (Clk_restoreDev _ _)
  · split
    · exact (Clk_addRes w _).trans (Clk_runScript _ _ (hs.of_eq rfl))
    · exact Clk_addRes w _

theorem Clk_startWork (w : World) (m seq : Nat) (hs : ScriptsOK w) : Clk All w (w.startWork m seq) := by
  have key : ∀ w' : World, Clk All w w' → w'.scripts = w.scripts → ∀ t g a b c d,
      Clk All w ((w'.hookStart t g).schedLib a b c d) := fun w' h e t g a b c d =>
    (h.trans (Clk_hookStart w' t g (hs.of_eq e))).trans (Clk_schedLib _ _ _ _ _)
  unfold World.startWork
  split
  · exact Clk_setErr _ _
  · simp only []
    refine key _ ?_ ?_ _ _ _ _ _ _
    · exact (Clk_addRec w _).trans (Clk_modMaint _ _ _)
    · rfl

theorem Clk_finishWork (w : World) (m seq : Nat) (hs : ScriptsOK w) : Clk All w (w.finishWork m seq) := by
  unfold World.finishWork
  split
  · exact Clk_setErr _ _
  · simp only []
    rename_i o _
    refine (Clk_hookEnd w o.target o.tag hs).trans ?_
    clk_auto

/-! ### the action of an event -/

/-- The devices an event action may disturb beyond starting clocks and filling slots: the device
that passes a part on or fails; anything for actions that run scripts or maintenance hooks. -/
def exempt : Action → Nat → Prop
  | .passPart d => fun y => y = d
  | .fail d => fun y => y = d
  | .script _ => All
  | .rmCheck => All
  | .startWork _ _ => All
  | .finishWork _ _ => All
  | _ => None_

theorem Clk_exec (w : World) (a : Action) (hs : ScriptsOK w) : Clk (exempt a) w (w.exec a) := by
  cases a with
  | terminate => exact Clk.refl _ _
  | script k => exact Clk_runScript w k hs
  | finishCycle d => exact Clk_finishCycle w d
  | passPart d => exact Clk_passPart w d (fun _ => rfl)
  | fail d => exact Clk_failDev w d (fun _ => rfl)
  | releaseIfIdle d => exact Clk_releaseIfIdle w d
  | rmCheck => exact Clk_rmCheck w hs
  | startWork m o => exact Clk_startWork w m o hs
  | finishWork m o => exact Clk_finishWork w m o hs
  | schedUpdate s => exact Clk_schedUpdate w s true
  | periodicSense s => exact Clk_periodicSense w s
  | unknown n => exact Clk_setErr _ _

end C08S
end SimProc
