/-
C06W (closed-world timer invariant), part 4: the functions of the floor that start, end, pause,
resume or cancel a timer: `scheduleFinish`, `finishCycle`, `tryMove`, `onReceived`, `acceptPart`,
`shutdownDev`, `failDev`, `restoreDev`.
-/
import SimProc.Proofs.C06WFrame
namespace SimProc
namespace C06W
open World FloorCoreL

/-! ### helpers -/

theorem tdm_part {d : Dev} (h : isT d.kind = true) : (tdm d).part = d.part := by simp [tdm, h]
theorem tdm_output {d : Dev} (h : isT d.kind = true) : (tdm d).output = d.output := by simp [tdm, h]

theorem isT_ne_source {k : Kind} (h : isT k = true) : k ≠ .source := by
  intro e; rw [e] at h; cases h

/-- no live finish event: the invariant of a device with nothing in process -/
theorem timerAt_idle {s : Env} {x : Nat} {t : TD} (hE : finE s x = []) (hP : finP s x = [])
    (hp : t.part = none)
    (hup : t.kind = .processor → ((t.lr = true ↔ t.shutDown = false) ∧ (t.lu = true ↔ False))) :
    TimerAt s x t := by
  refine ⟨?_, fun _ => ⟨hE, hP⟩, ?_, ?_⟩
  · rw [hE, hP]; intro e he; cases he
  · intro p h; rw [hp] at h; cases h
  · intro hk
    refine ⟨(hup hk).1, ?_⟩
    rw [hp]; simpa using (hup hk).2

theorem rem_nil {s : Env} {x : Nat} (hE : finE s x = []) (hP : finP s x = []) : rem s x = [] := by
  simp [rem, hE, hP]

/-- The state in which a device has a part in process but no timer yet / any more: right after the
part was put into the input slot, and right after the finish event was popped. -/
structure Mid (w : World) (x : Nat) : Prop where
  oth : ∀ y, y ≠ x → (w.dev y).kind ≠ .source → TimerAt w.env y (tdm (w.dev y))
  aids : AidsOK w
  ei : EI w.env
  err : okErr w.error = true
  hx : x < w.devs.length
  kT : isT (w.dev x).kind = true
  part : (w.dev x).part.isSome = true
  out : (w.dev x).output = none
  op : w.operational x = true
  nofin : finE w.env x = [] ∧ finP w.env x = []
  lr : (w.dev x).kind = .processor → (w.dev x).lastRestore.isSome = true

theorem Mid.ne_source {w : World} {x : Nat} (h : Mid w x) : (w.dev x).kind ≠ .source :=
  isT_ne_source h.kT

theorem opT_proc {t : TD} (hk : t.kind = .processor) : opT t = !t.shutDown := by
  simp [opT, hk]

theorem Mid.shut {w : World} {x : Nat} (h : Mid w x) (hk : (w.dev x).kind = .processor) :
    (w.dev x).shutDown = false := by
  have := h.op
  rw [operational_eq, opT_proc (show (tdm (w.dev x)).kind = .processor from hk)] at this
  simpa [tdm] using this

/-- `Mid` is stable under full frames. -/
theorem Mid.of_fr {w w' : World} {x : Nat} (h : Mid w x) (f : Fr None_ w w') : Mid w' x := by
  have ht := f.td x id
  have hk := (f.ka x).1
  have hT : isT (w'.dev x).kind = true := by rw [hk]; exact h.kT
  have hfin := f.fin x h.ne_source
  refine ⟨?_, h.aids.of_ka f.len f.ka, f.ei h.ei, f.err h.err, f.len ▸ h.hx, hT, ?_, ?_, ?_,
    by rw [hfin.1, hfin.2]; exact h.nofin, ?_⟩
  · intro y hy hky
    have hky' : (w.dev y).kind ≠ .source := by rw [← (f.ka y).1]; exact hky
    exact (h.oth y hy hky').congr (f.td y id) (f.fin y hky').1 (f.fin y hky').2
  · rw [← tdm_part hT, ht, tdm_part h.kT]; exact h.part
  · rw [← tdm_output hT, ht, tdm_output h.kT]; exact h.out
  · rw [operational_eq, ht, ← operational_eq]; exact h.op
  · intro hkp
    have : (tdm (w'.dev x)).lr = (tdm (w.dev x)).lr := by rw [ht]
    exact this.trans (h.lr (hk ▸ hkp))

theorem FI.mid_of {w : World} (h : FI w) : ∀ y x, y ≠ x → (w.dev y).kind ≠ .source →
    TimerAt w.env y (tdm (w.dev y)) := fun y _ _ hk => h.timer y hk

/-- A local change at `x` from a `Mid` state gives the invariant. -/
theorem Loc.fi_of_mid {w w' : World} {x : Nat} (h : Mid w x) (r : Loc w w' x) : FI w' := by
  refine ⟨?_, h.aids.of_ka r.fr.len r.fr.ka, r.fr.ei h.ei, r.fr.err h.err⟩
  intro y hk
  by_cases hy : y = x
  · subst hy; exact r.at_ h.ne_source
  · have hk' : (w.dev y).kind ≠ .source := by rw [← (r.fr.ka y).1]; exact hk
    exact (h.oth y hy hk').congr (r.fr.td y hy) (r.fr.fin y hy hk').1 (r.fr.fin y hy hk').2

/-- A local change at `x` from a state satisfying the invariant gives the invariant. -/
theorem Loc.good {w w' : World} {x : Nat} (h : FI w) (r : Loc w w' x) : Good w w' := by
  refine ⟨⟨?_, h.aids.of_ka r.fr.len r.fr.ka, r.fr.ei h.ei, r.fr.err h.err⟩, r.keep⟩
  intro y hk
  have hk' : (w.dev y).kind ≠ .source := by rw [← (r.fr.ka y).1]; exact hk
  by_cases hy : y = x
  · subst hy; exact r.at_ hk'
  · exact (h.timer y hk').congr (r.fr.td y hy) (r.fr.fin y hy hk').1 (r.fr.fin y hy hk').2

/-! ### the end of a cycle -/

/-- Conclusion builder: after a change local to `x` that leaves `x` without a part in process. -/
theorem loc_of_idle {w w' : World} {x : Nat} (h : Mid w x) (f : Fr (· = x) w w')
    (hp : (tdm (w'.dev x)).part = none)
    (hup : (w.dev x).kind = .processor → (tdm (w'.dev x)).lr = true ∧
      (tdm (w'.dev x)).shutDown = false ∧ (tdm (w'.dev x)).lu = false) : Loc w w' x := by
  have hfin := f.fin x h.ne_source
  have hE : finE w'.env x = [] := hfin.1.trans h.nofin.1
  have hP : finP w'.env x = [] := hfin.2.trans h.nofin.2
  refine ⟨f.toL (fun _ h => h), fun _ => timerAt_idle hE hP hp ?_, fun _ => Or.inr (Or.inl (rem_nil hE hP))⟩
  intro hk
  have hk' : (w.dev x).kind = .processor := by rw [← (f.ka x).1]; exact hk
  obtain ⟨h1, h2, h3⟩ := hup hk'
  rw [h1, h2, h3]; simp

theorem fr_at {w : World} (x : Nat) (d : Dev) (hk : d.kind = (w.dev x).kind := by rfl)
    (ha : d.aid = (w.dev x).aid := by rfl) : Fr (· = x) w (w.setDev x d) :=
  fr_setDev w x d hk ha (fun h => absurd rfl h)

theorem Fr.tdm_eq {w w' : World} (f : Fr None_ w w') (y : Nat) : tdm (w'.dev y) = tdm (w.dev y) :=
  f.td y id

theorem Fr.x {X : Nat → Prop} {w w' : World} (f : Fr None_ w w') : Fr X w w' :=
  f.mono (fun _ h => h.elim)

theorem fr_finishCbs {X : Nat → Prop} (w : World) (x : Nat) (cbs : List PartCb) (sensors : List Nat) :
    Fr X w (w.finishCbs x cbs sensors) := by
  unfold finishCbs; fr_auto

theorem fr_finishBook_from {w : World} {x : Nat} (hx : x < (w.finishCycleHandler x).devs.length) :
    Fr (· = x) (w.finishCycleHandler x) (w.finishBook x) ∧
    tdm ((w.finishBook x).dev x) = { tdm ((w.finishCycleHandler x).dev x) with lu := false } := by
  have key : ∀ (X : Nat → Prop) (W : World) t a pr, Fr X W (W.schedLib t a (.releaseIfIdle x) pr) :=
    fun X W t a pr => fr_schedLib W t a _ pr (by intro y e; cases e)
  unfold finishBook
  dsimp only
  split
  · refine ⟨(fr_at x _).trans (key _ _ _ _ _), ?_⟩
    rw [(key None_ _ _ _ _).tdm_eq, dev_setDev_same hx]
    rfl
  · refine ⟨fr_at x _, ?_⟩
    rw [dev_setDev_same hx]; rfl

theorem loc_finishCycle {w : World} {x : Nat} (h : Mid w x) : Loc w (w.finishCycle x) x := by
  obtain ⟨p, hp⟩ := Option.isSome_iff_exists.mp h.part
  have hx := h.hx
  have e1 := finishCycleHandler_ok w h.op hp h.out
  -- the state after the hand-over of the part to the output slot
  have f1 : Fr (· = x) w (w.setDev x { w.dev x with output := some p, part := none }) :=
    fr_at x _
  have f2 := fr_schedulePass (X := None_) (w.setDev x { w.dev x with output := some p, part := none }) x 0
  have f12 : Fr (· = x) w (w.finishCycleHandler x) := by rw [e1]; exact f1.trans f2.x
  have ht : tdm ((w.finishCycleHandler x).dev x) =
      tdm ({ w.dev x with output := some p, part := none } : Dev) := by
    rw [e1, f2.tdm_eq, dev_setDev_same hx]
  have hT := h.kT
  cases hk : (w.dev x).kind
  case handler =>
    have e : w.finishCycle x = w.finishCycleHandler x := by unfold finishCycle; simp only [hk]
    rw [e]
    refine loc_of_idle h f12 (by rw [ht]; simp [tdm]) (fun hkp => by rw [hk] at hkp; cases hkp)
  case sink =>
    have e : w.finishCycle x =
        ((w.finishCycleHandler x).modDev x (fun d => { d with output := none })).notify x := by
      unfold finishCycle; simp only [hk]
    rw [e]
    have f3 : Fr (· = x) (w.finishCycleHandler x)
        ((w.finishCycleHandler x).modDev x (fun d => { d with output := none })) :=
      fr_at x _
    have f4 := fr_notify (X := None_)
      ((w.finishCycleHandler x).modDev x (fun d => { d with output := none })) x
    have hx1 : x < (w.finishCycleHandler x).devs.length := by rw [f12.len]; exact hx
    refine loc_of_idle h ((f12.trans f3).trans f4.x) ?_ (fun hkp => by rw [hk] at hkp; cases hkp)
    rw [f4.tdm_eq, dev_modDev_same hx1]
    have : (tdm ((w.finishCycleHandler x).dev x)).part = none := by rw [ht]; simp [tdm]
    simpa [tdm] using this
  case processor =>
    rw [finishCycle_proc w hk]
    obtain ⟨f3, ht3⟩ := fr_finishBook_from (w := w) (x := x) (by rw [f12.len]; exact hx)
    have f4 := fr_finishCbs (X := None_) (w.finishBook x) x ((w.finishCycleHandler x).dev x).finCbs
      ((w.finishCycleHandler x).dev x).finSensors
    have htd : tdm (((w.finishBook x).finishCbs x ((w.finishCycleHandler x).dev x).finCbs
        ((w.finishCycleHandler x).dev x).finSensors).dev x) =
        { tdm ({ w.dev x with output := some p, part := none } : Dev) with lu := false } := by
      rw [f4.tdm_eq, ht3, ht]
    refine loc_of_idle h ((f12.trans f3).trans f4.x) (by rw [htd]; simp [tdm]) ?_
    intro _
    rw [htd]
    refine ⟨?_, ?_, rfl⟩
    · exact h.lr hk
    · exact h.shut hk
  all_goals (rw [hk] at hT; cases hT)

/-! ### the start of a cycle -/

theorem timerAt_busy_up {s : Env} {x : Nat} {t : TD} {e : Event} (hE : finE s x = [e])
    (hP : finP s x = []) (ha : e.asset = t.aid) (hp : t.part.isSome = true) (ho : t.output = none)
    (hop : opT t = true)
    (hup : t.kind = .processor → (t.lr = true ∧ t.shutDown = false ∧ t.lu = true)) :
    TimerAt s x t := by
  refine ⟨?_, ?_, ?_, ?_⟩
  · rw [hE, hP]; intro e' he'
    simp only [List.append_nil, List.mem_singleton] at he'
    rw [he']; exact ha
  · intro h; rw [h] at hp; cases hp
  · intro p _
    refine ⟨ho, ?_⟩
    rw [hop, hE, hP]; simp
  · intro hk
    obtain ⟨h1, h2, h3⟩ := hup hk
    rw [h1, h2, h3, hp]; simp

/-- Scheduling the finish event of `x` (not in the past) when `x` has no live finish event. -/
theorem schedLib_finish (W : World) (t asset : Int) (x : Nat) (prio : Int) (hle : W.now ≤ t)
    (hE : finE W.env x = []) :
    FrL x W (W.schedLib t asset (.finishCycle x) prio) ∧
    (W.schedLib t asset (.finishCycle x) prio).devs = W.devs ∧
    finE (W.schedLib t asset (.finishCycle x) prio).env x = [W.newEv t asset (.finishCycle x) prio] ∧
    finP (W.schedLib t asset (.finishCycle x) prio).env x = finP W.env x := by
  have hs : W.env.schedule t asset (Action.finishCycle x).toNat prio
      (weightOf W.seed W.wmod t asset (Action.finishCycle x).toNat prio) =
      some { W.env with
        events := insort (W.newEv t asset (.finishCycle x) prio) W.env.events
        nextUid := W.env.nextUid + 1 } := by
    rw [Env.schedule_some]; exact ⟨hle, rfl⟩
  rw [schedLib_ok W t asset _ prio hle]
  have h2 := fin_schedule_eq (x := x) hs hE
  refine ⟨⟨rfl, Nat.le_succ _, rfl, fun _ => ⟨rfl, rfl⟩, fun _ _ => rfl, ?_, rfl, ?_, id⟩, rfl, h2.1, h2.2⟩
  · intro y hy _
    exact fin_schedule_ne hs y (fun e => hy (finAct_inj e).symm)
  · intro hei
    have := hei.apply (.sched t asset (Action.finishCycle x).toNat prio
      (weightOf W.seed W.wmod t asset (Action.finishCycle x).toNat prio))
    simpa [Env.apply, hs] using this

theorem loc_scheduleFinish {w : World} {x : Nat} (h : Mid w x)
    (hl : (w.dev x).kind = .processor → (w.dev x).lastUseStart.isSome = true) :
    Loc w (w.scheduleFinish x) x := by
  have hx := h.hx
  have f0 : Fr None_ w (w.setDev x { w.dev x with offset := 0 }) := fr_setDev_same _ _ _ rfl
  have hd0 : (w.setDev x { w.dev x with offset := 0 }).dev x = { w.dev x with offset := 0 } :=
    dev_setDev_same hx
  by_cases hc : 0 < w.finishDelay x
  · rw [scheduleFinish_pos w x hc]
    have hle : (w.setDev x { w.dev x with offset := 0 }).now ≤ w.now + w.finishDelay x := by
      show w.now ≤ _; omega
    obtain ⟨g, hdevs, hE, hP⟩ := schedLib_finish (w.setDev x { w.dev x with offset := 0 })
      (w.now + w.finishDelay x) (w.dev x).aid x pFinish hle h.nofin.1
    have hdev : ((w.setDev x { w.dev x with offset := 0 }).schedLib (w.now + w.finishDelay x)
        (w.dev x).aid (.finishCycle x) pFinish).dev x = { w.dev x with offset := 0 } := by
      rw [dev_congr hdevs, hd0]
    have hP' : finP ((w.setDev x { w.dev x with offset := 0 }).schedLib (w.now + w.finishDelay x)
        (w.dev x).aid (.finishCycle x) pFinish).env x = [] := hP.trans h.nofin.2
    refine ⟨(f0.toL (fun _ h => h.elim)).trans g, fun _ => ?_, fun _ => Or.inr (Or.inr ?_)⟩
    · rw [hdev]
      have ht : tdm ({ w.dev x with offset := 0 } : Dev) = tdm (w.dev x) := rfl
      rw [ht]
      refine timerAt_busy_up hE hP' rfl ?_ ?_ ?_ ?_
      · rw [tdm_part h.kT]; exact h.part
      · rw [tdm_output h.kT]; exact h.out
      · rw [← operational_eq]; exact h.op
      · intro hk
        exact ⟨h.lr hk, h.shut hk, hl hk⟩
    · refine ⟨w.env.nextUid, w.finishDelay x, ?_, Nat.le_refl _⟩
      unfold rem
      rw [hE, hP']
      have hn : ((w.setDev x { w.dev x with offset := 0 }).schedLib (w.now + w.finishDelay x)
        (w.dev x).aid (.finishCycle x) pFinish).env.now = w.now := g.now
      simp only [List.map_cons, List.map_nil, List.append_nil, newEv, Env.newEvent, hn]
      congr 2
      show w.now + w.finishDelay x - w.now = _
      omega
  · rw [scheduleFinish_nonpos w x (Int.not_lt.1 hc)]
    exact (loc_finishCycle (h.of_fr f0)).pre f0

/-! ### `tryMove`, `onReceived`, `acceptPart` on a device that times its work -/

/-- `Mid` only reads kind, asset id, slots, shutdown flag and `lastRestore` of `x`. -/
theorem Mid.setDev {w : World} {x : Nat} (h : Mid w x) (d : Dev) (hk : d.kind = (w.dev x).kind)
    (ha : d.aid = (w.dev x).aid) (hp : d.part = (w.dev x).part) (ho : d.output = (w.dev x).output)
    (hs : d.shutDown = (w.dev x).shutDown) (hl : d.lastRestore = (w.dev x).lastRestore) :
    Mid (w.setDev x d) x := by
  have f : Fr (· = x) w (w.setDev x d) := fr_at x d hk ha
  have hd : (w.setDev x d).dev x = d := dev_setDev_same h.hx
  refine ⟨?_, h.aids.of_ka f.len f.ka, h.ei, h.err, by simpa using h.hx, ?_, ?_, ?_, ?_, h.nofin, ?_⟩
  · intro y hy hky
    have hky' : (w.dev y).kind ≠ .source := by rw [← (f.ka y).1]; exact hky
    exact (h.oth y hy hky').congr (f.td y hy) rfl rfl
  · rw [hd, hk]; exact h.kT
  · rw [hd, hp]; exact h.part
  · rw [hd, ho]; exact h.out
  · have := h.op
    unfold World.operational at this ⊢
    rw [hd, hk, hs]; exact this
  · rw [hd, hk, hl]; exact h.lr

theorem loc_tryMove {w : World} {x : Nat} (h : Mid w x) : Loc w (w.tryMove x) x := by
  have hc : (w.operational x && (w.dev x).part.isSome && (w.dev x).output.isNone) = true := by
    simp [h.op, h.part, h.out]
  have hT := h.kT
  cases hk : (w.dev x).kind
  case processor =>
    rw [tryMove_proc w hk, if_pos hc]
    have f : Fr (· = x) w (w.setDev x { w.dev x with lastUseStart := some w.now }) := fr_at x _
    have hm := h.setDev { w.dev x with lastUseStart := some w.now } rfl rfl rfl rfl rfl rfl
    refine (loc_scheduleFinish hm ?_).pre' f (fun _ h => h)
    intro _
    rw [dev_setDev_same h.hx]; rfl
  case handler =>
    rw [tryMove_handler w hk, if_pos hc]
    exact loc_scheduleFinish h (fun hkp => by rw [hk] at hkp; cases hkp)
  case sink =>
    have e : w.tryMove x = w.scheduleFinish x := by
      unfold World.tryMove
      simp only [hk, hc, if_true]
    rw [e]
    exact loc_scheduleFinish h (fun hkp => by rw [hk] at hkp; cases hkp)
  all_goals (rw [hk] at hT; cases hT)

theorem fr_recvBook {X : Nat → Prop} (w : World) (x p : Nat) : Fr X w (C02V.recvBook w x p) := by
  unfold C02V.recvBook; fr_auto

theorem loc_onReceived {w : World} {x : Nat} (h : Mid w x) (p : Nat) : Loc w (w.onReceived x p) x := by
  rw [C02V.onReceived_eq]
  have f := fr_recvBook (X := None_) w x p
  have hm := h.of_fr f
  rw [hm.out]
  simp only [Option.isNone_none, if_true]
  exact (loc_tryMove hm).pre f

theorem mid_of_accept {w : World} {x : Nat} (h : FI w) (p : Nat) (hx : x < w.devs.length)
    (hT : isT (w.dev x).kind = true) (hp : (w.dev x).part = none) (ho : (w.dev x).output = none)
    (hop : w.operational x = true) :
    Mid (w.modDev x (fun d => { d with part := some p })) x := by
  have f : Fr (· = x) w (w.modDev x (fun d => { d with part := some p })) := fr_at x _
  have hd : (w.modDev x (fun d => { d with part := some p })).dev x = { w.dev x with part := some p } :=
    dev_modDev_same hx
  have hx0 := h.timer x (isT_ne_source hT)
  refine ⟨?_, h.aids.of_ka f.len f.ka, h.ei, h.err, by simpa using hx, ?_, ?_, ?_, ?_, ?_, ?_⟩
  · intro y hy hky
    have hky' : (w.dev y).kind ≠ .source := by rw [← (f.ka y).1]; exact hky
    exact (h.timer y hky').congr (f.td y hy) rfl rfl
  · rw [hd]; exact hT
  · rw [hd]; rfl
  · rw [hd]; exact ho
  · unfold World.operational at hop ⊢
    rw [hd]; exact hop
  · exact hx0.idle (by rw [tdm_part hT]; exact hp)
  · intro hk
    rw [hd] at hk ⊢
    have hk' : (tdm (w.dev x)).kind = .processor := hk
    have := (hx0.up hk').1
    rw [operational_eq, opT_proc hk'] at hop
    have hs : (tdm (w.dev x)).shutDown = false := by simpa using hop
    exact this.mpr hs

theorem fr_acceptPre0 {X : Nat → Prop} (w : World) (x p : Nat) :
    Fr X w (if (w.dev x).kind == .sink then { w with delivered := w.delivered ++ w.leavesOf p } else w) := by
  split
  · exact fr_of_fields rfl rfl rfl rfl
  · exact Fr.refl _ _

/-- A handler, processor or sink with empty slots that is operational accepts a part. -/
theorem loc_acceptPart {w : World} {x : Nat} (h : FI w) (p : Nat) (hx : x < w.devs.length)
    (hT : isT (w.dev x).kind = true) (hp : (w.dev x).part = none) (ho : (w.dev x).output = none)
    (hop : w.operational x = true) : Loc w (w.acceptPart x p) x := by
  rw [C02V.acceptPart_eq]
  unfold C02V.acceptPre
  dsimp only
  have f0 := fr_acceptPre0 (X := None_) w x p
  generalize (if (w.dev x).kind == .sink then
    ({ w with delivered := w.delivered ++ w.leavesOf p } : World) else w) = w0 at f0 ⊢
  have h0 : FI w0 := (f0.good h).1
  have e0 := f0.tdm_eq x
  have hT0 : isT (w0.dev x).kind = true := by rw [f0.kind]; exact hT
  have hm := mid_of_accept h0 p (f0.len ▸ hx) hT0
    (by rw [← tdm_part hT0, e0, tdm_part hT]; exact hp)
    (by rw [← tdm_output hT0, e0, tdm_output hT]; exact ho)
    (by rw [operational_eq, e0, ← operational_eq]; exact hop)
  have f1 : Fr (· = x) w0 (w0.modDev x (fun d => { d with part := some p })) := fr_at x _
  have f2 : Fr None_ (w0.modDev x (fun d => { d with part := some p }))
      (((w0.modDev x (fun d => { d with part := some p })).addHist p x).setWaiting x false false) :=
    (fr_addHist _ _ _).trans (fr_setWaiting _ _ _ _)
  exact (((loc_onReceived (hm.of_fr f2) p).pre f2).pre' f1 (fun _ h => h)).pre f0

/-! ### accepting devices that do not time their work: sources, buffers, batchers -/

theorem fr_tryMove_source {X : Nat → Prop} (w : World) (x : Nat) (hk : (w.dev x).kind = .source) :
    Fr X w (w.tryMove x) := by
  unfold World.tryMove
  simp only [hk]
  split
  · exact fr_scheduleFinish_source w x hk
  · exact Fr.refl _ _

theorem fr_tryMove_nonT {X : Nat → Prop} (w : World) (x : Nat) (hl : isHandlerLike (w.dev x).kind = true)
    (hT : isT (w.dev x).kind = false) : Fr X w (w.tryMove x) := by
  cases hk : (w.dev x).kind
  case source => exact fr_tryMove_source w x hk
  case buffer => exact fr_tryMove_buffer w x hk
  case batcher => exact fr_tryMove_batcher w x hk
  all_goals (rw [hk] at hT hl; first | (cases hT; done) | (cases hl; done))

theorem fr_acceptPart_nonT {X : Nat → Prop} (w : World) (x p : Nat)
    (hl : isHandlerLike (w.dev x).kind = true) (hT : isT (w.dev x).kind = false) :
    Fr X w (w.acceptPart x p) := by
  rw [C02V.acceptPart_eq, C02V.onReceived_eq]
  have f0 : Fr X w (C02V.acceptPre w x p) := by
    unfold C02V.acceptPre
    dsimp only
    refine Fr.trans ?_ (fr_setWaiting _ _ _ _)
    refine Fr.trans ?_ (fr_addHist _ _ _)
    mask_peel
    · exact fr_acceptPre0 w x p
    · have := (fr_acceptPre0 (X := X) w x p).kind x
      rw [this]; exact hT
  have f1 := f0.trans (fr_recvBook (X := X) (C02V.acceptPre w x p) x p)
  split
  · refine f1.trans (fr_tryMove_nonT _ _ ?_ ?_)
    · rw [f1.kind]; exact hl
    · rw [f1.kind]; exact hT
  · exact f1

/-- Any handler-like device accepts a part (a timing device: with empty slots, operational). -/
theorem good_acceptPart {w : World} {x : Nat} (h : FI w) (p : Nat) (hx : x < w.devs.length)
    (hl : isHandlerLike (w.dev x).kind = true)
    (hs : isT (w.dev x).kind = true →
      (w.dev x).part = none ∧ (w.dev x).output = none ∧ w.operational x = true) :
    Good w (w.acceptPart x p) := by
  cases hT : isT (w.dev x).kind
  · exact (fr_acceptPart_nonT w x p hl hT).good h
  · obtain ⟨h1, h2, h3⟩ := hs hT
    exact (loc_acceptPart h p hx hT h1 h2 h3).good h

/-! ### shutdown, failure, restoration of a processor -/

/-- The finish events of another tracked device do not carry the asset id of `x`. -/
theorem other_assets {w : World} (h : FI w) {x y : Nat} (hx : x < w.devs.length) (hy : y ≠ x)
    (hk : (w.dev y).kind ≠ .source) :
    ∀ e ∈ finE w.env y ++ finP w.env y, e.asset ≠ (w.dev x).aid := by
  have ht := h.timer y hk
  by_cases hyl : y < w.devs.length
  · intro e he
    rw [ht.asset e he]
    exact h.aids y x hyl hx hy
  · have hd : w.dev y = default := dev_of_length_le (Nat.le_of_not_lt hyl)
    have := ht.idle (by rw [hd]; rfl)
    rw [this.1, this.2]
    intro e he; cases he

/-- An operation on the asset id of `x` together with an update of the record of `x`. -/
theorem frl_assetop' {w w' : World} {x : Nat}
    (hoth : ∀ y, y ≠ x → (w.dev y).kind ≠ .source →
      ∀ e ∈ finE w.env y ++ finP w.env y, e.asset ≠ (w.dev x).aid) (d' : Dev)
    (hk : d'.kind = (w.dev x).kind) (ha : d'.aid = (w.dev x).aid) (hd : w'.devs = w.devs.set x d')
    (he : w'.env = w.env.pause (w.dev x).aid ∨ w'.env = w.env.cancel (w.dev x).aid ∨
      w'.env = w.env.unpause Arith.exact (w.dev x).aid)
    (herr : w'.error = w.error) (htg : w'.targets = w.targets) : FrL x w w' := by
  have hdev : ∀ y, w'.dev y = (w.setDev x d').dev y := fun y => dev_congr hd y
  have hnow : w'.env.now = w.env.now := by
    rcases he with he | he | he <;> rw [he] <;> rfl
  have huid : w'.env.nextUid = w.env.nextUid := by
    rcases he with he | he | he <;> rw [he] <;> rfl
  refine ⟨hnow, by rw [huid]; exact Nat.le_refl _, by rw [hd]; simp, ?_, ?_, ?_, by rw [htg], ?_,
    by rw [herr]; exact id⟩
  · intro y
    rw [hdev, dev_setDev]
    split
    · next hxy => rw [← hxy.1]; exact ⟨hk, ha⟩
    · exact ⟨rfl, rfl⟩
  · intro y hy
    rw [hdev, dev_setDev_ne (Ne.symm hy)]
  · intro y hy hky
    have hoa := hoth y hy hky
    rcases he with he | he | he <;> rw [he]
    · exact fin_pause_other hoa
    · exact fin_cancel_other hoa
    · exact fin_unpause_other _ hoa
  · intro hei
    rcases he with he | he | he <;> rw [he]
    · exact hei.apply (.pause _)
    · exact hei.apply (.cancel _)
    · exact hei.apply (.unpause _)

theorem frl_assetop {w w' : World} (h : FI w) {x : Nat} (hx : x < w.devs.length) (d' : Dev)
    (hk : d'.kind = (w.dev x).kind) (ha : d'.aid = (w.dev x).aid) (hd : w'.devs = w.devs.set x d')
    (he : w'.env = w.env.pause (w.dev x).aid ∨ w'.env = w.env.cancel (w.dev x).aid ∨
      w'.env = w.env.unpause Arith.exact (w.dev x).aid)
    (herr : w'.error = w.error) (htg : w'.targets = w.targets) : FrL x w w' :=
  frl_assetop' (fun _ hy hky => other_assets h hx hy hky) d' hk ha hd he herr htg

theorem timerAt_busy_down {s : Env} {x : Nat} {t : TD} {e : Event} (hE : finE s x = [])
    (hP : finP s x = [e]) (ha : e.asset = t.aid) (hp : t.part.isSome = true) (ho : t.output = none)
    (hop : opT t = false)
    (hup : t.kind = .processor → (t.lr = false ∧ t.shutDown = true ∧ t.lu = false)) :
    TimerAt s x t := by
  refine ⟨?_, ?_, ?_, ?_⟩
  · rw [hE, hP]; intro e' he'
    simp only [List.nil_append, List.mem_singleton] at he'
    rw [he']; exact ha
  · intro h; rw [h] at hp; cases hp
  · intro p _
    refine ⟨ho, ?_⟩
    rw [hop, hE, hP]; simp
  · intro hk
    obtain ⟨h1, h2, h3⟩ := hup hk
    rw [h1, h2, h3]; simp

theorem Loc.refl {w : World} (h : FI w) (x : Nat) : Loc w w x :=
  ⟨(Fr.refl None_ w).toL (fun _ h => h.elim), fun hk => h.timer x hk, fun _ => Or.inl rfl⟩

theorem tdm_shutDev (now : Int) (d : Dev) :
    tdm (shutDev now d) = { tdm d with shutDown := true, lr := false, lu := false } := rfl

/-- A maintenance shutdown of a processor pauses its timer. -/
theorem loc_shutdown {w : World} {x : Nat} (h : FI w) (hk : (w.dev x).kind = .processor) :
    Loc w (w.shutdownDev x false none) x := by
  have hx := lt_of_processor hk
  have hT : isT (w.dev x).kind = true := by rw [hk]; rfl
  have ht := h.timer x (isT_ne_source hT)
  cases hs : (w.dev x).shutDown
  · rw [shutdownDev_eq_up w false none hx hs]
    simp only [Bool.false_eq_true, if_false]
    have g : FrL x w { w with
        devs := w.devs.set x (shutDev w.now (w.dev x)), env := w.env.pause (w.dev x).aid,
        results := w.results ++ shutLog x (w.dev x).nShutCbs false none } :=
      frl_assetop h hx (shutDev w.now (w.dev x)) rfl rfl rfl (Or.inl rfl) rfl rfl
    have hasset : ∀ e ∈ finE w.env x, e.asset = (w.dev x).aid :=
      fun e he => ht.asset e (List.mem_append.mpr (Or.inl he))
    obtain ⟨hE, hP⟩ := fin_pause_self hasset
    have hd : World.dev { w with
        devs := w.devs.set x (shutDev w.now (w.dev x)), env := w.env.pause (w.dev x).aid,
        results := w.results ++ shutLog x (w.dev x).nShutCbs false none } x =
        shutDev w.now (w.dev x) := getD_set_same _ _ _ _ hx
    have hop : opT (tdm (w.dev x)) = true := by
      rw [opT_proc (show (tdm (w.dev x)).kind = .processor from hk)]
      show (!(w.dev x).shutDown) = true
      rw [hs]; rfl
    refine ⟨g, fun _ => ?_, fun _ => Or.inl ?_⟩
    · rw [hd, tdm_shutDev]
      show TimerAt (w.env.pause (w.dev x).aid) x _
      cases hp : (w.dev x).part with
      | none =>
        have hi := ht.idle (by rw [tdm_part hT]; exact hp)
        refine timerAt_idle hE (by rw [hP, hi.1, hi.2]; rfl) (by simp [tdm, hT, hp])
          (fun _ => by simp)
      | some p =>
        obtain ⟨ho, hb⟩ := ht.busy p (by rw [tdm_part hT]; exact hp)
        rw [hop] at hb
        simp only [if_true] at hb
        obtain ⟨e, he⟩ := length_le_one_cases _ hb.1
        refine timerAt_busy_down (e := { e with pausedAt := some w.env.now }) hE
          (by rw [hP, hb.2, he]; rfl) ?_ ?_ ?_ ?_ (fun _ => ⟨rfl, rfl, rfl⟩)
        · exact hasset e (by rw [he]; exact List.mem_singleton.mpr rfl)
        · simp [tdm, hT, hp]
        · exact ho
        · simp [opT, tdm, hk]
    · show rem (w.env.pause (w.dev x).aid) x = rem w.env x
      unfold rem
      rw [hE, hP]
      simp only [List.map_nil, List.nil_append, List.map_append, List.map_map]
      have hnow : (w.env.pause (w.dev x).aid).now = w.env.now := rfl
      rw [hnow]
      cases hp : (w.dev x).part with
      | none =>
        have hi := ht.idle (by rw [tdm_part hT]; exact hp)
        rw [hi.1, hi.2]; rfl
      | some p =>
        obtain ⟨ho, hb⟩ := ht.busy p (by rw [tdm_part hT]; exact hp)
        rw [hop] at hb
        simp only [if_true] at hb
        rw [hb.2]
        simp [Function.comp_def]
  · rw [shutdownDev_eq_down w x false none hs]
    simp only [Bool.false_and, Bool.false_eq_true, if_false]
    exact Loc.refl h x

theorem fr_failMid (w : World) (x : Nat) : Fr (· = x) w (w.failMid x) := by
  unfold failMid failPre
  refine Fr.trans ?_ (fr_addRec _ _)
  refine Fr.trans ?_ (fr_releaseReserved _ _)
  refine Fr.trans ?_ (fr_at x _)
  exact fr_of_fields rfl rfl rfl rfl

/-- A failure of a processor cancels its timer and drops the part. -/
theorem loc_failDev {w : World} {x : Nat} (h : FI w) (hk : (w.dev x).kind = .processor) :
    Loc w (w.failDev x) x := by
  have hx := lt_of_processor hk
  have hT : isT (w.dev x).kind = true := by rw [hk]; rfl
  have ht := h.timer x (isT_ne_source hT)
  have fm := fr_failMid w x
  have hxm : x < (w.failMid x).devs.length := by rw [fm.len]; exact hx
  have hdm := failMid_dev_same w x
  have hfin := fm.fin x (isT_ne_source hT)
  have haid : ((w.failMid x).dev x).aid = (w.dev x).aid := (fm.ka x).2
  have hasset : ∀ e ∈ finE (w.failMid x).env x ++ finP (w.failMid x).env x,
      e.asset = ((w.failMid x).dev x).aid := by
    rw [hfin.1, hfin.2, haid]; exact ht.asset
  have hoth : ∀ y, y ≠ x → ((w.failMid x).dev y).kind ≠ .source →
      ∀ e ∈ finE (w.failMid x).env y ++ finP (w.failMid x).env y,
        e.asset ≠ ((w.failMid x).dev x).aid := by
    intro y hy hky
    have hky' : (w.dev y).kind ≠ .source := by rw [← (fm.ka y).1]; exact hky
    rw [(fm.fin y hky').1, (fm.fin y hky').2, haid]
    exact other_assets h hx hy hky'
  obtain ⟨hcE, hcP⟩ := fin_cancel_self hasset
  rw [failDev_eq_c13']
  have hsm : ((w.failMid x).dev x).shutDown = (w.dev x).shutDown := by rw [hdm]
  have hup := ht.up hk
  have hpm : (tdm ((w.failMid x).dev x)).part = none := by rw [hdm]; simp [tdm]
  cases hs : (w.dev x).shutDown
  · rw [shutdownDev_eq_up (w.failMid x) true (w.dev x).part hxm (hsm.trans hs)]
    simp only [if_true]
    have g : FrL x (w.failMid x) { w.failMid x with
        devs := (w.failMid x).devs.set x (shutDev (w.failMid x).now ((w.failMid x).dev x))
        env := (w.failMid x).env.cancel ((w.failMid x).dev x).aid
        results := (w.failMid x).results ++
          shutLog x ((w.failMid x).dev x).nShutCbs true (w.dev x).part } :=
      frl_assetop' hoth (shutDev (w.failMid x).now ((w.failMid x).dev x)) rfl rfl rfl
        (Or.inr (Or.inl rfl)) rfl rfl
    refine ⟨(fm.toL (fun _ h => h)).trans g, fun _ => ?_, fun _ => Or.inr (Or.inl (rem_nil hcE hcP))⟩
    have hd : World.dev { w.failMid x with
        devs := (w.failMid x).devs.set x (shutDev (w.failMid x).now ((w.failMid x).dev x))
        env := (w.failMid x).env.cancel ((w.failMid x).dev x).aid
        results := (w.failMid x).results ++
          shutLog x ((w.failMid x).dev x).nShutCbs true (w.dev x).part } x =
        shutDev (w.failMid x).now ((w.failMid x).dev x) := getD_set_same _ _ _ _ hxm
    rw [hd, tdm_shutDev]
    exact timerAt_idle hcE hcP hpm (fun _ => by simp)
  · rw [shutdownDev_eq_down (w.failMid x) x true (w.dev x).part (hsm.trans hs)]
    have hupd : (tdm ((w.failMid x).dev x)).kind = .processor →
        (((tdm ((w.failMid x).dev x)).lr = true ↔ (tdm ((w.failMid x).dev x)).shutDown = false) ∧
         ((tdm ((w.failMid x).dev x)).lu = true ↔ False)) := by
      intro _
      rw [hdm]
      have h1 : (tdm (w.dev x)).shutDown = true := hs
      have h2 := hup.2
      rw [h1] at h2
      refine ⟨hup.1, ?_⟩
      show (w.dev x).lastUseStart.isSome = true ↔ False
      have : (tdm (w.dev x)).lu = (w.dev x).lastUseStart.isSome := rfl
      rw [← this]
      simpa using h2
    cases hp : (w.dev x).part with
    | none =>
      simp only [Option.isSome_none, Bool.and_false, Bool.false_eq_true, if_false]
      have hi := ht.idle (by rw [tdm_part hT]; exact hp)
      have hE : finE (w.failMid x).env x = [] := hfin.1.trans hi.1
      have hP : finP (w.failMid x).env x = [] := hfin.2.trans hi.2
      exact ⟨fm.toL (fun _ h => h), fun _ => timerAt_idle hE hP hpm hupd,
        fun _ => Or.inr (Or.inl (rem_nil hE hP))⟩
    | some p =>
      simp only [Option.isSome_some, Bool.and_self, if_true]
      have g : FrL x (w.failMid x) { w.failMid x with
          env := (w.failMid x).env.cancel ((w.failMid x).dev x).aid
          results := (w.failMid x).results ++
            shutLog x ((w.failMid x).dev x).nShutCbs true (some p) } :=
        frl_assetop' hoth ((w.failMid x).dev x) rfl rfl
          (by show (w.failMid x).devs = _
              have := congrArg World.devs (setDev_dev_self (w.failMid x) x)
              exact this.symm)
          (Or.inr (Or.inl rfl)) rfl rfl
      refine ⟨(fm.toL (fun _ h => h)).trans g, fun _ => ?_, fun _ => Or.inr (Or.inl (rem_nil hcE hcP))⟩
      exact timerAt_idle hcE hcP hpm hupd

theorem fr_restoreFlow {X : Nat → Prop} (w : World) (x : Nat) : Fr X w (w.restoreFlow x) := by
  unfold restoreFlow; fr_auto

/-- The restoration of a processor resumes its timer with the remaining work it had. -/
theorem loc_restoreDev {w : World} {x : Nat} (h : FI w) (hk : (w.dev x).kind = .processor) :
    Loc w (w.restoreDev x) x := by
  have hx := lt_of_processor hk
  have hT : isT (w.dev x).kind = true := by rw [hk]; rfl
  have hns := isT_ne_source hT
  have ht := h.timer x hns
  cases hs : (w.dev x).shutDown
  · rw [restoreDev_eq_up w x hs]; exact Loc.refl h x
  · rw [restoreDev_eq_down w x hs]
    dsimp only
    -- A+B: clear the flag, resume the events of the asset
    have g : FrL x w (w.restorePre x) :=
      frl_assetop h hx { w.dev x with shutDown := false, lastRestore := some w.now } rfl rfl rfl
        (Or.inr (Or.inr rfl)) rfl rfl
    have hd1 : (w.restorePre x).dev x = { w.dev x with shutDown := false, lastRestore := some w.now } :=
      getD_set_same _ _ _ _ hx
    have hx1 : x < (w.restorePre x).devs.length := by rw [g.len]; exact hx
    have hk1 : ((w.restorePre x).dev x).kind ≠ .source := by rw [(g.ka x).1]; exact hns
    -- C: the flow part
    have fC := fr_restoreFlow (X := None_) (w.restorePre x) x
    have hd2 : tdm (((w.restorePre x).restoreFlow x).dev x) =
        { tdm (w.dev x) with shutDown := false, lr := true } := by rw [fC.tdm_eq, hd1]; rfl
    have hx2 : x < ((w.restorePre x).restoreFlow x).devs.length := by rw [fC.len]; exact hx1
    have hk2 : (((w.restorePre x).restoreFlow x).dev x).kind ≠ .source := by rw [fC.kind]; exact hk1
    have hT2 : isT (((w.restorePre x).restoreFlow x).dev x).kind = true := by
      rw [fC.kind, (g.ka x).1]; exact hT
    have hp2 : (((w.restorePre x).restoreFlow x).dev x).part = (w.dev x).part := by
      have := congrArg TD.part hd2
      rw [tdm_part hT2] at this
      exact this.trans (tdm_part hT)
    -- D+E: reopen the utilisation interval, log
    generalize hw3 : (if (((w.restorePre x).restoreFlow x).dev x).part.isSome = true then
      ((w.restorePre x).restoreFlow x).modDev x
        (fun d => { d with lastUseStart := some ((w.restorePre x).restoreFlow x).now })
      else (w.restorePre x).restoreFlow x) = w3
    have fD : Fr (· = x) ((w.restorePre x).restoreFlow x) w3 := by
      rw [← hw3]; split
      · exact fr_at x _
      · exact Fr.refl _ _
    have hd3 : tdm (w3.dev x) =
        { tdm (w.dev x) with
          shutDown := false, lr := true
          lu := if (w.dev x).part.isSome then true else (tdm (w.dev x)).lu } := by
      rw [← hw3, hp2]
      split
      · rw [dev_modDev_same hx2]
        show ({ tdm (((w.restorePre x).restoreFlow x).dev x) with lu := true } : TD) = _
        rw [hd2]
      · rw [hd2]
    have fE : Fr None_ w3 { w3 with results := w3.results ++ restLog x (w.dev x).nRestCbs } :=
      fr_of_fields rfl rfl rfl rfl
    have fAll : FrL x w { w3 with results := w3.results ++ restLog x (w.dev x).nRestCbs } :=
      ((g.trans (fC.toL (fun _ h => h.elim))).trans (fD.toL (fun _ h => h))).trans
        (fE.toL (fun _ h => h.elim))
    have hfin : finE w3.env x = finE (w.restorePre x).env x ∧ finP w3.env x = finP (w.restorePre x).env x := by
      have h1 := fC.fin x hk1
      have h2 := fD.fin x hk2
      exact ⟨h2.1.trans h1.1, h2.2.trans h1.2⟩
    have hnow3 : w3.env.now = w.env.now := (fD.now.trans fC.now).trans g.now
    have hasset : ∀ e ∈ finP w.env x, e.asset = (w.dev x).aid :=
      fun e he => ht.asset e (List.mem_append.mpr (Or.inr he))
    obtain ⟨hP, hE⟩ := fin_unpause_self Arith.exact hasset
    have hop : opT (tdm (w.dev x)) = false := by
      rw [opT_proc (show (tdm (w.dev x)).kind = .processor from hk)]
      show (!(w.dev x).shutDown) = false
      rw [hs]; rfl
    have hup := ht.up hk
    cases hp : (w.dev x).part with
    | none =>
      have hi := ht.idle (by rw [tdm_part hT]; exact hp)
      rw [hi.1, hi.2] at hE
      have hE' : finE (w.env.unpause Arith.exact (w.dev x).aid) x = [] := List.Perm.eq_nil hE
      have hE3 : finE w3.env x = [] := hfin.1.trans hE'
      have hP3 : finP w3.env x = [] := hfin.2.trans hP
      refine ⟨fAll, fun _ => ?_, fun _ => Or.inr (Or.inl (rem_nil hE3 hP3))⟩
      show TimerAt w3.env x (tdm (w3.dev x))
      rw [hd3, hp]
      refine timerAt_idle hE3 hP3 (by simp [tdm, hT, hp]) (fun _ => ?_)
      have h2 := hup.2
      rw [tdm_part hT, hp] at h2
      simp only [Option.isSome_none, Bool.false_eq_true, false_and, if_false] at h2 ⊢
      exact ⟨by simp, h2⟩
    | some p =>
      obtain ⟨ho, hb⟩ := ht.busy p (by rw [tdm_part hT]; exact hp)
      rw [hop] at hb
      simp only [Bool.false_eq_true, if_false] at hb
      obtain ⟨e, he⟩ := length_le_one_cases _ hb.2
      rw [hb.1, he] at hE
      simp only [List.map_cons, List.map_nil, List.append_nil] at hE
      have hE' := List.perm_singleton.mp hE
      have hE3 : finE w3.env x = _ := hfin.1.trans hE'
      have hP3 : finP w3.env x = [] := hfin.2.trans hP
      have hea : e.asset = (w.dev x).aid := hasset e (by rw [he]; exact List.mem_singleton.mpr rfl)
      refine ⟨fAll, fun _ => ?_, fun _ => Or.inl ?_⟩
      · show TimerAt w3.env x (tdm (w3.dev x))
        rw [hd3, hp]
        refine timerAt_busy_up hE3 hP3 hea ?_ ho ?_ (fun _ => ⟨rfl, rfl, rfl⟩)
        · simp [tdm, hT, hp]
        · simp [opT, tdm, hk]
      · show rem w3.env x = rem w.env x
        unfold rem
        rw [hE3, hP3, hb.1, he, hnow3]
        simp only [List.map_cons, List.map_nil, List.append_nil, List.nil_append]
        have hmem : e ∈ w.env.paused := (mem_finP.mp (by rw [he]; exact List.mem_singleton.mpr rfl)).1
        obtain ⟨q, hq, hq1, hq2⟩ := h.ei.2 e hmem
        rw [hq]
        simp only [Option.getD_some]
        rw [C07.unpause_shift_exact _ _ _ hq1 hq2]
        congr 2
        omega

end C06W
end SimProc
