/-
C12W, part 6: every function of `Model/World.lean` that can run inside an event action or as a
scripted operation keeps the invariant (`ScH hs w w'`), appends exactly the hook results `hs`,
writes no start / finish record, only lets the active lists grow and leaves every maintainer event
in the queue; then `startWork`, `finishWork`, `exec`, `step`, `simulateInit`, `runBegin`, `runLoop`.
-/
import SimProc.Proofs.C12WInv

namespace SimProc
namespace C12W
open World FloorCoreL

/-! ### the relation -/

/-- Active lists only grow (at the end). -/
def Grow (w w' : World) : Prop := ∀ m, ∃ l, (w'.maint m).active = (w.maint m).active ++ l

theorem Grow.refl (w : World) : Grow w w := fun _ => ⟨[], by simp⟩

theorem Grow.trans {a b c : World} (h1 : Grow a b) (h2 : Grow b c) : Grow a c := by
  intro m
  obtain ⟨l1, e1⟩ := h1 m
  obtain ⟨l2, e2⟩ := h2 m
  exact ⟨l1 ++ l2, by rw [e2, e1, List.append_assoc]⟩

theorem Grow.of_mcore {w w' : World} (h : ∀ m, mcore (w'.maint m) = mcore (w.maint m)) : Grow w w' :=
  fun m => ⟨[], by rw [mcore_active (h m)]; simp⟩

/-- **The life of a work order `o` of maintainer `m`** whose FINISH event is due at
`T`: still active with that event pending, or finished with a FINISH record stamped `T`. -/
def Life (m : Nat) (o : Order) (T : Int) (w : World) : Prop :=
  (o ∈ (w.maint m).active ∧ ∃ e ∈ w.env.events, ekey e = some (true, m, o.seq) ∧ e.time = T) ∨
  Rec.workOrder 2 m T o.target o.tag o.info ∈ w.recs

structure ScP (hs : List Res) (w w' : World) : Prop where
  s : S w'
  g : ∀ X R, G X R w → G X R w'
  grow : Grow w w'
  hooks : w'.results.filter isHook = w.results.filter isHook ++ hs
  sf : w'.recs.filter isSF = w.recs.filter isSF
  now : w'.now = w.now
  aids : aids w' = aids w
  scr : w'.scripts = w.scripts
  keep : ∀ X R, G X R w → ∀ e ∈ w.env.events, isM e = true → e ∈ w'.env.events

/-- In the class: the step keeps the class and the invariant (whatever is in flight), appends the
hook results `hs`, … -/
def ScH (hs : List Res) (w w' : World) : Prop := S w → ScP hs w w'

abbrev Sc (w w' : World) : Prop := ScH [] w w'

theorem ScP.refl {w : World} (h : S w) : ScP [] w w :=
  ⟨h, fun _ _ g => g, Grow.refl w, by simp, rfl, rfl, rfl, rfl, fun _ _ _ _ he _ => he⟩

theorem ScH.refl (w : World) : Sc w w := fun h => ScP.refl h

theorem ScP.trans {a b : List Res} {w w1 w2 : World} (h1 : ScP a w w1) (h2 : ScP b w1 w2) :
    ScP (a ++ b) w w2 :=
  ⟨h2.s, fun X R g => h2.g X R (h1.g X R g), h1.grow.trans h2.grow,
    by rw [h2.hooks, h1.hooks, List.append_assoc], h2.sf.trans h1.sf, h2.now.trans h1.now,
    h2.aids.trans h1.aids, h2.scr.trans h1.scr,
    fun X R g e he hm => h2.keep X R (h1.g X R g) e (h1.keep X R g e he hm) hm⟩

theorem ScH.trans {a b : List Res} {w w1 w2 : World} (h1 : ScH a w w1) (h2 : ScH b w1 w2) :
    ScH (a ++ b) w w2 := fun s => (h1 s).trans (h2 (h1 s).s)

/-- Sequencing where the second step may use what the first established. -/
theorem ScH.bind {a b : List Res} {w w1 w2 : World} (h1 : ScH a w w1)
    (h2 : ScP a w w1 → ScH b w1 w2) : ScH (a ++ b) w w2 := fun s =>
  (h1 s).trans (h2 (h1 s) (h1 s).s)

theorem Sc.trans {w w1 w2 : World} (h1 : Sc w w1) (h2 : Sc w1 w2) : Sc w w2 :=
  ScH.trans (a := []) (b := []) h1 h2

theorem Sc.transH {b : List Res} {w w1 w2 : World} (h1 : Sc w w1) (h2 : ScH b w1 w2) : ScH b w w2 :=
  ScH.trans (a := []) h1 h2

theorem ScH.transS {a : List Res} {w w1 w2 : World} (h1 : ScH a w w1) (h2 : Sc w1 w2) :
    ScH a w w2 := by
  have := ScH.trans h1 h2
  rwa [List.append_nil] at this

theorem Sc.foldl {α} (f : World → α → World) (l : List α) (w : World)
    (h : ∀ w a, Sc w (f w a)) : Sc w (l.foldl f w) := by
  induction l generalizing w with
  | nil => exact ScH.refl w
  | cons a l ih => exact (h w a).trans (ih _)

theorem QRef.now {A : List Int} {s s' : Env} (h : QRef A s s') : s'.now = s.now := by
  obtain ⟨ops, ho, rfl⟩ := h
  induction ops generalizing s with
  | nil => rfl
  | cons op ops ih =>
    rw [C01W.applyAll_cons_fst, ih (fun o h => ho o (List.mem_cons_of_mem _ h))]
    have := ho op List.mem_cons_self
    cases op with
    | sched t a act p wt =>
      simp only [Env.apply]
      cases hs : s.schedule t a act p wt with
      | none => rfl
      | some s' => obtain ⟨_, rfl⟩ := Env.schedule_some.mp hs; rfl
    | pause a => rfl
    | unpause a => rfl
    | cancel a => rfl
    | step => exact False.elim this
    | runBegin d wt => exact False.elim this

/-- **A frame step** is such a step. -/
theorem Fr.sc {w w' : World} (h : Fr w w') : Sc w w' := by
  intro hS
  obtain ⟨hk, hq⟩ := h hS
  have hmm : ∀ m, mcore (w'.maint m) = mcore (w.maint m) := by
    intro m; unfold World.maint; rw [FK_maints hk]
  refine ⟨hS.of_FK hk, fun X R g => g.of_frame hk hq, Grow.of_mcore hmm, ?_,
    filter_SF_of_WO (FK_wos hk), hq.now, FK_aids hk, FK_scripts hk, ?_⟩
  · rw [FK_hooks hk]; simp
  · intro X R g e he hm
    have hs := hq.spec g.g0.mg g.g0.env
    have : e ∈ w.env.events.filter isM := List.mem_filter.2 ⟨he, hm⟩
    rw [← hs.2.1] at this
    exact (List.mem_filter.1 this).1

/-- Changing only fields the invariant does not read. -/
theorem ScP.of_fields {hs : List Res} {w w' : World} (hS : S w) (hS' : S w')
    (hm : ∀ m, mcore (w'.maint m) = mcore (w.maint m)) (ha : C12W.aids w' = C12W.aids w)
    (henv : w'.env = w.env) (hres : w'.results.filter isHook = w.results.filter isHook ++ hs)
    (hrec : w'.recs.filter isSF = w.recs.filter isSF) (hscr : w'.scripts = w.scripts) :
    ScP hs w w' := by
  have _ := hS
  refine ⟨hS', ?_, Grow.of_mcore hm, hres, hrec, by unfold World.now; rw [henv], ha,
    hscr, ?_⟩
  · intro X R g
    exact g.congr hm (aidOf_of_aids_eq ha) (by rw [henv]) (by rw [henv]) (by rw [henv]; exact g.g0.paused)
      (by rw [henv]; exact g.g0.env) hrec
  · intro X R g e he _
    rw [henv]; exact he

/-! ### life of an order -/

theorem Life.of_sc {hs : List Res} {w w' : World} {X R : List (Nat × Nat)} (h : ScP hs w w')
    (g : G X R w) {m : Nat} {o : Order} {T : Int} (hl : Life m o T w) : Life m o T w' := by
  rcases hl with ⟨ho, e, he, hk, ht⟩ | hr
  · left
    obtain ⟨l, hl⟩ := h.grow m
    refine ⟨by rw [hl]; exact List.mem_append_left _ ho, e, ?_, hk, ht⟩
    exact h.keep X R g e he ((isM_true_iff e).2 ⟨_, hk⟩)
  · right
    have : Rec.workOrder 2 m T o.target o.tag o.info ∈ w.recs.filter isSF :=
      List.mem_filter.2 ⟨hr, rfl⟩
    rw [← h.sf] at this
    exact (List.mem_filter.1 this).1

/-! ### creating a work order -/

theorem tryWork_active (mm : Maint) : mm.tryWork.1.active = mm.active ++ mm.tryWork.2 :=
  (C12.scanQ_spec mm mm.queue).2.2.2.1

theorem create_active (mm : Maint) (t : Nat) (tag need info : Int) :
    (mm.create t tag need info).1.active = mm.active ++ (mm.create t tag need info).2.2.2 := by
  unfold Maint.create
  cases hr : mm.requested t tag with
  | true => simp
  | false =>
    simp only [Bool.false_eq_true, if_false]
    exact tryWork_active _

theorem tryWork_queue_sublist (mm : Maint) : mm.tryWork.1.queue.Sublist mm.queue :=
  (C12.scanQ_spec mm mm.queue).2.1

theorem tryWork_queue_sorted (mm : Maint) (h : (mm.queue.map (·.seq)).Pairwise (· < ·)) :
    (mm.tryWork.1.queue.map (·.seq)).Pairwise (· < ·) :=
  h.sublist ((tryWork_queue_sublist mm).map _)

/-- A new request goes to the end of the queue with the largest sequence number so far. -/
theorem create_queue_sorted (mm : Maint) (t : Nat) (tag need info : Int) (hi : C12.Inv mm)
    (h : (mm.queue.map (·.seq)).Pairwise (· < ·)) :
    ((mm.create t tag need info).1.queue.map (·.seq)).Pairwise (· < ·) := by
  unfold Maint.create
  cases hr : mm.requested t tag with
  | true => simpa using h
  | false =>
    simp only [Bool.false_eq_true, if_false]
    apply tryWork_queue_sorted
    show ((mm.queue ++ [(⟨mm.nextSeq, t, tag, need, info⟩ : Order)]).map (·.seq)).Pairwise (· < ·)
    rw [List.map_append, List.pairwise_append]
    refine ⟨h, by simp, ?_⟩
    intro a ha b hb
    obtain ⟨x, hx, rfl⟩ := List.mem_map.1 ha
    simp only [List.map_cons, List.map_nil, List.mem_singleton] at hb
    subst hb
    exact hi.fresh x (List.mem_append_left _ hx)

theorem applyOp_workOrder (w : World) (m tgt : Nat) (tag info : Int) :
    (w.applyOp (.workOrder m tgt tag info)).1 =
      ((match ((w.maint m).create tgt tag (w.targetParams tgt tag).2.1 info).2.2.1 with
        | some o => (w.modMaint m (fun _ =>
            ((w.maint m).create tgt tag (w.targetParams tgt tag).2.1 info).1)).addRec
              (.workOrder 0 m w.now tgt o.tag o.info)
        | none => w.modMaint m (fun _ =>
            ((w.maint m).create tgt tag (w.targetParams tgt tag).2.1 info).1))).startOrders m
        ((w.maint m).create tgt tag (w.targetParams tgt tag).2.1 info).2.2.2 := rfl

theorem S.modMaint {w : World} (h : S w) (m : Nat) (f : Maint → Maint) : S (w.modMaint m f) := by
  have ha := aids_modMaint w m f
  have hl := length_modMaint w m f
  unfold S SK FK at h ⊢
  unfold aids at ha
  simp only at h ⊢
  rw [ha, hl]
  exact h

theorem startOrders_FK (w : World) (m : Nat) (st : List Order) :
    FK (w.startOrders m st) = FK w := by
  unfold World.startOrders
  exact foldl_preserve FK _ st w (fun v o => schedLib_FK v _ _ _ _)

theorem startOrders_now (w : World) (m : Nat) (st : List Order) :
    (w.startOrders m st).now = w.now := by
  unfold World.startOrders
  apply foldl_preserve World.now
  intro v o
  show (v.schedLib _ _ _ _).env.now = v.env.now
  rw [C01W.schedLib_env]
  simp only [Env.apply]
  split
  · rfl
  · rename_i s' hs
    obtain ⟨_, rfl⟩ := Env.schedule_some.mp hs; rfl

theorem schedLib_keep (w : World) (t a : Int) (act : Action) (p : Int) :
    ∀ e ∈ w.env.events, e ∈ (w.schedLib t a act p).env.events := by
  intro e he
  rw [C01W.schedLib_env]
  simp only [Env.apply]
  split
  · exact he
  · rename_i s' hs
    obtain ⟨_, rfl⟩ := Env.schedule_some.mp hs
    exact insort_mem.2 (Or.inr he)

theorem startOrders_keep (w : World) (m : Nat) (st : List Order) :
    ∀ e ∈ w.env.events, e ∈ (w.startOrders m st).env.events := by
  unfold World.startOrders
  induction st generalizing w with
  | nil => exact fun e he => he
  | cons o st ih =>
    intro e he
    rw [List.foldl_cons]
    exact ih _ e (schedLib_keep w _ _ _ _ e he)

theorem S.of_eq {w w' : World} (h : S w) (hm : w'.maints.map (·.aid) = w.maints.map (·.aid))
    (ht : w'.targets = w.targets) (hs : w'.scripts = w.scripts)
    (hd : w'.devs.map (·.aid) = w.devs.map (·.aid)) : S w' := by
  have hl : w'.maints.length = w.maints.length := by
    have := congrArg List.length hm; simpa using this
  unfold S SK FK at h ⊢
  simp only at h ⊢
  rw [hm, hl, ht, hs, hd]
  exact h

theorem maint_of_maints_eq {w w' : World} (h : w'.maints = w.maints) (m : Nat) :
    w'.maint m = w.maint m := by unfold World.maint; rw [h]

/-- The invariant part of a scan (see `ScP.scan`); the queue of `m` itself need not be
unstartable before. -/
theorem scan_G {w w1 : World} (hS : S w) {m : Nat} {mm : Maint} {st : List Order}
    {X R : List (Nat × Nat)} (hlt : m < w.maints.length) (g0 : G0 X R w)
    (nsO : ∀ m', m ≠ m' → ∀ o ∈ (w.maint m').queue, (w.maint m').startable o = false)
    (qsO : ∀ m', m ≠ m' → ((w.maint m').queue.map (·.seq)).Pairwise (· < ·))
    (hi : C12.Inv mm) (hc : C12.CapOK mm) (ha : mm.active = (w.maint m).active ++ st)
    (hns : ∀ o ∈ mm.queue, mm.startable o = false)
    (hqs : (mm.queue.map (·.seq)).Pairwise (· < ·))
    (h1m : w1.maints = (w.modMaint m (fun _ => mm)).maints) (h1e : w1.env = w.env)
    (h1rec : w1.recs.filter isSF = w.recs.filter isSF) :
    G X R (w1.startOrders m st) := by
  have hm256 : m < 256 := Nat.lt_of_lt_of_le hlt hS.len
  have hk := startOrders_FK w1 m st
  have h1maint : ∀ m', w1.maint m' = (w.modMaint m (fun _ => mm)).maint m' :=
    maint_of_maints_eq h1m
  have h2maint : ∀ m', (w1.startOrders m st).maint m' = (w.modMaint m (fun _ => mm)).maint m' :=
    fun m' => (maint_of_maints_eq (FK_maints hk) m').trans (h1maint m')
  have hsame : (w.modMaint m (fun _ => mm)).maint m = mm := maint_modMaint_same w m _ hlt
  have hne : ∀ m', m ≠ m' → (w.modMaint m (fun _ => mm)).maint m' = w.maint m' :=
    fun m' h => maint_modMaint_ne w m m' _ h
  have h1aids : aids w1 = aids w := by
    unfold aids; rw [h1m]; exact aids_modMaint w m _
  have g1 : G0 (st.map (fun o => (m, o.seq)) ++ X) R (w.modMaint m (fun _ => mm)) :=
    g0.setMaint hlt hi hc ha
  have g2 : G0 (st.map (fun o => (m, o.seq)) ++ X) R w1 := by
    refine g1.congr (fun m' => by rw [h1maint]) (aidOf_of_aids_eq (h1aids.trans (aids_modMaint w m _).symm))
      (by rw [h1e]; rfl) (by rw [h1e]; rfl) (by rw [h1e]; exact g1.paused)
      (by rw [h1e]; exact g1.env) (by rw [h1rec]; rfl)
  refine ⟨g2.startOrders st hm256, ?_, ?_⟩
  · intro m' o ho
    rw [h2maint] at ho ⊢
    by_cases h : m = m'
    · subst h
      rw [hsame] at ho ⊢
      exact hns o ho
    · rw [hne m' h] at ho ⊢
      exact nsO m' h o ho
  · intro m'
    rw [h2maint]
    by_cases h : m = m'
    · subst h; rw [hsame]; exact hqs
    · rw [hne m' h]; exact qsO m' h

/-- **A scan**: maintainer `m` (which exists) is replaced by a state `mm` satisfying the
bookkeeping invariant whose active list is the old one followed by `st`, nothing in its queue is
startable; a record that is not a start / finish record may be written (`w1`); the START events of
`st` are scheduled. -/
theorem ScP.scan {w w1 : World} (hS : S w) {m : Nat} {mm : Maint} {st : List Order}
    (hlt : m < w.maints.length)
    (hi : C12.Inv (w.maint m) → C12.Inv mm)
    (hc : C12.Inv (w.maint m) → C12.CapOK (w.maint m) → C12.CapOK mm)
    (ha : mm.active = (w.maint m).active ++ st)
    (hns : C12.Inv (w.maint m) → (∀ o ∈ (w.maint m).queue, (w.maint m).startable o = false) →
      ∀ o ∈ mm.queue, mm.startable o = false)
    (hqs : C12.Inv (w.maint m) → ((w.maint m).queue.map (·.seq)).Pairwise (· < ·) →
      (mm.queue.map (·.seq)).Pairwise (· < ·))
    (h1m : w1.maints = (w.modMaint m (fun _ => mm)).maints) (h1t : w1.targets = w.targets)
    (h1s : w1.scripts = w.scripts) (h1d : w1.devs = w.devs) (h1e : w1.env = w.env)
    (h1res : w1.results = w.results) (h1rec : w1.recs.filter isSF = w.recs.filter isSF) :
    ScP [] w (w1.startOrders m st) := by
  have hm256 : m < 256 := Nat.lt_of_lt_of_le hlt hS.len
  have hk := startOrders_FK w1 m st
  have h1maint : ∀ m', w1.maint m' = (w.modMaint m (fun _ => mm)).maint m' :=
    maint_of_maints_eq h1m
  have h2maint : ∀ m', (w1.startOrders m st).maint m' = (w.modMaint m (fun _ => mm)).maint m' :=
    fun m' => (maint_of_maints_eq (FK_maints hk) m').trans (h1maint m')
  have hsame : (w.modMaint m (fun _ => mm)).maint m = mm := maint_modMaint_same w m _ hlt
  have hne : ∀ m', m ≠ m' → (w.modMaint m (fun _ => mm)).maint m' = w.maint m' :=
    fun m' h => maint_modMaint_ne w m m' _ h
  have h1aids : C12W.aids w1 = C12W.aids w := by
    unfold C12W.aids; rw [h1m]; exact aids_modMaint w m _
  have h2aids : C12W.aids (w1.startOrders m st) = C12W.aids w := (FK_aids hk).trans h1aids
  refine ⟨?_, ?_, ?_, ?_, ?_, ?_, h2aids, (FK_scripts hk).trans h1s, ?_⟩
  · exact hS.of_eq h2aids ((FK_targets hk).trans h1t) ((FK_scripts hk).trans h1s)
      ((FK_daids hk).trans (by rw [h1d]))
  · intro X R g
    exact scan_G hS hlt g.g0 (fun m' _ => g.ns m') (fun m' _ => g.qs m') (hi (g.g0.inv m))
      (hc (g.g0.inv m) (g.g0.cap m)) ha (hns (g.g0.inv m) (g.ns m)) (hqs (g.g0.inv m) (g.qs m))
      h1m h1e h1rec
  · intro m'
    rw [h2maint]
    by_cases h : m = m'
    · subst h; rw [hsame]; exact ⟨st, ha⟩
    · rw [hne m' h]; exact ⟨[], by simp⟩
  · rw [FK_hooks hk, h1res]; simp
  · rw [filter_SF_of_WO (FK_wos hk), h1rec]
  · rw [startOrders_now]; unfold World.now; rw [h1e]
  · intro X R g e he _
    apply startOrders_keep
    rw [h1e]; exact he

/-- **`create_work_order`** (scripted operation). -/
theorem Sc_workOrder (w : World) (m tgt : Nat) (tag info : Int) (hlt : m < w.maints.length) :
    Sc w (w.applyOp (.workOrder m tgt tag info)).1 := by
  intro hS
  rw [applyOp_workOrder]
  have hn := (hS.params tgt tag).2
  generalize hneed : (w.targetParams tgt tag).2.1 = need at hn
  have hcommon : ∀ w1 : World, w1.maints = (w.modMaint m (fun _ =>
      ((w.maint m).create tgt tag need info).1)).maints → w1.targets = w.targets →
      w1.scripts = w.scripts → w1.devs = w.devs → w1.env = w.env → w1.results = w.results →
      w1.recs.filter isSF = w.recs.filter isSF →
      ScP [] w (w1.startOrders m ((w.maint m).create tgt tag need info).2.2.2) := by
    intro w1 h1 h2 h3 h4 h5 h6 h7
    exact ScP.scan hS hlt (fun h => C12.inv_create _ _ _ _ _ h hn)
      (fun _ h => C12.cap_create _ _ _ _ _ h) (create_active _ _ _ _ _)
      (fun h hq => C12.nothing_startable_after_create _ _ _ _ _ h hn hq)
      (fun h hq => create_queue_sorted _ _ _ _ _ h hq) h1 h2 h3 h4 h5 h6 h7
  split
  · apply hcommon <;> try rfl
    show (w.recs ++ [_]).filter isSF = _
    simp [List.filter_append, isSF]
  · apply hcommon <;> rfl

/-- **`setParams`** with non-negative duration and capacity. -/
theorem Sc_setParams (w : World) (tgt : Nat) (tag dur need cost : Int) (hd : 0 ≤ dur)
    (hn : 0 ≤ need) : Sc w (w.applyOp (.setParams tgt tag dur need cost)).1 := by
  intro hS
  refine ScP.of_fields (hs := []) hS ?_ (fun _ => rfl) rfl rfl (by simp; rfl) rfl rfl
  have ht := hS.targets
  unfold S SK FK at hS ⊢
  simp only [Bool.and_eq_true] at hS ⊢
  refine ⟨hS.1, ?_⟩
  show List.all (w.targets.set tgt _) paramsOK = true
  rw [List.all_eq_true]
  intro t hmem
  rcases List.mem_or_eq_of_mem_set hmem with h | h
  · exact ht t h
  · subst h
    unfold paramsOK
    rw [List.all_eq_true]
    intro q hq
    rcases List.mem_append.1 hq with h | h
    · have h1 := (List.mem_filter.1 h).1
      rw [List.getD_eq_getElem?_getD] at h1
      cases hx : w.targets[tgt]? with
      | none =>
        rw [hx] at h1
        have hd : (default : Target).params = [] := rfl
        simp only [Option.getD_none, hd] at h1
        cases h1
      | some t0 =>
        rw [hx] at h1
        have := ht t0 (List.mem_of_getElem? hx)
        unfold paramsOK at this
        rw [List.all_eq_true] at this
        exact this q h1
    · simp only [List.mem_singleton] at h
      subst h
      simp [hd, hn]

/-! ### the other scripted operations are frame steps -/

theorem Fr_setVar (w : World) (h : Nat) (v : Option Nat) : Fr w (w.setVar h v) := Fr.of_FK rfl rfl

macro_rules | `(tactic| fr_step) => `(tactic| with_reducible apply Fr.trans (h2 := Fr_setVar _ _ _))

theorem Fr_schedUpdate (w : World) (s : Nat) (advance : Bool) : Fr w (w.schedUpdate s advance) := by
  unfold schedUpdate
  dsimp only
  fr_auto

theorem Fr_periodicSense (w : World) (s : Nat) : Fr w (w.periodicSense s) := by
  unfold periodicSense
  dsimp only
  fr_auto

theorem Fr_applyOp (w : World) (op : Op) (h : opOK (aids w) w.maints.length op = true)
    (hw : ∀ m t g i, op ≠ .workOrder m t g i) (hp : ∀ t g d n c, op ≠ .setParams t g d n c) :
    Fr w (w.applyOp op).1 := by
  unfold applyOp
  split <;> (try dsimp only)
  · exact Fr_sched _ _ _ _ _ rfl
  · exact Fr_sched _ _ _ _ _ rfl
  · exact Fr_envOp _ _ (show _ ∉ _ by simpa [opOK] using h)
  · exact Fr_envOp _ _ (show _ ∉ _ by simpa [opOK] using h)
  · exact Fr_envOp _ _ (show _ ∉ _ by simpa [opOK] using h)
  all_goals try (fr_auto; done)
  all_goals try (exact absurd rfl (hw _ _ _ _))
  all_goals try (exact absurd rfl (hp _ _ _ _ _))
  all_goals try (simp [opOK] at h; done)
  all_goals repeat' first
      | fr_step
      | exact Fr_sched _ _ _ _ _ rfl
      | split
      | dsimp only

/-! ### no scripted operation returns a hook result -/

theorem sched_res (w : World) (t a : Int) (act : Action) (p : Int) :
    isHook (w.sched t a act p).2 = false := by
  unfold World.sched
  dsimp only
  split <;> rfl

theorem add_res (rm : RM) (r : Nat) (amt : Int) : isHook (rm.add r amt).2.1 = false := by
  unfold RM.add
  repeat' split
  all_goals rfl

theorem reserve_res (rm : RM) (req : Req) : isHook (rm.reserve req).2.1 = false := by
  unfold RM.reserve
  dsimp only
  repeat' split
  all_goals rfl

theorem validateRelease_res (h rel : Req) : isHook (RM.validateRelease h rel) = false := by
  induction rel with
  | nil => rfl
  | cons x rest ih =>
    obtain ⟨r, a⟩ := x
    unfold RM.validateRelease
    repeat' split
    all_goals first | rfl | exact ih

theorem release_res (rm : RM) (id : Nat) (part : Option Req) :
    isHook (rm.release id part).2.1 = false := by
  unfold RM.release
  repeat' split
  all_goals first | rfl | exact validateRelease_res _ _

theorem merge_res (rm : RM) (a b : Nat) : isHook (rm.merge a b).2 = false := by
  unfold RM.merge
  repeat' split
  all_goals rfl

theorem applyOp_res (w : World) (op : Op) : isHook (w.applyOp op).2 = false := by
  unfold applyOp
  split <;> (try dsimp only)
  all_goals try rfl
  all_goals try exact sched_res _ _ _ _ _
  · exact add_res _ _ _
  · have := reserve_res w.rm ‹_›
    split <;> first | rfl | exact this
  · split
    · rfl
    · exact release_res _ _ _
  · split
    · rfl
    · split
      · rfl
      · exact merge_res _ _ _
  all_goals repeat' split
  all_goals first | rfl | exact sched_res _ _ _ _ _

/-! ### scripted operations, scripts -/

theorem Sc_applyOp (w : World) (op : Op) (h : opOK (aids w) w.maints.length op = true) :
    Sc w (w.applyOp op).1 := by
  cases op with
  | workOrder m t g i => exact Sc_workOrder w m t g i (by simpa [opOK] using h)
  | setParams t g d n c =>
    have h' : 0 ≤ d ∧ 0 ≤ n := by simpa [opOK] using h
    exact Sc_setParams w t g d n c h'.1 h'.2
  | _ => exact (Fr_applyOp w _ h (by intros; simp) (by intros; simp)).sc

theorem Sc_applyOps (w : World) (ops : List Op)
    (h : ∀ op ∈ ops, opOK (aids w) w.maints.length op = true) : Sc w (w.applyOps ops) := by
  unfold applyOps
  induction ops generalizing w with
  | nil => exact ScH.refl w
  | cons op ops ih =>
    rw [List.foldl_cons]
    show Sc w (List.foldl _ ((w.applyOp op).1.addRes (w.applyOp op).2) ops)
    have h1 : Sc w ((w.applyOp op).1.addRes (w.applyOp op).2) :=
      (Sc_applyOp w op (h op List.mem_cons_self)).trans (Fr_addRes _ _ (applyOp_res w op)).sc
    intro hS
    have p1 := h1 hS
    have h2 := ih ((w.applyOp op).1.addRes (w.applyOp op).2) (by
      intro o ho
      rw [p1.aids, length_of_aids_eq p1.aids]
      exact h o (List.mem_cons_of_mem _ ho)) p1.s
    exact p1.trans h2

theorem mem_getD_nil {α} {l : List (List α)} {k : Nat} {a : α} (h : a ∈ l.getD k []) :
    ∃ s ∈ l, a ∈ s := by
  rw [List.getD_eq_getElem?_getD] at h
  cases hk : l[k]? with
  | none => rw [hk] at h; simp at h
  | some s => rw [hk] at h; exact ⟨s, List.mem_of_getElem? hk, h⟩

theorem Sc_runScript (w : World) (k : Nat) : Sc w (w.runScript k) := by
  intro hS
  unfold runScript
  refine Sc_applyOps _ _ ?_ hS
  intro op hop
  obtain ⟨s, hs, hm⟩ := mem_getD_nil hop
  exact hS.scripts s hs op hm

/-! ### resource availability check -/

theorem Sc_call (w : World) (cb : Cb) (req : Req) : Sc w (scanOps.call w cb req) := by
  cases cb with
  | script k => exact (Fr_addRes _ _ rfl).sc.trans (Sc_runScript _ _)
  | proc d => exact (Fr_procResourceCb _ _).sc

theorem Sc_erase (w : World) (i : Nat) : Sc w (scanOps.erase w i) :=
  (Fr.of_FK (w := w) (w' := scanOps.erase w i) rfl rfl).sc

theorem Sc_scanWaiting (n : Nat) (w : World) (i : Nat) : Sc w (scanWaiting scanOps n w i) := by
  induction n generalizing w i with
  | zero => exact ScH.refl _
  | succ n ih =>
    rw [scanWaiting]
    split
    · exact ScH.refl _
    · split
      · refine Sc.trans ?_ (ih _ _)
        exact (Sc_call _ _ _).trans (Sc_erase _ _)
      · exact ih _ _

theorem Sc_rmCheck (w : World) : Sc w w.rmCheck := Sc_scanWaiting _ _ _

/-! ### hooks -/

theorem ScH_addHook (w : World) (r : Res) (h : isHook r = true) : ScH [r] w (w.addRes r) := by
  intro hS
  refine ScP.of_fields hS hS (fun _ => rfl) rfl rfl ?_ rfl rfl
  show (w.results ++ [r]).filter isHook = _
  simp [List.filter_append, h]

theorem ScH_hookStart (w : World) (tgt : Nat) (tag : Int) :
    ScH [.hook true tgt tag] w (w.hookStart tgt tag) := by
  unfold hookStart
  dsimp only
  refine ScH.transS (ScH_addHook w _ rfl) ?_
  split
  · exact (Fr_shutdownDev _ _ _ _).sc
  · split
    · exact Sc_runScript _ _
    · exact ScH.refl _

theorem ScH_hookEnd (w : World) (tgt : Nat) (tag : Int) :
    ScH [.hook false tgt tag] w (w.hookEnd tgt tag) := by
  unfold hookEnd
  dsimp only
  refine ScH.transS (ScH_addHook w _ rfl) ?_
  split
  · exact (Fr_restoreDev _ _).sc
  · split
    · exact Sc_runScript _ _
    · exact ScH.refl _

/-! ### the two maintainer events -/

theorem findActive_of_flight {X R : List (Nat × Nat)} {w : World} {m s : Nat} (g : G0 X R w)
    (h : s ∈ proj m X ++ proj m R) :
    ∃ o, (w.maint m).findActive s = some o ∧ o ∈ (w.maint m).active ∧ o.seq = s := by
  have h2 : s ∈ (w.maint m).active.map (·.seq) := by
    apply (g.perm m).subset
    rw [List.append_assoc]
    exact List.mem_append_right _ h
  obtain ⟨o0, ho0, hs0⟩ := List.mem_map.1 h2
  unfold Maint.findActive
  cases hf : (w.maint m).active.find? (fun o => o.seq == s) with
  | none =>
    rw [List.find?_eq_none] at hf
    exact absurd (by simpa using hs0) (hf o0 ho0)
  | some o =>
    refine ⟨o, rfl, List.mem_of_find?_eq_some hf, ?_⟩
    have := List.find?_some hf
    simpa using this

theorem startWork_eq (w : World) (m s : Nat) (o : Order) (h : (w.maint m).findActive s = some o) :
    w.startWork m s =
      ((((w.addRec (.workOrder 1 m w.now o.target o.tag o.info)).modMaint m
        (fun mm => mm.startCost w.now (w.targetParams o.target o.tag).2.2)).hookStart o.target o.tag).schedLib
        ((((w.addRec (.workOrder 1 m w.now o.target o.tag o.info)).modMaint m
          (fun mm => mm.startCost w.now (w.targetParams o.target o.tag).2.2)).hookStart o.target o.tag).now +
          (w.targetParams o.target o.tag).1)
        (aidOf (((w.addRec (.workOrder 1 m w.now o.target o.tag o.info)).modMaint m
          (fun mm => mm.startCost w.now (w.targetParams o.target o.tag).2.2)).hookStart o.target o.tag) m)
        (.finishWork m s) pFinishWork) := by
  unfold startWork
  rw [h]
  rfl

/-- What the execution of a START event does. -/
structure StartSpec (w w' : World) (m s : Nat) (o : Order) : Prop where
  found : (w.maint m).findActive s = some o
  mem : o ∈ (w.maint m).active
  seq : o.seq = s
  s' : S w'
  g : G [] [] w'
  hooks : w'.results.filter isHook = w.results.filter isHook ++ [.hook true o.target o.tag]
  sf : w'.recs.filter isSF = w.recs.filter isSF ++ [.workOrder 1 m w.now o.target o.tag o.info]
  grow : Grow w w'
  now : w'.now = w.now
  aids : aids w' = aids w
  scr : w'.scripts = w.scripts
  keep : ∀ e ∈ w.env.events, isM e = true → e ∈ w'.env.events
  fin : ∃ e' ∈ w'.env.events, ekey e' = some (true, m, s) ∧
    e'.time = w.now + (w.targetParams o.target o.tag).1 ∧ e'.prio = pFinishWork ∧
    e'.cancelled = false ∧ e'.asset = aidOf w m

theorem mcore_startCost (mm : Maint) (now cost : Int) : mcore (mm.startCost now cost) = mcore mm := rfl

theorem mcore_modMaint (w : World) (m : Nat) (f : Maint → Maint) (hf : ∀ x, mcore (f x) = mcore x)
    (m' : Nat) : mcore ((w.modMaint m f).maint m') = mcore (w.maint m') := by
  by_cases h : m = m'
  · subst h
    by_cases hlt : m < w.maints.length
    · rw [maint_modMaint_same w m f hlt, hf]
    · have h1 : (w.modMaint m f).maints.length ≤ m := by
        rw [length_modMaint]; exact Nat.le_of_not_lt hlt
      rw [maint_of_ge h1, maint_of_ge (Nat.le_of_not_lt hlt)]
  · rw [maint_modMaint_ne w m m' f h]

theorem startWork_spec {w : World} {m s : Nat} (hS : S w) (g : G [(m, s)] [] w) :
    ∃ o, StartSpec w (w.startWork m s) m s o := by
  obtain ⟨o, hfind, hmem, hseq⟩ := findActive_of_flight (m := m) (s := s) g.g0
    (by rw [proj_cons_same]; simp)
  have hlt : m < w.maints.length := lt_of_active_ne hmem
  have hm256 : m < 256 := Nat.lt_of_lt_of_le hlt hS.len
  refine ⟨o, ?_⟩
  rw [startWork_eq w m s o hfind]
  generalize hw1 : w.addRec (.workOrder 1 m w.now o.target o.tag o.info) = w1
  generalize hw2 : w1.modMaint m
    (fun mm => mm.startCost w.now (w.targetParams o.target o.tag).2.2) = w2
  generalize hw3 : w2.hookStart o.target o.tag = w3
  have hdur := (hS.params o.target o.tag).1
  generalize hd : (w.targetParams o.target o.tag).1 = dur at hdur ⊢
  -- the START record
  have g1 : G [] [(m, s)] w1 := by
    subst hw1 hseq
    exact ⟨g.g0.startRec w.now hmem, g.ns.congr (fun _ => rfl), g.qs.congr (fun _ => rfl)⟩
  -- the cost
  have hmc : ∀ m', mcore (w2.maint m') = mcore (w1.maint m') := by
    subst hw2; exact mcore_modMaint w1 m _ (fun x => mcore_startCost x _ _)
  have g2 : G [] [(m, s)] w2 := by
    refine g1.congr hmc ?_ ?_ ?_ ?_ ?_ ?_
    all_goals subst hw2
    · exact fun m' => aidOf_modMaint w1 m m' _
    · rfl
    · rfl
    · exact g1.g0.paused
    · exact g1.g0.env
    · rfl
  have hS2 : S w2 := by
    subst hw2 hw1
    exact (hS.of_eq rfl rfl rfl rfl : S (w.addRec _)).modMaint m _
  -- the hook
  have p3 : ScP [.hook true o.target o.tag] w2 w3 := hw3 ▸ ScH_hookStart w2 o.target o.tag hS2
  have g3 := p3.g _ _ g2
  have hnow3 : w3.now = w.now := by
    rw [p3.now]; subst hw2 hw1; rfl
  have haid3 : aidOf w3 m = aidOf w m := by
    rw [aidOf_of_aids_eq p3.aids]; subst hw2 hw1; exact aidOf_modMaint _ m _ _
  have haids3 : aids w3 = aids w := by
    rw [p3.aids]; subst hw2 hw1; exact aids_modMaint _ m _
  -- the FINISH event
  obtain ⟨ne, ht, hasset, hact, hp, hc, _, heq, _⟩ :=
    schedLib_fields w3 (w3.now + dur) (aidOf w3 m) (.finishWork m s) pFinishWork (by omega)
  have g4 := g3.g0.schedFinish (w3.now + dur) hm256 (by omega)
  have hk4 := schedLib_FK w3 (w3.now + dur) (aidOf w3 m) (.finishWork m s) pFinishWork
  have hk : ekey ne = some (true, m, s) := by
    unfold ekey; rw [hact, ofNat_toNat_finishWork m s hm256]; rfl
  have h2res : w2.results = w.results := by subst hw2 hw1; rfl
  have h2recs : w2.recs = w.recs ++ [.workOrder 1 m w.now o.target o.tag o.info] := by
    subst hw2 hw1; rfl
  have h2env : w2.env = w.env := by subst hw2 hw1; rfl
  have h2scr : w2.scripts = w.scripts := by subst hw2 hw1; rfl
  have hmc2 : ∀ m', mcore (w2.maint m') = mcore (w.maint m') := by
    intro m'; rw [hmc]; subst hw1; rfl
  refine ⟨hfind, hmem, hseq, p3.s.of_FK hk4, ⟨g4, g3.ns.schedLib _ _ _ _, g3.qs.schedLib _ _ _ _⟩, ?_, ?_, ?_, ?_, ?_, ?_, ?_, ?_⟩
  · rw [FK_hooks hk4, p3.hooks, h2res]
  · rw [filter_SF_of_WO (FK_wos hk4), p3.sf, h2recs]
    simp [List.filter_append, isSF]
  · refine (Grow.of_mcore hmc2).trans (p3.grow.trans ?_)
    exact Grow.of_mcore (fun m' => by rw [maint_of_maints_eq (FK_maints hk4)])
  · rw [← hnow3, heq]; rfl
  · exact (FK_aids hk4).trans haids3
  · rw [FK_scripts hk4, p3.scr, h2scr]
  · intro e he hm
    apply schedLib_keep
    exact p3.keep _ _ g2 e (by rw [h2env]; exact he) hm
  · refine ⟨ne, ?_, hk, by rw [ht, hnow3, hd], hp, hc, by rw [hasset, haid3]⟩
    rw [heq]
    exact insort_mem.2 (Or.inl rfl)

theorem finishWork_eq (w : World) (m s : Nat) (o : Order) (h : (w.maint m).findActive s = some o) :
    w.finishWork m s =
      ((((w.hookEnd o.target o.tag).modMaint m (fun _ =>
          { (w.hookEnd o.target o.tag).maint m with
            util := ((w.hookEnd o.target o.tag).maint m).util - o.needed,
            active := ((w.hookEnd o.target o.tag).maint m).active.erase o })).addRec
          (.workOrder 2 m (w.hookEnd o.target o.tag).now o.target o.tag o.info)).modMaint m (fun _ =>
        ((((w.hookEnd o.target o.tag).modMaint m (fun _ =>
          { (w.hookEnd o.target o.tag).maint m with
            util := ((w.hookEnd o.target o.tag).maint m).util - o.needed,
            active := ((w.hookEnd o.target o.tag).maint m).active.erase o })).addRec
          (.workOrder 2 m (w.hookEnd o.target o.tag).now o.target o.tag o.info)).maint m).tryWork.1)).startOrders m
        ((((w.hookEnd o.target o.tag).modMaint m (fun _ =>
          { (w.hookEnd o.target o.tag).maint m with
            util := ((w.hookEnd o.target o.tag).maint m).util - o.needed,
            active := ((w.hookEnd o.target o.tag).maint m).active.erase o })).addRec
          (.workOrder 2 m (w.hookEnd o.target o.tag).now o.target o.tag o.info)).maint m).tryWork.2 := by
  unfold finishWork
  rw [h]
  rfl

/-- What the execution of a FINISH event does. -/
structure FinishSpec (w w' : World) (m s : Nat) (o : Order) : Prop where
  found : (w.maint m).findActive s = some o
  mem : o ∈ (w.maint m).active
  seq : o.seq = s
  s' : S w'
  g : G [] [] w'
  hooks : w'.results.filter isHook = w.results.filter isHook ++ [.hook false o.target o.tag]
  sf : w'.recs.filter isSF = w.recs.filter isSF ++ [.workOrder 2 m w.now o.target o.tag o.info]
  gone : ∀ x ∈ (w'.maint m).active, x.seq ≠ s
  stay : ∀ m' x, x ∈ (w.maint m').active → (m' = m → x.seq ≠ s) → x ∈ (w'.maint m').active
  now : w'.now = w.now
  aids : aids w' = aids w
  scr : w'.scripts = w.scripts
  keep : ∀ e ∈ w.env.events, isM e = true → e ∈ w'.env.events

theorem finishWork_spec {w : World} {m s : Nat} (hS : S w) (g : G [] [(m, s)] w) :
    ∃ o, FinishSpec w (w.finishWork m s) m s o := by
  obtain ⟨o, hfind, hmem, hseq⟩ := findActive_of_flight (m := m) (s := s) g.g0
    (by rw [proj_cons_same]; simp)
  refine ⟨o, ?_⟩
  rw [finishWork_eq w m s o hfind]
  generalize hw1 : w.hookEnd o.target o.tag = w1
  have p1 : ScP [.hook false o.target o.tag] w w1 := hw1 ▸ ScH_hookEnd w o.target o.tag hS
  have g1 := p1.g _ _ g
  obtain ⟨l1, hl1⟩ := p1.grow m
  have ho1 : o ∈ (w1.maint m).active := by rw [hl1]; exact List.mem_append_left _ hmem
  have hlt : m < w1.maints.length := lt_of_active_ne ho1
  have g3 : G0 [] [] ((w1.modMaint m (fun _ => { w1.maint m with
      util := (w1.maint m).util - o.needed, active := (w1.maint m).active.erase o })).addRec
    (.workOrder 2 m w1.now o.target o.tag o.info)) := by
    subst hseq
    exact g1.g0.finishRec w1.now ho1
  generalize hme : ({ w1.maint m with
      util := (w1.maint m).util - o.needed, active := (w1.maint m).active.erase o } : Maint) = me
    at g3 ⊢
  have hmea : me.active = (w1.maint m).active.erase o := by subst hme; rfl
  have hmeq : me.queue = (w1.maint m).queue := by subst hme; rfl
  generalize hw3 : (w1.modMaint m (fun _ => me)).addRec
    (.workOrder 2 m w1.now o.target o.tag o.info) = w3 at g3 ⊢
  have h3m : w3.maint m = me := by
    subst hw3; exact maint_modMaint_same w1 m (fun _ => me) hlt
  have h3ne : ∀ m', m ≠ m' → w3.maint m' = w1.maint m' := by
    intro m' h; subst hw3; exact maint_modMaint_ne w1 m m' (fun _ => me) h
  have h3len : w3.maints.length = w1.maints.length := by
    subst hw3; exact length_modMaint w1 m (fun _ => me)
  have h3aids : aids w3 = aids w1 := by subst hw3; exact aids_modMaint w1 m (fun _ => me)
  have h3env : w3.env = w1.env := by subst hw3; rfl
  have h3res : w3.results = w1.results := by subst hw3; rfl
  have h3recs : w3.recs = w1.recs ++ [.workOrder 2 m w1.now o.target o.tag o.info] := by
    subst hw3; rfl
  have h3scr : w3.scripts = w1.scripts := by subst hw3; rfl
  have hS3 : S w3 := by
    subst hw3
    exact (p1.s.modMaint m (fun _ => me)).of_eq rfl rfl rfl rfl
  have hlt3 : m < w3.maints.length := by rw [h3len]; exact hlt
  generalize hmm : (w3.maint m).tryWork.1 = mm
  generalize hst : (w3.maint m).tryWork.2 = st
  have hact : mm.active = (w3.maint m).active ++ st := by
    rw [← hmm, ← hst]; exact tryWork_active _
  generalize hw4 : w3.modMaint m (fun _ => mm) = w4
  have hk5 := startOrders_FK w4 m st
  have g5 : G [] [] (w4.startOrders m st) := by
    refine scan_G hS3 hlt3 g3 ?_ ?_ (hmm ▸ C12.inv_tryWork _ (g3.inv m))
      (hmm ▸ C12.cap_tryWork _ (g3.cap m)) hact ?_ ?_ (by rw [← hw4]) (by rw [← hw4]; rfl)
      (by rw [← hw4]; rfl)
    · intro m' h o' ho'
      rw [h3ne m' h] at ho' ⊢
      exact g1.ns m' o' ho'
    · intro m' h
      rw [h3ne m' h]
      exact g1.qs m'
    · rw [← hmm]
      exact C12.nothing_startable_after_scan _
        (fun x hx => (g3.inv m).needNonneg x (List.mem_append_left _ hx))
    · rw [← hmm]
      apply tryWork_queue_sorted
      rw [h3m, hmeq]
      exact g1.qs m
  have h5m : (w4.startOrders m st).maint m = mm := by
    rw [maint_of_maints_eq (FK_maints hk5), ← hw4]; exact maint_modMaint_same w3 m _ hlt3
  have h5ne : ∀ m', m ≠ m' → (w4.startOrders m st).maint m' = w1.maint m' := by
    intro m' h
    rw [maint_of_maints_eq (FK_maints hk5), ← hw4, maint_modMaint_ne w3 m m' _ h, h3ne m' h]
  have h4aids : aids w4 = aids w3 := by rw [← hw4]; exact aids_modMaint w3 m _
  -- the finished order has no event left and is not queued
  have hnot3 : ∀ x ∈ (w3.maint m).active, x.seq ≠ s := by
    intro x hx hxs
    have h1 : s ∈ skeys m w3.env.events := by
      have := (g3.perm m).mem_iff.2 (List.mem_map.2 ⟨x, hx, hxs⟩)
      simpa using this
    have hnd := g1.g0.nodup_lhs m
    rw [proj_cons_same, ← h3env] at hnd
    have hc : 2 ≤ List.count s (skeys m w3.env.events ++ proj m [] ++ s :: proj m []) := by
      have := List.count_pos_iff.2 h1
      simp only [List.count_append, List.count_cons, beq_self_eq_true, if_true, proj_nil,
        List.count_nil]
      omega
    have := List.nodup_iff_count.1 hnd s
    omega
  have hnotq : ∀ x ∈ (w3.maint m).queue, x.seq ≠ s := by
    intro x hx hxs
    rw [h3m, hmeq] at hx
    have hnd := (g1.g0.inv m).seqs
    rw [List.map_append] at hnd
    have := (List.nodup_append.1 hnd).2.2 _ (List.mem_map.2 ⟨x, hx, hxs⟩) _
      (List.mem_map.2 ⟨o, ho1, hseq⟩)
    exact this rfl
  refine ⟨hfind, hmem, hseq, ?_, g5, ?_, ?_, ?_, ?_, ?_, ?_, ?_, ?_⟩
  · exact (hw4 ▸ hS3.modMaint m _ : S w4).of_FK hk5
  · rw [FK_hooks hk5, ← hw4]
    show w3.results.filter isHook = _
    rw [h3res, p1.hooks]
  · rw [filter_SF_of_WO (FK_wos hk5), ← hw4]
    show w3.recs.filter isSF = _
    rw [h3recs, List.filter_append, p1.sf, p1.now]
    simp [isSF]
  · intro x hx
    rw [h5m, hact] at hx
    rcases List.mem_append.1 hx with h | h
    · exact hnot3 x h
    · have : st.Sublist (w3.maint m).queue := by
        rw [← hst]; exact (C12.scanQ_spec (w3.maint m) (w3.maint m).queue).1
      exact hnotq x (this.subset h)
  · intro m' x hx hne
    obtain ⟨l, hl⟩ := p1.grow m'
    have hx1 : x ∈ (w1.maint m').active := by rw [hl]; exact List.mem_append_left _ hx
    by_cases h : m = m'
    · subst h
      rw [h5m, hact, h3m, hmea]
      refine List.mem_append_left _ ?_
      have hxo : x ≠ o := by
        intro e; subst e; exact hne rfl hseq
      exact (List.mem_erase_of_ne hxo).2 hx1
    · rw [h5ne m' h]; exact hx1
  · rw [startOrders_now, ← hw4]
    show w3.env.now = _
    rw [h3env]; exact p1.now
  · rw [FK_aids hk5, h4aids, h3aids, p1.aids]
  · rw [FK_scripts hk5, ← hw4]
    show w3.scripts = _
    rw [h3scr, p1.scr]
  · intro e he hm
    apply startOrders_keep
    rw [← hw4]
    show e ∈ w3.env.events
    rw [h3env]
    exact p1.keep _ _ g e he hm

/-! ### the other event actions, initialisation -/

theorem Sc_exec (w : World) (a : Action) (ha : actKey a = none) : Sc w (w.exec a) := by
  cases a with
  | terminate => exact ScH.refl _
  | script k => exact Sc_runScript _ _
  | finishCycle d => exact (Fr_finishCycle _ _).sc
  | passPart d => exact (Fr_passPart _ _).sc
  | fail d => exact (Fr_failDev _ _).sc
  | releaseIfIdle d => exact (Fr_releaseIfIdle _ _).sc
  | rmCheck => exact Sc_rmCheck _
  | startWork m o => cases ha
  | finishWork m o => cases ha
  | schedUpdate s => exact (Fr_schedUpdate _ _ _).sc
  | periodicSense s => exact (Fr_periodicSense _ _).sc
  | unknown n => exact (Fr_setErr _ _).sc

theorem Sc_initAsset (w : World) (a : AssetRef) : Sc w (w.initAsset a) := by
  cases a with
  | dev d => exact (Fr_initDev _ _).sc
  | maint m =>
    intro hS
    have hmap : ∀ x : MaintW, x.aid = (w.maints.getD m default).aid →
        (w.maints.set m x).map (·.aid) = w.maints.map (·.aid) :=
      fun x hx => map_set_of_eq MaintW.aid w.maints m x default hx
    refine ScP.of_fields (hs := []) hS (hS.of_eq (hmap _ rfl) rfl rfl rfl) ?_ (hmap _ rfl) rfl
      (by simp; rfl) rfl rfl
    intro m'
    unfold World.maint
    show mcore (List.getD (w.maints.set m _) m' default).m = _
    by_cases h : m = m'
    · subst h
      by_cases hlt : m < w.maints.length
      · rw [getD_set_same _ _ _ _ hlt]; rfl
      · rw [set_of_length_le _ _ _ (Nat.le_of_not_lt hlt)]
    · rw [getD_set_ne _ _ _ _ _ h]
  | sched s => exact (Fr_schedUpdate w s false).sc
  | sensor s =>
    refine Fr.sc ?_
    unfold initAsset
    dsimp only
    fr_auto
  | cms c => exact ScH.refl _

theorem Sc_simulateInit (w : World) : Sc w w.simulateInit := by
  unfold simulateInit
  split
  · exact ScH.refl _
  · dsimp only
    have h1 : Sc w (({ w with rm := w.rm.init.1 } : World).rmEffects w.rm.init.2.1 w.rm.init.2.2) :=
      ((Fr.of_FK (w := w) (w' := { w with rm := w.rm.init.1 }) rfl rfl).trans (Fr_rmEffects _ _ _)).sc
    generalize ({ w with rm := w.rm.init.1 } : World).rmEffects w.rm.init.2.1 w.rm.init.2.2 = w1 at h1 ⊢
    have h2 : Sc w1 (w1.assets.foldl (fun w a => w.initAsset a) w1) :=
      Sc.foldl _ _ _ (fun v a => Sc_initAsset v a)
    generalize w1.assets.foldl (fun w a => w.initAsset a) w1 = w2 at h2 ⊢
    exact (h1.trans h2).trans (Fr.of_FK (w := w2) (w' := { w2 with started := true }) rfl rfl).sc

end C12W
end SimProc
