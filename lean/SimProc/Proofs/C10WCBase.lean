/-
C10W — base machinery, part 2: the CONDITIONAL relation `C w w'`.

Under the closed-world invariant `P w` (device asset ids ≥ 1; scripts issue only user operations
on the event queue and construct only devices whose `waitingRes` flag is clear; shape `WaitOK` of
the waiting list: every processor waits at most once, a waiting processor has its flag set and
waits with its declared request, a processor whose flag is set is in the list) a function other
than the availability check
* keeps `P`,
* acts on the event queue through library operations only (`C01W.Refines`; hence keeps the clock
  and every live event of the internal asset id −1, in particular a queued availability check),
* keeps the manager initialised, and
* either leaves an availability check queued for the current instant, or leaves the waiting list
  alone and does not increase the free amount of any pool (`C10.PoolLe`).
-/
import SimProc.Proofs.C10WUWorld
import SimProc.Proofs.C11WBase

namespace SimProc
namespace C10W
open World FloorCoreL C01W
open Lean Elab Tactic Meta

/-! ### a queued availability check survives library operations -/

/-- A live availability check is queued for the current instant. -/
def ChkNow (w : World) : Prop := C11W.QueuedL w .rmCheck w.now pOtherHigh (-1)

theorem lib_apply_keep (s : Env) {op : EnvOp} (h : LibOp op) (e : Event) (he : e ∈ s.events)
    (ha : e.asset = -1) : e ∈ (s.apply Arith.exact op).1.events := by
  cases op with
  | step => exact False.elim h
  | runBegin d w => exact False.elim h
  | sched t a act p w =>
    simp only [Env.apply]
    cases hs : s.schedule t a act p w with
    | none => exact he
    | some s' =>
      obtain ⟨_, rfl⟩ := Env.schedule_some.mp hs
      exact insort_mem.2 (Or.inr he)
  | pause a =>
    have hne : a ≠ -1 := h
    simp only [Env.apply, Env.pause, List.mem_filter]
    refine ⟨he, ?_⟩
    simp only [Bool.not_eq_true', beq_eq_false_iff_ne, ne_eq]
    rw [ha]; exact fun e => hne e.symm
  | unpause a =>
    simp only [Env.apply, Env.unpause, foldl_insort_map]
    exact insortAll_mem.2 (Or.inr he)
  | cancel a =>
    have hne : a ≠ -1 := h
    simp only [Env.apply, Env.cancel]
    refine List.mem_map.2 ⟨e, he, ?_⟩
    unfold Event.cancelIf
    rw [if_neg]
    simp only [beq_iff_eq]
    rw [ha]; exact fun e => hne e.symm

theorem refines_keep {s s' : Env} (h : Refines s s') (e : Event) (he : e ∈ s.events)
    (ha : e.asset = -1) : e ∈ s'.events := by
  obtain ⟨l, hl, rfl⟩ := h
  induction l generalizing s with
  | nil => exact he
  | cons op l ih =>
    rw [applyAll_cons_fst]
    exact ih (lib_apply_keep s (hl op List.mem_cons_self) e he ha)
      (fun o ho => hl o (List.mem_cons_of_mem _ ho))

theorem ChkNow.refines {w w' : World} (h : ChkNow w) (hr : Refines w.env w'.env) : ChkNow w' := by
  obtain ⟨e, he, h1, h2, h3, h4, h5⟩ := h
  have hn : w'.now = w.now := Refines.now hr
  exact ⟨e, refines_keep hr e he h4, h1, by rw [hn]; exact h2, h3, h4, h5⟩

theorem chkNow_schedLib (w : World) :
    ChkNow (w.schedLib w.now (-1) .rmCheck pOtherHigh) := by
  have henv := schedLib_env w w.now (-1) .rmCheck pOtherHigh
  have hs : w.env.schedule w.now (-1) Action.rmCheck.toNat pOtherHigh
      (weightOf w.seed w.wmod w.now (-1) Action.rmCheck.toNat pOtherHigh) =
      some { w.env with
        events := insort (w.env.newEvent w.now (-1) Action.rmCheck.toNat pOtherHigh
          (weightOf w.seed w.wmod w.now (-1) Action.rmCheck.toNat pOtherHigh)) w.env.events
        nextUid := w.env.nextUid + 1 } := by
    unfold Env.schedule
    rw [if_neg]
    unfold World.now; omega
  simp only [Env.apply, hs] at henv
  refine ⟨w.env.newEvent w.now (-1) Action.rmCheck.toNat pOtherHigh
      (weightOf w.seed w.wmod w.now (-1) Action.rmCheck.toNat pOtherHigh), ?_, rfl, ?_, rfl, rfl, rfl⟩
  · rw [henv]; exact insort_mem.2 (Or.inl rfl)
  · show w.now = (w.schedLib w.now (-1) .rmCheck pOtherHigh).env.now
    rw [henv]; rfl

/-! ### the invariant -/

/-- What the invariant reads of a device. -/
def kd (d : Dev) : Int × Bool × Option Req := (d.aid, d.waitingRes, d.resReq)

/-- What `C` observes of a world besides the event queue. -/
def KC (w : World) : RM × List (List Op) × List (Int × Bool × Option Req) :=
  (w.rm, w.scripts, w.devs.map kd)

/-- … and with the event queue. -/
def KK (w : World) : Env × RM × List (List Op) × List (Int × Bool × Option Req) :=
  (w.env, w.rm, w.scripts, w.devs.map kd)

theorem KC_rm {w w' : World} (h : KC w' = KC w) : w'.rm = w.rm := congrArg Prod.fst h
theorem KC_scr {w w' : World} (h : KC w' = KC w) : w'.scripts = w.scripts :=
  congrArg (fun q => q.2.1) h
theorem KC_devs {w w' : World} (h : KC w' = KC w) : w'.devs.map kd = w.devs.map kd :=
  congrArg (fun q => q.2.2) h

theorem kd_dev_of_map {w w' : World} (h : w'.devs.map kd = w.devs.map kd) (y : Nat) :
    kd (w'.dev y) = kd (w.dev y) := by
  unfold World.dev
  rw [← getD_map kd w'.devs y default, ← getD_map kd w.devs y default, h]

theorem KC_kd {w w' : World} (h : KC w' = KC w) (y : Nat) : kd (w'.dev y) = kd (w.dev y) :=
  kd_dev_of_map (KC_devs h) y

theorem kd_waitingRes {d d' : Dev} (h : kd d' = kd d) : d'.waitingRes = d.waitingRes :=
  congrArg (fun q => q.2.1) h
theorem kd_resReq {d d' : Dev} (h : kd d' = kd d) : d'.resReq = d.resReq :=
  congrArg (fun q => q.2.2) h
theorem kd_aid {d d' : Dev} (h : kd d' = kd d) : d'.aid = d.aid := congrArg Prod.fst h

theorem aids_of_map {w w' : World} (h : w'.devs.map kd = w.devs.map kd) :
    w'.devs.map (·.aid) = w.devs.map (·.aid) := by
  have := congrArg (List.map (fun q : Int × Bool × Option Req => q.1)) h
  simpa [List.map_map, kd, Function.comp_def] using this

theorem KK_KC {w w' : World} (h : KK w' = KK w) : KC w' = KC w := congrArg Prod.snd h
theorem KK_env {w w' : World} (h : KK w' = KK w) : w'.env = w.env := congrArg Prod.fst h

theorem KK_EK {w w' : World} (h : KK w' = KK w) : EK w' = EK w := by
  unfold EK
  rw [KK_env h, aids_of_map (KC_devs (KK_KC h)), KC_scr (KK_KC h)]

/-- The processor named by a waiting entry. -/
def procOf : Req × Cb → Option Nat
  | (_, .proc d) => some d
  | (_, .script _) => none

/-- **Shape of the waiting list.** -/
structure WaitOK (w : World) : Prop where
  /-- a processor waits at most once -/
  nodup : (w.rm.waiting.filterMap procOf).Nodup
  /-- a waiting processor has its flag set and waits with its declared request -/
  entry : ∀ e ∈ w.rm.waiting, ∀ d, procOf e = some d →
    (w.dev d).waitingRes = true ∧ (w.dev d).resReq = some e.1
  /-- a processor whose flag is set is in the list -/
  flag : ∀ d, (w.dev d).waitingRes = true → d ∈ w.rm.waiting.filterMap procOf

/-- Constructor calls of the class: a new device does not claim to be waiting for resources. -/
def specOK : AssetSpec → Bool
  | .dev d => !d.waitingRes
  | _ => true

/-- Scripted operations of the class: user operations on the event queue (`C01W.opUser`: no
`sched` at or below the `TERMINATE` priority, no pause / unpause / cancel of the internal asset id
−1), constructor calls as in `specOK`.  Everything else — in particular `register`, `reserve`,
`release`, `merge`, `addRes`, `rewire`, `create` — is allowed. -/
def opC (op : Op) : Bool :=
  opUser op && (match op with | .create s => specOK s | _ => true)

def ScriptsC (w : World) : Prop := ∀ l ∈ w.scripts, ∀ op ∈ l, opC op = true

instance (w : World) : Decidable (ScriptsC w) := by unfold ScriptsC; infer_instance

theorem opC_user {op : Op} (h : opC op = true) : opUser op = true := by
  unfold opC at h
  exact (Bool.and_eq_true_iff.1 h).1

theorem opC_create {s : AssetSpec} (h : opC (.create s) = true) : specOK s = true := by
  unfold opC at h
  exact (Bool.and_eq_true_iff.1 h).2

/-- **The closed-world invariant of C10W.** -/
structure P (w : World) : Prop where
  aid : AidOK w
  scr : ScriptsC w
  wait : WaitOK w

theorem P.good {w : World} (h : P w) : Good w :=
  ⟨h.aid, fun l hl op hop => opC_user (h.scr l hl op hop)⟩

theorem WaitOK.of_KC {w w' : World} (h : WaitOK w) (hk : KC w' = KC w) : WaitOK w' := by
  have hr := KC_rm hk
  refine ⟨by rw [hr]; exact h.nodup, ?_, ?_⟩
  · intro e he d hd
    rw [hr] at he
    obtain ⟨h1, h2⟩ := h.entry e he d hd
    exact ⟨by rw [kd_waitingRes (KC_kd hk d)]; exact h1, by rw [kd_resReq (KC_kd hk d)]; exact h2⟩
  · intro d hd
    rw [kd_waitingRes (KC_kd hk d)] at hd
    rw [hr]; exact h.flag d hd

theorem P.of_KC {w w' : World} (h : P w) (hk : KC w' = KC w) : P w' := by
  refine ⟨?_, ?_, h.wait.of_KC hk⟩
  · unfold AidOK; rw [aids_of_map (KC_devs hk)]; exact h.aid
  · unfold ScriptsC; rw [KC_scr hk]; exact h.scr

/-! ### the relation -/

structure Post (w w' : World) : Prop where
  ref : Refines w.env w'.env
  ini : w.rm.inited = true → w'.rm.inited = true
  pend : w.rm.inited = true →
    ChkNow w' ∨ (w'.rm.waiting = w.rm.waiting ∧ C10.PoolLe w'.rm w.rm)

/-- **The conditional relation.** -/
def C (w w' : World) : Prop := P w → P w' ∧ Post w w'

theorem C.refl (w : World) : C w w := fun h =>
  ⟨h, Refines.refl _, id, fun _ => Or.inr ⟨rfl, C10.PoolLe.refl _⟩⟩

theorem C.trans {a b c : World} (h1 : C a b) (h2 : C b c) : C a c := by
  intro hp
  obtain ⟨p1, q1⟩ := h1 hp
  obtain ⟨p2, q2⟩ := h2 p1
  refine ⟨p2, q1.ref.trans q2.ref, fun hi => q2.ini (q1.ini hi), fun hi => ?_⟩
  rcases q2.pend (q1.ini hi) with hc | ⟨hs2, hl2⟩
  · exact Or.inl hc
  · rcases q1.pend hi with hb | ⟨hs1, hl1⟩
    · exact Or.inl (hb.refines q2.ref)
    · exact Or.inr ⟨hs2.trans hs1, hl2.trans hl1⟩

/-- The invariant of the start state may be used while proving `C`. -/
theorem C.with_P {w w' : World} (h : P w → C w w') : C w w' := fun hp => h hp hp

/-- A function that acts on the event queue through the library and leaves the manager, the
scripts and the devices' keys alone. -/
theorem C.of_via {w w' : World} (hv : Via w w') (hk : KC w' = KC w) : C w w' := fun hp =>
  ⟨hp.of_KC hk, (hv hp.good).2, fun hi => by rw [KC_rm hk]; exact hi,
    fun _ => Or.inr ⟨by rw [KC_rm hk], C10.PoolLe.of_pools (by rw [KC_rm hk])⟩⟩

theorem C.of_KK {w w' : World} (h : KK w' = KK w) : C w w' :=
  C.of_via (Via.of_EK (KK_EK h)) (KK_KC h)

theorem C.trans_KK {a b c : World} (h1 : C a b) (h : KK c = KK b) : C a c :=
  h1.trans (C.of_KK h)

theorem C.of_KK_trans {a b c : World} (h : KK b = KK a) (h2 : C b c) : C a c :=
  (C.of_KK h).trans h2

theorem C.foldl {α} (g : World → α → World) (l : List α) (w : World)
    (h : ∀ w a, C w (g w a)) : C w (l.foldl g w) := by
  induction l generalizing w with
  | nil => exact C.refl w
  | cons a l ih => exact (h w a).trans (ih _)

theorem KK_foldl {α} (g : World → α → World) (l : List α) (w : World)
    (h : ∀ w a, KK (g w a) = KK w) : KK (l.foldl g w) = KK w :=
  foldl_preserve KK g l w h

theorem KC_foldl {α} (g : World → α → World) (l : List α) (w : World)
    (h : ∀ w a, KC (g w a) = KC w) : KC (l.foldl g w) = KC w :=
  foldl_preserve KC g l w h

theorem C.of_fst_eq {α} {w w' : World} {e : World × α} {b : α} (he : C w e.1)
    (h : e = (w', b)) : C w w' := by
  subst h; exact he

/-! ### primitives -/

@[simp] theorem KK_setErr (w : World) (m : String) : KK (w.setErr m) = KK w := by
  unfold setErr; split <;> rfl
@[simp] theorem KK_addRes (w : World) (r : Res) : KK (w.addRes r) = KK w := rfl
@[simp] theorem KK_addRec (w : World) (r : Rec) : KK (w.addRec r) = KK w := rfl
@[simp] theorem KK_modPart (w : World) (p : Nat) (f : PartRec → PartRec) :
    KK (w.modPart p f) = KK w := rfl
@[simp] theorem KK_newPart (w : World) (r : PartRec) : KK (w.newPart r).1 = KK w := rfl

theorem KK_setDev (w : World) (x : Nat) (d : Dev) (h : kd d = kd (w.dev x)) :
    KK (w.setDev x d) = KK w := by
  unfold KK World.setDev
  simp only
  rw [map_set_of_eq kd w.devs x d default h]

theorem KK_modDev (w : World) (x : Nat) (f : Dev → Dev) (h : kd (f (w.dev x)) = kd (w.dev x)) :
    KK (w.modDev x f) = KK w := KK_setDev w x _ h

theorem C_setDev (w : World) (x : Nat) (d : Dev) (h : kd d = kd (w.dev x)) : C w (w.setDev x d) :=
  C.of_KK (KK_setDev w x d h)

theorem C_modDev (w : World) (x : Nat) (f : Dev → Dev) (h : kd (f (w.dev x)) = kd (w.dev x)) :
    C w (w.modDev x f) := C.of_KK (KK_modDev w x f h)

theorem KC_sched (w : World) (t a : Int) (act : Action) (p : Int) :
    KC (w.sched t a act p).1 = KC w := by
  unfold World.sched
  simp only [Env.apply]
  cases w.env.schedule t a act.toNat p (weightOf w.seed w.wmod t a act.toNat p) <;> rfl

theorem KC_setErr (w : World) (m : String) : KC (w.setErr m) = KC w := KK_KC (KK_setErr w m)

theorem KC_schedLib (w : World) (t a : Int) (act : Action) (p : Int) :
    KC (w.schedLib t a act p) = KC w := by
  unfold schedLib
  have h := KC_sched w t a act p
  generalize w.sched t a act p = s at h ⊢
  obtain ⟨w', r⟩ := s
  cases r <;> simp only [] <;> first | exact h | (rw [KC_setErr]; exact h)

theorem C_sched (w : World) (t a : Int) (act : Action) (p : Int)
    (ha : act ≠ .terminate) (hp : prioTerminate < p) : C w (w.sched t a act p).1 :=
  C.of_via (Via_sched w t a act p ha hp) (KC_sched w t a act p)

theorem C_schedLib (w : World) (t a : Int) (act : Action) (p : Int)
    (ha : act ≠ .terminate) (hp : prioTerminate < p) : C w (w.schedLib t a act p) :=
  C.of_via (Via_schedLib w t a act p ha hp) (KC_schedLib w t a act p)

theorem C_envOp (w : World) (op : EnvOp) (h : LibOp op) : C w (w.envOp op) :=
  C.of_via (Via_envOp w op h) rfl

theorem KC_rmEffects (w : World) (recs : List ResRec) (chk : Bool) :
    KC (w.rmEffects recs chk) = KC w := by
  unfold rmEffects
  dsimp only
  have h : KC (recs.foldl (fun w r => w.addRec (.resUpdate r.res w.now r.inUse r.cap)) w) = KC w :=
    KC_foldl _ _ _ (fun _ _ => rfl)
  split
  · rw [KC_schedLib, h]
  · exact h

theorem C_rmEffects (w : World) (recs : List ResRec) (chk : Bool) : C w (w.rmEffects recs chk) :=
  C.of_via (Via_rmEffects w recs chk) (KC_rmEffects w recs chk)

theorem chkNow_rmEffects (w : World) (recs : List ResRec) : ChkNow (w.rmEffects recs true) := by
  unfold rmEffects
  dsimp only
  rw [if_pos rfl]
  exact chkNow_schedLib _

/-! ### operations of the manager -/

/-- What a manager operation (other than the check, and other than a processor's registration) does:
it appends only script requests, keeps the manager initialised, and — on an initialised manager —
asks for a check unless it leaves the waiting list alone and frees nothing. -/
structure RmC (rm rm' : RM) (chk : Bool) : Prop where
  wapp : ∃ l, rm'.waiting = rm.waiting ++ l ∧ ∀ e ∈ l, procOf e = none
  ini : rm.inited = true → rm'.inited = true
  pend : rm.inited = true → chk = true ∨ (rm'.waiting = rm.waiting ∧ C10.PoolLe rm' rm)

theorem WaitOK.append {w w' : World} (h : WaitOK w) (hd : w'.devs.map kd = w.devs.map kd)
    (l : List (Req × Cb)) (hw : w'.rm.waiting = w.rm.waiting ++ l) (hl : ∀ e ∈ l, procOf e = none) :
    WaitOK w' := by
  have hf : w'.rm.waiting.filterMap procOf = w.rm.waiting.filterMap procOf := by
    rw [hw, List.filterMap_append]
    have : l.filterMap procOf = [] := by
      rw [List.filterMap_eq_nil_iff]; exact hl
    rw [this, List.append_nil]
  refine ⟨by rw [hf]; exact h.nodup, ?_, ?_⟩
  · intro e he d hd'
    rw [hw] at he
    rcases List.mem_append.1 he with he | he
    · obtain ⟨h1, h2⟩ := h.entry e he d hd'
      exact ⟨by rw [kd_waitingRes (kd_dev_of_map hd d)]; exact h1,
        by rw [kd_resReq (kd_dev_of_map hd d)]; exact h2⟩
    · rw [hl e he] at hd'; cases hd'
  · intro d hd'
    rw [kd_waitingRes (kd_dev_of_map hd d)] at hd'
    rw [hf]; exact h.flag d hd'

/-- One operation of the manager together with its effects (records, check). -/
theorem C_rmStep (w : World) (rm' : RM) (recs : List ResRec) (chk : Bool)
    (h : RmC w.rm rm' chk) : C w (({ w with rm := rm' } : World).rmEffects recs chk) := by
  intro hp
  have hk := KC_rmEffects ({ w with rm := rm' } : World) recs chk
  have hd : (({ w with rm := rm' } : World).rmEffects recs chk).devs.map kd = w.devs.map kd :=
    KC_devs (w := ({ w with rm := rm' } : World)) hk
  have hs : (({ w with rm := rm' } : World).rmEffects recs chk).scripts = w.scripts :=
    KC_scr (w := ({ w with rm := rm' } : World)) hk
  have hr : (({ w with rm := rm' } : World).rmEffects recs chk).rm = rm' :=
    KC_rm (w := ({ w with rm := rm' } : World)) hk
  have g0 : Good ({ w with rm := rm' } : World) := ⟨hp.good.aid, hp.good.scr⟩
  obtain ⟨l, hl, hlp⟩ := h.wapp
  refine ⟨⟨?_, ?_, ?_⟩, (Via_rmEffects _ recs chk g0).2, ?_, ?_⟩
  · unfold AidOK; rw [aids_of_map hd]; exact hp.aid
  · unfold ScriptsC; rw [hs]; exact hp.scr
  · exact hp.wait.append hd l (by rw [hr]; exact hl) hlp
  · intro hi; rw [hr]; exact h.ini hi
  · intro hi
    rcases h.pend hi with hc | ⟨h1, h2⟩
    · left; subst hc; exact chkNow_rmEffects _ _
    · right; rw [hr]; exact ⟨h1, h2⟩

/-- An operation of the manager without effects (`merge`). -/
theorem C_rmSet (w : World) (rm' : RM) (h : RmC w.rm rm' false) :
    C w ({ w with rm := rm' } : World) := by
  have := C_rmStep w rm' [] false h
  exact this

theorem apply_waiting_script (rm : RM) (op : RMOp) (h : ∀ req d, op ≠ .register req (.proc d)) :
    ∃ l, (rm.apply op).1.waiting = rm.waiting ++ l ∧ ∀ e ∈ l, procOf e = none := by
  cases op with
  | init => exact ⟨[], by simp [C10.apply_init], by simp⟩
  | add r amt =>
    refine ⟨[], ?_, by simp⟩
    simp only [RM.apply, List.append_nil]
    rcases C10.add_cases rm r amt with ⟨h, _⟩ | ⟨_, _, _, v, hv⟩
    · rw [h]
    · rw [hv]; simp
  | reserve req => exact ⟨[], by simp [RM.apply, (C10.reserve_spec rm req).1], by simp⟩
  | release id part =>
    refine ⟨[], ?_, by simp⟩
    simp only [RM.apply, List.append_nil]
    rcases C10.release_cases rm id part with ⟨h, _⟩ | ⟨_, _, hw, _⟩
    · rw [h]
    · exact hw
  | merge a b => exact ⟨[], by simp [RM.apply, (C10.merge_spec rm a b).1], by simp⟩
  | register req cb =>
    refine ⟨[(req, cb)], rfl, ?_⟩
    intro e he
    have : e = (req, cb) := by simpa using he
    subst this
    cases cb with
    | script k => rfl
    | proc d => exact absurd rfl (h req d)

theorem RmC.apply (rm : RM) (op : RMOp) (h : ∀ req d, op ≠ .register req (.proc d)) :
    RmC rm (rm.apply op).1 (rm.apply op).2.2 := by
  refine ⟨apply_waiting_script rm op h, C10.apply_inited_mono rm op, fun hi => ?_⟩
  cases hc : (rm.apply op).2.2 with
  | true => exact Or.inl rfl
  | false => exact Or.inr (C10.feasible_mono rm op hi hc)

theorem RmC.add (rm : RM) (r : Nat) (amt : Int) :
    RmC rm (rm.add r amt).1 (rm.add r amt).2.2.2 :=
  RmC.apply rm (.add r amt) (fun _ _ h => by cases h)
theorem RmC.reserve (rm : RM) (req : Req) : RmC rm (rm.reserve req).1 false :=
  RmC.apply rm (.reserve req) (fun _ _ h => by cases h)
theorem RmC.release (rm : RM) (id : Nat) (part : Option Req) :
    RmC rm (rm.release id part).1 (rm.release id part).2.2.2 :=
  RmC.apply rm (.release id part) (fun _ _ h => by cases h)
theorem RmC.merge (rm : RM) (a b : Nat) : RmC rm (rm.merge a b).1 false :=
  RmC.apply rm (.merge a b) (fun _ _ h => by cases h)
theorem RmC.register (rm : RM) (req : Req) (k : Nat) :
    RmC rm (rm.register req (.script k)).1 (rm.register req (.script k)).2 :=
  RmC.apply rm (.register req (.script k)) (fun _ _ h => by cases h)

/-! ### the peeling tactic -/

/-- Peel a structure update `{ w with f := v, … }` that leaves `env`, `rm`, `scripts` and `devs`
alone. -/
elab "c_struct" : tactic => do
  let g ← getMainGoal
  g.withContext do
    let t ← instantiateMVars (← g.getType)
    let_expr C a b := t.consumeMData | throwError "c_struct: not a C goal"
    let b := b.consumeMData
    unless b.isAppOfArity ``World.mk 23 do throwError "c_struct: not a structure instance"
    let r := b.getArg! 1
    let w0 ← match r with
      | .proj _ _ w0 => pure w0
      | _ =>
        if r.isAppOfArity ``World.seed 1 then pure (r.getArg! 0)
        else throwError "c_struct: the seed is changed"
    let newGoal ← mkFreshExprSyntheticOpaqueMVar (← mkAppM ``C #[a, w0])
    let eq ← mkEq (← mkAppM ``KK #[b]) (← mkAppM ``KK #[w0])
    let pf ← mkFreshExprMVar eq
    pf.mvarId!.refl
    g.assign (mkApp5 (mkConst ``C.trans_KK) a w0 b newGoal pf)
    replaceMainGoal [newGoal.mvarId!]

syntax "c_step" : tactic

macro "c_auto" : tactic => `(tactic| repeat' first | c_step | split)

macro "c_side" : tactic =>
  `(tactic| first
    | exact rfl
    | assumption
    | decide
    | (intro h; cases h))

macro_rules | `(tactic| c_step) => `(tactic| c_struct)
macro_rules | `(tactic| c_step) => `(tactic|
  ((with_reducible apply C.trans (h2 := C.foldl _ _ _ ?hs)); case hs => (intro _ _; c_auto; done)))
macro_rules | `(tactic| c_step) => `(tactic| with_reducible apply C.trans (h2 := C_rmEffects _ _ _))
macro_rules | `(tactic| c_step) => `(tactic|
  ((with_reducible apply C.trans (h2 := C_envOp _ _ ?hop)); case hop => c_side))
macro_rules | `(tactic| c_step) => `(tactic|
  ((with_reducible apply C.trans (h2 := C_schedLib _ _ _ _ _ ?ha ?hp));
   case ha => c_side
   case hp => c_side))
macro_rules | `(tactic| c_step) => `(tactic| with_reducible apply C.trans_KK (h := KK_setErr _ _))
macro_rules | `(tactic| c_step) => `(tactic| with_reducible apply C.trans_KK (h := KK_addRes _ _))
macro_rules | `(tactic| c_step) => `(tactic| with_reducible apply C.trans_KK (h := KK_addRec _ _))
macro_rules | `(tactic| c_step) => `(tactic| with_reducible apply C.trans_KK (h := KK_modPart _ _ _))
macro_rules | `(tactic| c_step) => `(tactic| with_reducible apply C.trans_KK (h := KK_newPart _ _))
macro_rules | `(tactic| c_step) => `(tactic|
  ((with_reducible apply C.trans (h2 := C_modDev _ _ _ ?hp)); case hp => exact rfl))
macro_rules | `(tactic| c_step) => `(tactic|
  ((with_reducible apply C.trans (h2 := C_setDev _ _ _ ?hp)); case hp => exact rfl))
macro_rules | `(tactic| c_step) => `(tactic| with_reducible exact C.refl _)

macro "c_heq " t:term : tactic =>
  `(tactic| (rename_i heq; with_reducible apply C.trans (h2 := C.of_fst_eq $t heq)))

end C10W
end SimProc
