/-
C03W with re-wiring — stages A, B, C: the auxiliary invariants of the resource theorems (`C11W.Inv`)
and of the batcher / conservation theorems (`C17W.CI`) are not disturbed by `rewire`, so that the
closed-world invariant `GoodB` survives a re-wiring issued FROM OUTSIDE between two events
(`GoodB.rewireD`).  (The classes of `C11W` / `C17W` do not admit `rewire` in SCRIPTS.)
-/
import SimProc.Proofs.C03XRes
import SimProc.Proofs.C03YRewire
import SimProc.Proofs.C05WViews

namespace SimProc
namespace C03W
open World FloorCoreL C03 C02V

/-! ### the resource invariant -/

theorem monoS_rewireStep (x : Nat) (w : World) (u : Nat) : C11W.MonoS w (rewireStep x w u) := by
  unfold rewireStep
  split
  · exact C11W.MonoS.refl w
  · dsimp only
    have h1 : C11W.MonoS w (w.modDev u (fun du => { du with down := du.down ++ [x] })) :=
      C11W.monoS_modDev w u _ rfl (fun _ => rfl)
    split
    · exact h1.trans (C11W.monoS_spaceAvailable _ u)
    · exact h1

theorem monoS_foldl {α} (g : World → α → World) (hg : ∀ w a, C11W.MonoS w (g w a)) (l : List α)
    (w : World) : C11W.MonoS w (l.foldl g w) := by
  induction l generalizing w with
  | nil => exact C11W.MonoS.refl w
  | cons a l ih => exact (hg w a).trans (ih (g w a))

theorem monoS_downErase (w : World) (u x : Nat) :
    C11W.MonoS w (w.modDev u (fun du => { du with down := du.down.erase x })) :=
  C11W.monoS_modDev w u _ rfl (fun _ => rfl)

theorem monoS_setUp (w : World) (x : Nat) (ups : List Nat) :
    C11W.MonoS w (w.modDev x (fun d => { d with up := ups })) :=
  C11W.monoS_modDev w x _ rfl (fun _ => rfl)

theorem monoS_rewireClock (w : World) (x : Nat) : C11W.MonoS w (rewireClock w x) := by
  unfold rewireClock
  split
  · exact C11W.monoS_setWaiting w x true true
  · exact C11W.MonoS.refl w

theorem monoS_rewireWire (w : World) (x : Nat) (ups : List Nat) :
    C11W.MonoS w (rewireWire w x ups) := by
  unfold rewireWire eraseFold
  exact (monoS_foldl _ (fun w u => monoS_downErase w u x) _ w).trans (monoS_setUp _ x ups)

theorem monoS_rewire (w : World) (x : Nat) (ups : List Nat) : C11W.MonoS w (w.rewire x ups) := by
  rw [rewire_eq_fold]
  exact ((monoS_rewireClock w x).trans (monoS_rewireWire _ x ups)).trans
    (monoS_foldl _ (fun w u => monoS_rewireStep x w u) ups _)

/-- **The resource invariant of C11W is not disturbed by a re-wiring.** -/
theorem inv11_rewire {w : World} (h : C11W.Inv w) (x : Nat) (ups : List Nat) :
    C11W.Inv (w.rewire x ups) :=
  h.mono (monoS_rewire w x ups).toMono

/-! ### the batcher / conservation invariant -/

theorem bv_rewireStep (x : Nat) (w : World) (u : Nat) :
    C05W.bv (rewireStep x w u) = C05W.bv w := by
  unfold rewireStep
  split
  · rfl
  · dsimp only
    have h1 : C05W.bv (w.modDev u (fun du => { du with down := du.down ++ [x] })) = C05W.bv w :=
      C05W.bv_modDev_same w u _ (fun _ => rfl)
    split
    · exact (C05W.bv_spaceAvailable _ u).trans h1
    · exact h1

theorem bv_downErase (w : World) (u x : Nat) :
    C05W.bv (w.modDev u (fun du => { du with down := du.down.erase x })) = C05W.bv w :=
  C05W.bv_modDev_same w u _ (fun _ => rfl)

theorem bv_setUp (w : World) (x : Nat) (ups : List Nat) :
    C05W.bv (w.modDev x (fun d => { d with up := ups })) = C05W.bv w :=
  C05W.bv_modDev_same w x _ (fun _ => rfl)

theorem bv_rewire (w : World) (x : Nat) (ups : List Nat) :
    C05W.bv (w.rewire x ups) = C05W.bv w := by
  rw [rewire_eq_fold, foldl_proj C05W.bv _ _ _ (fun w u => bv_rewireStep x w u)]
  unfold rewireWire eraseFold
  rw [bv_setUp, foldl_proj C05W.bv _ _ _ (fun w u => bv_downErase w u x)]
  unfold rewireClock
  split
  · exact C05W.bv_setWaiting w x true true
  · rfl


theorem parts_rewire (w : World) (x : Nat) (ups : List Nat) : (w.rewire x ups).parts = w.parts := by
  unfold World.rewire
  dsimp only
  rw [FloorCoreL.foldl_preserve World.parts]
  · rw [modDev_parts, FloorCoreL.foldl_preserve World.parts]
    · split
      · exact setWaiting_parts ..
      · rfl
    · intro s a; exact modDev_parts ..
  · intro s a
    split
    · rfl
    · split
      · rw [core_eq_parts (spaceAvailable_core _ _)]; exact modDev_parts ..
      · exact modDev_parts ..

theorem kind_rewire (w : World) (x : Nat) (ups : List Nat) (y : Nat) :
    ((w.rewire x ups).dev y).kind = (w.dev y).kind :=
  stat0_kind (stat0_of_swr (swr_rewire w x ups) y)

theorem scrB_of_kind {w w' : World} (hs : w'.scripts = w.scripts)
    (hk : ∀ y, (w'.dev y).kind = (w.dev y).kind) (h : ScrB w) : ScrB w' := by
  intro l hl op hop
  rw [hs] at hl
  have := h l hl op hop
  cases op <;> simp only [OpB] at this ⊢ <;> first | trivial | (rw [hk]; exact this)

theorem sizesPos_of_swr {w w' : World} (e : swr w' = swr w) (h : C17W.SizesPos w) :
    C17W.SizesPos w' := by
  have h1 : w'.devs.map stat0 = w.devs.map stat0 := congrArg Prod.fst e
  intro d hd n hn
  have hm : stat0 d ∈ w'.devs.map stat0 := List.mem_map.mpr ⟨d, hd, rfl⟩
  rw [h1] at hm
  obtain ⟨d0, hd0, hs⟩ := List.mem_map.mp hm
  refine h d0 hd0 n ?_
  rw [stat0_bsize hs]; exact hn

/-- **The invariant of C17W (conservation, static well-formedness, batchers) is not disturbed by a
re-wiring** after which the world is in the scope. -/
theorem ci_rewire {w : World} (h : C17W.CI w) (x : Nat) (ups : List Nat)
    (hsc : SC (w.rewire x ups)) (hnr : NR w) (hb : ScrB w) (hev : EvOK (w.rewire x ups)) :
    C17W.CI (w.rewire x ups) := by
  have hscr : (w.rewire x ups).scripts = w.scripts := scr_rewire w x ups
  refine ⟨h.inv.of_sv (sv_rewire w x ups),
    static_of hsc (hnr.of_scripts hscr) (scrB_of_kind hscr (kind_rewire w x ups) hb) hev,
    C17W.batAll_of_frame (kind_rewire w x ups) (sv_rewire w x ups) (bv_rewire w x ups) h.bat⟩

/-! ### the closed-world invariant of stages A, B, C -/

/-- **A re-wiring issued from outside** (between two events) preserves the invariant of stages A, B
and C, if it is admissible (`RewOK`), the re-wired world is in the scope again, every device has
been initialised (`Ini`), the scripts do not re-wire, and — if batchers, batches or group devices
exist — the scripts schedule failures of non-sinks only. -/
theorem GoodB.rewireD {w : World} (h : GoodB w) (hi : Ini w) (hnr : NR w)
    (hb : ¬ NoBatch w → ScrB w) (x : Nat) (ups : List Nat) (hok : RewOK w x ups)
    (hfin : SC (w.rewire x ups))
    (hty : ¬ OneGrp w → ∀ cl, C03Z.Typed cl w → C03Z.Typed cl (w.rewire x ups)) :
    GoodB (w.rewire x ups) ∧ Ini (w.rewire x ups) := by
  have hg := h.g.rewireD x ups hok hfin (fun z hz => hi.inited hz)
  have r : swr (w.rewire x ups) = swr w := swr_rewire w x ups
  have hi' : Ini (w.rewire x ups) := by
    obtain ⟨h1, h2, _⟩ := C20W.Pv_applyOp w (.rewire x ups) rfl hi.1
    exact ⟨h1, h2.trans hi.2⟩
  refine ⟨⟨hg, fun hr => inv11_rewire (h.r (by rw [← hasRes_of_swr r]; exact hr)) x ups,
    fun hn => ?_, Or.inr hi', ?_⟩, hi'⟩
  · have hn0 : ¬ NoBatch w := fun hb0 => hn ((noBatch_of_swr r).mpr hb0)
    exact ci_rewire (h.c hn0) x ups hfin hnr (hb hn0) hg.ev
  · have hl : (w.rewire x ups).devs.length = w.devs.length := by
      have := congrArg (fun t => t.1.length) r
      simpa [swr] using this
    exact h.k.of_kinds hl (kind_rewire w x ups) (fun y => stat0_group (stat0_of_swr r y))
      (congrArg (fun t => t.2.2) r) (sv_rewire w x ups) (parts_rewire w x ups) (scr_rewire w x ups) hty

theorem sd_of_swr {w w' : World} (e : swr w' = swr w) : sd w' = sd w := by
  have h1 : w'.devs.map stat0 = w.devs.map stat0 := congrArg Prod.fst e
  have key : ∀ v : World, sd v = (v.devs.map stat0).map C11W.statD := by
    intro v
    unfold sd
    rw [List.map_map]
    rfl
  rw [key, key, h1]

/-- the scope of stage C survives an admissible re-wiring after which the world is in `SC` -/
theorem S4.rewire {w : World} (h : S4 w) (x : Nat) (ups : List Nat) (hfin : SC (w.rewire x ups)) :
    S4 (w.rewire x ups) := by
  have r : swr (w.rewire x ups) = swr w := swr_rewire w x ups
  have hscr : (w.rewire x ups).scripts = w.scripts := scr_rewire w x ups
  refine ⟨⟨hfin, h.1.2.of_scripts hscr⟩, fun hr => ?_, fun hn => ?_, oneGrp_of_swr h.2.2.2 r⟩
  · exact (h.2.1 (by rw [← hasRes_of_swr r]; exact hr)).of_ss ⟨sd_of_swr r, hscr⟩
  · have := h.2.2.1 (fun hb => hn ((noBatch_of_swr r).mpr hb))
    exact ⟨scrB_of_kind hscr (kind_rewire w x ups) this.1, sizesPos_of_swr r this.2⟩

end C03W
end SimProc
