/-
Machinery for the closed-world version of C11 / C10 (`Props/C11W.lean`), part 1:
the static class `S`, fresh worlds `FreshR`, live queue entries `QueuedL`, and the "benign step"
relations `EnvMono`, `Mono0`, `MonoS`, `MonoX`, `Mono` with their primitive instances.

A benign step keeps the resource manager, the scripts, the clock, the paused events and of every
device the tuple `Dev.resA` (reserved, resReq, waitingRes, kind, aid, shutDown); it only ADDS
events to the queue, none of which is a `finishCycle x` / `releaseIfIdle x` event of a processor
that is shut down or carries a foreign asset id; and it leaves the part in process of every
processor alone (`MonoS`), or takes it away from an operational processor (`Mono0`), in which case
`Mono` additionally asks for the RELEASE event to be queued.
-/
import SimProc.Props.C11
import SimProc.Props.C10

namespace SimProc
namespace C11W
open World FloorCoreL

/-! ### action codes -/

/-- the decoded action of an event -/
def evAct (e : Event) : Action := Action.ofNat e.act

theorem ofNat_toNat_finishCycle (a : Action) (d : Nat) (h : Action.ofNat a.toNat = .finishCycle d) :
    a = .finishCycle d := by
  cases a with
  | terminate => simp [Action.toNat, Action.ofNat] at h
  | script k =>
    have : (1 + 16 * k) % 16 = 1 := by omega
    simp [Action.toNat, Action.ofNat, this] at h
  | finishCycle k =>
    have h1 : (2 + 16 * k) % 16 = 2 := by omega
    have h2 : (2 + 16 * k) / 16 = k := by omega
    simp [Action.toNat, Action.ofNat, h1, h2] at h
    rw [h]
  | passPart k =>
    have : (3 + 16 * k) % 16 = 3 := by omega
    simp [Action.toNat, Action.ofNat, this] at h
  | fail k =>
    have : (4 + 16 * k) % 16 = 4 := by omega
    simp [Action.toNat, Action.ofNat, this] at h
  | releaseIfIdle k =>
    have : (5 + 16 * k) % 16 = 5 := by omega
    simp [Action.toNat, Action.ofNat, this] at h
  | rmCheck => simp [Action.toNat, Action.ofNat] at h
  | startWork m o =>
    have : (7 + 16 * (m + 256 * o)) % 16 = 7 := by omega
    simp [Action.toNat, Action.ofNat, this] at h
  | finishWork m o =>
    have : (8 + 16 * (m + 256 * o)) % 16 = 8 := by omega
    simp [Action.toNat, Action.ofNat, this] at h
  | schedUpdate k =>
    have : (9 + 16 * k) % 16 = 9 := by omega
    simp [Action.toNat, Action.ofNat, this] at h
  | periodicSense k =>
    have : (10 + 16 * k) % 16 = 10 := by omega
    simp [Action.toNat, Action.ofNat, this] at h
  | unknown k =>
    have : (15 + 16 * k) % 16 = 15 := by omega
    simp [Action.toNat, Action.ofNat, this] at h

theorem ofNat_toNat_releaseIfIdle (a : Action) (d : Nat)
    (h : Action.ofNat a.toNat = .releaseIfIdle d) : a = .releaseIfIdle d := by
  cases a with
  | terminate => simp [Action.toNat, Action.ofNat] at h
  | script k =>
    have : (1 + 16 * k) % 16 = 1 := by omega
    simp [Action.toNat, Action.ofNat, this] at h
  | finishCycle k =>
    have : (2 + 16 * k) % 16 = 2 := by omega
    simp [Action.toNat, Action.ofNat, this] at h
  | passPart k =>
    have : (3 + 16 * k) % 16 = 3 := by omega
    simp [Action.toNat, Action.ofNat, this] at h
  | fail k =>
    have : (4 + 16 * k) % 16 = 4 := by omega
    simp [Action.toNat, Action.ofNat, this] at h
  | releaseIfIdle k =>
    have h1 : (5 + 16 * k) % 16 = 5 := by omega
    have h2 : (5 + 16 * k) / 16 = k := by omega
    simp [Action.toNat, Action.ofNat, h1, h2] at h
    rw [h]
  | rmCheck => simp [Action.toNat, Action.ofNat] at h
  | startWork m o =>
    have : (7 + 16 * (m + 256 * o)) % 16 = 7 := by omega
    simp [Action.toNat, Action.ofNat, this] at h
  | finishWork m o =>
    have : (8 + 16 * (m + 256 * o)) % 16 = 8 := by omega
    simp [Action.toNat, Action.ofNat, this] at h
  | schedUpdate k =>
    have : (9 + 16 * k) % 16 = 9 := by omega
    simp [Action.toNat, Action.ofNat, this] at h
  | periodicSense k =>
    have : (10 + 16 * k) % 16 = 10 := by omega
    simp [Action.toNat, Action.ofNat, this] at h
  | unknown k =>
    have : (15 + 16 * k) % 16 = 15 := by omega
    simp [Action.toNat, Action.ofNat, this] at h

theorem ofNat_releaseIfIdle (d : Nat) :
    Action.ofNat (Action.releaseIfIdle d).toNat = .releaseIfIdle d := by
  have h1 : (5 + 16 * d) % 16 = 5 := by omega
  have h2 : (5 + 16 * d) / 16 = d := by omega
  simp [Action.toNat, Action.ofNat, h1, h2]

theorem ofNat_rmCheck : Action.ofNat Action.rmCheck.toNat = .rmCheck := by
  simp [Action.toNat, Action.ofNat]

/-- The action `a` is not a `finishCycle` / `releaseIfIdle` of anybody. -/
def Plain (a : Action) : Prop := ∀ x, a ≠ .finishCycle x ∧ a ≠ .releaseIfIdle x

/-! ### the static class -/

/-- The static data of a device. -/
def statD (d : Dev) : Kind × Int × Option Req := (d.kind, d.aid, d.resReq)

/-- A declared requirement is a dictionary with non-negative amounts. -/
def reqOK (r : Req) : Bool := decide ((r.map (·.1)).Nodup) && r.all (fun e => decide (0 ≤ e.2))

/-- Scripted operations of the class: no rewiring / creation, no direct operations on
reservations (capacity changes `addRes` are allowed), and `pause` / `unpause` / `cancel` only for
asset ids that are neither a device's nor the resource manager's (−1). -/
def opOK (aids : List Int) : Op → Bool
  | .rewire _ _ => false
  | .create _ => false
  | .reserve _ _ => false
  | .release _ _ => false
  | .merge _ _ => false
  | .register _ _ => false
  | .pause a => decide (a ≠ -1) && !aids.contains a
  | .unpause a => decide (a ≠ -1) && !aids.contains a
  | .cancel a => decide (a ≠ -1) && !aids.contains a
  | _ => true

def SB (scripts : List (List Op)) (ds : List (Kind × Int × Option Req)) : Bool :=
  scripts.all (fun l => l.all (opOK (ds.map (·.2.1)))) &&
  ds.all (fun d => match d.2.2 with | none => true | some r => reqOK r) &&
  decide ((ds.map (·.2.1)).Nodup) && ds.all (fun d => decide (0 < d.2.1)) &&
  decide (ds.length < 10000)

/-- **The static class.**  Scripts as in `opOK`; every declared requirement is a dictionary with
non-negative amounts; device asset ids are positive and pairwise distinct; fewer than 10000
devices (the fuel of the model's `_check_pending_requests` loop — the Python loop is unbounded). -/
def S (w : World) : Prop := SB w.scripts (w.devs.map statD) = true

instance : DecidablePred S := fun _ => inferInstanceAs (Decidable (SB _ _ = true))

theorem S.scripts {w : World} (h : S w) :
    ∀ l ∈ w.scripts, ∀ op ∈ l, opOK (w.devs.map (·.aid)) op = true := by
  unfold S SB at h
  simp only [Bool.and_eq_true, List.all_eq_true, List.map_map] at h
  intro l hl op hop
  exact h.1.1.1.1 l hl op hop

theorem S.req {w : World} (h : S w) (x : Nat) (req : Req) (hr : (w.dev x).resReq = some req) :
    C09.NodupKeys req ∧ ∀ e ∈ req, 0 ≤ e.2 := by
  unfold S SB at h
  simp only [Bool.and_eq_true, List.all_eq_true, List.map_map] at h
  have hx := valid_of_resReq hr
  have hm : statD (w.dev x) ∈ w.devs.map statD := by
    refine List.mem_map.2 ⟨w.dev x, ?_, rfl⟩
    unfold World.dev
    rw [List.getD_eq_getElem?_getD, List.getElem?_eq_getElem hx]
    exact List.getElem_mem hx
  have := h.1.1.1.2 _ hm
  simp only [statD, hr, reqOK, Bool.and_eq_true, decide_eq_true_eq, List.all_eq_true] at this
  exact this

theorem mem_devs_of_lt {w : World} {x : Nat} (hx : x < w.devs.length) : w.dev x ∈ w.devs := by
  unfold World.dev
  rw [List.getD_eq_getElem?_getD, List.getElem?_eq_getElem hx]
  exact List.getElem_mem hx

theorem S.aid_pos {w : World} (h : S w) (x : Nat) (hx : x < w.devs.length) : 0 < (w.dev x).aid := by
  unfold S SB at h
  simp only [Bool.and_eq_true, List.all_eq_true, List.map_map, decide_eq_true_eq] at h
  have := h.1.2 (statD (w.dev x)) (List.mem_map.2 ⟨_, mem_devs_of_lt hx, rfl⟩)
  exact this

theorem S.aid_inj {w : World} (h : S w) (x y : Nat) (hx : x < w.devs.length)
    (hy : y < w.devs.length) (he : (w.dev x).aid = (w.dev y).aid) : x = y := by
  unfold S SB at h
  simp only [Bool.and_eq_true, List.all_eq_true, List.map_map, decide_eq_true_eq] at h
  have hn : (w.devs.map (fun d => d.aid)).Nodup := h.1.1.2
  have h1 : (w.devs.map (fun d => d.aid))[x]'(by simpa using hx) = (w.dev x).aid := by
    simp [World.dev, List.getD_eq_getElem?_getD, hx]
  have h2 : (w.devs.map (fun d => d.aid))[y]'(by simpa using hy) = (w.dev y).aid := by
    simp [World.dev, List.getD_eq_getElem?_getD, hy]
  exact (List.getElem_inj hn).1 (by rw [h1, h2, he])

theorem S.aid_mem {w : World} (x : Nat) (hx : x < w.devs.length) :
    (w.dev x).aid ∈ w.devs.map (·.aid) :=
  List.mem_map.2 ⟨_, mem_devs_of_lt hx, rfl⟩

theorem S.len {w : World} (h : S w) : w.devs.length < 10000 := by
  unfold S SB at h
  simp only [Bool.and_eq_true, List.all_eq_true, List.map_map, decide_eq_true_eq] at h
  simpa using h.2

/-- A device out of range is the default handler. -/
theorem lt_of_processor {w : World} {x : Nat} (h : (w.dev x).kind = .processor) :
    x < w.devs.length := by
  apply Nat.lt_of_not_le
  intro hle
  rw [dev_of_length_le hle] at h
  cases h

theorem S.of_eq {w w' : World} (h : S w) (hs : w'.scripts = w.scripts)
    (hd : w'.devs.map statD = w.devs.map statD) : S w' := by
  unfold S; rw [hs, hd]; exact h

/-! ### live queue entries -/

/-- A live (not cancelled) event with the given action, time, priority and asset is in the queue.
(Unlike `World.Queued` nothing is said about `pausedAt`: an event that was paused and resumed keeps
its last pause time.) -/
def QueuedL (w : World) (act : Action) (t prio asset : Int) : Prop :=
  ∃ e ∈ w.env.events, e.act = act.toNat ∧ e.time = t ∧ e.prio = prio ∧ e.asset = asset ∧
    e.cancelled = false

theorem QueuedL.of_queued {w : World} {act : Action} {t prio asset : Int}
    (h : Queued w act t prio asset) : QueuedL w act t prio asset := by
  obtain ⟨e, he, h1, h2, h3, h4, h5, _⟩ := h
  exact ⟨e, he, h1, h2, h3, h4, h5⟩

/-! ### benign steps -/

/-- A new event is harmless: if it is the `finishCycle` / `releaseIfIdle` of a processor, it carries
that processor's asset id and the processor is not shut down. -/
def NewOK (w : World) (e : Event) : Prop :=
  ∀ x, (w.dev x).kind = .processor → (evAct e = .finishCycle x ∨ evAct e = .releaseIfIdle x) →
    e.asset = (w.dev x).aid ∧ (w.dev x).shutDown = false

theorem NewOK.of_plain (w : World) {e : Event} (h : Plain (evAct e)) : NewOK w e := by
  intro x _ hx
  rcases hx with hx | hx
  · exact absurd hx (h x).1
  · exact absurd hx (h x).2

/-- The event part of a benign step. -/
structure EnvMono (w w' : World) : Prop where
  now : w'.env.now = w.env.now
  paused : w'.env.paused = w.env.paused
  evOld : ∀ e ∈ w.env.events, e ∈ w'.env.events
  evNew : ∀ e ∈ w'.env.events, e ∈ w.env.events ∨ NewOK w e
  q : C01.Inv w.env → C01.Inv w'.env

theorem EnvMono.of_env_eq {w w' : World} (h : w'.env = w.env) : EnvMono w w' := by
  refine ⟨by rw [h], by rw [h], ?_, ?_, ?_⟩
  · intro e he; rw [h]; exact he
  · intro e he; rw [h] at he; exact Or.inl he
  · intro hq; rw [h]; exact hq

theorem QueuedL.mono {w w' : World} (h : EnvMono w w') {act : Action} {t prio asset : Int}
    (hq : QueuedL w act t prio asset) : QueuedL w' act t prio asset := by
  obtain ⟨e, he, hr⟩ := hq
  exact ⟨e, h.evOld e he, hr⟩

/-- The keys of a device the event invariants read. -/
def dk (d : Dev) : Kind × Int × Bool := (d.kind, d.aid, d.shutDown)

theorem NewOK.congr {w w' : World} (h : ∀ y, dk (w'.dev y) = dk (w.dev y)) {e : Event}
    (hn : NewOK w' e) : NewOK w e := by
  intro x hk hx
  have := h x
  simp only [dk, Prod.mk.injEq] at this
  obtain ⟨h1, h2, h3⟩ := this
  have := hn x (by rw [h1]; exact hk) hx
  rw [h2, h3] at this
  exact this

theorem EnvMono.trans {w w1 w2 : World} (h1 : EnvMono w w1) (h2 : EnvMono w1 w2)
    (hk : ∀ y, dk (w1.dev y) = dk (w.dev y)) : EnvMono w w2 := by
  refine ⟨h2.now.trans h1.now, h2.paused.trans h1.paused, fun e he => h2.evOld e (h1.evOld e he),
    ?_, fun hq => h2.q (h1.q hq)⟩
  intro e he
  rcases h2.evNew e he with h | h
  · exact h1.evNew e h
  · exact Or.inr (h.congr hk)

/-- Change the base world of an `EnvMono` to one with the same queue and device keys. -/
theorem EnvMono.congr_left {w0 w w' : World} (h : EnvMono w0 w') (he : w0.env = w.env)
    (hk : ∀ y, dk (w0.dev y) = dk (w.dev y)) : EnvMono w w' := by
  refine ⟨by rw [← he]; exact h.now, by rw [← he]; exact h.paused, ?_, ?_, ?_⟩
  · intro e hm; rw [← he] at hm; exact h.evOld e hm
  · intro e hm
    rcases h.evNew e hm with h' | h'
    · left; rw [← he]; exact h'
    · exact Or.inr (h'.congr hk)
  · intro hq; rw [← he] at hq; exact h.q hq

/-- A benign step that may take the part in process away from operational processors. -/
structure Mono0 (w w' : World) : Prop where
  keepA : keep Dev.resA w' = keep Dev.resA w
  scr : w'.scripts = w.scripts
  env : EnvMono w w'
  part : ∀ y, (w.dev y).kind = .processor →
    (w'.dev y).part = (w.dev y).part ∨ ((w.dev y).shutDown = false ∧ (w'.dev y).part = none)

section fields
variable {w w' : World} (h : Mono0 w w')
include h

theorem Mono0.resA (y : Nat) : (w'.dev y).resA = (w.dev y).resA := keep_dev _ h.keepA y
theorem Mono0.rm : w'.rm = w.rm := keep_rm _ h.keepA
theorem Mono0.len : w'.devs.length = w.devs.length := keep_length _ h.keepA
theorem Mono0.reserved (y : Nat) : (w'.dev y).reserved = (w.dev y).reserved :=
  congrArg (·.1) (h.resA y)
theorem Mono0.resReq (y : Nat) : (w'.dev y).resReq = (w.dev y).resReq :=
  congrArg (·.2.1) (h.resA y)
theorem Mono0.waitingRes (y : Nat) : (w'.dev y).waitingRes = (w.dev y).waitingRes :=
  congrArg (·.2.2.1) (h.resA y)
theorem Mono0.kind (y : Nat) : (w'.dev y).kind = (w.dev y).kind :=
  congrArg (·.2.2.2.1) (h.resA y)
theorem Mono0.aid (y : Nat) : (w'.dev y).aid = (w.dev y).aid :=
  congrArg (·.2.2.2.2.1) (h.resA y)
theorem Mono0.shutDown (y : Nat) : (w'.dev y).shutDown = (w.dev y).shutDown :=
  congrArg (·.2.2.2.2.2) (h.resA y)
theorem Mono0.dk (y : Nat) : dk (w'.dev y) = dk (w.dev y) := by
  simp only [C11W.dk, h.kind y, h.aid y, h.shutDown y]
theorem Mono0.nowEq : w'.now = w.now := h.env.now
theorem Mono0.statD : w'.devs.map statD = w.devs.map statD := by
  have h2 : w'.devs.map Dev.resA = w.devs.map Dev.resA := congrArg Prod.snd h.keepA
  have h3 := congrArg (List.map (fun a : Option Nat × Option Req × Bool × Kind × Int × Bool =>
    (a.2.2.2.1, a.2.2.2.2.1, a.2.1))) h2
  simp only [List.map_map] at h3
  exact h3

end fields

theorem Mono0.refl (w : World) : Mono0 w w :=
  ⟨rfl, rfl, EnvMono.of_env_eq rfl, fun _ _ => Or.inl rfl⟩

theorem Mono0.trans {w w1 w2 : World} (h1 : Mono0 w w1) (h2 : Mono0 w1 w2) : Mono0 w w2 := by
  refine ⟨h2.keepA.trans h1.keepA, h2.scr.trans h1.scr, h1.env.trans h2.env h1.dk, ?_⟩
  intro y hk
  have hk1 : (w1.dev y).kind = .processor := by rw [h1.kind]; exact hk
  rcases h2.part y hk1 with h | ⟨hs, h⟩
  · rw [h]; exact h1.part y hk
  · right
    rw [h1.shutDown] at hs
    exact ⟨hs, h⟩

/-- A benign step that leaves the part in process of every processor alone. -/
structure MonoS (w w' : World) : Prop where
  m0 : Mono0 w w'
  same : ∀ y, (w.dev y).kind = .processor → (w'.dev y).part = (w.dev y).part

/-- … of every processor but `x`. -/
structure MonoX (x : Nat) (w w' : World) : Prop where
  m0 : Mono0 w w'
  same : ∀ y, y ≠ x → (w.dev y).kind = .processor → (w'.dev y).part = (w.dev y).part

/-- A benign step after which every processor that lost its part in process and holds a
reservation has its RELEASE event queued for the current instant. -/
structure Mono (w w' : World) : Prop where
  m0 : Mono0 w w'
  rel : ∀ y, (w.dev y).kind = .processor → (w'.dev y).part ≠ (w.dev y).part →
    (w.dev y).reserved ≠ none →
    QueuedL w' (.releaseIfIdle y) w.now pRelease (w.dev y).aid

theorem MonoS.refl (w : World) : MonoS w w := ⟨Mono0.refl w, fun _ _ => rfl⟩

theorem MonoS.trans {w w1 w2 : World} (h1 : MonoS w w1) (h2 : MonoS w1 w2) : MonoS w w2 :=
  ⟨h1.m0.trans h2.m0, fun y hk =>
    (h2.same y (by rw [h1.m0.kind]; exact hk)).trans (h1.same y hk)⟩

theorem MonoS.toX {w w' : World} (h : MonoS w w') (x : Nat) : MonoX x w w' :=
  ⟨h.m0, fun y _ hk => h.same y hk⟩

theorem MonoX.trans {x : Nat} {w w1 w2 : World} (h1 : MonoX x w w1) (h2 : MonoX x w1 w2) :
    MonoX x w w2 :=
  ⟨h1.m0.trans h2.m0, fun y hy hk =>
    (h2.same y hy (by rw [h1.m0.kind]; exact hk)).trans (h1.same y hy hk)⟩

theorem MonoX.toS {x : Nat} {w w' : World} (h : MonoX x w w') (hk : (w.dev x).kind ≠ .processor) :
    MonoS w w' :=
  ⟨h.m0, fun y hy => h.same y (fun e => hk (e ▸ hy)) hy⟩

theorem MonoS.toMono {w w' : World} (h : MonoS w w') : Mono w w' :=
  ⟨h.m0, fun y hk hne _ => absurd (h.same y hk) hne⟩

theorem MonoX.toMono {x : Nat} {w w' : World} (h : MonoX x w w')
    (hq : (w.dev x).kind = .processor → (w'.dev x).part ≠ (w.dev x).part →
      (w.dev x).reserved ≠ none → QueuedL w' (.releaseIfIdle x) w.now pRelease (w.dev x).aid) :
    Mono w w' := by
  refine ⟨h.m0, fun y hk hne hr => ?_⟩
  by_cases hy : y = x
  · subst hy; exact hq hk hne hr
  · exact absurd (h.same y hy hk) hne

theorem Mono.refl (w : World) : Mono w w := (MonoS.refl w).toMono

theorem Mono.trans {w w1 w2 : World} (h1 : Mono w w1) (h2 : Mono w1 w2) : Mono w w2 := by
  refine ⟨h1.m0.trans h2.m0, fun y hk hne hr => ?_⟩
  by_cases hp : (w1.dev y).part = (w.dev y).part
  · have hk1 : (w1.dev y).kind = .processor := by rw [h1.m0.kind]; exact hk
    have := h2.rel y hk1 (by rw [hp]; exact hne) (by rw [h1.m0.reserved]; exact hr)
    rw [h1.m0.nowEq, h1.m0.aid] at this
    exact this
  · exact (h1.rel y hk hp hr).mono h2.m0.env

/-! ### primitive benign steps -/

/-- Nothing that matters changed. -/
theorem MonoS.of_eq {w w' : World} (hd : w'.devs = w.devs) (hr : w'.rm = w.rm) (he : w'.env = w.env)
    (hs : w'.scripts = w.scripts) : MonoS w w' :=
  ⟨⟨keep_of_eq _ hd hr, hs, EnvMono.of_env_eq he, fun y _ => Or.inl (by rw [dev_congr hd])⟩,
    fun y _ => by rw [dev_congr hd]⟩

theorem monoS_setErr (w : World) (m : String) : MonoS w (w.setErr m) :=
  MonoS.of_eq (setErr_devs w m) (setErr_rm w m) (setErr_env w m) (setErr_scripts w m)
theorem monoS_addRec (w : World) (r : Rec) : MonoS w (w.addRec r) := MonoS.of_eq rfl rfl rfl rfl
theorem monoS_addRes (w : World) (r : Res) : MonoS w (w.addRes r) := MonoS.of_eq rfl rfl rfl rfl
theorem monoS_modPart (w : World) (p : Nat) (f : PartRec → PartRec) : MonoS w (w.modPart p f) :=
  MonoS.of_eq rfl rfl rfl rfl
theorem monoS_newPart (w : World) (r : PartRec) : MonoS w (w.newPart r).1 :=
  MonoS.of_eq rfl rfl rfl rfl

theorem histOp_env (w : World) (p : Nat) (f : PartRec → PartRec) : (histOp w p f).env = w.env := by
  have := congrArg World.env (histOp_noParts w p f); exact this
theorem histOp_scripts (w : World) (p : Nat) (f : PartRec → PartRec) :
    (histOp w p f).scripts = w.scripts := by
  have := congrArg World.scripts (histOp_noParts w p f); exact this
theorem histOp_rm (w : World) (p : Nat) (f : PartRec → PartRec) : (histOp w p f).rm = w.rm := by
  have := congrArg World.rm (histOp_noParts w p f); exact this
theorem histOp_devs (w : World) (p : Nat) (f : PartRec → PartRec) : (histOp w p f).devs = w.devs := by
  have := congrArg World.devs (histOp_noParts w p f); exact this

theorem monoS_addHist (w : World) (p d : Nat) : MonoS w (w.addHist p d) := by
  rw [addHist_eq_histOp]
  exact MonoS.of_eq (histOp_devs ..) (histOp_rm ..) (histOp_env ..) (histOp_scripts ..)
theorem monoS_dropHist (w : World) (p : Nat) : MonoS w (w.dropHist p) := by
  rw [dropHist_eq_histOp]
  exact MonoS.of_eq (histOp_devs ..) (histOp_rm ..) (histOp_env ..) (histOp_scripts ..)

theorem monoS_senseOutput (w : World) (s p : Nat) : MonoS w (w.senseOutput s p) :=
  MonoS.of_eq (senseOutput_devs w s p) (senseOutput_rm w s p) (senseOutput_env w s p)
    (by have := congrArg World.scripts (senseOutput_noSense w s p); exact this)

/-- Overwriting a device without touching `Dev.resA` nor (for a processor) the part in process. -/
theorem monoS_setDev (w : World) (x : Nat) (d : Dev) (h : d.resA = (w.dev x).resA)
    (hp : (w.dev x).kind = .processor → d.part = (w.dev x).part) : MonoS w (w.setDev x d) := by
  have hsame : ∀ y, (w.dev y).kind = .processor → ((w.setDev x d).dev y).part = (w.dev y).part := by
    intro y hk
    rw [dev_setDev]
    split
    · next hxy => obtain ⟨rfl, _⟩ := hxy; exact hp hk
    · rfl
  exact ⟨⟨keep_setDev _ w x d h, rfl, EnvMono.of_env_eq rfl, fun y hk => Or.inl (hsame y hk)⟩, hsame⟩

theorem monoS_modDev (w : World) (x : Nat) (f : Dev → Dev) (h : (f (w.dev x)).resA = (w.dev x).resA)
    (hp : (w.dev x).kind = .processor → (f (w.dev x)).part = (w.dev x).part) :
    MonoS w (w.modDev x f) := monoS_setDev w x _ h hp

/-- Taking the part in process away from device `x` (not a shut-down processor). -/
theorem monoX_setDev (w : World) (x : Nat) (d : Dev) (h : d.resA = (w.dev x).resA)
    (hp : (w.dev x).kind = .processor → (w.dev x).shutDown = false ∧ d.part = none) :
    MonoX x w (w.setDev x d) := by
  refine ⟨⟨keep_setDev _ w x d h, rfl, EnvMono.of_env_eq rfl, ?_⟩, ?_⟩
  · intro y hk
    rw [dev_setDev]
    split
    · next hxy => obtain ⟨rfl, _⟩ := hxy; exact Or.inr (hp hk)
    · exact Or.inl rfl
  · intro y hy _
    rw [dev_setDev_ne (Ne.symm hy)]

/-- The world after an accepted `schedule_event`. -/
theorem sched_fst_eq (w : World) (t a : Int) (act : Action) (p : Int) :
    (w.sched t a act p).1 =
      if t < w.env.now then w
      else { w with env := { w.env with
        events := insort (w.env.newEvent t a act.toNat p (weightOf w.seed w.wmod t a act.toNat p))
          w.env.events
        nextUid := w.env.nextUid + 1 } } := by
  by_cases h : t < w.env.now
  · simp [sched, Env.apply, Env.schedule, h]
  · simp [sched, Env.apply, Env.schedule, h]

/-- Scheduling an event whose action is harmless. -/
theorem monoS_sched (w : World) (t a : Int) (act : Action) (p : Int)
    (hok : ∀ x, (w.dev x).kind = .processor → (act = .finishCycle x ∨ act = .releaseIfIdle x) →
      a = (w.dev x).aid ∧ (w.dev x).shutDown = false) : MonoS w (w.sched t a act p).1 := by
  rw [sched_fst_eq]
  split
  · exact MonoS.refl w
  · next hlt =>
    have hle : w.env.now ≤ t := by omega
    refine ⟨⟨rfl, rfl, ⟨rfl, rfl, ?_, ?_, ?_⟩, fun _ _ => Or.inl rfl⟩, fun _ _ => rfl⟩
    · intro e he; exact insort_mem.2 (Or.inr he)
    · intro e he
      rcases insort_mem.1 he with rfl | he
      · right
        intro x hk hx
        refine hok x hk ?_
        rcases hx with hx | hx
        · exact Or.inl (ofNat_toNat_finishCycle act x hx)
        · exact Or.inr (ofNat_toNat_releaseIfIdle act x hx)
      · exact Or.inl he
    · intro hq
      exact C01.inv_schedule (s := w.env) hq (Env.schedule_some.2 ⟨hle, rfl⟩)

theorem monoS_schedLib (w : World) (t a : Int) (act : Action) (p : Int)
    (hok : ∀ x, (w.dev x).kind = .processor → (act = .finishCycle x ∨ act = .releaseIfIdle x) →
      a = (w.dev x).aid ∧ (w.dev x).shutDown = false) : MonoS w (w.schedLib t a act p) := by
  have h := monoS_sched w t a act p hok
  unfold schedLib
  generalize w.sched t a act p = s at h ⊢
  obtain ⟨w', r⟩ := s
  cases r <;> first | exact h | exact h.trans (monoS_setErr _ _)

theorem monoS_schedLib_plain (w : World) (t a : Int) (act : Action) (p : Int) (hp : Plain act) :
    MonoS w (w.schedLib t a act p) :=
  monoS_schedLib w t a act p (fun x _ h => by
    rcases h with h | h
    · exact absurd h (hp x).1
    · exact absurd h (hp x).2)

theorem monoS_foldl {β : Type} (f : World → β → World) (l : List β) (w : World)
    (h : ∀ w a, MonoS w (f w a)) : MonoS w (l.foldl f w) := by
  induction l generalizing w with
  | nil => exact MonoS.refl w
  | cons a l ih => rw [List.foldl_cons]; exact (h w a).trans (ih _)

theorem plain_rmCheck : Plain .rmCheck := fun _ => ⟨(by intro h; cases h), (by intro h; cases h)⟩
theorem plain_passPart (x : Nat) : Plain (.passPart x) :=
  fun _ => ⟨(by intro h; cases h), (by intro h; cases h)⟩

theorem monoS_rmEffects (w : World) (recs : List ResRec) (chk : Bool) :
    MonoS w (w.rmEffects recs chk) := by
  unfold rmEffects
  have h1 : MonoS w (recs.foldl (fun w r => w.addRec (.resUpdate r.res w.now r.inUse r.cap)) w) :=
    monoS_foldl _ _ _ (fun w r => monoS_addRec w _)
  dsimp only
  split
  · exact h1.trans (monoS_schedLib_plain _ _ _ _ _ plain_rmCheck)
  · exact h1

end C11W
end SimProc
