/-
The simulation argument behind `C14.run_split`: the split execution (run `a`, then run `b`) and
the single execution (run `a + b`) stay related by `EqS` (same queue up to uids and terminate
events, same paused list up to uids) at every loop head.

`sstep`, `sloop`, `srun` mirror `C14.Sys.step`, `C14.Sys.loop`, `C14.Sys.run` (which are defined in
the file that imports this one); `EnvEq'` mirrors `C14.EnvEq`.
-/
import SimProc.Proofs.SplitLemmas

namespace SimProc
namespace Split

open C01

/-- Same queue up to uids and terminate events, same paused list up to uids. -/
structure EqS (x y : Env) : Prop where
  ev : strip x.events = strip y.events
  pa : x.paused.map nu = y.paused.map nu

theorem EqS.symm {x y : Env} (h : EqS x y) : EqS y x := ⟨h.ev.symm, h.pa.symm⟩

/-- Operations issued by actions. -/
def AOp (op : EnvOp) : Prop := UserOp op ∧ op ≠ .step

/-! ### operations issued by actions preserve the relation -/

theorem terminated_apply (ar : Arith) (x : Env) (op : EnvOp) (hop : AOp op) :
    (x.apply ar op).1.terminated = x.terminated := by
  cases op with
  | step => exact absurd rfl hop.2
  | runBegin d w => exact absurd hop.1 (by simp [UserOp])
  | sched t a act p w =>
    simp only [Env.apply]
    cases hs : x.schedule t a act p w with
    | none => rfl
    | some s' => obtain ⟨_, rfl⟩ := Env.schedule_some.mp hs; rfl
  | pause a => rfl
  | unpause a => rfl
  | cancel a => rfl

theorem eq_apply {Tx Ty : Int} {tx ty : Nat} {x y : Env} (hx : RunInv Tx tx x)
    (hy : RunInv Ty ty y) (hn : x.now = y.now) (he : EqS x y) (op : EnvOp) (hop : AOp op) :
    (x.apply Arith.exact op).1.now = (y.apply Arith.exact op).1.now ∧
      EqS (x.apply Arith.exact op).1 (y.apply Arith.exact op).1 := by
  cases op with
  | step => exact absurd rfl hop.2
  | runBegin d w => exact absurd hop.1 (by simp [UserOp])
  | sched t a act p w =>
    have hact : act ≠ terminateAct := hop.1.1
    by_cases hlt : t < y.now
    · simp [Env.apply, Env.schedule, hn, hlt, he]
    · have hlt' : ¬ t < x.now := by rw [hn]; exact hlt
      simp only [Env.apply, Env.schedule, hlt, hlt', if_false]
      refine ⟨hn, ?_, he.pa⟩
      simp only
      have h1 : nt (x.newEvent t a act p w) = true := by simp [nt, Env.newEvent, hact]
      have h2 : nt (y.newEvent t a act p w) = true := by simp [nt, Env.newEvent, hact]
      rw [strip_insort hx.inv.sorted h1, strip_insort hy.inv.sorted h2, he.ev]
      rfl
  | pause a =>
    have ha : a ≠ -1 := hop.1
    simp only [Env.apply, Env.pause]
    refine ⟨hn, ?_, ?_⟩
    · simp only
      rw [strip_filter _ (fun e => rfl), strip_filter _ (fun e => rfl), he.ev]
    · simp only [List.map_append]
      have hq : ∀ {T : Int} {tu : Nat} {z : Env}, RunInv T tu z →
          ∀ e ∈ z.events, nt e = false → (fun e : Event => e.asset == a) e = false := by
        intro T tu z hz e hez hnt
        have := (hz.term e hez (nt_false_iff.mp hnt)).2.2.2.1
        simp only [this]
        simpa using fun h : -1 = a => ha h.symm
      rw [hn, pause_moved (fun e : Event => e.asset == a)
          (fun e : Event => { e with pausedAt := some y.now }) (fun e => rfl) (fun e => rfl) (hq hx),
        pause_moved (fun e : Event => e.asset == a)
          (fun e : Event => { e with pausedAt := some y.now }) (fun e => rfl) (fun e => rfl) (hq hy),
        he.ev, he.pa]
  | unpause a =>
    simp only [Env.apply, Env.unpause]
    refine ⟨hn, ?_, ?_⟩
    · simp only
      rw [hn]
      refine strip_foldl_insort Arith.exact y.now _ _ _ _ ?_ ?_ hx.inv.sorted hy.inv.sorted he.ev
      · rw [map_nu_filter _ (fun e => rfl), map_nu_filter _ (fun e => rfl), he.pa]
      · intro e hee
        exact nt_true_iff.mpr (hx.pausedUser e (List.mem_filter.mp hee).1)
    · simp only
      rw [map_nu_filter _ (fun e => rfl), map_nu_filter _ (fun e => rfl), he.pa]
  | cancel a =>
    simp only [Env.apply, Env.cancel]
    refine ⟨hn, ?_, ?_⟩
    · simp only
      rw [strip_cancel, strip_cancel, he.ev]
    · simp only
      rw [map_nu_cancel, map_nu_cancel, he.pa]

theorem aop_user {op : EnvOp} (h : AOp op) : UserOp op := h.1

theorem eq_applyAll {Tx Ty : Int} {tx ty : Nat} (ops : List EnvOp) (hops : ∀ op ∈ ops, AOp op) :
    ∀ {x y : Env}, RunInv Tx tx x → RunInv Ty ty y → x.now = y.now → EqS x y →
      RunInv Tx tx (x.applyAll Arith.exact ops).1 ∧ RunInv Ty ty (y.applyAll Arith.exact ops).1 ∧
      (x.applyAll Arith.exact ops).1.now = (y.applyAll Arith.exact ops).1.now ∧
      EqS (x.applyAll Arith.exact ops).1 (y.applyAll Arith.exact ops).1 ∧
      (x.applyAll Arith.exact ops).1.terminated = x.terminated ∧
      (y.applyAll Arith.exact ops).1.terminated = y.terminated := by
  induction ops with
  | nil => intro x y hx hy hn he; exact ⟨hx, hy, hn, he, rfl, rfl⟩
  | cons op ops ih =>
    intro x y hx hy hn he
    have hop := hops op (by simp)
    have hs : op = .step → False := fun h => hop.2 h
    have hx' := runInv_apply Arith.exact op hx hop.1 (fun h => (hs h).elim)
    have hy' := runInv_apply Arith.exact op hy hop.1 (fun h => (hs h).elim)
    have h1 := eq_apply hx hy hn he op hop
    have := ih (fun o ho => hops o (List.mem_cons_of_mem _ ho)) hx' hy' h1.1 h1.2
    simp only [Env.applyAll]
    refine ⟨this.1, this.2.1, this.2.2.1, this.2.2.2.1, ?_, ?_⟩
    · rw [this.2.2.2.2.1, terminated_apply _ _ _ hop]
    · rw [this.2.2.2.2.2, terminated_apply _ _ _ hop]

/-! ### the heads of related queues -/

theorem running_of_runInv {T : Int} {tu : Nat} {y : Env} (hy : RunInv T tu y)
    (hty : y.terminated = false) : y.running = true := by
  obtain ⟨⟨e, he, _⟩, _⟩ := hy.running hty
  cases hev : y.events with
  | nil => rw [hev] at he; cases he
  | cons a l => simp [Env.running, hev, hty]

/-- If the head of the queue whose terminate event is not the later one is a user event, the other
queue has the same head (up to its uid). -/
theorem head_sim {Tx Ty : Int} {tx ty : Nat} {x y : Env} (hx : RunInv Tx tx x)
    (hy : RunInv Ty ty y) (hT : Tx ≤ Ty) (htx : x.terminated = false) (hty : y.terminated = false)
    (he : EqS x y) {e : Event} {es : List Event} (hev : x.events = e :: es) (hnt : nt e = true) :
    ∃ e' es', y.events = e' :: es' ∧ nu e' = nu e ∧ nt e' = true ∧ strip es' = strip es := by
  obtain ⟨⟨t, ht, hta⟩, _⟩ := hy.running hty
  have hstrip := he.ev
  rw [hev, strip_cons_pos _ hnt] at hstrip
  cases hyev : y.events with
  | nil => rw [hyev] at ht; cases ht
  | cons e' es' =>
    rw [hyev] at hstrip
    by_cases hnt' : nt e' = true
    · rw [strip_cons_pos _ hnt'] at hstrip
      simp only [List.cons.injEq] at hstrip
      exact ⟨e', es', rfl, hstrip.1.symm, hnt', hstrip.2.symm⟩
    · exfalso
      have hnt'' : nt e' = false := by simpa using hnt'
      rw [strip_cons_neg _ hnt''] at hstrip
      have hmem : nu e ∈ strip es' := by rw [← hstrip]; simp
      obtain ⟨z, hz, hzn, hze⟩ := mem_strip.mp hmem
      have hsy : SortedEv (e' :: es') := hyev ▸ hy.inv.sorted
      have h1 := hsy.head_min z hz
      have he't := hy.term e' (by rw [hyev]; simp) (nt_false_iff.mp hnt'')
      have hzp := hy.user z (by rw [hyev]; simp [hz]) (nt_true_iff.mp hzn)
      have h2 := (Event.nlt_iff e' z).mp h1
      obtain ⟨⟨tx', htx', htxa⟩, _⟩ := hx.running htx
      have htxt := hx.term tx' htx' htxa
      have hmem' : tx' ∈ es := by
        rw [hev] at htx'
        rcases List.mem_cons.mp htx' with rfl | h
        · exact absurd htxa (nt_true_iff.mp hnt)
        · exact h
      have hsx : SortedEv (e :: es) := hev ▸ hx.inv.sorted
      have h3 := Event.nlt_time (hsx.head_min tx' hmem')
      have hzt : z.time = e.time := by
        have := congrArg Event.time hze
        simpa using this
      omega

/-- With terminate events at the same time: if one head is the terminate event, so is the
other. -/
theorem head_term {T : Int} {tx ty : Nat} {x y : Env} (hx : RunInv T tx x)
    (hy : RunInv T ty y) (htx : x.terminated = false) (hty : y.terminated = false)
    (he : EqS x y) {e : Event} {es : List Event} (hev : x.events = e :: es) (hnt : nt e = false) :
    ∃ e' es', y.events = e' :: es' ∧ nt e' = false := by
  obtain ⟨⟨t, ht, hta⟩, _⟩ := hy.running hty
  cases hyev : y.events with
  | nil => rw [hyev] at ht; cases ht
  | cons e' es' =>
    refine ⟨e', es', rfl, ?_⟩
    cases hnt' : nt e' with
    | false => rfl
    | true =>
      obtain ⟨e2, es2, h2, _, h3, _⟩ :=
        head_sim hy hx (Int.le_refl _) hty htx he.symm hyev hnt'
      rw [hev] at h2
      simp only [List.cons.injEq] at h2
      rw [h2.1, h3] at hnt
      cases hnt

/-! ### mirror of `C14.Sys` -/

def sstep {σ : Type} (act : Nat → σ → Int → σ × List EnvOp) (st : σ × Env) : Option (σ × Env) :=
  match st.2.step with
  | none => none
  | some (e, env') =>
    if e.live && !(e.act == terminateAct) then
      let r := act e.act st.1 env'.now
      some (r.1, (env'.applyAll Arith.exact r.2).1)
    else some (st.1, env')

def sloop {σ : Type} (act : Nat → σ → Int → σ × List EnvOp) : Nat → σ × Env → σ × Env
  | 0, st => st
  | f + 1, st =>
    if st.2.running then
      match sstep act st with
      | none => st
      | some st' => sloop act f st'
    else st

def srun {σ : Type} (act : Nat → σ → Int → σ × List EnvOp) (f : Nat) (d : Int) (w : Nat)
    (st : σ × Env) : Option (σ × Env) :=
  match st.2.runBegin Arith.exact d w with
  | none => none
  | some env => some (sloop act f (st.1, env))

def EnvEq' (x y : Env) : Prop :=
  x.now = y.now ∧ x.terminated = y.terminated ∧
  x.events.map nu = y.events.map nu ∧ x.paused.map nu = y.paused.map nu

theorem sloop_done {σ : Type} (act : Nat → σ → Int → σ × List EnvOp) (f : Nat) (st : σ × Env)
    (h : st.2.terminated = true) : sloop act f st = st := by
  cases f with
  | zero => rfl
  | succ f => simp [sloop, Env.running, h]

theorem sloop_succ {σ : Type} (act : Nat → σ → Int → σ × List EnvOp) (f : Nat) {st st' : σ × Env}
    (hr : st.2.running = true) (hs : sstep act st = some st') :
    sloop act (f + 1) st = sloop act f st' := by
  simp [sloop, hr, hs]

/-- `Env.step` on a non-empty queue. -/
theorem step_cons {x : Env} {e : Event} {es : List Event} (hev : x.events = e :: es) :
    ∃ x1, x.step = some (e, x1) ∧ x1.now = e.time ∧ x1.events = es ∧ x1.paused = x.paused ∧
      x1.terminated = (x.terminated || (e.live && e.act == terminateAct)) :=
  ⟨_, Env.step_some.mpr ⟨es, hev, rfl⟩, rfl, rfl, rfl, rfl⟩

/-- One loop iteration on both sides when the head is a user event. -/
theorem sstep_sim {σ : Type} (act : Nat → σ → Int → σ × List EnvOp)
    (hact : ∀ a u now, ∀ op ∈ (act a u now).2, AOp op)
    {Tx Ty : Int} {tx ty : Nat} {x y : Env} (hx : RunInv Tx tx x)
    (hy : RunInv Ty ty y) (hT : Tx ≤ Ty) (htx : x.terminated = false) (hty : y.terminated = false)
    (he : EqS x y) {e : Event} {es : List Event} (hev : x.events = e :: es) (hnt : nt e = true)
    (u : σ) :
    ∃ u' x' y', sstep act (u, x) = some (u', x') ∧ sstep act (u, y) = some (u', y') ∧
      RunInv Tx tx x' ∧ RunInv Ty ty y' ∧ x'.terminated = false ∧ y'.terminated = false ∧
      EqS x' y' := by
  obtain ⟨e', es', hyev, hnu, hnt', hst⟩ := head_sim hx hy hT htx hty he hev hnt
  obtain ⟨x1, hxs, hx1n, hx1e, hx1p, hx1t⟩ := step_cons hev
  obtain ⟨y1, hys, hy1n, hy1e, hy1p, hy1t⟩ := step_cons hyev
  have hx1 := runInv_apply Arith.exact .step hx trivial (fun _ => htx)
  rw [apply_step_some _ hxs] at hx1
  have hy1 := runInv_apply Arith.exact .step hy trivial (fun _ => hty)
  rw [apply_step_some _ hys] at hy1
  simp only at hx1 hy1
  have hea : e.act ≠ terminateAct := nt_true_iff.mp hnt
  have hea' : e'.act ≠ terminateAct := nt_true_iff.mp hnt'
  have hact' : e'.act = e.act := by simpa using congrArg Event.act hnu
  have htime' : e'.time = e.time := by simpa using congrArg Event.time hnu
  have hlive' : e'.live = e.live := by
    have := congrArg Event.cancelled hnu
    simp only [nu_cancelled] at this
    simp [Event.live, this]
  have htx1 : x1.terminated = false := by rw [hx1t, htx]; simp [hea]
  have hty1 : y1.terminated = false := by rw [hy1t, hty]; simp [hea']
  have hn1 : x1.now = y1.now := by rw [hx1n, hy1n, htime']
  have he1 : EqS x1 y1 := ⟨by rw [hx1e, hy1e, hst], by rw [hx1p, hy1p, he.pa]⟩
  cases hl : e.live with
  | false =>
    refine ⟨u, x1, y1, ?_, ?_, hx1, hy1, htx1, hty1, he1⟩
    · simp [sstep, hxs, hl]
    · simp [sstep, hys, hlive', hl]
  | true =>
    have hops := hact e.act u x1.now
    obtain ⟨h1, h2, _, h4, h5, h6⟩ := eq_applyAll (act e.act u x1.now).2 hops hx1 hy1 hn1 he1
    refine ⟨(act e.act u x1.now).1, (x1.applyAll Arith.exact (act e.act u x1.now).2).1,
      (y1.applyAll Arith.exact (act e.act u x1.now).2).1, ?_, ?_, h1, h2, ?_, ?_, h4⟩
    · simp [sstep, hxs, hl, hea]
    · simp [sstep, hys, hlive', hl, hea, hact', ← hn1]
    · rw [h5, htx1]
    · rw [h6, hty1]

/-- The loop iteration that pops the terminate event. -/
theorem sstep_term {σ : Type} (act : Nat → σ → Int → σ × List EnvOp)
    {T : Int} {tx : Nat} {x : Env} (hx : RunInv T tx x) (htx : x.terminated = false)
    {e : Event} {es : List Event} (hev : x.events = e :: es) (hnt : nt e = false) (u : σ) :
    ∃ x1, sstep act (u, x) = some (u, x1) ∧ RunInv T tx x1 ∧ x1.terminated = true ∧
      x1.events = es ∧ x1.paused = x.paused := by
  obtain ⟨x1, hxs, _, hx1e, hx1p, hx1t⟩ := step_cons hev
  have hx1 := runInv_apply Arith.exact .step hx trivial (fun _ => htx)
  rw [apply_step_some _ hxs] at hx1
  have hea : e.act = terminateAct := nt_false_iff.mp hnt
  have hc := (hx.term e (by rw [hev]; simp) hea).2.2.2.2
  refine ⟨x1, ?_, hx1, ?_, hx1e, hx1p⟩
  · simp [sstep, hxs, hea]
  · rw [hx1t]; simp [Event.live, hc, hea]

/-! ### the second run of the split execution against the rest of the single run -/

theorem phase2 {σ : Type} (act : Nat → σ → Int → σ × List EnvOp)
    (hact : ∀ a u now, ∀ op ∈ (act a u now).2, AOp op) :
    ∀ (f2 f : Nat) (u : σ) (x y : Env) {T : Int} {tx ty : Nat},
      RunInv T tx x → RunInv T ty y → x.terminated = false → y.terminated = false → EqS x y →
      (sloop act f2 (u, x)).2.terminated = true → (sloop act f (u, y)).2.terminated = true →
      (sloop act f (u, y)).1 = (sloop act f2 (u, x)).1 ∧
        EnvEq' (sloop act f (u, y)).2 (sloop act f2 (u, x)).2 := by
  intro f2
  induction f2 with
  | zero =>
    intro f u x y T tx ty hx hy htx hty he h2 h
    simp [sloop, htx] at h2
  | succ f2 ih =>
    intro f u x y T tx ty hx hy htx hty he h2 h
    cases f with
    | zero => simp [sloop, hty] at h
    | succ f =>
      have hrx := running_of_runInv hx htx
      have hry := running_of_runInv hy hty
      obtain ⟨⟨t, ht, hta⟩, _⟩ := hx.running htx
      cases hev : x.events with
      | nil => rw [hev] at ht; cases ht
      | cons e es =>
        by_cases hnt : nt e = true
        · obtain ⟨u', x', y', hsx, hsy, hx', hy', htx', hty', he'⟩ :=
            sstep_sim act hact hx hy (Int.le_refl _) htx hty he hev hnt u
          rw [sloop_succ act f2 hrx hsx] at h2 ⊢
          rw [sloop_succ act f hry hsy] at h ⊢
          exact ih f u' x' y' hx' hy' htx' hty' he' h2 h
        · have hnt' : nt e = false := by simpa using hnt
          obtain ⟨e', es', hyev, hnty⟩ := head_term hx hy htx hty he hev hnt'
          obtain ⟨x1, hsx, hx1, htx1, hx1e, hx1p⟩ := sstep_term act hx htx hev hnt' u
          obtain ⟨y1, hsy, hy1, hty1, hy1e, hy1p⟩ := sstep_term act hy hty hyev hnty u
          rw [sloop_succ act f2 hrx hsx, sloop_done act f2 _ htx1,
            sloop_succ act f hry hsy, sloop_done act f _ hty1]
          refine ⟨rfl, ?_, ?_, ?_, ?_⟩
          · show y1.now = x1.now
            rw [(hx1.done htx1).1, (hy1.done hty1).1]
          · show y1.terminated = x1.terminated
            rw [htx1, hty1]
          · show y1.events.map nu = x1.events.map nu
            have hxs : strip x1.events = x1.events.map nu :=
              strip_eq_map (fun z hz => nt_true_iff.mpr ((hx1.done htx1).2 z hz))
            have hys : strip y1.events = y1.events.map nu :=
              strip_eq_map (fun z hz => nt_true_iff.mpr ((hy1.done hty1).2 z hz))
            have := he.ev
            rw [hev, hyev, strip_cons_neg _ hnt', strip_cons_neg _ hnty, ← hx1e, ← hy1e] at this
            rw [← hxs, ← hys, this]
          · show y1.paused.map nu = x1.paused.map nu
            rw [hx1p, hy1p, he.pa]

/-! ### the first run of the split execution against the beginning of the single run -/

theorem userState_of_done {T : Int} {tu : Nat} {x : Env} (hx : RunInv T tu x)
    (ht : x.terminated = true) : UserState x := by
  intro e he
  have hne : e.act ≠ terminateAct := by
    rcases List.mem_append.mp he with h | h
    · exact (hx.done ht).2 e h
    · exact hx.pausedUser e h
  exact ⟨hne, hx.user e he hne⟩

theorem runBegin_strip {ar : Arith} {x x2 : Env} {d : Int} {w : Nat}
    (h : x.runBegin ar d w = some x2) :
    x2.terminated = false ∧ strip x2.events = strip x.events ∧ x2.paused = x.paused := by
  obtain ⟨_, rfl⟩ := Env.schedule_some.mp h
  refine ⟨rfl, ?_, rfl⟩
  exact strip_insort_term _ (by simp [nt, Env.newEvent])

theorem phase1 {σ : Type} (act : Nat → σ → Int → σ × List EnvOp)
    (hact : ∀ a u now, ∀ op ∈ (act a u now).2, AOp op) :
    ∀ (f1 f : Nat) (u : σ) (x y : Env) {T1 T : Int} {tx ty : Nat},
      RunInv T1 tx x → RunInv T ty y → T1 ≤ T → x.terminated = false → y.terminated = false →
      EqS x y →
      (sloop act f1 (u, x)).2.terminated = true → (sloop act f (u, y)).2.terminated = true →
      ∀ (b : Int) (w2 f2 : Nat) (r2 : σ × Env), T1 + b = T →
        srun act f2 b w2 (sloop act f1 (u, x)) = some r2 → r2.2.terminated = true →
        (sloop act f (u, y)).1 = r2.1 ∧ EnvEq' (sloop act f (u, y)).2 r2.2 := by
  intro f1
  induction f1 with
  | zero =>
    intro f u x y T1 T tx ty hx hy hT htx hty he h1 h
    simp [sloop, htx] at h1
  | succ f1 ih =>
    intro f u x y T1 T tx ty hx hy hT htx hty he h1 h b w2 f2 r2 hTb hr2 hd2
    have hrx := running_of_runInv hx htx
    have hry := running_of_runInv hy hty
    obtain ⟨⟨t, ht, hta⟩, _⟩ := hx.running htx
    cases hev : x.events with
    | nil => rw [hev] at ht; cases ht
    | cons e es =>
      by_cases hnt : nt e = true
      · cases f with
        | zero => simp [sloop, hty] at h
        | succ f =>
          obtain ⟨u', x', y', hsx, hsy, hx', hy', htx', hty', he'⟩ :=
            sstep_sim act hact hx hy hT htx hty he hev hnt u
          rw [sloop_succ act f1 hrx hsx] at h1 hr2
          rw [sloop_succ act f hry hsy] at h ⊢
          exact ih f u' x' y' hx' hy' hT htx' hty' he' h1 h b w2 f2 r2 hTb hr2 hd2
      · have hnt' : nt e = false := by simpa using hnt
        obtain ⟨x1, hsx, hx1, htx1, hx1e, hx1p⟩ := sstep_term act hx htx hev hnt' u
        rw [sloop_succ act f1 hrx hsx, sloop_done act f1 _ htx1] at hr2
        simp only [srun] at hr2
        cases hb : x1.runBegin Arith.exact b w2 with
        | none => simp [hb] at hr2
        | some x2 =>
          simp only [hb, Option.some.injEq] at hr2
          subst hr2
          have hx2 := runInv_begin Arith.exact hx1.inv (userState_of_done hx1 htx1) hb
          have hT' : Arith.exact.add x1.now b = T := by
            show x1.now + b = T
            rw [(hx1.done htx1).1]; exact hTb
          rw [hT'] at hx2
          obtain ⟨htx2, hx2e, hx2p⟩ := runBegin_strip hb
          have he2 : EqS x2 y := by
            refine ⟨?_, by rw [hx2p, hx1p, he.pa]⟩
            rw [hx2e, hx1e, ← he.ev, hev, strip_cons_neg _ hnt']
          exact phase2 act hact f2 f u x2 y hx2 hy htx2 hty he2 hd2 h

/-- `run_split` for the mirrored definitions. -/
theorem run_split_core {σ : Type} (act : Nat → σ → Int → σ × List EnvOp)
    (hact : ∀ a u now, ∀ op ∈ (act a u now).2, AOp op) (u : σ) (s : Env)
    (hi : Inv s) (hu : UserState s) (a b : Int) (hb : 0 ≤ b)
    (w w1 w2 f f1 f2 : Nat) (r1 r2 r : σ × Env)
    (h1 : srun act f1 a w1 (u, s) = some r1) (hd1 : r1.2.terminated = true)
    (h2 : srun act f2 b w2 r1 = some r2) (hd2 : r2.2.terminated = true)
    (h : srun act f (a + b) w (u, s) = some r) (hd : r.2.terminated = true) :
    r.1 = r2.1 ∧ EnvEq' r.2 r2.2 := by
  simp only [srun] at h1 h
  cases hb1 : s.runBegin Arith.exact a w1 with
  | none => simp [hb1] at h1
  | some x0 =>
    cases hb0 : s.runBegin Arith.exact (a + b) w with
    | none => simp [hb0] at h
    | some y0 =>
      simp only [hb1, Option.some.injEq] at h1
      simp only [hb0, Option.some.injEq] at h
      subst h1
      subst h
      have hx0 := runInv_begin Arith.exact hi hu hb1
      have hy0 := runInv_begin Arith.exact hi hu hb0
      obtain ⟨htx, hxe, hxp⟩ := runBegin_strip hb1
      obtain ⟨hty, hye, hyp⟩ := runBegin_strip hb0
      have he : EqS x0 y0 := ⟨by rw [hxe, hye], by rw [hxp, hyp]⟩
      have hT : Arith.exact.add s.now a ≤ Arith.exact.add s.now (a + b) := by
        show s.now + a ≤ s.now + (a + b)
        omega
      have hTb : Arith.exact.add s.now a + b = Arith.exact.add s.now (a + b) := by
        show s.now + a + b = s.now + (a + b)
        omega
      exact phase1 act hact f1 f u x0 y0 hx0 hy0 hT htx hty he hd1 hd b w2 f2 r2 hTb h2 hd2

end Split
end SimProc
