/-
C03W with re-wiring — `rewire x ups` preserves the generalised wake-up invariant `G E N [] w`
("connection added": the new upstream neighbour gets a hand-over attempt, or — a gate, a group
input — passes the notification on, or — a group path — hands it to the group output, which wakes
the devices inside the group; "connection removed": whoever is flagged stays genuinely blocked).
-/
import SimProc.Proofs.C03WOps
import SimProc.Proofs.C03YTopo

namespace SimProc
namespace C03W
open World FloorCoreL C03

/-! ### acceptance in a world with fewer connections -/

theorem wouldAcceptS_sub {w w' : World} {N N' A : List Nat} {p : Nat}
    (hk : ∀ z, (w'.dev z).kind = (w.dev z).kind)
    (hpred : ∀ z, (w'.dev z).pred = (w.dev z).pred)
    (hgrp : ∀ z, (w'.dev z).group = (w.dev z).group)
    (hgroups : w'.groups = w.groups)
    (hg : ∀ pr, w'.gatePred pr p = w.gatePred pr p)
    (hacc : ∀ z, accM w' z p = accM w z p)
    (hN : ∀ z ∈ N, z ∈ N')
    (hctl : ∀ z, ((w.dev z).kind = .gate ∨ (w.dev z).kind = .ginput) → z ∉ N' →
      ∀ y ∈ (w'.dev z).down, y ∈ (w.dev z).down)
    (hgp : ∀ z, (w.dev z).kind = .gpath → ∀ y ∈ (w'.dev z).down, y ∈ (w.dev z).down) :
    ∀ f y stk, wouldAcceptS f w' N' A y p stk = true → wouldAcceptS f w N A y p stk = true := by
  have hgi : ∀ z, groupIn w' z = groupIn w z := fun z => by unfold groupIn; rw [hgrp, hgroups]
  have hgo : ∀ z, groupOut w' z = groupOut w z := fun z => by unfold groupOut; rw [hgrp, hgroups]
  intro f
  induction f with
  | zero => intro y stk h; cases h
  | succ f ih =>
    intro y stk h
    unfold wouldAcceptS at h ⊢
    rw [hk y, hpred y, hg, hgi, hacc] at h
    by_cases hgout : (w.dev y).kind = .goutput
    · simp only [hgout, bne_self_eq_false, Bool.and_false, Bool.false_eq_true, if_false] at h ⊢
      cases hl : stk.getLast? with
      | none => simp [hl] at h
      | some g =>
        simp only [hl, Bool.and_eq_true, List.any_eq_true, beq_iff_eq] at h ⊢
        obtain ⟨⟨h1, h2⟩, z, hz, h3⟩ := h
        rw [hk g] at h1
        rw [hgo g] at h2
        exact ⟨⟨h1, h2⟩, z, hgp g h1 z hz, ih z _ h3⟩
    · have hne : ((w.dev y).kind != Kind.goutput) = true := by simpa using hgout
      rw [hne, Bool.and_true] at h ⊢
      by_cases hy : y ∈ N'
      · simp [hy] at h
      · have hy' : N'.contains y = false := by simpa using hy
        have hyN : N.contains y = false := by
          have : y ∉ N := fun hc => hy (hN y hc)
          simpa using this
        rw [hy'] at h
        rw [hyN]
        simp only [Bool.false_eq_true, if_false] at h ⊢
        cases hkind : (w.dev y).kind <;> simp only [hkind] at h ⊢
        case gate =>
          simp only [Bool.and_eq_true, List.any_eq_true] at h ⊢
          obtain ⟨⟨h1, h2⟩, z, hz, h3⟩ := h
          exact ⟨⟨h1, h2⟩, z, hctl y (Or.inl hkind) hy z hz, ih z stk h3⟩
        case ginput =>
          simp only [Bool.and_eq_true, List.any_eq_true] at h ⊢
          obtain ⟨h2, z, hz, h3⟩ := h
          exact ⟨h2, z, hctl y (Or.inr hkind) hy z hz, ih z stk h3⟩
        case gpath =>
          simp only [Bool.and_eq_true] at h ⊢
          exact ⟨h.1, ih _ _ h.2⟩
        case goutput => exact absurd hkind hgout
        all_goals exact h

/-! ### worlds that differ by their wiring only -/

/-- `w'` is `w` with other `up` / `down` lists -/
structure WireOnly (w w' : World) : Prop where
  dev : ∀ z, w'.dev z = { w.dev z with up := (w'.dev z).up, down := (w'.dev z).down }
  len : w'.devs.length = w.devs.length
  parts : w'.parts = w.parts
  env : w'.env = w.env
  rm : w'.rm = w.rm
  groups : w'.groups = w.groups
  scripts : w'.scripts = w.scripts
  targets : w'.targets = w.targets

theorem WireOnly.refl (w : World) : WireOnly w w := ⟨fun _ => rfl, rfl, rfl, rfl, rfl, rfl, rfl, rfl⟩

theorem WireOnly.trans {a b c : World} (h1 : WireOnly a b) (h2 : WireOnly b c) : WireOnly a c := by
  refine ⟨fun z => ?_, h2.len.trans h1.len, h2.parts.trans h1.parts, h2.env.trans h1.env,
    h2.rm.trans h1.rm, h2.groups.trans h1.groups, h2.scripts.trans h1.scripts,
    h2.targets.trans h1.targets⟩
  have e2 := h2.dev z
  have e1 := h1.dev z
  rw [e2]
  generalize (c.dev z).up = u2
  generalize (c.dev z).down = d2
  rw [e1]

theorem WireOnly.modDev (w : World) (y : Nat) (f : Dev → Dev)
    (hf : ∀ d, f d = { d with up := (f d).up, down := (f d).down }) : WireOnly w (w.modDev y f) := by
  refine ⟨fun z => ?_, by simp, rfl, rfl, rfl, rfl, rfl, rfl⟩
  rw [dev_modDev]
  split
  · next hc => rw [← hc.1]; exact hf _
  · rfl

theorem WireOnly.foldl {α} (g : World → α → World) (hg : ∀ w a, WireOnly w (g w a)) (l : List α)
    (w : World) : WireOnly w (l.foldl g w) := by
  induction l generalizing w with
  | nil => exact .refl w
  | cons a l ih => exact (hg w a).trans (ih (g w a))

section wireonly
variable {w w' : World} (hw : WireOnly w w')
include hw

theorem WireOnly.field {α} (g : Dev → α) (hg : ∀ (d : Dev) (u dn : List Nat), g { d with up := u, down := dn } = g d)
    (z : Nat) : g (w'.dev z) = g (w.dev z) := by
  rw [hw.dev z]; exact hg _ _ _

theorem WireOnly.kind (z : Nat) : (w'.dev z).kind = (w.dev z).kind := hw.field Dev.kind (fun _ _ _ => rfl) z
theorem WireOnly.stat0 (z : Nat) : stat0 (w'.dev z) = stat0 (w.dev z) := hw.field C03W.stat0 (fun _ _ _ => rfl) z
theorem WireOnly.holdsD (z : Nat) : holdsD (w'.dev z) = holdsD (w.dev z) := hw.field C03W.holdsD (fun _ _ _ => rfl) z
theorem WireOnly.heldL (z : Nat) : heldL (w'.dev z) = heldL (w.dev z) := hw.field C03W.heldL (fun _ _ _ => rfl) z
theorem WireOnly.now : w'.now = w.now := by unfold World.now; rw [hw.env]
theorem WireOnly.fuel : w'.fuel = w.fuel := fuel_of_len hw.len

theorem WireOnly.accM (z p : Nat) : accM w' z p = accM w z p := by
  rw [accM_eq, accM_eq]
  have : w'.leafCount p = w.leafCount p := by unfold World.leafCount World.part; rw [hw.parts]
  rw [this]
  exact hw.field (accB (w.leafCount p)) (fun _ _ _ => rfl) z

end wireonly

/-- **The invariant in a re-wired world.**  `w'` differs from `w` by its wiring only and is in the
scope; a holder that is not exempt afterwards has got no new downstream neighbour; a gate or group
input that is not masked afterwards has got no new downstream neighbour; no group path has. -/
theorem G.rewiring {E N A E' N' : List Nat} {w w' : World} (h : G E N A w) (hw : WireOnly w w')
    (hsc : SC w') (hE : ∀ y ∈ E, y ∈ E') (hN : ∀ y ∈ N, y ∈ N')
    (hhold : ∀ d p, holdsD (w.dev d) = some p → d ∈ E' ∨ ∀ y ∈ (w'.dev d).down, y ∈ (w.dev d).down)
    (hctl : ∀ z, ((w.dev z).kind = .gate ∨ (w.dev z).kind = .ginput) → z ∉ N' →
      ∀ y ∈ (w'.dev z).down, y ∈ (w.dev z).down)
    (hgp : ∀ z, (w.dev z).kind = .gpath → ∀ y ∈ (w'.dev z).down, y ∈ (w.dev z).down) :
    G E' N' A w' := by
  have hk := hw.kind
  refine ⟨hsc, fun hb => ?_, by rw [hw.env]; exact h.inv, by rw [hw.now]; exact h.now0, ?_, ?_,
    by unfold KidsValid; rw [hw.parts]; exact h.kv, h.stk.frame hw.parts hk, ?_,
    fun y hy => by rw [hk]; exact h.aok y hy, ?_⟩
  · -- parts
    have hb0 : NoBatch w := by
      intro d hd
      obtain ⟨z, hz, rfl⟩ := mem_devs_iff_dev.mp hd
      have := hb (w'.dev z) (dev_mem (by rw [hw.len]; exact hz))
      rw [hk, hw.field Dev.genBatch (fun _ _ _ => rfl) z] at this
      exact this
    unfold PartsLeaf; rw [hw.parts]; exact h.pl hb0
  · exact evOK_of h.ev hk (fun n hn => by rw [hw.env] at hn; exact Or.inl hn)
  · intro d hd p hp
    obtain ⟨z, hz, rfl⟩ := mem_devs_iff_dev.mp hd
    rw [hw.heldL] at hp
    rw [hw.parts]
    exact h.valid.dev z p hp
  · -- registration
    rcases h.wr with hn | hr
    · left; rw [hasRes_of_stat0 hw.len hw.stat0]; exact hn
    · right
      refine ⟨by rw [hw.rm]; exact hr.1, fun z hz => ?_⟩
      rw [hw.field Dev.waitingRes (fun _ _ _ => rfl) z] at hz
      rw [hw.field Dev.resReq (fun _ _ _ => rfl) z, hw.rm]
      exact hr.2 z hz
  · -- the wake-up clause
    intro d p hd hdE
    rw [hw.holdsD] at hd
    rcases h.wake d p hd (fun hc => hdE (hE d hc)) with ha | hb
    · left
      refine att_mono (by rw [hw.env]; exact fun _ he => he) (hw.field Dev.aid (fun _ _ _ => rfl) d) ?_ ha
      rw [hw.now, hw.field (dueD w.now) (fun _ _ _ => rfl) d]
      exact Int.le_refl _
    · rcases hhold d p hd with hc | hsub
      · exact absurd hc hdE
      · refine Or.inr ⟨by rw [hw.field Dev.waitingDS (fun _ _ _ => rfl) d]; exact hb.1, fun y hy => ?_⟩
        cases hh : wouldAcceptN w'.fuel w' N' A y p with
        | false => rfl
        | true =>
          exfalso
          have hb2 := hb.2 y (hsub y hy)
          rw [hw.fuel] at hh
          unfold wouldAcceptN at hh hb2
          have hstk : (w'.part p).stack = (w.part p).stack := by unfold World.part; rw [hw.parts]
          rw [hstk] at hh
          have := wouldAcceptS_sub (w := w) (w' := w') (N := N) (N' := N') (A := A) (p := p) hk
            (hw.field Dev.pred (fun _ _ _ => rfl)) (hw.field Dev.group (fun _ _ _ => rfl)) hw.groups
            (fun pr => by unfold World.gatePred World.partValue World.part; rw [hw.parts])
            (fun z => hw.accM z p) hN hctl hgp _ y _ hh
          rw [hb2] at this; cases this

/-- every holder is exempt: nothing is claimed about acceptance -/
theorem G.rewiringAll {E N A : List Nat} {w w' : World} (h : G E N A w) (hw : WireOnly w w')
    (hsc : SC w') : G (List.range w.devs.length) N A w' := by
  have hk := hw.kind
  refine ⟨hsc, fun hb => ?_, by rw [hw.env]; exact h.inv, by rw [hw.now]; exact h.now0, ?_, ?_,
    by unfold KidsValid; rw [hw.parts]; exact h.kv, h.stk.frame hw.parts hk, ?_,
    fun y hy => by rw [hk]; exact h.aok y hy, ?_⟩
  · have hb0 : NoBatch w := by
      intro d hd
      obtain ⟨z, hz, rfl⟩ := mem_devs_iff_dev.mp hd
      have := hb (w'.dev z) (dev_mem (by rw [hw.len]; exact hz))
      rw [hk, hw.field Dev.genBatch (fun _ _ _ => rfl) z] at this
      exact this
    unfold PartsLeaf; rw [hw.parts]; exact h.pl hb0
  · exact evOK_of h.ev hk (fun n hn => by rw [hw.env] at hn; exact Or.inl hn)
  · intro d hd p hp
    obtain ⟨z, hz, rfl⟩ := mem_devs_iff_dev.mp hd
    rw [hw.heldL] at hp
    rw [hw.parts]
    exact h.valid.dev z p hp
  · rcases h.wr with hn | hr
    · left; rw [hasRes_of_stat0 hw.len hw.stat0]; exact hn
    · right
      refine ⟨by rw [hw.rm]; exact hr.1, fun z hz => ?_⟩
      rw [hw.field Dev.waitingRes (fun _ _ _ => rfl) z] at hz
      rw [hw.field Dev.resReq (fun _ _ _ => rfl) z, hw.rm]
      exact hr.2 z hz
  · intro d p hd hdE
    rw [hw.holdsD] at hd
    exact absurd (List.mem_range.mpr (holdsD_lt hd)) hdE

/-- every exempt device satisfies its clause: nobody is exempt any more -/
theorem G.unexemptAll {E E' N A : List Nat} {w : World} (h : G E' N A w)
    (hx : ∀ d p, holdsD (w.dev d) = some p → d ∉ E → Att w d ∨ Blocked w N A d p) : G E N A w :=
  ⟨h.sc, h.pl, h.inv, h.now0, h.ev, h.valid, h.kv, h.stk, h.wr, h.aok, hx⟩

/-- controller edges and chains survive additional connections -/
theorem CEdge.mono_wire {w w' : World} (hk : ∀ z, (w'.dev z).kind = (w.dev z).kind)
    (hgrp : ∀ z, (w'.dev z).group = (w.dev z).group) (hgroups : w'.groups = w.groups)
    (hd : ∀ z, ∀ y ∈ (w.dev z).down, y ∈ (w'.dev z).down) {y z c : Nat} (h : CEdge w y z c) :
    CEdge w' y z c := by
  have hgi : ∀ z, groupIn w' z = groupIn w z := fun z => by unfold groupIn; rw [hgrp, hgroups]
  have hgo : ∀ z, groupOut w' z = groupOut w z := fun z => by unfold groupOut; rw [hgrp, hgroups]
  cases h with
  | gate hy hz => exact .gate (by rw [hk]; exact hy) (hd _ _ hz)
  | ginput hy hz => exact .ginput (by rw [hk]; exact hy) (hd _ _ hz)
  | gpath hy => rw [← hgi]; exact .gpath (by rw [hk]; exact hy)
  | goutput g hy hg ho hz =>
    exact .goutput g (by rw [hk]; exact hy) (by rw [hk]; exact hg) (by rw [hgo]; exact ho) (hd _ _ hz)

theorem CChain.mono_wire {w w' : World} (hk : ∀ z, (w'.dev z).kind = (w.dev z).kind)
    (hgrp : ∀ z, (w'.dev z).group = (w.dev z).group) (hgroups : w'.groups = w.groups)
    (hd : ∀ z, ∀ y ∈ (w.dev z).down, y ∈ (w'.dev z).down) {l k y x : Nat} (h : CChain w l k y x) :
    CChain w' l k y x := by
  induction h with
  | here x => exact .here x
  | step he _ ih => exact .step (he.mono_wire hk hgrp hgroups hd) ih

/-- **Localisation of a new connection behind a group path**: `w'` is `w` with other downstream
neighbours of the group path `u` only.  If `y` accepts in `w'` but not in `w` (same masks), the
offer reaches the group output of `u` through controllers (connections of `w`). -/
theorem wouldAcceptS_edge {w w' : World} {N A : List Nat} {u p : Nat}
    (hku : (w.dev u).kind = .gpath)
    (hk : ∀ z, (w'.dev z).kind = (w.dev z).kind)
    (hpred : ∀ z, (w'.dev z).pred = (w.dev z).pred)
    (hgrp : ∀ z, (w'.dev z).group = (w.dev z).group)
    (hgroups : w'.groups = w.groups)
    (hg : ∀ pr, w'.gatePred pr p = w.gatePred pr p)
    (hacc : ∀ z, accM w' z p = accM w z p)
    (hdown : ∀ z, z ≠ u → (w'.dev z).down = (w.dev z).down) :
    ∀ f y stk, wouldAcceptS f w' N A y p stk = true → wouldAcceptS f w N A y p stk = false →
      ∃ l k, CChain w l k y (groupOut w u) := by
  have hgi : ∀ z, groupIn w' z = groupIn w z := fun z => by unfold groupIn; rw [hgrp, hgroups]
  have hgo : ∀ z, groupOut w' z = groupOut w z := fun z => by unfold groupOut; rw [hgrp, hgroups]
  intro f
  induction f with
  | zero => intro y stk h; cases h
  | succ f ih =>
    intro y stk h h'
    unfold wouldAcceptS at h h'
    rw [hk y, hpred y, hg, hgi, hacc] at h
    by_cases hgout : (w.dev y).kind = .goutput
    · simp only [hgout, bne_self_eq_false, Bool.and_false, Bool.false_eq_true, if_false] at h h'
      cases hl : stk.getLast? with
      | none => simp [hl] at h
      | some g =>
        simp only [hl, Bool.and_eq_true, List.any_eq_true, beq_iff_eq] at h
        obtain ⟨⟨h1, h2⟩, z, hz, h3⟩ := h
        rw [hk g] at h1
        rw [hgo g] at h2
        by_cases hgu : g = u
        · subst hgu
          rw [h2]
          exact ⟨0, 0, .here _⟩
        · rw [hdown g hgu] at hz
          simp only [hl, h1, h2, beq_self_eq_true, Bool.and_self, Bool.true_and] at h'
          have h4 : wouldAcceptS f w N A z p stk.dropLast = false := by
            cases hh : wouldAcceptS f w N A z p stk.dropLast with
            | false => rfl
            | true =>
              have : (w.dev g).down.any (fun y => wouldAcceptS f w N A y p stk.dropLast) = true :=
                List.any_eq_true.mpr ⟨z, hz, hh⟩
              rw [this] at h'; cases h'
          obtain ⟨l, k, hc⟩ := ih z _ h3 h4
          exact ⟨l + 1, 3 + k, .step (.goutput g hgout h1 h2 hz) hc⟩
    · have hne : ((w.dev y).kind != Kind.goutput) = true := by simpa using hgout
      rw [hne, Bool.and_true] at h h'
      by_cases hy : y ∈ N
      · simp [hy] at h
      · have hy' : N.contains y = false := by simpa using hy
        rw [hy'] at h h'
        simp only [Bool.false_eq_true, if_false] at h h'
        cases hkind : (w.dev y).kind <;> simp only [hkind] at h h'
        case gate =>
          have hyu : y ≠ u := by rintro rfl; rw [hku] at hkind; cases hkind
          simp only [Bool.and_eq_true, List.any_eq_true] at h
          obtain ⟨⟨h1, h2⟩, z, hz, h3⟩ := h
          rw [h1, h2, Bool.true_and, Bool.true_and] at h'
          rw [hdown y hyu] at hz
          have h4 : wouldAcceptS f w N A z p stk = false := by
            cases hh : wouldAcceptS f w N A z p stk with
            | false => rfl
            | true =>
              have : (w.dev y).down.any (fun y => wouldAcceptS f w N A y p stk) = true :=
                List.any_eq_true.mpr ⟨z, hz, hh⟩
              rw [this] at h'; cases h'
          obtain ⟨l, k, hc⟩ := ih z _ h3 h4
          exact ⟨l + 1, 2 + k, .step (.gate hkind hz) hc⟩
        case ginput =>
          have hyu : y ≠ u := by rintro rfl; rw [hku] at hkind; cases hkind
          simp only [Bool.and_eq_true, List.any_eq_true] at h
          obtain ⟨h2, z, hz, h3⟩ := h
          rw [h2, Bool.true_and] at h'
          rw [hdown y hyu] at hz
          have h4 : wouldAcceptS f w N A z p stk = false := by
            cases hh : wouldAcceptS f w N A z p stk with
            | false => rfl
            | true =>
              have : (w.dev y).down.any (fun y => wouldAcceptS f w N A y p stk) = true :=
                List.any_eq_true.mpr ⟨z, hz, hh⟩
              rw [this] at h'; cases h'
          obtain ⟨l, k, hc⟩ := ih z _ h3 h4
          exact ⟨l + 1, 2 + k, .step (.ginput hkind hz) hc⟩
        case gpath =>
          simp only [Bool.and_eq_true] at h
          rw [h.1, Bool.true_and] at h'
          obtain ⟨l, k, hc⟩ := ih _ _ h.2 h'
          exact ⟨l + 1, 1 + k, .step (.gpath hkind) hc⟩
        case goutput => exact absurd hkind hgout
        all_goals (rw [h] at h'; cases h')

/-! ### the preparation phase of `rewire` -/

/-- disconnect `x` from the devices of `l` -/
def eraseFold (x : Nat) (l : List Nat) (w : World) : World :=
  l.foldl (fun w u => w.modDev u (fun du => { du with down := du.down.erase x })) w

theorem eraseFold_wire (x : Nat) (l : List Nat) (w : World) : WireOnly w (eraseFold x l w) :=
  WireOnly.foldl _ (fun w u => WireOnly.modDev w u _ (fun _ => rfl)) l w

theorem eraseFold_spec (x : Nat) : ∀ (l : List Nat) (w : World) (z : Nat),
    ((eraseFold x l w).dev z).up = (w.dev z).up ∧
    ((eraseFold x l w).dev z).down.Sublist (w.dev z).down ∧
    (z ∈ l → z < w.devs.length →
      ((eraseFold x l w).dev z).down.count x ≤ (w.dev z).down.count x - 1) := by
  intro l
  induction l with
  | nil => intro w z; exact ⟨rfl, List.Sublist.refl _, fun h => nomatch h⟩
  | cons a l ih =>
    intro w z
    have e : eraseFold x (a :: l) w =
        eraseFold x l (w.modDev a (fun du => { du with down := du.down.erase x })) := rfl
    rw [e]
    obtain ⟨h1, h2, h3⟩ := ih (w.modDev a (fun du => { du with down := du.down.erase x })) z
    have hup : ((w.modDev a (fun du => { du with down := du.down.erase x })).dev z).up = (w.dev z).up :=
      modDev_dev_field Dev.up w a _ rfl z
    have hdn : ((w.modDev a (fun du => { du with down := du.down.erase x })).dev z).down.Sublist
        (w.dev z).down := by
      rw [dev_modDev]; split
      · next hc => rw [hc.1]; exact List.erase_sublist
      · exact List.Sublist.refl _
    refine ⟨h1.trans hup, h2.trans hdn, fun hz hzl => ?_⟩
    by_cases haz : a = z
    · subst haz
      have hd : ((w.modDev a (fun du => { du with down := du.down.erase x })).dev a).down =
          (w.dev a).down.erase x := by rw [dev_modDev_same hzl]
      have hc : ((w.dev a).down.erase x).count x = (w.dev a).down.count x - 1 := by
        rw [List.count_erase_self]
      have := h2.count_le x
      rw [hd, hc] at this
      exact this
    · have hzl' : z ∈ l := by
        rcases List.mem_cons.mp hz with h | h
        · exact absurd h.symm haz
        · exact h
      have := h3 hzl' (by simpa using hzl)
      rw [dev_modDev_ne haz] at this
      exact this

/-- the state after the preparation phase, starting from a world whose idle clock has been reset -/
def rewireWire (w : World) (x : Nat) (ups : List Nat) : World :=
  (eraseFold x (w.dev x).up w).modDev x (fun d => { d with up := ups })

theorem rewirePre_eq (w : World) (x : Nat) (ups : List Nat) :
    rewirePre w x ups =
      rewireWire (if isHandlerLike (w.dev x).kind && (w.dev x).since.isSome && (w.dev x).inited
        then w.setWaiting x true true else w) x ups := rfl

theorem rewireWire_wire (w : World) (x : Nat) (ups : List Nat) : WireOnly w (rewireWire w x ups) :=
  (eraseFold_wire x _ w).trans (WireOnly.modDev _ x _ (fun _ => rfl))

theorem rewireWire_up (w : World) (x : Nat) (ups : List Nat) (hx : x < w.devs.length) (z : Nat) :
    ((rewireWire w x ups).dev z).up = if z = x then ups else (w.dev z).up := by
  unfold rewireWire
  rw [dev_modDev]
  have hl : (eraseFold x (w.dev x).up w).devs.length = w.devs.length := (eraseFold_wire x _ w).len
  by_cases hzx : z = x
  · subst hzx
    rw [if_pos ⟨rfl, by rw [hl]; exact hx⟩, if_pos rfl]
  · rw [if_neg (fun hc => hzx hc.1.symm), if_neg hzx]
    exact (eraseFold_spec x _ w z).1

theorem rewireWire_down (w : World) (x : Nat) (ups : List Nat) (z : Nat) :
    ((rewireWire w x ups).dev z).down.Sublist (w.dev z).down := by
  unfold rewireWire
  rw [modDev_dev_field Dev.down _ x _ rfl z]
  exact (eraseFold_spec x _ w z).2.1

/-- after the preparation phase `x` is nobody's downstream neighbour -/
theorem rewireWire_isolated {w : World} (hs : SC w) (x : Nat) (ups : List Nat)
    (hc : ∀ d ∈ w.devs, d.down.count x ≤ 1) (z : Nat) : x ∉ ((rewireWire w x ups).dev z).down := by
  intro hmem
  unfold rewireWire at hmem
  rw [modDev_dev_field Dev.down _ x _ rfl z] at hmem
  obtain ⟨_, h2, h3⟩ := eraseFold_spec x (w.dev x).up w z
  have hx0 : x ∈ (w.dev z).down := h2.subset hmem
  have hzl : z < w.devs.length := by
    apply Nat.lt_of_not_le
    intro hc
    rw [dev_of_length_le hc] at hx0; cases hx0
  have hzu : z ∈ (w.dev x).up := (hs.down_sym hzl hx0).2
  have h4 := h3 hzu hzl
  have h5 := hc _ (dev_mem hzl)
  have h6 : 0 < ((eraseFold x (w.dev x).up w).dev z).down.count x := List.count_pos_iff.mpr hmem
  omega

/-! ### the static relation between the world after the preparation phase and the later ones -/

/-- `v` has the static data of `v0`, except that some devices of `ups` have `x` as an additional
(last) downstream neighbour -/
structure StatRel (x : Nat) (ups : List Nat) (v0 v : World) : Prop where
  len : v.devs.length = v0.devs.length
  scripts : v.scripts = v0.scripts
  targets : v.targets.map (·.dev) = v0.targets.map (·.dev)
  groups : v.groups = v0.groups
  st : ∀ z, stat0 (v.dev z) = stat0 (v0.dev z)
  up : ∀ z, (v.dev z).up = (v0.dev z).up
  down : ∀ z, (v.dev z).down = (v0.dev z).down ∨
    (z ∈ ups ∧ z < v0.devs.length ∧ x ∉ (v0.dev z).down ∧ (v.dev z).down = (v0.dev z).down ++ [x])

theorem StatRel.refl (x : Nat) (ups : List Nat) (v : World) : StatRel x ups v v :=
  ⟨rfl, rfl, rfl, rfl, fun _ => rfl, fun _ => rfl, fun _ => Or.inl rfl⟩

/-- a step that changes no static data -/
theorem StatRel.of_sw {x : Nat} {ups : List Nat} {v0 v v' : World} (h : StatRel x ups v0 v)
    (e : sw v' = sw v) : StatRel x ups v0 v' := by
  have hst : ∀ z, stat0 (v'.dev z) = stat0 (v.dev z) := fun z => by
    have := sw_stat e z
    have h2 := congrArg (fun d : Dev => ({ d with up := [], down := [] } : Dev)) this
    exact h2
  refine ⟨(sw_len e).trans h.len, (by have := congrArg World.scripts e; exact this : v'.scripts = v.scripts).trans h.scripts,
    ?_, (sw_groups e).trans h.groups, fun z => (hst z).trans (h.st z),
    fun z => (sw_up e z).trans (h.up z), fun z => by rw [sw_down e z]; exact h.down z⟩
  have ht : v'.targets.map (fun t => ({ dev := t.dev } : Target)) =
      v.targets.map (fun t => ({ dev := t.dev } : Target)) := by
    have := congrArg World.targets e; exact this
  have := congrArg (List.map (·.dev)) ht
  simp only [List.map_map, Function.comp_def] at this
  exact this.trans h.targets

/-- connecting one more device of `ups` -/
theorem StatRel.connect {x : Nat} {ups : List Nat} {v0 v : World} (h : StatRel x ups v0 v) {u : Nat}
    (hu : u ∈ ups) (hul : u < v.devs.length) (hnew : x ∉ (v.dev u).down) :
    StatRel x ups v0 (v.modDev u (fun du => { du with down := du.down ++ [x] })) := by
  refine ⟨by simp [h.len], h.scripts, h.targets, h.groups, fun z => ?_, fun z => ?_, fun z => ?_⟩
  · rw [modDev_dev_field stat0 v u _ rfl z]; exact h.st z
  · rw [modDev_dev_field Dev.up v u _ rfl z]; exact h.up z
  · rw [dev_modDev]
    split
    · next hc =>
      obtain ⟨rfl, _⟩ := hc
      rcases h.down u with hd | ⟨_, _, _, hd⟩
      · right
        refine ⟨hu, by rw [← h.len]; exact hul, by rw [← hd]; exact hnew, ?_⟩
        show (v.dev u).down ++ [x] = _
        rw [hd]
      · exfalso; apply hnew; rw [hd]; simp
    · exact h.down z

/-- **Every world of the connection phase is in the scope.** -/
theorem StatRel.sc {x : Nat} {ups : List Nat} {v0 v : World} (h : StatRel x ups v0 v) (hs : SC v0)
    (hx : x < v0.devs.length) (hupx : (v0.dev x).up = ups)
    (hedge : ∀ u ∈ ups, (u, x) ∈ rewEdges v0.scripts) : SC v := by
  have hk : ∀ z, (v.dev z).kind = (v0.dev z).kind := fun z => stat0_kind (h.st z)
  refine hs.rewired h.len h.scripts h.targets h.groups h.st (fun z hz => ?_) (fun z y hy => ?_)
    (fun z y hy => ?_) (fun l hl x' ups' hop z => ?_)
  · rw [h.up, ]
    rw [hk] at hz
    rcases hz with hz | hz
    · exact hs.source_up z hz
    · have hzl : z < v0.devs.length := kind_lt' (by rw [hz]; decide)
      exact (hs.groupOK hzl).2 hz
  · have hzl : z < v0.devs.length := by
      apply Nat.lt_of_not_le
      intro hc
      rw [dev_of_length_le (by rw [h.len]; exact hc)] at hy; cases hy
    rw [h.len, h.up]
    rcases h.down z with hd | ⟨hzu, _, _, hd⟩
    · rw [hd] at hy; exact hs.down_sym hzl hy
    · rw [hd] at hy
      rcases List.mem_append.mp hy with hy | hy
      · exact hs.down_sym hzl hy
      · rw [List.mem_singleton] at hy
        subst hy
        exact ⟨hx, by rw [hupx]; exact hzu⟩
  · rcases h.down z with hd | ⟨hzu, hzl, _, hd⟩
    · rw [hd] at hy; exact mem_envl_down_of_down hy
    · rw [hd] at hy
      rcases List.mem_append.mp hy with hy | hy
      · exact mem_envl_down_of_down hy
      · rw [List.mem_singleton] at hy
        subst hy
        rw [envl_down_lt hzl]
        exact List.mem_append_right _ (mem_extraDown.mpr (hedge z hzu))
  · have hop0 : OpSC v0 (.rewire x' ups') := opSC_of_sw v0 _ (hs.s.scripts l hl _ hop)
    have hc0 : ∀ z, (v0.dev z).down.count x' ≤ 1 := by
      intro z
      rcases dev_mem_or_default v0 z with hm | hd
      · exact hop0.2.2 _ hm
      · rw [hd]; exact Nat.zero_le _
    rcases h.down z with hd | ⟨_, _, hnx, hd⟩
    · rw [hd]; exact hc0 z
    · rw [hd, List.count_append]
      by_cases hxx : x = x'
      · subst hxx
        have : (v0.dev z).down.count x = 0 := List.count_eq_zero.mpr hnx
        rw [this]; simp
      · have : [x].count x' = 0 := by
          rw [List.count_eq_zero]
          intro hm
          exact hxx (List.mem_singleton.mp hm).symm
        rw [this]; exact hc0 z

/-! ### one step of the connection phase -/

theorem spaceAvailable_eq (w : World) (u : Nat) :
    w.spaceAvailable u = spaceAvail (2 * w.devs.length + 2 + 1) w u := rfl

theorem G.spaceAvailableG {E N A : List Nat} {w : World} (h : G E N A w) (u : Nat) :
    G E N A (w.spaceAvailable u) :=
  h.ofStep (step_spaceAvailable w u) (envStep_notify_aux _ w u).2

/-- **Connection added.**  `u` gets `x` as a new downstream neighbour and is told that there is
space downstream: the invariant is kept. -/
theorem G.connectG {E N : List Nat} {v : World} (h : G E N [] v) (x u : Nat)
    (hsc1 : SC (v.modDev u (fun du => { du with down := du.down ++ [x] })))
    (hul : u < v.devs.length) :
    G E N [] ((v.modDev u (fun du => { du with down := du.down ++ [x] })).spaceAvailable u) := by
  have hw : WireOnly v (v.modDev u (fun du => { du with down := du.down ++ [x] })) :=
    WireOnly.modDev v u _ (fun _ => rfl)
  have hdu : ((v.modDev u (fun du => { du with down := du.down ++ [x] })).dev u) =
      { v.dev u with down := (v.dev u).down ++ [x] } := dev_modDev_same hul
  have hdne : ∀ z, z ≠ u → (v.modDev u (fun du => { du with down := du.down ++ [x] })).dev z = v.dev z :=
    fun z hz => dev_modDev_ne (Ne.symm hz)
  have hsame : ∀ z, z ≠ u → ∀ y ∈ ((v.modDev u (fun du => { du with down := du.down ++ [x] })).dev z).down,
      y ∈ (v.dev z).down := fun z hz y hy => by rw [hdne z hz] at hy; exact hy
  generalize hv1 : v.modDev u (fun du => { du with down := du.down ++ [x] }) = v1 at hw hdu hdne hsame hsc1
  have hk1 : (v1.dev u).kind = (v.dev u).kind := hw.kind u
  have hl1 : v1.devs.length = v.devs.length := hw.len
  by_cases hhl : isHandlerLike (v.dev u).kind = true
  · -- a part handler: it is exempt until it has its attempt
    have h1 : G (u :: E) N [] v1 := by
      refine h.rewiring hw hsc1 (fun y hy => List.mem_cons_of_mem _ hy) (fun _ hy => hy)
        (fun d p _ => ?_) (fun z hz _ => hsame z ?_) (fun z hz => hsame z ?_)
      · by_cases hdu' : d = u
        · left; rw [hdu']; exact List.mem_cons_self ..
        · right; exact hsame d hdu'
      · rintro rfl; rcases hz with hz | hz <;> (rw [hz] at hhl; cases hhl)
      · rintro rfl; rw [hz] at hhl; cases hhl
    rw [spaceAvailable_eq, spaceAvail_handlerLike _ v1 u (by rw [hk1]; exact hhl)]
    split
    · exact h1.schedulePass u 0 (Int.le_refl _) (fun y hy => (List.mem_cons.mp hy).imp id id)
        (fun p _ => by rw [Int.add_zero]; exact le_dueD _ _)
    · next hcond =>
      by_cases huE : u ∈ E
      · exact h1.mono (fun y hy => by
          rcases List.mem_cons.mp hy with rfl | hy
          · exact huE
          · exact hy) (fun _ hy => hy) (fun _ hy => hy)
      · refine h1.unexempt u (fun y hy => (List.mem_cons.mp hy).imp id id) (fun p hp => Or.inl ?_)
        rw [hw.holdsD] at hp
        have hop : v1.operational u = true := by
          rw [operational_eq, hw.field opn (fun _ _ _ => rfl) u]; exact holdsD_opn hp
        have hfl : (v1.dev u).waitingDS = false := by
          cases hf : (v1.dev u).waitingDS with
          | false => rfl
          | true => rw [hop, hf] at hcond; exact absurd rfl hcond
        rcases h.wake u p hp huE with ha | hb
        · refine att_mono (by rw [hw.env]; exact fun _ he => he)
            (hw.field Dev.aid (fun _ _ _ => rfl) u) ?_ ha
          rw [hw.now, hw.field (dueD v.now) (fun _ _ _ => rfl) u]
          exact Int.le_refl _
        · rw [hw.field Dev.waitingDS (fun _ _ _ => rfl) u, hb.1] at hfl; cases hfl
  · have hnh : isHandlerLike (v.dev u).kind = false := by simpa using hhl
    have hnohold : ∀ d p, holdsD (v.dev d) = some p → d ≠ u := by
      rintro d p hd rfl
      rw [holdsD_nonHL hnh] at hd; cases hd
    by_cases hgp : (v.dev u).kind = .gpath
    · -- a group path: the parts inside the group that will leave through it are woken through the
      -- group output
      have hall : G (List.range v.devs.length) N [] v1 := h.rewiringAll hw hsc1
      have hst := step_spaceAvailable v1 u
      have hes : EnvStep v1 (v1.spaceAvailable u) := (envStep_notify_aux v1.fuel v1 u).2
      have h2 : G (List.range v.devs.length) N [] (v1.spaceAvailable u) := hall.ofStep hst hes
      refine h2.unexemptAll (fun d p hd hdE => ?_)
      have hc := hst.core
      have hd1 : holdsD (v1.dev d) = some p := by
        rw [← holdsD_core, ← core_eq_dev hc, holdsD_core]; exact hd
      have hd0 : holdsD (v.dev d) = some p := by rw [← hw.holdsD]; exact hd1
      have hdlt : d < v.devs.length := holdsD_lt hd0
      have hdu' : d ≠ u := hnohold d p hd0
      have haid : ((v1.spaceAvailable u).dev d).aid = (v.dev d).aid :=
        (core_eq_dev_aid hc d).trans (hw.field Dev.aid (fun _ _ _ => rfl) d)
      have hnow : (v1.spaceAvailable u).now = v.now := hst.mono.now.trans hw.now
      have hdue : dueD v.now (v.dev d) = dueD (v1.spaceAvailable u).now ((v1.spaceAvailable u).dev d) := by
        rw [hnow, ← dueD_core _ ((v1.spaceAvailable u).dev d), core_eq_dev hc, dueD_core,
          hw.field (dueD v.now) (fun _ _ _ => rfl) d]
      rcases h.wake d p hd0 hdE with ha | hb
      · left
        exact att_mono (fun e he => hst.mono.mem (by rw [hw.env]; exact he)) haid
          (by rw [hdue]; exact Int.le_refl _) ha
      · have hfl1 : (v1.dev d).waitingDS = true := by
          rw [hw.field Dev.waitingDS (fun _ _ _ => rfl) d]; exact hb.1
        cases hfl : ((v1.spaceAvailable u).dev d).waitingDS with
        | false =>
          left
          rcases hst.pend d (Or.inl hfl1) with h3 | h3
          · rw [hfl] at h3; cases h3
          · obtain ⟨e, he, h4, h5, _, h7, h8⟩ := h3
            refine ⟨e, he, h4, h7, h8, ?_⟩
            rw [h5, passTime_of_nonneg (by rw [hnow]; exact h.now0)]
            exact le_dueD _ _
        | true =>
          refine Or.inr ⟨hfl, fun y hy => ?_⟩
          rw [core_eq_dev_down hc, hdne d hdu'] at hy
          cases hh : wouldAcceptN (v1.spaceAvailable u).fuel (v1.spaceAvailable u) N [] y p with
          | false => rfl
          | true =>
            exfalso
            rw [fuel_of_len (core_eq_devs_length hc), wouldAcceptN_core hc, hw.fuel] at hh
            have hb2 := hb.2 y hy
            unfold wouldAcceptN at hh hb2
            have hstk : (v1.part p).stack = (v.part p).stack := by unfold World.part; rw [hw.parts]
            rw [hstk] at hh
            obtain ⟨l, k, hch⟩ := wouldAcceptS_edge (w := v) (w' := v1) (N := N) (A := []) (u := u)
              (p := p) hgp hw.kind (hw.field Dev.pred (fun _ _ _ => rfl))
              (hw.field Dev.group (fun _ _ _ => rfl)) hw.groups
              (fun pr => by unfold World.gatePred World.partValue World.part; rw [hw.parts])
              (fun z => hw.accM z p) (fun z hz => by rw [hdne z hz]) _ y _ hh hb2
            -- the chain exists in the new wiring as well
            have hch1 : CChain v1 l k y (groupOut v u) :=
              hch.mono_wire hw.kind (hw.field Dev.group (fun _ _ _ => rfl)) hw.groups
                (fun z y' hy' => by
                  by_cases hzu : z = u
                  · subst hzu; rw [hdu]; exact List.mem_append_left _ hy'
                  · rw [hdne z hzu]; exact hy')
            have hgo1 : groupOut v1 u = groupOut v u := by
              unfold groupOut; rw [hw.field Dev.group (fun _ _ _ => rfl) u, hw.groups]
            have hul1 : u < v1.devs.length := by rw [hl1]; exact hul
            have hgpk1 : (v1.dev u).kind = .gpath := by rw [hk1]; exact hgp
            obtain ⟨_, hgok, _⟩ := ((hsc1.groupOK hul1).1 hgpk1).2.2.2
            rw [hgo1] at hgok
            have hy1 : y ∈ (v1.dev d).down := by rw [hdne d hdu']; exact hy
            have hdlt1 : d < v1.devs.length := by rw [hl1]; exact hdlt
            obtain ⟨hylt, hdy⟩ := hsc1.down_sym hdlt1 hy1
            have hxd : x ∈ (v1.dev u).down := by rw [hdu]; simp
            have hedge : CEdge v1 (groupOut v u) x 3 := .goutput u hgok hgpk1 hgo1 hxd
            have hkn := ((hch1.snoc hedge).bound hsc1 _ _ (hsc1.cost hylt)).2
            have hnode : NodeOK v1 (groupOut v u) := by
              left; unfold forwardsUp; rw [hgok]
            have hny : NodeOK v1 y := by
              cases hch1 with
              | here _ => exact hnode
              | step he _ => exact nodeOK_ctrl he
            have hl0 : isHandlerLike (v1.dev d).kind = true := by
              rw [hw.kind]; exact (holdsD_hl hd0).1
            have hr : C03.Reach v1 true (1 + 1 + k) (groupOut v u) d :=
              hch1.reach hsc1 _ hylt hnode
                (.up (forwards_of_up hsc1 hylt hny hdy) hdy (.self (n := 0) hl0))
            have hr2 : C03.Reach v1 false (2 * v1.devs.length + 2 + 1) u d := by
              have h5 : C03.Reach v1 true (2 * v1.devs.length + 1) (groupOut v u) d :=
                hr.le (by rw [hl1] at hkn ⊢; omega)
              have h6 : C03.Reach v1 false (2 * v1.devs.length + 1 + 1) (groupOut v u) d :=
                .fwd (Or.inr (Or.inr hgok)) h5
              exact .gpath hgpk1 (by
                show C03.Reach v1 false (2 * v1.devs.length + 2) (groupOut v1 u) d
                rw [hgo1]; exact h6)
            have hwk := reach_wakes hdlt1 (by rw [hw.kind]; exact (holdsD_hl hd0).2)
              (by rw [operational_eq, hw.field opn (fun _ _ _ => rfl) d]; exact holdsD_opn hd0)
              hr2 v1 rfl (Or.inl hfl1)
            have : ((v1.spaceAvailable u).dev d).waitingDS = false := hwk.1
            rw [this] at hfl; cases hfl
    by_cases hfw : (v.dev u).kind = .gate ∨ (v.dev u).kind = .ginput
    · -- a gate or a group input: its notification is pending until it has passed it on
      have h1 : G E (u :: N) [] v1 := by
        refine h.rewiring hw hsc1 (fun _ hy => hy) (fun y hy => List.mem_cons_of_mem _ hy)
          (fun d p hd => Or.inr (hsame d (hnohold d p hd))) (fun z _ hzN => hsame z ?_)
          (fun z hz => hsame z ?_)
        · rintro rfl; exact hzN (List.mem_cons_self ..)
        · rintro rfl; rcases hfw with h2 | h2 <;> (rw [h2] at hz; cases hz)
      have hfw1 : (v1.dev u).kind = .gate ∨ (v1.dev u).kind = .ginput ∨ (v1.dev u).kind = .goutput := by
        rw [hk1]; rcases hfw with h2 | h2
        · exact Or.inl h2
        · exact Or.inr (Or.inl h2)
      rw [spaceAvailable_eq, spaceAvail_forward _ v1 u hfw1]
      refine h1.notifyUpG u _ (fun y l k hylt hch => ?_) (fun y hy => (List.mem_cons.mp hy).imp id id)
        (fun _ hy => nomatch hy)
      have hxd : x ∈ (v1.dev u).down := by rw [hdu]; simp
      have hedge : CEdge v1 u x 2 := by
        rcases hfw with h2 | h2
        · exact .gate (by rw [hk1]; exact h2) hxd
        · exact .ginput (by rw [hk1]; exact h2) hxd
      have := ((hch.snoc hedge).bound hsc1 _ _ (hsc1.cost hylt)).2
      omega
    · -- a group output: nobody reads its `down` list
      have hgo : (v.dev u).kind = .goutput := by
        cases hkk : (v.dev u).kind <;> simp_all [isHandlerLike]
      have h1 : G E N [] v1 := by
        refine h.rewiring hw hsc1 (fun _ hy => hy) (fun _ hy => hy)
          (fun d p hd => Or.inr (hsame d (hnohold d p hd))) (fun z hz _ => hsame z ?_)
          (fun z hz => hsame z ?_)
        · rintro rfl; rcases hz with h2 | h2 <;> (rw [hgo] at h2; cases h2)
        · rintro rfl; rw [hgo] at hz; cases hz
      exact h1.spaceAvailableG u

/-- one step of the final loop of `rewire` keeps the static relation -/
theorem statRel_rewireStep {x : Nat} {ups : List Nat} {v0 v : World} (hr : StatRel x ups v0 v)
    {u : Nat} (hu : u ∈ ups) : StatRel x ups v0 (rewireStep x v u) := by
  by_cases hul : u < v.devs.length
  · by_cases hnew : x ∈ (v.dev u).down
    · rw [rewireStep_connected x v u hnew]; exact hr
    · have hr1 := hr.connect hu hul hnew
      unfold rewireStep
      rw [if_neg (by simpa using hnew)]
      dsimp only
      split
      · exact hr1.of_sw (sw_of_core (spaceAvailable_core _ u))
      · exact hr1
  · have e : rewireStep x v u = v := by
      unfold rewireStep
      rw [dev_of_length_le (Nat.le_of_not_lt hul)]
      simp only [modDev_out_of_range (Nat.le_of_not_lt hul)]
      rw [dev_of_length_le (Nat.le_of_not_lt hul)]
      rfl
    rw [e]; exact hr

theorem statRel_fold {x : Nat} {ups : List Nat} {v0 : World} : ∀ (l : List Nat), (∀ u ∈ l, u ∈ ups) →
    ∀ v, StatRel x ups v0 v → StatRel x ups v0 (l.foldl (rewireStep x) v) := by
  intro l
  induction l with
  | nil => intro _ v hv; exact hv
  | cons a l ih =>
    intro hsub v hv
    exact ih (fun u hu => hsub u (List.mem_cons_of_mem _ hu)) _
      (statRel_rewireStep hv (hsub a (List.mem_cons_self ..)))

/-- after the final loop every (existing, initialised) device of the list has `x` downstream -/
theorem rewireFold_connected (x : Nat) : ∀ (l : List Nat) (v : World) (u : Nat), u ∈ l →
    u < v.devs.length → x ∈ ((l.foldl (rewireStep x) v).dev u).down := by
  have hkeep : ∀ (l : List Nat) (v : World) (u : Nat), x ∈ (v.dev u).down →
      x ∈ ((l.foldl (rewireStep x) v).dev u).down := by
    intro l
    induction l with
    | nil => intro v u h; exact h
    | cons a l ih => intro v u h; exact ih _ u (rewireStep_down_mem x v a u h)
  intro l
  induction l with
  | nil => intro v u hu; cases hu
  | cons a l ih =>
    intro v u hu hul
    rw [List.foldl_cons]
    have hlen : (rewireStep x v a).devs.length = v.devs.length := (keeps_rewireStep 0 x v a).len
    by_cases hau : a = u
    · subst hau
      refine hkeep l _ a ?_
      by_cases hnew : x ∈ (v.dev a).down
      · rw [rewireStep_connected x v a hnew]; exact hnew
      · unfold rewireStep
        rw [if_neg (by simpa using hnew)]
        dsimp only
        split
        · rw [core_eq_dev_down (spaceAvailable_core _ a) a, dev_modDev_same hul]; simp
        · rw [dev_modDev_same hul]; simp
    · have hu' : u ∈ l := by
        rcases List.mem_cons.mp hu with h | h
        · exact absurd h.symm hau
        · exact h
      exact ih _ u hu' (by rw [hlen]; exact hul)

/-- one step of the final loop of `rewire` -/
theorem G.rewireStepG {E N : List Nat} {x : Nat} {ups : List Nat} {v0 v : World} (h : G E N [] v)
    (hr : StatRel x ups v0 v) (hsc : ∀ v', StatRel x ups v0 v' → SC v')
    (hini : ∀ z, z < v.devs.length → (v.dev z).inited = true) {u : Nat} (hu : u ∈ ups) :
    G E N [] (rewireStep x v u) ∧ StatRel x ups v0 (rewireStep x v u) ∧
      (∀ z, z < (rewireStep x v u).devs.length → ((rewireStep x v u).dev z).inited = true) := by
  by_cases hul : u < v.devs.length
  · by_cases hnew : x ∈ (v.dev u).down
    · rw [rewireStep_connected x v u hnew]; exact ⟨h, hr, hini⟩
    · rw [rewireStep_new x v u hul hnew (hini u hul)]
      have hr1 := hr.connect hu hul hnew
      have hsc1 := hsc _ hr1
      refine ⟨h.connectG x u hsc1 hul,
        hr1.of_sw (sw_of_core (spaceAvailable_core _ u)), fun z hz => ?_⟩
      rw [core_eq_field Dev.inited (fun _ => rfl) (spaceAvailable_core _ u),
        modDev_dev_field Dev.inited v u _ rfl z]
      exact hini z (by simpa [core_eq_devs_length (spaceAvailable_core _ u)] using hz)
  · have e : rewireStep x v u = v := by
      unfold rewireStep
      rw [dev_of_length_le (Nat.le_of_not_lt hul)]
      simp only [modDev_out_of_range (Nat.le_of_not_lt hul)]
      rw [dev_of_length_le (Nat.le_of_not_lt hul)]
      rfl
    rw [e]; exact ⟨h, hr, hini⟩

/-! ### `rewire` -/

/-- the world in which `rewire` starts re-wiring: the idle clock of `x` has been restarted -/
def rewireClock (w : World) (x : Nat) : World :=
  if isHandlerLike (w.dev x).kind && (w.dev x).since.isSome && (w.dev x).inited
    then w.setWaiting x true true else w

theorem rewireClock_core (w : World) (x : Nat) : (rewireClock w x).core = w.core := by
  unfold rewireClock
  split
  · exact setWaiting_core w x true true
  · rfl

theorem rewire_eq_fold (w : World) (x : Nat) (ups : List Nat) :
    w.rewire x ups = ups.foldl (rewireStep x) (rewireWire (rewireClock w x) x ups) := rfl

/-- **`rewire x ups` preserves the invariant** provided every world of the connection phase is in
the scope (`hsc`; the two ways to guarantee this are `G.rewireG` — the re-wiring occurs in a script,
so that its connections lie in the envelope — and `G.rewireD` — the re-wired world is in the
scope). -/
theorem G.rewireCore {E N : List Nat} {w : World} (h : G E N [] w) (x : Nat) (ups : List Nat)
    (hok : RewOK w x ups)
    (hini : ∀ z, z < w.devs.length → (w.dev z).inited = true)
    (hsc : SC (rewireClock w x) → ∀ v', StatRel x ups (rewireWire (rewireClock w x) x ups) v' → SC v') :
    G E N [] (w.rewire x ups) := by
  rw [rewire_eq_fold]
  have ha : G E N [] (rewireClock w x) := by
    unfold rewireClock
    split
    · exact h.setWaiting x true true
    · exact h
  have hca := rewireClock_core w x
  generalize rewireClock w x = wa at ha hca hsc
  have hswa : sw wa = sw w := sw_of_core hca
  have hoka : RewOK wa x ups := rewOK_of_sw hswa hok
  have hinia : ∀ z, z < wa.devs.length → (wa.dev z).inited = true := fun z hz => by
    rw [core_eq_field Dev.inited (fun _ => rfl) hca]
    exact hini z (by rw [← core_eq_devs_length hca]; exact hz)
  obtain ⟨hxl, hsrc, hcnt⟩ := hoka
  -- the preparation phase
  have hw := rewireWire_wire wa x ups
  have hdn := rewireWire_down wa x ups
  have hsc' := hsc ha.sc
  have hscc : SC (rewireWire wa x ups) := hsc' _ (StatRel.refl x ups _)
  have hc : G E N [] (rewireWire wa x ups) :=
    ha.rewiring hw hscc (fun _ hy => hy) (fun _ hy => hy)
      (fun d p _ => Or.inr (fun y hy => (hdn d).subset hy))
      (fun z _ _ y hy => (hdn z).subset hy) (fun z _ y hy => (hdn z).subset hy)
  have hinic : ∀ z, z < (rewireWire wa x ups).devs.length →
      ((rewireWire wa x ups).dev z).inited = true := fun z hz => by
    rw [hw.field Dev.inited (fun _ _ _ => rfl) z]
    exact hinia z (by rw [← hw.len]; exact hz)
  generalize rewireWire wa x ups = wc at hc hsc' hinic
  -- the connection phase
  have key : ∀ (l : List Nat), (∀ u ∈ l, u ∈ ups) → ∀ v, G E N [] v → StatRel x ups wc v →
      (∀ z, z < v.devs.length → (v.dev z).inited = true) → G E N [] (l.foldl (rewireStep x) v) := by
    intro l
    induction l with
    | nil => intro _ v hv _ _; exact hv
    | cons a l ih =>
      intro hsub v hv hr hi
      obtain ⟨h1, h2, h3⟩ := hv.rewireStepG hr hsc' hi (hsub a (List.mem_cons_self ..))
      exact ih (fun u hu => hsub u (List.mem_cons_of_mem _ hu)) _ h1 h2 h3
  exact key ups (fun _ hu => hu) wc hc (StatRel.refl x ups wc) hinic

/-- the world after the preparation phase is in the scope (its connections are connections of the
world before) -/
theorem sc_rewireWire {wa : World} (hs : SC wa) (x : Nat) (ups : List Nat) (hok : RewOK wa x ups) :
    SC (rewireWire wa x ups) := by
  obtain ⟨hxl, hsrc, hcnt⟩ := hok
  have hw := rewireWire_wire wa x ups
  have hup := rewireWire_up wa x ups hxl
  have hdn := rewireWire_down wa x ups
  have hiso := rewireWire_isolated hs x ups hcnt
  refine hs.rewired hw.len hw.scripts (by rw [hw.targets]) hw.groups hw.stat0 (fun z hz => ?_)
    (fun z y hy => ?_) (fun z y hy => mem_envl_down_of_down ((hdn z).subset hy))
    (fun l' hl' x' ups' hop' z => ?_)
  · rw [hup]
    rw [hw.kind] at hz
    split
    · next hzx => subst hzx; exact hsrc hz
    · rcases hz with hz | hz
      · exact hs.source_up z hz
      · have hzl : z < wa.devs.length := kind_lt' (by rw [hz]; decide)
        exact (hs.groupOK hzl).2 hz
  · have hy0 : y ∈ (wa.dev z).down := (hdn z).subset hy
    have hzl : z < wa.devs.length := by
      apply Nat.lt_of_not_le
      intro hc
      rw [dev_of_length_le hc] at hy0; cases hy0
    obtain ⟨h1, h2⟩ := hs.down_sym hzl hy0
    refine ⟨by rw [hw.len]; exact h1, ?_⟩
    rw [hup]
    split
    · next hyx => subst hyx; exact absurd hy (hiso z)
    · exact h2
  · have hop0 : OpSC wa (.rewire x' ups') := opSC_of_sw wa _ (hs.s.scripts l' hl' _ hop')
    refine Nat.le_trans ((hdn z).count_le x') ?_
    rcases dev_mem_or_default wa z with hm | hd
    · exact hop0.2.2 _ hm
    · rw [hd]; exact Nat.zero_le _

/-- **`rewire x ups` preserves the invariant**, for an admissible re-wiring (`RewOK`) that occurs in
a script (so that its connections lie in the envelope), in a world whose devices are initialised. -/
theorem G.rewireG {E N : List Nat} {w : World} (h : G E N [] w) (x : Nat) (ups : List Nat)
    (hok : RewOK w x ups) (hscr : ∃ l ∈ w.scripts, Op.rewire x ups ∈ l)
    (hini : ∀ z, z < w.devs.length → (w.dev z).inited = true) :
    G E N [] (w.rewire x ups) := by
  refine h.rewireCore x ups hok hini (fun hsa v' hr => ?_)
  have hca := rewireClock_core w x
  have hoka : RewOK (rewireClock w x) x ups := rewOK_of_sw (sw_of_core hca) hok
  have hw := rewireWire_wire (rewireClock w x) x ups
  obtain ⟨l, hl, hop⟩ := hscr
  refine hr.sc (sc_rewireWire hsa x ups hoka) (by rw [hw.len]; exact hoka.1)
    (by rw [rewireWire_up _ x ups hoka.1, if_pos rfl]) (fun u hu => ?_)
  rw [hw.scripts, core_eq_scripts hca]
  exact mem_rewEdges.mpr ⟨l, hl, ups, hop, hu⟩

/-- **`rewire x ups` preserves the invariant**, for an admissible re-wiring (`RewOK`) after which
the world is in the scope again (a condition on the current world — for operations issued from
outside between events), in a world whose devices are initialised. -/
theorem G.rewireD {E N : List Nat} {w : World} (h : G E N [] w) (x : Nat) (ups : List Nat)
    (hok : RewOK w x ups) (hfin : SC (w.rewire x ups))
    (hini : ∀ z, z < w.devs.length → (w.dev z).inited = true) :
    G E N [] (w.rewire x ups) := by
  refine h.rewireCore x ups hok hini (fun hsa v' hr => ?_)
  have hca := rewireClock_core w x
  have hoka : RewOK (rewireClock w x) x ups := rewOK_of_sw (sw_of_core hca) hok
  have hw := rewireWire_wire (rewireClock w x) x ups
  have hiso := rewireWire_isolated hsa x ups hoka.2.2
  rw [rewire_eq_fold] at hfin
  have hrf : StatRel x ups (rewireWire (rewireClock w x) x ups)
      (ups.foldl (rewireStep x) (rewireWire (rewireClock w x) x ups)) :=
    statRel_fold ups (fun _ hu => hu) _ (StatRel.refl x ups _)
  have hconn := rewireFold_connected x ups (rewireWire (rewireClock w x) x ups)
  generalize rewireWire (rewireClock w x) x ups = wc at hr hrf hconn hiso hfin
  generalize ups.foldl (rewireStep x) wc = wf at hrf hconn hfin
  -- the connections of `v'` are connections of the final world
  have hsub : ∀ z, (v'.dev z).down.Sublist (wf.dev z).down := by
    intro z
    rcases hr.down z with hd | ⟨hzu, hzl, _, hd⟩
    · rw [hd]
      rcases hrf.down z with hf | ⟨_, _, _, hf⟩
      · rw [hf]; exact List.Sublist.refl _
      · rw [hf]; exact List.sublist_append_left _ _
    · rw [hd]
      rcases hrf.down z with hf | ⟨_, _, _, hf⟩
      · exfalso
        have := hconn z hzu hzl
        rw [hf] at this
        exact hiso z this
      · rw [hf]; exact List.Sublist.refl _
  refine hfin.rewired (hr.len.trans hrf.len.symm) (hr.scripts.trans hrf.scripts.symm)
    (hr.targets.trans hrf.targets.symm) (hr.groups.trans hrf.groups.symm)
    (fun z => (hr.st z).trans (hrf.st z).symm) (fun z hz => ?_) (fun z y hy => ?_)
    (fun z y hy => mem_envl_down_of_down ((hsub z).subset hy)) (fun l' hl' x' ups' hop' z => ?_)
  · rw [hr.up, ← hrf.up]
    have hk : (v'.dev z).kind = (wf.dev z).kind :=
      (stat0_kind (hr.st z)).trans (stat0_kind (hrf.st z)).symm
    rw [hk] at hz
    rcases hz with hz | hz
    · exact hfin.source_up z hz
    · have hzl : z < wf.devs.length := kind_lt' (by rw [hz]; decide)
      exact (hfin.groupOK hzl).2 hz
  · have hy0 := (hsub z).subset hy
    have hzl : z < wf.devs.length := by
      apply Nat.lt_of_not_le
      intro hc
      rw [dev_of_length_le hc] at hy0; cases hy0
    obtain ⟨h1, h2⟩ := hfin.down_sym hzl hy0
    refine ⟨by rw [hr.len, ← hrf.len]; exact h1, ?_⟩
    rw [hr.up, ← hrf.up]; exact h2
  · have hop0 : OpSC wf (.rewire x' ups') := opSC_of_sw wf _ (hfin.s.scripts l' hl' _ hop')
    refine Nat.le_trans ((hsub z).count_le x') ?_
    rcases dev_mem_or_default wf z with hm | hd
    · exact hop0.2.2 _ hm
    · rw [hd]; exact Nat.zero_le _

end C03W
end SimProc
