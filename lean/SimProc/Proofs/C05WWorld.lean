/-
C05W / C17W machinery, part 6: the functions of `Model/World.lean` (scripts without
`rewire`/`create`, resource check, maintainer events, scheduler and sensor events) change neither
the slot view nor the auxiliary view.
-/
import SimProc.Proofs.C05WViews
namespace SimProc
namespace C05W
open World C02V

/-- Slot view and auxiliary view together. -/
def sb (w : World) : SV × (List BDev × Int) := (sv w, bv w)

theorem sv_of_sb {w w' : World} (h : sb w' = sb w) : sv w' = sv w := congrArg Prod.fst h
theorem bv_of_sb {w w' : World} (h : sb w' = sb w) : bv w' = bv w := congrArg Prod.snd h

section
variable (w : World)

theorem bv_modMaint (m : Nat) (f : Maint → Maint) : bv (w.modMaint m f) = bv w := rfl
frame_lemma1 bv_modMaint
theorem bv_startOrders (m : Nat) (l : List Order) : bv (w.startOrders m l) = bv w := by
  unfold World.startOrders; frame
frame_lemma1 bv_startOrders
theorem bv_schedUpdate (s : Nat) (b : Bool) : bv (w.schedUpdate s b) = bv w := by
  unfold World.schedUpdate; frame
frame_lemma1 bv_schedUpdate
theorem bv_setVar (h : Nat) (v : Option Nat) : bv (w.setVar h v) = bv w := rfl
frame_lemma1 bv_setVar
theorem bv_periodicSense (s : Nat) : bv (w.periodicSense s) = bv w := by
  unfold World.periodicSense; frame
frame_lemma1 bv_periodicSense
theorem bv_initAsset (a : AssetRef) : bv (w.initAsset a) = bv w := by
  unfold World.initAsset; frame

end

/-- Operations that neither change the wiring nor create devices. -/
def NoRC : Op → Prop
  | .rewire _ _ => False
  | .create _ => False
  | _ => True

theorem noRC_of_static {w : World} {op : Op} (h : OpStatic w op) : NoRC op := by
  cases op <;> first | trivial | exact h

theorem sb_applyOp (w : World) (op : Op) (h : NoRC op) : sb (w.applyOp op).1 = sb w := by
  unfold sb
  cases op
  case rewire d ups => exact absurd h id
  case create s => exact absurd h id
  all_goals (unfold World.applyOp; frame')

theorem sb_applyOps (ops : List Op) : ∀ (w : World), (∀ op ∈ ops, NoRC op) → sb (w.applyOps ops) = sb w := by
  induction ops with
  | nil => intro w _; rfl
  | cons op ops ih =>
    intro w hok
    unfold World.applyOps
    simp only [List.foldl_cons]
    have := ih ((w.applyOp op).1.addRes (w.applyOp op).2) (fun o ho => hok o (List.mem_cons_of_mem _ ho))
    unfold World.applyOps at this
    rw [this]
    exact sb_applyOp w op (hok op (List.mem_cons_self ..))

/-- All scripts are free of `rewire` / `create`. -/
def ScriptsNoRC (w : World) : Prop := ∀ l ∈ w.scripts, ∀ op ∈ l, NoRC op

theorem scriptsNoRC_of_static {w : World} (h : ScriptsStatic w) : ScriptsNoRC w :=
  fun l hl op hop => noRC_of_static (h l hl op hop)

theorem ScriptsNoRC.of_eq {w w' : World} (h : ScriptsNoRC w) (e : w'.scripts = w.scripts) : ScriptsNoRC w' := by
  unfold ScriptsNoRC; rw [e]; exact h

theorem sb_runScript (w : World) (k : Nat) (h : ScriptsNoRC w) : sb (w.runScript k) = sb w := by
  unfold World.runScript
  apply sb_applyOps
  intro op hop
  by_cases hk : k < w.scripts.length
  · have : w.scripts.getD k [] = w.scripts[k] := by simp [List.getD_eq_getElem?_getD, hk]
    rw [this] at hop
    exact h _ (List.getElem_mem hk) op hop
  · have : w.scripts.getD k [] = [] := by simp [List.getD_eq_getElem?_getD, Nat.le_of_not_lt hk]
    rw [this] at hop; cases hop

theorem sb_scan (n : Nat) : ∀ (w : World) (i : Nat), ScriptsNoRC w → sb (scanWaiting scanOps n w i) = sb w := by
  induction n with
  | zero => intro w i _; rfl
  | succ n ih =>
    intro w i h
    unfold scanWaiting
    split
    · rfl
    · split
      · rename_i req cb _ _
        have key : sb (scanOps.erase (scanOps.call w cb req) i) = sb w ∧
            (scanOps.erase (scanOps.call w cb req) i).scripts = w.scripts := by
          cases cb with
          | script k =>
            refine ⟨?_, scr_runScript _ k⟩
            exact sb_runScript (w.addRes (.cb k)) k h
          | proc d =>
            refine ⟨?_, scr_procResourceCb w d⟩
            show sb (w.procResourceCb d) = sb w
            unfold sb; rw [sv_procResourceCb, bv_procResourceCb]
        rw [ih _ _ (h.of_eq key.2)]
        exact key.1
      · exact ih _ _ h

theorem sb_rmCheck (w : World) (h : ScriptsNoRC w) : sb w.rmCheck = sb w := sb_scan _ _ _ h

theorem sb_hookStart (w : World) (tgt : Nat) (tag : Int) (h : ScriptsNoRC w) :
    sb (w.hookStart tgt tag) = sb w := by
  unfold World.hookStart
  simp only []
  split
  · unfold sb; rw [sv_shutdownDev, bv_shutdownDev]; rfl
  · split
    · exact sb_runScript (w.addRes _) _ h
    · rfl

theorem sb_hookEnd (w : World) (tgt : Nat) (tag : Int) (h : ScriptsNoRC w) :
    sb (w.hookEnd tgt tag) = sb w := by
  unfold World.hookEnd
  simp only []
  split
  · unfold sb; rw [sv_restoreDev, bv_restoreDev]; rfl
  · split
    · exact sb_runScript (w.addRes _) _ h
    · rfl

theorem sb_startWork (w : World) (m seq : Nat) (h : ScriptsNoRC w) : sb (w.startWork m seq) = sb w := by
  have key : ∀ w' : World, sb w' = sb w → w'.scripts = w.scripts → ∀ t g a b c d,
      sb ((w'.hookStart t g).schedLib a b c d) = sb w := fun w' e1 e2 t g a b c d => by
    have := sb_hookStart w' t g (h.of_eq e2)
    unfold sb at this e1 ⊢
    rw [sv_schedLib, bv_schedLib, this, e1]
  unfold World.startWork
  split
  · unfold sb; rw [sv_setErr, bv_setErr]
  · simp only []
    refine key _ ?_ ?_ _ _ _ _ _ _ <;> rfl

theorem sb_finishWork (w : World) (m seq : Nat) (h : ScriptsNoRC w) : sb (w.finishWork m seq) = sb w := by
  have key : ∀ w' : World, sb w' = sb w → ∀ w'' : World, sb w'' = sb w' →
      ∀ m l, sb (w''.startOrders m l) = sb w := fun w' e1 w'' e2 m l => by
    unfold sb at e1 e2 ⊢
    rw [sv_startOrders, bv_startOrders, e2, e1]
  unfold World.finishWork
  split
  · unfold sb; rw [sv_setErr, bv_setErr]
  · simp only []
    rename_i o _
    refine key _ (sb_hookEnd w o.target o.tag h) _ ?_ _ _
    rfl

theorem bv_simulateInit (w : World) : bv w.simulateInit = bv w := by
  unfold World.simulateInit
  split
  · rfl
  · simp only []
    show bv (List.foldl _ _ _) = _
    rw [foldl_proj bv _ _ _ (fun _ _ => bv_initAsset ..), bv_rmEffects]; rfl

end C05W
end SimProc
