/-
C15W / C16W — machinery, part 5: frames (who may change what) and the one-step value lemmas.
-/
import SimProc.Proofs.C15WReach

namespace SimProc
namespace C15W
open World FloorCoreL C15 RM
set_option linter.unusedSimpArgs false

variable {ph : Phase}

/-! ### frames of the permissions -/

/-- Without the permission to charge a maintainer (and outside `initialize`) no maintainer's value
changes. -/
theorem KStep.frame_maint {k k' : WKey} (h : KStep ph k k') (hc : ph.cst = false) (hi : ph.ini = false) :
    k'.mvals = k.mvals := by
  induction h with
  | trans _ _ ih1 ih2 => exact ih2.trans ih1
  | maintCost k m c hph => rw [hc] at hph; cases hph
  | maintReset k m hph => rw [hi] at hph; cases hph
  | _ => rfl

/-- Without the permissions to move parts and to supply (and outside `initialize`) no device and
no delivery changes. -/
theorem KStep.frame_quiet {k k' : WKey} (h : KStep ph k k') (hm : ph.mv = false) (hs : ph.sup = false)
    (hi : ph.ini = false) : k'.devs = k.devs ∧ k'.delivered = k.delivered := by
  induction h with
  | trans _ _ ih1 ih2 => exact ⟨ih2.1.trans ih1.1, ih2.2.trans ih1.2⟩
  | recvSink k x p q v lv hph => rw [Phase.moves, hm] at hph; cases hph
  | recvBuf k x p n q v hph => rw [Phase.moves, hm] at hph; cases hph
  | release k x n hph => rw [Phase.moves, hm] at hph; cases hph
  | supply k x p v hph => rw [hs] at hph; cases hph
  | devReset k x hph => rw [hi] at hph; cases hph
  | _ => exact ⟨rfl, rfl⟩

/-- A hand-over (no supply, outside `initialize`) changes only sinks and buffers. -/
theorem KStep.frame_flow {k k' : WKey} (h : KStep ph k k') (hs : ph.sup = false) (hi : ph.ini = false) :
    ∀ x, (k.dev x).kind ≠ .sink → (k.dev x).kind ≠ .buffer → k'.dev x = k.dev x := by
  induction h with
  | trans h1 _ ih1 ih2 =>
    intro x hsk hb
    have hk := ((KStep.static h1).2.2.1 x).1
    rw [ih2 x (by rw [hk]; exact hsk) (by rw [hk]; exact hb), ih1 x hsk hb]
  | recvSink k x p q v lv hph hx hk =>
    intro y hsk hb
    simp only [WKey.dev, getD_set] at hsk hk ⊢
    split
    · rename_i hc; rw [← hc.1] at hsk; exact absurd hk hsk
    · rfl
  | recvBuf k x p n q v hph hx hk =>
    intro y hsk hb
    simp only [WKey.dev, getD_set] at hb hk ⊢
    split
    · rename_i hc; rw [← hc.1] at hb; exact absurd hk hb
    · rfl
  | release k x n hph hx hk =>
    intro y hsk hb
    simp only [WKey.dev, getD_set] at hb hk ⊢
    split
    · rename_i hc; rw [← hc.1] at hb; exact absurd hk hb
    · rfl
  | supply k x p v hph => rw [hs] at hph; cases hph
  | devReset k x hph => rw [hi] at hph; cases hph
  | _ => intro _ _ _; rfl

theorem KS.quiet_dev {w w' : World} (h : KS ph w w') (hm : ph.mv = false) (hs : ph.sup = false)
    (hi : ph.ini = false) (x : Nat) : dkey (w'.dev x) = dkey (w.dev x) := by
  rw [← key_dev, ← key_dev]
  unfold WKey.dev
  rw [(KStep.frame_quiet h hm hs hi).1]

theorem KS.maint_val {w w' : World} (h : KS ph w w') (hc : ph.cst = false) (hi : ph.ini = false)
    (m : Nat) : (w'.maint m).val = (w.maint m).val := by
  rw [← key_mval, ← key_mval]
  unfold WKey.mval
  rw [KStep.frame_maint h hc hi]

theorem KS.flow_dev {w w' : World} (h : KS ph w w') (hs : ph.sup = false) (hi : ph.ini = false)
    (x : Nat) (hsk : (w.dev x).kind ≠ .sink) (hb : (w.dev x).kind ≠ .buffer) :
    dkey (w'.dev x) = dkey (w.dev x) := by
  rw [← key_dev, ← key_dev]
  exact KStep.frame_flow h hs hi x (by rw [key_dev]; exact hsk) (by rw [key_dev]; exact hb)

/-! ### one step: a source supplies -/

/-- `Source._pass_part_downstream`: either the hand-over succeeded — then the counter goes up by
one, `costProduced` by the value `v` the part had BEFORE the hand-over, and the source's value
bookkeeping records the cost `v` — or none of the source's fields changes. -/
theorem source_supply_step (w : World) (x : Nat) (hk : (w.dev x).kind = .source) :
    (∃ p, (w.dev x).output = some p ∧
        ((w.passPart x).dev x).produced = (w.dev x).produced + 1 ∧
        ((w.passPart x).dev x).costProduced = (w.dev x).costProduced + w.partValue p ∧
        ((w.passPart x).dev x).val = (w.dev x).val.addCost lblSupplied w.now (w.partValue p)) ∨
      dkey ((w.passPart x).dev x) = dkey (w.dev x) := by
  have hs : (w.dev x).kind ≠ .sink := by rw [hk]; intro h; cases h
  have hb : (w.dev x).kind ≠ .buffer := by rw [hk]; intro h; cases h
  have h1 : KS .flow w (w.passHandler x) := KS_passHandler (show Phase.flow.mv = true from rfl) w x
  have hd1 := h1.flow_dev rfl rfl x hs hb
  rw [passPart_source_eq w x hk]
  split
  · exact Or.inr rfl
  · split
    · exact Or.inr rfl
    · rename_i p hp
      split
      · left
        refine ⟨p, hp, ?_⟩
        have hx : x < (w.passHandler x).devs.length := by rw [h1.devs_length]; exact kind_source_lt hk
        have hq := (KS_scheduleFinish (ph := .quiet)
          ((bump (w.passHandler x) x (w.partValue p)).addRec (.supplied x (w.passHandler x).now p)) x).quiet_dev rfl rfl rfl x
        have hnow : (w.passHandler x).now = w.now := (ExtN_passHandler w x).now_eq
        have e : ((bump (w.passHandler x) x (w.partValue p)).addRec
            (.supplied x (w.passHandler x).now p)).dev x =
            { (w.passHandler x).dev x with
              produced := ((w.passHandler x).dev x).produced + 1
              val := ((w.passHandler x).dev x).val.addCost lblSupplied (w.passHandler x).now (w.partValue p)
              costProduced := ((w.passHandler x).dev x).costProduced + w.partValue p } := by
          rw [dev_addRec]; unfold bump; rw [dev_modDev_same hx]
        rw [e] at hq
        have a1 := congrArg DKey.produced hq
        have a2 := congrArg DKey.costProduced hq
        have a3 := congrArg DKey.val hq
        have b1 := congrArg DKey.produced hd1
        have b2 := congrArg DKey.costProduced hd1
        have b3 := congrArg DKey.val hd1
        simp only [dkey] at a1 a2 a3 b1 b2 b3
        rw [a1, a2, a3, b1, b2, b3, hnow]
        exact ⟨rfl, rfl, rfl⟩
      · exact Or.inr hd1

/-! ### one step: a sink receives -/

theorem acceptPart_sink_recvValue (w : World) (x p : Nat) (h : (w.dev x).kind = .sink) :
    ((w.acceptPart x p).dev x).recvValue = (w.dev x).recvValue + w.partValue p := by
  have h1 : ((acceptHead w x p).dev x).kind = .sink := by
    rw [acceptHead_dev_field Dev.kind (fun _ _ => rfl) (fun _ => rfl)]; exact h
  have hx := kind_sink_lt h1
  rw [acceptPart_eq, onReceived_eq,
    sink_recvTail_dev_field Dev.recvValue (fun _ _ _ _ _ => rfl) (fun _ => rfl)]
  · rw [dev_addRec]
    unfold recvHead
    simp only [h1]
    rw [dev_setDev_same hx, acceptHead_partValue,
      acceptHead_dev_field Dev.recvValue (fun _ _ => rfl) (fun _ => rfl)]
  · rw [dev_addRec, recvHead_kind]; exact h1

theorem acceptPart_sink_val (w : World) (x p : Nat) (h : (w.dev x).kind = .sink) :
    ((w.acceptPart x p).dev x).val = (w.dev x).val.addValue lblCollected w.now (w.partValue p) := by
  have h1 : ((acceptHead w x p).dev x).kind = .sink := by
    rw [acceptHead_dev_field Dev.kind (fun _ _ => rfl) (fun _ => rfl)]; exact h
  have hx := kind_sink_lt h1
  rw [acceptPart_eq, onReceived_eq,
    sink_recvTail_dev_field Dev.val (fun _ _ _ _ _ => rfl) (fun _ => rfl)]
  · rw [dev_addRec]
    unfold recvHead
    simp only [h1]
    rw [dev_setDev_same hx, acceptHead_partValue,
      acceptHead_dev_field Dev.val (fun _ _ => rfl) (fun _ => rfl), RN_now (RN_acceptHead w x p)]
  · rw [dev_addRec, recvHead_kind]; exact h1

/-! ### one step: a maintainer starts a work order -/

theorem maint_modMaint_same (w : World) (m : Nat) (f : Maint → Maint) (hm : m < w.maints.length) :
    (w.modMaint m f).maint m = f (w.maint m) := by
  unfold World.maint World.modMaint
  simp [List.getD_eq_getElem?_getD, hm]

theorem startWork_val (w : World) (m seq : Nat) (o : Order) (hn : NoCreate w)
    (h : (w.maint m).findActive seq = some o) (hm : m < w.maints.length) :
    ((w.startWork m seq).maint m).val =
      (w.maint m).val.addCost lblWorkOrder w.now (w.targetParams o.target o.tag).2.2 := by
  have hs : ∀ (v : World) (t a : Int) (act : Action) (p : Int),
      ((v.schedLib t a act p).maint m).val = (v.maint m).val :=
    fun v t a act p => (KS_schedLib (ph := .quiet) v t a act p).maint_val rfl rfl m
  have hh : ∀ (v : World) (t : Nat) (g : Int), NoCreate v →
      ((v.hookStart t g).maint m).val = (v.maint m).val :=
    fun v t g hv => (KS_hookStart (ph := .quiet) v t g hv).maint_val rfl rfl m
  unfold startWork
  simp only [h]
  rw [hs, hh, maint_modMaint_same (w.addRec _) m _ hm]
  · rfl
  · exact hn.of_scripts rfl

/-! ### who changes what, at the level of events -/

/-- Only `pass_part` events change the observable fields of a device (`kind`, `produced`,
`costProduced`, `recvCount`, `recvValue`, `level`, `val`). -/
theorem exec_dev_frame (w : World) (a : Action) (hn : NoCreate w) (ha : ∀ d, a ≠ .passPart d) (x : Nat) :
    dkey ((w.exec a).dev x) = dkey (w.dev x) :=
  (KS_exec (ph := ⟨false, false, true, false⟩) w a hn (fun d e => absurd e (ha d))
    (fun _ _ _ => rfl)).quiet_dev rfl rfl rfl x

/-- Only `start_work` events change the value of a maintainer. -/
theorem exec_maint_frame (w : World) (a : Action) (hn : NoCreate w) (ha : ∀ m o, a ≠ .startWork m o)
    (m : Nat) : ((w.exec a).maint m).val = (w.maint m).val :=
  (KS_exec (ph := ⟨true, true, false, false⟩) w a hn (fun _ _ => ⟨rfl, fun _ => rfl⟩)
    (fun m o e => absurd e (ha m o))).maint_val rfl rfl m

/-- A `pass_part` event of a device that is not a source changes only sinks and buffers. -/
theorem exec_passPart_frame (w : World) (d : Nat) (hk : (w.dev d).kind ≠ .source) (x : Nat)
    (hs : (w.dev x).kind ≠ .sink) (hb : (w.dev x).kind ≠ .buffer) :
    dkey ((w.exec (.passPart d)).dev x) = dkey (w.dev x) :=
  (KS_passPart (ph := .flow) rfl w d (fun h => absurd h hk)).flow_dev rfl rfl x hs hb

/-! ### what never changes: the devices, their kinds and starting values -/

theorem KRun.static {k k' : WKey} (h : KRun k k') :
    k'.devs.length = k.devs.length ∧ k'.mvals.length = k.mvals.length ∧
    (∀ x, (k'.dev x).kind = (k.dev x).kind ∧ (k'.dev x).val.init = (k.dev x).val.init) ∧
    (∀ m, (k'.mval m).init = (k.mval m).init) := by
  induction h with
  | refl k => exact ⟨rfl, rfl, fun _ => ⟨rfl, rfl⟩, fun _ => rfl⟩
  | trans _ _ ih1 ih2 =>
    exact ⟨ih2.1.trans ih1.1, ih2.2.1.trans ih1.2.1,
      fun x => ⟨(ih2.2.2.1 x).1.trans (ih1.2.2.1 x).1, (ih2.2.2.1 x).2.trans (ih1.2.2.1 x).2⟩,
      fun m => (ih2.2.2.2 m).trans (ih1.2.2.2 m)⟩
  | act h => exact KStep.static h
  | pop k => exact ⟨rfl, rfl, fun _ => ⟨rfl, rfl⟩, fun _ => rfl⟩

/-- In every reachable state the devices and maintainers are those of the fresh world, with their
kinds and starting values. -/
theorem reach_static {w0 w : World} (hn : NoCreate w0) (hi : w0.rm.inited = false)
    (hr : Reachable w0 w) :
    w.devs.length = w0.devs.length ∧ w.maints.length = w0.maints.length ∧
    (∀ x, (w.dev x).kind = (w0.dev x).kind ∧ (w.dev x).val.init = (w0.dev x).val.init) ∧
    (∀ m, (w.maint m).val.init = (w0.maint m).val.init) := by
  obtain ⟨h1, h2, _⟩ := reach_key hn hi hr
  have s1 := KStep.static h1
  have s2 := KRun.static h2
  refine ⟨?_, ?_, fun x => ?_, fun m => ?_⟩
  · have := s2.1.trans s1.1
    simpa using this
  · have := s2.2.1.trans s1.2.1
    simpa [key] using this
  · have a := (s2.2.2.1 x).1.trans (s1.2.2.1 x).1
    have b := (s2.2.2.1 x).2.trans (s1.2.2.1 x).2
    rw [key_dev, key_dev] at a b
    exact ⟨a, b⟩
  · have := (s2.2.2.2 m).trans (s1.2.2.2 m)
    rw [key_mval, key_mval] at this
    exact this

end C15W
end SimProc
