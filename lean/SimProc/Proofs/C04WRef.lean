/-
C04 (general serial line) — reference-recurrence facts in the form used by the run invariant.
-/
import SimProc.Proofs.C04WModel

namespace SimProc
namespace C04W
open World C04

theorem stations_get (L : Line) {j : Nat} (hj : j ≤ L.n) : L.stations[j]? = some (stn L j) := by
  have hlt : j < L.stations.length := by rw [stations_length]; omega
  unfold stn
  rw [List.getD_eq_getElem?_getD, List.getElem?_eq_getElem hlt]
  rfl

theorem stations_none (L : Line) {j : Nat} (hj : L.n < j) : L.stations[j]? = none := by
  apply List.getElem?_eq_none
  rw [stations_length]; omega

theorem stn_zero (L : Line) : stn L 0 = ⟨.handler, L.c0, some 1⟩ := by
  simp [stn, Line.stations]

theorem stn_n (L : Line) : stn L L.n = ⟨.handler, L.cn, some 1⟩ := by
  simp [stn, Line.stations, Line.n, List.getD_eq_getElem?_getD]

theorem eI_succ (L : Line) (j k : Nat) : eI L (j + 1) k = dI L j k := rfl
theorem eI_zero (L : Line) (k : Nat) : eI L 0 (k + 1) = dI L 0 k := by simp [eI]

/-- R1: a part stays at least the cycle time / delay. -/
theorem dI_ge_ec (L : Line) (hL : L.WF) {j : Nat} (hj : j ≤ L.n) (k : Nat) :
    eI L j (k + 1) + (stn L j).c ≤ dI L j (k + 1) := by
  rw [dI_rec L hL j k _ (stations_get L hj)]
  omega

theorem blockI_eq (L : Line) {j : Nat} (hj : j ≤ L.n) (k K : Nat) (hK : (stn L j).effCap = some K) :
    blockI L j k = dI L j (k - K) := by
  simp [blockI, stations_get L hj, hK]

theorem blockI_none (L : Line) {j : Nat} (hj : j ≤ L.n) (k : Nat) (hK : (stn L j).effCap = none) :
    blockI L j k = 0 := by
  simp [blockI, stations_get L hj, hK]

theorem blockI_beyond (L : Line) {j : Nat} (hj : L.n < j) (k : Nat) : blockI L j k = 0 := by
  simp [blockI, stations_none L hj]

/-- R2: blocking by the downstream station. -/
theorem dI_ge_block (L : Line) (hL : L.WF) {j : Nat} (hj : j < L.n) (k K : Nat)
    (hK : (stn L (j + 1)).effCap = some K) :
    dI L (j + 1) (k + 1 - K) ≤ dI L j (k + 1) := by
  rw [dI_rec L hL j k _ (stations_get L (Nat.le_of_lt hj)), blockI_eq L (by omega) _ K hK]
  omega

/-- FIFO term for buffers. -/
theorem dI_ge_prev (L : Line) (hL : L.WF) (j k : Nat) : dI L j k ≤ dI L j (k + 1) := dI_mono L hL j k

/-- R3: upper bound of a departure time from its three constraints. -/
theorem dI_le_of (L : Line) (hL : L.WF) {j : Nat} (hj : j ≤ L.n) (k : Nat) (t : Int)
    (h1 : eI L j (k + 1) + (stn L j).c ≤ t) (h2 : dI L j k ≤ t) (h3 : blockI L (j + 1) (k + 1) ≤ t) :
    dI L j (k + 1) ≤ t := by
  rw [dI_rec L hL j k _ (stations_get L hj)]
  have := dI_nonneg L hL j k
  split <;> omega

/-- R4: the blocking term when the downstream station has room. -/
theorem blockI_le_of_room (L : Line) (hL : L.WF) (j' k xn : Nat) (t : Int)
    (hroom : ∀ K, j' ≤ L.n → (stn L j').effCap = some K → k + 1 ≤ xn + K)
    (hpast : dI L j' xn ≤ t) (ht : 0 ≤ t) :
    blockI L j' (k + 1) ≤ t := by
  by_cases hj : j' ≤ L.n
  · cases hK : (stn L j').effCap with
    | none => rw [blockI_none L hj _ hK]; exact ht
    | some K =>
      rw [blockI_eq L hj _ K hK]
      have := hroom K hj hK
      exact Int.le_trans (dI_mono_le L hL j' (by omega)) hpast
  · rw [blockI_beyond L (by omega)]; exact ht

theorem effCap_pos {L : Line} (hL : L.WF) {j : Nat} (hj : j ≤ L.n) {K : Nat}
    (hK : (stn L j).effCap = some K) : 1 ≤ K := (stn_wf hL hj).2 K hK

theorem c_nonneg {L : Line} (hL : L.WF) {j : Nat} (hj : j ≤ L.n) : 0 ≤ (stn L j).c := (stn_wf hL hj).1

/-- Station kinds and the device kinds. -/
theorem isBuf_iff (L : Line) {j : Nat} (hj : j ≤ L.n) : isBuf L j = true ↔ (stn L j).isBuffer = true := by
  unfold isBuf kindOf Station.isBuffer
  by_cases h0 : j = 0
  · subst h0; simp [stn_zero]
  · by_cases hn : j = L.n
    · subst hn; simp [h0, stn_n]
    · simp only [h0, hn, if_false]
      cases (stn L j).kind <;> simp

theorem effCap_nonbuf (L : Line) {j : Nat} (hj : j ≤ L.n) (h : isBuf L j = false) :
    (stn L j).effCap = some 1 := by
  have : ¬ (stn L j).isBuffer = true := by rw [← isBuf_iff L hj, h]; simp
  unfold Station.effCap
  unfold Station.isBuffer at this
  cases hk : (stn L j).kind <;> simp [hk] at this ⊢

theorem effCap_buf (L : Line) {j : Nat} (hj : j ≤ L.n) (h : isBuf L j = true) :
    (stn L j).effCap = (stn L j).cap := by
  have : (stn L j).isBuffer = true := (isBuf_iff L hj).1 h
  unfold Station.effCap
  unfold Station.isBuffer at this
  cases hk : (stn L j).kind <;> simp [hk] at this ⊢

end C04W
end SimProc
