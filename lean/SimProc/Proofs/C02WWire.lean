/-
C02W machinery, part 2: closed wiring.  `WiredN n w`: every wiring target and every group input is
below `n`.  `ExtN n w w'`: `w'` has (at least) the devices of `w` with the same kinds, and every new
wiring target / group input is below `n`.  Re-wiring and constructor calls are `ExtN` steps; closed
wiring makes every hand-over admissible (`TopoOK`).
-/
import SimProc.Proofs.C02WTrig
import SimProc.Proofs.FloorCore
namespace SimProc
namespace C02W
open World C02V

/-- the input device of group `g` (0 for a group that does not exist) -/
def ginp (w : World) (g : Nat) : Nat := (w.groups.getD g default).input

/-- Every wiring target and every group input is below `n`. -/
structure WiredN (n : Nat) (w : World) : Prop where
  down : ∀ x y, y ∈ (w.dev x).down → y < n
  gin : ∀ g, ginp w g = 0 ∨ ginp w g < n

/-- Closed wiring: every device named as somebody's downstream neighbour, and the input device of
every group, exists. -/
def Wired (w : World) : Prop := WiredN w.devs.length w

theorem WiredN.mono {n m : Nat} {w : World} (h : WiredN n w) (hnm : n ≤ m) : WiredN m w :=
  ⟨fun x y hy => Nat.lt_of_lt_of_le (h.down x y hy) hnm,
   fun g => (h.gin g).imp id (fun h' => Nat.lt_of_lt_of_le h' hnm)⟩

/-- `w'` extends `w`: at least as many devices, the old ones keep their kind, and every wiring
target / group input that is new is below `n`. -/
structure ExtN (n : Nat) (w w' : World) : Prop where
  len : w.devs.length ≤ w'.devs.length
  kind : ∀ i, i < w.devs.length → (w'.dev i).kind = (w.dev i).kind
  down : ∀ i y, y ∈ (w'.dev i).down → y ∈ (w.dev i).down ∨ y < n
  gin : ∀ g, ginp w' g = ginp w g ∨ ginp w' g < n

theorem ExtN.refl (n : Nat) (w : World) : ExtN n w w :=
  ⟨Nat.le_refl _, fun _ _ => rfl, fun _ _ h => Or.inl h, fun _ => Or.inl rfl⟩

theorem ExtN.trans {n : Nat} {a b c : World} (h1 : ExtN n a b) (h2 : ExtN n b c) : ExtN n a c := by
  refine ⟨Nat.le_trans h1.len h2.len, ?_, ?_, ?_⟩
  · intro i hi
    rw [h2.kind i (Nat.lt_of_lt_of_le hi h1.len), h1.kind i hi]
  · intro i y hy
    rcases h2.down i y hy with h | h
    · exact h1.down i y h
    · exact Or.inr h
  · intro g
    rcases h2.gin g with h | h
    · rw [h]; exact h1.gin g
    · exact Or.inr h

theorem ExtN.mono {n m : Nat} {w w' : World} (h : ExtN n w w') (hnm : n ≤ m) : ExtN m w w' :=
  ⟨h.len, h.kind, fun i y hy => (h.down i y hy).imp id (fun h' => Nat.lt_of_lt_of_le h' hnm),
   fun g => (h.gin g).imp id (fun h' => Nat.lt_of_lt_of_le h' hnm)⟩

theorem WiredN.ext {n : Nat} {w w' : World} (h : WiredN n w) (e : ExtN n w w') : WiredN n w' := by
  refine ⟨?_, ?_⟩
  · intro x y hy
    rcases e.down x y hy with h' | h'
    · exact h.down x y h'
    · exact h'
  · intro g
    rcases e.gin g with h' | h'
    · rw [h']; exact h.gin g
    · exact Or.inr h'

theorem ExtN.foldl {α : Type} {n : Nat} (f : World → α → World) (l : List α) (w : World)
    (h : ∀ w a, ExtN n w (f w a)) : ExtN n w (l.foldl f w) :=
  foldl_inv (fun w' => ExtN n w w') f l w (ExtN.refl n w) (fun _ a hb => hb.trans (h _ a))

/-! ### steps that keep the static view -/

theorem ginp_of_st {w w' : World} (h : st w' = st w) (g : Nat) : ginp w' g = ginp w g := by
  unfold ginp
  rw [← st_gin, ← st_gin, h]

theorem len_of_st {w w' : World} (h : st w' = st w) : w'.devs.length = w.devs.length := by
  have := congrArg (fun t => t.devs.length) h
  simpa [st] using this

theorem ExtN.of_st {n : Nat} {w w' : World} (h : st w' = st w) : ExtN n w w' := by
  refine ⟨Nat.le_of_eq (len_of_st h).symm, ?_, ?_, ?_⟩
  · intro i _; rw [← st_kind, ← st_kind, h]
  · intro i y hy; left; rw [← st_down] at hy ⊢; rw [← h]; exact hy
  · intro g; exact Or.inl (ginp_of_st h g)

theorem ginp_of_tv {w w' : World} (h : tv w' = tv w) (g : Nat) : ginp w' g = ginp w g := by
  have := congrArg (fun t => t.gin.getD g 0) h
  simp only [tv, ST.topo, st_gin] at this
  exact this

theorem down_of_tv {w w' : World} (h : tv w' = tv w) (x : Nat) : (w'.dev x).down = (w.dev x).down := by
  have := congrArg (fun t => t.down x) h
  simpa [tv, topo_down, st_down] using this

theorem ExtN.of_tv {n : Nat} {w w' : World} (h : tv w' = tv w) : ExtN n w w' := by
  refine ⟨Nat.le_of_eq (devs_len_of_tv h).symm, ?_, ?_, ?_⟩
  · intro i _; exact kind_of_tv h i
  · intro i y hy; left; rw [← down_of_tv h]; exact hy
  · intro g; exact Or.inl (ginp_of_tv h g)

/-! ### `modDev` steps -/

theorem extN_modDev {n : Nat} (w : World) (u : Nat) (f : Dev → Dev) (hk : ∀ d, (f d).kind = d.kind)
    (hd : ∀ d y, y ∈ (f d).down → y ∈ d.down ∨ y < n) : ExtN n w (w.modDev u f) := by
  refine ⟨Nat.le_of_eq (by simp), ?_, ?_, fun g => Or.inl rfl⟩
  · intro i _
    rw [dev_modDev]
    split
    · rename_i h; rw [hk, h.1]
    · rfl
  · intro i y hy
    rw [dev_modDev] at hy
    split at hy
    · rename_i h; rw [← h.1]; exact hd _ _ hy
    · exact Or.inl hy

/-! ### `rewire` -/

def rwA (w : World) (x : Nat) : World :=
  if isHandlerLike (w.dev x).kind && (w.dev x).since.isSome && (w.dev x).inited then w.setWaiting x true true else w
def rwB (w : World) (x : Nat) : World :=
  (w.dev x).up.foldl (fun w u => w.modDev u (fun du => { du with down := du.down.erase x })) w
def rwC (w : World) (x : Nat) (ups : List Nat) : World :=
  ups.foldl (fun w u =>
    if (w.dev u).down.contains x then w
    else
      let w := w.modDev u (fun du => { du with down := du.down ++ [x] })
      if (w.dev u).inited then w.spaceAvailable u else w) w

theorem rewire_eq (w : World) (x : Nat) (ups : List Nat) :
    w.rewire x ups = rwC ((rwB (rwA w x) x).modDev x (fun d => { d with up := ups })) x ups := rfl

theorem extN_rwA {n : Nat} (w : World) (x : Nat) : ExtN n w (rwA w x) := by
  unfold rwA
  split
  · exact ExtN.of_st (st_setWaiting ..)
  · exact ExtN.refl n w

theorem extN_rwB {n : Nat} (w : World) (x : Nat) : ExtN n w (rwB w x) :=
  ExtN.foldl _ _ _ (fun w u => extN_modDev w u _ (fun _ => rfl)
    (fun _ _ hy => Or.inl (List.mem_of_mem_erase hy)))

theorem extN_rwC {n : Nat} (w : World) (x : Nat) (ups : List Nat) (hx : x < n) : ExtN n w (rwC w x ups) := by
  apply ExtN.foldl
  intro w u
  split
  · exact ExtN.refl n w
  · have h2 : ExtN n w (w.modDev u (fun du => { du with down := du.down ++ [x] })) :=
      extN_modDev w u _ (fun _ => rfl) (fun d y hy => by
        rcases List.mem_append.1 hy with h | h
        · exact Or.inl h
        · right; simp at h; omega)
    simp only []
    split
    · exact h2.trans (ExtN.of_st (st_spaceAvailable ..))
    · exact h2

theorem extN_rewire {n : Nat} (w : World) (x : Nat) (ups : List Nat) (hx : x < n) :
    ExtN n w (w.rewire x ups) := by
  rw [rewire_eq]
  have h3 : ExtN n (rwB (rwA w x) x) ((rwB (rwA w x) x).modDev x (fun d => { d with up := ups })) :=
    ExtN.of_st (st_modDev_same _ _ _ (fun _ => rfl))
  exact (((extN_rwA w x).trans (extN_rwB _ x)).trans h3).trans (extN_rwC _ x ups hx)

theorem len_rewire (w : World) (x : Nat) (ups : List Nat) : (w.rewire x ups).devs.length = w.devs.length := by
  have := congrArg (fun s => s.devs.length) (sv_rewire w x ups)
  simpa [sv] using this

/-! ### constructor calls -/

theorem len_addDev1 (w : World) (d : Dev) : (addDev1 w d).devs.length = w.devs.length + 1 := by
  simp [addDev1]

theorem dev_addDev1_old (w : World) (d : Dev) (i : Nat) (hi : i < w.devs.length) :
    (addDev1 w d).dev i = w.dev i := by
  unfold World.dev addDev1
  exact FloorCoreL.getD_append_left _ _ _ _ hi

theorem dev_addDev1_new (w : World) (d : Dev) :
    (addDev1 w d).dev w.devs.length = { d with aid := w.assets.length + 1, up := [] } := by
  unfold World.dev addDev1
  exact FloorCoreL.getD_append_singleton _ _ _

theorem extN_addDev1 {n : Nat} (w : World) (d : Dev) (hd : ∀ y ∈ d.down, y < n) : ExtN n w (addDev1 w d) := by
  refine ⟨by rw [len_addDev1]; omega, fun i hi => by rw [dev_addDev1_old w d i hi], ?_, fun g => Or.inl rfl⟩
  intro i y hy
  by_cases hi : i < w.devs.length
  · rw [dev_addDev1_old w d i hi] at hy; exact Or.inl hy
  · by_cases hi' : i = w.devs.length
    · subst hi'; rw [dev_addDev1_new] at hy; exact Or.inr (hd y hy)
    · rw [dev_of_length_le (by rw [len_addDev1]; omega)] at hy
      cases hy

theorem st_regPath (w : World) (d : Dev) (i : Nat) : st (regPath w d i) = st w := by
  unfold regPath
  split
  · simp only [st]
    congr 1
    exact map_set_getD_self (fun g : Group => g.input) w.groups d.group default _ rfl
  · rfl

theorem len_initAsset (w : World) (a : AssetRef) : (w.initAsset a).devs.length = w.devs.length :=
  len_of_st (st_initAsset w a)

theorem len_regPath (w : World) (d : Dev) (i : Nat) : (regPath w d i).devs.length = w.devs.length :=
  len_of_st (st_regPath w d i)

theorem len_addDev (w : World) (d : Dev) : (w.addDev d).devs.length = w.devs.length + 1 := by
  rw [addDev_eq]
  split
  · rw [len_initAsset, len_regPath, len_rewire, len_addDev1]
  · rw [len_regPath, len_rewire, len_addDev1]

theorem extN_addDev {n : Nat} (w : World) (d : Dev) (hn : w.devs.length < n) (hd : ∀ y ∈ d.down, y < n) :
    ExtN n w (w.addDev d) := by
  have h1 : ExtN n w (regPath ((addDev1 w d).rewire w.devs.length d.up) d w.devs.length) :=
    ((extN_addDev1 w d hd).trans (extN_rewire _ _ _ hn)).trans (ExtN.of_st (st_regPath ..))
  rw [addDev_eq]
  split
  · exact h1.trans (ExtN.of_st (st_initAsset ..))
  · exact h1

/-- the inputs of a new group as the constructor determines them -/
def groupIns (devs ins : List Nat) : List Nat := if ins.isEmpty then devs.take 1 else ins

/-- the group table after the constructor of group `gid` has entered the group -/
def groupTab (w : World) (gid : Nat) : World :=
  { w with groups := (if w.groups.length ≤ gid then w.groups ++ List.replicate (gid + 1 - w.groups.length) {}
                      else w.groups).set gid { paths := [], input := w.devs.length, output := w.devs.length + 1 } }

theorem addAsset_group_eq (w : World) (gid : Nat) (devs ins outs : List Nat) :
    w.addAsset (.group gid devs ins outs) =
      ((((groupTab w gid).addDev { kind := .ginput, group := gid }) |> fun w1 =>
        (groupIns devs ins).foldl (fun w' d => w'.rewire d [w.devs.length]) w1).addDev
          { kind := .goutput, group := gid }).rewire (w.devs.length + 1)
        (if outs.isEmpty then devs.getLast?.toList else outs) := rfl

theorem ginp_groupTab (w : World) (gid g : Nat) :
    ginp (groupTab w gid) g = ginp w g ∨ ginp (groupTab w gid) g = w.devs.length := by
  unfold ginp groupTab
  simp only [List.getD_eq_getElem?_getD]
  by_cases hg : g = gid
  · subst hg
    right
    split
    · rw [List.getElem?_set_self (by simp; omega)]; rfl
    · rw [List.getElem?_set_self (by omega)]; rfl
  · left
    rw [List.getElem?_set_ne (Ne.symm hg)]
    split
    · rename_i hle
      by_cases hgl : g < w.groups.length
      · rw [List.getElem?_append_left hgl]
      · rw [List.getElem?_append_right (by omega), List.getElem?_eq_none (Nat.le_of_not_lt hgl)]
        by_cases hr : g - w.groups.length < gid + 1 - w.groups.length
        · rw [List.getElem?_replicate]; simp [hr]; rfl
        · rw [List.getElem?_eq_none (by simpa using Nat.le_of_not_lt hr)]
    · rfl

theorem extN_groupTab {n : Nat} (w : World) (gid : Nat) (hn : w.devs.length < n) : ExtN n w (groupTab w gid) := by
  refine ⟨Nat.le_refl _, fun _ _ => rfl, fun _ _ h => Or.inl h, ?_⟩
  intro g
  rcases ginp_groupTab w gid g with h | h
  · exact Or.inl h
  · right; rw [h]; exact hn

theorem len_foldl_rewire (l : List Nat) (ups : Nat → List Nat) : ∀ (w : World),
    (l.foldl (fun w' d => w'.rewire d (ups d)) w).devs.length = w.devs.length := by
  induction l with
  | nil => intro w; rfl
  | cons a l ih => intro w; rw [List.foldl_cons, ih, len_rewire]

theorem len_addAsset_group (w : World) (gid : Nat) (devs ins outs : List Nat) :
    (w.addAsset (.group gid devs ins outs)).devs.length = w.devs.length + 2 := by
  rw [addAsset_group_eq]
  simp only []
  rw [len_rewire, len_addDev, len_foldl_rewire _ (fun _ => [w.devs.length]), len_addDev]
  rfl

theorem extN_addAsset_group (w : World) (gid : Nat) (devs ins outs : List Nat)
    (hi : ∀ d ∈ groupIns devs ins, d ≤ w.devs.length) :
    ExtN (w.devs.length + 2) w (w.addAsset (.group gid devs ins outs)) := by
  rw [addAsset_group_eq]
  simp only []
  have e1 : ExtN (w.devs.length + 2) w (groupTab w gid) := extN_groupTab w gid (by omega)
  have e2 : ExtN (w.devs.length + 2) (groupTab w gid) ((groupTab w gid).addDev { kind := .ginput, group := gid }) :=
    extN_addDev _ _ (by show w.devs.length < _; omega) (by intro y hy; cases hy)
  have l2 : ((groupTab w gid).addDev { kind := .ginput, group := gid }).devs.length = w.devs.length + 1 := by
    rw [len_addDev]; rfl
  have e3 : ∀ w1 : World, ExtN (w.devs.length + 2) w1
      ((groupIns devs ins).foldl (fun w' d => w'.rewire d [w.devs.length]) w1) := by
    intro w1
    have : ∀ (l : List Nat), (∀ d ∈ l, d ≤ w.devs.length) → ∀ w1 : World,
        ExtN (w.devs.length + 2) w1 (l.foldl (fun w' d => w'.rewire d [w.devs.length]) w1) := by
      intro l
      induction l with
      | nil => intro _ w1; exact ExtN.refl _ _
      | cons a l ih =>
        intro hl w1
        rw [List.foldl_cons]
        exact (extN_rewire w1 a _ (by have := hl a (List.mem_cons_self ..); omega)).trans
          (ih (fun d hd => hl d (List.mem_cons_of_mem _ hd)) _)
    exact this _ hi w1
  refine (((e1.trans e2).trans (e3 _)).trans (extN_addDev _ _ ?_ (by intro y hy; cases hy))).trans
    (extN_rewire _ _ _ (by omega))
  rw [len_foldl_rewire _ (fun _ => [w.devs.length]), l2]
  omega

/-! ### closed wiring makes every hand-over admissible -/

theorem reach_lt {w : World} (h : Wired w) {y z : Nat} (hr : Reach (st w) y z) :
    y < w.devs.length → z < w.devs.length := by
  induction hr with
  | self y _ => exact id
  | gate y z u _ hz _ ih =>
    intro _
    rw [st_down] at hz
    exact ih (h.down y z hz)
  | gpath y u _ _ ih =>
    intro hy
    apply ih
    rw [st_gin, st_group]
    rcases h.gin ((w.dev y).group) with h0 | h0
    · unfold ginp at h0; rw [h0]; omega
    · exact h0
  | goutput y g z u _ hz _ ih =>
    intro _
    rw [st_down] at hz
    exact ih (h.down g z hz)

theorem topoOK_of_wired {w : World} (h : Wired w) : TopoOK w := by
  intro x y hy z hr
  exact reach_lt h hr (h.down x y hy)

/-- closed wiring is necessary for `TopoOK` as far as the wiring targets are concerned -/
theorem down_lt_of_topoOK {w : World} (h : TopoOK w) (x y : Nat) (hy : y ∈ (w.dev x).down) :
    y < w.devs.length := by
  by_cases hlt : y < w.devs.length
  · exact hlt
  · apply h x y hy y
    apply Reach.self
    rw [st_kind, dev_of_length_le (Nat.le_of_not_lt hlt)]
    rfl

end C02W
end SimProc
