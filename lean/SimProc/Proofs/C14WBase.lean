/-
C14W — the world functions are BLIND to the contents of the event queue.

`sw w t` is the world `w` with its queue (pending and paused events, uid counter, terminated flag)
and its weight key (`seed`, `wmod`) replaced by those of the "twin" `t`; the clock is kept.

Pass 1 (`Blind`): for every function `f` of the model that can run inside an event action,
`f (sw w t) = sw (f w) (NX f w t)` — the non-queue part of the result does not depend on the queue
at all, unconditionally.  These equations form the simp set `c14w`.
-/
import SimProc.Proofs.C01WWorld
import SimProc.Proofs.C14WAttr
import Lean

namespace SimProc
namespace C14W
open World
open Lean Elab Tactic Meta

/-- The replaced part of a world. -/
structure Twin where
  env : Env
  seed : Nat
  wmod : Nat

/-- Queue of `e`, clock of `w`. -/
def se (w : World) (e : Env) : Env := { e with now := w.env.now }

/-- The twin world. -/
def sw (w : World) (t : Twin) : World := { w with env := se w t.env, seed := t.seed, wmod := t.wmod }

/-- The twin after running `G`. -/
def NX (G : World → World) (w : World) (t : Twin) : Twin := { t with env := (G (sw w t)).env }

/-- Restore a twin that a structure update has taken apart. -/
@[c14w] theorem twin_eta (T : Twin) (s m : Nat) (hs : T.seed = s) (hm : T.wmod = m) :
    (⟨T.env, s, m⟩ : Twin) = T := by
  subst hs; subst hm; rfl

@[c14w] theorem NX_seed (G : World → World) (w : World) (t : Twin) : (NX G w t).seed = t.seed := rfl
@[c14w] theorem NX_wmod (G : World → World) (w : World) (t : Twin) : (NX G w t).wmod = t.wmod := rfl

/-- A world without its queue and weight key (the clock is kept). -/
def unq (w : World) : World := { w with env := { now := w.env.now }, seed := 0, wmod := 0 }

/-- What blindness compares. -/
def key (w : World) : World × Nat × Nat := (unq w, w.seed, w.wmod)

@[c14w] theorem key_sw (w : World) (t : Twin) : key (sw w t) = (unq w, t.seed, t.wmod) := rfl

theorem eq_sw_of_key {W' X : World} {s m : Nat} (h : key W' = (unq X, s, m)) :
    W' = sw X ⟨W'.env, s, m⟩ := by
  cases W' with | mk env seed wmod _ _ _ _ _ _ _ _ _ _ _ _ _ _ _ _ _ _ _ _ =>
  cases X with | mk env' _ _ _ _ _ _ _ _ _ _ _ _ _ _ _ _ _ _ _ _ _ _ =>
  simp only [key, unq, Prod.mk.injEq, World.mk.injEq, Env.mk.injEq] at h
  obtain ⟨⟨⟨hn, -⟩, -, -, h⟩, rfl, rfl⟩ := h
  simp only [sw, se, World.mk.injEq, true_and]
  cases env
  simp only at hn
  subst hn
  exact ⟨rfl, h⟩

@[c14w] theorem key_ite (c : Prop) [Decidable c] (a b : World) :
    key (if c then a else b) = if c then key a else key b := by
  split <;> rfl

@[c14w] theorem unq_ite (c : Prop) [Decidable c] (a b : World) (s m : Nat) :
    (unq (if c then a else b), s, m) = if c then (unq a, s, m) else (unq b, s, m) := by
  split <;> rfl

/-- `G` does not look at the queue: on the twin world it returns the twin of its result. -/
def Blind (G : World → World) : Prop := ∀ w t, key (G (sw w t)) = (unq (G w), t.seed, t.wmod)

theorem Blind.eq {G : World → World} (h : Blind G) (w : World) (t : Twin) :
    G (sw w t) = sw (G w) (NX G w t) := eq_sw_of_key (h w t)

/-- Pair-valued functions. -/
def Blind2 {α : Type} (G : World → World × α) : Prop :=
  ∀ w t, key (G (sw w t)).1 = (unq (G w).1, t.seed, t.wmod) ∧ (G (sw w t)).2 = (G w).2

theorem Blind2.eq {α : Type} {G : World → World × α} (h : Blind2 G) (w : World) (t : Twin) :
    G (sw w t) = (sw (G w).1 (NX (fun v => (G v).1) w t), (G w).2) :=
  Prod.ext (eq_sw_of_key (h w t).1) (h w t).2

/-! ### reads -/

@[c14w] theorem sw_env (w : World) (t : Twin) : (sw w t).env = se w t.env := rfl
@[c14w] theorem se_now (w : World) (e : Env) : (se w e).now = w.env.now := rfl
@[c14w] theorem sw_now (w : World) (t : Twin) : (sw w t).now = w.now := rfl
@[c14w] theorem sw_seed (w : World) (t : Twin) : (sw w t).seed = t.seed := rfl
@[c14w] theorem sw_wmod (w : World) (t : Twin) : (sw w t).wmod = t.wmod := rfl
@[c14w] theorem sw_scripts (w : World) (t : Twin) : (sw w t).scripts = w.scripts := rfl
@[c14w] theorem sw_results (w : World) (t : Twin) : (sw w t).results = w.results := rfl
@[c14w] theorem sw_error (w : World) (t : Twin) : (sw w t).error = w.error := rfl
@[c14w] theorem sw_recs (w : World) (t : Twin) : (sw w t).recs = w.recs := rfl
@[c14w] theorem sw_rm (w : World) (t : Twin) : (sw w t).rm = w.rm := rfl
@[c14w] theorem sw_vars (w : World) (t : Twin) : (sw w t).vars = w.vars := rfl
@[c14w] theorem sw_devs (w : World) (t : Twin) : (sw w t).devs = w.devs := rfl
@[c14w] theorem sw_parts (w : World) (t : Twin) : (sw w t).parts = w.parts := rfl
@[c14w] theorem sw_groups (w : World) (t : Twin) : (sw w t).groups = w.groups := rfl
@[c14w] theorem sw_maints (w : World) (t : Twin) : (sw w t).maints = w.maints := rfl
@[c14w] theorem sw_targets (w : World) (t : Twin) : (sw w t).targets = w.targets := rfl
@[c14w] theorem sw_scheds (w : World) (t : Twin) : (sw w t).scheds = w.scheds := rfl
@[c14w] theorem sw_sensors (w : World) (t : Twin) : (sw w t).sensors = w.sensors := rfl
@[c14w] theorem sw_cmsSensors (w : World) (t : Twin) : (sw w t).cmsSensors = w.cmsSensors := rfl
@[c14w] theorem sw_svars (w : World) (t : Twin) : (sw w t).svars = w.svars := rfl
@[c14w] theorem sw_assets (w : World) (t : Twin) : (sw w t).assets = w.assets := rfl
@[c14w] theorem sw_started (w : World) (t : Twin) : (sw w t).started = w.started := rfl
@[c14w] theorem sw_generated (w : World) (t : Twin) : (sw w t).generated = w.generated := rfl
@[c14w] theorem sw_delivered (w : World) (t : Twin) : (sw w t).delivered = w.delivered := rfl
@[c14w] theorem sw_lost (w : World) (t : Twin) : (sw w t).lost = w.lost := rfl

@[c14w] theorem sw_dev (w : World) (t : Twin) (x : Nat) : (sw w t).dev x = w.dev x := rfl
@[c14w] theorem sw_part (w : World) (t : Twin) (p : Nat) : (sw w t).part p = w.part p := rfl
@[c14w] theorem sw_fuel (w : World) (t : Twin) : (sw w t).fuel = w.fuel := rfl
@[c14w] theorem sw_operational (w : World) (t : Twin) (x : Nat) :
    (sw w t).operational x = w.operational x := rfl
@[c14w] theorem sw_cycleTime (w : World) (t : Twin) (x : Nat) :
    (sw w t).cycleTime x = w.cycleTime x := rfl
@[c14w] theorem sw_isBatch (w : World) (t : Twin) (p : Nat) : (sw w t).isBatch p = w.isBatch p := rfl
@[c14w] theorem sw_leavesOf (w : World) (t : Twin) (p : Nat) :
    (sw w t).leavesOf p = w.leavesOf p := rfl
@[c14w] theorem sw_leafCount (w : World) (t : Twin) (p : Nat) :
    (sw w t).leafCount p = w.leafCount p := rfl
@[c14w] theorem sw_partValue (w : World) (t : Twin) (p : Nat) :
    (sw w t).partValue p = w.partValue p := rfl
@[c14w] theorem sw_gatePred (w : World) (t : Twin) (pr : Pred) (p : Nat) :
    (sw w t).gatePred pr p = w.gatePred pr p := rfl
@[c14w] theorem sw_canAcceptBasic (w : World) (t : Twin) (x p : Nat) :
    (sw w t).canAcceptBasic x p = w.canAcceptBasic x p := rfl
@[c14w] theorem sw_targetParams (w : World) (t : Twin) (tgt : Nat) (tag : Int) :
    (sw w t).targetParams tgt tag = w.targetParams tgt tag := rfl
@[c14w] theorem sw_maint (w : World) (t : Twin) (m : Nat) : (sw w t).maint m = w.maint m := rfl
@[c14w] theorem sw_getVar (w : World) (t : Twin) (h : Nat) : (sw w t).getVar h = w.getVar h := rfl

@[c14w] theorem sw_waitingSince (n : Nat) (w : World) (t : Twin) (x : Nat) :
    waitingSince n (sw w t) x = waitingSince n w x := by
  induction n generalizing x with
  | zero => rfl
  | succ n ih =>
    rw [waitingSince, waitingSince]
    simp only [sw_dev, ih]

@[c14w] theorem sw_sortedDown (w : World) (t : Twin) (x : Nat) :
    (sw w t).sortedDown x = w.sortedDown x := by
  unfold sortedDown
  simp only [sw_dev, sw_fuel, sw_waitingSince]

/-! ### updates -/

/-- Any world whose environment is a twin environment is a twin world. -/
@[c14w] theorem mk_sw (w : World) (e : Env) (s m : Nat) (scripts results error recs rm vars devs
    parts groups maints targets scheds sensors cmsSensors svars assets started generated delivered
    lost) :
    World.mk (se w e) s m scripts results error recs rm vars devs parts groups maints targets scheds
      sensors cmsSensors svars assets started generated delivered lost =
    sw (World.mk w.env w.seed w.wmod scripts results error recs rm vars devs parts groups maints
      targets scheds sensors cmsSensors svars assets started generated delivered lost) ⟨e, s, m⟩ := rfl

@[c14w] theorem sw_setDev (w : World) (t : Twin) (x : Nat) (d : Dev) :
    (sw w t).setDev x d = sw (w.setDev x d) t := rfl
@[c14w] theorem sw_modDev (w : World) (t : Twin) (x : Nat) (f : Dev → Dev) :
    (sw w t).modDev x f = sw (w.modDev x f) t := rfl
@[c14w] theorem sw_modPart (w : World) (t : Twin) (p : Nat) (f : PartRec → PartRec) :
    (sw w t).modPart p f = sw (w.modPart p f) t := rfl
@[c14w] theorem sw_addRec (w : World) (t : Twin) (r : Rec) : (sw w t).addRec r = sw (w.addRec r) t := rfl
@[c14w] theorem sw_addRes (w : World) (t : Twin) (r : Res) : (sw w t).addRes r = sw (w.addRes r) t := rfl
@[c14w] theorem sw_newPart (w : World) (t : Twin) (r : PartRec) :
    (sw w t).newPart r = (sw (w.newPart r).1 t, (w.newPart r).2) := rfl
@[c14w] theorem sw_modMaint (w : World) (t : Twin) (m : Nat) (f : Maint → Maint) :
    (sw w t).modMaint m f = sw (w.modMaint m f) t := rfl
@[c14w] theorem sw_setVar (w : World) (t : Twin) (h : Nat) (v : Option Nat) :
    (sw w t).setVar h v = sw (w.setVar h v) t := rfl
@[c14w] theorem sw_setErr (w : World) (t : Twin) (m : String) :
    (sw w t).setErr m = sw (w.setErr m) t := by
  unfold setErr
  simp only [sw_error]
  split <;> rfl

/-- Find a pair-valued call `X` (occurring as `X.1` or `X.2`) and destructure it everywhere in
the goal (a `Bool` or `Res` second component is case-split as well). -/
elab "destruct_pair" : tactic => do
  let g ← getMainGoal
  let env ← getEnv
  g.withContext do
    let t ← instantiateMVars (← g.getType)
    let simple (c : Expr) : Bool :=
      (c.find? fun e => (e.isAppOfArity ``ite 5 || e.isAppOfArity ``dite 5 ||
        (isMatcherAppCore env e)) && !e.hasLooseBVars).isNone
    let found := t.find? fun e =>
      (e.isAppOfArity ``Prod.fst 3 || e.isAppOfArity ``Prod.snd 3) &&
        !(e.appArg!.hasLooseBVars) && !(e.appArg!.isFVar) && !(e.appArg!.isAppOf ``Prod.mk) &&
        simple e.appArg!
    match found with
    | none => throwError "destruct_pair: no pair-valued call"
    | some e =>
      let X := e.appArg!
      let (fvars, g') ← g.generalize #[{ expr := X, xName? := `q, hName? := `hq }]
      let subgoals ← g'.cases fvars[0]!
      let mut out : List MVarId := []
      for sg in subgoals do
        let snd := sg.fields[1]!
        let ty ← sg.mvarId.withContext do whnfR (← inferType snd)
        if (ty.isConstOf ``Bool || ty.isConstOf ``SimProc.Res) && snd.isFVar then
          let sgs ← sg.mvarId.cases snd.fvarId!
          out := out ++ (sgs.toList.map (·.mvarId))
        else
          out := out ++ [sg.mvarId]
      replaceMainGoal out

/-- Rewrite every `if c then a else b` (with exactly the condition `c`, whatever its `Decidable`
instance looks like) using `h : c` (`pos = true`) or `h : ¬ c`. -/
partial def rewriteIte (g : MVarId) (c h : Expr) (pos : Bool) : MetaM MVarId := g.withContext do
  let t ← instantiateMVars (← g.getType)
  let found := t.find? fun e => e.isAppOfArity ``ite 5 && (e.getArg! 1) == c && !e.hasLooseBVars
  match found with
  | none => return g
  | some e =>
    let args := e.getAppArgs
    let pf ← mkAppOptM (if pos then ``if_pos else ``if_neg)
      #[some c, some args[2]!, some h, some args[0]!, some args[3]!, some args[4]!]
    let r ← g.rewrite t pf
    let g' ← g.replaceTargetEq r.eNew r.eqProof
    rewriteIte g' c h pos

/-- Case-split on the condition of the first `if` in the goal and rewrite EVERY `if` with that
condition. -/
elab "split_ite" : tactic => do
  let g ← getMainGoal
  let env ← getEnv
  g.withContext do
    let t ← instantiateMVars (← g.getType)
    -- an `if` whose condition contains no further `if` / `match` (those are split first)
    let simple (c : Expr) : Bool :=
      (c.find? fun e => (e.isAppOfArity ``ite 5 || e.isAppOfArity ``dite 5 ||
        (isMatcherAppCore env e)) && !e.hasLooseBVars).isNone
    let found := t.find? fun e =>
      e.isAppOfArity ``ite 5 && !e.hasLooseBVars && simple (e.getArg! 1)
    match found with
    | none => throwError "split_ite: no if"
    | some e =>
      let c := e.getArg! 1
      let (pos, neg) ← g.byCases c `hsplit
      let g1 ← rewriteIte pos.mvarId c (mkFVar pos.fvarId) true
      let g2 ← rewriteIte neg.mvarId c (mkFVar neg.fvarId) false
      replaceMainGoal [g1, g2]

/-- Split a `match` whose discriminants contain no further `if` / `match` (innermost first: the
discriminants are then already in normal form). -/
elab "split_match" : tactic => do
  let g ← getMainGoal
  let env ← getEnv
  g.withContext do
    let t ← instantiateMVars (← g.getType)
    let simple (c : Expr) : Bool :=
      (c.find? fun e => (e.isAppOfArity ``ite 5 || e.isAppOfArity ``dite 5 ||
        (isMatcherAppCore env e)) && !e.hasLooseBVars).isNone
    let found := t.find? fun e =>
      if e.hasLooseBVars then false else
      match e.getAppFn with
      | .const n _ =>
        match getMatcherInfoCore? env n with
        | some info =>
          let args := e.getAppArgs
          args.size ≥ info.arity &&
            ((args.extract (info.numParams + 1) (info.numParams + 1 + info.numDiscrs)).all simple)
        | none => false
      | _ => false
    match found with
    | none => throwError "split_match: no match"
    | some e =>
      let args := e.getAppArgs
      let some info := getMatcherInfoCore? env e.getAppFn.constName! | throwError "split_match"
      let e' := mkAppN e.getAppFn (args.extract 0 info.arity)
      let gs ← Split.splitMatch g e'
      replaceMainGoal gs

/-- Split every `if` and `match` of the goal. -/
macro "split_all" : tactic => `(tactic| repeat' (first | split_ite | split_match))

/-- Unfold the listed functions and push `sw` outwards (`-implicitDefEqProofs`: the hypotheses of
`sw_foldl` are discharged by `simp` itself, with `rfl`-lemmas, and the proof must be assignable at
reducible transparency). -/
syntax "bl_norm" " [" Lean.Parser.Tactic.simpLemma,* "]" : tactic
macro_rules
  | `(tactic| bl_norm [$args,*]) =>
    `(tactic| simp -implicitDefEqProofs only [c14w, implies_true, $args,*])

/-- Normalise, split every `if` and `match`, normalise again, … -/
syntax "bl_go" (" [" Lean.Parser.Tactic.simpLemma,* "]")? : tactic
macro_rules
  | `(tactic| bl_go) => `(tactic| repeat' (first | bl_norm [] | destruct_pair | split_ite | split_match))
  | `(tactic| bl_go [$args,*]) => `(tactic| repeat' (first | bl_norm [$args,*] | destruct_pair | split_ite | split_match))

/-- Leaves. -/
macro "bl_fin" : tactic =>
  `(tactic| first | rfl | trivial | (constructor <;> first | rfl | trivial))

/-- Close a blindness goal after normalisation. -/
syntax "bl_close" (" [" Lean.Parser.Tactic.simpLemma,* "]")? : tactic
macro_rules
  | `(tactic| bl_close) =>
    `(tactic| (bl_go <;> bl_fin))
  | `(tactic| bl_close [$args,*]) =>
    `(tactic| (bl_go [$args,*] <;> bl_fin))

/-! ### the primitives that touch the queue -/

theorem bl_sched (τ a : Int) (act : Action) (p : Int) : Blind2 (fun w => w.sched τ a act p) := by
  intro w t
  simp only [World.sched, Env.apply, Env.schedule, c14w]
  by_cases h : τ < w.env.now
  · simp only [h, if_true]; exact ⟨rfl, trivial⟩
  · simp only [h, if_false]; exact ⟨rfl, trivial⟩

@[c14w] theorem sw_sched (w : World) (t : Twin) (τ a : Int) (act : Action) (p : Int) :
    (sw w t).sched τ a act p =
      (sw (w.sched τ a act p).1 (NX (fun v => (v.sched τ a act p).1) w t), (w.sched τ a act p).2) :=
  (bl_sched τ a act p).eq w t

theorem bl_schedLib (τ a : Int) (act : Action) (p : Int) : Blind (fun w => w.schedLib τ a act p) := by
  intro w t
  simp only [schedLib, c14w]
  destruct_pair <;> simp only [c14w] <;> rfl

@[c14w] theorem sw_schedLib (w : World) (t : Twin) (τ a : Int) (act : Action) (p : Int) :
    (sw w t).schedLib τ a act p = sw (w.schedLib τ a act p) (NX (fun v => v.schedLib τ a act p) w t) :=
  (bl_schedLib τ a act p).eq w t

@[c14w] theorem sw_envOp_pause (w : World) (t : Twin) (a : Int) :
    (sw w t).envOp (.pause a) = sw (w.envOp (.pause a)) (NX (fun v => v.envOp (.pause a)) w t) :=
  Blind.eq (G := fun v => v.envOp (.pause a)) (fun _ _ => rfl) w t
@[c14w] theorem sw_envOp_unpause (w : World) (t : Twin) (a : Int) :
    (sw w t).envOp (.unpause a) = sw (w.envOp (.unpause a)) (NX (fun v => v.envOp (.unpause a)) w t) :=
  Blind.eq (G := fun v => v.envOp (.unpause a)) (fun _ _ => rfl) w t
@[c14w] theorem sw_envOp_cancel (w : World) (t : Twin) (a : Int) :
    (sw w t).envOp (.cancel a) = sw (w.envOp (.cancel a)) (NX (fun v => v.envOp (.cancel a)) w t) :=
  Blind.eq (G := fun v => v.envOp (.cancel a)) (fun _ _ => rfl) w t

/-- Folds. -/
theorem bl_foldl {α : Type} (g : World → α → World)
    (hg : ∀ w t a, key (g (sw w t) a) = (unq (g w a), t.seed, t.wmod)) (l : List α) :
    Blind (fun v => l.foldl g v) := by
  intro w t
  induction l generalizing w t with
  | nil => rfl
  | cons a l ih =>
    simp only [List.foldl_cons]
    rw [Blind.eq (G := fun v => g v a) (fun w t => hg w t a)]
    exact ih (g w a) (NX (fun v => g v a) w t)

@[c14w] theorem sw_foldl {α : Type} (g : World → α → World)
    (hg : ∀ w t a, key (g (sw w t) a) = (unq (g w a), t.seed, t.wmod)) (l : List α) (w : World)
    (t : Twin) : l.foldl g (sw w t) = sw (l.foldl g w) (NX (fun v => l.foldl g v) w t) :=
  (bl_foldl g hg l).eq w t

/-- Folds of functions that do not touch the queue at all (tried first). -/
@[c14w high] theorem sw_foldl_same {α : Type} (g : World → α → World)
    (hg : ∀ w t a, g (sw w t) a = sw (g w a) t) (l : List α) (w : World) (t : Twin) :
    l.foldl g (sw w t) = sw (l.foldl g w) t := by
  induction l generalizing w with
  | nil => rfl
  | cons a l ih => simp only [List.foldl_cons, hg, ih]

theorem bl_rmEffects (recs : List ResRec) (chk : Bool) : Blind (fun w => w.rmEffects recs chk) := by
  intro w t
  bl_close [rmEffects]

@[c14w] theorem sw_rmEffects (w : World) (t : Twin) (recs : List ResRec) (chk : Bool) :
    (sw w t).rmEffects recs chk = sw (w.rmEffects recs chk) (NX (fun v => v.rmEffects recs chk) w t) :=
  (bl_rmEffects recs chk).eq w t

end C14W
end SimProc
