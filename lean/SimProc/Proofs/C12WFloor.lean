/-
C12W, part 3: `Fr w (f w)` for every function of `Model/Floor.lean` (none of them concerns the
maintainers).
-/
import SimProc.Proofs.C12WBase

namespace SimProc
namespace C12W
open World FloorCoreL

/-! ### notifications -/

theorem Fr_setWaiting (w : World) (x : Nat) (a b : Bool) : Fr w (w.setWaiting x a b) := by
  unfold setWaiting
  dsimp only
  fr_auto

macro_rules | `(tactic| fr_step) => `(tactic| with_reducible apply Fr.trans (h2 := Fr_setWaiting _ _ _ _))

theorem Fr_schedulePass (w : World) (x : Nat) (o : Int) : Fr w (w.schedulePass x o) := by
  unfold schedulePass
  dsimp only
  fr_auto

macro_rules | `(tactic| fr_step) => `(tactic| with_reducible apply Fr.trans (h2 := Fr_schedulePass _ _ _))

/-- The two notification functions, simultaneously by induction on the fuel. -/
theorem Fr_notifyUp_spaceAvail (n : Nat) :
    ∀ w x, Fr w (notifyUp n w x) ∧ Fr w (spaceAvail n w x) := by
  induction n with
  | zero =>
    intro w x
    constructor
    · rw [notifyUp]; exact Fr_setErr _ _
    · rw [spaceAvail]; exact Fr_setErr _ _
  | succ n ih =>
    intro w x
    have hN : ∀ w x, Fr w (notifyUp n w x) := fun w x => (ih w x).1
    have hS : ∀ w x, Fr w (spaceAvail n w x) := fun w x => (ih w x).2
    constructor
    · rw [notifyUp]
      dsimp only
      repeat' first
        | with_reducible exact Fr.refl _
        | with_reducible apply Fr.trans (h2 := Fr.foldl _ _ _ hS)
        | with_reducible apply Fr.trans (h2 := Fr.foldl _ _ _ hN)
        | with_reducible apply Fr.trans (h2 := Fr_setWaiting _ _ _ _)
        | split
    · rw [spaceAvail]
      try dsimp only
      repeat' first
        | with_reducible exact Fr.refl _
        | exact hN _ _
        | exact hS _ _
        | exact Fr_schedulePass _ _ _
        | split

theorem Fr_notifyUp (n : Nat) (w : World) (x : Nat) : Fr w (notifyUp n w x) :=
  (Fr_notifyUp_spaceAvail n w x).1
theorem Fr_spaceAvail (n : Nat) (w : World) (x : Nat) : Fr w (spaceAvail n w x) :=
  (Fr_notifyUp_spaceAvail n w x).2
theorem Fr_notify (w : World) (x : Nat) : Fr w (w.notify x) := Fr_notifyUp _ _ _
theorem Fr_spaceAvailable (w : World) (x : Nat) : Fr w (w.spaceAvailable x) := Fr_spaceAvail _ _ _

macro_rules | `(tactic| fr_step) => `(tactic| with_reducible apply Fr.trans (h2 := Fr_notify _ _))
macro_rules | `(tactic| fr_step) => `(tactic| with_reducible apply Fr.trans (h2 := Fr_spaceAvailable _ _))

/-! ### resources of a processor -/

theorem Fr_releaseReserved (w : World) (x : Nat) : Fr w (w.releaseReserved x) := by
  unfold releaseReserved
  split
  · exact Fr.refl _
  · dsimp only
    fr_auto

theorem Fr_procAcquire (w : World) (x : Nat) : Fr w (w.procAcquire x).1 := by
  unfold procAcquire
  dsimp only
  fr_auto

macro_rules | `(tactic| fr_step) => `(tactic| with_reducible apply Fr.trans (h2 := Fr_releaseReserved _ _))

/-! ### parts, callbacks -/

theorem Fr_addHist (w : World) (p d : Nat) : Fr w (w.addHist p d) := by
  unfold addHist
  dsimp only
  fr_auto

theorem Fr_dropHist (w : World) (p : Nat) : Fr w (w.dropHist p) := by
  unfold dropHist
  dsimp only
  fr_auto

theorem Fr_applyPartCb (w : World) (x p : Nat) (c : PartCb) : Fr w (w.applyPartCb x p c) := by
  unfold applyPartCb
  dsimp only
  fr_auto

theorem Fr_senseOutput (w : World) (s p : Nat) : Fr w (w.senseOutput s p) := by
  unfold senseOutput
  dsimp only
  fr_auto

theorem Fr_finishCycleHandler (w : World) (x : Nat) : Fr w (w.finishCycleHandler x) := by
  unfold finishCycleHandler
  dsimp only
  fr_auto

macro_rules | `(tactic| fr_step) => `(tactic| with_reducible apply Fr.trans (h2 := Fr_addHist _ _ _))
macro_rules | `(tactic| fr_step) => `(tactic| with_reducible apply Fr.trans (h2 := Fr_dropHist _ _))
macro_rules | `(tactic| fr_step) => `(tactic| with_reducible apply Fr.trans (h2 := Fr_applyPartCb _ _ _ _))
macro_rules | `(tactic| fr_step) => `(tactic| with_reducible apply Fr.trans (h2 := Fr_senseOutput _ _ _))
macro_rules | `(tactic| fr_step) => `(tactic| with_reducible apply Fr.trans (h2 := Fr_finishCycleHandler _ _))

theorem FKE_genPart_fold (d : Dev) (l : List Nat) (acc : World × List Nat) :
    FK (l.foldl (fun (acc : World × List Nat) _ =>
      let (w', k) := acc.1.newPart { quality := d.genQuality, value := d.genValue }
      (w', acc.2 ++ [k])) acc).1 = FK acc.1 ∧
    (l.foldl (fun (acc : World × List Nat) _ =>
      let (w', k) := acc.1.newPart { quality := d.genQuality, value := d.genValue }
      (w', acc.2 ++ [k])) acc).1.env = acc.1.env := by
  induction l generalizing acc with
  | nil => exact ⟨rfl, rfl⟩
  | cons a l ih =>
    rw [List.foldl_cons]
    exact ⟨(ih _).1.trans rfl, (ih _).2.trans rfl⟩

theorem FKE_genPart (w : World) (x : Nat) :
    FK (w.genPart x).1 = FK w ∧ (w.genPart x).1.env = w.env := by
  unfold genPart
  dsimp only
  split
  · exact ⟨rfl, rfl⟩
  · exact ⟨(FKE_genPart_fold _ _ _).1.trans rfl, (FKE_genPart_fold _ _ _).2.trans rfl⟩

theorem Fr_genPart (w : World) (x : Nat) : Fr w (w.genPart x).1 := Fr.of_FK (FKE_genPart w x).1 (FKE_genPart w x).2

macro_rules | `(tactic| fr_step) => `(tactic| with_reducible apply Fr.trans (h2 := Fr_genPart _ _))

theorem Fr_batcherLoop (n : Nat) (w : World) (x : Nat) : Fr w (batcherLoop n w x) := by
  induction n generalizing w with
  | zero => exact Fr.refl _
  | succ n ih =>
    rw [batcherLoop]
    split
    · split
      rename_i w1 t heq
      refine Fr.trans ?_ (ih _)
      have h1 : Fr w (w1, t).1 := by
        rw [← heq]
        split <;> dsimp only <;> fr_auto
      refine Fr.trans h1 ?_
      split
      · fr_auto
      · split
        rename_i w2 b heq2
        have h2 : Fr w1 (w2, b).1 := by
          rw [← heq2]
          split
          · exact Fr.refl _
          · dsimp only
            fr_step
            exact Fr_newPart _ _
        refine Fr.trans h2 ?_
        dsimp only
        fr_auto
    · exact Fr.refl _

macro_rules | `(tactic| fr_step) => `(tactic| with_reducible apply Fr.trans (h2 := Fr_batcherLoop _ _ _))

/-! ### finishing a cycle -/

theorem Fr_finishCycle (w : World) (x : Nat) : Fr w (w.finishCycle x) := by
  unfold finishCycle
  dsimp only
  split
  · -- source
    fr_step
    split
    · fr_step
      fr_step
      have := Fr_genPart w x
      revert this
      generalize w.genPart x = q
      intro this
      exact this
    · exact Fr.refl _
  · fr_auto
  · -- processor
    split
    · fr_auto
    · fr_auto
  · fr_auto

macro_rules | `(tactic| fr_step) => `(tactic| with_reducible apply Fr.trans (h2 := Fr_finishCycle _ _))

theorem Fr_scheduleFinish (w : World) (x : Nat) : Fr w (w.scheduleFinish x) := by
  unfold scheduleFinish
  dsimp only
  fr_auto

macro_rules | `(tactic| fr_step) => `(tactic| with_reducible apply Fr.trans (h2 := Fr_scheduleFinish _ _))

theorem Fr_tryMove (w : World) (x : Nat) : Fr w (w.tryMove x) := by
  unfold tryMove
  dsimp only
  fr_auto

macro_rules | `(tactic| fr_step) => `(tactic| with_reducible apply Fr.trans (h2 := Fr_tryMove _ _))

theorem Fr_onReceived (w : World) (x p : Nat) : Fr w (w.onReceived x p) := by
  unfold onReceived
  dsimp only
  fr_auto

macro_rules | `(tactic| fr_step) => `(tactic| with_reducible apply Fr.trans (h2 := Fr_onReceived _ _ _))

theorem Fr_acceptPart (w : World) (x p : Nat) : Fr w (w.acceptPart x p) := by
  unfold acceptPart
  dsimp only
  fr_auto

/-! ### handing parts over -/

theorem Fr_tryList (g : World → Nat → Nat → World × Bool)
    (hg : ∀ w y p, Fr w (g w y p).1) (w : World) (l : List Nat) (p : Nat) :
    Fr w (tryList g w l p).1 := by
  induction l generalizing w with
  | nil => exact Fr.refl w
  | cons y ys ih =>
    rw [tryList]
    have h := hg w y p
    split
    · rename_i heq; rw [heq] at h; exact h
    · rename_i heq; rw [heq] at h; exact h.trans (ih _)

theorem Fr_give (n : Nat) : ∀ (w : World) (x p : Nat), Fr w (give n w x p).1 := by
  induction n with
  | zero => intro w x p; exact Fr_setErr _ _
  | succ n ih =>
    intro w x p
    have hT : ∀ w l p, Fr w (tryList (give n) w l p).1 := Fr_tryList _ ih
    rw [give]
    dsimp only
    repeat' first
      | fr_step
      | with_reducible apply Fr.trans (h2 := Fr_acceptPart _ _ _)
      | exact hT _ _ _
      | exact ih _ _ _
      | fr_heq (hT _ _ _)
      | fr_heq (ih _ _ _)
      | fr_heq (Fr_procAcquire _ _)
      | split

theorem Fr_givePart (w : World) (x p : Nat) : Fr w (w.givePart x p).1 := Fr_give _ _ _ _

theorem Fr_tryList_givePart (w : World) (l : List Nat) (p : Nat) :
    Fr w (tryList givePart w l p).1 := Fr_tryList _ Fr_givePart _ _ _

theorem Fr_passHandler (w : World) (x : Nat) : Fr w (w.passHandler x) := by
  unfold passHandler
  dsimp only
  repeat' first
    | fr_step
    | fr_heq (Fr_tryList_givePart _ _ _)
    | split

theorem Fr_bufferLoop (n : Nat) (w : World) (x : Nat) : Fr w (bufferLoop n w x) := by
  induction n generalizing w with
  | zero => exact Fr.refl _
  | succ n ih =>
    rw [bufferLoop]
    dsimp only
    repeat' first
      | fr_step
      | with_reducible apply Fr.trans (h2 := ih _)
      | fr_heq (Fr_tryList_givePart _ _ _)
      | split

macro_rules | `(tactic| fr_step) => `(tactic| with_reducible apply Fr.trans (h2 := Fr_passHandler _ _))
macro_rules | `(tactic| fr_step) => `(tactic| with_reducible apply Fr.trans (h2 := Fr_bufferLoop _ _ _))

theorem Fr_passPart (w : World) (x : Nat) : Fr w (w.passPart x) := by
  unfold passPart
  dsimp only
  fr_auto

/-! ### processors: failure, shutdown, restore -/

theorem Fr_shutdownDev (w : World) (x : Nat) (f : Bool) (lost : Option Nat) :
    Fr w (w.shutdownDev x f lost) := by
  refine Fr.with_S fun g => ?_
  have hc : QOp (aids w) (.cancel (w.dev x).aid) := g.dev_aid x
  have hp : QOp (aids w) (.pause (w.dev x).aid) := g.dev_aid x
  unfold shutdownDev
  dsimp only
  fr_auto

theorem Fr_restoreDev (w : World) (x : Nat) : Fr w (w.restoreDev x) := by
  refine Fr.with_S fun g => ?_
  have hu : QOp (aids w) (.unpause (w.dev x).aid) := g.dev_aid x
  unfold restoreDev
  dsimp only
  fr_auto

macro_rules | `(tactic| fr_step) => `(tactic| with_reducible apply Fr.trans (h2 := Fr_shutdownDev _ _ _ _))
macro_rules | `(tactic| fr_step) => `(tactic| with_reducible apply Fr.trans (h2 := Fr_restoreDev _ _))

theorem Fr_failDev (w : World) (x : Nat) : Fr w (w.failDev x) := by
  unfold failDev
  dsimp only
  fr_auto

theorem Fr_releaseIfIdle (w : World) (x : Nat) : Fr w (w.releaseIfIdle x) := by
  unfold releaseIfIdle
  fr_auto

theorem Fr_procResourceCb (w : World) (x : Nat) : Fr w (w.procResourceCb x) := by
  unfold procResourceCb
  dsimp only
  fr_auto

/-! ### scripted operations on devices -/

theorem Fr_setBlock (w : World) (x : Nat) (b : Bool) : Fr w (w.setBlock x b) := by
  unfold setBlock
  dsimp only
  fr_auto

theorem Fr_adjustParts (w : World) (x : Nat) (v : Int) : Fr w (w.adjustParts x v) := by
  unfold adjustParts
  dsimp only
  fr_auto

theorem Fr_rewire (w : World) (x : Nat) (ups : List Nat) : Fr w (w.rewire x ups) := by
  unfold rewire
  dsimp only
  fr_auto

theorem Fr_initDev (w : World) (x : Nat) : Fr w (w.initDev x) := by
  unfold initDev
  dsimp only
  fr_auto

macro_rules | `(tactic| fr_step) => `(tactic| with_reducible apply Fr.trans (h2 := Fr_passPart _ _))
macro_rules | `(tactic| fr_step) => `(tactic| with_reducible apply Fr.trans (h2 := Fr_failDev _ _))
macro_rules | `(tactic| fr_step) => `(tactic| with_reducible apply Fr.trans (h2 := Fr_releaseIfIdle _ _))
macro_rules | `(tactic| fr_step) => `(tactic| with_reducible apply Fr.trans (h2 := Fr_procResourceCb _ _))
macro_rules | `(tactic| fr_step) => `(tactic| with_reducible apply Fr.trans (h2 := Fr_setBlock _ _ _))
macro_rules | `(tactic| fr_step) => `(tactic| with_reducible apply Fr.trans (h2 := Fr_adjustParts _ _ _))
macro_rules | `(tactic| fr_step) => `(tactic| with_reducible apply Fr.trans (h2 := Fr_rewire _ _ _))
macro_rules | `(tactic| fr_step) => `(tactic| with_reducible apply Fr.trans (h2 := Fr_initDev _ _))

end C12W
end SimProc
