/-
C18W / C19W — machinery, part 3: `Fr w (f w)` for the functions of `Model/World.lean` other than the
transitions of schedulers and periodic sensors themselves (`schedUpdate`, `periodicSense`,
`initAsset`) and the constructors: scripted operations of the static class (`opOK`), scripts, the
resource check, the maintainer events, and `exec` of every untracked action.
-/
import SimProc.Proofs.C18WFloor

namespace SimProc
namespace C18W
open World FloorCoreL

/-! ### small state updates -/

@[simp] theorem view_modMaint (w : World) (m : Nat) (f : Maint → Maint) :
    view (w.modMaint m f) = view w := rfl
@[simp] theorem view_setVar (w : World) (h : Nat) (v : Option Nat) : view (w.setVar h v) = view w := rfl

macro_rules | `(tactic| fr_step) => `(tactic| with_reducible apply Fr.trans_view (h := view_modMaint _ _ _))
macro_rules | `(tactic| fr_step) => `(tactic| with_reducible apply Fr.trans_view (h := view_setVar _ _ _))

theorem Fr_startOrders (w : World) (m : Nat) (st : List Order) : Fr w (w.startOrders m st) := by
  unfold startOrders
  fr_auto

macro_rules | `(tactic| fr_step) => `(tactic| with_reducible apply Fr.trans (h2 := Fr_startOrders _ _ _))

/-! ### scripted operations -/

theorem not_mem_of_contains {ta : List Int} {a : Int} (h : (!ta.contains a) = true) : a ∉ ta := by
  simpa using h

theorem Fr_applyOp (w : World) (op : Op) (h : opOK (tk w).ta op = true) : Fr w (w.applyOp op).1 := by
  unfold applyOp
  split <;> (try dsimp only)
  · exact Fr_sched _ _ _ _ _ rfl
  · exact Fr_sched _ _ _ _ _ rfl
  · exact Fr_envOp _ _ (not_mem_of_contains h)
  · exact Fr_envOp _ _ (not_mem_of_contains h)
  · exact Fr_envOp _ _ (not_mem_of_contains h)
  case h_22 s obj ovr =>
    exact Fr.of_cstep rfl (CStep.reg (tk w) s obj ovr)
  case h_23 s obj =>
    exact Fr.of_cstep rfl (CStep.unreg (tk w) s obj)
  case h_24 k v => exact Fr.of_view rfl
  case h_25 c s =>
    split
    · exact Fr.refl _
    · exact Fr.of_cstep rfl (CStep.addCb (tk w) s (1000 + c))
  case h_26 spec => simp [opOK] at h
  all_goals try (fr_auto; done)
  all_goals repeat' first
      | fr_step
      | exact Fr_sched _ _ _ _ _ rfl
      | split
      | dsimp only

/-! The result of a scripted operation is never an `.act` / `.sense` entry. -/

theorem sched_res (w : World) (t a : Int) (act : Action) (p : Int) :
    trackedRes (w.sched t a act p).2 = false := by
  unfold World.sched
  dsimp only
  split <;> rfl

theorem rm_add_res (rm : RM) (r : Nat) (amt : Int) : trackedRes (rm.add r amt).2.1 = false := by
  unfold RM.add
  repeat' split
  all_goals rfl

theorem rm_reserve_res (rm : RM) (req : Req) : trackedRes (rm.reserve req).2.1 = false := by
  unfold RM.reserve
  dsimp only
  repeat' split
  all_goals rfl

theorem validate_res (h rel : Req) : trackedRes (RM.validateRelease h rel) = false := by
  induction rel with
  | nil => rfl
  | cons a rel ih =>
    unfold RM.validateRelease
    repeat' split
    all_goals first | rfl | exact ih

theorem rm_release_res (rm : RM) (id : Nat) (part : Option Req) :
    trackedRes (rm.release id part).2.1 = false := by
  unfold RM.release
  repeat' split
  all_goals first | rfl | exact validate_res _ _

theorem rm_merge_res (rm : RM) (a b : Nat) : trackedRes (rm.merge a b).2 = false := by
  unfold RM.merge
  repeat' split
  all_goals rfl

theorem applyOp_res (w : World) (op : Op) : trackedRes (w.applyOp op).2 = false := by
  cases op <;> simp only [applyOp]
  all_goals first
    | rfl
    | exact sched_res _ _ _ _ _
    | exact rm_add_res _ _ _
    | exact rm_merge_res _ _ _
    | ((repeat' split) <;> first | rfl | exact sched_res _ _ _ _ _ | exact rm_release_res _ _ _ | exact rm_merge_res _ _ _ | exact rm_reserve_res _ _)

theorem mem_getD_nil {α} {l : List (List α)} {k : Nat} {a : α} (h : a ∈ l.getD k []) :
    ∃ s ∈ l, a ∈ s := by
  rw [List.getD_eq_getElem?_getD] at h
  cases hk : l[k]? with
  | none => rw [hk] at h; simp at h
  | some s => rw [hk] at h; exact ⟨s, List.mem_of_getElem? hk, h⟩

theorem Fr_applyOps (w : World) (ops : List Op) (h : ∀ op ∈ ops, opOK (tk w).ta op = true) :
    Fr w (w.applyOps ops) := by
  unfold applyOps
  induction ops generalizing w with
  | nil => exact Fr.refl _
  | cons op ops ih =>
    rw [List.foldl_cons]
    refine Fr.with_stat fun g => ?_
    have h1 : Fr w ((w.applyOp op).1.addRes (w.applyOp op).2) := by
      refine (Fr_applyOp w op (h op List.mem_cons_self)).trans_view ?_
      exact view_addRes _ _ (applyOp_res w op)
    refine h1.trans (ih _ ?_)
    intro o ho
    rw [ta_of_cstat (h1 g).2.cstat]
    exact h o (List.mem_cons_of_mem _ ho)

theorem Fr_runScript (w : World) (k : Nat) : Fr w (w.runScript k) := by
  refine Fr.with_stat fun g => ?_
  unfold runScript
  refine Fr_applyOps _ _ ?_
  intro op hop
  obtain ⟨s, hs, hm⟩ := mem_getD_nil hop
  exact g.c.scr s hs op hm

macro_rules | `(tactic| fr_step) => `(tactic| with_reducible apply Fr.trans (h2 := Fr_runScript _ _))

/-! ### resource availability check -/

theorem Fr_scanWaiting (n : Nat) (w : World) (i : Nat) : Fr w (scanWaiting scanOps n w i) := by
  induction n generalizing w i with
  | zero => exact Fr.refl _
  | succ n ih =>
    rw [scanWaiting]
    split
    · exact Fr.refl _
    · split
      · refine Fr.trans ?_ (ih _ _)
        show Fr w (scanOps.erase (scanOps.call w _ _) i)
        unfold scanOps
        dsimp only
        fr_auto
      · exact ih _ _

theorem Fr_rmCheck (w : World) : Fr w w.rmCheck := Fr_scanWaiting _ _ _

/-! ### maintainer events -/

theorem Fr_hookStart (w : World) (tgt : Nat) (tag : Int) : Fr w (w.hookStart tgt tag) := by
  unfold hookStart
  dsimp only
  fr_auto

theorem Fr_hookEnd (w : World) (tgt : Nat) (tag : Int) : Fr w (w.hookEnd tgt tag) := by
  unfold hookEnd
  dsimp only
  fr_auto

macro_rules | `(tactic| fr_step) => `(tactic| with_reducible apply Fr.trans (h2 := Fr_hookStart _ _ _))
macro_rules | `(tactic| fr_step) => `(tactic| with_reducible apply Fr.trans (h2 := Fr_hookEnd _ _ _))
macro_rules | `(tactic| fr_step) => `(tactic| with_reducible apply Fr.trans (h2 := Fr_rmCheck _))

theorem Fr_startWork (w : World) (m seq : Nat) : Fr w (w.startWork m seq) := by
  unfold startWork
  dsimp only
  fr_auto

theorem Fr_finishWork (w : World) (m seq : Nat) : Fr w (w.finishWork m seq) := by
  unfold finishWork
  dsimp only
  fr_auto

/-! ### events -/

/-- The action of every event other than a scheduler transition / a periodic measurement. -/
theorem Fr_exec (w : World) (a : Action) (h : isTrackedAct a = false) : Fr w (w.exec a) := by
  unfold exec
  split
  · exact Fr.refl _
  · exact Fr_runScript _ _
  · exact Fr_finishCycle _ _
  · exact Fr_passPart _ _
  · exact Fr_failDev _ _
  · exact Fr_releaseIfIdle _ _
  · exact Fr_rmCheck _
  · exact Fr_startWork _ _ _
  · exact Fr_finishWork _ _ _
  · cases h
  · cases h
  · exact Fr.of_view (view_setErr _ _)

end C18W
end SimProc
