/-
C20W — machinery, part 3: the registration key under the functions of `Model/World.lean`.
`initAsset` raises exactly one flag, a constructor call pushes exactly one component and one
registration entry (and raises the flag at once on a started system), `simulateInit` sweeps the
registration list; everything else keeps the key, or (scripts, callbacks, hooks: they may contain
constructor calls) keeps the registration invariant.
-/
import SimProc.Proofs.C20WReg
import SimProc.Proofs.WorldPres

namespace SimProc
namespace C20W
open World FloorCoreL RKey

/-! ### small state updates -/

@[simp] theorem RK_modMaint (w : World) (m : Nat) (f : Maint → Maint) :
    RK (w.modMaint m f) = RK w := by
  unfold modMaint
  exact RK_setMaint w m _ rfl
@[simp] theorem RK_setVar (w : World) (h : Nat) (v : Option Nat) : RK (w.setVar h v) = RK w := rfl

eq_rule RK_modMaint _ _ _
eq_rule RK_setVar _ _ _

theorem Same_startOrders (w : World) (m : Nat) (st : List Order) : Same w (w.startOrders m st) := by
  unfold startOrders
  rk_auto

same_rule Same_startOrders _ _ _

theorem Same_schedUpdate (w : World) (s : Nat) (advance : Bool) :
    Same w (w.schedUpdate s advance) := by
  unfold schedUpdate
  dsimp only
  rk_auto

same_rule Same_schedUpdate _ _ _

theorem Same_periodicSense (w : World) (s : Nat) : Same w (w.periodicSense s) := by
  unfold periodicSense
  dsimp only
  rk_auto

/-! ### `initAsset` raises one flag -/

theorem map_set_modify {α β} (f : α → β) (g : β → β) (F : α → α) (l : List α) (x : Nat) (dflt : α)
    (h : ∀ a, f (F a) = g (f a)) :
    (l.set x (F (l.getD x dflt))).map f = (l.map f).modify x g := by
  apply List.ext_getElem?
  intro j
  rw [List.getElem?_modify, List.getElem?_map, List.getElem?_map, List.getElem?_set]
  by_cases hxj : x = j
  · subst hxj
    by_cases hx : x < l.length
    · simp [hx, List.getD_eq_getElem?_getD, h]
    · simp [hx]
  · simp [hxj]

theorem RK_initFlag (w : World) (x : Nat) :
    RK (w.modDev x (fun d => { d with inited := true, val := d.val.reset })) = (RK w).init (.dev x) := by
  unfold RK modDev setDev World.dev RKey.init
  simp only
  rw [map_set_modify dk (fun e => (e.1, e.2.1, true))
    (fun d => { d with inited := true, val := d.val.reset }) w.devs x default (fun _ => rfl)]

theorem RK_initDev (w : World) (x : Nat) : RK (w.initDev x) = (RK w).init (.dev x) := by
  rw [← RK_initFlag]
  show Same (w.modDev x (fun d => { d with inited := true, val := d.val.reset })) (w.initDev x)
  unfold initDev
  dsimp only
  rk_auto

/-- The first step of the initialisation of a sensor. -/
def initSensorFlag (w : World) (s : Nat) : World :=
  let sw := w.sensors.getD s default
  { w with sensors := w.sensors.set s { sw with s := sw.s.reset, registered := true } }

theorem RK_initAsset (w : World) (a : AssetRef) : RK (w.initAsset a) = (RK w).init a := by
  cases a with
  | dev d => exact RK_initDev w d
  | maint m =>
    unfold initAsset RK RKey.init
    simp only
    rw [map_set_modify mk (fun e => (e.1, true))
      (fun mw => { mw with inited := true, m := { mw.m with val := mw.m.val.reset } }) w.maints m default
      (fun _ => rfl)]
  | sched s => exact Same_schedUpdate w s false
  | sensor s =>
    have h1 : RK (initSensorFlag w s) = (RK w).init (.sensor s) := by
      unfold initSensorFlag
      unfold RK RKey.init
      simp only
      rw [map_set_modify sk (fun e => (e.1, true))
        (fun sw => { sw with s := sw.s.reset, registered := true }) w.sensors s default (fun _ => rfl)]
    rw [← h1]
    show Same _ (w.initAsset (.sensor s))
    unfold initAsset
    dsimp only
    rk_auto
    all_goals exact Same.refl _
  | cms c => rfl

/-! ### constructors -/

open C02V in
theorem RK_addDev1 (w : World) (d : Dev) : RK (addDev1 w d) = (RK w).pushDev d.kind d.inited := by
  simp [RK, addDev1, pushDev, dk]

open C02V in
theorem Same_regPath (w : World) (d : Dev) (i : Nat) : Same w (regPath w d i) := by
  unfold regPath
  split <;> exact Same.refl _

open C02V in
/-- The registration half of a constructor call: everything `addDev` does before it looks at
`started`. -/
def regDev (w : World) (d : Dev) : World :=
  regPath ((addDev1 w d).rewire w.devs.length d.up) d w.devs.length

open C02V in
theorem addDev_eq_regDev (w : World) (d : Dev) :
    w.addDev d = if (regDev w d).started then (regDev w d).initAsset (.dev w.devs.length) else regDev w d :=
  rfl

open C02V in
theorem RK_regDev (w : World) (d : Dev) : RK (regDev w d) = (RK w).pushDev d.kind d.inited := by
  unfold regDev
  rw [Same_regPath _ _ _, Same_rewire _ _ _, RK_addDev1]

theorem RK_addDev (w : World) (d : Dev) (hd : d.inited = false) :
    RK (w.addDev d) = (RK w).pushDev d.kind w.started := by
  have hs : (regDev w d).started = w.started := by
    have := congrArg RKey.started (RK_regDev w d); exact this
  have hl : (RK w).devs.length = w.devs.length := by simp [RK]
  rw [addDev_eq_regDev, hs]
  cases hst : w.started
  · simp only [Bool.false_eq_true, if_false]
    rw [RK_regDev, hd]
  · simp only [if_true]
    rw [RK_initAsset, RK_regDev, hd, ← hl, init_pushDev]

/-- From the key of the new world: the invariant, `started`, the registration list. -/
theorem Pv.of_key {w w' : World} {k' : RKey} (hk : RK w' = k') (hreg : RegK (RK w) → RegK k')
    (hst : k'.started = w.started) (hpre : w.assets <+: k'.assets) : Pv w w' := by
  intro r
  refine ⟨?_, ?_, ?_⟩
  · unfold Reg at *; rw [hk]; exact hreg r
  · have := congrArg RKey.started hk; exact this.trans hst
  · have : w'.assets = k'.assets := congrArg RKey.assets hk
    rw [this]; exact hpre

theorem Pv_addDev (w : World) (d : Dev) (hd : d.inited = false) : Pv w (w.addDev d) :=
  Pv.of_key (RK_addDev w d hd) (fun r => regK_pushDev r d.kind) rfl (List.prefix_append _ _)

theorem started_eq (k : RKey) (b : Bool) (h : k.started = b) : k.started = b := h

theorem RK_addMaint (w : World) (cap : Option Int) (v : Int) :
    RK (w.addAsset (.maint cap v)) = (RK w).pushMaint w.started := by
  have hl : (RK w).maints.length = w.maints.length := by simp [RK]
  unfold addAsset
  dsimp only
  cases hst : w.started
  · simp [RK, pushMaint, mk, hst]
  · simp only [if_true]
    rw [RK_initAsset, ← hl, ← init_pushMaint]
    congr 1
    simp [RK, pushMaint, mk, hst]

theorem RK_addSched (w : World) (tt : List (Int × Int)) (cyc : Bool) :
    RK (w.addAsset (.sched tt cyc)) = (RK w).pushSched := by
  unfold addAsset
  dsimp only
  cases hst : w.started
  · simp [RK, pushSched, hst]
  · simp only [if_true]
    rw [RK_initAsset]
    simp [RK, pushSched, hst, RKey.init]

theorem RK_addSensor (w : World) (sw : SensorW) (hreg : sw.registered = false) :
    RK (w.addAsset (.sensor sw)) = (RK w).pushSensor w.started := by
  have hl : (RK w).sensors.length = w.sensors.length := by simp [RK]
  unfold addAsset
  dsimp only
  cases hst : w.started
  · simp [RK, pushSensor, sk, hst, hreg]
  · simp only [if_true]
    rw [RK_initAsset, ← hl, ← init_pushSensor]
    congr 1
    simp [RK, pushSensor, sk, hst, hreg]

theorem RK_addCms (w : World) : RK (w.addAsset .cms) = (RK w).pushCms := by
  simp [addAsset, RK, pushCms]

/-- A group: two device constructors (input and output controller), two registration entries. -/
theorem RK_addGroup (w : World) (gid : Nat) (dvs ins outs : List Nat) :
    RK (w.addAsset (.group gid dvs ins outs)) =
      (((RK w).pushDev .ginput w.started).pushDev .goutput w.started) := by
  unfold addAsset
  dsimp only
  rw [Same_rewire _ _ _, RK_addDev _ _ rfl, Same.foldl _ _ _ (fun _ _ => Same_rewire _ _ _),
    RK_addDev _ _ rfl]
  have h1 : ∀ (w0 : World) (l : List Nat) (c : Nat),
      (List.foldl (fun w_1 d => w_1.rewire d [c]) (w0.addDev { kind := .ginput, group := gid }) l).started =
        w0.started := by
    intro w0 l c
    rw [(Same.foldl _ _ _ (fun _ _ => Same_rewire _ _ _)).started]
    have := congrArg RKey.started (RK_addDev w0 { kind := .ginput, group := gid } rfl)
    exact this
  rw [h1]
  rfl

theorem Pv_addAsset (w : World) (spec : AssetSpec) (hs : specFresh spec = true) :
    Pv w (w.addAsset spec) := by
  cases spec with
  | dev d => exact Pv_addDev w d (by simpa [specFresh] using hs)
  | group gid devs ins outs =>
    unfold addAsset
    dsimp only
    refine Pv.trans_same ?_ (Same_rewire _ _ _)
    refine Pv.trans ?_ (Pv_addDev _ _ rfl)
    refine Pv.trans_same ?_ (Same.foldl _ _ _ (fun _ _ => Same_rewire _ _ _))
    refine Pv.trans ?_ (Pv_addDev _ _ rfl)
    exact Pv.of_same rfl
  | maint cap v =>
    exact Pv.of_key (RK_addMaint w cap v) regK_pushMaint rfl (List.prefix_append _ _)
  | sched tt cyc =>
    exact Pv.of_key (RK_addSched w tt cyc) regK_pushSched rfl (List.prefix_append _ _)
  | sensor sw =>
    exact Pv.of_key (RK_addSensor w sw (by simpa [specFresh] using hs)) regK_pushSensor rfl
      (List.prefix_append _ _)
  | cms =>
    exact Pv.of_key (RK_addCms w) regK_pushCms rfl (List.prefix_append _ _)

/-! ### scripted operations -/

theorem RK_addSensorUpd (w : World) (cs : List (List Nat)) (s : Nat) (x : SensorW)
    (h : sk x = sk (w.sensors.getD s default)) :
    RK ({ w with cmsSensors := cs, sensors := w.sensors.set s x } : World) =
      { RK w with ncms := cs.length } := by
  unfold RK
  simp only
  rw [map_set_of_eq sk w.sensors s x default h]

theorem Pv_applyOp (w : World) (op : Op) (h : opFresh op = true) : Pv w (w.applyOp op).1 := by
  cases op
  case create spec => exact Pv_addAsset w spec h
  case addSensor c s =>
    unfold applyOp
    dsimp only
    split
    · exact Pv.refl _
    · refine Pv.of_key rfl ?_ rfl (List.prefix_refl _)
      intro r
      rename_i hc
      generalize hcs : (if w.cmsSensors.length ≤ c then
        w.cmsSensors ++ List.replicate (c + 1 - w.cmsSensors.length) [] else w.cmsSensors) = cs
      have hlen : w.cmsSensors.length ≤ cs.length := by
        rw [← hcs]; split <;> simp
      have key := RK_addSensorUpd w (cs.set c (w.cmsSensors.getD c [] ++ [s])) s
        { w.sensors.getD s default with s := (w.sensors.getD s default).s.addCb (1000 + c) } rfl
      simp only [List.length_set] at key
      refine key ▸ ?_
      exact regK_ncms r _ hlen
  all_goals
    unfold applyOp
    try dsimp only
    repeat' first
      | pv_step
      | exact Pv.of_same (RK_sched _ _ _ _ _)
      | split
      | dsimp only

/-- A scripted operation other than a constructor call changes neither the registration list nor
the `started` flag. -/
theorem applyOp_assets (w : World) (op : Op) (h : ∀ s, op ≠ .create s) :
    (w.applyOp op).1.assets = w.assets ∧ (w.applyOp op).1.started = w.started := by
  cases op
  case create spec => exact absurd rfl (h spec)
  case addSensor c s =>
    unfold applyOp
    dsimp only
    split <;> exact ⟨rfl, rfl⟩
  all_goals
    suffices hs : Same w (w.applyOp _).1 from ⟨hs.assets, hs.started⟩
    unfold applyOp
    try dsimp only
    repeat' first
      | rk_step
      | exact Same.of_eq (RK_sched _ _ _ _ _)
      | split
      | dsimp only

theorem Pv_applyOps (w : World) (ops : List Op) (h : ∀ op ∈ ops, opFresh op = true) :
    Pv w (w.applyOps ops) := by
  unfold applyOps
  induction ops generalizing w with
  | nil => exact Pv.refl _
  | cons op ops ih =>
    rw [List.foldl_cons]
    refine Pv.trans ?_ (ih _ (fun o ho => h o (List.mem_cons_of_mem _ ho)))
    exact (Pv_applyOp w op (h op List.mem_cons_self)).trans_eq (RK_addRes _ _)

theorem mem_getD_nil {α} {l : List (List α)} {k : Nat} {a : α} (h : a ∈ l.getD k []) :
    ∃ s ∈ l, a ∈ s := by
  rw [List.getD_eq_getElem?_getD] at h
  cases hk : l[k]? with
  | none => rw [hk] at h; simp at h
  | some s => rw [hk] at h; exact ⟨s, List.mem_of_getElem? hk, h⟩

theorem Pv_runScript (w : World) (k : Nat) : Pv w (w.runScript k) := by
  refine Pv.with_reg fun g => ?_
  unfold runScript
  refine Pv_applyOps _ _ ?_
  intro op hop
  obtain ⟨s, hs, hm⟩ := mem_getD_nil hop
  exact g.scripts s hs op hm

macro_rules | `(tactic| pv_step) => `(tactic| with_reducible apply Pv.trans (h2 := Pv_runScript _ _))

/-! ### resource availability check -/

theorem Pv_scanWaiting (n : Nat) (w : World) (i : Nat) : Pv w (scanWaiting scanOps n w i) := by
  induction n generalizing w i with
  | zero => exact Pv.refl _
  | succ n ih =>
    rw [scanWaiting]
    split
    · exact Pv.refl _
    · split
      · refine Pv.trans ?_ (ih _ _)
        show Pv w (scanOps.erase (scanOps.call w _ _) i)
        unfold scanOps
        dsimp only
        pv_auto
      · exact ih _ _

theorem Pv_rmCheck (w : World) : Pv w w.rmCheck := Pv_scanWaiting _ _ _

/-! ### maintainer events -/

theorem Pv_hookStart (w : World) (tgt : Nat) (tag : Int) : Pv w (w.hookStart tgt tag) := by
  unfold hookStart
  dsimp only
  pv_auto

theorem Pv_hookEnd (w : World) (tgt : Nat) (tag : Int) : Pv w (w.hookEnd tgt tag) := by
  unfold hookEnd
  dsimp only
  pv_auto

macro_rules | `(tactic| pv_step) => `(tactic| with_reducible apply Pv.trans (h2 := Pv_hookStart _ _ _))
macro_rules | `(tactic| pv_step) => `(tactic| with_reducible apply Pv.trans (h2 := Pv_hookEnd _ _ _))
macro_rules | `(tactic| pv_step) => `(tactic| with_reducible apply Pv.trans (h2 := Pv_rmCheck _))

theorem Pv_startWork (w : World) (m seq : Nat) : Pv w (w.startWork m seq) := by
  unfold startWork
  dsimp only
  pv_auto

theorem Pv_finishWork (w : World) (m seq : Nat) : Pv w (w.finishWork m seq) := by
  unfold finishWork
  dsimp only
  pv_auto

/-! ### events -/

theorem Pv_exec (w : World) (a : Action) : Pv w (w.exec a) := by
  unfold exec
  split
  · exact Pv.refl _
  · exact Pv_runScript _ _
  · exact Pv.of_same (Same_finishCycle _ _)
  · exact Pv.of_same (Same_passPart _ _)
  · exact Pv.of_same (Same_failDev _ _)
  · exact Pv.of_same (Same_releaseIfIdle _ _)
  · exact Pv_rmCheck _
  · exact Pv_startWork _ _ _
  · exact Pv_finishWork _ _ _
  · exact Pv.of_same (Same_schedUpdate _ _ _)
  · exact Pv.of_same (Same_periodicSense _ _)
  · exact Pv.of_same (RK_setErr _ _)

theorem Pv_step {w w' : World} {e : Event} (h : w.step = some (e, w')) : Pv w w' := by
  unfold World.step at h
  split at h
  · cases h
  · rename_i e0 env' hs
    cases h
    split
    · refine Pv.trans ?_ (Pv_exec _ _)
      exact Pv.of_same rfl
    · exact Pv.of_same rfl

theorem Same_runBegin (w : World) (d : Int) : Same w (w.runBegin d).1 := by
  unfold World.runBegin
  dsimp only
  split <;> exact Same.refl _

theorem Pv_runLoop (n : Nat) (w : World) : Pv w (runLoop n w) := by
  induction n generalizing w with
  | zero => exact Pv.of_same (RK_setErr _ _)
  | succ n ih =>
    rw [runLoop]
    split
    · split
      · exact Pv.refl _
      · rename_i hs
        exact (Pv_step hs).trans (ih _)
    · exact Pv.refl _

/-! ### `simulateInit` -/

theorem RK_sweep (w : World) (l : List AssetRef) :
    RK (l.foldl (fun w a => w.initAsset a) w) = (RK w).sweep l := by
  induction l generalizing w with
  | nil => rfl
  | cons a l ih => rw [List.foldl_cons, ih, RK_initAsset, sweep_cons]

theorem RK_simulateInit (w : World) (h : w.started = false) :
    RK w.simulateInit = { (RK w).sweep w.assets with started := true } := by
  unfold simulateInit
  rw [if_neg (by simp [h])]
  dsimp only
  have h1 : RK (({ w with rm := w.rm.init.1 } : World).rmEffects w.rm.init.2.1 w.rm.init.2.2) = RK w := by
    rw [RK_rmEffects]; rfl
  have h2 : (({ w with rm := w.rm.init.1 } : World).rmEffects w.rm.init.2.1 w.rm.init.2.2).assets = w.assets := by
    have := congrArg RKey.assets h1; exact this
  show ({ RK (List.foldl _ _ _) with started := true } : RKey) = _
  rw [RK_sweep, h1, h2]

theorem reg_simulateInit (w : World) (r : Reg w) : Reg w.simulateInit := by
  cases hst : w.started
  · unfold Reg at *
    rw [RK_simulateInit w hst]
    exact regK_start r
  · unfold simulateInit
    rw [if_pos hst]
    exact r

end C20W
end SimProc
