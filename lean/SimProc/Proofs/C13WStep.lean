/-
C13W, part 5: one step of the event loop, classified by what it can do to a fixed processor `x`
(`StepK`); the accounting relation `Acc` (invariant kept, public `uptime` / `utilization_time`
continuous) along machine moves and along the action of every step; what flow moves and control
moves keep.
-/
import SimProc.Proofs.C13WWorld
import SimProc.Props.C06T
namespace SimProc
namespace C13W
open World FloorCoreL

variable {x : Nat}

/-! ### the clock is not changed by the functions that act on one device -/

theorem now_of_pv {w w' : World} (h : pvw (x + 1) w' = pvw (x + 1) w) : w'.now = w.now := pv_now h

theorem now_acceptPart (w : World) (y p : Nat) : (w.acceptPart y p).now = w.now :=
  pv_now (pv_acceptPart (y + 1) w y p (by omega))
theorem now_procAcquire (w : World) (y : Nat) : (w.procAcquire y).1.now = w.now :=
  pv_now (pv_procAcquire (y + 1) w y (by omega))
theorem now_shutdownDev (w : World) (y : Nat) (f : Bool) (l : Option Nat) :
    (w.shutdownDev y f l).now = w.now := pv_now (pv_shutdownDev (y + 1) w y f l (by omega))
theorem now_restoreDev (w : World) (y : Nat) : (w.restoreDev y).now = w.now :=
  pv_now (pv_restoreDev (y + 1) w y (by omega))
theorem now_releaseIfIdle (w : World) (y : Nat) : (w.releaseIfIdle y).now = w.now :=
  pv_now (pv_releaseIfIdle (y + 1) w y (by omega))
theorem now_finishCycle (w : World) (y : Nat) : (w.finishCycle y).now = w.now :=
  pv_now (pv_finishCycle (y + 1) w y (by omega))
theorem lost_acceptPart (w : World) (y p : Nat) : (w.acceptPart y p).lost = w.lost :=
  pv_lost (pv_acceptPart (y + 1) w y p (by omega))
theorem lost_procAcquire (w : World) (y : Nat) : (w.procAcquire y).1.lost = w.lost :=
  pv_lost (pv_procAcquire (y + 1) w y (by omega))
theorem lost_shutdownDev (w : World) (y : Nat) (f : Bool) (l : Option Nat) :
    (w.shutdownDev y f l).lost = w.lost := pv_lost (pv_shutdownDev (y + 1) w y f l (by omega))
theorem lost_restoreDev (w : World) (y : Nat) : (w.restoreDev y).lost = w.lost :=
  pv_lost (pv_restoreDev (y + 1) w y (by omega))
theorem lost_releaseIfIdle (w : World) (y : Nat) : (w.releaseIfIdle y).lost = w.lost :=
  pv_lost (pv_releaseIfIdle (y + 1) w y (by omega))
theorem lost_finishCycle (w : World) (y : Nat) : (w.finishCycle y).lost = w.lost :=
  pv_lost (pv_finishCycle (y + 1) w y (by omega))
theorem frecs_acceptPart (w : World) (y p : Nat) :
    (w.acceptPart y p).recs.filter isFailRec = w.recs.filter isFailRec :=
  pv_frecs (pv_acceptPart (y + 1) w y p (by omega))
theorem frecs_procAcquire (w : World) (y : Nat) :
    (w.procAcquire y).1.recs.filter isFailRec = w.recs.filter isFailRec :=
  pv_frecs (pv_procAcquire (y + 1) w y (by omega))
theorem frecs_shutdownDev (w : World) (y : Nat) (f : Bool) (l : Option Nat) :
    (w.shutdownDev y f l).recs.filter isFailRec = w.recs.filter isFailRec :=
  pv_frecs (pv_shutdownDev (y + 1) w y f l (by omega))
theorem frecs_restoreDev (w : World) (y : Nat) :
    (w.restoreDev y).recs.filter isFailRec = w.recs.filter isFailRec :=
  pv_frecs (pv_restoreDev (y + 1) w y (by omega))
theorem frecs_releaseIfIdle (w : World) (y : Nat) :
    (w.releaseIfIdle y).recs.filter isFailRec = w.recs.filter isFailRec :=
  pv_frecs (pv_releaseIfIdle (y + 1) w y (by omega))
theorem frecs_finishCycle (w : World) (y : Nat) :
    (w.finishCycle y).recs.filter isFailRec = w.recs.filter isFailRec :=
  pv_frecs (pv_finishCycle (y + 1) w y (by omega))

/-! ### the accounting relation -/

/-- From `w` to `w'` the clock does not move, `x` keeps its kind, the bookkeeping invariant of `x`
is kept and the two public properties do not jump. -/
structure Acc (x : Nat) (w w' : World) : Prop where
  now : w'.now = w.now
  kind : (w'.dev x).kind = (w.dev x).kind
  inv : C13.UpInv w x → C13.UpInv w' x
  up : C13.UpInv w x → C13.uptimeAt w' x = C13.uptimeAt w x
  ut : C13.UpInv w x → C13.utilAt w' x = C13.utilAt w x

theorem Acc.refl (w : World) : Acc x w w := ⟨rfl, rfl, id, fun _ => rfl, fun _ => rfl⟩

theorem Acc.trans {a b c : World} (h1 : Acc x a b) (h2 : Acc x b c) : Acc x a c :=
  ⟨h2.now.trans h1.now, h2.kind.trans h1.kind, fun h => h2.inv (h1.inv h),
    fun h => (h2.up (h1.inv h)).trans (h1.up h), fun h => (h2.ut (h1.inv h)).trans (h1.ut h)⟩

theorem upInv_of_pvd {d d' : Dev} (h : pvd d' = pvd d) : d'.UpInv ↔ d.UpInv := by
  have h1 : d'.lastRestore = d.lastRestore := congrArg PV.lastRestore h
  have h2 : d'.shutDown = d.shutDown := congrArg PV.shutDown h
  have h3 : d'.lastUseStart = d.lastUseStart := congrArg PV.lastUseStart h
  have h4 : d'.part = d.part := congrArg PV.part h
  constructor
  · intro u; exact ⟨by rw [← h1, ← h2]; exact u.restore, by rw [← h3, ← h4, ← h2]; exact u.use⟩
  · intro u; exact ⟨by rw [h1, h2]; exact u.restore, by rw [h3, h4, h2]; exact u.use⟩

theorem acct_of_pvd {d d' : Dev} (h : pvd d' = pvd d) (t : Int) :
    d'.uptimeAt t = d.uptimeAt t ∧ d'.utilAt t = d.utilAt t := by
  have h1 : d'.lastRestore = d.lastRestore := congrArg PV.lastRestore h
  have h2 : d'.uptime = d.uptime := congrArg PV.uptime h
  have h3 : d'.lastUseStart = d.lastUseStart := congrArg PV.lastUseStart h
  have h4 : d'.timeInUse = d.timeInUse := congrArg PV.timeInUse h
  unfold Dev.uptimeAt Dev.utilAt
  rw [h1, h2, h3, h4]
  exact ⟨rfl, rfl⟩

/-- A change that keeps the clock and the machine part of the record of `x`. -/
theorem acc_of_pvd {w w' : World} (hn : w'.now = w.now) (hd : pvd (w'.dev x) = pvd (w.dev x)) :
    Acc x w w' := by
  refine ⟨hn, congrArg PV.kind hd, fun h => (upInv_of_pvd hd).2 h, fun _ => ?_, fun _ => ?_⟩
  · unfold C13.uptimeAt; rw [hn]; exact (acct_of_pvd hd _).1
  · unfold C13.utilAt; rw [hn]; exact (acct_of_pvd hd _).2

theorem acc_of_pv {w w' : World} (h : pvw x w' = pvw x w) : Acc x w w' :=
  acc_of_pvd (pv_now h) (pv_dev h)

theorem procAcquire_pvd_acct (w : World) (y : Nat) :
    ∀ t, ((w.procAcquire y).1.dev y).uptimeAt t = (w.dev y).uptimeAt t ∧
      ((w.procAcquire y).1.dev y).utilAt t = (w.dev y).utilAt t := by
  intro t
  have h := procAcquire_pv w y
  have h1 : ((w.procAcquire y).1.dev y).lastRestore = (w.dev y).lastRestore := congrArg PV.lastRestore h
  have h2 : ((w.procAcquire y).1.dev y).uptime = (w.dev y).uptime := congrArg PV.uptime h
  have h3 : ((w.procAcquire y).1.dev y).lastUseStart = (w.dev y).lastUseStart :=
    congrArg PV.lastUseStart h
  have h4 : ((w.procAcquire y).1.dev y).timeInUse = (w.dev y).timeInUse := congrArg PV.timeInUse h
  unfold Dev.uptimeAt Dev.utilAt
  rw [h1, h2, h3, h4]
  exact ⟨rfl, rfl⟩

theorem PAtom.acc {fl cl ct : Prop} {w w' : World} (a : PAtom x fl cl ct w w')
    (hk : (w.dev x).kind = .processor) : Acc x w w' := by
  have hx := lt_of_processor hk
  cases a with
  | frame h => exact acc_of_pv h
  | accept hf p hc =>
    refine ⟨now_acceptPart w x p, ?_, fun h => C13.upInv_accept w p hk hc h,
      fun h => (C13.accept_continuous w p hk hc h).1, fun h => (C13.accept_continuous w p hk hc h).2⟩
    exact (acceptPart_proc_field' Dev.kind (fun _ => rfl) (fun _ _ _ => rfl) w p hk hc).trans
      (by unfold moveDev finDev finH; dsimp only; repeat' split
          all_goals rfl)
  | acquire hf p hc =>
    have h := procAcquire_pv w x
    have hn := now_procAcquire w x
    refine ⟨hn, congrArg PV.kind h, ?_, fun _ => ?_, fun _ => ?_⟩
    · intro u
      have h1 : ((w.procAcquire x).1.dev x).lastRestore = (w.dev x).lastRestore :=
        congrArg PV.lastRestore h
      have h2 : ((w.procAcquire x).1.dev x).shutDown = (w.dev x).shutDown := congrArg PV.shutDown h
      have h3 : ((w.procAcquire x).1.dev x).lastUseStart = (w.dev x).lastUseStart :=
        congrArg PV.lastUseStart h
      have h4 : ((w.procAcquire x).1.dev x).part = (w.dev x).part := congrArg PV.part h
      exact ⟨by rw [h1, h2]; exact u.restore, by rw [h3, h4, h2]; exact u.use⟩
    · unfold C13.uptimeAt; rw [hn]; exact (procAcquire_pvd_acct w x _).1
    · unfold C13.utilAt; rw [hn]; exact (procAcquire_pvd_acct w x _).2
  | clear hc hop =>
    have hd : (w.modDev x (fun d => { d with output := none })).dev x = { w.dev x with output := none } :=
      dev_modDev_same hx
    refine ⟨rfl, by rw [hd], fun u => ?_, fun _ => ?_, fun _ => ?_⟩
    · unfold C13.UpInv; rw [hd]; exact ⟨u.restore, u.use⟩
    · unfold C13.uptimeAt; rw [hd]; rfl
    · unfold C13.utilAt; rw [hd]; rfl
  | shutdown hc =>
    refine ⟨now_shutdownDev .., ?_, fun h => C13.upInv_shutdown w false none hx h,
      fun _ => (C13.shutdown_continuous w false none hx).1,
      fun _ => (C13.shutdown_continuous w false none hx).2⟩
    rw [shutdownDev_dev_same w false none hx]; split <;> rfl
  | restore hc =>
    refine ⟨now_restoreDev .., ?_, fun h => C13.upInv_restore w x h,
      fun h => (C13.restore_continuous w x h).1, fun h => (C13.restore_continuous w x h).2⟩
    cases hs : (w.dev x).shutDown
    · rw [C13.restore_up_noop w x hs]
    · rw [core_eq_dev_kind (core_of_quiet_eq (restoreDev_quiet w x hs)) x]
      show ((w.setDev x (restDev w.now (w.dev x))).dev x).kind = _
      rw [dev_setDev_same hx]; rfl

theorem PMoves.acc {fl cl ct : Prop} {w w' : World} (m : PMoves x fl cl ct w w')
    (hk : (w.dev x).kind = .processor) : Acc x w w' := by
  induction m with
  | refl => exact Acc.refl _
  | cons a _ ih =>
    have h1 := a.acc hk
    exact h1.trans (ih (h1.kind.trans hk))

/-! ### what control moves keep: the slots and the reservation -/

/-- slots, reservation, numbers of callbacks, the ghost log and the failure records -/
structure Slots (x : Nat) (w w' : World) : Prop where
  part : (w'.dev x).part = (w.dev x).part
  output : (w'.dev x).output = (w.dev x).output
  reserved : (w'.dev x).reserved = (w.dev x).reserved
  lost : w'.lost = w.lost
  frecs : w'.recs.filter isFailRec = w.recs.filter isFailRec

theorem Slots.refl (w : World) : Slots x w w := ⟨rfl, rfl, rfl, rfl, rfl⟩
theorem Slots.trans {a b c : World} (h1 : Slots x a b) (h2 : Slots x b c) : Slots x a c :=
  ⟨h2.part.trans h1.part, h2.output.trans h1.output, h2.reserved.trans h1.reserved,
    h2.lost.trans h1.lost, h2.frecs.trans h1.frecs⟩

theorem restoreDev_dev_core (w : World) {x : Nat} (hx : x < w.devs.length) :
    ((w.restoreDev x).dev x).core =
      (if (w.dev x).shutDown then restDev w.now (w.dev x) else w.dev x).core := by
  cases hs : (w.dev x).shutDown
  · rw [restoreDev_eq_up w x hs]; rfl
  · rw [quiet_eq_dev (restoreDev_quiet w x hs) x]
    show ((w.setDev x (restDev w.now (w.dev x))).dev x).core = _
    rw [dev_setDev_same hx]; rfl

theorem PAtom.slots {w w' : World} (a : PAtom x False False True w w')
    (hk : (w.dev x).kind = .processor) : Slots x w w' := by
  have hx := lt_of_processor hk
  cases a with
  | frame h => exact ⟨pv_part h, pv_output h, pv_reserved h, pv_lost h, pv_frecs h⟩
  | accept hf => exact hf.elim
  | acquire hf => exact hf.elim
  | clear hc => exact hc.elim
  | shutdown _ =>
    have h1 := shutdownDev_dev_same w false none hx
    refine ⟨?_, ?_, ?_, lost_shutdownDev .., frecs_shutdownDev ..⟩ <;> (rw [h1]; split <;> rfl)
  | restore _ =>
    have h2 := restoreDev_dev_core w hx
    refine ⟨?_, ?_, ?_, lost_restoreDev .., frecs_restoreDev ..⟩
    · exact (congrArg Dev.part h2).trans (by split <;> rfl)
    · exact (congrArg Dev.output h2).trans (by split <;> rfl)
    · exact (congrArg Dev.reserved h2).trans (by split <;> rfl)

theorem PMoves.slots {w w' : World} (m : PMoves x False False True w w')
    (hk : (w.dev x).kind = .processor) : Slots x w w' := by
  induction m with
  | refl => exact Slots.refl _
  | cons a _ ih =>
    have h1 := a.slots hk
    exact h1.trans (ih ((a.acc hk).kind.trans hk))

/-! ### what flow moves keep: everything of a machine that is down -/

theorem canAccept_operational {w : World} {p : Nat} (hk : (w.dev x).kind = .processor)
    (hc : w.canAcceptBasic x p = true) : w.operational x = true := by
  unfold World.canAcceptBasic at hc
  simp only [hk, Bool.and_eq_true] at hc
  exact hc.1.1.1

theorem PMoves.down_frame {fl cl : Prop} {w w' : World} (m : PMoves x fl cl False w w')
    (hk : (w.dev x).kind = .processor) (hs : (w.dev x).shutDown = true) : pvw x w' = pvw x w := by
  induction m with
  | refl => rfl
  | @cons w0 w1 w2 a _ ih =>
    have hop : ∀ w0 : World, (w0.dev x).kind = .processor → (w0.dev x).shutDown = true →
        w0.operational x = true → False := by
      intro w0 h1 h2 h3
      simp [World.operational, h1, h2] at h3
    have hf : pvw x w1 = pvw x w0 := by
      cases a with
      | frame h => exact h
      | accept _ p hc => exact (hop _ hk hs (canAccept_operational hk hc)).elim
      | acquire _ p hc => exact (hop _ hk hs (canAccept_operational hk hc)).elim
      | clear _ h => exact (hop _ hk hs h).elim
      | shutdown hc => exact hc.elim
      | restore hc => exact hc.elim
    exact (ih ((pv_kind hf).trans hk) ((pv_shutDown hf).trans hs)).trans hf

/-- Flow moves do not touch the ghost log of lost parts nor the failure records, and change the
output slot of `x` only by emptying it (if allowed). -/
theorem PMoves.flow_logs {fl cl : Prop} {w w' : World} (m : PMoves x fl cl False w w') :
    w'.lost = w.lost ∧ w'.recs.filter isFailRec = w.recs.filter isFailRec := by
  induction m with
  | refl => exact ⟨rfl, rfl⟩
  | @cons w0 w1 w2 a _ ih =>
    have : w1.lost = w0.lost ∧ w1.recs.filter isFailRec = w0.recs.filter isFailRec := by
      cases a with
      | frame h => exact ⟨pv_lost h, pv_frecs h⟩
      | accept _ p hc => exact ⟨lost_acceptPart .., frecs_acceptPart ..⟩
      | acquire _ p hc => exact ⟨lost_procAcquire .., frecs_procAcquire ..⟩
      | clear _ h => exact ⟨rfl, rfl⟩
      | shutdown hc => exact hc.elim
      | restore hc => exact hc.elim
    exact ⟨ih.1.trans this.1, ih.2.trans this.2⟩

/-! ### one step of the event loop -/

/-- The kinds of step, as far as a fixed device `x` is concerned (`w1` is the world after the pop). -/
inductive StepK (x : Nat) (w : World) (e : Event) (env' : Env) (w' : World) : Prop
  | skipped (hl : e.live = false) (hw : w' = { w with env := env' })
  | fail (y : Nat) (hl : e.live = true) (ha : Action.ofNat e.act = .fail y)
      (hw : w' = ({ w with env := env' } : World).failDev y)
  | finish (y : Nat) (hl : e.live = true) (ha : Action.ofNat e.act = .finishCycle y)
      (hw : w' = ({ w with env := env' } : World).finishCycle y)
  | release (y : Nat) (hl : e.live = true) (ha : Action.ofNat e.act = .releaseIfIdle y)
      (hw : w' = ({ w with env := env' } : World).releaseIfIdle y)
  | pass (y : Nat) (hl : e.live = true) (ha : Action.ofNat e.act = .passPart y)
      (hw : w' = ({ w with env := env' } : World).passPart y)
      (mv : PMoves x True (y = x) False ({ w with env := env' } : World) w')
  | ctl (hl : e.live = true)
      (ha : (∃ k, Action.ofNat e.act = .script k) ∨ Action.ofNat e.act = .rmCheck ∨
        (∃ m o, Action.ofNat e.act = .startWork m o) ∨ (∃ m o, Action.ofNat e.act = .finishWork m o))
      (hw : w' = ({ w with env := env' } : World).exec (Action.ofNat e.act))
      (mv : PMoves x False False True ({ w with env := env' } : World) w')
  | other (hl : e.live = true) (ha : ∀ y, Action.ofNat e.act ≠ .fail y)
      (h : pvw x w' = pvw x ({ w with env := env' } : World))

theorem stepK {w w' : World} {e : Event} (hs : ScriptsPlain w) (hk : (w.dev x).kind = .processor)
    (hst : w.step = some (e, w')) : ∃ env', w.env.step = some (e, env') ∧ StepK x w e env' w' := by
  unfold World.step at hst
  split at hst
  · cases hst
  · rename_i e' env' henv
    simp only [Option.some.injEq, Prod.mk.injEq] at hst
    obtain ⟨rfl, rfl⟩ := hst
    refine ⟨env', henv, ?_⟩
    have hs1 : ScriptsPlain ({ w with env := env' } : World) := hs
    have hk1 : (({ w with env := env' } : World).dev x).kind = .processor := hk
    by_cases hl : e'.live = true
    · rw [if_pos hl]
      cases ha : Action.ofNat e'.act with
      | terminate => exact .other hl (by rw [ha]; intro y h; cases h) (pv_exec_other _ _ (Or.inl rfl))
      | script k => exact .ctl hl (Or.inl ⟨k, ha⟩) (by rw [ha]) (pm_exec_ctl _ _ hs1 (Or.inl ⟨k, rfl⟩))
      | finishCycle d => exact .finish d hl ha rfl
      | passPart d => exact .pass d hl ha rfl (pm_passPart _ d hk1)
      | fail d => exact .fail d hl ha rfl
      | releaseIfIdle d => exact .release d hl ha rfl
      | rmCheck =>
        exact .ctl hl (Or.inr (Or.inl ha)) (by rw [ha]) (pm_exec_ctl _ _ hs1 (Or.inr (Or.inl rfl)))
      | startWork m o =>
        exact .ctl hl (Or.inr (Or.inr (Or.inl ⟨m, o, ha⟩))) (by rw [ha])
          (pm_exec_ctl _ _ hs1 (Or.inr (Or.inr (Or.inl ⟨m, o, rfl⟩))))
      | finishWork m o =>
        exact .ctl hl (Or.inr (Or.inr (Or.inr ⟨m, o, ha⟩))) (by rw [ha])
          (pm_exec_ctl _ _ hs1 (Or.inr (Or.inr (Or.inr ⟨m, o, rfl⟩))))
      | schedUpdate s =>
        exact .other hl (by rw [ha]; intro y h; cases h)
          (pv_exec_other _ _ (Or.inr (Or.inl ⟨s, rfl⟩)))
      | periodicSense s =>
        exact .other hl (by rw [ha]; intro y h; cases h)
          (pv_exec_other _ _ (Or.inr (Or.inr (Or.inl ⟨s, rfl⟩))))
      | unknown n =>
        exact .other hl (by rw [ha]; intro y h; cases h)
          (pv_exec_other _ _ (Or.inr (Or.inr (Or.inr ⟨n, rfl⟩))))
    · rw [if_neg hl]
      exact .skipped (by simpa using hl) rfl

end C13W
end SimProc
