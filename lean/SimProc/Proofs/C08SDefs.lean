/-
C08S — the idle clock (`since` = `_waiting_for_part_since`) is exact.  Part 1: the clock view of a
device (`cv`), the per-device two-state relation (`DT`/`PDs`/`PD`), the relation on worlds `Clk`
("every device moves along `PD`"), the sharper relation `Stamp` of the notification functions
("nothing changes except that idle clocks are started"), the primitives of `WorldDef`, and the
peeling tactic `clk` / `clk_auto` (in the style of `C06WFrame` / `C01WBase`).
-/
import SimProc.Proofs.FloorCore2
import SimProc.Proofs.C13Lemmas

namespace SimProc
namespace C08S
open World FloorCoreL

/-! ### the clock view of a device -/

/-- The single-slot devices whose idle clock the theorems are about. -/
def isS (k : Kind) : Bool :=
  match k with
  | .handler | .processor | .sink => true
  | _ => false

/-- The machines among them (a sink with cycle time 0 accepts and frees its slot in one go). -/
def isM (k : Kind) : Bool :=
  match k with
  | .handler | .processor => true
  | _ => false

theorem isS_of_isM {k : Kind} (h : isM k = true) : isS k = true := by
  cases k <;> first | rfl | cases h

/-- What the idle clock of a device depends on.  The slots of the devices that are not single-slot
devices (sources, buffers, batchers, flow controllers) are masked. -/
structure CV where
  kind : Kind
  inited : Bool
  shutDown : Bool
  part : Option Nat
  output : Option Nat
  since : Option Int
deriving DecidableEq, Repr

def cv (d : Dev) : CV :=
  { kind := d.kind, inited := d.inited, shutDown := d.shutDown
    part := if isS d.kind then d.part else none
    output := if isS d.kind then d.output else none
    since := d.since }

/-- both slots free -/
def CV.free (c : CV) : Bool := c.part.isNone && c.output.isNone

/-- (a) the clock runs only while both slots are free, and was not started in the future -/
def Sound (now : Int) (c : CV) : Prop :=
  isS c.kind = true → ∀ t, c.since = some t → c.free = true ∧ t ≤ now

/-- the converse: an initialised device that is not shut down and has both slots free has its
clock running -/
def Complete (c : CV) : Prop :=
  isS c.kind = true → c.inited = true → c.shutDown = false → c.free = true → c.since.isSome = true

instance (now : Int) (c : CV) : Decidable (Sound now c) := by unfold Sound; infer_instance
instance (c : CV) : Decidable (Complete c) := by unfold Complete; infer_instance

/-- The two-state relation of one device while the clock of the world stands at `now` (inside the
action of one event).  `X`: the device is exempt from the `keep` clause. -/
structure DT (X : Prop) (now : Int) (c c' : CV) : Prop where
  kind : c'.kind = c.kind
  inited : c'.inited = c.inited
  /-- a clock is never moved: it keeps its start time, is stopped, or is (re)started now -/
  b0 : c'.since = c.since ∨ c'.since = none ∨ c'.since = some now
  /-- a machine that is free afterwards was free before, and its running clock is untouched -/
  keep : ¬ X → isM c.kind = true → c'.free = true →
    c.free = true ∧ ∀ t, c.since = some t → c'.since = some t

/-- `DT` and soundness is kept. -/
structure PDs (X : Prop) (now : Int) (c c' : CV) : Prop extends DT X now c c' where
  sound : Sound now c → Sound now c'

/-- `PDs` and completeness is kept. -/
structure PD (X : Prop) (now : Int) (c c' : CV) : Prop extends PDs X now c c' where
  compl : Complete c → Complete c'

theorem DT.refl (X : Prop) (now : Int) (c : CV) : DT X now c c :=
  ⟨rfl, rfl, Or.inl rfl, fun _ _ h => ⟨h, fun _ ht => ht⟩⟩

theorem DT.trans {X : Prop} {now : Int} {a b c : CV} (h1 : DT X now a b) (h2 : DT X now b c) :
    DT X now a c where
  kind := h2.kind.trans h1.kind
  inited := h2.inited.trans h1.inited
  b0 := by
    rcases h2.b0 with h | h | h
    · rw [h]; exact h1.b0
    · exact Or.inr (Or.inl h)
    · exact Or.inr (Or.inr h)
  keep := fun hx hm hf => by
    have h2' := h2.keep hx (by rw [h1.kind]; exact hm) hf
    have h1' := h1.keep hx hm h2'.1
    exact ⟨h1'.1, fun t ht => h2'.2 t (h1'.2 t ht)⟩

theorem DT.mono {X Y : Prop} {now : Int} {a b : CV} (h : DT X now a b) (hxy : X → Y) : DT Y now a b :=
  { h with keep := fun hy => h.keep (fun hx => hy (hxy hx)) }

theorem PDs.refl (X : Prop) (now : Int) (c : CV) : PDs X now c c := ⟨DT.refl X now c, id⟩
theorem PDs.trans {X : Prop} {now : Int} {a b c : CV} (h1 : PDs X now a b) (h2 : PDs X now b c) :
    PDs X now a c := ⟨h1.toDT.trans h2.toDT, fun h => h2.sound (h1.sound h)⟩
theorem PDs.mono {X Y : Prop} {now : Int} {a b : CV} (h : PDs X now a b) (hxy : X → Y) :
    PDs Y now a b := ⟨h.toDT.mono hxy, h.sound⟩

theorem PD.refl (X : Prop) (now : Int) (c : CV) : PD X now c c := ⟨PDs.refl X now c, id⟩
theorem PD.trans {X : Prop} {now : Int} {a b c : CV} (h1 : PD X now a b) (h2 : PD X now b c) :
    PD X now a c := ⟨h1.toPDs.trans h2.toPDs, fun h => h2.compl (h1.compl h)⟩
theorem PD.mono {X Y : Prop} {now : Int} {a b : CV} (h : PD X now a b) (hxy : X → Y) :
    PD Y now a b := ⟨h.toPDs.mono hxy, h.compl⟩
theorem PD.of_eq {X : Prop} {now : Int} {a b : CV} (h : b = a) : PD X now a b := h ▸ PD.refl X now a

/-! ### the relation on worlds -/

/-- Every device of `w'` is related to the same device of `w` by `PD`; clock and number of devices
are unchanged.  `X`: the devices exempt from the `keep` clause. -/
structure Clk (X : Nat → Prop) (w w' : World) : Prop where
  now : w'.now = w.now
  len : w'.devs.length = w.devs.length
  dev : ∀ y, PD (X y) w.now (cv (w.dev y)) (cv (w'.dev y))

theorem Clk.refl (X : Nat → Prop) (w : World) : Clk X w w := ⟨rfl, rfl, fun _ => PD.refl _ _ _⟩

theorem Clk.trans {X : Nat → Prop} {a b c : World} (h1 : Clk X a b) (h2 : Clk X b c) : Clk X a c where
  now := h2.now.trans h1.now
  len := h2.len.trans h1.len
  dev := fun y => (h1.dev y).trans (h1.now ▸ h2.dev y)

theorem Clk.mono {X Y : Nat → Prop} {a b : World} (h : Clk X a b) (hxy : ∀ y, X y → Y y) : Clk Y a b :=
  ⟨h.now, h.len, fun y => (h.dev y).mono (hxy y)⟩

theorem Clk.foldl {X : Nat → Prop} {α : Type} (f : World → α → World) (l : List α) (w : World)
    (h : ∀ w a, Clk X w (f w a)) : Clk X w (l.foldl f w) := by
  induction l generalizing w with
  | nil => exact Clk.refl X w
  | cons a l ih => exact (h w a).trans (ih _)

theorem Clk.of_eq {X : Nat → Prop} {w w' : World} (h : w' = w) : Clk X w w' := h ▸ Clk.refl X w

theorem Clk.kind {X : Nat → Prop} {w w' : World} (h : Clk X w w') (y : Nat) :
    (w'.dev y).kind = (w.dev y).kind := (h.dev y).kind

theorem Clk.of_fst_eq {X : Nat → Prop} {α} {w w' : World} {e : World × α} {b : α} (he : Clk X w e.1)
    (h : e = (w', b)) : Clk X w w' := by
  subst h; exact he

/-- A change the clock view does not see. -/
theorem Clk.of_frame {X : Nat → Prop} {w w' : World} (hn : w'.now = w.now)
    (hl : w'.devs.length = w.devs.length) (hd : ∀ y, cv (w'.dev y) = cv (w.dev y)) : Clk X w w' :=
  ⟨hn, hl, fun y => PD.of_eq (hd y)⟩

/-- A change that touches neither the devices nor the clock. -/
theorem Clk.of_devs {X : Nat → Prop} {w w' : World} (hn : w'.now = w.now) (hd : w'.devs = w.devs) :
    Clk X w w' :=
  Clk.of_frame hn (by rw [hd]) (fun y => by rw [dev_congr hd y])

/-- The same with the environment instead of the clock (for `with_reducible rfl`). -/
theorem Clk.of_env {X : Nat → Prop} {w w' : World} (he : w'.env = w.env) (hd : w'.devs = w.devs) :
    Clk X w w' :=
  Clk.of_devs (by unfold World.now; rw [he]) hd

/-! ### the relation of the notification functions -/

/-- unchanged, or the clock (which was not running) has been started now — of a single-slot device
only when its slots are free -/
def StampD (now : Int) (c c' : CV) : Prop :=
  c' = c ∨ (c.since = none ∧ (isS c.kind = true → c.free = true) ∧ c' = { c with since := some now })

structure Stamp (w w' : World) : Prop where
  now : w'.now = w.now
  len : w'.devs.length = w.devs.length
  dev : ∀ y, StampD w.now (cv (w.dev y)) (cv (w'.dev y))

theorem StampD.trans {now : Int} {a b c : CV} (h1 : StampD now a b) (h2 : StampD now b c) :
    StampD now a c := by
  rcases h1 with rfl | ⟨h1a, h1b, rfl⟩
  · exact h2
  · rcases h2 with rfl | ⟨h2a, _, _⟩
    · exact Or.inr ⟨h1a, h1b, rfl⟩
    · cases h2a

theorem Stamp.refl (w : World) : Stamp w w := ⟨rfl, rfl, fun _ => Or.inl rfl⟩

theorem Stamp.trans {a b c : World} (h1 : Stamp a b) (h2 : Stamp b c) : Stamp a c :=
  ⟨h2.now.trans h1.now, h2.len.trans h1.len, fun y => (h1.dev y).trans (h1.now ▸ h2.dev y)⟩

theorem Stamp.foldl {α : Type} (f : World → α → World) (l : List α) (w : World)
    (h : ∀ w a, Stamp w (f w a)) : Stamp w (l.foldl f w) := by
  induction l generalizing w with
  | nil => exact Stamp.refl w
  | cons a l ih => exact (h w a).trans (ih _)

theorem Stamp.of_frame {w w' : World} (hn : w'.now = w.now)
    (hl : w'.devs.length = w.devs.length) (hd : ∀ y, cv (w'.dev y) = cv (w.dev y)) : Stamp w w' :=
  ⟨hn, hl, fun y => Or.inl (hd y)⟩

theorem StampD.pd {X : Prop} {now : Int} {c c' : CV} (h : StampD now c c') : PD X now c c' := by
  rcases h with rfl | ⟨hs, hf, rfl⟩
  · exact PD.refl _ _ _
  · refine ⟨⟨⟨rfl, rfl, Or.inr (Or.inr rfl), ?_⟩, ?_⟩, ?_⟩
    · intro _ _ hfr
      exact ⟨hfr, fun t ht => by rw [hs] at ht; cases ht⟩
    · intro _ hk t ht
      have : t = now := by
        have : some now = some t := ht
        exact (Option.some.inj this).symm
      subst this
      exact ⟨hf hk, Int.le_refl _⟩
    · intro _ _ _ _ _; rfl

/-- A notification step is a clock step, whatever is exempt. -/
theorem Stamp.clk {X : Nat → Prop} {w w' : World} (h : Stamp w w') : Clk X w w' :=
  ⟨h.now, h.len, fun y => (h.dev y).pd⟩

/-- A clock that runs is not touched by a notification step. -/
theorem Stamp.since_some {w w' : World} (h : Stamp w w') {y : Nat} {t : Int}
    (ht : (w.dev y).since = some t) : (w'.dev y).since = some t := by
  rcases h.dev y with he | ⟨hs, _, _⟩
  · have := congrArg CV.since he
    exact this.trans ht
  · have : (w.dev y).since = none := hs
    rw [this] at ht; cases ht

/-- Slots, kind, flags of every device are untouched by a notification step. -/
theorem Stamp.fields {w w' : World} (h : Stamp w w') (y : Nat) :
    (cv (w'.dev y)).kind = (cv (w.dev y)).kind ∧ (cv (w'.dev y)).inited = (cv (w.dev y)).inited ∧
    (cv (w'.dev y)).shutDown = (cv (w.dev y)).shutDown ∧ (cv (w'.dev y)).part = (cv (w.dev y)).part ∧
    (cv (w'.dev y)).output = (cv (w.dev y)).output := by
  rcases h.dev y with he | ⟨_, _, he⟩
  · rw [he]; exact ⟨rfl, rfl, rfl, rfl, rfl⟩
  · rw [he]; exact ⟨rfl, rfl, rfl, rfl, rfl⟩

/-! ### primitives of `WorldDef` -/

section prim
variable {X : Nat → Prop} (w : World)

theorem Clk_setErr (m : String) : Clk X w (w.setErr m) :=
  Clk.of_devs (now_setErr w m) (setErr_devs w m)

theorem Clk_addRec (r : Rec) : Clk X w (w.addRec r) := Clk.of_devs rfl rfl
theorem Clk_addRes (r : Res) : Clk X w (w.addRes r) := Clk.of_devs rfl rfl
theorem Clk_modPart (p : Nat) (g : PartRec → PartRec) : Clk X w (w.modPart p g) := Clk.of_devs rfl rfl
theorem Clk_newPart (r : PartRec) : Clk X w (w.newPart r).1 := Clk.of_devs rfl rfl

theorem Clk_schedLib (t a : Int) (act : Action) (p : Int) : Clk X w (w.schedLib t a act p) :=
  Clk.of_devs (now_schedLib w t a act p) (schedLib_devs w t a act p)

theorem Clk_sched (t a : Int) (act : Action) (p : Int) : Clk X w (w.sched t a act p).1 := by
  refine Clk.of_devs ?_ (sched_fst_devs w t a act p)
  unfold World.sched
  dsimp only
  cases hs : w.env.apply Arith.exact (.sched t a act.toNat p (weightOf w.seed w.wmod t a act.toNat p)) with
  | mk e r =>
    cases r
    case ok =>
      show e.now = w.env.now
      have : e = (w.env.apply Arith.exact
          (.sched t a act.toNat p (weightOf w.seed w.wmod t a act.toNat p))).1 := by rw [hs]
      rw [this]
      exact C01.now_apply_ne_step _ _ _ (by intro h; cases h)
    all_goals rfl

theorem Clk_envOp_pause (a : Int) : Clk X w (w.envOp (.pause a)) := Clk.of_devs rfl rfl
theorem Clk_envOp_unpause (a : Int) : Clk X w (w.envOp (.unpause a)) := Clk.of_devs rfl rfl
theorem Clk_envOp_cancel (a : Int) : Clk X w (w.envOp (.cancel a)) := Clk.of_devs rfl rfl

theorem Clk_rmEffects (recs : List ResRec) (check : Bool) : Clk X w (w.rmEffects recs check) := by
  have h : Clk X w (recs.foldl (fun w r => w.addRec (.resUpdate r.res w.now r.inUse r.cap)) w) :=
    Clk.foldl _ _ _ (fun w r => Clk_addRec w _)
  unfold World.rmEffects
  split
  · exact h.trans (Clk_schedLib _ _ _ _ _)
  · exact h

/-- Overwriting device `x`: what has to be shown about the old and the new record. -/
theorem Clk_setDev (x : Nat) (d : Dev) (h : PD (X x) w.now (cv (w.dev x)) (cv d)) :
    Clk X w (w.setDev x d) := by
  refine ⟨rfl, by simp, fun y => ?_⟩
  rw [dev_setDev]
  split
  · next hxy => rw [← hxy.1]; exact h
  · exact PD.refl _ _ _

theorem Clk_setDev_same (x : Nat) (d : Dev) (h : cv d = cv (w.dev x)) : Clk X w (w.setDev x d) :=
  Clk_setDev w x d (PD.of_eq h)

theorem Clk_modDev_same (x : Nat) (f : Dev → Dev) (h : cv (f (w.dev x)) = cv (w.dev x)) :
    Clk X w (w.modDev x f) := Clk_setDev_same w x _ h

/-- The slots of a device that is not a single-slot device are masked. -/
theorem cv_eq_of_mask {d d' : Dev} (hk : isS d.kind = false) (h1 : d'.kind = d.kind)
    (h2 : d'.inited = d.inited) (h3 : d'.shutDown = d.shutDown) (h4 : d'.since = d.since) :
    cv d' = cv d := by
  simp [cv, h1, h2, h3, h4, hk]

theorem Clk_setDev_mask (x : Nat) (d : Dev) (hk : isS (w.dev x).kind = false)
    (hf : d.kind = (w.dev x).kind ∧ d.inited = (w.dev x).inited ∧ d.shutDown = (w.dev x).shutDown ∧
      d.since = (w.dev x).since) : Clk X w (w.setDev x d) :=
  Clk_setDev_same w x d (cv_eq_of_mask hk hf.1 hf.2.1 hf.2.2.1 hf.2.2.2)

theorem Clk_modDev_mask (x : Nat) (f : Dev → Dev) (hk : isS (w.dev x).kind = false)
    (hf : ∀ d, (f d).kind = d.kind ∧ (f d).inited = d.inited ∧ (f d).shutDown = d.shutDown ∧
      (f d).since = d.since) : Clk X w (w.modDev x f) := Clk_setDev_mask w x _ hk (hf _)

/-- the same for `Stamp` -/
theorem Stamp_setDev_same (x : Nat) (d : Dev) (h : cv d = cv (w.dev x)) : Stamp w (w.setDev x d) := by
  refine Stamp.of_frame rfl (by simp) (fun y => ?_)
  rw [dev_setDev]
  split
  · next hxy => rw [← hxy.1]; exact h
  · rfl

theorem Stamp_schedLib (t a : Int) (act : Action) (p : Int) : Stamp w (w.schedLib t a act p) :=
  Stamp.of_frame (now_schedLib w t a act p) (by rw [schedLib_devs]) (fun y => by rw [dev_schedLib])

theorem Stamp_setErr (m : String) : Stamp w (w.setErr m) :=
  Stamp.of_frame (now_setErr w m) (by rw [setErr_devs]) (fun y => by rw [dev_setErr])

end prim

/-! ### the chaining tactic -/

/-- one step: close the goal, or peel the outermost primitive off the right-hand world
(unification with reducible transparency only: the worlds are large terms) -/
syntax "clk" : tactic
macro_rules | `(tactic| clk) => `(tactic| first
  | with_reducible exact Clk.refl _ _
  | with_reducible apply Clk.trans (h2 := Clk_setErr _ _)
  | with_reducible apply Clk.trans (h2 := Clk_addRec _ _)
  | with_reducible apply Clk.trans (h2 := Clk_addRes _ _)
  | with_reducible apply Clk.trans (h2 := Clk_modPart _ _ _)
  | with_reducible apply Clk.trans (h2 := Clk_schedLib _ _ _ _ _)
  | with_reducible apply Clk.trans (h2 := Clk_rmEffects _ _ _)
  | with_reducible apply Clk.trans (h2 := Clk_envOp_pause _ _)
  | with_reducible apply Clk.trans (h2 := Clk_envOp_unpause _ _)
  | with_reducible apply Clk.trans (h2 := Clk_envOp_cancel _ _)
  | ((with_reducible apply Clk.trans (h2 := Clk_setDev_same _ _ _ ?h)); case h => exact rfl)
  | ((with_reducible apply Clk.trans (h2 := Clk_modDev_same _ _ _ ?h)); case h => exact rfl)
  | with_reducible (refine Clk.of_env ?a ?b <;> rfl))

/-- split all `if`/`match` and chain clock steps -/
macro "clk_auto" : tactic => `(tactic| ((try dsimp only) <;> repeat' (first | clk | split)))

/-- declare a lemma (with `n` explicit arguments after the world) as a step of `clk` -/
macro "clk_lemma3" a:ident : command =>
  `(macro_rules | `(tactic| clk) => `(tactic| with_reducible apply Clk.trans (h2 := $a:ident _ _ _ _)))
macro "clk_lemma2" a:ident : command =>
  `(macro_rules | `(tactic| clk) => `(tactic| with_reducible apply Clk.trans (h2 := $a:ident _ _ _)))
macro "clk_lemma1" a:ident : command =>
  `(macro_rules | `(tactic| clk) => `(tactic| with_reducible apply Clk.trans (h2 := $a:ident _ _)))
macro "clk_lemma0" a:ident : command =>
  `(macro_rules | `(tactic| clk) => `(tactic| with_reducible apply Clk.trans (h2 := $a:ident _)))

macro_rules | `(tactic| clk) => `(tactic|
  ((with_reducible apply Clk.trans (h2 := Clk.foldl _ _ _ ?hs)); case hs => (intro _ _; clk_auto; done)))

end C08S
end SimProc
