/-
C14W, pass 2 (end) — scripted operations, the resource check, maintainer events, sensors, and the
action of an event: `PP w t → PP (w.exec a) (NX (·.exec a) w t)`.
-/
import SimProc.Proofs.C14WParWorld

namespace SimProc
namespace C14W
open World C01W

section
variable {Q : Env → Env → Prop} {s1 m1 s2 m2 : Nat}
local notation "PP'" => PP Q s1 m1 s2 m2

/-- Scripted operations (for `sched`/`schedRel`/`pause`/`unpause`/`cancel`: user ones). -/
theorem pp_applyOp (hQ : Cong Q s1 m1 s2 m2) {w : World} {t : Twin} (h : PP' w t)
    (op : Op) (hu : opUser op = true) :
    PP' (w.applyOp op).1 (NX (fun v => (v.applyOp op).1) w t) := by
  cases op with
  | sched τ a k p =>
    pp_nx h
    bl_norm [applyOp]
    exact PPn.mk (pp_sched hQ h _ _ _ _ (by intro h; cases h)
      (by have h' : pTerminate < _ := of_decide_eq_true hu; exact h'))
  | schedRel dt a k p =>
    pp_nx h
    bl_norm [applyOp]
    exact PPn.mk (pp_sched hQ h _ _ _ _ (by intro h; cases h)
      (by have h' : pTerminate < _ := of_decide_eq_true hu; exact h'))
  | pause a =>
    have ha : a ≠ -1 := of_decide_eq_true hu
    pp_go h [applyOp]
  | unpause a =>
    have ha : a ≠ -1 := of_decide_eq_true hu
    pp_go h [applyOp]
  | cancel a =>
    have ha : a ≠ -1 := of_decide_eq_true hu
    pp_go h [applyOp]
  | schedFail d τ =>
    pp_nx h
    bl_norm [applyOp]
    split_ite
    · exact PPn.mk h
    · bl_norm []
      exact PPn.mk (pp_sched hQ h _ _ _ _ (by intro h; cases h) (by decide))
  | schedFailRel d dt =>
    pp_nx h
    bl_norm [applyOp]
    split_ite
    · exact PPn.mk h
    · bl_norm []
      exact PPn.mk (pp_sched hQ h _ _ _ _ (by intro h; cases h) (by decide))
  | addRes r amt => pp_go h [applyOp]
  | reserve hh req => pp_go h [applyOp]
  | release hh part => pp_go h [applyOp]
  | merge h1 h2 => pp_go h [applyOp]
  | register k req => pp_go h [applyOp]
  | shutdown d => pp_go h [applyOp]
  | restore d => pp_go h [applyOp]
  | block d b => pp_go h [applyOp]
  | adjust d n => pp_go h [applyOp]
  | setCycle d c => pp_go h [applyOp]
  | offsetNext d o => pp_go h [applyOp]
  | rewire d ups => pp_go h [applyOp]
  | workOrder m tgt tag info => pp_go h [applyOp]
  | setParams tgt tag dur need cost => pp_go h [applyOp]
  | regObj s obj ovr => pp_go h [applyOp]
  | unregObj s obj => pp_go h [applyOp]
  | setVar k v => pp_go h [applyOp]
  | addSensor c s => pp_go h [applyOp]
  | create spec => pp_go h [applyOp]

theorem pp_applyOps (hQ : Cong Q s1 m1 s2 m2) (ops : List Op)
    (hu : ∀ op ∈ ops, opUser op = true) {w : World} {t : Twin} (h : PP' w t) :
    PP' (w.applyOps ops) (NX (fun v => v.applyOps ops) w t) := by
  induction ops generalizing w t with
  | nil => exact PP.nx (G := fun v => v) h (PPn.mk h)
  | cons op ops ih =>
    have h1 := pp_applyOp hQ h op (hu op List.mem_cons_self)
    have h2 : PP' ((w.applyOp op).1.addRes (w.applyOp op).2)
        (NX (fun v => (v.applyOp op).1) w t) := PP.of_EK (EK_addRes _ _) rfl rfl h1
    have h3 := ih (fun o ho => hu o (List.mem_cons_of_mem _ ho)) h2
    pp_nx h
    simp only [applyOps, List.foldl_cons] at h3 ⊢
    bl_norm []
    exact PPn.mk h3

theorem pp_runScript (hQ : Cong Q s1 m1 s2 m2) {w : World} {t : Twin} (h : PP' w t)
    (k : Nat) : PP' (w.runScript k) (NX (fun v => v.runScript k) w t) := by
  have hu : ∀ op ∈ w.scripts.getD k [], opUser op = true := by
    intro op hop
    obtain ⟨s, hs, hm⟩ := mem_getD_nil hop
    exact h.good.scr s hs op hm
  pp_nx h
  bl_norm [runScript]
  exact PPn.mk (pp_applyOps hQ _ hu h)

end

macro_rules | `(tactic| pp_step) => `(tactic| with_reducible apply pp_runScript ‹Cong _ _ _ _ _›)

section
variable {Q : Env → Env → Prop} {s1 m1 s2 m2 : Nat}
local notation "PP'" => PP Q s1 m1 s2 m2

theorem pp_scanWaiting (hQ : Cong Q s1 m1 s2 m2) (n : Nat) :
    ∀ {w : World} {t : Twin}, PP' w t → ∀ i,
      PP' (scanWaiting scanOps n w i) (NX (fun v => scanWaiting scanOps n v i) w t) := by
  induction n with
  | zero => intro w t h i; exact PP.nx (G := fun v => v) h (PPn.mk h)
  | succ n ih =>
    intro w t h i
    pp_go h [scanWaiting, scanOps_rm, scanOps_call, scanOps_erase]

theorem pp_rmCheck (hQ : Cong Q s1 m1 s2 m2) {w : World} {t : Twin} (h : PP' w t) :
    PP' w.rmCheck (NX (fun v => v.rmCheck) w t) := by
  pp_nx h
  bl_norm [rmCheck]
  exact PPn.mk (pp_scanWaiting hQ _ h _)

theorem pp_hookStart (hQ : Cong Q s1 m1 s2 m2) {w : World} {t : Twin} (h : PP' w t)
    (tgt : Nat) (tag : Int) :
    PP' (w.hookStart tgt tag) (NX (fun v => v.hookStart tgt tag) w t) := by
  pp_go h [hookStart]

theorem pp_hookEnd (hQ : Cong Q s1 m1 s2 m2) {w : World} {t : Twin} (h : PP' w t)
    (tgt : Nat) (tag : Int) :
    PP' (w.hookEnd tgt tag) (NX (fun v => v.hookEnd tgt tag) w t) := by
  pp_go h [hookEnd]

end

macro_rules | `(tactic| pp_step) => `(tactic| with_reducible apply pp_rmCheck ‹Cong _ _ _ _ _›)
macro_rules | `(tactic| pp_step) => `(tactic| with_reducible apply pp_hookStart ‹Cong _ _ _ _ _›)
macro_rules | `(tactic| pp_step) => `(tactic| with_reducible apply pp_hookEnd ‹Cong _ _ _ _ _›)

section
variable {Q : Env → Env → Prop} {s1 m1 s2 m2 : Nat}
local notation "PP'" => PP Q s1 m1 s2 m2

theorem pp_startWork (hQ : Cong Q s1 m1 s2 m2) {w : World} {t : Twin} (h : PP' w t)
    (m seq : Nat) : PP' (w.startWork m seq) (NX (fun v => v.startWork m seq) w t) := by
  pp_go h [startWork]

theorem pp_finishWork (hQ : Cong Q s1 m1 s2 m2) {w : World} {t : Twin} (h : PP' w t)
    (m seq : Nat) : PP' (w.finishWork m seq) (NX (fun v => v.finishWork m seq) w t) := by
  pp_go h [finishWork]

theorem pp_periodicSense (hQ : Cong Q s1 m1 s2 m2) {w : World} {t : Twin} (h : PP' w t)
    (s : Nat) : PP' (w.periodicSense s) (NX (fun v => v.periodicSense s) w t) := by
  pp_go h [periodicSense]

/-- **Relational parametricity of the action of an event**: related queues stay related. -/
theorem pp_exec (hQ : Cong Q s1 m1 s2 m2) {w : World} {t : Twin} (h : PP' w t) (a : Action) :
    PP' (w.exec a) (NX (fun v => v.exec a) w t) := by
  cases a with
  | terminate => exact PP.nx (G := fun v => v.exec .terminate) h (PPn.mk h)
  | script k => exact pp_runScript hQ h k
  | finishCycle d => exact pp_finishCycle hQ h d
  | passPart d => exact pp_passPart hQ h d
  | fail d => exact pp_failDev hQ h d
  | releaseIfIdle d => exact pp_releaseIfIdle hQ h d
  | rmCheck => exact pp_rmCheck hQ h
  | startWork m o => exact pp_startWork hQ h m o
  | finishWork m o => exact pp_finishWork hQ h m o
  | schedUpdate s => exact pp_schedUpdate hQ h s true
  | periodicSense s => exact pp_periodicSense hQ h s
  | unknown n => pp_go h [exec]

end
end C14W
end SimProc
