/-
C18D — machinery, part 2: the world invariant `WD C A w` (anchors `A`), the relation `FrD C w w'`
("`w'` keeps the invariant of `w`, the anchors of the existing schedulers are kept, schedulers
appended meanwhile are anchored at the clock") and `FrD C w (f w)` for every function that can run
inside an event action, `create (.sched …)` included.

Method: the frame lemmas `Fr` of C18W need scripts that create nothing (`Stat`).  They are applied to
the twin world WITHOUT scripts (`noScr w`): the floor functions are blind to the scripts
(`Proofs/C03YEs*.lean`), and the tracked key of the twin is the tracked key of `w` with its scripts
erased.  The registry facts (asset id = registration index + 1, every scheduler registered, the
registry only grows) are those of C20W (`Reg`, `Pv`, `Same`).
-/
import SimProc.Proofs.C18DInv
import SimProc.Proofs.C03YEsWorld
import SimProc.Props.C20W

namespace SimProc
namespace C18D
open World FloorCoreL C18W C19W
open C03W (es noScr)

/-! ### the class of operations -/

/-- What the invariant is relative to: the parameters of the sensors' invariant (their anchor, the
initial registry), the asset ids of the initial schedulers and sensors, the length of the initial
registry. -/
structure Ctx where
  P : Par
  ta0 : List Int
  bound : Nat

/-- `pause` / `unpause` / `cancel` of an id that is neither an initial scheduler / sensor id nor an
id a later constructor call can hand out. -/
def idOK (ta0 : List Int) (bound : Nat) (a : Int) : Bool := !ta0.contains a && decide (a ≤ (bound : Int))

/-- **`schedNew`**: the payload of a scheduler constructed while running — no negative duration.
(Position 0, no current state, no registered object and a fresh asset id are what the constructor
`AssetSpec.sched tt cyc` produces by itself.) -/
def schedNew (tt : List (Int × Int)) : Bool := tt.all (fun p => decide (0 ≤ p.1))

/-- Operations of the dynamic class: as in C18W, plus constructor calls for schedulers (`schedNew`),
maintainers and cms. -/
def opD (ta0 : List Int) (bound : Nat) : Op → Bool
  | .pause a => idOK ta0 bound a
  | .unpause a => idOK ta0 bound a
  | .cancel a => idOK ta0 bound a
  | .create (.sched tt _) => schedNew tt
  | .create (.maint _ _) => true
  | .create .cms => true
  | .create _ => false
  | _ => true

/-- **The world invariant.** -/
structure WD (C : Ctx) (A : Nat → Int) (w : World) : Prop where
  gd : GD C.P A w.env (tk (noScr w))
  inv : C01.Inv w.env
  reg : C20W.Reg w
  started : w.started = true
  scr : ∀ l ∈ w.scripts, ∀ op ∈ l, opD C.ta0 C.bound op = true
  tab : ∀ a ∈ (tk w).ta, a ∈ C.ta0 ∨ (C.bound : Int) < a
  bnd : C.bound ≤ w.assets.length

/-- the anchors after something happened in `w`: existing schedulers keep theirs, new ones are
anchored at the clock -/
def ext (A : Nat → Int) (w : World) : Nat → Int := fun s => if s < w.scheds.length then A s else w.now

def FrD (C : Ctx) (w w' : World) : Prop :=
  ∀ A, WD C A w → WD C (ext A w) w' ∧ w'.now = w.now ∧ w.scheds.length ≤ w'.scheds.length

theorem WD.congrA {C : Ctx} {A A' : Nat → Int} {w : World} (h : WD C A w)
    (hA : ∀ s, s < w.scheds.length → A' s = A s) : WD C A' w :=
  ⟨h.gd.congrA hA, h.inv, h.reg, h.started, h.scr, h.tab, h.bnd⟩

theorem FrD.refl (C : Ctx) (w : World) : FrD C w w := fun A h =>
  ⟨h.congrA (fun s hs => by simp [ext, hs]), rfl, Nat.le_refl _⟩

theorem ext_ext (A : Nat → Int) {w w1 : World} (hn : w1.now = w.now)
    (hl : w.scheds.length ≤ w1.scheds.length) : ext (ext A w) w1 = ext A w := by
  funext s
  unfold ext
  by_cases h1 : s < w1.scheds.length
  · simp [h1]
  · have h2 : ¬ s < w.scheds.length := by omega
    simp [h1, h2, hn]

theorem FrD.trans {C : Ctx} {a b c : World} (h1 : FrD C a b) (h2 : FrD C b c) : FrD C a c := by
  intro A h
  obtain ⟨g1, n1, l1⟩ := h1 A h
  obtain ⟨g2, n2, l2⟩ := h2 _ g1
  rw [ext_ext A n1 l1] at g2
  exact ⟨g2, n2.trans n1, Nat.le_trans l1 l2⟩

theorem FrD.with {C : Ctx} {w w' : World} (h : ∀ A, WD C A w → FrD C w w') : FrD C w w' :=
  fun A hw => h A hw A hw

/-- A frame of the script-less twin that keeps the registry invariant and the scripts. -/
theorem FrD.prim {C : Ctx} {w w' : World} (h1 : Fr (noScr w) (noScr w')) (h2 : C20W.Pv w w')
    (h3 : w'.scripts = w.scripts) : FrD C w w' := by
  intro A hw
  obtain ⟨g, i, n, l, t⟩ := GD.fr (w := noScr w) (w' := noScr w') hw.gd hw.inv h1
  obtain ⟨r, st, pf⟩ := h2 hw.reg
  have l' : w'.scheds.length = w.scheds.length := l
  refine ⟨⟨g.congrA (fun s hs => ?_), i, r, st.trans hw.started, ?_, ?_, ?_⟩, n, Nat.le_of_eq l'.symm⟩
  · have : s < w.scheds.length := by rw [← l']; exact hs
    simp [ext, this]
  · rw [h3]; exact hw.scr
  · intro a ha
    have t' : (tk w').ta = (tk w).ta := t
    rw [t'] at ha
    exact hw.tab a ha
  · exact Nat.le_trans hw.bnd pf.length_le

theorem FrD.same {C : Ctx} {w w' : World} (h1 : Fr (noScr w) (noScr w')) (h2 : C20W.Same w w') :
    FrD C w w' := FrD.prim h1 (C20W.Pv.of_same h2) h2.scripts

/-- Functions that are blind to the scripts. -/
theorem FrD.blind {C : Ctx} {f : World → World} (hb : ∀ w s, f (es w s) = es (f w) s)
    (hf : ∀ w, Fr w (f w)) (hs : ∀ w, C20W.Same w (f w)) (w : World) : FrD C w (f w) := by
  refine FrD.same ?_ (hs w)
  show Fr (es w []) (es (f w) [])
  rw [← hb]
  exact hf _

theorem FrD.foldl {C : Ctx} {α} (g : World → α → World) (l : List α) (w : World)
    (h : ∀ w a, FrD C w (g w a)) : FrD C w (l.foldl g w) := by
  induction l generalizing w with
  | nil => exact FrD.refl C w
  | cons a l ih => exact (h w a).trans (ih _)

/-! ### primitives -/

theorem FrD_addRes {C : Ctx} (w : World) (r : Res) (h : trackedRes r = false) : FrD C w (w.addRes r) :=
  FrD.same (Fr.of_view (view_addRes (noScr w) r h)) (C20W.Same.of_eq rfl)

theorem FrD_addRec {C : Ctx} (w : World) (r : Rec) (h : trackedRec r = false) : FrD C w (w.addRec r) :=
  FrD.same (Fr.of_view (view_addRec (noScr w) r h)) (C20W.Same.of_eq rfl)

theorem FrD_setErr {C : Ctx} (w : World) (m : String) : FrD C w (w.setErr m) :=
  FrD.blind (fun w s => C03W.es_setErr w s m) (fun w => Fr.of_view (view_setErr w m))
    (fun w => C20W.Same.of_eq (C20W.RK_setErr w m)) w

theorem FrD_modMaint {C : Ctx} (w : World) (m : Nat) (f : Maint → Maint) : FrD C w (w.modMaint m f) :=
  FrD.same (Fr.of_view rfl) (C20W.Same.of_eq (by
    unfold modMaint
    exact C20W.RK_setMaint w m _ rfl))

theorem FrD_schedLib {C : Ctx} (w : World) (t a : Int) (act : Action) (p : Int)
    (h : isTrackedAct act = false) : FrD C w (w.schedLib t a act p) :=
  FrD.blind (fun w s => C03W.es_schedLib w s t a act p) (fun w => Fr_schedLib w t a act p h)
    (fun w => C20W.Same.of_eq (C20W.RK_schedLib w t a act p)) w

theorem FrD_startOrders {C : Ctx} (w : World) (m : Nat) (st : List Order) :
    FrD C w (w.startOrders m st) :=
  FrD.blind (fun w s => C03W.es_startOrders w s m st) (fun w => Fr_startOrders w m st)
    (fun w => C20W.Same_startOrders w m st) w

theorem FrD_shutdownDev {C : Ctx} (w : World) (x : Nat) (f : Bool) (lost : Option Nat) :
    FrD C w (w.shutdownDev x f lost) :=
  FrD.blind (fun w s => C03W.es_shutdownDev w s x f lost) (fun w => Fr_shutdownDev w x f lost)
    (fun w => C20W.Same_shutdownDev w x f lost) w

theorem FrD_restoreDev {C : Ctx} (w : World) (x : Nat) : FrD C w (w.restoreDev x) :=
  FrD.blind (fun w s => C03W.es_restoreDev w s x) (fun w => Fr_restoreDev w x)
    (fun w => C20W.Same_restoreDev w x) w

/-! ### scripted operations -/

theorem es_self (w : World) : es w w.scripts = w := by cases w; rfl

theorem applyOp_scripts (w : World) (op : Op) (h : ∀ sp, op ≠ .create sp) :
    (w.applyOp op).1.scripts = w.scripts := by
  have := C03W.es_applyOp w w.scripts op h
  rw [es_self] at this
  rw [this]
  rfl

theorem not_mem_ta {C : Ctx} {A : Nat → Int} {w : World} (hw : WD C A w) {a : Int}
    (h : idOK C.ta0 C.bound a = true) : (!(tk (noScr w)).ta.contains a) = true := by
  simp only [idOK, Bool.and_eq_true, Bool.not_eq_true', decide_eq_true_eq] at h
  simp only [Bool.not_eq_true', List.contains_eq_mem, decide_eq_false_iff_not]
  intro hm
  rcases hw.tab a hm with h1 | h1
  · have : C.ta0.contains a = true := by simpa using h1
    rw [h.1] at this; cases this
  · omega

theorem FrD_applyOp_nc {C : Ctx} (w : World) (op : Op) (h : opD C.ta0 C.bound op = true)
    (hnc : ∀ sp, op ≠ .create sp) : FrD C w (w.applyOp op).1 := by
  refine FrD.with fun A hw => ?_
  have hok : opOK (tk (noScr w)).ta op = true := by
    cases op
    case pause a => exact not_mem_ta hw h
    case unpause a => exact not_mem_ta hw h
    case cancel a => exact not_mem_ta hw h
    case create sp => exact absurd rfl (hnc sp)
    all_goals rfl
  have hfresh : C20W.opFresh op = true := by
    cases op
    case create sp => exact absurd rfl (hnc sp)
    all_goals rfl
  refine FrD.prim ?_ (C20W.Pv_applyOp w op hfresh) (applyOp_scripts w op hnc)
  have := Fr_applyOp (es w []) op hok
  rw [C03W.es_applyOp w [] op hnc] at this
  exact this

/-- every device id is at most the length of the registry -/
theorem reg_dev_aid_le {w : World} (r : C20W.Reg w) : ∀ d ∈ w.devs, d.aid ≤ (w.assets.length : Int) := by
  intro d hd
  obtain ⟨j, hj, rfl⟩ := List.getElem_of_mem hd
  have hm := C20W.dev_registered r j hj
  obtain ⟨i, hi, he⟩ := List.getElem_of_mem hm
  have := C20W.aid_is_index_dev r i j (by rw [List.getElem?_eq_getElem hi, he])
  have e : w.dev j = w.devs[j] := by
    simp [World.dev, List.getD_eq_getElem?_getD, hj]
  rw [e] at this
  omega

/-- the scheduler a constructor call builds -/
def newSched (w : World) (tt : List (Int × Int)) (cyc : Bool) : SchedW :=
  { s := { tt := tt, cyc := cyc }, aid := w.assets.length + 1 }

/-- registration of a scheduler -/
def regSched (w : World) (x : SchedW) : World :=
  { w with scheds := w.scheds ++ [x], assets := w.assets ++ [AssetRef.sched w.scheds.length] }

theorem addSched_eq (w : World) (tt : List (Int × Int)) (cyc : Bool) (hst : w.started = true) :
    w.addAsset (.sched tt cyc) =
      (regSched w (newSched w tt cyc)).schedUpdate w.scheds.length false := by
  unfold addAsset
  dsimp only
  split
  · rfl
  · rename_i hc; exact absurd hst hc

/-- **A scheduler constructed while the simulation runs**: the invariant is kept, the new scheduler
is anchored at the clock. -/
theorem FrD_createSched {C : Ctx} (w : World) (tt : List (Int × Int)) (cyc : Bool)
    (h : schedNew tt = true) : FrD C w (w.addAsset (.sched tt cyc)) := by
  intro A hw
  have hpv := C20W.Pv_addAsset w (.sched tt cyc) rfl hw.reg
  rw [addSched_eq w tt cyc hw.started] at hpv ⊢
  obtain ⟨x, hx⟩ : ∃ x, x = newSched w tt cyc := ⟨_, rfl⟩
  rw [← hx] at hpv ⊢
  obtain ⟨w1, hw1⟩ : ∃ w1, regSched w x = w1 := ⟨_, rfl⟩
  rw [hw1] at hpv ⊢
  have hx : newSched w tt cyc = x := hx.symm
  have htk : tk (noScr w1) = pushS (tk (noScr w)) x := by subst hw1; rfl
  have henv : w1.env = w.env := by subst hw1; rfl
  have hdur : ∀ p ∈ x.s.tt, 0 ≤ p.1 := by
    subst hx
    intro p hp
    have := List.all_eq_true.mp h p hp
    simpa using this
  have haid : x.aid ≠ 0 ∧ ∀ k ∈ (tk (noScr w)).dk, k.1 ≠ x.aid := by
    subst hx
    refine ⟨by show (w.assets.length : Int) + 1 ≠ 0; omega, fun k hk => ?_⟩
    obtain ⟨d, hd, rfl⟩ := List.mem_map.mp hk
    have := reg_dev_aid_le hw.reg d hd
    show d.aid ≠ (w.assets.length : Int) + 1
    omega
  obtain ⟨p1, p2, p3, p4, p5⟩ := hw.gd.push x (by subst hx; rfl) hdur haid rfl
  have hi : w.scheds.length < (pushS (tk (noScr w)) x).scheds.length := by
    show w.scheds.length < (w.scheds ++ [x]).length
    simp
  have ha := schedUpdate_refines (noScr w1) w.scheds.length false (by
    have := p1.dur_at w.scheds.length
    rw [← htk] at this
    exact this)
  have hes : (noScr w1).schedUpdate w.scheds.length false = noScr (w1.schedUpdate w.scheds.length false) :=
    C03W.es_schedUpdate w1 [] _ _
  rw [hes, htk] at ha
  have henv' : (noScr w1).env = w.env := henv
  rw [henv'] at ha
  have hgd : GD C.P (ext A w) (w1.schedUpdate w.scheds.length false).env
      (tk (noScr (w1.schedUpdate w.scheds.length false))) := by
    refine GD.sched_start p1 (fun s hne => ?_) p3 hi p4 p5 (by
      show (if w.scheds.length < w.scheds.length then _ else _) = _
      rw [if_neg (Nat.lt_irrefl _)]; rfl) ha
    have := p2 s hne
    unfold SchedD at this ⊢
    refine ⟨fun hc => ?_, this.2⟩
    have hlt : s < w.scheds.length := by
      have : s < (w.scheds ++ [x]).length := hc
      have hne' : s ≠ w.scheds.length := hne
      simp at this
      omega
    simp only [ext, hlt, if_true]
    exact this.1 hc
  have hfr := ha.frame
  have hsame := C20W.Same_schedUpdate w1 w.scheds.length false
  refine ⟨⟨hgd, hfr.inv hw.inv, hpv.1, hpv.2.1.trans hw.started, ?_, ?_, ?_⟩, hfr.now, ?_⟩
  · rw [hsame.scripts]; subst hw1; exact hw.scr
  · intro a ha'
    have e1 : (tk (w1.schedUpdate w.scheds.length false)).ta = (tk (noScr w1)).ta := by
      have := ta_of_sstat hfr.sstat
      rw [← htk] at this
      exact this
    rw [e1, htk] at ha'
    have : a ∈ (tk w).ta ∨ a = x.aid := by
      simp only [TK.ta, pushS, List.map_append, List.mem_append, List.mem_map, List.map_cons,
        List.map_nil, List.mem_singleton] at ha' ⊢
      rcases ha' with (ha' | ha') | ha'
      · exact Or.inl (Or.inl ha')
      · exact Or.inr ha'
      · exact Or.inl (Or.inr ha')
    rcases this with hm | rfl
    · exact hw.tab a hm
    · right
      subst hx
      have := hw.bnd
      show (C.bound : Int) < (w.assets.length : Int) + 1
      omega
  · exact Nat.le_trans hw.bnd hpv.2.2.length_le
  · rw [hsame.scheds_length]
    subst hw1
    show w.scheds.length ≤ (w.scheds ++ [x]).length
    simp

theorem FrD_applyOp {C : Ctx} (w : World) (op : Op) (h : opD C.ta0 C.bound op = true) :
    FrD C w (w.applyOp op).1 := by
  by_cases hnc : ∀ sp, op ≠ .create sp
  · exact FrD_applyOp_nc w op h hnc
  · have : ∃ sp, op = .create sp := by
      cases op
      case create sp => exact ⟨sp, rfl⟩
      all_goals exact absurd (fun sp he => by cases he) hnc
    obtain ⟨sp, rfl⟩ := this
    show FrD C w (w.addAsset sp)
    cases sp with
    | sched tt cyc => exact FrD_createSched w tt cyc h
    | maint cap v =>
      refine FrD.prim (Fr.of_view ?_) (C20W.Pv_addAsset w _ rfl) ?_
      · unfold addAsset; dsimp only; split <;> rfl
      · unfold addAsset; dsimp only; split <;> rfl
    | cms => exact FrD.prim (Fr.of_view rfl) (C20W.Pv_addAsset w _ rfl) rfl
    | dev d => cases h
    | group g a b c => cases h
    | sensor sw => cases h

theorem FrD_applyOps {C : Ctx} (w : World) (ops : List Op) (h : ∀ op ∈ ops, opD C.ta0 C.bound op = true) :
    FrD C w (w.applyOps ops) := by
  unfold applyOps
  induction ops generalizing w with
  | nil => exact FrD.refl C w
  | cons op ops ih =>
    rw [List.foldl_cons]
    refine ((FrD_applyOp w op (h op List.mem_cons_self)).trans
      (FrD_addRes _ _ (applyOp_res w op))).trans (ih _ (fun o ho => h o (List.mem_cons_of_mem _ ho)))

theorem FrD_runScript {C : Ctx} (w : World) (k : Nat) : FrD C w (w.runScript k) := by
  refine FrD.with fun A hw => ?_
  unfold runScript
  refine FrD_applyOps _ _ ?_
  intro op hop
  obtain ⟨s, hs, hm⟩ := C18W.mem_getD_nil hop
  exact hw.scr s hs op hm

/-! ### resource check, maintainer events, `exec` -/

theorem FrD_scanWaiting {C : Ctx} (n : Nat) (w : World) (i : Nat) : FrD C w (scanWaiting scanOps n w i) := by
  induction n generalizing w i with
  | zero => exact FrD.refl C _
  | succ n ih =>
    rw [scanWaiting]
    split
    · exact FrD.refl C _
    · split
      · refine FrD.trans ?_ (ih _ _)
        show FrD C w (scanOps.erase (scanOps.call w _ _) i)
        have herase : ∀ w : World, FrD C w (scanOps.erase w i) := fun w =>
          FrD.same (Fr.of_view rfl) (C20W.Same.of_eq rfl)
        refine FrD.trans ?_ (herase _)
        unfold scanOps
        dsimp only
        split
        · exact (FrD_addRes _ _ rfl).trans (FrD_runScript _ _)
        · exact FrD.blind (fun w s => C03W.es_procResourceCb w s _) (fun w => Fr_procResourceCb w _)
            (fun w => C20W.Same_procResourceCb w _) w
      · exact ih _ _

theorem FrD_rmCheck {C : Ctx} (w : World) : FrD C w w.rmCheck := FrD_scanWaiting _ _ _

theorem FrD_hookStart {C : Ctx} (w : World) (tgt : Nat) (tag : Int) : FrD C w (w.hookStart tgt tag) := by
  unfold hookStart
  dsimp only
  refine FrD.trans (FrD_addRes w (.hook true tgt tag) rfl) ?_
  split
  · exact FrD_shutdownDev _ _ _ _
  · split
    · exact FrD_runScript _ _
    · exact FrD.refl C _

theorem FrD_hookEnd {C : Ctx} (w : World) (tgt : Nat) (tag : Int) : FrD C w (w.hookEnd tgt tag) := by
  unfold hookEnd
  dsimp only
  refine FrD.trans (FrD_addRes w (.hook false tgt tag) rfl) ?_
  split
  · exact FrD_restoreDev _ _
  · split
    · exact FrD_runScript _ _
    · exact FrD.refl C _

theorem FrD_startWork {C : Ctx} (w : World) (m seq : Nat) : FrD C w (w.startWork m seq) := by
  unfold startWork
  split
  · exact FrD_setErr _ _
  · dsimp only
    exact (((FrD_addRec w _ rfl).trans (FrD_modMaint _ _ _)).trans (FrD_hookStart _ _ _)).trans
      (FrD_schedLib _ _ _ _ _ rfl)

theorem FrD_finishWork {C : Ctx} (w : World) (m seq : Nat) : FrD C w (w.finishWork m seq) := by
  unfold finishWork
  split
  · exact FrD_setErr _ _
  · dsimp only
    exact ((((FrD_hookEnd w _ _).trans (FrD_modMaint _ _ _)).trans (FrD_addRec _ _ rfl)).trans
      (FrD_modMaint _ _ _)).trans (FrD_startOrders _ _ _)

/-- The action of every event other than a scheduler transition / a periodic measurement. -/
theorem FrD_exec {C : Ctx} (w : World) (a : Action) (h : isTrackedAct a = false) : FrD C w (w.exec a) := by
  unfold exec
  split
  · exact FrD.refl C _
  · exact FrD_runScript _ _
  · exact FrD.blind (fun w s => C03W.es_finishCycle w s _) (fun w => Fr_finishCycle w _)
      (fun w => C20W.Same_finishCycle w _) w
  · exact FrD.blind (fun w s => C03W.es_passPart w s _) (fun w => Fr_passPart w _)
      (fun w => C20W.Same_passPart w _) w
  · exact FrD.blind (fun w s => C03W.es_failDev w s _) (fun w => Fr_failDev w _)
      (fun w => C20W.Same_failDev w _) w
  · exact FrD.blind (fun w s => C03W.es_releaseIfIdle w s _) (fun w => Fr_releaseIfIdle w _)
      (fun w => C20W.Same_releaseIfIdle w _) w
  · exact FrD_rmCheck _
  · exact FrD_startWork _ _ _
  · exact FrD_finishWork _ _ _
  · cases h
  · cases h
  · exact FrD_setErr _ _

/-! ### the event loop -/

/-- the anchors after a step `w → w'`: schedulers constructed during the step are anchored at the
time of the step -/
def stepA (A : Nat → Int) (w w' : World) : Nat → Int :=
  fun s => if s < w.scheds.length then A s else w'.now

theorem WD.of_same {C : Ctx} {A : Nat → Int} {w w' : World} (h : WD C A w)
    (g : GD C.P A w'.env (tk (noScr w'))) (hi : C01.Inv w'.env) (hs : C20W.Same w w')
    (hta : (tk w').ta = (tk w).ta) : WD C (stepA A w w') w' := by
  refine ⟨g.congrA (fun s hs' => ?_), hi, ?_, hs.started.trans h.started, ?_, ?_, ?_⟩
  · have : s < w.scheds.length := by rw [← hs.scheds_length]; exact hs'
    simp [stepA, this]
  · have := h.reg; unfold C20W.Reg at *; rw [hs]; exact this
  · rw [hs.scripts]; exact h.scr
  · rw [hta]; exact h.tab
  · rw [hs.assets]; exact h.bnd

/-- **One step of the event loop keeps the invariant.** -/
theorem WD.step {C : Ctx} {A : Nat → Int} {w w' : World} {ev : Event} (h : WD C A w)
    (hst : w.step = some (ev, w')) : WD C (stepA A w w') w' ∧ w.scheds.length ≤ w'.scheds.length := by
  obtain ⟨es, he, rfl⟩ := step_cases hst
  have hi1 : C01.Inv (popEnv w.env ev es) :=
    C01.inv_step h.inv (Env.step_some.mpr ⟨es, he, rfl⟩)
  have hsame0 : C20W.Same w ({ w with env := popEnv w.env ev es } : World) := C20W.Same.of_eq rfl
  by_cases ht : tracked ev = true
  · have hown := h.gd.owner (x := ev) (by rw [he]; simp) ht
    rcases hown with ⟨s, hs, h2, _, _⟩ | ⟨s, hs, h2, h3, _, hk, _⟩
    · obtain ⟨_, hcan, _⟩ := ((h.gd.sched s).1 h2).pop he hs false
      have hlive : ev.live = true := by simp [Event.live, hcan]
      have hact : ev.act = 9 + 16 * s := by simpa [suEv] using hs
      rw [if_pos hlive, hact, ofNat_su]
      show WD C _ (({ w with env := popEnv w.env ev es } : World).schedUpdate s true) ∧ _
      have ha := schedUpdate_refines (noScr ({ w with env := popEnv w.env ev es } : World)) s true
        (h.gd.sok.dur_at s)
      rw [show (noScr ({ w with env := popEnv w.env ev es } : World)).schedUpdate s true =
        noScr (({ w with env := popEnv w.env ev es } : World).schedUpdate s true) from
        C03W.es_schedUpdate _ [] _ _] at ha
      have hsame := hsame0.trans (C20W.Same_schedUpdate ({ w with env := popEnv w.env ev es } : World) s true)
      exact ⟨h.of_same (h.gd.sched_adv h.inv he hs ha) (ha.frame.inv hi1) hsame
        (by have := ta_of_sstat ha.frame.sstat; exact this),
        Nat.le_of_eq hsame.scheds_length.symm⟩
    · have hnow : w.env.now ≤ ev.time := h.inv.future ev (by rw [he]; exact List.mem_cons_self)
      obtain ⟨_, hcan, _⟩ := (((h.gd.sens s).1 ⟨h2, h3⟩).1 hk).pop he hs hnow false
      have hlive : ev.live = true := by simp [Event.live, hcan]
      have hact : ev.act = 10 + 16 * s := by simpa [psEv] using hs
      rw [if_pos hlive, hact, ofNat_ps]
      show WD C _ (({ w with env := popEnv w.env ev es } : World).periodicSense s) ∧ _
      have ha := periodicSense_refines (noScr ({ w with env := popEnv w.env ev es } : World)) s
        (h.gd.sok.ivl_at s hk)
      rw [show (noScr ({ w with env := popEnv w.env ev es } : World)).periodicSense s =
        noScr (({ w with env := popEnv w.env ev es } : World).periodicSense s) from
        C03W.es_periodicSense _ [] _] at ha
      have hsame := hsame0.trans (C20W.Same_periodicSense ({ w with env := popEnv w.env ev es } : World) s)
      exact ⟨h.of_same (h.gd.sense_adv h.inv he hs (by rw [List.length_map]; rfl) ha) (ha.frame.inv hi1)
        hsame (by have := ta_of_sstat ha.frame.sstat; exact this), Nat.le_of_eq hsame.scheds_length.symm⟩
  · have ht' : tracked ev = false := by simpa using ht
    have h1 : WD C A ({ w with env := popEnv w.env ev es } : World) :=
      ⟨h.gd.pop_untracked h.inv he ht', hi1, h.reg, h.started, h.scr, h.tab, h.bnd⟩
    split
    · obtain ⟨g, n, l⟩ := FrD_exec (C := C) _ _ (isTrackedAct_ofNat ht') A h1
      refine ⟨?_, l⟩
      have : stepA A w (({ w with env := popEnv w.env ev es } : World).exec (Action.ofNat ev.act)) =
          ext A ({ w with env := popEnv w.env ev es } : World) := by
        funext s
        simp only [stepA, ext, n]
      rw [this]; exact g
    · exact ⟨h1.congrA (fun s hs => by simp [stepA] at hs ⊢; intro hc; omega), Nat.le_refl _⟩

/-- the anchors after the loop of `Environment.run` -/
def runA : Nat → (Nat → Int) → World → (Nat → Int)
  | 0, A, _ => A
  | f + 1, A, w =>
    if w.env.running then
      match w.step with
      | none => A
      | some (_, w') => runA f (stepA A w w') w'
    else A

theorem WD.runLoop {C : Ctx} (n : Nat) : ∀ {A : Nat → Int} {w : World}, WD C A w →
    WD C (runA n A w) (runLoop n w) ∧ (∀ s, s < w.scheds.length → runA n A w s = A s) ∧
    w.scheds.length ≤ (runLoop n w).scheds.length := by
  induction n with
  | zero =>
    intro A w h
    obtain ⟨g, _, l⟩ := FrD_setErr (C := C) w "fuel" A h
    exact ⟨g.congrA (fun s hs => by
      have : s < w.scheds.length := by
        have e : (w.setErr "fuel").scheds.length = w.scheds.length :=
          (C20W.Same.of_eq (C20W.RK_setErr w "fuel")).scheds_length
        rw [← e]; exact hs
      simp [runA, ext, this]), fun _ _ => rfl, l⟩
  | succ n ih =>
    intro A w h
    rw [World.runLoop, runA]
    split
    · cases hst : w.step with
      | none => exact ⟨h, fun _ _ => rfl, Nat.le_refl _⟩
      | some q =>
        obtain ⟨e, w'⟩ := q
        obtain ⟨g, l⟩ := h.step hst
        obtain ⟨g2, a2, l2⟩ := ih g
        refine ⟨g2, fun s hs => ?_, Nat.le_trans l l2⟩
        show runA n (stepA A w w') w' s = A s
        rw [a2 s (by omega)]
        simp [stepA, hs]
    · exact ⟨h, fun _ _ => rfl, Nat.le_refl _⟩

theorem WD.runBegin {C : Ctx} {A : Nat → Int} {w : World} (h : WD C A w) (d : Int) :
    WD C A (w.runBegin d).1 := by
  have hsame := C20W.Same_runBegin w d
  have key : GD C.P A (w.runBegin d).1.env (tk (noScr (w.runBegin d).1)) ∧ C01.Inv (w.runBegin d).1.env ∧
      (tk (w.runBegin d).1).ta = (tk w).ta := by
    unfold World.runBegin
    dsimp only
    split
    · exact ⟨h.gd, h.inv, rfl⟩
    · rename_i e hs
      unfold Env.runBegin at hs
      obtain ⟨_, rfl⟩ := Env.schedule_some.mp hs
      have hinv : C01.Inv (Env.withEvent { w.env with terminated := false } (Arith.exact.add w.env.now d)
          (-1) terminateAct prioTerminate
          (weightOf w.seed w.wmod (w.env.now + d) (-1) terminateAct pTerminate)) :=
        C01.inv_runBegin Arith.exact h.inv (by unfold Env.runBegin; exact hs)
      refine ⟨h.gd.env ?_ rfl (Int.le_refl _), hinv, rfl⟩
      exact C06W.filter_insort_neg _ _ _ rfl
  exact (h.of_same key.1 key.2.1 hsame key.2.2).congrA (fun s hs => by
    have : s < w.scheds.length := by rw [← hsame.scheds_length]; exact hs
    simp [stepA, this])

/-- outside operations of the dynamic class -/
theorem WD.applyOps {C : Ctx} {A : Nat → Int} {w : World} (h : WD C A w) (ops : List Op)
    (hops : ∀ op ∈ ops, opD C.ta0 C.bound op = true) :
    WD C (ext A w) (w.applyOps ops) ∧ (w.applyOps ops).now = w.now ∧
    w.scheds.length ≤ (w.applyOps ops).scheds.length := FrD_applyOps w ops hops A h

/-! ### initialisation -/

/-- the context of a world -/
def ctxOf (w0 : World) : Ctx := ⟨⟨w0.now, w0.assets⟩, (tk w0).ta, w0.assets.length⟩

theorem fresh_noScr {w : World} (hf : C18W.Fresh w) : C18W.Fresh (noScr w) :=
  ⟨hf.notStarted, hf.queue, hf.noTracked, hf.idx, hf.unreg, hf.noFin, hf.recs, hf.results⟩

theorem wd_init {w0 : World} (hs : C18W.Static (noScr w0)) (hf : C18W.Fresh w0) (hr : C20W.Reg w0)
    (hscr : ∀ l ∈ w0.scripts, ∀ op ∈ l, opD (tk w0).ta w0.assets.length op = true) :
    WD (ctxOf w0) (fun _ => w0.now) w0.simulateInit := by
  have hg := ginit_simulateInit hs (fresh_noScr hf)
  rw [show (noScr w0).simulateInit = noScr w0.simulateInit from C03W.es_simulateInit w0 []] at hg
  have hl := hg.lengths
  have hlen : w0.simulateInit.scheds.length = w0.scheds.length := by
    have := hl.1
    simp only [sstat, List.length_map] at this
    exact this
  have hscripts : w0.simulateInit.scripts = w0.scripts := by
    have := C03W.es_simulateInit w0 w0.scripts
    rw [es_self] at this
    rw [this]; rfl
  have hassets : w0.simulateInit.assets = w0.assets := by
    have := congrArg C20W.RKey.assets (C20W.RK_simulateInit w0 hf.notStarted)
    simpa [C20W.RK] using this
  refine ⟨GD.of_gi hg.gi (fun s hs' => ?_), hg.inv, C20W.reg_simulateInit w0 hr,
    C20W.simulateInit_started w0, ?_, ?_, ?_⟩
  · exact C20W.sched_registered hr s (by rw [← hlen]; exact hs')
  · rw [hscripts]; exact hscr
  · intro a ha
    left
    have := ta_of_sstat hg.ss
    have e : (tk w0.simulateInit).ta = (tk w0).ta := this
    rw [e] at ha
    exact ha
  · rw [hassets]; exact Nat.le_refl _

end C18D
end SimProc
