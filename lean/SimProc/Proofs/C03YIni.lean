/-
C03W with re-wiring — "every device has been initialised".

`rewire` tells a new upstream neighbour that there is space downstream only if that neighbour has
been initialised (`set_upstream` of the Python code: `if self._env is not None`).  In every world
reached after `simulateInit` from a world that satisfies the registration invariant `C20W.Reg`
(every device is registered, …) every device is initialised (`Ini`).  Worlds whose scripts do not
re-wire need nothing of the kind (`NR`).  `IOK w := NR w ∨ Ini w` is preserved by every step
(`IStep`: scripts unchanged, registration invariant kept — the lemmas `Pv_*` of `C20WWorld`).
-/
import SimProc.Proofs.C03WDefs
import SimProc.Proofs.C20WWorld
import SimProc.Proofs.WorldExec

namespace SimProc
namespace C03W
open World C20W

/-- registered and started: every device has been initialised -/
def Ini (w : World) : Prop := C20W.Reg w ∧ w.started = true

theorem Ini.inited {w : World} (h : Ini w) {z : Nat} (hz : z < w.devs.length) :
    (w.dev z).inited = true := by
  have hc : AssetRef.dev z ∈ w.assets :=
    h.1.complete _ (by simp [RKey.valid, RK, hz]) rfl
  have := h.1.flag _ hc (w.dev z).inited
    (by simp [RKey.flagOf, RK, World.dev, dk, List.getD_eq_getElem?_getD, hz])
  rw [this]
  exact h.2

/-- no script re-wires, or every device has been initialised -/
def IOK (w : World) : Prop := NR w ∨ Ini w

/-- a step that keeps the scripts and the registration invariant -/
structure IStep (w w' : World) : Prop where
  scr : w'.scripts = w.scripts
  pv : Pv w w'

theorem IStep.refl (w : World) : IStep w w := ⟨rfl, Pv.refl w⟩

theorem IStep.trans {a b c : World} (h1 : IStep a b) (h2 : IStep b c) : IStep a c :=
  ⟨h2.scr.trans h1.scr, h1.pv.trans h2.pv⟩

theorem IStep.of_same {w w' : World} (h : Same w w') : IStep w w' := ⟨h.scripts, Pv.of_same h⟩

theorem NR.of_scripts {w w' : World} (h : NR w) (e : w'.scripts = w.scripts) : NR w' := by
  unfold NR; rw [e]; exact h

theorem IOK.step {w w' : World} (h : IOK w) (r : IStep w w') : IOK w' := by
  rcases h with h | h
  · exact Or.inl (h.of_scripts r.scr)
  · obtain ⟨h1, h2, _⟩ := r.pv h.1
    exact Or.inr ⟨h1, h2.trans h.2⟩

theorem Ini.step {w w' : World} (h : Ini w) (r : IStep w w') : Ini w' := by
  obtain ⟨h1, h2, _⟩ := r.pv h.1
  exact ⟨h1, h2.trans h.2⟩

/-- what `rewire` needs: the operation is not a re-wiring, or every device is initialised -/
theorem IOK.inited {w : World} (h : IOK w) {x : Nat} {ups : List Nat}
    (hm : ∃ l ∈ w.scripts, Op.rewire x ups ∈ l) {z : Nat} (hz : z < w.devs.length) :
    (w.dev z).inited = true := by
  rcases h with h | h
  · obtain ⟨l, hl, hop⟩ := hm
    exact absurd rfl ((h l hl _ hop).1 x ups)
  · exact h.inited hz

theorem opFresh_of_not_create {op : Op} (h : ∀ sp, op ≠ .create sp) : opFresh op = true := by
  cases op <;> first | rfl | exact absurd rfl (h _)

theorem istep_applyOp (w : World) (op : Op) (h : ∀ sp, op ≠ .create sp) :
    IStep w ((w.applyOp op).1.addRes (w.applyOp op).2) :=
  ⟨C02V.scr_applyOp w op, (Pv_applyOp w op (opFresh_of_not_create h)).trans (Pv.of_same rfl)⟩

theorem istep_addRes (w : World) (r : Res) : IStep w (w.addRes r) := .of_same rfl
theorem istep_addRec (w : World) (r : Rec) : IStep w (w.addRec r) := .of_same rfl
theorem istep_modMaint (w : World) (m : Nat) (f : Maint → Maint) : IStep w (w.modMaint m f) := by
  refine ⟨rfl, ?_⟩
  unfold World.modMaint
  pv_auto

theorem istep_env (w : World) (env' : Env) : IStep w { w with env := env' } := .of_same rfl

theorem istep_scanStep (w : World) (cb : Cb) (req : Req) (i : Nat) :
    IStep w (scanOps.erase (scanOps.call w cb req) i) := by
  constructor
  · cases cb with
    | script k => exact (C02V.scr_runScript _ k)
    | proc d => exact C02V.scr_procResourceCb w d
  · unfold scanOps
    dsimp only
    pv_auto

theorem istep_hookEnd (w : World) (tgt : Nat) (tag : Int) : IStep w (w.hookEnd tgt tag) :=
  ⟨C02V.scr_hookEnd w tgt tag, Pv_hookEnd w tgt tag⟩

theorem istep_exec (w : World) (a : Action) : IStep w (w.exec a) :=
  ⟨C02V.scr_exec w a, Pv_exec w a⟩

theorem istep_step {w w' : World} {e : Event} (h : w.step = some (e, w')) : IStep w w' := by
  refine ⟨?_, Pv_step h⟩
  unfold World.step at h
  split at h
  · cases h
  · rename_i e0 env' hs
    cases h
    split
    · exact C02V.scr_exec _ _
    · rfl

theorem istep_runLoop (n : Nat) : ∀ w : World, IStep w (runLoop n w) := by
  induction n with
  | zero => intro w; exact ⟨C02V.scr_setErr .., Pv_runLoop 0 w⟩
  | succ n ih =>
    intro w
    rw [runLoop]
    split
    · split
      · exact .refl w
      · rename_i hs
        exact (istep_step hs).trans (ih _)
    · exact .refl w

theorem istep_runBegin (w : World) (d : Int) : IStep w (w.runBegin d).1 :=
  .of_same (Same_runBegin w d)

theorem ini_simulateInit {w : World} (h : C20W.Reg w) : Ini w.simulateInit := by
  refine ⟨reg_simulateInit w h, ?_⟩
  unfold World.simulateInit
  split
  · next hs => exact hs
  · rfl

end C03W
end SimProc
