/-
C19D — machinery, part 2: the world invariant `WS C B w` (sensor anchors `B`), the relation
`FrS C w w'` ("`w'` keeps the invariant of `w`, the anchors of the existing sensors are kept, sensors
appended meanwhile are anchored at the clock") and `FrS C w (f w)` for every function that can run
inside an event action, `create (.sensor …)` of a periodic sensor included.

Method (that of `Proofs/C18DWorld.lean`): the frame lemmas `Fr` of C18W are applied to the twin
world WITHOUT scripts (`noScr w`); the registry facts are those of C20W (`Reg`, `Pv`, `Same`).
-/
import SimProc.Proofs.C19DInv
import SimProc.Proofs.C18DWorld

namespace SimProc
namespace C19D
open World FloorCoreL C18W C19W
open C03W (es noScr)
open C18D (Ctx idOK es_self applyOp_scripts reg_dev_aid_le fresh_noScr ctxOf)

/-! ### the class of operations -/

/-- **`sensNew`**: the payload of a sensor constructed while running — a PERIODIC sensor, interval
not negative, not yet registered (what the constructor produces).  Its stored series need not be
empty: initialisation resets them.  The asset id is the one the registry hands out. -/
def sensNew (sw : SensorW) : Bool :=
  (sw.s.kind == .periodic) && decide (0 ≤ sw.s.interval) && !sw.registered

/-- Operations of the dynamic class: as in C18W, plus constructor calls for periodic sensors
(`sensNew`), maintainers and cms. -/
def opDS (ta0 : List Int) (bound : Nat) : Op → Bool
  | .pause a => idOK ta0 bound a
  | .unpause a => idOK ta0 bound a
  | .cancel a => idOK ta0 bound a
  | .create (.sensor sw) => sensNew sw
  | .create (.maint _ _) => true
  | .create .cms => true
  | .create _ => false
  | _ => true

/-- **The world invariant.** -/
structure WS (C : Ctx) (B : Nat → Int) (w : World) : Prop where
  gs : GS C.P B w.env (tk (noScr w))
  inv : C01.Inv w.env
  reg : C20W.Reg w
  started : w.started = true
  scr : ∀ l ∈ w.scripts, ∀ op ∈ l, opDS C.ta0 C.bound op = true
  tab : ∀ a ∈ (tk w).ta, a ∈ C.ta0 ∨ (C.bound : Int) < a
  bnd : C.bound ≤ w.assets.length

/-- the anchors after something happened in `w`: existing sensors keep theirs, new ones are
anchored at the clock -/
def extB (B : Nat → Int) (w : World) : Nat → Int := fun s => if s < w.sensors.length then B s else w.now

def FrS (C : Ctx) (w w' : World) : Prop :=
  ∀ B, WS C B w → WS C (extB B w) w' ∧ w'.now = w.now ∧ w.sensors.length ≤ w'.sensors.length

theorem WS.congrB {C : Ctx} {B B' : Nat → Int} {w : World} (h : WS C B w)
    (hB : ∀ s, s < w.sensors.length → B' s = B s) : WS C B' w :=
  ⟨h.gs.congrB hB, h.inv, h.reg, h.started, h.scr, h.tab, h.bnd⟩

theorem FrS.refl (C : Ctx) (w : World) : FrS C w w := fun B h =>
  ⟨h.congrB (fun s hs => by simp [extB, hs]), rfl, Nat.le_refl _⟩

theorem extB_extB (B : Nat → Int) {w w1 : World} (hn : w1.now = w.now)
    (hl : w.sensors.length ≤ w1.sensors.length) : extB (extB B w) w1 = extB B w := by
  funext s
  unfold extB
  by_cases h1 : s < w1.sensors.length
  · simp [h1]
  · have h2 : ¬ s < w.sensors.length := by omega
    simp [h1, h2, hn]

theorem FrS.trans {C : Ctx} {a b c : World} (h1 : FrS C a b) (h2 : FrS C b c) : FrS C a c := by
  intro B h
  obtain ⟨g1, n1, l1⟩ := h1 B h
  obtain ⟨g2, n2, l2⟩ := h2 _ g1
  rw [extB_extB B n1 l1] at g2
  exact ⟨g2, n2.trans n1, Nat.le_trans l1 l2⟩

theorem FrS.with {C : Ctx} {w w' : World} (h : ∀ B, WS C B w → FrS C w w') : FrS C w w' :=
  fun B hw => h B hw B hw

/-- A frame of the script-less twin that keeps the registry invariant and the scripts. -/
theorem FrS.prim {C : Ctx} {w w' : World} (h1 : Fr (noScr w) (noScr w')) (h2 : C20W.Pv w w')
    (h3 : w'.scripts = w.scripts) : FrS C w w' := by
  intro B hw
  obtain ⟨g, i, n, l, t⟩ := GS.fr (w := noScr w) (w' := noScr w') hw.gs hw.inv h1
  obtain ⟨r, st, pf⟩ := h2 hw.reg
  have l' : w'.sensors.length = w.sensors.length := l
  refine ⟨⟨g.congrB (fun s hs => ?_), i, r, st.trans hw.started, ?_, ?_, ?_⟩, n, Nat.le_of_eq l'.symm⟩
  · have : s < w.sensors.length := by rw [← l']; exact hs
    simp [extB, this]
  · rw [h3]; exact hw.scr
  · intro a ha
    have t' : (tk w').ta = (tk w).ta := t
    rw [t'] at ha
    exact hw.tab a ha
  · exact Nat.le_trans hw.bnd pf.length_le

theorem FrS.same {C : Ctx} {w w' : World} (h1 : Fr (noScr w) (noScr w')) (h2 : C20W.Same w w') :
    FrS C w w' := FrS.prim h1 (C20W.Pv.of_same h2) h2.scripts

/-- Functions that are blind to the scripts. -/
theorem FrS.blind {C : Ctx} {f : World → World} (hb : ∀ w s, f (es w s) = es (f w) s)
    (hf : ∀ w, Fr w (f w)) (hs : ∀ w, C20W.Same w (f w)) (w : World) : FrS C w (f w) := by
  refine FrS.same ?_ (hs w)
  show Fr (es w []) (es (f w) [])
  rw [← hb]
  exact hf _

/-! ### primitives -/

theorem FrS_addRes {C : Ctx} (w : World) (r : Res) (h : trackedRes r = false) : FrS C w (w.addRes r) :=
  FrS.same (Fr.of_view (view_addRes (noScr w) r h)) (C20W.Same.of_eq rfl)

theorem FrS_addRec {C : Ctx} (w : World) (r : Rec) (h : trackedRec r = false) : FrS C w (w.addRec r) :=
  FrS.same (Fr.of_view (view_addRec (noScr w) r h)) (C20W.Same.of_eq rfl)

theorem FrS_setErr {C : Ctx} (w : World) (m : String) : FrS C w (w.setErr m) :=
  FrS.blind (fun w s => C03W.es_setErr w s m) (fun w => Fr.of_view (view_setErr w m))
    (fun w => C20W.Same.of_eq (C20W.RK_setErr w m)) w

theorem FrS_modMaint {C : Ctx} (w : World) (m : Nat) (f : Maint → Maint) : FrS C w (w.modMaint m f) :=
  FrS.same (Fr.of_view rfl) (C20W.Same.of_eq (by
    unfold modMaint
    exact C20W.RK_setMaint w m _ rfl))

theorem FrS_schedLib {C : Ctx} (w : World) (t a : Int) (act : Action) (p : Int)
    (h : isTrackedAct act = false) : FrS C w (w.schedLib t a act p) :=
  FrS.blind (fun w s => C03W.es_schedLib w s t a act p) (fun w => Fr_schedLib w t a act p h)
    (fun w => C20W.Same.of_eq (C20W.RK_schedLib w t a act p)) w

theorem FrS_startOrders {C : Ctx} (w : World) (m : Nat) (st : List Order) :
    FrS C w (w.startOrders m st) :=
  FrS.blind (fun w s => C03W.es_startOrders w s m st) (fun w => Fr_startOrders w m st)
    (fun w => C20W.Same_startOrders w m st) w

theorem FrS_shutdownDev {C : Ctx} (w : World) (x : Nat) (f : Bool) (lost : Option Nat) :
    FrS C w (w.shutdownDev x f lost) :=
  FrS.blind (fun w s => C03W.es_shutdownDev w s x f lost) (fun w => Fr_shutdownDev w x f lost)
    (fun w => C20W.Same_shutdownDev w x f lost) w

theorem FrS_restoreDev {C : Ctx} (w : World) (x : Nat) : FrS C w (w.restoreDev x) :=
  FrS.blind (fun w s => C03W.es_restoreDev w s x) (fun w => Fr_restoreDev w x)
    (fun w => C20W.Same_restoreDev w x) w

/-! ### scripted operations -/

theorem not_mem_ta {C : Ctx} {B : Nat → Int} {w : World} (hw : WS C B w) {a : Int}
    (h : idOK C.ta0 C.bound a = true) : (!(tk (noScr w)).ta.contains a) = true := by
  simp only [idOK, Bool.and_eq_true, Bool.not_eq_true', decide_eq_true_eq] at h
  simp only [Bool.not_eq_true', List.contains_eq_mem, decide_eq_false_iff_not]
  intro hm
  rcases hw.tab a hm with h1 | h1
  · have : C.ta0.contains a = true := by simpa using h1
    rw [h.1] at this; cases this
  · omega

theorem FrS_applyOp_nc {C : Ctx} (w : World) (op : Op) (h : opDS C.ta0 C.bound op = true)
    (hnc : ∀ sp, op ≠ .create sp) : FrS C w (w.applyOp op).1 := by
  refine FrS.with fun B hw => ?_
  have hok : opOK (tk (noScr w)).ta op = true := by
    cases op
    case pause a => exact not_mem_ta hw h
    case unpause a => exact not_mem_ta hw h
    case cancel a => exact not_mem_ta hw h
    case create sp => exact absurd rfl (hnc sp)
    all_goals rfl
  have hfresh : C20W.opFresh op = true := by
    cases op
    case create sp => exact absurd rfl (hnc sp)
    all_goals rfl
  refine FrS.prim ?_ (C20W.Pv_applyOp w op hfresh) (applyOp_scripts w op hnc)
  have := Fr_applyOp (es w []) op hok
  rw [C03W.es_applyOp w [] op hnc] at this
  exact this

/-- the sensor a constructor call registers -/
def newSens (w : World) (sw : SensorW) : SensorW := { sw with aid := w.assets.length + 1 }

/-- registration of a sensor -/
def regSens (w : World) (x : SensorW) : World :=
  { w with sensors := w.sensors ++ [x], assets := w.assets ++ [AssetRef.sensor w.sensors.length] }

theorem addSens_eq (w : World) (sw : SensorW) (hst : w.started = true) :
    w.addAsset (.sensor sw) = (regSens w (newSens w sw)).initAsset (.sensor w.sensors.length) := by
  unfold addAsset
  dsimp only
  split
  · rfl
  · rename_i hc; exact absurd hst hc

theorem initAsset_scripts (w : World) (a : AssetRef) : (w.initAsset a).scripts = w.scripts := by
  have := C03W.es_initAsset w w.scripts a
  rw [es_self] at this
  rw [this]
  rfl

/-- **A periodic sensor constructed while the simulation runs**: the invariant is kept, the new
sensor is anchored at the clock. -/
theorem FrS_createSens {C : Ctx} (w : World) (sw : SensorW) (h : sensNew sw = true) :
    FrS C w (w.addAsset (.sensor sw)) := by
  intro B hw
  simp only [sensNew, Bool.and_eq_true, beq_iff_eq, decide_eq_true_eq, Bool.not_eq_true'] at h
  obtain ⟨⟨hkind, hivl⟩, hreg⟩ := h
  have hpv := C20W.Pv_addAsset w (.sensor sw) (by simp [C20W.specFresh, hreg]) hw.reg
  rw [addSens_eq w sw hw.started] at hpv ⊢
  obtain ⟨x, hx⟩ : ∃ x, x = newSens w sw := ⟨_, rfl⟩
  rw [← hx] at hpv ⊢
  obtain ⟨w1, hw1⟩ : ∃ w1, regSens w x = w1 := ⟨_, rfl⟩
  rw [hw1] at hpv ⊢
  have hx : newSens w sw = x := hx.symm
  have htk : tk (noScr w1) = pushN (tk (noScr w)) x := by subst hw1; rfl
  have henv : w1.env = w.env := by subst hw1; rfl
  have hxk : x.s.kind = .periodic := by subst hx; exact hkind
  have hxi : 0 ≤ x.s.interval := by subst hx; exact hivl
  have hxr : x.registered = false := by subst hx; exact hreg
  have haid : x.aid ≠ 0 ∧ ∀ k ∈ (tk (noScr w)).dk, k.1 ≠ x.aid := by
    subst hx
    refine ⟨by show (w.assets.length : Int) + 1 ≠ 0; omega, fun k hk => ?_⟩
    obtain ⟨d, hd, rfl⟩ := List.mem_map.mp hk
    have := reg_dev_aid_le hw.reg d hd
    show d.aid ≠ (w.assets.length : Int) + 1
    omega
  obtain ⟨p1, p2, p3, p4, p5⟩ := hw.gs.push x hxr (fun _ => hxi) haid rfl
  have hi : w.sensors.length < (pushN (tk (noScr w)) x).sensors.length := by
    show w.sensors.length < (w.sensors ++ [x]).length
    simp
  have hgetx : (pushN (tk (noScr w)) x).sensors.getD w.sensors.length default = x :=
    getD_append_singleton _ _ _
  have ha := initSensor_refines (noScr w1) w.sensors.length (by
    intro _
    have : (noScr w1).sensors.getD w.sensors.length default = x := by
      have := hgetx; rw [← htk] at this; exact this
    rw [this]; exact hxi)
  have hes : (noScr w1).initAsset (.sensor w.sensors.length) =
      noScr (w1.initAsset (.sensor w.sensors.length)) := C03W.es_initAsset w1 [] _
  rw [hes, htk] at ha
  have henv' : (noScr w1).env = w.env := henv
  rw [henv'] at ha
  have hgs : GS C.P (extB B w) (w1.initAsset (.sensor w.sensors.length)).env
      (tk (noScr (w1.initAsset (.sensor w.sensors.length)))) := by
    refine GS.sens_start p1 p2 (fun s hne => ?_) p4 hi (by
      show ((pushN (tk (noScr w)) x).sensors.getD w.sensors.length default).s.kind = _
      rw [hgetx]; exact hxk) p5 (by
      show (if w.sensors.length < w.sensors.length then _ else _) = _
      rw [if_neg (Nat.lt_irrefl _)]; rfl) ha
    have := p3 s hne
    unfold SensD at this ⊢
    refine ⟨fun hc => ?_, this.2⟩
    have hlt : s < w.sensors.length := by
      have : s < (w.sensors ++ [x]).length := hc
      have hne' : s ≠ w.sensors.length := hne
      simp at this
      omega
    simp only [extB, hlt, if_true]
    exact this.1 hc
  have hfr := ha.frame
  have hlen : (w1.initAsset (.sensor w.sensors.length)).sensors.length = w.sensors.length + 1 := by
    have := (lengths_of_sstat hfr.sstat).2.1
    have e : (w1.initAsset (.sensor w.sensors.length)).sensors.length =
        (pushN (tk (noScr w)) x).sensors.length := this
    rw [e]
    show (w.sensors ++ [x]).length = _
    simp
  refine ⟨⟨hgs, hfr.inv hw.inv, hpv.1, hpv.2.1.trans hw.started, ?_, ?_, ?_⟩, hfr.now, ?_⟩
  · rw [initAsset_scripts]; subst hw1; exact hw.scr
  · intro a ha'
    have e1 : (tk (w1.initAsset (.sensor w.sensors.length))).ta = (pushN (tk (noScr w)) x).ta := by
      have := ta_of_sstat hfr.sstat
      exact this
    rw [e1] at ha'
    have : a ∈ (tk w).ta ∨ a = x.aid := by
      simp only [TK.ta, pushN, List.map_append, List.mem_append, List.mem_map, List.map_cons,
        List.map_nil, List.mem_singleton] at ha' ⊢
      rcases ha' with ha' | ha' | ha'
      · exact Or.inl (Or.inl ha')
      · exact Or.inl (Or.inr ha')
      · exact Or.inr ha'
    rcases this with hm | rfl
    · exact hw.tab a hm
    · right
      subst hx
      have := hw.bnd
      show (C.bound : Int) < (w.assets.length : Int) + 1
      omega
  · exact Nat.le_trans hw.bnd hpv.2.2.length_le
  · rw [hlen]; omega

theorem FrS_applyOp {C : Ctx} (w : World) (op : Op) (h : opDS C.ta0 C.bound op = true) :
    FrS C w (w.applyOp op).1 := by
  by_cases hnc : ∀ sp, op ≠ .create sp
  · exact FrS_applyOp_nc w op h hnc
  · have : ∃ sp, op = .create sp := by
      cases op
      case create sp => exact ⟨sp, rfl⟩
      all_goals exact absurd (fun sp he => by cases he) hnc
    obtain ⟨sp, rfl⟩ := this
    show FrS C w (w.addAsset sp)
    cases sp with
    | sensor sw => exact FrS_createSens w sw h
    | maint cap v =>
      refine FrS.prim (Fr.of_view ?_) (C20W.Pv_addAsset w _ rfl) ?_
      · unfold addAsset; dsimp only; split <;> rfl
      · unfold addAsset; dsimp only; split <;> rfl
    | cms => exact FrS.prim (Fr.of_view rfl) (C20W.Pv_addAsset w _ rfl) rfl
    | dev d => cases h
    | group g a b c => cases h
    | sched tt cyc => cases h

theorem FrS_applyOps {C : Ctx} (w : World) (ops : List Op) (h : ∀ op ∈ ops, opDS C.ta0 C.bound op = true) :
    FrS C w (w.applyOps ops) := by
  unfold applyOps
  induction ops generalizing w with
  | nil => exact FrS.refl C w
  | cons op ops ih =>
    rw [List.foldl_cons]
    refine ((FrS_applyOp w op (h op List.mem_cons_self)).trans
      (FrS_addRes _ _ (applyOp_res w op))).trans (ih _ (fun o ho => h o (List.mem_cons_of_mem _ ho)))

theorem FrS_runScript {C : Ctx} (w : World) (k : Nat) : FrS C w (w.runScript k) := by
  refine FrS.with fun B hw => ?_
  unfold runScript
  refine FrS_applyOps _ _ ?_
  intro op hop
  obtain ⟨s, hs, hm⟩ := C18W.mem_getD_nil hop
  exact hw.scr s hs op hm

/-! ### resource check, maintainer events, `exec` -/

theorem FrS_scanWaiting {C : Ctx} (n : Nat) (w : World) (i : Nat) : FrS C w (scanWaiting scanOps n w i) := by
  induction n generalizing w i with
  | zero => exact FrS.refl C _
  | succ n ih =>
    rw [scanWaiting]
    split
    · exact FrS.refl C _
    · split
      · refine FrS.trans ?_ (ih _ _)
        show FrS C w (scanOps.erase (scanOps.call w _ _) i)
        have herase : ∀ w : World, FrS C w (scanOps.erase w i) := fun w =>
          FrS.same (Fr.of_view rfl) (C20W.Same.of_eq rfl)
        refine FrS.trans ?_ (herase _)
        unfold scanOps
        dsimp only
        split
        · exact (FrS_addRes _ _ rfl).trans (FrS_runScript _ _)
        · exact FrS.blind (fun w s => C03W.es_procResourceCb w s _) (fun w => Fr_procResourceCb w _)
            (fun w => C20W.Same_procResourceCb w _) w
      · exact ih _ _

theorem FrS_rmCheck {C : Ctx} (w : World) : FrS C w w.rmCheck := FrS_scanWaiting _ _ _

theorem FrS_hookStart {C : Ctx} (w : World) (tgt : Nat) (tag : Int) : FrS C w (w.hookStart tgt tag) := by
  unfold hookStart
  dsimp only
  refine FrS.trans (FrS_addRes w (.hook true tgt tag) rfl) ?_
  split
  · exact FrS_shutdownDev _ _ _ _
  · split
    · exact FrS_runScript _ _
    · exact FrS.refl C _

theorem FrS_hookEnd {C : Ctx} (w : World) (tgt : Nat) (tag : Int) : FrS C w (w.hookEnd tgt tag) := by
  unfold hookEnd
  dsimp only
  refine FrS.trans (FrS_addRes w (.hook false tgt tag) rfl) ?_
  split
  · exact FrS_restoreDev _ _
  · split
    · exact FrS_runScript _ _
    · exact FrS.refl C _

theorem FrS_startWork {C : Ctx} (w : World) (m seq : Nat) : FrS C w (w.startWork m seq) := by
  unfold startWork
  split
  · exact FrS_setErr _ _
  · dsimp only
    exact (((FrS_addRec w _ rfl).trans (FrS_modMaint _ _ _)).trans (FrS_hookStart _ _ _)).trans
      (FrS_schedLib _ _ _ _ _ rfl)

theorem FrS_finishWork {C : Ctx} (w : World) (m seq : Nat) : FrS C w (w.finishWork m seq) := by
  unfold finishWork
  split
  · exact FrS_setErr _ _
  · dsimp only
    exact ((((FrS_hookEnd w _ _).trans (FrS_modMaint _ _ _)).trans (FrS_addRec _ _ rfl)).trans
      (FrS_modMaint _ _ _)).trans (FrS_startOrders _ _ _)

/-- The action of every event other than a scheduler transition / a periodic measurement. -/
theorem FrS_exec {C : Ctx} (w : World) (a : Action) (h : isTrackedAct a = false) : FrS C w (w.exec a) := by
  unfold exec
  split
  · exact FrS.refl C _
  · exact FrS_runScript _ _
  · exact FrS.blind (fun w s => C03W.es_finishCycle w s _) (fun w => Fr_finishCycle w _)
      (fun w => C20W.Same_finishCycle w _) w
  · exact FrS.blind (fun w s => C03W.es_passPart w s _) (fun w => Fr_passPart w _)
      (fun w => C20W.Same_passPart w _) w
  · exact FrS.blind (fun w s => C03W.es_failDev w s _) (fun w => Fr_failDev w _)
      (fun w => C20W.Same_failDev w _) w
  · exact FrS.blind (fun w s => C03W.es_releaseIfIdle w s _) (fun w => Fr_releaseIfIdle w _)
      (fun w => C20W.Same_releaseIfIdle w _) w
  · exact FrS_rmCheck _
  · exact FrS_startWork _ _ _
  · exact FrS_finishWork _ _ _
  · cases h
  · cases h
  · exact FrS_setErr _ _

/-! ### the event loop -/

/-- the anchors after a step `w → w'`: sensors constructed during the step are anchored at the
time of the step -/
def stepB (B : Nat → Int) (w w' : World) : Nat → Int :=
  fun s => if s < w.sensors.length then B s else w'.now

theorem WS.of_same {C : Ctx} {B : Nat → Int} {w w' : World} (h : WS C B w)
    (g : GS C.P B w'.env (tk (noScr w'))) (hi : C01.Inv w'.env) (hs : C20W.Same w w')
    (hta : (tk w').ta = (tk w).ta) : WS C (stepB B w w') w' := by
  refine ⟨g.congrB (fun s hs' => ?_), hi, ?_, hs.started.trans h.started, ?_, ?_, ?_⟩
  · have : s < w.sensors.length := by rw [← hs.sensors_length]; exact hs'
    simp [stepB, this]
  · have := h.reg; unfold C20W.Reg at *; rw [hs]; exact this
  · rw [hs.scripts]; exact h.scr
  · rw [hta]; exact h.tab
  · rw [hs.assets]; exact h.bnd

/-- **One step of the event loop keeps the invariant.** -/
theorem WS.step {C : Ctx} {B : Nat → Int} {w w' : World} {ev : Event} (h : WS C B w)
    (hst : w.step = some (ev, w')) : WS C (stepB B w w') w' ∧ w.sensors.length ≤ w'.sensors.length := by
  obtain ⟨es, he, rfl⟩ := step_cases hst
  have hi1 : C01.Inv (popEnv w.env ev es) :=
    C01.inv_step h.inv (Env.step_some.mpr ⟨es, he, rfl⟩)
  have hsame0 : C20W.Same w ({ w with env := popEnv w.env ev es } : World) := C20W.Same.of_eq rfl
  by_cases ht : tracked ev = true
  · have hown := h.gs.owner (x := ev) (by rw [he]; simp) ht
    rcases hown with ⟨s, hs, h2, h3, _, _⟩ | ⟨s, hs, h2, _, hk, _⟩
    · obtain ⟨_, hcan, _⟩ := ((h.gs.sched s).1 ⟨h2, h3⟩).pop he hs false
      have hlive : ev.live = true := by simp [Event.live, hcan]
      have hact : ev.act = 9 + 16 * s := by simpa [suEv] using hs
      rw [if_pos hlive, hact, ofNat_su]
      show WS C _ (({ w with env := popEnv w.env ev es } : World).schedUpdate s true) ∧ _
      have ha := schedUpdate_refines (noScr ({ w with env := popEnv w.env ev es } : World)) s true
        (h.gs.sok.dur_at s)
      rw [show (noScr ({ w with env := popEnv w.env ev es } : World)).schedUpdate s true =
        noScr (({ w with env := popEnv w.env ev es } : World).schedUpdate s true) from
        C03W.es_schedUpdate _ [] _ _] at ha
      have hsame := hsame0.trans (C20W.Same_schedUpdate ({ w with env := popEnv w.env ev es } : World) s true)
      exact ⟨h.of_same (h.gs.sched_adv h.inv he hs ha) (ha.frame.inv hi1) hsame
        (by have := ta_of_sstat ha.frame.sstat; exact this),
        Nat.le_of_eq hsame.sensors_length.symm⟩
    · have hnow : w.env.now ≤ ev.time := h.inv.future ev (by rw [he]; exact List.mem_cons_self)
      obtain ⟨_, hcan, _⟩ := (((h.gs.sens s).1 h2).1 hk).pop he hs hnow false
      have hlive : ev.live = true := by simp [Event.live, hcan]
      have hact : ev.act = 10 + 16 * s := by simpa [psEv] using hs
      rw [if_pos hlive, hact, ofNat_ps]
      show WS C _ (({ w with env := popEnv w.env ev es } : World).periodicSense s) ∧ _
      have ha := periodicSense_refines (noScr ({ w with env := popEnv w.env ev es } : World)) s
        (h.gs.sok.ivl_at s hk)
      rw [show (noScr ({ w with env := popEnv w.env ev es } : World)).periodicSense s =
        noScr (({ w with env := popEnv w.env ev es } : World).periodicSense s) from
        C03W.es_periodicSense _ [] _] at ha
      have hsame := hsame0.trans (C20W.Same_periodicSense ({ w with env := popEnv w.env ev es } : World) s)
      exact ⟨h.of_same (h.gs.sense_adv h.inv he hs (by rw [List.length_map]; rfl) ha) (ha.frame.inv hi1)
        hsame (by have := ta_of_sstat ha.frame.sstat; exact this), Nat.le_of_eq hsame.sensors_length.symm⟩
  · have ht' : tracked ev = false := by simpa using ht
    have h1 : WS C B ({ w with env := popEnv w.env ev es } : World) :=
      ⟨h.gs.pop_untracked h.inv he ht', hi1, h.reg, h.started, h.scr, h.tab, h.bnd⟩
    split
    · obtain ⟨g, n, l⟩ := FrS_exec (C := C) _ _ (isTrackedAct_ofNat ht') B h1
      refine ⟨?_, l⟩
      have : stepB B w (({ w with env := popEnv w.env ev es } : World).exec (Action.ofNat ev.act)) =
          extB B ({ w with env := popEnv w.env ev es } : World) := by
        funext s
        simp only [stepB, extB, n]
      rw [this]; exact g
    · exact ⟨h1.congrB (fun s hs => by simp [stepB] at hs ⊢; intro hc; omega), Nat.le_refl _⟩

/-- the anchors after the loop of `Environment.run` -/
def runB : Nat → (Nat → Int) → World → (Nat → Int)
  | 0, B, _ => B
  | f + 1, B, w =>
    if w.env.running then
      match w.step with
      | none => B
      | some (_, w') => runB f (stepB B w w') w'
    else B

theorem WS.runLoop {C : Ctx} (n : Nat) : ∀ {B : Nat → Int} {w : World}, WS C B w →
    WS C (runB n B w) (runLoop n w) ∧ (∀ s, s < w.sensors.length → runB n B w s = B s) ∧
    w.sensors.length ≤ (runLoop n w).sensors.length := by
  induction n with
  | zero =>
    intro B w h
    obtain ⟨g, _, l⟩ := FrS_setErr (C := C) w "fuel" B h
    exact ⟨g.congrB (fun s hs => by
      have : s < w.sensors.length := by
        have e : (w.setErr "fuel").sensors.length = w.sensors.length :=
          (C20W.Same.of_eq (C20W.RK_setErr w "fuel")).sensors_length
        rw [← e]; exact hs
      simp [runB, extB, this]), fun _ _ => rfl, l⟩
  | succ n ih =>
    intro B w h
    rw [World.runLoop, runB]
    split
    · cases hst : w.step with
      | none => exact ⟨h, fun _ _ => rfl, Nat.le_refl _⟩
      | some q =>
        obtain ⟨e, w'⟩ := q
        obtain ⟨g, l⟩ := h.step hst
        obtain ⟨g2, a2, l2⟩ := ih g
        refine ⟨g2, fun s hs => ?_, Nat.le_trans l l2⟩
        show runB n (stepB B w w') w' s = B s
        rw [a2 s (by omega)]
        simp [stepB, hs]
    · exact ⟨h, fun _ _ => rfl, Nat.le_refl _⟩

theorem WS.runBegin {C : Ctx} {B : Nat → Int} {w : World} (h : WS C B w) (d : Int) :
    WS C B (w.runBegin d).1 := by
  have hsame := C20W.Same_runBegin w d
  have key : GS C.P B (w.runBegin d).1.env (tk (noScr (w.runBegin d).1)) ∧ C01.Inv (w.runBegin d).1.env ∧
      (tk (w.runBegin d).1).ta = (tk w).ta := by
    unfold World.runBegin
    dsimp only
    split
    · exact ⟨h.gs, h.inv, rfl⟩
    · rename_i e hs
      unfold Env.runBegin at hs
      obtain ⟨_, rfl⟩ := Env.schedule_some.mp hs
      have hinv : C01.Inv (Env.withEvent { w.env with terminated := false } (Arith.exact.add w.env.now d)
          (-1) terminateAct prioTerminate
          (weightOf w.seed w.wmod (w.env.now + d) (-1) terminateAct pTerminate)) :=
        C01.inv_runBegin Arith.exact h.inv (by unfold Env.runBegin; exact hs)
      refine ⟨h.gs.env ?_ rfl (Int.le_refl _), hinv, rfl⟩
      exact C06W.filter_insort_neg _ _ _ rfl
  exact (h.of_same key.1 key.2.1 hsame key.2.2).congrB (fun s hs => by
    have : s < w.sensors.length := by rw [← hsame.sensors_length]; exact hs
    simp [stepB, this])

/-- outside operations of the dynamic class -/
theorem WS.applyOps {C : Ctx} {B : Nat → Int} {w : World} (h : WS C B w) (ops : List Op)
    (hops : ∀ op ∈ ops, opDS C.ta0 C.bound op = true) :
    WS C (extB B w) (w.applyOps ops) ∧ (w.applyOps ops).now = w.now ∧
    w.sensors.length ≤ (w.applyOps ops).sensors.length := FrS_applyOps w ops hops B h

/-! ### initialisation -/

theorem ws_init {w0 : World} (hs : C18W.Static (noScr w0)) (hf : C18W.Fresh w0) (hr : C20W.Reg w0)
    (hscr : ∀ l ∈ w0.scripts, ∀ op ∈ l, opDS (tk w0).ta w0.assets.length op = true) :
    WS (ctxOf w0) (fun _ => w0.now) w0.simulateInit := by
  have hg := ginit_simulateInit hs (fresh_noScr hf)
  rw [show (noScr w0).simulateInit = noScr w0.simulateInit from C03W.es_simulateInit w0 []] at hg
  have hl := hg.lengths
  have hlen : w0.simulateInit.sensors.length = w0.sensors.length := by
    have := hl.2
    simp only [sstat, List.length_map] at this
    exact this
  have hscripts : w0.simulateInit.scripts = w0.scripts := by
    have := C03W.es_simulateInit w0 w0.scripts
    rw [es_self] at this
    rw [this]; rfl
  have hassets : w0.simulateInit.assets = w0.assets := by
    have := congrArg C20W.RKey.assets (C20W.RK_simulateInit w0 hf.notStarted)
    simpa [C20W.RK] using this
  refine ⟨GS.of_gi hg.gi (fun s hs' => ?_), hg.inv, C20W.reg_simulateInit w0 hr,
    C20W.simulateInit_started w0, ?_, ?_, ?_⟩
  · exact C20W.sensor_registered hr s (by rw [← hlen]; exact hs')
  · rw [hscripts]; exact hscr
  · intro a ha
    left
    have := ta_of_sstat hg.ss
    have e : (tk w0.simulateInit).ta = (tk w0).ta := this
    rw [e] at ha
    exact ha
  · rw [hassets]; exact Nat.le_refl _

end C19D
end SimProc
