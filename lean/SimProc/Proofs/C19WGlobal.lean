/-
C18W / C19W — machinery, part 6: the global invariant `GI` (every initialised scheduler satisfies
`SI`, every initialised periodic sensor `PI`, every initialised output-part sensor `OI`, the others
`SU` / `SensU`; the `.act` results are one block per `.schedUpdate` record, `AI`) and its preservation by frames
(`Fr`), by taking an event from the queue, by the transitions of schedulers and sensors.
-/
import SimProc.Proofs.C19WInv
import SimProc.Proofs.C15Lemmas
import SimProc.Proofs.WorldPres

namespace SimProc
namespace C19W
open World FloorCoreL C18W

/-! ### static conditions on a key -/

/-- Static conditions: `StatC`, durations and intervals are not negative. -/
structure SOK (c : TK) : Prop where
  statc : StatC c
  dur : ∀ sw ∈ c.scheds, ∀ p ∈ sw.s.tt, 0 ≤ p.1
  ivl : ∀ sw ∈ c.sensors, sw.s.kind = .periodic → 0 ≤ sw.s.interval

theorem SOK.of_sstat {a b : TK} (h : sstat b = sstat a) (hs : SOK a) : SOK b := by
  have h1 : b.scheds.map schedS = a.scheds.map schedS := congrArg (·.1) h
  have h2 : b.sensors.map sensS = a.sensors.map sensS := congrArg (·.2.1) h
  refine ⟨hs.statc.of_sstat h, ?_, ?_⟩
  · intro sw hsw p hp
    have : schedS sw ∈ a.scheds.map schedS := by rw [← h1]; exact List.mem_map_of_mem hsw
    obtain ⟨sw', hsw', he⟩ := List.mem_map.mp this
    have htt : sw'.s.tt = sw.s.tt := congrArg (·.2.1) he
    exact hs.dur sw' hsw' p (by rw [htt]; exact hp)
  · intro sw hsw hk
    have : sensS sw ∈ a.sensors.map sensS := by rw [← h2]; exact List.mem_map_of_mem hsw
    obtain ⟨sw', hsw', he⟩ := List.mem_map.mp this
    have hk' : sw'.s.kind = sw.s.kind := congrArg (·.2.2.2.2.1) he
    have hi' : sw'.s.interval = sw.s.interval := congrArg (·.2.2.2.2.2.1) he
    rw [← hi']
    exact hs.ivl sw' hsw' (by rw [hk']; exact hk)

theorem getD_mem {α} [Inhabited α] (l : List α) (i : Nat) (h : i < l.length) : l.getD i default ∈ l := by
  rw [List.getD_eq_getElem?_getD, List.getElem?_eq_getElem h]
  exact List.getElem_mem h

theorem SOK.dur_at {c : TK} (h : SOK c) (s : Nat) :
    ∀ p ∈ (c.scheds.getD s default).s.tt, 0 ≤ p.1 := by
  by_cases hs : s < c.scheds.length
  · exact h.dur _ (getD_mem _ _ hs)
  · rw [List.getD_eq_getElem?_getD, List.getElem?_eq_none (Nat.le_of_not_lt hs)]
    intro p hp
    cases hp

theorem SOK.ivl_at {c : TK} (h : SOK c) (s : Nat)
    (hk : (c.sensors.getD s default).s.kind = .periodic) :
    0 ≤ (c.sensors.getD s default).s.interval := by
  by_cases hs : s < c.sensors.length
  · exact h.ivl _ (getD_mem _ _ hs) hk
  · rw [List.getD_eq_getElem?_getD, List.getElem?_eq_none (Nat.le_of_not_lt hs)]
    decide

theorem lengths_of_sstat {a b : TK} (h : sstat b = sstat a) :
    b.scheds.length = a.scheds.length ∧ b.sensors.length = a.sensors.length ∧
    b.dk.length = a.dk.length := by
  have h1 : b.scheds.map schedS = a.scheds.map schedS := congrArg (·.1) h
  have h2 : b.sensors.map sensS = a.sensors.map sensS := congrArg (·.2.1) h
  have h3 : b.dk.map (·.1) = a.dk.map (·.1) := congrArg (·.2.2.1) h
  have := congrArg List.length h1
  have := congrArg List.length h2
  have := congrArg List.length h3
  simp only [List.length_map] at *
  exact ⟨by assumption, by assumption, by assumption⟩

theorem sensS_of_sstat {a b : TK} (h : sstat b = sstat a) (s : Nat) :
    sensS (b.sensors.getD s default) = sensS (a.sensors.getD s default) := by
  have h2 : b.sensors.map sensS = a.sensors.map sensS := congrArg (·.2.1) h
  rw [← getD_map sensS, ← getD_map sensS, h2]

theorem kind_of_sstat {a b : TK} (h : sstat b = sstat a) (s : Nat) :
    (b.sensors.getD s default).s.kind = (a.sensors.getD s default).s.kind :=
  congrArg (·.2.2.2.2.1) (sensS_of_sstat h s)

/-! ### the global invariant -/

/-- Parameters: initialisation time, the assets initialised so far. -/
structure Par where
  t0 : Int
  done : List AssetRef

def SchedInv (P : Par) (e : Env) (c : TK) (s : Nat) : Prop :=
  (s < c.scheds.length ∧ AssetRef.sched s ∈ P.done → SI P.t0 e c s) ∧
  (¬ (s < c.scheds.length ∧ AssetRef.sched s ∈ P.done) → SU e c s)

def SensInv (P : Par) (e : Env) (c : TK) (s : Nat) : Prop :=
  (s < c.sensors.length ∧ AssetRef.sensor s ∈ P.done →
    ((c.sensors.getD s default).s.kind = .periodic → PI P.t0 e c s) ∧
    ((c.sensors.getD s default).s.kind = .output → OI e c s)) ∧
  (¬ (s < c.sensors.length ∧ AssetRef.sensor s ∈ P.done) → SensU e c s)

/-- The `.act` results of scheduler `s` are one block per `.schedUpdate` record `(t, state)`: for
some list of objects `(obj, override)` — the objects registered at that moment — one result
`.act s obj t state override` per object, in order. -/
def AI (c : TK) (s : Nat) : Prop :=
  ∃ regs : List (List (Nat × Option Nat)), regs.length = (schedLog c.recsT s).length ∧
    actLog c.resT s = (regs.zip (schedLog c.recsT s)).flatMap
      (fun x => x.1.map (fun p => Res.act s p.1 x.2.1 x.2.2 p.2))

theorem AI.congr {c c' : TK} {s : Nat} (h : AI c s) (h1 : schedLog c'.recsT s = schedLog c.recsT s)
    (h2 : actLog c'.resT s = actLog c.resT s) : AI c' s := by
  unfold AI
  rw [h1, h2]
  exact h

theorem actLog_act_self (l : List (Nat × Option Nat)) (s : Nat) (t st : Int) :
    actLog (l.map (fun p => Res.act s p.1 t st p.2)) s = l.map (fun p => Res.act s p.1 t st p.2) := by
  unfold actLog
  apply List.filter_eq_self.mpr
  intro r hr
  obtain ⟨c, _, rfl⟩ := List.mem_map.mp hr
  simp

theorem AI.asched {e : Env} {c : TK} {s' : Nat} {adv : Bool} {e' : Env} {c' : TK}
    (ha : ASched e c s' adv e' c') {s : Nat} (h : AI c s) : AI c' s := by
  by_cases hne : s = s'
  · subst hne
    cases ha with
    | none s2 hu => exact h.congr rfl rfl
    | some s2 st objs dur wt hu _ =>
      obtain ⟨regs, h1, h2⟩ := h
      refine ⟨regs ++ [objs], ?_, ?_⟩
      · show _ = (schedLog (c.recsT ++ _) s).length
        rw [schedLog_append]
        simp [schedLog, h1]
      · show actLog (c.resT ++ _) s = (List.zip _ (schedLog (c.recsT ++ _) s)).flatMap _
        rw [schedLog_append, actLog_append, actLog_act_self, h2]
        have hs1 : schedLog [Rec.schedUpdate s e.now st] s = [(e.now, st)] := by simp [schedLog]
        rw [hs1, List.zip_append h1, List.flatMap_append]
        simp
  · have hfr := ha.frame
    refine h.congr ?_ ?_
    · obtain ⟨l, hl, hr⟩ := hfr.recs
      rw [hl, schedLog_append]
      have : schedLog l s = [] := by
        unfold schedLog
        apply List.filterMap_eq_nil_iff.mpr
        intro r hm
        obtain ⟨t, st, rfl⟩ := hr r hm
        simp [Ne.symm hne]
      rw [this, List.append_nil]
    · obtain ⟨l, hl, hr⟩ := hfr.res
      rw [hl, actLog_append]
      have : actLog l s = [] := by
        unfold actLog
        apply filter_eq_nil_of_forall
        intro r hm
        obtain ⟨o, t, st, ovr, rfl⟩ := hr r hm
        simp [Ne.symm hne]
      rw [this, List.append_nil]

theorem AI.sensFrame {s' : Nat} {e : Env} {c : TK} {e' : Env} {c' : TK}
    (hfr : SensFrame s' e c e' c') {s : Nat} (h : AI c s) : AI c' s := by
  refine h.congr (by rw [hfr.recs]) ?_
  obtain ⟨l, hl, hr⟩ := hfr.res
  rw [hl, actLog_append]
  have : actLog l s = [] := by
    unfold actLog
    apply filter_eq_nil_of_forall
    intro r hm
    obtain ⟨cb, t, vals, rfl⟩ := hr r hm
    rfl
  rw [this, List.append_nil]

structure GI (P : Par) (e : Env) (c : TK) : Prop where
  sok : SOK c
  sched : ∀ s, SchedInv P e c s
  sens : ∀ s, SensInv P e c s
  acts : ∀ s, AI c s

/-! ### congruence -/

theorem SI.congr {t0 : Int} {e e' : Env} {c c' : TK} {s : Nat} (h : SI t0 e c s)
    (hsw : c'.scheds.getD s default = c.scheds.getD s default)
    (hlog : schedLog c'.recsT s = schedLog c.recsT s)
    (hev : e'.events.filter (suEv s) = e.events.filter (suEv s))
    (hpa : e'.paused.filter (suEv s) = e.paused.filter (suEv s)) (hnow : e.now ≤ e'.now) :
    SI t0 e' c' s := by
  unfold SI at h ⊢
  rw [hsw, hlog, hev, hpa]
  exact h.mono hnow

theorem SU.congr {e e' : Env} {c c' : TK} {s : Nat} (h : SU e c s)
    (hsw : c'.scheds.getD s default = c.scheds.getD s default)
    (hlog : schedLog c'.recsT s = schedLog c.recsT s)
    (hev : e'.events.filter (suEv s) = e.events.filter (suEv s))
    (hpa : e'.paused.filter (suEv s) = e.paused.filter (suEv s)) : SU e' c' s :=
  ⟨by rw [hsw]; exact h.idx, hlog.trans h.log, hev.trans h.ev, hpa.trans h.pa⟩

theorem SchedInv.congr {P : Par} {e e' : Env} {c c' : TK} {s : Nat} (h : SchedInv P e c s)
    (hlen : c'.scheds.length = c.scheds.length)
    (hsw : c'.scheds.getD s default = c.scheds.getD s default)
    (hlog : schedLog c'.recsT s = schedLog c.recsT s)
    (hev : e'.events.filter (suEv s) = e.events.filter (suEv s))
    (hpa : e'.paused.filter (suEv s) = e.paused.filter (suEv s)) (hnow : e.now ≤ e'.now) :
    SchedInv P e' c' s := by
  unfold SchedInv
  rw [hlen]
  exact ⟨fun hc => SI.congr (h.1 hc) hsw hlog hev hpa hnow, fun hc => SU.congr (h.2 hc) hsw hlog hev hpa⟩

theorem SensInv.congr {P : Par} {e e' : Env} {c c' : TK} {s : Nat} (h : SensInv P e c s)
    (hlen : c'.sensors.length = c.sensors.length)
    (hsw : c'.sensors.getD s default = c.sensors.getD s default)
    (hlog : senseLog c'.resT s = senseLog c.resT s)
    (hprod : ∀ x, prodLog c'.recsT x = prodLog c.recsT x)
    (hev : e'.events.filter (psEv s) = e.events.filter (psEv s))
    (hpa : e'.paused.filter (psEv s) = e.paused.filter (psEv s)) (hnow : e.now ≤ e'.now)
    (hfin : ∀ x, (c'.finS x).count s = (c.finS x).count s) (hdk : c'.dk.length = c.dk.length) :
    SensInv P e' c' s := by
  unfold SensInv
  rw [hlen, hsw]
  refine ⟨fun hc => ⟨fun hk => ((h.1 hc).1 hk).congr hsw hlog hev hpa hnow hfin,
    fun hk => ((h.1 hc).2 hk).congr hsw hlog (hprod _) hev hpa hfin hdk⟩,
    fun hc => (h.2 hc).congr (by rw [hsw]) hlog hev hpa hfin⟩

/-- The invariant looks at the queue only through the tracked events; the clock may advance. -/
theorem GI.env {P : Par} {e e' : Env} {c : TK} (h : GI P e c)
    (hev : e'.events.filter tracked = e.events.filter tracked)
    (hpa : e'.paused.filter tracked = e.paused.filter tracked) (hnow : e.now ≤ e'.now) :
    GI P e' c :=
  ⟨h.sok,
    fun s => (h.sched s).congr rfl rfl rfl (filter_sub_congr (fun _ => suEv_tracked) hev)
      (filter_sub_congr (fun _ => suEv_tracked) hpa) hnow,
    fun s => (h.sens s).congr rfl rfl rfl (fun _ => rfl) (filter_sub_congr (fun _ => psEv_tracked) hev)
      (filter_sub_congr (fun _ => psEv_tracked) hpa) hnow (fun _ => rfl) rfl, h.acts⟩

/-! ### abstract steps -/

theorem GI.cstep {P : Par} {e : Env} {a b : TK} (h : GI P e a) (hs : CStep a b) : GI P e b := by
  have hss := sstat_of_cstat hs.cstat
  obtain ⟨l1, l2, _⟩ := lengths_of_sstat hss
  refine ⟨h.sok.of_sstat hss, fun s => ?_, fun s => ?_,
    fun s => (h.acts s).congr (hs.sched_logs s).1 (hs.sched_logs s).2⟩
  · have hst := schedStat_of_cstat hs.cstat s
    unfold SchedInv
    rw [l1]
    exact ⟨fun hc => (h.sched s).1 hc |>.frame rfl rfl (Int.le_refl _) hst (hs.sched_logs s).1,
      fun hc => (h.sched s).2 hc |>.frame rfl rfl hst (hs.sched_logs s).1⟩
  · unfold SensInv
    rw [l2, kind_of_sstat hss s]
    refine ⟨fun hc => ⟨fun hk => CStep.pi hs hc.1 (((h.sens s).1 hc).1 hk),
      fun hk => CStep.oi hs hc.1 (((h.sens s).1 hc).2 hk)⟩, fun hc => CStep.sensU hs ((h.sens s).2 hc)⟩

theorem GI.crun {P : Par} {e : Env} {a b : TK} (h : GI P e a) (hs : CRun a b) : GI P e b :=
  CRun.preserve (P := GI P e) (fun hs h => h.cstep hs) hs h

/-! ### from the invariant to the static conditions of the frame relation -/

theorem mem_ta_sched {c : TK} {s : Nat} (h : s < c.scheds.length) :
    (c.scheds.getD s default).aid ∈ c.ta :=
  List.mem_append.mpr (Or.inl (List.mem_map_of_mem (getD_mem _ _ h)))

theorem mem_ta_sensor {c : TK} {s : Nat} (h : s < c.sensors.length) :
    (c.sensors.getD s default).aid ∈ c.ta :=
  List.mem_append.mpr (Or.inr (List.mem_map_of_mem (getD_mem _ _ h)))

theorem tracked_cases {x : Event} (h : tracked x = true) :
    suEv (x.act / 16) x = true ∨ psEv (x.act / 16) x = true := by
  simp only [tracked, trackedNat, Bool.or_eq_true, beq_iff_eq] at h
  rcases h with h | h
  · left; simp only [suEv, beq_iff_eq]; omega
  · right; simp only [psEv, beq_iff_eq]; omega

/-- Every tracked event in the queue (or paused) is the pending event of an initialised scheduler
or periodic sensor. -/
theorem GI.owner {P : Par} {e : Env} {c : TK} (h : GI P e c) {x : Event}
    (hx : x ∈ e.events ++ e.paused) (ht : tracked x = true) :
    (∃ s, suEv s x = true ∧ s < c.scheds.length ∧ AssetRef.sched s ∈ P.done ∧ x ∈ e.events ∧
      x.asset = (c.scheds.getD s default).aid) ∨
    (∃ s, psEv s x = true ∧ s < c.sensors.length ∧ AssetRef.sensor s ∈ P.done ∧ x ∈ e.events ∧
      (c.sensors.getD s default).s.kind = .periodic ∧ x.asset = (c.sensors.getD s default).aid) := by
  have hmem : ∀ p : Event → Bool, p x = true →
      x ∈ e.events.filter p ∨ x ∈ e.paused.filter p := by
    intro p hp
    rcases List.mem_append.mp hx with h1 | h1
    · exact Or.inl (List.mem_filter.mpr ⟨h1, hp⟩)
    · exact Or.inr (List.mem_filter.mpr ⟨h1, hp⟩)
  rcases tracked_cases ht with hs | hs
  · left
    refine ⟨x.act / 16, hs, ?_⟩
    by_cases hc : x.act / 16 < c.scheds.length ∧ AssetRef.sched (x.act / 16) ∈ P.done
    · have hsi := (h.sched _).1 hc
      unfold SI at hsi
      by_cases hlt : (c.scheds.getD (x.act / 16) default).s.idx <
          (c.scheds.getD (x.act / 16) default).s.tt.length
      · obtain ⟨_, _, _, ⟨e0, h1, _, _, h4, _⟩, h6⟩ := hsi.running hlt
        rcases hmem _ hs with hm | hm
        · rw [h1] at hm
          simp only [List.mem_singleton] at hm
          subst hm
          have : x ∈ e.events.filter (suEv (x.act / 16)) := by rw [h1]; simp
          exact ⟨hc.1, hc.2, (List.mem_filter.mp this).1, h4⟩
        · rw [h6] at hm; cases hm
      · obtain ⟨h1, h2, _⟩ := hsi.ended (Nat.le_of_not_lt hlt)
        rcases hmem _ hs with hm | hm
        · rw [h1] at hm; cases hm
        · rw [h2] at hm; cases hm
    · have hsu := (h.sched _).2 hc
      rcases hmem _ hs with hm | hm
      · rw [hsu.ev] at hm; cases hm
      · rw [hsu.pa] at hm; cases hm
  · right
    refine ⟨x.act / 16, hs, ?_⟩
    by_cases hc : x.act / 16 < c.sensors.length ∧ AssetRef.sensor (x.act / 16) ∈ P.done
    · cases hk : (c.sensors.getD (x.act / 16) default).s.kind with
      | periodic =>
        obtain ⟨log, _, _, _, _, _, _, ⟨e0, h1, _, _, h4, _⟩, h6⟩ := (((h.sens _).1 hc).1 hk).ex
        rcases hmem _ hs with hm | hm
        · rw [h1] at hm
          simp only [List.mem_singleton] at hm
          subst hm
          have : x ∈ e.events.filter (psEv (x.act / 16)) := by rw [h1]; simp
          exact ⟨hc.1, hc.2, (List.mem_filter.mp this).1, rfl, h4⟩
        · rw [h6] at hm; cases hm
      | output =>
        have hoi := ((h.sens _).1 hc).2 hk
        rcases hmem _ hs with hm | hm
        · rw [hoi.ev] at hm; cases hm
        · rw [hoi.pa] at hm; cases hm
    · have hsu := (h.sens _).2 hc
      rcases hmem _ hs with hm | hm
      · rw [hsu.ev] at hm; cases hm
      · rw [hsu.pa] at hm; cases hm

theorem GI.qi {P : Par} {e : Env} {c : TK} (h : GI P e c) : QI c.ta e := by
  intro x hx ht
  rcases h.owner hx ht with ⟨s, _, h2, _, _, h5⟩ | ⟨s, _, h2, _, _, _, h6⟩
  · rw [h5]; exact mem_ta_sched h2
  · rw [h6]; exact mem_ta_sensor h2

theorem GI.stat {P : Par} {w : World} (h : GI P w.env (tk w)) : Stat w := ⟨h.sok.statc, h.qi⟩

/-- **Frames keep the invariant.** -/
theorem GI.fr {P : Par} {w w' : World} (h : GI P w.env (tk w)) (hi : C01.Inv w.env) (hf : Fr w w') :
    GI P w'.env (tk w') ∧ C01.Inv w'.env ∧ w'.now = w.now := by
  obtain ⟨he, hc⟩ := hf h.stat
  obtain ⟨f1, f2, _⟩ := he.filters h.qi
  have hn : w'.env.now = w.env.now := he.now
  exact ⟨(h.env f1 f2 (by rw [hn]; exact Int.le_refl _)).crun hc, he.inv hi, hn⟩

/-! ### action codes -/

theorem ofNat_su (s : Nat) : Action.ofNat (9 + 16 * s) = .schedUpdate s := by
  have h1 : (9 + 16 * s) % 16 = 9 := by omega
  have h2 : (9 + 16 * s) / 16 = s := by omega
  simp [Action.ofNat, h1, h2]

theorem ofNat_ps (s : Nat) : Action.ofNat (10 + 16 * s) = .periodicSense s := by
  have h1 : (10 + 16 * s) % 16 = 10 := by omega
  have h2 : (10 + 16 * s) / 16 = s := by omega
  simp [Action.ofNat, h1, h2]

theorem isTrackedAct_ofNat {n : Nat} (h : trackedNat n = false) : isTrackedAct (Action.ofNat n) = false := by
  have hlt : n % 16 < 16 := Nat.mod_lt _ (by decide)
  simp only [trackedNat, Bool.or_eq_false_iff, beq_eq_false_iff_ne, ne_eq] at h
  unfold Action.ofNat
  simp only []
  split <;> first | rfl | (split <;> rfl) | omega

/-! ### taking an event from the queue -/

/-- the queue after `Env.step` -/
def popEnv (e : Env) (ev : Event) (es : List Event) : Env :=
  { e with now := ev.time, events := es,
           terminated := e.terminated || (ev.live && ev.act == terminateAct) }

theorem filter_pop {e : Env} {ev : Event} {es : List Event} (he : e.events = ev :: es)
    (p : Event → Bool) (hp : p ev = false) :
    (popEnv e ev es).events.filter p = e.events.filter p := by
  rw [he, List.filter_cons]
  simp [hp, popEnv]

theorem GI.pop_untracked {P : Par} {e : Env} {c : TK} (h : GI P e c) (hi : C01.Inv e)
    {ev : Event} {es : List Event} (he : e.events = ev :: es) (ht : tracked ev = false) :
    GI P (popEnv e ev es) c :=
  h.env (filter_pop he _ ht) rfl (hi.future ev (by rw [he]; exact List.mem_cons_self))


theorem suEv_ne {s s' : Nat} (hne : s' ≠ s) {x : Event} (h : suEv s x = true) : suEv s' x = false := by
  have h1 : x.act = 9 + 16 * s := by simpa [suEv] using h
  simp only [suEv, h1, beq_eq_false_iff_ne, ne_eq]
  omega

/-- A scheduler transition: the head of the queue is the event of scheduler `s`. -/
theorem GI.sched_adv {P : Par} {e : Env} {c : TK} (h : GI P e c) (hi : C01.Inv e)
    {ev : Event} {es : List Event} (he : e.events = ev :: es) {s : Nat} (hs : suEv s ev = true)
    {e' : Env} {c' : TK} (ha : ASched (popEnv e ev es) c s true e' c') : GI P e' c' := by
  have hnow : e.now ≤ ev.time := hi.future ev (by rw [he]; exact List.mem_cons_self)
  have hown := h.owner (x := ev) (by rw [he]; simp) (suEv_tracked hs)
  have hc : s < c.scheds.length ∧ AssetRef.sched s ∈ P.done := by
    rcases hown with ⟨s', h1, h2, h3, _⟩ | ⟨s', h1, _⟩
    · have : s' = s := by
        have a1 : ev.act = 9 + 16 * s := by simpa [suEv] using hs
        have a2 : ev.act = 9 + 16 * s' := by simpa [suEv] using h1
        omega
      subst this; exact ⟨h2, h3⟩
    · rw [suEv_not_psEv h1] at hs; cases hs
  obtain ⟨hmid, _, _⟩ := ((h.sched s).1 hc).pop he hs (e.terminated || (ev.live && ev.act == terminateAct))
  have hfr := ha.frame
  obtain ⟨l1, l2, l3⟩ := lengths_of_sstat hfr.sstat
  refine ⟨h.sok.of_sstat hfr.sstat, fun s' => ?_, fun s' => ?_, fun s' => (h.acts s').asched ha⟩
  · by_cases hne : s' = s
    · subst hne
      unfold SchedInv
      rw [l1]
      exact ⟨fun _ => SI_advance hmid hc.1 (h.sok.dur_at s') ha, fun hn => absurd hc hn⟩
    · have h1 : SchedInv P (popEnv e ev es) c s' :=
        (h.sched s').congr rfl rfl rfl (filter_pop he _ (suEv_ne hne hs)) rfl hnow
      unfold SchedInv at h1 ⊢
      rw [l1]
      exact ⟨fun hc' => hfr.si hne (h1.1 hc'), fun hc' => hfr.su hne (h1.2 hc')⟩
  · have h1 : SensInv P (popEnv e ev es) c s' :=
      (h.sens s').congr rfl rfl rfl (fun _ => rfl) (filter_pop he _ (psEv_not_suEv hs)) rfl hnow
        (fun _ => rfl) rfl
    unfold SensInv at h1 ⊢
    rw [l2, hfr.sensors]
    exact ⟨fun hc' => ⟨fun hk => schedFrame_pi hfr ((h1.1 hc').1 hk),
      fun hk => schedFrame_oi hfr ((h1.1 hc').2 hk)⟩, fun hc' => schedFrame_sensU hfr (h1.2 hc')⟩

/-- A periodic measurement: the head of the queue is the event of sensor `s`. -/
theorem GI.sense_adv {P : Par} {e : Env} {c : TK} (h : GI P e c) (hi : C01.Inv e)
    {ev : Event} {es : List Event} (he : e.events = ev :: es) {s : Nat} (hs : psEv s ev = true)
    {vals : List Int} (hv : vals.length = (c.sensors.getD s default).vars.length)
    {e' : Env} {c' : TK} (ha : APSense (popEnv e ev es) c s vals e' c') : GI P e' c' := by
  have hnow : e.now ≤ ev.time := hi.future ev (by rw [he]; exact List.mem_cons_self)
  have hown := h.owner (x := ev) (by rw [he]; simp) (psEv_tracked hs)
  have hc : s < c.sensors.length ∧ AssetRef.sensor s ∈ P.done ∧
      (c.sensors.getD s default).s.kind = .periodic := by
    rcases hown with ⟨s', h1, _⟩ | ⟨s', h1, h2, h3, _, h5, _⟩
    · rw [psEv_not_suEv h1] at hs; cases hs
    · have : s' = s := by
        have a1 : ev.act = 10 + 16 * s := by simpa [psEv] using hs
        have a2 : ev.act = 10 + 16 * s' := by simpa [psEv] using h1
        omega
      subst this; exact ⟨h2, h3, h5⟩
  obtain ⟨hmid, _, _⟩ := (((h.sens s).1 ⟨hc.1, hc.2.1⟩).1 hc.2.2).pop he hs hnow
    (e.terminated || (ev.live && ev.act == terminateAct))
  have hfr := ha.frame
  obtain ⟨l1, l2, l3⟩ := lengths_of_sstat hfr.sstat
  refine ⟨h.sok.of_sstat hfr.sstat, fun s' => ?_, fun s' => ?_, fun s' => (h.acts s').sensFrame hfr⟩
  · have h1 : SchedInv P (popEnv e ev es) c s' :=
      (h.sched s').congr rfl rfl rfl (filter_pop he _ (suEv_not_psEv hs)) rfl hnow
    unfold SchedInv at h1 ⊢
    rw [l1]
    exact ⟨fun hc' => hfr.si (h1.1 hc'), fun hc' => hfr.su (h1.2 hc')⟩
  · by_cases hne : s' = s
    · subst hne
      unfold SensInv
      rw [l2, kind_of_sstat hfr.sstat s']
      exact ⟨fun _ => ⟨fun _ => PI_advance hmid hc.1 hv ha, fun hk => by rw [hc.2.2] at hk; cases hk⟩,
        fun hn => absurd ⟨hc.1, hc.2.1⟩ hn⟩
    · have h1 : SensInv P (popEnv e ev es) c s' :=
        (h.sens s').congr rfl rfl rfl (fun _ => rfl) (filter_pop he _ (psEv_ne hne hs)) rfl hnow
          (fun _ => rfl) rfl
      unfold SensInv at h1 ⊢
      rw [l2, hfr.sensors s' hne]
      exact ⟨fun hc' => ⟨fun hk => hfr.pi hne ((h1.1 hc').1 hk),
        fun hk => hfr.oi hne ((h1.1 hc').2 hk)⟩, fun hc' => hfr.sensU hne (h1.2 hc')⟩

/-! ### initialisation writes no `produced` record -/

theorem scheduleFinish_recs (w : World) (x : Nat) (hk : (w.dev x).kind ≠ .processor) :
    (w.scheduleFinish x).recs = w.recs := by
  have hst : ∀ d : Dev, d.kind = (w.dev x).kind → d.down = (w.dev x).down → d.group = (w.dev x).group →
      d.maxParts = (w.dev x).maxParts → d.produced = (w.dev x).produced →
      ((w.setDev x d).dev x).kind ≠ .processor := by
    intro d h1 h2 h3 h4 h5
    rw [C02V.kind_of_st (C02V.st_setDev_same _ _ _ (by simp [C02V.tdev, h1, h2, h3, h4, h5]))]
    exact hk
  unfold scheduleFinish
  dsimp only
  repeat' split
  all_goals first
    | (refine (C15.finishCycle_other_recs _ _ ?_).trans rfl; exact hst _ rfl rfl rfl rfl rfl)
    | exact C15.RN_recs (by rw [C15.RN_schedLib]; rfl)

theorem initDev_recs (w : World) (x : Nat) : (w.initDev x).recs = w.recs := by
  rw [C02V.initDev_eq]
  split
  · rfl
  · rfl
  · rfl
  · rfl
  · exact C15.RN_recs (by simp [C02V.initFlag])
  · rename_i hk
    rw [scheduleFinish_recs]
    · exact C15.RN_recs (by simp [C02V.initFlag])
    · rw [C02V.kind_of_st (C02V.st_setWaiting ..), hk]
      decide
  · exact C15.RN_recs (by simp [C02V.initFlag])

/-! ### initialisation -/

/-- No part has been produced yet. -/
def NoProd (c : TK) : Prop := ∀ x, prodLog c.recsT x = []

theorem mem_done_append {a b : AssetRef} {l : List AssetRef} (h : a ≠ b) :
    a ∈ l ++ [b] ↔ a ∈ l := by
  simp [h]

/-- Marking an asset that is neither an existing scheduler nor an existing sensor as initialised
changes nothing. -/
theorem GI.add_done {P : Par} {e : Env} {c : TK} (h : GI P e c) (a : AssetRef)
    (h1 : ∀ s, a = .sched s → c.scheds.length ≤ s) (h2 : ∀ s, a = .sensor s → c.sensors.length ≤ s) :
    GI { P with done := P.done ++ [a] } e c := by
  refine ⟨h.sok, fun s => ?_, fun s => ?_, h.acts⟩
  · unfold SchedInv
    dsimp only
    by_cases ha : a = .sched s
    · have := h1 s ha
      have hn : ¬ (s < c.scheds.length ∧ AssetRef.sched s ∈ P.done) := fun hc => by omega
      exact ⟨fun hc => by omega, fun _ => (h.sched s).2 hn⟩
    · rw [mem_done_append (Ne.symm ha)]
      exact h.sched s
  · unfold SensInv
    dsimp only
    by_cases ha : a = .sensor s
    · have := h2 s ha
      have hn : ¬ (s < c.sensors.length ∧ AssetRef.sensor s ∈ P.done) := fun hc => by omega
      exact ⟨fun hc => by omega, fun _ => (h.sens s).2 hn⟩
    · rw [mem_done_append (Ne.symm ha)]
      exact h.sens s

/-- Initialisation of scheduler `s`. -/
theorem GI.sched_start {P : Par} {e : Env} {c : TK} (h : GI P e c) {s : Nat}
    (hs : s < c.scheds.length) (hn : AssetRef.sched s ∉ P.done) (ht : P.t0 = e.now)
    {e' : Env} {c' : TK} (ha : ASched e c s false e' c') :
    GI { P with done := P.done ++ [.sched s] } e' c' := by
  have hfr := ha.frame
  obtain ⟨l1, l2, l3⟩ := lengths_of_sstat hfr.sstat
  refine ⟨h.sok.of_sstat hfr.sstat, fun s' => ?_, fun s' => ?_, fun s' => (h.acts s').asched ha⟩
  · unfold SchedInv
    dsimp only
    rw [l1]
    by_cases hne : s' = s
    · subst hne
      have hsu := (h.sched s').2 (fun hc => hn hc.2)
      refine ⟨fun _ => ?_, fun hc => absurd ⟨hs, by simp⟩ hc⟩
      rw [ht]
      exact SI_start hsu hs ha
    · have : AssetRef.sched s' ≠ AssetRef.sched s := fun he => hne (by injection he)
      rw [mem_done_append this]
      exact ⟨fun hc => hfr.si hne ((h.sched s').1 hc), fun hc => hfr.su hne ((h.sched s').2 hc)⟩
  · unfold SensInv
    dsimp only
    have : AssetRef.sensor s' ≠ AssetRef.sched s := fun he => by cases he
    rw [mem_done_append this, l2, hfr.sensors]
    exact ⟨fun hc => ⟨fun hk => schedFrame_pi hfr (((h.sens s').1 hc).1 hk),
      fun hk => schedFrame_oi hfr (((h.sens s').1 hc).2 hk)⟩,
      fun hc => schedFrame_sensU hfr ((h.sens s').2 hc)⟩

/-- Initialisation of sensor `s`. -/
theorem GI.sens_start {P : Par} {e : Env} {c : TK} (h : GI P e c) {s : Nat}
    (hs : s < c.sensors.length) (hn : AssetRef.sensor s ∉ P.done) (ht : P.t0 = e.now)
    (hp : NoProd c) {e' : Env} {c' : TK} (ha : AInitSens e c s e' c') :
    GI { P with done := P.done ++ [.sensor s] } e' c' := by
  have hfr := ha.frame
  obtain ⟨l1, l2, l3⟩ := lengths_of_sstat hfr.sstat
  refine ⟨h.sok.of_sstat hfr.sstat, fun s' => ?_, fun s' => ?_, fun s' => (h.acts s').sensFrame hfr⟩
  · unfold SchedInv
    dsimp only
    have : AssetRef.sched s' ≠ AssetRef.sensor s := fun he => by cases he
    rw [mem_done_append this, l1]
    exact ⟨fun hc => hfr.si ((h.sched s').1 hc), fun hc => hfr.su ((h.sched s').2 hc)⟩
  · unfold SensInv
    dsimp only
    rw [l2]
    by_cases hne : s' = s
    · subst hne
      have hsu := (h.sens s').2 (fun hc => hn hc.2)
      rw [kind_of_sstat hfr.sstat s']
      refine ⟨fun _ => ⟨fun hk => ?_, fun hk => ?_⟩, fun hc => absurd ⟨hs, by simp⟩ hc⟩
      · rw [ht]; exact PI_start hsu hs hk ha
      · exact OI_start hsu hs hk (hp _) ha
    · have : AssetRef.sensor s' ≠ AssetRef.sensor s := fun he => hne (by injection he)
      rw [mem_done_append this, hfr.sensors s' hne]
      exact ⟨fun hc => ⟨fun hk => hfr.pi hne (((h.sens s').1 hc).1 hk),
        fun hk => hfr.oi hne (((h.sens s').1 hc).2 hk)⟩, fun hc => hfr.sensU hne ((h.sens s').2 hc)⟩


/-! ### the world: initialisation -/

theorem prodLog_tk (w : World) (x : Nat) : prodLog (tk w).recsT x = prodLog w.recs x :=
  prodLog_filter w.recs x

theorem noProd_of_recs {w w' : World} (h : w'.recs = w.recs) (hp : NoProd (tk w)) : NoProd (tk w') := by
  intro x
  rw [prodLog_tk, h, ← prodLog_tk]
  exact hp x

theorem prodLog_stamp (t : Int) (recs : List ResRec) (x : Nat) : prodLog (C15.stamp t recs) x = [] := by
  unfold prodLog C15.stamp
  apply List.filterMap_eq_nil_iff.mpr
  intro r hr
  obtain ⟨a, _, rfl⟩ := List.mem_map.mp hr
  rfl

/-- The type of the static part of a key. -/
abbrev SStat := List (Int × List (Int × Int) × Bool) ×
  List (Int × List Nat × Nat × List Nat × SensorKind × Int × Option Nat × Nat) × List Int × List (List Op)

/-- The invariant of the initialisation phase. -/
structure GInit (S0 : SStat) (P : Par) (w : World) : Prop where
  gi : GI P w.env (tk w)
  inv : C01.Inv w.env
  np : NoProd (tk w)
  now : P.t0 = w.now
  ss : sstat (tk w) = S0

theorem sstat_of_fr {w w' : World} (g : Stat w) (hf : Fr w w') : sstat (tk w') = sstat (tk w) :=
  sstat_of_cstat (hf g).2.cstat

theorem GInit.fr {S0 : SStat} {P : Par} {w w' : World} (h : GInit S0 P w) (hf : Fr w w')
    (hr : NoProd (tk w')) : GInit S0 P w' := by
  obtain ⟨h1, h2, h3⟩ := h.gi.fr h.inv hf
  exact ⟨h1, h2, hr, by rw [h3]; exact h.now, (sstat_of_fr h.gi.stat hf).trans h.ss⟩

/-- One `initialize` call of `System.simulate`. -/
theorem GInit.initAsset {S0 : SStat} {P : Par} {w : World} (h : GInit S0 P w) (a : AssetRef)
    (hn : a ∉ P.done) (h1 : ∀ s, a = .sched s → s < w.scheds.length)
    (h2 : ∀ s, a = .sensor s → s < w.sensors.length) :
    GInit S0 { P with done := P.done ++ [a] } (w.initAsset a) := by
  have hadd : ∀ w' : World, GInit S0 P w' → (∀ s, a ≠ .sched s) → (∀ s, a ≠ .sensor s) →
      GInit S0 { P with done := P.done ++ [a] } w' := by
    intro w' h' n1 n2
    exact ⟨h'.gi.add_done a (fun s he => absurd he (n1 s)) (fun s he => absurd he (n2 s)), h'.inv,
      h'.np, h'.now, h'.ss⟩
  cases a with
  | dev d =>
    refine hadd _ (h.fr (Fr_initDev w d) (noProd_of_recs (initDev_recs w d) h.np))
      (fun s he => by cases he) (fun s he => by cases he)
  | maint m =>
    refine hadd _ (h.fr (Fr.of_view rfl) (noProd_of_recs rfl h.np))
      (fun s he => by cases he) (fun s he => by cases he)
  | cms c =>
    exact hadd _ h (fun s he => by cases he) (fun s he => by cases he)
  | sched s =>
    have hs : s < (tk w).scheds.length := h1 s rfl
    have ha := schedUpdate_refines w s false (h.gi.sok.dur_at s)
    have hfr := ha.frame
    refine ⟨h.gi.sched_start hs hn h.now ha, hfr.inv h.inv, ?_, ?_, hfr.sstat.trans h.ss⟩
    · intro x
      show prodLog (tk (w.schedUpdate s false)).recsT x = []
      rw [schedFrame_prodLog hfr]; exact h.np x
    · show P.t0 = (w.schedUpdate s false).env.now
      rw [hfr.now]; exact h.now
  | sensor s =>
    have hs : s < (tk w).sensors.length := h2 s rfl
    have ha := initSensor_refines w s (fun hk => h.gi.sok.ivl_at s hk)
    have hfr := ha.frame
    refine ⟨h.gi.sens_start hs hn h.now h.np ha, hfr.inv h.inv, ?_, ?_, hfr.sstat.trans h.ss⟩
    · intro x
      rw [hfr.recs]; exact h.np x
    · show P.t0 = (w.initAsset (.sensor s)).env.now
      rw [hfr.now]; exact h.now

theorem GInit.lengths {S0 : SStat} {P : Par} {w : World} (h : GInit S0 P w) :
    w.scheds.length = S0.1.length ∧ w.sensors.length = S0.2.1.length := by
  have h1 : (tk w).scheds.map schedS = S0.1 := congrArg (·.1) h.ss
  have h2 : (tk w).sensors.map sensS = S0.2.1 := congrArg (·.2.1) h.ss
  have := congrArg List.length h1
  have := congrArg List.length h2
  simp only [List.length_map] at *
  exact ⟨by assumption, by assumption⟩

/-- The loop over the registered assets. -/
theorem GInit.foldl {S0 : SStat} (l : List AssetRef) : ∀ (P : Par) (w : World), GInit S0 P w →
    l.Nodup → (∀ a ∈ l, a ∉ P.done) → (∀ s, AssetRef.sched s ∈ l → s < S0.1.length) →
    (∀ s, AssetRef.sensor s ∈ l → s < S0.2.1.length) →
    GInit S0 { P with done := P.done ++ l } (l.foldl (fun w a => w.initAsset a) w) := by
  induction l with
  | nil => intro P w h _ _ _ _; simpa using h
  | cons a l ih =>
    intro P w h hnd hn h1 h2
    rw [List.foldl_cons]
    have hl := h.lengths
    have hstep := h.initAsset a (hn a List.mem_cons_self)
      (fun s he => by rw [hl.1]; exact h1 s (by rw [he]; exact List.mem_cons_self))
      (fun s he => by rw [hl.2]; exact h2 s (by rw [he]; exact List.mem_cons_self))
    have hnd' := List.nodup_cons.mp hnd
    have := ih _ _ hstep hnd'.2 ?_ (fun s hs => h1 s (List.mem_cons_of_mem _ hs))
      (fun s hs => h2 s (List.mem_cons_of_mem _ hs))
    · simpa [List.append_assoc] using this
    · intro b hb hm
      rcases List.mem_append.mp hm with hm | hm
      · exact hn b (List.mem_cons_of_mem _ hb) hm
      · simp only [List.mem_singleton] at hm
        subst hm
        exact hnd'.1 hb


end C19W

/-! ### the static class, fresh worlds, reachable worlds -/

namespace C18W
open World FloorCoreL

/-- A registered asset refers to an existing scheduler / sensor. -/
def refOK (w : World) : AssetRef → Bool
  | .sched s => decide (s < w.scheds.length)
  | .sensor s => decide (s < w.sensors.length)
  | _ => true

/-- **The static class.**  The asset ids of schedulers and sensors differ from 0 and from every
device id; the scripts neither pause / resume / cancel those ids nor create assets; durations in
timetables and intervals of periodic sensors are not negative; every asset is registered once
and scheduler / sensor entries refer to existing schedulers / sensors. -/
structure Static (w : World) : Prop where
  aids : ∀ a ∈ (tk w).ta, a ≠ 0 ∧ ∀ d ∈ w.devs, d.aid ≠ a
  scr : ∀ l ∈ w.scripts, ∀ op ∈ l, opOK (tk w).ta op = true
  dur : ∀ sw ∈ w.scheds, ∀ p ∈ sw.s.tt, 0 ≤ p.1
  ivl : ∀ sw ∈ w.sensors, sw.s.kind = .periodic → 0 ≤ sw.s.interval
  nodup : w.assets.Nodup
  refs : ∀ a ∈ w.assets, refOK w a = true

/-- **A fresh world**: not started, a consistent event queue without events of schedulers or
sensors, schedulers at position 0, sensors not yet registered with their machines, no
`.schedUpdate` / `produced` records and no `.act` / `.sense` results yet. -/
structure Fresh (w : World) : Prop where
  notStarted : w.started = false
  queue : C01.Inv w.env
  noTracked : ∀ e ∈ w.env.events ++ w.env.paused, tracked e = false
  idx : ∀ sw ∈ w.scheds, sw.s.idx = 0
  unreg : ∀ sw ∈ w.sensors, sw.registered = false
  noFin : ∀ d ∈ w.devs, d.finSensors = []
  recs : ∀ r ∈ w.recs, trackedRec r = false
  results : ∀ r ∈ w.results, trackedRes r = false

/-- The states reachable from `w0`: initialise, then any sequence of steps of the event loop,
whole runs and scripted operations of the static class issued from outside. -/
inductive Reachable (w0 : World) : World → Prop where
  | init : Reachable w0 w0.simulateInit
  | step {w w' : World} {e : Event} : Reachable w0 w → w.step = some (e, w') → Reachable w0 w'
  | run {w : World} (n : Nat) : Reachable w0 w → Reachable w0 (runLoop n w)
  | runBegin {w : World} (d : Int) : Reachable w0 w → Reachable w0 (w.runBegin d).1
  | ops {w : World} (ops : List Op) : Reachable w0 w →
      (∀ op ∈ ops, opOK (tk w0).ta op = true) → Reachable w0 (w.applyOps ops)

end C18W

namespace C19W
open World FloorCoreL C18W

theorem filter_nil_of_untracked {l : List Event} (h : ∀ e ∈ l, tracked e = false) {p : Event → Bool}
    (hp : ∀ e, p e = true → tracked e = true) : l.filter p = [] := by
  apply filter_eq_nil_of_forall
  intro e he
  cases hpe : p e with
  | false => rfl
  | true =>
    have h1 := h e he
    rw [hp e hpe] at h1
    cases h1

theorem SOK.of_static {w : World} (h : Static w) : SOK (tk w) := by
  refine ⟨⟨?_, h.scr⟩, h.dur, h.ivl⟩
  intro a ha
  refine ⟨(h.aids a ha).1, fun k hk => ?_⟩
  obtain ⟨d, hd, rfl⟩ := List.mem_map.mp hk
  exact (h.aids a ha).2 d hd

theorem getD_mem_or_default {α} [Inhabited α] (l : List α) (i : Nat) :
    l.getD i default ∈ l ∨ l.getD i default = default := by
  by_cases h : i < l.length
  · exact Or.inl (getD_mem l i h)
  · right
    rw [List.getD_eq_getElem?_getD, List.getElem?_eq_none (Nat.le_of_not_lt h)]
    rfl

/-- The invariant holds in a fresh world of the static class (nothing initialised). -/
theorem gi_fresh {w : World} (hs : Static w) (hf : Fresh w) : GI ⟨w.now, []⟩ w.env (tk w) := by
  have hev : ∀ e ∈ w.env.events, tracked e = false :=
    fun e he => hf.noTracked e (List.mem_append.mpr (Or.inl he))
  have hpa : ∀ e ∈ w.env.paused, tracked e = false :=
    fun e he => hf.noTracked e (List.mem_append.mpr (Or.inr he))
  have hlog0 : ∀ s, schedLog (tk w).recsT s = [] := by
    intro s
    rw [show (tk w).recsT = w.recs.filter trackedRec from rfl, schedLog_filter]
    unfold schedLog
    apply List.filterMap_eq_nil_iff.mpr
    intro r hr
    have := hf.recs r hr
    cases r <;> simp [trackedRec] at this ⊢
  have hact0 : ∀ s, actLog (tk w).resT s = [] := by
    intro s
    rw [show (tk w).resT = w.results.filter trackedRes from rfl, actLog_filter]
    unfold actLog
    apply filter_eq_nil_of_forall
    intro r hr
    have := hf.results r hr
    cases r <;> simp [trackedRes] at this ⊢
  refine ⟨SOK.of_static hs, fun s => ⟨fun hc => by simp at hc, fun _ => ?_⟩,
    fun s => ⟨fun hc => by simp at hc, fun _ => ?_⟩,
    fun s => ⟨[], by rw [hlog0]; rfl, by rw [hlog0, hact0]; rfl⟩⟩
  · refine ⟨?_, ?_, filter_nil_of_untracked hev (fun _ => suEv_tracked),
      filter_nil_of_untracked hpa (fun _ => suEv_tracked)⟩
    · rcases getD_mem_or_default w.scheds s with h | h
      · exact hf.idx _ h
      · show (w.scheds.getD s default).s.idx = 0
        rw [h]; rfl
    · rw [show (tk w).recsT = w.recs.filter trackedRec from rfl, schedLog_filter]
      unfold schedLog
      apply List.filterMap_eq_nil_iff.mpr
      intro r hr
      have := hf.recs r hr
      cases r <;> simp [trackedRec] at this ⊢
  · refine ⟨filter_nil_of_untracked hev (fun _ => psEv_tracked),
      filter_nil_of_untracked hpa (fun _ => psEv_tracked), ?_, ?_, ?_⟩
    · rw [show (tk w).resT = w.results.filter trackedRes from rfl, senseLog_filter]
      unfold senseLog
      apply filter_eq_nil_of_forall
      intro r hr
      have := hf.results r hr
      cases r <;> simp [trackedRes] at this ⊢
    · rcases getD_mem_or_default w.sensors s with h | h
      · exact hf.unreg _ h
      · show (w.sensors.getD s default).registered = false
        rw [h]; rfl
    · intro x
      rw [finS_tk]
      rcases getD_mem_or_default w.devs x with h | h
      · rw [show w.dev x = w.devs.getD x default from rfl, hf.noFin _ h]; rfl
      · rw [show w.dev x = w.devs.getD x default from rfl, h]; rfl

theorem noProd_fresh {w : World} (hf : Fresh w) : NoProd (tk w) := by
  intro x
  rw [prodLog_tk]
  unfold prodLog
  apply List.filterMap_eq_nil_iff.mpr
  intro r hr
  have := hf.recs r hr
  cases r <;> simp [trackedRec] at this ⊢

theorem refs_of_static {w : World} (hs : Static w) :
    (∀ s, AssetRef.sched s ∈ w.assets → s < w.scheds.length) ∧
    (∀ s, AssetRef.sensor s ∈ w.assets → s < w.sensors.length) := by
  constructor
  · intro s h
    have := hs.refs _ h
    simpa [refOK] using this
  · intro s h
    have := hs.refs _ h
    simpa [refOK] using this

theorem GInit.of_view {S0 : SStat} {P : Par} {w w' : World} (h : GInit S0 P w)
    (hv : view w' = view w) : GInit S0 P w' := by
  have he : w'.env = w.env := view_env hv
  have ht : tk w' = tk w := view_tk hv
  refine ⟨?_, ?_, ?_, ?_, ?_⟩
  · rw [he, ht]; exact h.gi
  · rw [he]; exact h.inv
  · rw [ht]; exact h.np
  · show P.t0 = w'.env.now
    rw [he]; exact h.now
  · rw [ht]; exact h.ss

theorem simulateInit_eq (w : World) (h : w.started = false) :
    w.simulateInit =
      { (({ w with rm := w.rm.init.1 } : World).rmEffects w.rm.init.2.1 w.rm.init.2.2).assets.foldl
          (fun w a => w.initAsset a)
          (({ w with rm := w.rm.init.1 } : World).rmEffects w.rm.init.2.1 w.rm.init.2.2) with
        started := true } := by
  unfold simulateInit
  rw [h]
  rfl

/-- **`System.simulate`'s initialisation establishes the invariant** with every registered
scheduler and sensor initialised at the current time. -/
theorem ginit_simulateInit {w : World} (hs : Static w) (hf : Fresh w) :
    GInit (sstat (tk w)) ⟨w.now, w.assets⟩ w.simulateInit := by
  rw [simulateInit_eq w hf.notStarted, World.rmEffects_assets]
  have h0 : GInit (sstat (tk w)) ⟨w.now, []⟩ w :=
    { gi := gi_fresh hs hf, inv := hf.queue, np := noProd_fresh hf, now := rfl, ss := rfl }
  have h1 : GInit (sstat (tk w)) ⟨w.now, []⟩
      (({ w with rm := w.rm.init.1 } : World).rmEffects w.rm.init.2.1 w.rm.init.2.2) := by
    have hv : view ({ w with rm := w.rm.init.1 } : World) = view w := rfl
    refine h0.fr ((Fr.of_view hv).trans (Fr_rmEffects _ _ _)) ?_
    intro x
    rw [prodLog_tk, C15.rmEffects_recs', prodLog_append, prodLog_stamp, List.append_nil]
    have := noProd_fresh hf x
    rw [prodLog_tk] at this
    exact this
  obtain ⟨r1, r2⟩ := refs_of_static hs
  have hl := h0.lengths
  have h2 := GInit.foldl w.assets _ _ h1 hs.nodup (fun a _ hm => by cases hm)
    (fun s hm => by rw [← hl.1]; exact r1 s hm) (fun s hm => by rw [← hl.2]; exact r2 s hm)
  exact GInit.of_view h2 rfl


/-! ### the world: the event loop -/

/-- The closed-world invariant of schedulers and sensors. -/
structure WI (S0 : SStat) (P : Par) (w : World) : Prop where
  gi : GI P w.env (tk w)
  inv : C01.Inv w.env
  ss : sstat (tk w) = S0

theorem GInit.wi {S0 : SStat} {P : Par} {w : World} (h : GInit S0 P w) : WI S0 P w :=
  ⟨h.gi, h.inv, h.ss⟩

theorem WI.fr {S0 : SStat} {P : Par} {w w' : World} (h : WI S0 P w) (hf : Fr w w') : WI S0 P w' := by
  obtain ⟨h1, h2, _⟩ := h.gi.fr h.inv hf
  exact ⟨h1, h2, (sstat_of_fr h.gi.stat hf).trans h.ss⟩

theorem step_cases {w w' : World} {ev : Event} (h : w.step = some (ev, w')) :
    ∃ es, w.env.events = ev :: es ∧
      w' = if ev.live then ({ w with env := popEnv w.env ev es } : World).exec (Action.ofNat ev.act)
           else { w with env := popEnv w.env ev es } := by
  unfold World.step at h
  split at h
  · cases h
  · rename_i e0 env' hs
    obtain ⟨es, he, rfl⟩ := Env.step_some.mp hs
    simp only [Option.some.injEq, Prod.mk.injEq] at h
    obtain ⟨rfl, rfl⟩ := h
    exact ⟨es, he, rfl⟩

/-- **One step of the event loop keeps the invariant.** -/
theorem WI.step {S0 : SStat} {P : Par} {w w' : World} {ev : Event} (h : WI S0 P w)
    (hst : w.step = some (ev, w')) : WI S0 P w' := by
  obtain ⟨es, he, rfl⟩ := step_cases hst
  have hi1 : C01.Inv (popEnv w.env ev es) :=
    C01.inv_step h.inv (Env.step_some.mpr ⟨es, he, rfl⟩)
  by_cases ht : tracked ev = true
  · have hown := h.gi.owner (x := ev) (by rw [he]; simp) ht
    rcases hown with ⟨s, hs, h2, h3, _, _⟩ | ⟨s, hs, h2, h3, _, hk, _⟩
    · -- a scheduler transition
      obtain ⟨_, hcan, _⟩ := ((h.gi.sched s).1 ⟨h2, h3⟩).pop he hs false
      have hlive : ev.live = true := by simp [Event.live, hcan]
      have hact : ev.act = 9 + 16 * s := by simpa [suEv] using hs
      rw [if_pos hlive, hact, ofNat_su]
      show WI S0 P (({ w with env := popEnv w.env ev es } : World).schedUpdate s true)
      have ha := schedUpdate_refines ({ w with env := popEnv w.env ev es } : World) s true
        (h.gi.sok.dur_at s)
      exact ⟨h.gi.sched_adv h.inv he hs ha, ha.frame.inv hi1, ha.frame.sstat.trans h.ss⟩
    · -- a periodic measurement
      have hnow : w.env.now ≤ ev.time := h.inv.future ev (by rw [he]; exact List.mem_cons_self)
      obtain ⟨_, hcan, _⟩ := (((h.gi.sens s).1 ⟨h2, h3⟩).1 hk).pop he hs hnow false
      have hlive : ev.live = true := by simp [Event.live, hcan]
      have hact : ev.act = 10 + 16 * s := by simpa [psEv] using hs
      rw [if_pos hlive, hact, ofNat_ps]
      show WI S0 P (({ w with env := popEnv w.env ev es } : World).periodicSense s)
      have ha := periodicSense_refines ({ w with env := popEnv w.env ev es } : World) s
        (h.gi.sok.ivl_at s hk)
      exact ⟨h.gi.sense_adv h.inv he hs (by rw [List.length_map]; rfl) ha, ha.frame.inv hi1, ha.frame.sstat.trans h.ss⟩
  · have ht' : tracked ev = false := by simpa using ht
    have h1 : WI S0 P ({ w with env := popEnv w.env ev es } : World) :=
      ⟨h.gi.pop_untracked h.inv he ht', hi1, h.ss⟩
    split
    · exact h1.fr (Fr_exec _ _ (isTrackedAct_ofNat ht'))
    · exact h1

theorem WI.of_view {S0 : SStat} {P : Par} {w w' : World} (h : WI S0 P w) (hv : view w' = view w) :
    WI S0 P w' := h.fr (Fr.of_view hv)

theorem WI.runLoop {S0 : SStat} {P : Par} (n : Nat) : ∀ {w : World}, WI S0 P w → WI S0 P (runLoop n w) := by
  induction n with
  | zero => intro w h; exact h.of_view (view_setErr _ _)
  | succ n ih =>
    intro w h
    rw [World.runLoop]
    split
    · split
      · exact h
      · rename_i hs; exact ih (h.step hs)
    · exact h

theorem WI.runBegin {S0 : SStat} {P : Par} {w : World} (h : WI S0 P w) (d : Int) :
    WI S0 P (w.runBegin d).1 := by
  unfold World.runBegin
  dsimp only
  split
  · exact h
  · rename_i e hs
    unfold Env.runBegin at hs
    obtain ⟨_, rfl⟩ := Env.schedule_some.mp hs
    have hinv : C01.Inv (Env.withEvent { w.env with terminated := false } (Arith.exact.add w.env.now d)
        (-1) terminateAct prioTerminate
        (weightOf w.seed w.wmod (w.env.now + d) (-1) terminateAct pTerminate)) :=
      C01.inv_runBegin Arith.exact h.inv (by unfold Env.runBegin; exact hs)
    refine ⟨h.gi.env ?_ rfl (Int.le_refl _), hinv, h.ss⟩
    exact C06W.filter_insort_neg _ _ _ rfl

theorem WI.applyOps {S0 : SStat} {P : Par} {w : World} (h : WI S0 P w) (ops : List Op)
    (hops : ∀ op ∈ ops, opOK (tk w).ta op = true) : WI S0 P (w.applyOps ops) :=
  h.fr (Fr_applyOps w ops hops)

theorem ta_of_ss {S0 : SStat} {P : Par} {w w' : World} (h : WI S0 P w) (h' : sstat (tk w') = S0) :
    (tk w).ta = (tk w').ta := ta_of_sstat (h.ss.trans h'.symm)

/-- **The invariant holds in every reachable state.** -/
theorem wi_reachable {w0 w : World} (hs : Static w0) (hf : Fresh w0) (hr : Reachable w0 w) :
    WI (sstat (tk w0)) ⟨w0.now, w0.assets⟩ w := by
  induction hr with
  | init => exact (ginit_simulateInit hs hf).wi
  | step _ hst ih => exact ih.step hst
  | run n _ ih => exact ih.runLoop n
  | runBegin d _ ih => exact ih.runBegin d
  | ops ops _ hops ih =>
    refine ih.applyOps ops ?_
    rw [ta_of_ss ih rfl]
    exact hops

end C19W
end SimProc
