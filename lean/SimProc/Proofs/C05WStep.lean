/-
C05W machinery, part 8: events.  Every action other than `passPart` leaves the auxiliary view and
the `kids` of the existing parts alone; the queue invariant of the environment is preserved by every
action; hence the clock never goes backwards and `C05.BufOK` holds for every buffer in every
reachable state.
-/
import SimProc.Proofs.C05WBuf
import SimProc.Proofs.C05WWorld
import SimProc.Proofs.C05WEnv
namespace SimProc
namespace C05W
open World C02V

/-! ### the queue invariant through `Model/World.lean` -/

theorem ei_applyOp (w : World) (op : Op) (hn : NoRC op) (h : EI w) : EI (w.applyOp op).1 := by
  cases op
  case rewire d ups => exact absurd hn id
  case create s => exact absurd hn id
  all_goals (unfold World.applyOp; einv)

theorem ei_applyOps (ops : List Op) : ∀ (w : World), (∀ op ∈ ops, NoRC op) → EI w → EI (w.applyOps ops) := by
  induction ops with
  | nil => intro w _ h; exact h
  | cons op ops ih =>
    intro w hok h
    unfold World.applyOps
    simp only [List.foldl_cons]
    have := ih ((w.applyOp op).1.addRes (w.applyOp op).2) (fun o ho => hok o (List.mem_cons_of_mem _ ho))
      (ei_addRes _ (ei_applyOp w op (hok op (List.mem_cons_self ..)) h))
    unfold World.applyOps at this
    exact this

theorem ei_runScript (w : World) (k : Nat) (hs : ScriptsNoRC w) (h : EI w) : EI (w.runScript k) := by
  unfold World.runScript
  apply ei_applyOps _ _ _ h
  intro op hop
  by_cases hk : k < w.scripts.length
  · have : w.scripts.getD k [] = w.scripts[k] := by simp [List.getD_eq_getElem?_getD, hk]
    rw [this] at hop
    exact hs _ (List.getElem_mem hk) op hop
  · have : w.scripts.getD k [] = [] := by simp [List.getD_eq_getElem?_getD, Nat.le_of_not_lt hk]
    rw [this] at hop; cases hop

theorem ei_scan (n : Nat) : ∀ (w : World) (i : Nat), ScriptsNoRC w → EI w → EI (scanWaiting scanOps n w i) := by
  induction n with
  | zero => intro w i _ h; exact h
  | succ n ih =>
    intro w i hs h
    unfold scanWaiting
    split
    · exact h
    · split
      · rename_i req cb _ _
        have key : EI (scanOps.erase (scanOps.call w cb req) i) ∧
            (scanOps.erase (scanOps.call w cb req) i).scripts = w.scripts := by
          cases cb with
          | script k =>
            exact ⟨ei_runScript (w.addRes (.cb k)) k hs h, scr_runScript _ k⟩
          | proc d => exact ⟨ei_procResourceCb d h, scr_procResourceCb w d⟩
        exact ih _ _ (hs.of_eq key.2) key.1
      · exact ih _ _ hs h

theorem ei_rmCheck (w : World) (hs : ScriptsNoRC w) (h : EI w) : EI w.rmCheck := ei_scan _ _ _ hs h

theorem ei_hookStart (w : World) (tgt : Nat) (tag : Int) (hs : ScriptsNoRC w) (h : EI w) :
    EI (w.hookStart tgt tag) := by
  unfold World.hookStart
  simp only []
  split
  · exact ei_shutdownDev _ _ _ (ei_addRes _ h)
  · split
    · exact ei_runScript (w.addRes _) _ hs h
    · exact h

theorem ei_hookEnd (w : World) (tgt : Nat) (tag : Int) (hs : ScriptsNoRC w) (h : EI w) :
    EI (w.hookEnd tgt tag) := by
  unfold World.hookEnd
  simp only []
  split
  · exact ei_restoreDev _ (ei_addRes _ h)
  · split
    · exact ei_runScript (w.addRes _) _ hs h
    · exact h

theorem ei_startWork (w : World) (m seq : Nat) (hs : ScriptsNoRC w) (h : EI w) : EI (w.startWork m seq) := by
  have key : ∀ w' : World, EI w' → w'.scripts = w.scripts → ∀ t g a b c d,
      EI ((w'.hookStart t g).schedLib a b c d) := fun w' e1 e2 t g a b c d =>
    ei_schedLib _ _ _ _ (ei_hookStart w' t g (hs.of_eq e2) e1)
  unfold World.startWork
  split
  · exact ei_setErr _ h
  · simp only []
    refine key _ ?_ ?_ _ _ _ _ _ _
    · exact h
    · rfl

theorem ei_finishWork (w : World) (m seq : Nat) (hs : ScriptsNoRC w) (h : EI w) : EI (w.finishWork m seq) := by
  have key : ∀ w' : World, EI w' → ∀ w'' : World, w''.env = w'.env → ∀ m l, EI (w''.startOrders m l) :=
    fun w' e1 w'' e2 m l => ei_startOrders _ _ (e1.of_env e2)
  unfold World.finishWork
  split
  · exact ei_setErr _ h
  · simp only []
    rename_i o _
    refine key _ (ei_hookEnd w o.target o.tag hs h) _ ?_ _ _
    rfl

theorem ei_exec (w : World) (a : Action) (hs : ScriptsNoRC w) (h : EI w) : EI (w.exec a) := by
  cases a with
  | terminate => exact h
  | script k => exact ei_runScript w k hs h
  | finishCycle d => exact ei_finishCycle d h
  | passPart d => exact ei_passPart d h
  | fail d => exact ei_failDev d h
  | releaseIfIdle d => exact ei_releaseIfIdle d h
  | rmCheck => exact ei_rmCheck w hs h
  | startWork m o => exact ei_startWork w m o hs h
  | finishWork m o => exact ei_finishWork w m o hs h
  | schedUpdate s => exact ei_schedUpdate s true h
  | periodicSense s => exact ei_periodicSense s h
  | unknown n => exact ei_setErr _ h

theorem ei_simulateInit (w : World) (h : EI w) : EI w.simulateInit := by
  unfold World.simulateInit
  split
  · exact h
  · simp only []
    show EI (List.foldl _ _ _)
    apply foldl_inv (fun w' => EI w')
    · exact ei_rmEffects _ _ h
    · intro b a hb; exact ei_initAsset a hb

/-! ### the actions other than `passPart` -/

theorem kids_failDev (w : World) (x q : Nat) : ((w.failDev x).part q).kids = (w.part q).kids := by
  unfold World.failDev
  simp only []
  rw [kids_of_sv (sv_shutdownDev ..), kids_of_sv (sv_addRec ..), kids_of_sv (sv_releaseReserved ..)]
  rw [part_modDev]
  split <;> rfl

theorem parts_failDev (w : World) (x : Nat) : (w.failDev x).parts.length = w.parts.length := by
  unfold World.failDev
  simp only []
  rw [parts_len_of_sv (sv_shutdownDev ..), parts_len_of_sv (sv_addRec ..), parts_len_of_sv (sv_releaseReserved ..)]
  split <;> simp [World.modDev, World.setDev]

/-- Every action except `passPart` leaves the auxiliary view and the old `kids` alone. -/
theorem quiet_exec (w : World) (a : Action) (hs : ScriptsNoRC w) (ha : ∀ d, a ≠ .passPart d) :
    bv (w.exec a) = bv w ∧ KO w (w.exec a) := by
  cases a with
  | terminate => exact ⟨rfl, KOx.refl _ _⟩
  | script k => exact ⟨bv_of_sb (sb_runScript w k hs), KO.of_sv (sv_of_sb (sb_runScript w k hs))⟩
  | finishCycle d => exact ⟨bv_finishCycle w d, ko_finishCycle w d⟩
  | passPart d => exact absurd rfl (ha d)
  | fail d => exact ⟨bv_failDev w d, Nat.le_of_eq (parts_failDev w d).symm, fun q _ _ => kids_failDev w d q⟩
  | releaseIfIdle d => exact ⟨bv_releaseIfIdle w d, KO.of_sv (sv_releaseIfIdle w d)⟩
  | rmCheck => exact ⟨bv_of_sb (sb_rmCheck w hs), KO.of_sv (sv_of_sb (sb_rmCheck w hs))⟩
  | startWork m o => exact ⟨bv_of_sb (sb_startWork w m o hs), KO.of_sv (sv_of_sb (sb_startWork w m o hs))⟩
  | finishWork m o => exact ⟨bv_of_sb (sb_finishWork w m o hs), KO.of_sv (sv_of_sb (sb_finishWork w m o hs))⟩
  | schedUpdate s => exact ⟨bv_schedUpdate w s true, KO.of_sv (sv_schedUpdate w s true)⟩
  | periodicSense s => exact ⟨bv_periodicSense w s, KO.of_sv (sv_periodicSense w s)⟩
  | unknown n => exact ⟨bv_setErr .., KO.of_sv (sv_setErr ..)⟩

theorem kind_exec (w : World) (a : Action) (hw : Static w) (y : Nat) :
    ((w.exec a).dev y).kind = (w.dev y).kind :=
  kind_of_tv (sr_exec (fun d => (w.dev d).kind = .sink) w a ⟨fun _ => Iff.rfl, hw.1⟩).1 y

/-! ### the closed-world invariant of C05W -/

/-- Conservation, static well-formedness, the queue invariant, and the contract of every buffer. -/
structure BI (w : World) : Prop where
  inv : InvW w
  stat : Static w
  ei : EI w
  buf : BufAll w

theorem bufAll_exec (w : World) (a : Action) (hI : InvW w) (hw : Static w) (hB : BufAll w)
    (ha : ActOK w a) : BufAll (w.exec a) := by
  by_cases hp : ∃ d, a = .passPart d
  · obtain ⟨d, rfl⟩ := hp
    exact bufAll_passPart w d hI hB ha
  · have hq := quiet_exec w a (scriptsNoRC_of_static hw.1) (fun d hd => hp ⟨d, hd⟩)
    exact bufAll_of_ko hI (kind_exec w a hw) (fun y => bdev_of_bv hq.1 y)
      (by rw [now_of_bv hq.1]; exact Int.le_refl _) hq.2 hB

theorem bi_step (w w' : World) (e : Event) (h : BI w) (hst : w.step = some (e, w')) : BI w' := by
  obtain ⟨hI', hS'⟩ := static_step w w' e h.inv h.stat hst
  refine ⟨hI', hS', ?_, ?_⟩
  all_goals
    unfold World.step at hst
    split at hst
    · cases hst
    · rename_i e' env' henv
      simp only [Option.some.injEq, Prod.mk.injEq] at hst
      obtain ⟨rfl, rfl⟩ := hst
      have hS1 := static_pop w e' env' h.stat henv
      have hE1 : EI ({ w with env := env' } : World) := C01.inv_step h.ei henv
      have hI1 : InvW ({ w with env := env' } : World) := h.inv.of_sv rfl
      have hB1 : BufAll ({ w with env := env' } : World) := by
        intro x hx
        exact bufOK_transport (w := w) rfl (C01.step_clock h.ei henv).2 (fun _ _ => rfl) (h.buf x hx)
      split
      · first
        | exact ei_exec _ _ (scriptsNoRC_of_static hS1.1) hE1
        | exact bufAll_exec _ _ hI1 hS1 hB1 (static_actOK w e' env' h.stat henv)
      · first | exact hE1 | exact hB1

theorem bi_runLoop (n : Nat) : ∀ (w : World), BI w → BI (runLoop n w) := by
  induction n with
  | zero =>
    intro w h
    have hr := static_runLoop 0 w h.inv h.stat
    refine ⟨hr.1, hr.2, ei_setErr _ h.ei, ?_⟩
    exact bufAll_of_frame (w' := w.setErr "fuel") (st_setErr ..) (bv_setErr ..) (fun q => by rw [part_setErr]) h.buf
  | succ n ih =>
    intro w h
    unfold runLoop
    split
    · split
      · exact h
      · rename_i e w' hst
        exact ih w' (bi_step w w' e h hst)
    · exact h

end C05W
end SimProc
