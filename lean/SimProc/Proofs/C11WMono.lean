/-
Machinery for `Props/C11W.lean`, part 2: the part-flow functions of `Model/Floor.lean` that are
benign steps (`MonoS` / `Mono`, see `C11WBase.lean`).
-/
import SimProc.Proofs.C11WBase

namespace SimProc
namespace C11W
open World FloorCoreL

/-- side condition "the part in process of a processor is untouched" -/
macro "mono_side" : tactic => `(tactic| first
  | rfl
  | (intro _; rfl)
  | (intro hk; simp_all; done))

/-- Peel the outermost primitive off a goal `MonoS w (prim …)` (extended by `macro_rules`). -/
syntax "monoS_peel" : tactic
macro_rules | `(tactic| monoS_peel) => `(tactic| first
  | exact MonoS.refl _
  | refine MonoS.trans ?_ (monoS_modPart _ _ _)
  | refine MonoS.trans ?_ (monoS_addRec _ _)
  | refine MonoS.trans ?_ (monoS_addRes _ _)
  | refine MonoS.trans ?_ (monoS_setErr _ _)
  | refine MonoS.trans ?_ (monoS_addHist _ _ _)
  | refine MonoS.trans ?_ (monoS_dropHist _ _)
  | refine MonoS.trans ?_ (monoS_senseOutput _ _ _)
  | refine MonoS.trans ?_ (monoS_rmEffects _ _ _)
  | refine MonoS.trans ?_ (monoS_newPart _ _)
  | refine MonoS.trans ?_ (monoS_modDev _ _ _ (by mono_side) (by mono_side))
  | refine MonoS.trans ?_ (monoS_setDev _ _ _ (by mono_side) (by mono_side)))

theorem monoS_setWaiting (w : World) (x : Nat) (a b : Bool) : MonoS w (w.setWaiting x a b) := by
  unfold setWaiting
  dsimp only
  repeat' split
  all_goals repeat monoS_peel

theorem monoS_schedulePass (w : World) (x : Nat) (o : Int) : MonoS w (w.schedulePass x o) := by
  unfold schedulePass
  dsimp only
  split
  · exact MonoS.refl w
  · refine MonoS.trans ?_ (monoS_schedLib_plain _ _ _ _ _ (plain_passPart x))
    repeat monoS_peel

theorem monoS_notify_aux (f : Nat) :
    ∀ w x, MonoS w (notifyUp f w x) ∧ MonoS w (spaceAvail f w x) := by
  induction f with
  | zero =>
    intro w x
    exact ⟨by unfold notifyUp; exact monoS_setErr .., by unfold spaceAvail; exact monoS_setErr ..⟩
  | succ f ih =>
    intro w x
    have hS : ∀ (w : World) (l : List Nat), MonoS w (l.foldl (fun w u => spaceAvail f w u) w) :=
      fun w l => monoS_foldl _ l w (fun w a => (ih w a).2)
    have hN : ∀ (w : World) (l : List Nat), MonoS w (l.foldl (fun w u => notifyUp f w u) w) :=
      fun w l => monoS_foldl _ l w (fun w a => (ih w a).1)
    constructor
    · unfold notifyUp
      dsimp only
      repeat' split
      all_goals first
        | exact MonoS.refl _
        | exact (monoS_setWaiting ..).trans (hS _ _)
        | exact hN _ _
        | exact hS _ _
    · unfold spaceAvail
      dsimp only
      repeat' split
      all_goals first
        | exact MonoS.refl _
        | exact (ih _ _).1
        | exact (ih _ _).2
        | exact monoS_schedulePass ..

theorem monoS_notify (w : World) (x : Nat) : MonoS w (w.notify x) := (monoS_notify_aux _ w x).1
theorem monoS_spaceAvailable (w : World) (x : Nat) : MonoS w (w.spaceAvailable x) :=
  (monoS_notify_aux _ w x).2

theorem monoS_applyPartCb (w : World) (x p : Nat) (c : PartCb) : MonoS w (w.applyPartCb x p c) := by
  rw [applyPartCb_eq]
  split
  · exact monoS_modDev _ _ _ rfl (fun _ => rfl)
  · exact (monoS_modDev _ _ _ rfl (fun _ => rfl)).trans (monoS_modPart _ _ _)

theorem monoS_genPart (w : World) (x : Nat) : MonoS w (w.genPart x).1 := by
  unfold genPart
  dsimp only
  split
  · exact MonoS.of_eq rfl rfl rfl rfl
  · have key : ∀ (l : List Nat) (acc : World × List Nat),
        (l.foldl (fun (acc : World × List Nat) _ =>
          ((acc.1.newPart { quality := (w.dev x).genQuality, value := (w.dev x).genValue }).1,
            acc.2 ++ [(acc.1.newPart { quality := (w.dev x).genQuality, value := (w.dev x).genValue }).2]))
          acc).1.devs = acc.1.devs ∧
        (l.foldl (fun (acc : World × List Nat) _ =>
          ((acc.1.newPart { quality := (w.dev x).genQuality, value := (w.dev x).genValue }).1,
            acc.2 ++ [(acc.1.newPart { quality := (w.dev x).genQuality, value := (w.dev x).genValue }).2]))
          acc).1.rm = acc.1.rm ∧
        (l.foldl (fun (acc : World × List Nat) _ =>
          ((acc.1.newPart { quality := (w.dev x).genQuality, value := (w.dev x).genValue }).1,
            acc.2 ++ [(acc.1.newPart { quality := (w.dev x).genQuality, value := (w.dev x).genValue }).2]))
          acc).1.env = acc.1.env ∧
        (l.foldl (fun (acc : World × List Nat) _ =>
          ((acc.1.newPart { quality := (w.dev x).genQuality, value := (w.dev x).genValue }).1,
            acc.2 ++ [(acc.1.newPart { quality := (w.dev x).genQuality, value := (w.dev x).genValue }).2]))
          acc).1.scripts = acc.1.scripts := by
      intro l
      induction l with
      | nil => intro acc; exact ⟨rfl, rfl, rfl, rfl⟩
      | cons a l ih =>
        intro acc
        rw [List.foldl_cons]
        obtain ⟨h1, h2, h3, h4⟩ := ih
          ((acc.1.newPart { quality := (w.dev x).genQuality, value := (w.dev x).genValue }).1,
            acc.2 ++ [(acc.1.newPart { quality := (w.dev x).genQuality, value := (w.dev x).genValue }).2])
        exact ⟨h1, h2, h3, h4⟩
    obtain ⟨h1, h2, h3, h4⟩ := key (List.range (w.dev x).genBatch.toNat) (w, [])
    exact MonoS.of_eq h1 h2 h3 h4

/-! ### the finish-cycle chain -/

/-- `finishCycleHandler` takes the part out of the input of `x` only. -/
theorem monoX_finishCycleHandler (w : World) (x : Nat)
    (hop : (w.dev x).kind = .processor → (w.dev x).shutDown = false) :
    MonoX x w (w.finishCycleHandler x) := by
  unfold finishCycleHandler
  dsimp only
  repeat' split
  all_goals first
    | exact (monoS_setErr _ _).toX x
    | skip
  refine MonoX.trans ?_ ((monoS_schedulePass _ _ _).toX x)
  exact monoX_setDev w x _ rfl (fun hk => ⟨hop hk, rfl⟩)

theorem monoS_finishCycleHandler (w : World) (x : Nat) (hk : (w.dev x).kind ≠ .processor) :
    MonoS w (w.finishCycleHandler x) :=
  (monoX_finishCycleHandler w x (fun h => absurd h hk)).toS hk

theorem monoX_finishCycle (w : World) (x : Nat)
    (hop : (w.dev x).kind = .processor → (w.dev x).shutDown = false) :
    MonoX x w (w.finishCycle x) := by
  unfold finishCycle
  dsimp only
  split
  · -- source
    refine MonoX.trans ?_ ((monoS_schedulePass _ _ _).toX x)
    split
    · refine MonoS.toX ?_ x
      refine MonoS.trans ?_ (monoS_addHist _ _ _)
      refine MonoS.trans (monoS_genPart w x) (monoS_modDev _ _ _ rfl (fun _ => rfl))
    · exact (MonoS.refl w).toX x
  · -- sink
    refine MonoX.trans ?_ ((monoS_notify _ _).toX x)
    refine MonoX.trans (monoX_finishCycleHandler w x hop) ?_
    exact (monoS_modDev _ _ _ rfl (fun _ => rfl)).toX x
  · -- processor
    next hk =>
    have h1 := monoX_finishCycleHandler w x hop
    have hk1 : ((w.finishCycleHandler x).dev x).kind = .processor := by rw [h1.m0.kind]; exact hk
    have hs1 : ((w.finishCycleHandler x).dev x).shutDown = false := by rw [h1.m0.shutDown]; exact hop hk
    generalize w.finishCycleHandler x = w1 at h1 hk1 hs1
    refine MonoX.trans h1 (MonoS.toX ?_ x)
    have h2 : MonoS w1 (w1.setDev x { w1.dev x with
        timeInUse := (w1.dev x).timeInUse + (w1.now - (w1.dev x).lastUseStart.getD w1.now),
        lastUseStart := none }) := monoS_setDev _ _ _ rfl (fun _ => rfl)
    generalize hw2 : w1.setDev x { w1.dev x with
        timeInUse := (w1.dev x).timeInUse + (w1.now - (w1.dev x).lastUseStart.getD w1.now),
        lastUseStart := none } = w2 at h2
    have h3 : MonoS w2 (if (w1.dev x).reserved.isSome then
        w2.schedLib w2.now (w1.dev x).aid (.releaseIfIdle x) pRelease else w2) := by
      split
      · refine monoS_schedLib _ _ _ _ _ ?_
        intro y _ hy
        rcases hy with hy | hy
        · cases hy
        · cases hy
          rw [h2.m0.aid, h2.m0.shutDown]
          exact ⟨rfl, hs1⟩
      · exact MonoS.refl _
    generalize (if (w1.dev x).reserved.isSome then
        w2.schedLib w2.now (w1.dev x).aid (.releaseIfIdle x) pRelease else w2) = w3 at h3
    refine (h2.trans h3).trans ?_
    split
    · exact MonoS.refl _
    · refine MonoS.trans ?_ (monoS_addRec _ _)
      refine MonoS.trans ?_ (monoS_foldl _ _ _ (fun w s => monoS_senseOutput w s _))
      exact monoS_foldl _ _ _ (fun w c => monoS_applyPartCb w x _ c)
  · -- other kinds
    exact monoX_finishCycleHandler w x hop

/-- `_finish_cycle` of a device that is not a shut-down processor is a benign step. -/
theorem mono_finishCycle (w : World) (x : Nat)
    (hop : (w.dev x).kind = .processor → (w.dev x).shutDown = false) :
    Mono w (w.finishCycle x) :=
  (monoX_finishCycle w x hop).toMono (fun hk _ hr =>
    QueuedL.of_queued (finishCycle_release_queued w x hk (by
      cases h : (w.dev x).reserved with
      | none => exact absurd h hr
      | some _ => rfl)))

theorem mono_scheduleFinish (w : World) (x : Nat)
    (hop : (w.dev x).kind = .processor → (w.dev x).shutDown = false) :
    Mono w (w.scheduleFinish x) := by
  unfold scheduleFinish
  dsimp only
  have h1 : MonoS w (w.setDev x { w.dev x with offset := 0 }) := monoS_setDev _ _ _ rfl (fun _ => rfl)
  repeat' split
  all_goals first
    | (refine Mono.trans h1.toMono (mono_finishCycle _ x ?_)
       rw [h1.m0.kind, h1.m0.shutDown]; exact hop)
    | (refine (h1.trans (monoS_schedLib _ _ _ _ _ ?_)).toMono
       intro y hk hy
       rcases hy with hy | hy
       · cases hy
         rw [h1.m0.kind] at hk
         rw [h1.m0.aid, h1.m0.shutDown]
         exact ⟨rfl, hop hk⟩
       · cases hy)


/-! ### more flow-only functions -/

macro_rules | `(tactic| monoS_peel) => `(tactic| first
  | refine MonoS.trans ?_ (monoS_setWaiting _ _ _ _)
  | refine MonoS.trans ?_ (monoS_schedulePass _ _ _)
  | refine MonoS.trans ?_ (monoS_notify _ _)
  | refine MonoS.trans ?_ (monoS_spaceAvailable _ _)
  | refine MonoS.trans ?_ (monoS_applyPartCb _ _ _ _)
  | refine MonoS.trans ?_ (monoS_genPart _ _)
  | refine MonoS.trans ?_ (monoS_schedLib_plain _ _ _ _ _ (by intro _; constructor <;> (intro h; cases h)))
  | refine MonoS.trans ?_ (monoS_foldl _ _ _ (fun w c => monoS_applyPartCb w _ _ c))
  | refine MonoS.trans ?_ (monoS_foldl _ _ _ (fun w s => monoS_senseOutput w s _))
  | refine MonoS.trans ?_ (monoS_foldl _ _ _ (fun w _ => monoS_addRes w _)))

theorem operational_proc {w : World} {x : Nat} (hk : (w.dev x).kind = .processor)
    (ho : w.operational x = true) : (w.dev x).shutDown = false := by
  unfold operational at ho
  simp only [hk] at ho
  simpa using ho

theorem operational_nonproc {w : World} {x : Nat} (hk : (w.dev x).kind ≠ .processor) :
    w.operational x = true := by
  unfold operational
  split
  · next h => exact absurd h hk
  · rfl

theorem monoS_bGet (w : World) (x p : Nat) (hk : (w.dev x).kind ≠ .processor) :
    MonoS w (bGet w x p).1 := by
  unfold bGet
  dsimp only
  repeat' split
  all_goals dsimp only
  all_goals repeat monoS_peel

theorem monoS_bAdd (w : World) (x t : Nat) : MonoS w (bAdd w x t) := by
  unfold bAdd
  dsimp only
  repeat' split
  all_goals repeat monoS_peel

theorem monoS_batcherLoop (f : Nat) : ∀ (w : World) (x : Nat), (w.dev x).kind ≠ .processor →
    MonoS w (batcherLoop f w x) := by
  induction f with
  | zero => intro w x _; exact MonoS.refl w
  | succ f ih =>
    intro w x hk
    rw [batcherLoop_succ]
    split
    · rename_i p _ _
      have h1 : MonoS w (bAdd (bGet w x p).1 x (bGet w x p).2) :=
        (monoS_bGet w x p hk).trans (monoS_bAdd _ x _)
      exact h1.trans (ih _ x (by rw [h1.m0.kind]; exact hk))
    · exact MonoS.refl w

theorem mono_tryMove (w : World) (x : Nat) : Mono w (w.tryMove x) := by
  unfold tryMove
  dsimp only
  split
  · -- buffer
    refine MonoS.toMono ?_
    repeat' split
    all_goals repeat monoS_peel
  · -- batcher
    next hk =>
    refine MonoS.toMono ?_
    have hnp : (w.dev x).kind ≠ .processor := by rw [hk]; decide
    repeat' split
    all_goals first
      | exact MonoS.refl _
      | exact monoS_setDev _ _ _ rfl (fun h => absurd h hnp)
      | exact (monoS_batcherLoop _ w x hnp).trans (monoS_schedulePass _ _ _)
      | exact monoS_batcherLoop _ w x hnp
  · -- processor
    next hk =>
    split
    · next hc =>
      have hop : w.operational x = true := by
        simp only [Bool.and_eq_true] at hc; exact hc.1.1
      have h1 : MonoS w (w.setDev x { w.dev x with lastUseStart := some w.now }) :=
        monoS_setDev _ _ _ rfl (fun _ => rfl)
      refine Mono.trans h1.toMono (mono_scheduleFinish _ x ?_)
      rw [h1.m0.kind, h1.m0.shutDown]
      exact fun hk' => operational_proc hk' hop
    · exact Mono.refl w
  · -- other kinds
    next hnb hnba hnp =>
    split
    · exact mono_scheduleFinish w x (fun h => absurd h hnp)
    · exact Mono.refl w

theorem mono_onReceived (w : World) (x p : Nat) : Mono w (w.onReceived x p) := by
  unfold onReceived
  dsimp only
  have key : ∀ w0 : World, MonoS w w0 →
      Mono w (if ((List.foldl (fun w c => w.applyPartCb x p c)
          (w0.addRec (.received x w0.now p (w0.part p).quality (w0.partValue p)))
          ((w0.addRec (.received x w0.now p (w0.part p).quality (w0.partValue p))).dev x).recvCbs).dev x).output.isNone
        then (List.foldl (fun w c => w.applyPartCb x p c)
          (w0.addRec (.received x w0.now p (w0.part p).quality (w0.partValue p)))
          ((w0.addRec (.received x w0.now p (w0.part p).quality (w0.partValue p))).dev x).recvCbs).tryMove x
        else List.foldl (fun w c => w.applyPartCb x p c)
          (w0.addRec (.received x w0.now p (w0.part p).quality (w0.partValue p)))
          ((w0.addRec (.received x w0.now p (w0.part p).quality (w0.partValue p))).dev x).recvCbs) := by
    intro w0 h0
    have h1 : MonoS w (List.foldl (fun w c => w.applyPartCb x p c)
          (w0.addRec (.received x w0.now p (w0.part p).quality (w0.partValue p)))
          ((w0.addRec (.received x w0.now p (w0.part p).quality (w0.partValue p))).dev x).recvCbs) :=
      (h0.trans (monoS_addRec _ _)).trans (monoS_foldl _ _ _ (fun w c => monoS_applyPartCb w x p c))
    split
    · exact h1.toMono.trans (mono_tryMove _ x)
    · exact h1.toMono
  split
  · refine key _ ?_
    repeat monoS_peel
  · refine key _ ?_
    repeat monoS_peel
  · exact key _ (MonoS.refl w)

/-- Everything `_accept_part` does after the part has been put into the input slot. -/
def acceptTail (w : World) (x p : Nat) : World :=
  ((w.addHist p x).setWaiting x false false).onReceived x p

theorem mono_acceptTail (w : World) (x p : Nat) : Mono w (acceptTail w x p) := by
  unfold acceptTail
  exact ((monoS_addHist w p x).trans (monoS_setWaiting _ _ _ _)).toMono.trans (mono_onReceived _ x p)

theorem acceptPart_eq (w : World) (x p : Nat) :
    w.acceptPart x p =
      acceptTail ((if (w.dev x).kind == .sink then { w with delivered := w.delivered ++ w.leavesOf p }
        else w).modDev x (fun d => { d with part := some p })) x p := rfl

/-- Accepting a part is a benign step for every device that is not a processor. -/
theorem mono_acceptPart (w : World) (x p : Nat) (hk : (w.dev x).kind ≠ .processor) :
    Mono w (w.acceptPart x p) := by
  rw [acceptPart_eq]
  refine Mono.trans (MonoS.toMono ?_) (mono_acceptTail _ x p)
  split
  · refine MonoS.trans (w1 := { w with delivered := w.delivered ++ w.leavesOf p })
      (MonoS.of_eq rfl rfl rfl rfl) ?_
    exact monoS_modDev _ _ _ rfl (fun h => absurd h hk)
  · exact monoS_modDev _ _ _ rfl (fun h => absurd h hk)

theorem monoS_setBlock (w : World) (x : Nat) (b : Bool) : MonoS w (w.setBlock x b) := by
  unfold setBlock
  dsimp only
  repeat' split
  all_goals repeat monoS_peel

theorem monoS_adjustParts (w : World) (x : Nat) (v : Int) : MonoS w (w.adjustParts x v) := by
  unfold adjustParts
  dsimp only
  repeat' split
  all_goals repeat monoS_peel

theorem mono_initDev (w : World) (x : Nat) : Mono w (w.initDev x) := by
  unfold initDev
  dsimp only
  have h1 : MonoS w (w.modDev x (fun d => { d with inited := true, val := d.val.reset })) :=
    monoS_modDev _ _ _ rfl (fun _ => rfl)
  split
  · exact h1.toMono
  · exact h1.toMono
  · exact h1.toMono
  · exact h1.toMono
  · refine MonoS.toMono ?_
    repeat monoS_peel
  · next hk =>
    refine Mono.trans (MonoS.toMono ?_) (mono_scheduleFinish _ x ?_)
    · repeat monoS_peel
    · intro h
      have h2 : MonoS w ((w.modDev x (fun d => { d with inited := true, val := d.val.reset })).setWaiting x true true) :=
        h1.trans (monoS_setWaiting _ _ _ _)
      rw [h2.m0.kind, ← h1.m0.kind, hk] at h
      cases h
  · refine MonoS.toMono ?_
    repeat monoS_peel

end C11W
end SimProc
