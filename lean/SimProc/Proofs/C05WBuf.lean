/-
C05W machinery, part 5: the buffer contract `C05.BufOK` of EVERY buffer is preserved by `passPart`
(the only event that changes a queue, a level or the `kids` of a part), in every topology.
-/
import SimProc.Proofs.C05WHand
import SimProc.Props.C05
namespace SimProc
namespace C05W
open World C02V

/-- Every buffer satisfies its contract. -/
def BufAll (w : World) : Prop := ∀ x, (w.dev x).kind = .buffer → C05.BufOK w x

theorem leafCount_of_kids {w w' : World} {q : Nat} (h : (w'.part q).kids = (w.part q).kids) :
    w'.leafCount q = w.leafCount q := by
  unfold World.leafCount; rw [h]

theorem bdev_fields {d d' : Dev} (h : bdev d' = bdev d) :
    d'.level = d.level ∧ d'.buf = d.buf ∧ d'.cap = d.cap ∧ d'.delay = d.delay ∧ d'.bsize = d.bsize ∧
      d'.inprog = d.inprog :=
  ⟨congrArg BDev.level h, congrArg BDev.buf h, congrArg BDev.cap h, congrArg BDev.delay h,
    congrArg BDev.bsize h, congrArg BDev.inprog h⟩

/-- The contract only depends on the auxiliary view of the buffer, the clock (which may advance)
and the leaf counts of the stored parts. -/
theorem bufOK_transport {w w' : World} {x : Nat}
    (hb : bdev (w'.dev x) = bdev (w.dev x)) (hn : w.now ≤ w'.now)
    (hk : ∀ e ∈ (w.dev x).buf, w'.leafCount e.2 = w.leafCount e.2)
    (h : C05.BufOK w x) : C05.BufOK w' x := by
  obtain ⟨h1, h2, h3, _, _, _⟩ := bdev_fields hb
  have hs : C05.leafSum w' (w'.dev x).buf = C05.leafSum w (w.dev x).buf := by
    unfold C05.leafSum; rw [h2, C05.entries_congr hk]
  refine ⟨by rw [hs, h1]; exact h.levelEq, fun c hc => by rw [hs]; exact h.capOk c (h3 ▸ hc),
    by rw [h2]; exact h.sorted, fun e he => ?_⟩
  rw [h2] at he
  exact Int.le_trans (h.arrived e he) hn

theorem bufAll_of_frame {w w' : World} (hst : st w' = st w) (hbv : bv w' = bv w)
    (hk : ∀ q, (w'.part q).kids = (w.part q).kids) (h : BufAll w) : BufAll w' := by
  intro x hx
  rw [kind_of_st hst] at hx
  exact bufOK_transport (bdev_of_bv hbv x) (by rw [now_of_bv hbv]; exact Int.le_refl _)
    (fun e _ => leafCount_of_kids (hk e.2)) (h x hx)

theorem bufAll_of_fr3 {w w' : World} (hf : Fr3 w w') (h : BufAll w) : BufAll w' :=
  bufAll_of_frame hf.st hf.bv (kids_of_sv hf.sv) h

theorem buf_mem_held {w : World} {y : Nat} {e : Int × Nat} (he : e ∈ (w.dev y).buf) :
    e.2 ∈ (sdev (w.dev y)).held := by
  simp only [SDev.held, sdev, List.mem_append, List.mem_map]
  exact Or.inl (Or.inr ⟨e, he, rfl⟩)

theorem lt_of_kind_buffer {w : World} {y : Nat} (h : (w.dev y).kind = .buffer) : y < w.devs.length :=
  lt_of_kind (by rw [h]; decide)

/-- The same when parts may have been created (and the clock may have advanced). -/
theorem bufAll_of_ko {w w' : World} (hI : InvW w) (hkind : ∀ y, (w'.dev y).kind = (w.dev y).kind)
    (hbd : ∀ y, bdev (w'.dev y) = bdev (w.dev y)) (hn : w.now ≤ w'.now)
    (hko : KO w w') (h : BufAll w) : BufAll w' := by
  intro x hx
  rw [hkind] at hx
  refine bufOK_transport (hbd x) hn ?_ (h x hx)
  intro e he
  exact hko.leafCount (held_valid hI (lt_of_kind_buffer hx) (buf_mem_held he))

/-- A buffer other than the acceptor, none of whose stored parts is the part handed over. -/
theorem handed_bufOK_other {w w1 w0 : World} {z p : Nat} (hI : InvW w) (hH : Handed w p w1 z w0)
    {y : Nat} (hy : y < w.devs.length) (hyz : y ≠ z) (hne : ∀ e ∈ (w.dev y).buf, e.2 ≠ p)
    (h : C05.BufOK w y) : C05.BufOK w1 y := by
  refine bufOK_transport (hH.bo.bdev_eq hyz) (by rw [hH.bo.now]; exact Int.le_refl _) ?_ h
  intro e he
  apply leafCount_of_kids
  rw [hH.eq]
  exact acc_kids_others z p hI hH.fr hH.lt hy (buf_mem_held he) (hne e he) hyz

/-- The acceptor, if it is a buffer. -/
theorem handed_bufOK_self {w w1 w0 : World} {z p : Nat} (hH : Handed w p w1 z w0)
    (hk : (w.dev z).kind = .buffer) (h : C05.BufOK w z) : C05.BufOK w1 z := by
  have h0 : C05.BufOK w0 z :=
    bufOK_transport (bdev_of_fr3 hH.fr z) (by rw [now_of_bv hH.fr.bv]; exact Int.le_refl _)
      (fun e _ => leafCount_of_kids (kids_of_sv hH.fr.sv e.2)) h
  rw [hH.eq]
  exact C05.acceptPart_ok w0 z p (by rw [devs_len_of_sv hH.fr.sv]; exact hH.lt)
    (by rw [kind_of_fr3 hH.fr]; exact hk) (hH.room hk) h0

theorem held_output_ne_buf {w : World} (hI : InvW w) {x p : Nat} (hx : x < w.devs.length)
    (hp : (w.dev x).output = some p) {e : Int × Nat} (he : e ∈ (w.dev x).buf) : e.2 ≠ p := by
  have hn := SVBatchAux.held_nodup hI.1 (List.mem_of_getElem? (sv_get w x hx))
  simp only [SDev.held, sdev, hp, Option.toList_some] at hn
  intro heq
  rw [List.nodup_append] at hn
  obtain ⟨h1, _, _⟩ := hn
  rw [List.nodup_append] at h1
  obtain ⟨_, _, h3⟩ := h1
  refine h3 p ?_ e.2 (List.mem_map.2 ⟨e, he, rfl⟩) heq.symm
  simp

/-- `p` is held by `x`; a part stored in another device's queue is not `p`. -/
theorem stored_ne_of_held {w : World} (hI : InvW w) {x y p : Nat} (hx : x < w.devs.length)
    (hy : y < w.devs.length) (hp : p ∈ (sdev (w.dev x)).held) (hxy : y ≠ x)
    {e : Int × Nat} (he : e ∈ (w.dev y).buf) : e.2 ≠ p := by
  intro heq
  exact hxy (SVBatchAux.held_unique hI.1 (sv_get w y hy) (sv_get w x hx) (heq ▸ buf_mem_held he) hp)

/-! ### `passHandler` -/

theorem bufAll_passHandler (w : World) (x : Nat) (hI : InvW w) (hB : BufAll w) (hg : GiveOK w x) :
    BufAll (w.passHandler x) := by
  unfold World.passHandler
  simp only []
  split
  · exact hB
  · split
    · exact hB
    · rename_i p hp
      have hx : x < w.devs.length := lt_of_output hp
      cases hb : (tryList givePart w (w.sortedDown x) p).2 with
      | false =>
        have hf := (tryGive_gd w (w.sortedDown x) p).1 hb
        have : tryList givePart w (w.sortedDown x) p = ((tryList givePart w (w.sortedDown x) p).1, false) := by
          rw [← hb]
        rw [this]
        simp only []
        refine bufAll_of_frame ?_ ?_ ?_ (bufAll_of_fr3 hf hB)
        · exact st_modDev_same _ _ _ (fun _ => rfl)
        · exact bv_modDev_same _ _ _ (fun _ => rfl)
        · intro q; rfl
      | true =>
        obtain ⟨z, w0, hH⟩ := tryGive_handed w x p hg hb
        have : tryList givePart w (w.sortedDown x) p = ((tryList givePart w (w.sortedDown x) p).1, true) := by
          rw [← hb]
        rw [this]
        simp only []
        generalize (tryList givePart w (w.sortedDown x) p).1 = w1 at hH
        have hB1 : BufAll w1 := by
          intro y hyk
          rw [kind_of_st hH.st] at hyk
          have hy := lt_of_kind_buffer hyk
          by_cases hyz : y = z
          · subst hyz; exact handed_bufOK_self hH hyk (hB y hyk)
          · refine handed_bufOK_other hI hH hy hyz ?_ (hB y hyk)
            intro e he
            by_cases hyx : y = x
            · subst hyx; exact held_output_ne_buf hI hx hp he
            · exact stored_ne_of_held hI hx hy (by simp [SDev.held, sdev, hp]) hyx he
        refine bufAll_of_frame ?_ ?_ ?_ hB1
        · rw [st_notify]; exact st_modDev_same _ _ _ (fun _ => rfl)
        · rw [bv_notify]; exact bv_modDev_same _ _ _ (fun _ => rfl)
        · intro q; rw [part_notify]; rfl

/-! ### `tryMove` of a device that is not a buffer -/

theorem bufAll_tryMove (w : World) (x : Nat) (hI : InvW w) (hB : BufAll w)
    (hk : (w.dev x).kind ≠ .buffer) : BufAll (w.tryMove x) := by
  intro y hyk
  rw [kind_of_st (st_tryMove w x)] at hyk
  have hy := lt_of_kind_buffer hyk
  have hyx : y ≠ x := by rintro rfl; exact hk hyk
  have hbo : BO x w (w.tryMove x) := bo_tryMove w x
  refine bufOK_transport (hbo.bdev_eq hyx) (by rw [hbo.now]; exact Int.le_refl _) ?_ (hB y hyk)
  intro e he
  apply leafCount_of_kids
  refine (kox_tryMove w x).2 e.2 (held_valid hI hy (buf_mem_held he)) ?_
  rintro (h | h)
  · exact hyx (SVBatchAux.held_unique hI.1 (sv_get w y hy) (sv_get w x (lt_of_part h)) (buf_mem_held he)
      (by simp [SDev.held, sdev, h]))
  · have hx : x < w.devs.length := by
      by_cases hx : x < w.devs.length
      · exact hx
      · rw [dev_of_ge w x (Nat.le_of_not_lt hx)] at h; cases h
    exact hyx (SVBatchAux.held_unique hI.1 (sv_get w y hy) (sv_get w x hx) (buf_mem_held he)
      (by simp [SDev.held, sdev, h]))

/-! ### the release loop of a buffer -/

theorem bufferLoop_one_success {w w1 : World} {x : Nat} {t : Int} {p : Nat} {rest : List (Int × Nat)}
    (hb : (w.dev x).buf = (t, p) :: rest) (hh : ¬ (w.dev x).delay - (w.now - t) > 0)
    (hr : tryList givePart w (w.sortedDown x) p = (w1, true)) :
    bufferLoop 1 w x = C05.popHead w1 x (w.leafCount p) := by
  rw [C05.bufferLoop_succ]
  simp only [hb, hh, hr, if_false]
  rfl

theorem popHead_st (w : World) (x n : Nat) : st (C05.popHead w x n) = st w := by
  unfold C05.popHead; simp only []; rw [st_addRec]; exact st_modDev_same _ _ _ (fun _ => rfl)

theorem popHead_part (w : World) (x n q : Nat) : (C05.popHead w x n).part q = w.part q := rfl

theorem popHead_now (w : World) (x n : Nat) : (C05.popHead w x n).now = w.now := rfl

theorem popHead_len (w : World) (x n : Nat) : (C05.popHead w x n).devs.length = w.devs.length := by
  unfold C05.popHead; simp

theorem popHead_bo (w : World) (x n : Nat) : BO x w (C05.popHead w x n) := by
  unfold BO C05.popHead; simp only []; rw [bv_addRec, maskB_modDev]

private theorem pairwise_append_le' {l : List Int} {t : Int} (h : l.Pairwise (· ≤ ·))
    (hle : ∀ a ∈ l, a ≤ t) : (l ++ [t]).Pairwise (· ≤ ·) := by
  rw [List.pairwise_append]
  refine ⟨h, by simp, ?_⟩
  intro a ha b hb
  simp only [List.mem_singleton] at hb
  subst hb; exact hle a ha

/-- The contract after the head has been handed to another device and popped. -/
theorem bufOK_pop {w w2 : World} {x : Nat} {t : Int} {p : Nat} {rest : List (Int × Nat)}
    (hb : (w.dev x).buf = (t, p) :: rest) (h : C05.BufOK w x)
    (hl : (w2.dev x).level = (w.dev x).level - w.leafCount p) (hbuf : (w2.dev x).buf = rest)
    (hc : (w2.dev x).cap = (w.dev x).cap) (hn : w2.now = w.now)
    (hk : ∀ e ∈ rest, w2.leafCount e.2 = w.leafCount e.2) : C05.BufOK w2 x := by
  have hs : C05.leafSum w2 (w2.dev x).buf = C05.leafSum w rest := by
    unfold C05.leafSum; rw [hbuf, C05.entries_congr hk]
  have hsum : C05.leafSum w (w.dev x).buf = w.leafCount p + C05.leafSum w rest := by
    rw [hb]; rfl
  have hsorted := h.sorted
  rw [hb] at hsorted
  refine ⟨?_, ?_, ?_, ?_⟩
  · rw [hs, hl, h.levelEq, hsum]; omega
  · intro c hcc
    rw [hc] at hcc
    have := h.capOk c hcc
    rw [hs]; omega
  · rw [hbuf]
    simp only [List.map_cons, List.pairwise_cons] at hsorted
    exact hsorted.2
  · intro e he
    rw [hbuf] at he
    rw [hn]
    exact h.arrived e (by rw [hb]; exact List.mem_cons_of_mem _ he)

/-- The contract after the buffer has handed its head to itself (through pass-through
controllers): the content is rotated. -/
theorem bufOK_rotate {w w2 : World} {x : Nat} {t : Int} {p : Nat} {rest : List (Int × Nat)}
    (hb : (w.dev x).buf = (t, p) :: rest) (h : C05.BufOK w x)
    (hl : (w2.dev x).level = (w.dev x).level) (hbuf : (w2.dev x).buf = rest ++ [(w.now, p)])
    (hc : (w2.dev x).cap = (w.dev x).cap) (hn : w2.now = w.now)
    (hk : ∀ q, w2.leafCount q = w.leafCount q) : C05.BufOK w2 x := by
  have hs : C05.leafSum w2 (w2.dev x).buf = C05.leafSum w (w.dev x).buf := by
    unfold C05.leafSum
    rw [hbuf, hb, C05.entries_congr (fun e _ => hk e.2), C05.entries_append]
    simp only [C05.entries, List.map_cons, List.map_nil, C05.count_append, C05.count]
    omega
  have hsorted := h.sorted
  rw [hb] at hsorted
  simp only [List.map_cons, List.pairwise_cons] at hsorted
  refine ⟨by rw [hs, hl]; exact h.levelEq, fun c hcc => by rw [hs]; exact h.capOk c (hc ▸ hcc), ?_, ?_⟩
  · rw [hbuf, List.map_append]
    apply pairwise_append_le' hsorted.2
    intro a ha
    obtain ⟨e, he, rfl⟩ := List.mem_map.1 ha
    exact h.arrived e (by rw [hb]; exact List.mem_cons_of_mem _ he)
  · intro e he
    rw [hbuf] at he
    rw [hn]
    rcases List.mem_append.1 he with he | he
    · exact h.arrived e (by rw [hb]; exact List.mem_cons_of_mem _ he)
    · simp only [List.mem_singleton] at he; subst he; exact Int.le_refl _

theorem held_head_ne_rest {w : World} (hI : InvW w) {x : Nat} (hx : x < w.devs.length) {t : Int} {p : Nat}
    {rest : List (Int × Nat)} (hb : (w.dev x).buf = (t, p) :: rest) {e : Int × Nat} (he : e ∈ rest) :
    e.2 ≠ p := by
  have hn := SVBatchAux.held_nodup hI.1 (List.mem_of_getElem? (sv_get w x hx))
  simp only [SDev.held, sdev, hb, List.map_cons] at hn
  have h1 : (p :: rest.map (·.2)).Nodup := by
    rw [List.nodup_append] at hn
    obtain ⟨h1, _, _⟩ := hn
    rw [List.nodup_append] at h1
    exact h1.2.1
  intro heq
  exact (List.nodup_cons.1 h1).1 (heq ▸ List.mem_map.2 ⟨e, he, rfl⟩)

/-- One successful round of the release loop preserves the contract of every buffer. -/
theorem bufAll_round {w w1 : World} {x : Nat} {t : Int} {p : Nat} {rest : List (Int × Nat)}
    (hI : InvW w) (hB : BufAll w) (hk : (w.dev x).kind = .buffer) (hg : GiveOK w x)
    (hb : (w.dev x).buf = (t, p) :: rest)
    (hr : tryList givePart w (w.sortedDown x) p = (w1, true)) :
    BufAll (C05.popHead w1 x (w.leafCount p)) := by
  have hx : x < w.devs.length := lt_of_kind_buffer hk
  have hbt : (tryList givePart w (w.sortedDown x) p).2 = true := by rw [hr]
  obtain ⟨z, w0, hH⟩ := tryGive_handed w x p hg hbt
  rw [hr] at hH
  simp only [] at hH
  have hpx : p ∈ (sdev (w.dev x)).held := by simp [SDev.held, sdev, hb]
  have hst2 : st (C05.popHead w1 x (w.leafCount p)) = st w := (popHead_st ..).trans hH.st
  have hx1 : x < w1.devs.length := by rw [hH.bo.len]; exact hx
  have hd2 := C05.popHead_dev w1 x (w.leafCount p) hx1
  intro y hyk
  rw [kind_of_st hst2] at hyk
  have hy := lt_of_kind_buffer hyk
  by_cases hyx : y = x
  · subst hyx
    by_cases hyz : y = z
    · -- the buffer handed the part to itself
      subst hyz
      have hy0 : y < w0.devs.length := by rw [devs_len_of_sv hH.fr.sv]; exact hx
      have hk0 : (w0.dev y).kind = .buffer := by rw [kind_of_fr3 hH.fr]; exact hk
      have ho0 : (w0.dev y).output = none := by rw [output_of_sv hH.fr.sv]; exact hH.output
      obtain ⟨a1, a2, _, _, a5, _, _, _, _, a10, _, a12⟩ := C05.acceptPart_buffer w0 y p hy0 hk0 ho0
      rw [← hH.eq] at a1 a2 a5 a10 a12
      obtain ⟨f1, f2, f3, _, _, _⟩ := bdev_fields (bdev_of_fr3 hH.fr y)
      have hlc0 : ∀ q, w0.leafCount q = w.leafCount q := fun q => leafCount_of_kids (kids_of_sv hH.fr.sv q)
      refine bufOK_rotate hb (hB y hk) ?_ ?_ ?_ ?_ ?_
      · rw [hd2]; show (w1.dev y).level - w.leafCount p = _
        rw [a1, f1, hlc0]; omega
      · rw [hd2]; show (w1.dev y).buf.drop 1 = _
        rw [a2, f2, hb, now_of_bv hH.fr.bv]; rfl
      · rw [hd2]; show (w1.dev y).cap = _
        rw [a5, f3]
      · rw [popHead_now, a10, now_of_bv hH.fr.bv]
      · intro q; show w1.leafCount q = _; rw [a12, hlc0]
    · -- another device took the head
      obtain ⟨f1, f2, f3, _, _, _⟩ := bdev_fields (hH.bo.bdev_eq hyz)
      refine bufOK_pop hb (hB y hk) ?_ ?_ ?_ ?_ ?_
      · rw [hd2]; show (w1.dev y).level - w.leafCount p = _; rw [f1]
      · rw [hd2]; show (w1.dev y).buf.drop 1 = _; rw [f2, hb]; rfl
      · rw [hd2]; show (w1.dev y).cap = _; rw [f3]
      · rw [popHead_now, hH.bo.now]
      · intro e he
        show w1.leafCount e.2 = _
        apply leafCount_of_kids
        rw [hH.eq]
        exact acc_kids_others z p hI hH.fr hH.lt hx
          (buf_mem_held (by rw [hb]; exact List.mem_cons_of_mem _ he)) (held_head_ne_rest hI hx hb he) hyz
  · -- a buffer other than the giver
    have hb2 : bdev ((C05.popHead w1 x (w.leafCount p)).dev y) = bdev (w1.dev y) :=
      (popHead_bo w1 x _).bdev_eq hyx
    have h1 : C05.BufOK w1 y := by
      by_cases hyz : y = z
      · subst hyz; exact handed_bufOK_self hH hyk (hB y hyk)
      · exact handed_bufOK_other hI hH hy hyz (fun e he => stored_ne_of_held hI hx hy hpx hyx he) (hB y hyk)
    exact bufOK_transport hb2 (by rw [popHead_now]; exact Int.le_refl _) (fun e _ => rfl) h1

theorem bufAll_bufferLoop (f : Nat) : ∀ (w : World) (x : Nat), InvW w → BufAll w →
    (w.dev x).kind = .buffer → GiveOK w x → BufAll (bufferLoop f w x) := by
  induction f with
  | zero => intro w x _ hB _ _; exact hB
  | succ f ih =>
    intro w x hI hB hk hg
    rw [C05.bufferLoop_succ]
    split
    · exact hB
    · rename_i t p rest hb
      split
      · exact hB
      · rename_i hh
        cases hr : tryList givePart w (w.sortedDown x) p with
        | mk w1 b =>
          cases b with
          | false =>
            simp only []
            have hf := (tryGive_gd w (w.sortedDown x) p).1 (by rw [hr])
            rw [hr] at hf
            exact bufAll_of_fr3 hf hB
          | true =>
            simp only []
            have h1 := bufferLoop_one_success hb hh hr
            have hI2 : InvW (C05.popHead w1 x (w.leafCount p)) := h1 ▸ inv_bufferLoop 1 w x hI hk hg
            have hst1 : st w1 = st w := by have := st_tryGive w (w.sortedDown x) p; rw [hr] at this; exact this
            have hst2 : st (C05.popHead w1 x (w.leafCount p)) = st w := (popHead_st ..).trans hst1
            have hl1 : w1.devs.length = w.devs.length := by
              have := congrArg (fun t => t.devs.length) hst1
              simpa [st] using this
            refine ih _ x hI2 (bufAll_round hI hB hk hg hb hr) ?_ ?_
            · rw [kind_of_st hst2]; exact hk
            · exact hg.of_st hst2 (by rw [popHead_len, hl1])

/-! ### `passPart` -/

theorem bufAll_passPart (w : World) (x : Nat) (hI : InvW w) (hB : BufAll w) (hg : GiveOK w x) :
    BufAll (w.passPart x) := by
  cases hk : (w.dev x).kind
  case source =>
    have h1 := bufAll_passHandler w x hI hB hg
    unfold World.passPart
    simp only [hk]
    repeat' split
    all_goals first
      | exact hB
      | exact h1
      | (have hI1 := inv_passHandler w x hI (by rw [hk]; decide) hg
         refine bufAll_of_ko (w := w.passHandler x) hI1 ?_ ?_ ?_ ?_ h1
         · intro y
           rw [kind_of_st (st_scheduleFinish ..), kind_of_st (st_addRec ..)]
           unfold World.modDev
           refine dev_setDev_kind _ x _ ?_ y
           rfl
         · intro y
           apply bdev_of_bv
           rw [bv_scheduleFinish, bv_addRec]
           exact bv_modDev_same _ _ _ (fun _ => rfl)
         · apply Int.le_of_eq
           apply Eq.symm
           apply now_of_bv
           rw [bv_scheduleFinish, bv_addRec]
           exact bv_modDev_same _ _ _ (fun _ => rfl)
         · refine KOx.trans ?_ (ko_scheduleFinish _ x)
           exact KO.of_parts rfl)
  case buffer =>
    unfold World.passPart
    simp only [hk]
    have h1 := bufAll_bufferLoop ((w.dev x).buf.length + 1) w x hI hB hk hg
    refine bufAll_of_frame ?_ ?_ ?_ h1
    · rw [st_notify]; split
      · rfl
      · split
        · rw [st_schedulePass]
        · exact st_setDev_same _ _ _ rfl
    · rw [bv_notify]; split
      · rfl
      · split
        · rw [bv_schedulePass]
        · exact bv_setDev_same _ _ _ rfl
    · intro q; rw [part_notify]; split
      · rfl
      · split
        · rw [part_schedulePass]
        · rfl
  case batcher =>
    unfold World.passPart
    simp only [hk]
    have h1 := bufAll_passHandler w x hI hB hg
    have hI1 := inv_passHandler w x hI (by rw [hk]; decide) hg
    split
    · exact bufAll_tryMove _ x hI1 h1 (by rw [kind_of_st (st_passHandler w x), hk]; decide)
    · exact h1
  case sink => unfold World.passPart; simp only [hk]; exact hB
  all_goals
    unfold World.passPart
    simp only [hk]
    exact bufAll_passHandler w x hI hB hg

end C05W
end SimProc
