/-
Helper lemmas for `SimProc/Props/C05.lean` (buffers).

* `World.clockRecs`: the clock and the data log; the flow-only primitives (`setErr`, `sched`,
  `schedLib`, `setWaiting`, `schedulePass`, `notifyUp`, `spaceAvail`, `notify`) change neither.
  (The frame library's `core` projection erases both, so they need their own frame lemmas.)
* `World.bufView`: the fields of a device a buffer's behaviour depends on.
* effect of a fold of `applyPartCb`, of `tryMove` / `onReceived` / `acceptPart` on a buffer.
-/
import SimProc.Model.World
import SimProc.Proofs.FloorCore2

namespace SimProc
open FloorCoreL

theorem Env.apply_sched_now (ar : Arith) (s : Env) (t a : Int) (act : Nat) (p : Int) (wt : Nat) :
    (s.apply ar (.sched t a act p wt)).1.now = s.now := by
  simp only [Env.apply, Env.schedule]
  by_cases h : t < s.now <;> simp [h]

namespace World

/-! ### clock and data log -/

/-- The clock and the data log of a world. -/
def clockRecs (w : World) : Int × List Rec := (w.env.now, w.recs)

theorem clockRecs_now {w w' : World} (h : w'.clockRecs = w.clockRecs) : w'.now = w.now :=
  congrArg Prod.fst h

theorem clockRecs_recs {w w' : World} (h : w'.clockRecs = w.clockRecs) : w'.recs = w.recs :=
  congrArg Prod.snd h

@[simp] theorem setErr_clockRecs (w : World) (m : String) : (w.setErr m).clockRecs = w.clockRecs := by
  unfold setErr; split <;> rfl

@[simp] theorem setDev_clockRecs (w : World) (x : Nat) (d : Dev) :
    (w.setDev x d).clockRecs = w.clockRecs := rfl

@[simp] theorem modDev_clockRecs (w : World) (x : Nat) (f : Dev → Dev) :
    (w.modDev x f).clockRecs = w.clockRecs := rfl

@[simp] theorem addRes_clockRecs (w : World) (r : Res) : (w.addRes r).clockRecs = w.clockRecs := rfl

@[simp] theorem sched_fst_clockRecs (w : World) (t a : Int) (act : Action) (p : Int) :
    (w.sched t a act p).1.clockRecs = w.clockRecs := by
  unfold sched
  dsimp only
  split
  · next e h =>
    have := Env.apply_sched_now Arith.exact w.env t a act.toNat p
      (weightOf w.seed w.wmod t a act.toNat p)
    rw [h] at this
    have this : e.now = w.env.now := this
    simp only [clockRecs, this]
  · rfl

@[simp] theorem schedLib_clockRecs (w : World) (t a : Int) (act : Action) (p : Int) :
    (w.schedLib t a act p).clockRecs = w.clockRecs := by
  have h := sched_fst_clockRecs w t a act p
  unfold schedLib
  generalize w.sched t a act p = s at h ⊢
  obtain ⟨w', r⟩ := s
  cases r <;> simp_all

@[simp] theorem setWaiting_clockRecs (w : World) (x : Nat) (a b : Bool) :
    (w.setWaiting x a b).clockRecs = w.clockRecs := by
  unfold setWaiting
  dsimp only
  repeat' split
  all_goals rfl

@[simp] theorem schedulePass_clockRecs (w : World) (x : Nat) (o : Int) :
    (w.schedulePass x o).clockRecs = w.clockRecs := by
  unfold schedulePass
  dsimp only
  split
  · rfl
  · rw [schedLib_clockRecs]; rfl

theorem foldl_clockRecs {α} (g : World → α → World) (l : List α) (w : World)
    (h : ∀ w a, (g w a).clockRecs = w.clockRecs) : (l.foldl g w).clockRecs = w.clockRecs :=
  foldl_preserve clockRecs g l w h

theorem notifyUp_spaceAvail_clockRecs (n : Nat) :
    ∀ w x, (notifyUp n w x).clockRecs = w.clockRecs ∧ (spaceAvail n w x).clockRecs = w.clockRecs := by
  induction n with
  | zero => intro w x; constructor <;> simp [notifyUp, spaceAvail]
  | succ n ih =>
    intro w x
    have hN : ∀ w x, (notifyUp n w x).clockRecs = w.clockRecs := fun w x => (ih w x).1
    have hS : ∀ w x, (spaceAvail n w x).clockRecs = w.clockRecs := fun w x => (ih w x).2
    constructor
    · rw [notifyUp]
      repeat' split
      all_goals first
        | rfl
        | exact (foldl_clockRecs _ _ _ hS).trans (setWaiting_clockRecs _ _ _ _)
        | exact foldl_clockRecs _ _ _ hS
        | exact foldl_clockRecs _ _ _ hN
    · rw [spaceAvail]
      repeat' split
      all_goals first
        | rfl
        | exact hN _ _
        | exact hS _ _
        | exact schedulePass_clockRecs _ _ _

@[simp] theorem notify_clockRecs (w : World) (x : Nat) : (w.notify x).clockRecs = w.clockRecs :=
  (notifyUp_spaceAvail_clockRecs _ w x).1

@[simp] theorem applyPartCb_clockRecs (w : World) (x p : Nat) (c : PartCb) :
    (w.applyPartCb x p c).clockRecs = w.clockRecs := by
  simp only [clockRecs, applyPartCb_env, applyPartCb_recs]

@[simp] theorem addHist_clockRecs (w : World) (p d : Nat) :
    (w.addHist p d).clockRecs = w.clockRecs := by
  simp only [clockRecs, addHist_env, addHist_recs]

/-! ### the buffer's view of a device -/

/-- The fields of a device the behaviour of a buffer depends on (everything except the flow flags
and the cycle-time fields, which a buffer ignores). -/
structure BufView where
  kind : Kind
  cap : Option Nat
  delay : Int
  buf : List (Int × Nat)
  level : Nat
  part : Option Nat
  output : Option Nat
  blockInput : Bool
  recvCbs : List PartCb

def _root_.SimProc.Dev.bufView (d : Dev) : BufView :=
  ⟨d.kind, d.cap, d.delay, d.buf, d.level, d.part, d.output, d.blockInput, d.recvCbs⟩

@[simp] theorem bufView_kind (d : Dev) : d.bufView.kind = d.kind := rfl
@[simp] theorem bufView_cap (d : Dev) : d.bufView.cap = d.cap := rfl
@[simp] theorem bufView_delay (d : Dev) : d.bufView.delay = d.delay := rfl
@[simp] theorem bufView_buf (d : Dev) : d.bufView.buf = d.buf := rfl
@[simp] theorem bufView_level (d : Dev) : d.bufView.level = d.level := rfl
@[simp] theorem bufView_part (d : Dev) : d.bufView.part = d.part := rfl
@[simp] theorem bufView_output (d : Dev) : d.bufView.output = d.output := rfl
@[simp] theorem bufView_blockInput (d : Dev) : d.bufView.blockInput = d.blockInput := rfl
@[simp] theorem bufView_recvCbs (d : Dev) : d.bufView.recvCbs = d.recvCbs := rfl

/-- Two devices with the same view agree on the viewed fields. -/
theorem bufView_fields {d d' : Dev} (h : d'.bufView = d.bufView) :
    d'.kind = d.kind ∧ d'.cap = d.cap ∧ d'.delay = d.delay ∧ d'.buf = d.buf ∧ d'.level = d.level ∧
    d'.part = d.part ∧ d'.output = d.output ∧ d'.blockInput = d.blockInput := by
  have h1 := congrArg BufView.kind h; have h2 := congrArg BufView.cap h
  have h3 := congrArg BufView.delay h; have h4 := congrArg BufView.buf h
  have h5 := congrArg BufView.level h; have h6 := congrArg BufView.part h
  have h7 := congrArg BufView.output h; have h8 := congrArg BufView.blockInput h
  simp only [bufView_kind, bufView_cap, bufView_delay, bufView_buf, bufView_level, bufView_part,
    bufView_output, bufView_blockInput] at h1 h2 h3 h4 h5 h6 h7 h8
  exact ⟨h1, h2, h3, h4, h5, h6, h7, h8⟩

/-- The viewed fields of a device whose view is an update of another device's view. -/
theorem bufView_fields_upd {d d' : Dev} {lv : Nat} {bf : List (Int × Nat)} {pt : Option Nat}
    (h : d'.bufView = { d.bufView with level := lv, buf := bf, part := pt }) :
    d'.kind = d.kind ∧ d'.cap = d.cap ∧ d'.delay = d.delay ∧ d'.buf = bf ∧ d'.level = lv ∧
    d'.part = pt ∧ d'.output = d.output ∧ d'.blockInput = d.blockInput := by
  have h1 := congrArg BufView.kind h; have h2 := congrArg BufView.cap h
  have h3 := congrArg BufView.delay h; have h4 := congrArg BufView.buf h
  have h5 := congrArg BufView.level h; have h6 := congrArg BufView.part h
  have h7 := congrArg BufView.output h; have h8 := congrArg BufView.blockInput h
  simp only [bufView_kind, bufView_cap, bufView_delay, bufView_buf, bufView_level, bufView_part,
    bufView_output, bufView_blockInput] at h1 h2 h3 h4 h5 h6 h7 h8
  exact ⟨h1, h2, h3, h4, h5, h6, h7, h8⟩

theorem core_eq_bufView {w w' : World} (h : w'.core = w.core) (x : Nat) :
    (w'.dev x).bufView = (w.dev x).bufView :=
  core_eq_field Dev.bufView (fun _ => rfl) h x

/-- The receive callbacks of a device do not touch what a buffer looks at. -/
theorem foldl_applyPartCb (cbs : List PartCb) (w : World) (x p : Nat) :
    let w' := cbs.foldl (fun w c => w.applyPartCb x p c) w
    (∀ y, (w'.dev y).bufView = (w.dev y).bufView) ∧ w'.clockRecs = w.clockRecs ∧
    w'.devs.length = w.devs.length ∧ ∀ q, w'.leafCount q = w.leafCount q := by
  refine ⟨fun y => ?_, ?_, ?_, fun q => ?_⟩
  · exact foldl_preserve (fun w => (w.dev y).bufView) _ cbs w
      (fun w c => applyPartCb_dev_field Dev.bufView (fun _ _ _ => rfl) w x p c y)
  · exact foldl_preserve clockRecs _ cbs w (fun w c => applyPartCb_clockRecs w x p c)
  · exact foldl_preserve (fun w => w.devs.length) _ cbs w (fun w c => applyPartCb_devs_length w x p c)
  · exact foldl_preserve (fun w => w.leafCount q) _ cbs w (fun w c => applyPartCb_leafCount w x p c q)

/-! ### `tryMove` on a buffer -/

/-- `tryMove` on a buffer that holds `p` in its input slot: `p` goes to the end of the queue with the
current time; everything else is notification and scheduling. -/
theorem tryMove_buffer (w : World) (x p : Nat) (hk : (w.dev x).kind = .buffer)
    (hp : (w.dev x).part = some p) :
    (w.tryMove x).core =
      (w.setDev x { w.dev x with buf := (w.dev x).buf ++ [(w.now, p)], part := none }).core ∧
    (w.tryMove x).clockRecs = w.clockRecs := by
  unfold tryMove
  simp only [hk, hp]
  split
  · exact ⟨by rw [schedulePass_core, notify_core], by rw [schedulePass_clockRecs, notify_clockRecs]; rfl⟩
  · exact ⟨by rw [notify_core], by rw [notify_clockRecs]; rfl⟩

/-! ### `onReceived` and `acceptPart` on a buffer -/

/-- The common tail of `onReceived`: run the receive callbacks, then `tryMove`. -/
def recvTail (w : World) (x p : Nat) : World :=
  let w := (w.dev x).recvCbs.foldl (fun w c => w.applyPartCb x p c) w
  if (w.dev x).output.isNone then w.tryMove x else w

theorem recvTail_buffer (w : World) (x p : Nat) (hx : x < w.devs.length)
    (hk : (w.dev x).kind = .buffer) (hp : (w.dev x).part = some p)
    (ho : (w.dev x).output = none) :
    ((w.recvTail x p).dev x).bufView =
      { (w.dev x).bufView with buf := (w.dev x).buf ++ [(w.now, p)], part := none } ∧
    (∀ y, y ≠ x → ((w.recvTail x p).dev y).bufView = (w.dev y).bufView) ∧
    (w.recvTail x p).clockRecs = w.clockRecs ∧
    (w.recvTail x p).devs.length = w.devs.length ∧
    ∀ q, (w.recvTail x p).leafCount q = w.leafCount q := by
  unfold recvTail
  obtain ⟨hv, hc, hl, hq⟩ := foldl_applyPartCb (w.dev x).recvCbs w x p
  generalize (w.dev x).recvCbs.foldl (fun w c => w.applyPartCb x p c) w = w3 at hv hc hl hq
  dsimp only at hv hc hl hq ⊢
  have hvx := hv x
  have hk3 : (w3.dev x).kind = .buffer := (congrArg BufView.kind hvx).trans hk
  have hp3 : (w3.dev x).part = some p := (congrArg BufView.part hvx).trans hp
  have ho3 : (w3.dev x).output = none := (congrArg BufView.output hvx).trans ho
  have hnow : w3.now = w.now := clockRecs_now hc
  rw [ho3]
  simp only [Option.isNone_none, if_true]
  obtain ⟨hcore, hcr⟩ := tryMove_buffer w3 x p hk3 hp3
  have hx3 : x < w3.devs.length := by omega
  refine ⟨?_, fun y hy => ?_, hcr.trans hc, ?_, fun q => ?_⟩
  · rw [core_eq_bufView hcore x, dev_setDev_same hx3, hnow]
    show ({ (w3.dev x).bufView with buf := (w3.dev x).buf ++ [(w.now, p)], part := none } : BufView) = _
    rw [hvx]
    have : (w3.dev x).buf = (w.dev x).buf := congrArg BufView.buf hvx
    rw [this]
  · rw [core_eq_bufView hcore y, dev_setDev_ne (Ne.symm hy), hv y]
  · rw [core_eq_devs_length hcore, setDev_devs_length, hl]
  · rw [core_eq_leafCount hcore]
    exact hq q

/-- `onReceived` on a buffer whose input slot holds the received part and whose output slot is
empty: the level rises by the number of parts, a `level` record and the `received` record are
written (in this order, nothing else), and the part goes to the end of the queue. -/
theorem onReceived_buffer (w : World) (x p : Nat) (hx : x < w.devs.length)
    (hk : (w.dev x).kind = .buffer) (hp : (w.dev x).part = some p)
    (ho : (w.dev x).output = none) :
    ((w.onReceived x p).dev x).bufView =
      { (w.dev x).bufView with
        level := (w.dev x).level + w.leafCount p
        buf := (w.dev x).buf ++ [(w.now, p)], part := none } ∧
    (∀ y, y ≠ x → ((w.onReceived x p).dev y).bufView = (w.dev y).bufView) ∧
    (w.onReceived x p).recs = w.recs ++
      [.level x w.now ((w.dev x).level + w.leafCount p),
       .received x w.now p (w.part p).quality (w.partValue p)] ∧
    (w.onReceived x p).now = w.now ∧
    (w.onReceived x p).devs.length = w.devs.length ∧
    ∀ q, (w.onReceived x p).leafCount q = w.leafCount q := by
  have hon : w.onReceived x p =
      (((w.setDev x { w.dev x with level := (w.dev x).level + w.leafCount p }).addRec
          (.level x w.now ((w.dev x).level + w.leafCount p))).addRec
          (.received x w.now p (w.part p).quality (w.partValue p))).recvTail x p := by
    unfold onReceived recvTail
    simp only [hk]
    rw [dev_addRec, dev_setDev_same hx]
    rfl
  rw [hon]
  generalize hw2 : ((w.setDev x { w.dev x with level := (w.dev x).level + w.leafCount p }).addRec
          (.level x w.now ((w.dev x).level + w.leafCount p))).addRec
          (.received x w.now p (w.part p).quality (w.partValue p)) = w2
  have hd2 : w2.dev x = { w.dev x with level := (w.dev x).level + w.leafCount p } := by
    rw [← hw2, dev_addRec, dev_addRec, dev_setDev_same hx]
  have hdy : ∀ y, y ≠ x → w2.dev y = w.dev y := by
    intro y hy; rw [← hw2, dev_addRec, dev_addRec, dev_setDev_ne (Ne.symm hy)]
  have hl2 : w2.devs.length = w.devs.length := by rw [← hw2]; exact setDev_devs_length
  have hnow2 : w2.now = w.now := by rw [← hw2]; rfl
  have hrecs2 : w2.recs = w.recs ++ [.level x w.now ((w.dev x).level + w.leafCount p),
       .received x w.now p (w.part p).quality (w.partValue p)] := by
    rw [← hw2]; simp [addRec]
  have hlc2 : ∀ q, w2.leafCount q = w.leafCount q := by intro q; rw [← hw2]; rfl
  obtain ⟨h1, h2, h3, h4, h5⟩ := recvTail_buffer w2 x p (by omega) (by rw [hd2]; exact hk)
    (by rw [hd2]; exact hp) (by rw [hd2]; exact ho)
  refine ⟨?_, fun y hy => ?_, ?_, ?_, ?_, fun q => ?_⟩
  · rw [h1, hd2, hnow2]; rfl
  · rw [h2 y hy, hdy y hy]
  · rw [clockRecs_recs h3, hrecs2]
  · rw [clockRecs_now h3, hnow2]
  · rw [h4, hl2]
  · rw [h5, hlc2]

/-- `acceptPart` on a buffer with an empty output slot (what `give` calls when `canAcceptBasic`
holds). -/
theorem acceptPart_buffer (w : World) (x p : Nat) (hx : x < w.devs.length)
    (hk : (w.dev x).kind = .buffer) (ho : (w.dev x).output = none) :
    ((w.acceptPart x p).dev x).bufView =
      { (w.dev x).bufView with
        level := (w.dev x).level + w.leafCount p
        buf := (w.dev x).buf ++ [(w.now, p)], part := none } ∧
    (∀ y, y ≠ x → ((w.acceptPart x p).dev y).bufView = (w.dev y).bufView) ∧
    (w.acceptPart x p).recs = w.recs ++
      [.level x w.now ((w.dev x).level + w.leafCount p),
       .received x w.now p (w.part p).quality (w.partValue p)] ∧
    (w.acceptPart x p).now = w.now ∧
    (w.acceptPart x p).devs.length = w.devs.length ∧
    ∀ q, (w.acceptPart x p).leafCount q = w.leafCount q := by
  unfold acceptPart
  have hns : ((w.dev x).kind == Kind.sink) = false := by rw [hk]; rfl
  simp only [hns, Bool.false_eq_true, if_false]
  generalize hw1 : ((w.modDev x (fun d => { d with part := some p })).addHist p x).setWaiting x false false = w1
  have hd1 : w1.dev x = { w.dev x with part := some p, since := none } := by
    rw [← hw1]
    unfold setWaiting
    simp only [Bool.not_false, if_true]
    rw [dev_setDev_same (by simp [hx]), dev_addHist, dev_modDev_same hx]
  have hdy : ∀ y, y ≠ x → w1.dev y = w.dev y := by
    intro y hy
    rw [← hw1]
    unfold setWaiting
    simp only [Bool.not_false, if_true]
    rw [dev_setDev_ne (Ne.symm hy), dev_addHist, dev_modDev_ne (Ne.symm hy)]
  have hl1 : w1.devs.length = w.devs.length := by rw [← hw1]; simp
  have hcr1 : w1.clockRecs = w.clockRecs := by rw [← hw1]; simp
  have hlc1 : ∀ q, w1.leafCount q = w.leafCount q := by
    intro q; rw [← hw1, core_eq_leafCount (setWaiting_core _ _ _ _), addHist_leafCount]; rfl
  have hq1 : (w1.part p).quality = (w.part p).quality := by
    rw [← hw1, core_eq_part (setWaiting_core _ _ _ _), addHist_part_quality]; rfl
  have hv1 : w1.partValue p = w.partValue p := by
    rw [← hw1, core_eq_partValue (setWaiting_core _ _ _ _), addHist_partValue]; rfl
  obtain ⟨h1, h2, h3, h4, h5, h6⟩ := onReceived_buffer w1 x p (by omega) (by rw [hd1]; exact hk)
    (by rw [hd1]) (by rw [hd1]; exact ho)
  refine ⟨?_, fun y hy => ?_, ?_, ?_, ?_, fun q => ?_⟩
  · rw [h1, hd1, clockRecs_now hcr1, hlc1]; rfl
  · rw [h2 y hy, hdy y hy]
  · rw [h3, hd1, clockRecs_now hcr1, clockRecs_recs hcr1, hlc1, hq1, hv1]
  · rw [h4, clockRecs_now hcr1]
  · rw [h5, hl1]
  · rw [h6, hlc1]

/-! ### frame of a hand-over to a machine, sink or buffer other than `x`

`Same x w w'`: going from `w` to `w'` changed nothing a buffer `x` depends on: the non-flow fields
of device `x`, the number of devices, the clock, the batch structure of the parts, and the kinds of
all devices. -/

structure Same (x : Nat) (w w' : World) : Prop where
  dev : (w'.dev x).core = (w.dev x).core
  len : w'.devs.length = w.devs.length
  now : w'.now = w.now
  kids : ∀ q, (w'.part q).kids = (w.part q).kids
  kind : ∀ z, (w'.dev z).kind = (w.dev z).kind

/-- The fields of a device that its core determines (those a buffer's contract mentions). -/
theorem core_fields {d d' : Dev} (h : d'.core = d.core) :
    d'.buf = d.buf ∧ d'.level = d.level ∧ d'.delay = d.delay ∧ d'.cap = d.cap ∧
    d'.down = d.down ∧ d'.kind = d.kind := by
  have h1 := congrArg Dev.buf h; have h2 := congrArg Dev.level h
  have h3 := congrArg Dev.delay h; have h4 := congrArg Dev.cap h
  have h5 := congrArg Dev.down h; have h6 := congrArg Dev.kind h
  exact ⟨h1, h2, h3, h4, h5, h6⟩

theorem Same.refl (x : Nat) (w : World) : Same x w w := ⟨rfl, rfl, rfl, fun _ => rfl, fun _ => rfl⟩

theorem Same.trans {x : Nat} {w w' w'' : World} (h : Same x w w') (h' : Same x w' w'') :
    Same x w w'' :=
  ⟨h'.dev.trans h.dev, h'.len.trans h.len, h'.now.trans h.now,
    fun q => (h'.kids q).trans (h.kids q), fun z => (h'.kind z).trans (h.kind z)⟩

theorem Same.leafCount {x : Nat} {w w' : World} (h : Same x w w') (q : Nat) :
    w'.leafCount q = w.leafCount q := by
  unfold World.leafCount; rw [h.kids q]

/-- Flow-only steps. -/
theorem Same.of_core {x : Nat} {w w' : World} (hc : w'.core = w.core) (hn : w'.now = w.now) :
    Same x w w' :=
  ⟨core_eq_dev hc x, core_eq_devs_length hc, hn, fun q => by rw [core_eq_part hc],
    fun z => core_eq_dev_kind hc z⟩

theorem same_setErr (x : Nat) (w : World) (m : String) : Same x w (w.setErr m) :=
  .of_core (setErr_core w m) (clockRecs_now (setErr_clockRecs w m))

theorem same_addRec (x : Nat) (w : World) (r : Rec) : Same x w (w.addRec r) :=
  .of_core rfl rfl

theorem same_addRes (x : Nat) (w : World) (r : Res) : Same x w (w.addRes r) :=
  .of_core rfl rfl

theorem same_schedLib (x : Nat) (w : World) (t a : Int) (act : Action) (p : Int) :
    Same x w (w.schedLib t a act p) :=
  .of_core (schedLib_core ..) (clockRecs_now (schedLib_clockRecs ..))

theorem same_setWaiting (x : Nat) (w : World) (y : Nat) (a b : Bool) :
    Same x w (w.setWaiting y a b) :=
  .of_core (setWaiting_core ..) (clockRecs_now (setWaiting_clockRecs ..))

theorem same_schedulePass (x : Nat) (w : World) (y : Nat) (o : Int) :
    Same x w (w.schedulePass y o) :=
  .of_core (schedulePass_core ..) (clockRecs_now (schedulePass_clockRecs ..))

theorem same_notify (x : Nat) (w : World) (y : Nat) : Same x w (w.notify y) :=
  .of_core (notify_core ..) (clockRecs_now (notify_clockRecs ..))

/-- Overwriting another device with a device of the same kind. -/
theorem same_setDev {x y : Nat} (w : World) (d : Dev) (hy : y ≠ x)
    (hk : d.kind = (w.dev y).kind) : Same x w (w.setDev y d) := by
  refine ⟨by rw [dev_setDev_ne hy], setDev_devs_length, rfl, fun _ => rfl, fun z => ?_⟩
  rw [dev_setDev]; split
  · next h => rw [hk, h.1]
  · rfl

theorem same_modDev {x y : Nat} (w : World) (f : Dev → Dev) (hy : y ≠ x)
    (hk : (f (w.dev y)).kind = (w.dev y).kind) : Same x w (w.modDev y f) :=
  same_setDev w _ hy hk

theorem same_applyPartCb {x y : Nat} (w : World) (p : Nat) (c : PartCb) (hy : y ≠ x) :
    Same x w (w.applyPartCb y p c) :=
  ⟨by rw [applyPartCb_dev_ne w p c (Ne.symm hy)], applyPartCb_devs_length ..,
    by unfold World.now; rw [applyPartCb_env], fun q => applyPartCb_part_kids ..,
    fun z => applyPartCb_dev_field Dev.kind (fun _ _ _ => rfl) w y p c z⟩

theorem same_foldl {α} {x : Nat} (g : World → α → World) (l : List α) (w : World)
    (h : ∀ w a, Same x w (g w a)) : Same x w (l.foldl g w) := by
  induction l generalizing w with
  | nil => exact .refl x w
  | cons a l ih => exact (h w a).trans (ih (g w a))

theorem same_addHist (x : Nat) (w : World) (p d : Nat) : Same x w (w.addHist p d) :=
  ⟨by rw [dev_addHist], by rw [addHist_devs], by unfold World.now; rw [addHist_env],
    fun q => addHist_part_kids .., fun z => by rw [dev_addHist]⟩

theorem rmEffects_now (w : World) (recs : List ResRec) (check : Bool) :
    (w.rmEffects recs check).now = w.now := by
  have h : ∀ w : World, (recs.foldl (fun w r => w.addRec (.resUpdate r.res w.now r.inUse r.cap)) w).now
      = w.now := fun w => foldl_preserve World.now _ recs w (fun _ _ => rfl)
  unfold rmEffects
  split
  · rw [clockRecs_now (schedLib_clockRecs ..)]; exact h w
  · exact h w

theorem procAcquire_now (w : World) (y : Nat) : (w.procAcquire y).1.now = w.now := by
  unfold procAcquire
  dsimp only
  repeat' split
  all_goals first
    | rfl
    | exact clockRecs_now (setErr_clockRecs _ _)
    | (dsimp only; exact (rmEffects_now _ _ _).trans rfl)

theorem same_procAcquire {x y : Nat} (w : World) (hy : y ≠ x) : Same x w (w.procAcquire y).1 :=
  ⟨by rw [procAcquire_dev_ne w (Ne.symm hy)], procAcquire_devs_length .., procAcquire_now ..,
    fun q => by rw [part_procAcquire],
    fun z => procAcquire_dev_field Dev.kind (fun _ _ _ => rfl) w y z⟩

/-- Steps that touch neither devices, parts nor the environment. -/
theorem Same.of_triple {x : Nat} {w w' : World}
    (h : (w'.devs, w'.parts, w'.env) = (w.devs, w.parts, w.env)) : Same x w w' := by
  have hd : w'.devs = w.devs := congrArg (·.1) h
  have hp : w'.parts = w.parts := congrArg (·.2.1) h
  have he : w'.env = w.env := congrArg (·.2.2) h
  exact ⟨by rw [dev_congr hd], by rw [hd], by unfold World.now; rw [he],
    fun q => by rw [part_congr hp], fun z => by rw [dev_congr hd]⟩

theorem same_senseOutput (x : Nat) (w : World) (s p : Nat) : Same x w (w.senseOutput s p) := by
  unfold senseOutput
  dsimp only
  split
  · exact Same.of_triple
      (foldl_preserve (fun w : World => (w.devs, w.parts, w.env)) _ _ _ (fun _ _ => rfl))
  · exact ⟨rfl, rfl, rfl, fun _ => rfl, fun _ => rfl⟩

/-- Kinds of devices a buffer may feed directly in the corollary `bufferLoop_release_simple`:
machines, sinks and buffers. -/
def plainKind (k : Kind) : Prop := k = .handler ∨ k = .processor ∨ k = .sink ∨ k = .buffer

theorem same_with_delivered (x : Nat) (w : World) (l : List Nat) :
    Same x w { w with delivered := l } := ⟨rfl, rfl, rfl, fun _ => rfl, fun _ => rfl⟩

/-- Peel the outermost primitive off the final world of a `Same` goal. -/
local macro "same_peel" : tactic => `(tactic| first
  | refine Same.trans ?_ (same_schedulePass _ _ _ _)
  | refine Same.trans ?_ (same_notify _ _ _)
  | refine Same.trans ?_ (same_setWaiting _ _ _ _ _)
  | refine Same.trans ?_ (same_schedLib _ _ _ _ _ _)
  | refine Same.trans ?_ (same_setErr _ _ _)
  | refine Same.trans ?_ (same_addRec _ _ _)
  | refine Same.trans ?_ (same_addRes _ _ _)
  | refine Same.trans ?_ (same_addHist _ _ _ _)
  | refine Same.trans ?_ (same_setDev _ _ (by assumption) (by rfl))
  | refine Same.trans ?_ (same_modDev _ _ (by assumption) (by rfl))
  | refine Same.trans ?_ (same_foldl _ _ _ (fun w c => same_applyPartCb w _ c (by assumption)))
  | refine Same.trans ?_ (same_foldl _ _ _ (fun w s => same_senseOutput _ w s _))
  | exact Same.refl _ _)

theorem same_finishCycleHandler {x y : Nat} (w : World) (hy : y ≠ x) :
    Same x w (w.finishCycleHandler y) := by
  unfold finishCycleHandler
  dsimp only
  repeat' split
  all_goals repeat same_peel

/-- Chain a step whose frame lemma needs the kind of `y` (which the steps so far preserved). -/
theorem Same.step {x y : Nat} {w w' w'' : World} (hk : plainKind (w.dev y).kind) (h : Same x w w')
    (h' : plainKind (w'.dev y).kind → Same x w' w'') : Same x w w'' :=
  h.trans (h' (by rw [h.kind y]; exact hk))

theorem same_finishCycle {x y : Nat} (w : World) (hy : y ≠ x) (hk : plainKind (w.dev y).kind) :
    Same x w (w.finishCycle y) := by
  unfold finishCycle
  dsimp only
  split
  · next h => rcases hk with hk | hk | hk | hk <;> rw [h] at hk <;> cases hk
  · -- sink
    repeat same_peel
    exact same_finishCycleHandler w hy
  · -- processor
    repeat' split
    all_goals repeat same_peel
    all_goals exact same_finishCycleHandler w hy
  · exact same_finishCycleHandler w hy

theorem same_scheduleFinish {x y : Nat} (w : World) (hy : y ≠ x)
    (hk : plainKind (w.dev y).kind) : Same x w (w.scheduleFinish y) := by
  unfold scheduleFinish
  dsimp only
  repeat' split
  all_goals first
    | (refine Same.step hk ?_ (fun hk' => same_finishCycle _ hy hk'); repeat same_peel)
    | (repeat same_peel)

theorem same_tryMove {x y : Nat} (w : World) (hy : y ≠ x) (hk : plainKind (w.dev y).kind) :
    Same x w (w.tryMove y) := by
  unfold tryMove
  dsimp only
  split
  · -- buffer
    repeat' split
    all_goals repeat same_peel
  · next h => rcases hk with hk | hk | hk | hk <;> rw [h] at hk <;> cases hk
  · split
    · refine Same.step hk ?_ (fun hk' => same_scheduleFinish _ hy hk')
      repeat same_peel
    · exact .refl x w
  · split
    · exact same_scheduleFinish w hy hk
    · exact .refl x w

theorem same_onReceived {x y : Nat} (w : World) (p : Nat) (hy : y ≠ x)
    (hk : plainKind (w.dev y).kind) : Same x w (w.onReceived y p) := by
  unfold onReceived
  dsimp only
  repeat' split
  all_goals first
    | (refine Same.step hk ?_ (fun hk' => same_tryMove _ hy hk'); repeat same_peel)
    | (repeat same_peel)

theorem same_acceptPart {x y : Nat} (w : World) (p : Nat) (hy : y ≠ x)
    (hk : plainKind (w.dev y).kind) : Same x w (w.acceptPart y p) := by
  unfold acceptPart
  dsimp only
  refine Same.step hk ?_ (fun hk' => same_onReceived _ p hy hk')
  repeat same_peel
  split
  · exact same_with_delivered ..
  · exact .refl x w

/-- `give_part` to a machine, sink or buffer other than `x`. -/
theorem same_give {x y : Nat} (f : Nat) (w : World) (p : Nat) (hy : y ≠ x)
    (hk : plainKind (w.dev y).kind) : Same x w (give (f + 1) w y p).1 := by
  rw [give]
  dsimp only
  have hk0 := hk
  rcases hk0 with hk' | hk' | hk' | hk'
  all_goals simp only [hk']
  · split
    · dsimp only; exact same_acceptPart w p hy hk
    · exact .refl x w
  · split
    · have h1 := same_procAcquire (x := x) w hy
      generalize w.procAcquire y = r at h1 ⊢
      obtain ⟨w1, b⟩ := r
      cases b
      · exact h1
      · dsimp only at h1 ⊢
        exact h1.trans (same_acceptPart w1 p hy (by rw [h1.kind y]; exact hk))
    · exact .refl x w
  · split
    · dsimp only; exact same_acceptPart w p hy hk
    · exact .refl x w
  · split
    · dsimp only; exact same_acceptPart w p hy hk
    · exact .refl x w

theorem same_givePart {x y : Nat} (w : World) (p : Nat) (hy : y ≠ x)
    (hk : plainKind (w.dev y).kind) : Same x w (w.givePart y p).1 :=
  same_give _ w p hy hk

theorem same_tryList {x : Nat} (l : List Nat) (w : World) (p : Nat)
    (hl : ∀ y ∈ l, y ≠ x ∧ plainKind (w.dev y).kind) : Same x w (tryList givePart w l p).1 := by
  induction l generalizing w with
  | nil => exact .refl x w
  | cons y ys ih =>
    rw [tryList]
    have h1 := same_givePart (x := x) w p (hl y (List.mem_cons_self ..)).1
      (hl y (List.mem_cons_self ..)).2
    generalize w.givePart y p = r at h1 ⊢
    obtain ⟨w1, b⟩ := r
    cases b
    · dsimp only
      exact h1.trans (ih w1 (fun z hz => by
        have := hl z (List.mem_cons_of_mem _ hz)
        exact ⟨this.1, by rw [h1.kind z]; exact this.2⟩))
    · exact h1

theorem mem_insertByKey {key : Nat → Option Int} {a b : Nat} {l : List Nat} :
    a ∈ insertByKey key b l → a = b ∨ a ∈ l := by
  induction l with
  | nil => simp [insertByKey]
  | cons y ys ih =>
    unfold insertByKey
    split
    · intro h
      rcases List.mem_cons.1 h with h | h
      · exact Or.inr (h ▸ List.mem_cons_self ..)
      · rcases ih h with h | h
        · exact Or.inl h
        · exact Or.inr (List.mem_cons_of_mem _ h)
    · intro h
      rcases List.mem_cons.1 h with h | h
      · exact Or.inl h
      · exact Or.inr h

theorem mem_stableSort {key : Nat → Option Int} {a : Nat} {l : List Nat} :
    a ∈ stableSort key l → a ∈ l := by
  unfold stableSort
  suffices h : ∀ acc, a ∈ l.foldl (fun acc x => insertByKey key x acc) acc → a ∈ acc ∨ a ∈ l by
    intro ha; rcases h [] ha with h | h
    · cases h
    · exact h
  induction l with
  | nil => intro acc h; exact Or.inl h
  | cons y ys ih =>
    intro acc h
    rcases ih _ h with h | h
    · rcases mem_insertByKey h with h | h
      · exact Or.inr (h ▸ List.mem_cons_self ..)
      · exact Or.inl h
    · exact Or.inr (List.mem_cons_of_mem _ h)

theorem mem_sortedDown {w : World} {x a : Nat} (h : a ∈ w.sortedDown x) : a ∈ (w.dev x).down :=
  mem_stableSort h

end World
end SimProc
