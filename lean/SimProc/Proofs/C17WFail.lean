/-
C17W machinery, part 5: the static condition "no failure event for a device that is not a
`PartProcessor` is pending or paused" is preserved by every step (scripts cannot schedule such a
failure: `applyOp` rejects `schedFail` on other devices; the library never schedules failures by
itself).  Under it, no batcher ever fails, and the order property holds for every event.
The chain `srp_*` is the chain `sr_*` of `Proofs/StaticWorld.lean` for this set of "bad" devices.
-/
import SimProc.Proofs.C17WRun
namespace SimProc
namespace C17W
open World C02V C05W

/-- `sk` is the set of devices that are not processors. -/
def PK (sk : Nat → Prop) (w : World) : Prop := ∀ d, sk d ↔ (w.dev d).kind ≠ .processor

def StatP (sk : Nat → Prop) (w : World) : Prop := PK sk w ∧ ScriptsStatic w

theorem StatP.of_srp {sk : Nat → Prop} {w w' : World} (h : StatP sk w) (r : SR sk w w') : StatP sk w' := by
  refine ⟨fun d => ?_, ?_⟩
  · rw [kind_of_tv r.1]; exact h.1 d
  · intro l hl op hop
    rw [r.2.1] at hl
    exact opStatic_of_tv r.1 op (h.2 l hl op hop)

theorem hbp_applyOp (sk : Nat → Prop) (w : World) (op : Op) (hs : PK sk w) (h : OpStatic w op) :
    HasBad (badAct sk) (w.applyOp op).1 = HasBad (badAct sk) w := by
  cases op
  case rewire d ups => exact absurd h id
  case create s => exact absurd h id
  case schedFail d t =>
    simp only [World.applyOp]
    split
    · rfl
    · rename_i hk
      refine hb_sched _ _ _ _ _ _ (not_bad_fail sk d (fun hd => (hs d).1 hd ?_))
      cases hkk : (w.dev d).kind <;> simp_all
  case schedFailRel d t =>
    simp only [World.applyOp]
    split
    · rfl
    · rename_i hk
      refine hb_sched _ _ _ _ _ _ (not_bad_fail sk d (fun hd => (hs d).1 hd ?_))
      cases hkk : (w.dev d).kind <;> simp_all
  all_goals (unfold World.applyOp; frame')

theorem srp_applyOp (sk : Nat → Prop) (w : World) (op : Op) (hs : PK sk w) (h : OpStatic w op) :
    SR sk w (w.applyOp op).1 :=
  ⟨tv_applyOp_static w op h, scr_applyOp w op, hbp_applyOp sk w op hs h⟩


theorem srp_applyOps (sk : Nat → Prop) (ops : List Op) : ∀ (w : World), StatP sk w →
    (∀ op ∈ ops, OpStatic w op) → SR sk w (w.applyOps ops) := by
  induction ops with
  | nil => intro w _ _; exact SR.refl sk w
  | cons op ops ih =>
    intro w h hok
    unfold World.applyOps
    simp only [List.foldl_cons]
    have r1 : SR sk w ((w.applyOp op).1.addRes (w.applyOp op).2) :=
      (srp_applyOp sk w op h.1 (hok op (List.mem_cons_self ..))).trans ⟨rfl, rfl, rfl⟩
    have := ih ((w.applyOp op).1.addRes (w.applyOp op).2) (h.of_srp r1)
      (fun o ho => opStatic_of_tv r1.1 o (hok o (List.mem_cons_of_mem _ ho)))
    unfold World.applyOps at this
    exact r1.trans this

theorem srp_runScript (sk : Nat → Prop) (w : World) (k : Nat) (h : StatP sk w) : SR sk w (w.runScript k) := by
  unfold World.runScript
  apply srp_applyOps sk _ w h
  intro op hop
  by_cases hk : k < w.scripts.length
  · have : w.scripts.getD k [] = w.scripts[k] := by simp [List.getD_eq_getElem?_getD, hk]
    rw [this] at hop
    exact h.2 _ (List.getElem_mem hk) op hop
  · have : w.scripts.getD k [] = [] := by simp [List.getD_eq_getElem?_getD, Nat.le_of_not_lt hk]
    rw [this] at hop; cases hop

theorem srp_scan (sk : Nat → Prop) (n : Nat) : ∀ (w : World) (i : Nat), StatP sk w →
    SR sk w (scanWaiting scanOps n w i) := by
  induction n with
  | zero => intro w i _; exact SR.refl sk w
  | succ n ih =>
    intro w i h
    unfold scanWaiting
    split
    · exact SR.refl sk w
    · split
      · rename_i req cb _ _
        have r1 : SR sk w (scanOps.erase (scanOps.call w cb req) i) := by
          cases cb with
          | script k =>
            have r0 : SR sk w (w.addRes (.cb k)) := ⟨rfl, rfl, rfl⟩
            exact (r0.trans (srp_runScript sk _ k (h.of_srp r0))).trans ⟨rfl, rfl, rfl⟩
          | proc d =>
            exact (SR.of_st (st_procResourceCb w d) (scr_procResourceCb w d) (hb_procResourceCb sk w d)).trans
              ⟨rfl, rfl, rfl⟩
        exact r1.trans (ih _ _ (h.of_srp r1))
      · exact ih _ _ h

theorem srp_rmCheck (sk : Nat → Prop) (w : World) (h : StatP sk w) : SR sk w w.rmCheck := srp_scan sk _ _ _ h

theorem srp_hookStart (sk : Nat → Prop) (w : World) (tgt : Nat) (tag : Int) (h : StatP sk w) :
    SR sk w (w.hookStart tgt tag) := by
  have r0 : SR sk w (w.addRes (.hook true tgt tag)) := ⟨rfl, rfl, rfl⟩
  unfold World.hookStart
  simp only []
  split
  · exact r0.trans (SR.of_st (st_shutdownDev ..) (scr_shutdownDev ..) (hb_shutdownDev sk ..))
  · split
    · exact r0.trans (srp_runScript sk _ _ (h.of_srp r0))
    · exact r0

theorem srp_hookEnd (sk : Nat → Prop) (w : World) (tgt : Nat) (tag : Int) (h : StatP sk w) :
    SR sk w (w.hookEnd tgt tag) := by
  have r0 : SR sk w (w.addRes (.hook false tgt tag)) := ⟨rfl, rfl, rfl⟩
  unfold World.hookEnd
  simp only []
  split
  · exact r0.trans (SR.of_st (st_restoreDev ..) (scr_restoreDev ..) (hb_restoreDev sk ..))
  · split
    · exact r0.trans (srp_runScript sk _ _ (h.of_srp r0))
    · exact r0

theorem srp_startWork (sk : Nat → Prop) (w : World) (m seq : Nat) (h : StatP sk w) :
    SR sk w (w.startWork m seq) := by
  have key : ∀ w' : World, SR sk w w' → ∀ t g a b d,
      SR sk w ((w'.hookStart t g).schedLib a b (.finishWork m seq) d) := fun w' r t g a b d =>
    (r.trans (srp_hookStart sk w' t g (h.of_srp r))).trans
      (SR.of_st (st_schedLib ..) (scr_schedLib ..)
        (hb_schedLib _ _ _ _ _ _ (not_bad_of_not_fail sk _ (by intro d h; cases h))))
  unfold World.startWork
  split
  · exact SR.of_st (st_setErr ..) (scr_setErr ..) (hb_setErr ..)
  · simp only []
    refine key _ ?_ _ _ _ _ _
    exact ⟨rfl, rfl, rfl⟩

theorem srp_finishWork (sk : Nat → Prop) (w : World) (m seq : Nat) (h : StatP sk w) :
    SR sk w (w.finishWork m seq) := by
  have key : ∀ w' : World, SR sk w w' → ∀ w'' : World, SR sk w' w'' → ∀ m l,
      SR sk w (w''.startOrders m l) := fun w' r w'' r' m l =>
    (r.trans r').trans (SR.of_st (st_startOrders ..) (scr_startOrders ..) (hb_startOrders sk ..))
  unfold World.finishWork
  split
  · exact SR.of_st (st_setErr ..) (scr_setErr ..) (hb_setErr ..)
  · simp only []
    rename_i o _
    refine key _ (srp_hookEnd sk w o.target o.tag h) _ ?_ _ _
    exact ⟨rfl, rfl, rfl⟩


theorem srp_exec (sk : Nat → Prop) (w : World) (a : Action) (h : StatP sk w) : SR sk w (w.exec a) := by
  cases a with
  | terminate => exact SR.refl sk w
  | script k => exact srp_runScript sk w k h
  | finishCycle d => exact SR.of_st (st_finishCycle w d) (scr_finishCycle w d) (hb_finishCycle sk w d)
  | passPart d => exact ⟨tv_passPart w d, scr_passPart w d, hb_passPart sk w d⟩
  | fail d => exact SR.of_st (st_failDev w d) (scr_failDev w d) (hb_failDev sk w d)
  | releaseIfIdle d => exact SR.of_st (st_releaseIfIdle w d) (scr_releaseIfIdle w d) (hb_releaseIfIdle sk w d)
  | rmCheck => exact srp_rmCheck sk w h
  | startWork m o => exact srp_startWork sk w m o h
  | finishWork m o => exact srp_finishWork sk w m o h
  | schedUpdate s => exact SR.of_st (st_schedUpdate w s true) (scr_schedUpdate w s true) (hb_schedUpdate sk w s true)
  | periodicSense s => exact SR.of_st (st_periodicSense w s) (scr_periodicSense w s) (hb_periodicSense sk w s)
  | unknown n => exact SR.of_st (st_setErr ..) (scr_setErr ..) (hb_setErr ..)


/-! ### the static condition -/

/-- No failure event for a device that is not a processor is pending or paused. -/
def NoFailNonProc (w : World) : Prop := ¬ HasBad (badAct (fun d => (w.dev d).kind ≠ .processor)) w

theorem NoFailNonProc.of_sr {w w' : World} (h : NoFailNonProc w)
    (r : SR (fun d => (w.dev d).kind ≠ .processor) w w') : NoFailNonProc w' := by
  have e : (fun d => (w'.dev d).kind ≠ .processor) = (fun d => (w.dev d).kind ≠ .processor) := by
    funext d; rw [kind_of_tv r.1]
  unfold NoFailNonProc
  rw [e, r.2.2]; exact h

theorem noFail_pop (w : World) (e : Event) (env' : Env) (h : NoFailNonProc w)
    (hst : w.env.step = some (e, env')) : NoFailNonProc ({ w with env := env' } : World) := by
  intro hb
  apply h
  obtain ⟨n, hn, hbad⟩ := hb
  refine ⟨n, ?_, hbad⟩
  unfold Env.step at hst
  split at hst
  · cases hst
  · rename_i e' es he
    simp only [Option.some.injEq, Prod.mk.injEq] at hst
    rw [mem_acts] at hn ⊢
    obtain ⟨x, hx, rfl⟩ := hn
    rw [← hst.2] at hx
    refine ⟨x, ?_, rfl⟩
    rw [he]
    rcases hx with hx | hx
    · exact Or.inl (List.mem_cons_of_mem _ hx)
    · exact Or.inr hx

/-- The popped event is not the failure of a device that is not a processor. -/
theorem noFail_head (w : World) (e : Event) (env' : Env) (h : NoFailNonProc w)
    (hst : w.env.step = some (e, env')) (d : Nat) (hd : Action.ofNat e.act = .fail d) :
    (w.dev d).kind = .processor := by
  apply Classical.byContradiction
  intro hk
  apply h
  refine ⟨e.act, ?_, d, hd, hk⟩
  rw [mem_acts]
  refine ⟨e, Or.inl ?_, rfl⟩
  unfold Env.step at hst
  split at hst
  · cases hst
  · rename_i e' es he
    simp only [Option.some.injEq, Prod.mk.injEq] at hst
    rw [he, ← hst.1]; exact List.mem_cons_self ..

theorem noFail_step (w w' : World) (e : Event) (hw : Static w) (h : NoFailNonProc w)
    (hst : w.step = some (e, w')) : NoFailNonProc w' := by
  unfold World.step at hst
  split at hst
  · cases hst
  · rename_i e' env' henv
    simp only [Option.some.injEq, Prod.mk.injEq] at hst
    obtain ⟨rfl, rfl⟩ := hst
    have h1 := noFail_pop w e' env' h henv
    split
    · exact h1.of_sr (srp_exec _ _ _ ⟨fun _ => Iff.rfl, hw.1⟩)
    · exact h1

theorem noFail_runLoop (n : Nat) : ∀ (w : World), InvW w → Static w → NoFailNonProc w →
    NoFailNonProc (runLoop n w) := by
  induction n with
  | zero =>
    intro w _ _ h
    exact h.of_sr (SR.of_st (st_setErr ..) (scr_setErr ..) (hb_setErr ..))
  | succ n ih =>
    intro w hI hw h
    unfold runLoop
    split
    · split
      · exact h
      · rename_i e w' hst
        have := static_step w w' e hI hw hst
        exact ih w' this.1 this.2 (noFail_step w w' e hw h hst)
    · exact h

theorem noFail_simulateInit (w : World) (h : NoFailNonProc w) : NoFailNonProc w.simulateInit :=
  h.of_sr (sr_simulateInit _ w)

end C17W
end SimProc
